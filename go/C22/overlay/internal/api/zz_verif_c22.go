//go:build verif

package api

import "time"

// Thin accessors for the C22 harness (cmd/verif-c22). No logic under test is copied here.

func VerifC22MathDiv(a, b int64) int64                  { return mathDiv(a, b) }
func VerifC22RoundTime(t, step, utcOffset int64) int64  { return roundTime(t, step, utcOffset) }
func VerifC22CalcUTCOffset(loc *time.Location, weekStartsAt time.Weekday) int64 {
	return calcUTCOffset(loc, weekStartsAt)
}
func VerifC22ShiftTimestamp(timestamp, stepSec, shift int64, loc *time.Location) int64 {
	return shiftTimestamp(timestamp, stepSec, shift, loc)
}
