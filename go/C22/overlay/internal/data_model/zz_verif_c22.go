//go:build verif

package data_model

import "time"

// Thin accessors for the C22 harness (cmd/verif-c22). No logic under test is copied here.

type VerifLodSwitch struct {
	RelSwitch int64
	Levels    []int64
}

func verifSwitches(in []lodSwitch) []VerifLodSwitch {
	out := make([]VerifLodSwitch, 0, len(in))
	for _, s := range in {
		out = append(out, VerifLodSwitch{RelSwitch: s.relSwitch, Levels: append([]int64(nil), s.levels...)})
	}
	return out
}

// VerifLodLevels returns lodLevels[Version6] as the compiler sees it.
func VerifLodLevels() []VerifLodSwitch { return verifSwitches(lodLevels[Version6]) }

// VerifLodLevelsMonthly returns lodLevelsV3Monthly.
func VerifLodLevelsMonthly() []VerifLodSwitch { return verifSwitches(lodLevelsV3Monthly) }

func VerifMaxPoints() int64  { return maxPoints }
func VerifMonthStep() int64  { return _1M }
func VerifOutOfRangeErr() error { return errQueryOutOfRange }

func VerifRoundTime(t, step, utcOffset int64) int64 { return roundTime(t, step, utcOffset) }
func VerifStartOfLOD(start, step int64, loc *time.Location, utcOffset int64) int64 {
	return startOfLOD(start, step, loc, utcOffset)
}
func VerifEndOfLOD(start, step, end int64, le bool, loc *time.Location) (int64, int) {
	return endOfLOD(start, step, end, le, loc)
}
