//go:build verif

package agent

import (
	"fmt"
	"sync"

	"pgregory.net/rand"

	"github.com/VKCOM/statshouse/internal/data_model"
	"github.com/VKCOM/statshouse/internal/pcache"
)

// Accessors for the C12 harness. They only assemble an Agent from parts (exactly like makeAgent in agent_test.go:
// shards with empty super-queue buckets, a mapping cache, no network, no goroutines) and walk the shard buckets.
// No logic under test is copied here.

// VerifC12Agent builds an agent with nShards shards whose CurrentTime is `now` and SendTime is `now-2`.
// legacy selects Config.LegacyApplyValues (--legacy-apply-values).
func VerifC12Agent(nShards int, now uint32, mappings *pcache.MappingsCache, seed uint64, legacy bool) *Agent {
	config := Config{LegacyApplyValues: legacy}
	a := &Agent{
		config:             config,
		logF:               func(f string, a ...any) { fmt.Printf(f, a...) },
		mappingsCache:      mappings,
		shardByMetricCount: uint32(nShards),
	}
	a.Shards = make([]*Shard, nShards)
	for i := range a.Shards {
		shard := &Shard{
			ShardNum:    i,
			ShardKey:    int32(i) + 1,
			config:      config,
			agent:       a,
			rng:         rand.New(seed + uint64(i)),
			CurrentTime: now,
			SendTime:    now - 2,
		}
		for j := 0; j < superQueueLen; j++ {
			shard.SuperQueue[j] = &data_model.MetricsBucket{}
		}
		shard.cond = sync.NewCond(&shard.mu)
		a.Shards[i] = shard
	}
	a.initBuiltInMetrics()
	return a
}

// VerifC12Walk calls f for every MultiItem currently held in any super-queue bucket of any shard.
func VerifC12Walk(a *Agent, f func(shard int, slot int, item *data_model.MultiItem)) {
	for _, s := range a.Shards {
		s.mu.Lock()
		for j, b := range s.SuperQueue {
			for _, it := range b.MultiItems {
				f(s.ShardNum, j, it)
			}
		}
		s.mu.Unlock()
	}
}

// VerifC12FutureSlots is superQueueFutureSlots as compiled.
func VerifC12FutureSlots() int { return superQueueFutureSlots }
