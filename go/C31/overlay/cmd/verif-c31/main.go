//go:build verif

// verif-c31: correspondence + direct oracle for the balancer egress (property C31).
//
// Layer 1 (case index % 8 != 7, "manual sender"): the real handler / Egress / tcpPool / pktBuffer, with the harness playing the
// sender goroutine: it calls the real pktBuffer.pop with a scripted write callback. Every op is followed by quiescence
// (each sender is idle, blocked in the callback, or holds a ticket of the buffer's sync.Cond), then the observable state
// is printed and diffed against the Lean model. The only real-time element is `timer`: the harness waits for the real
// time.AfterFunc of swap() (1 s) to release the parked sender, with a 10 s budget.
//
// Layer 2 (case index % 8 == 7, "live"): real sendLoop goroutines writing to loopback TCP sinks; only the direct oracle
// (framing, order, completeness, latency, drop accounting) is evaluated — no model ops.
//
// Cases are computed concurrently (each costs >= 1 s of real time when a timer is involved) and printed in order.
package main

import (
	"bytes"
	"context"
	"encoding/binary"
	"errors"
	"fmt"
	"io"
	"log"
	"net"
	"os"
	"strconv"
	"sort"
	"strings"
	"sync"
	"syscall"
	"time"

	"github.com/VKCOM/statshouse/internal/balancer"
	"github.com/VKCOM/statshouse/internal/data_model/gen2/tlstatshouse"
	"github.com/VKCOM/statshouse/internal/verifx"
)

const (
	timerBudget  = 10 * time.Second // real timer is 1 s: 10x
	settleBudget = 10 * time.Second
	taintAfter   = 500 * time.Millisecond // a sender parked this long without a `timer` op: its 1 s timer may interfere
)

// ---------------------------------------------------------------- per-case output buffer

type out struct {
	lines []string
	stats map[string]int64
}

func (o *out) Op(f string, a ...any)  { o.lines = append(o.lines, "> "+fmt.Sprintf(f, a...)) }
func (o *out) Obs(f string, a ...any) { o.lines = append(o.lines, "< "+fmt.Sprintf(f, a...)) }
func (o *out) Viol(sig, f string, a ...any) {
	o.lines = append(o.lines, "! sig="+sig+" "+strings.ReplaceAll(fmt.Sprintf(f, a...), "\n", " "))
}
func (o *out) NT(tag string) {
	l := "@nt " + tag
	for _, x := range o.lines {
		if x == l {
			return
		}
	}
	o.lines = append(o.lines, l)
}
func (o *out) Stat(k string, n int64) { o.stats[k] += n }

func newOut() *out { return &out{stats: map[string]int64{}} }

// ---------------------------------------------------------------- layer 1

type evt struct {
	write bool
	k     int
	nb    int
	fnv   uint64
	pkts  [][]byte // copies (small packets) or nil for huge ones
	err   bool     // for ret
}

type ans struct {
	n   int
	err error
}

type msender struct {
	inPop       bool
	fCalled     bool
	inWrite     bool
	lastBatch   int
	evCh        chan evt
	ansCh       chan ans
	parkedSince time.Time
	timed       bool // a `timer` op was already issued for the swap in progress
}

type l1 struct {
	o       *out
	e       *balancer.Egress
	h       balancer.VerifHandler
	c       balancer.VerifConsts
	s       [2]*msender
	tainted bool
	dead    bool // stop generating ops (hang / stuck)
	// oracle bookkeeping, independent of the model
	bodies    map[uint32][]byte // seq -> body
	pushed    []uint32          // non-empty packets in push order
	dropped   map[uint32]bool
	fate      map[uint32]int // 1 written, 2 skipped after a write error
	lastSeq   [2]int64       // last seq seen in a write of sender i
	curBatch  [2][]uint32
	dropBytes int64 // since the last report
	fwdSeen   uint64
	dropSeen  uint64
	closed    bool
	nextSeq   uint32
}

var errScripted = errors.New("scripted write error")

func fnvAdd(h uint64, b []byte) uint64 {
	for _, x := range b {
		h = (h ^ uint64(x)) * 1099511628211
	}
	return h
}

func (x *l1) startPop(i int) {
	s := x.s[i]
	s.inPop, s.fCalled, s.inWrite, s.timed = true, false, false, false
	s.parkedSince = time.Now()
	go func() {
		err := balancer.VerifPop(x.e, i, func(pkts [][]byte) (int, error) {
			ev := evt{write: true, k: len(pkts), fnv: 14695981039346656037}
			for _, p := range pkts {
				ev.nb += len(p)
				ev.fnv = fnvAdd(ev.fnv, p)
				ev.pkts = append(ev.pkts, append([]byte(nil), p...))
			}
			s.evCh <- ev
			a := <-s.ansCh
			return a.n, a.err
		})
		s.evCh <- evt{err: err != nil}
	}()
}

// handleEv prints one sender event and runs the byte/order oracle on it.
func (x *l1) handleEv(i int, ev evt) {
	s := x.s[i]
	// the event ends a swap() that started at parkedSince; if that was long ago and no `timer` op covered it, the real
	// 1 s timer may have interfered with the scripted schedule: the attempt is discarded and the case re-run
	if !s.inWrite && !s.timed && time.Since(s.parkedSince) > taintAfter {
		x.tainted = true
	}
	if !ev.write {
		s.inPop, s.inWrite = false, false
		x.o.Obs("ret %d %s", i, map[bool]string{false: "nil", true: "err"}[ev.err])
		return
	}
	s.fCalled, s.inWrite, s.lastBatch = true, true, ev.k
	x.o.Obs("write %d k=%d bytes=%d fnv=%016x", i, ev.k, ev.nb, ev.fnv)
	x.o.Stat("l1.write-batches", 1)
	x.o.Stat("l1.write-packets", int64(ev.k))
	// ---- direct oracle: every packet handed to the write is byte-for-byte a framed accepted packet, in acceptance
	// order per sender, never twice
	x.curBatch[i] = x.curBatch[i][:0]
	for _, p := range ev.pkts {
		if len(p) < 8 {
			x.o.Viol("l1-bytes", "sender %d writes a %d byte packet that was never accepted", i, len(p))
			continue
		}
		seq := binary.LittleEndian.Uint32(p[len(p)-4:])
		body, ok := x.bodies[seq]
		want := append(binary.LittleEndian.AppendUint32(nil, uint32(len(body))), body...)
		if !ok || !bytes.Equal(p, want) {
			x.o.Viol("l1-bytes", "sender %d writes bytes that are not the length frame + body of an accepted packet (seq %d)", i, seq)
			continue
		}
		if x.dropped[seq] {
			x.o.Viol("l1-bytes", "sender %d writes packet seq %d that was reported dropped", i, seq)
		}
		if x.fate[seq] != 0 {
			x.o.Viol("l1-duplicate", "sender %d writes packet seq %d again", i, seq)
		}
		if int64(seq) <= x.lastSeq[i] {
			x.o.Viol("l1-order", "sender %d writes seq %d after seq %d", i, seq, x.lastSeq[i])
		}
		x.lastSeq[i] = int64(seq)
		x.curBatch[i] = append(x.curBatch[i], seq)
	}
}

// settle waits until both senders are quiescent and prints their events (sender 0 first).
func (x *l1) settle() {
	deadline := time.Now().Add(settleBudget)
	for i := 0; i < 2; i++ {
		s := x.s[i]
		for {
			drained := false
			for {
				select {
				case ev := <-s.evCh:
					x.handleEv(i, ev)
					drained = true
					continue
				default:
				}
				break
			}
			if !s.inPop || s.inWrite {
				break
			}
			if !drained && balancer.VerifParked(x.e, i) == 1 {
				select { // the goroutine sends before it parks, so anything it sent is already in the channel
				case ev := <-s.evCh:
					x.handleEv(i, ev)
					continue
				default:
				}
				if !s.timed && time.Since(s.parkedSince) > taintAfter {
					x.tainted = true
				}
				break
			}
			if time.Now().After(deadline) {
				x.o.Viol("l1-hang", "sender %d neither returned nor parked within %v", i, settleBudget)
				x.dead = true
				break
			}
			time.Sleep(20 * time.Microsecond)
		}
	}
}

func (x *l1) pcStr(i int) string {
	s := x.s[i]
	switch {
	case !s.inPop:
		return "I"
	case s.inWrite:
		return "W"
	case s.fCalled:
		return "P2"
	default:
		return "P1"
	}
}

func (x *l1) state() {
	b0, b1 := balancer.VerifBuf(x.e, 0), balancer.VerifBuf(x.e, 1)
	bi := func(b bool) int {
		if b {
			return 1
		}
		return 0
	}
	x.o.Obs("st prim=%d wi=%d,%d ri=%d,%d rm=%d,%d pc=%s,%s cl=%d,%d wb=%d rc=%d,%d", balancer.VerifPrimIdx(x.e),
		b0.Wi, b1.Wi, b0.Ri, b1.Ri, b0.Rm, b1.Rm, x.pcStr(0), x.pcStr(1), bi(b0.Closed), bi(b1.Closed),
		balancer.VerifWouldBlock(x.e, 0)+balancer.VerifWouldBlock(x.e, 1), balancer.VerifReconPending(x.e, 0), balancer.VerifReconPending(x.e, 1))
}

// push one body through the real handler; returns 0 accepted-by-0, 1 accepted-by-1, 2 dropped, 3 ignored
func (x *l1) handle(body []byte, seq uint32) int {
	var wi0, wi1 int
	if len(body) > 0 {
		wi0, wi1 = balancer.VerifBuf(x.e, 0).Wi, balancer.VerifBuf(x.e, 1).Wi
	}
	_ = x.h.Handle(body)
	st := balancer.VerifStatsPeek(x.e)
	res := 3
	switch {
	case st.ForwardedPackets > x.fwdSeen:
		res = balancer.VerifPrimIdx(x.e)
	case st.DroppedPackets > x.dropSeen:
		res = 2
	}
	x.fwdSeen, x.dropSeen = st.ForwardedPackets, st.DroppedPackets
	if len(body) == 0 {
		if res != 3 {
			x.o.Viol("l1-empty-packet", "an empty packet was counted (res=%d)", res)
		}
		return res
	}
	x.bodies[seq] = body
	x.pushed = append(x.pushed, seq)
	switch res {
	case 2:
		x.dropped[seq] = true
		x.o.Stat("l1.drops", 1)
		if !x.closed {
			x.dropBytes += int64(len(body) + x.c.PktHeadLen)
			// ---- direct oracle: a packet is dropped only when both send buffers are full
			if wi0 < x.c.BufferLen || wi1 < x.c.BufferLen {
				x.o.Viol("l1-drop-not-full", "packet seq %d dropped with wi=%d,%d (bufferLen %d)", seq, wi0, wi1, x.c.BufferLen)
			}
			x.o.NT("both-full-drop")
		}
	case 3:
		x.o.Viol("l1-uncounted", "non-empty packet seq %d neither forwarded nor dropped by the counters", seq)
	}
	return res
}

func (x *l1) mkBody(r *verifx.Rng, pre []byte, seq uint32) []byte {
	return binary.LittleEndian.AppendUint32(append([]byte(nil), pre...), seq)
}

func (x *l1) answer(i int, ok bool, n int) {
	s := x.s[i]
	s.inWrite = false
	s.parkedSince = time.Now()
	s.timed = false
	// oracle bookkeeping of fates
	b := x.curBatch[i]
	if ok {
		for _, q := range b {
			x.fate[q] = 1
		}
		s.ansCh <- ans{0, nil}
		return
	}
	k := len(b) - n - 1
	for j := 0; j < k && j < len(b); j++ {
		x.fate[b[j]] = 1
	}
	if k >= 0 && k < len(b) {
		x.fate[b[k]] = 2
	}
	// the packets after position k will be offered again: forget the order cursor past them
	if k >= 0 && k < len(b) {
		x.lastSeq[i] = int64(b[k])
	}
	s.ansCh <- ans{n, errScripted}
}

// waitTimer waits for the real 1 s timer of the swap() in progress to release sender i.
func (x *l1) waitTimer(i int) bool {
	s := x.s[i]
	s.timed = true
	deadline := s.parkedSince.Add(timerBudget)
	if d := time.Now().Add(timerBudget - time.Second); d.After(deadline) {
		deadline = d
	}
	t := time.NewTimer(time.Until(deadline))
	defer t.Stop()
	select {
	case ev := <-s.evCh:
		x.handleEv(i, ev)
		return true
	case <-t.C:
		return false
	}
}

type recConn struct {
	fail bool
	data []byte
	hook func() // runs inside Write, i.e. while the report is "on the wire"
}

func (c *recConn) Write(b []byte) (int, error) {
	if c.hook != nil {
		c.hook()
	}
	if c.fail {
		return 0, errScripted
	}
	c.data = append(c.data, b...)
	return len(b), nil
}
func (c *recConn) Read([]byte) (int, error)         { return 0, io.EOF }
func (c *recConn) Close() error                     { return nil }
func (c *recConn) LocalAddr() net.Addr              { return nil }
func (c *recConn) RemoteAddr() net.Addr             { return nil }
func (c *recConn) SetDeadline(time.Time) error      { return nil }
func (c *recConn) SetReadDeadline(time.Time) error  { return nil }
func (c *recConn) SetWriteDeadline(time.Time) error { return nil }

// decodeReport: frame -> value of the single __src_client_write_err metric, or -1
func decodeReport(frame []byte, host string) (int64, string) {
	if len(frame) < 4 || int(binary.LittleEndian.Uint32(frame)) != len(frame)-4 {
		return -1, "bad frame"
	}
	var b tlstatshouse.AddMetricsBatch
	rest, err := b.ReadTL1Boxed(frame[4:])
	if err != nil || len(rest) != 0 || len(b.Metrics) != 1 {
		return -1, fmt.Sprintf("not a single-metric batch: %v", err)
	}
	m := b.Metrics[0]
	if m.Name != "__src_client_write_err" || len(m.Value) != 1 || m.Tags["2"] != "1" || m.Tags["_h"] != host {
		return -1, fmt.Sprintf("unexpected metric %q tags=%v values=%v", m.Name, m.Tags, m.Value)
	}
	v := m.Value[0]
	if v != float64(int64(v)) {
		return -1, "non-integer value"
	}
	return int64(v), ""
}

const hostTag = "verif-host"

func runL1(seed uint64, idx int, o *out) (tainted bool) {
	r := caseRng(seed, idx)
	c := balancer.VerifGetConsts()
	e := balancer.VerifNewManual(balancer.EgressConfig{HostTag: hostTag})
	x := &l1{o: o, e: e, h: balancer.VerifNewHandler(e), c: c, bodies: map[uint32][]byte{}, dropped: map[uint32]bool{}, fate: map[uint32]int{},
		lastSeq: [2]int64{-1, -1}, nextSeq: uint32(r.Range(0, 1000))}
	for i := range x.s {
		x.s[i] = &msender{evCh: make(chan evt, 4), ansCh: make(chan ans, 1)}
	}
	defer func() { // unblock whatever is still parked / writing
		for i := range x.s {
			if x.s[i].inWrite {
				x.s[i].ansCh <- ans{0, nil}
			}
		}
		if !x.closed {
			_ = e.Close()
		}
	}()
	thr := c.BufferLen * 20 / 100 // only used to aim the generator at the boundary; the model has its own
	o.Op("new %d", c.BufferLen)
	profile := r.Pick(4, 3, 2, 2) // 0 mixed, 1 batching boundary, 2 buffer-full, 3 errors
	o.Stat(fmt.Sprintf("l1.profile.%d", profile), 1)
	nops := r.Range(6, 40)
	timers := 0
	maxTimers := r.Pick(3, 3, 1) // 0,1,2 timer ops (each costs >= 1 s)
	wantDrain := r.Chance(1, 3)
	burstSize := func() int {
		switch profile {
		case 1:
			return []int{r.Range(1, 5), r.Range(thr-3, thr+2), r.Range(1, thr-1)}[r.Pick(2, 3, 2)]
		case 2:
			return []int{r.Range(1, 5), r.Range(c.BufferLen-3, c.BufferLen+3), r.Range(2*c.BufferLen-2, 2*c.BufferLen+6), r.Range(thr-2, thr+2)}[r.Pick(2, 4, 2, 2)]
		default:
			return []int{r.Range(1, 6), r.Range(thr-3, thr+2), r.Range(c.BufferLen-2, c.BufferLen+2)}[r.Pick(6, 3, 1)]
		}
	}
	doBurst := func(k int) {
		pre := r.Bytes(r.Range(0, 12))
		o.Op("burst %d %d %s", k, x.nextSeq, verifx.Hex(pre))
		o.Stat("l1.op.burst", 1)
		o.Stat("l1.pushes", int64(k))
		var acc [2]int
		drops := 0
		for j := 0; j < k && !x.dead; j++ {
			seq := x.nextSeq
			x.nextSeq++
			p0 := balancer.VerifPrimIdx(x.e)
			res := x.handle(x.mkBody(r, pre, seq), seq)
			if res < 2 {
				acc[res]++
				if res != p0 {
					o.NT("failover")
					o.Stat("l1.failovers", 1)
				}
			} else if res == 2 {
				drops++
			}
			x.settle()
		}
		o.Obs("burst acc=%d,%d drop=%d", acc[0], acc[1], drops)
		x.state()
	}
	// `timer`: wait until the batch timeout (time.AfterFunc in swap, 1 s) of every parked sender has fired. All parked
	// senders are covered by one op because their timers run concurrently in real time.
	doTimer := func() bool {
		o.Op("timer")
		o.Stat("l1.op.timer", 1)
		timers++
		for i := 0; i < 2; i++ {
			s := x.s[i]
			if !s.inPop || s.inWrite || s.timed {
				continue
			}
			b := balancer.VerifBuf(x.e, i)
			if b.Wi > 0 && b.Wi < thr {
				o.NT("timeout-releases-partial-batch")
			} else {
				o.NT("timeout-idle")
			}
			if !x.waitTimer(i) {
				// ---- direct oracle: bounded delay even if no further packets arrive
				o.Viol("sender-sleeps-through-batch-timeout", "sender %d still parked in pktBuffer.swap %v after the batch timeout (1 s) was armed, with %d accepted packets waiting in its buffer; nothing but a further push would wake it",
					i, timerBudget, b.Wi)
				x.state()
				x.dead = true
				return false
			}
		}
		x.settle()
		x.state()
		return true
	}
	// `report i ok|err`: the real reportWouldBlockIfAny of sender i on a scripted connection. `reportpush … <body>`: while the
	// report is being written (inside conn.Write) a packet is handed to the real handler — with both buffers full that is a
	// real drop through tcpPool.writeLocked, concurrent with the report.
	doReport := func(i int, fail bool, during bool) {
		var body []byte
		seq := x.nextSeq
		if during {
			body = x.mkBody(r, r.Bytes(r.Range(0, 12)), seq)
			x.nextSeq++
			o.Op("reportpush %d %s %s", i, map[bool]string{false: "ok", true: "err"}[fail], verifx.Hex(body))
			o.Stat("l1.op.reportpush", 1)
		} else {
			o.Op("report %d %s", i, map[bool]string{false: "ok", true: "err"}[fail])
			o.Stat("l1.op.report", 1)
		}
		pushRes, pushed := -1, false
		var added int64
		doPush := func() {
			pushed = true
			dropsBefore := x.dropBytes
			pushRes = x.handle(body, seq)
			added = x.dropBytes - dropsBefore
		}
		conn := &recConn{fail: fail}
		if during {
			conn.hook = doPush
		}
		pendingBefore := x.dropBytes
		wbBefore := balancer.VerifWouldBlock(e, 0) + balancer.VerifWouldBlock(e, 1)
		balancer.VerifReport(e, i, conn)
		wbAfter := balancer.VerifWouldBlock(e, 0) + balancer.VerifWouldBlock(e, 1)
		var v int64
		if len(conn.data) > 0 {
			var why string
			if v, why = decodeReport(conn.data, hostTag); v < 0 {
				o.Viol("l1-report-malformed", "would-block report is not a framed statshouse.addMetricsBatch with one __src_client_write_err value: %s", why)
				v = 0
			}
		}
		// bytes that are neither pending any more nor announced upstream
		vanished := wbBefore + added - wbAfter - v
		switch {
		case fail && vanished != 0:
			o.Obs("report-lost %d", vanished) // allowed: the failed write is counted in WriteErrors
			x.dropBytes -= vanished
		case len(conn.data) == 0:
			o.Obs("report none")
		default:
			o.Obs("report %d", v)
			x.dropBytes -= v
			o.NT("drop-reported")
		}
		// ---- direct oracle: every drop is reported upstream — dropped bytes = reported + still pending (+ failed report writes)
		if !fail && vanished != 0 {
			if pushed && added > 0 {
				o.Viol("l1-report-lost-concurrent-drop", "a packet (%d bytes) was dropped with both buffers full while the would-block report (%d bytes) was being written; afterwards wouldBlockBytes=%d: %d dropped bytes are neither pending nor reported", added, v, wbAfter, vanished)
			} else {
				o.Viol("l1-report-mismatch", "would-block report of %d bytes: pending before %d, pending after %d: %d dropped bytes are neither pending nor reported", v, wbBefore, wbAfter, vanished)
			}
		} else if i == 0 && len(conn.data) > 0 && v != pendingBefore {
			o.Viol("l1-report-mismatch", "report says %d bytes, %d bytes were dropped since the last report", v, pendingBefore)
		}
		if during {
			if !pushed { // nothing was pending, so nothing was written: the packet arrives right after the report call
				doPush()
			}
			if pushed && added > 0 {
				o.NT("drop-concurrent-with-report")
			}
			o.Obs("push %s", []string{"acc=0", "acc=1", "drop", "ign"}[pushRes])
			x.settle()
		}
		x.state()
	}
	// `pick i k`: k real addressPool.pick calls of sender i (what k consecutive reconnect attempts dial)
	doPick := func(i, k int) {
		o.Op("pick %d %d", i, k)
		o.Stat("l1.op.pick", 1)
		res := make([]string, k)
		for j := range res {
			if a, ok := balancer.VerifPick(e, i); ok {
				res[j] = a
			} else {
				res[j] = "x"
			}
		}
		o.Obs("pick %s", strings.Join(res, ","))
	}
	anyParked := func() bool {
		for i := 0; i < 2; i++ {
			s := x.s[i]
			if s.inPop && !s.inWrite && !s.timed {
				return true
			}
		}
		return false
	}
	for n := 0; n < nops && !x.dead && !x.tainted; n++ {
		var cands []int // op kinds possible now
		cands = append(cands, 0, 0, 0, 1) // burst, single
		for i := 0; i < 2; i++ {
			s := x.s[i]
			switch {
			case !s.inPop:
				cands = append(cands, 10+i, 10+i, 10+i)
			case s.inWrite:
				cands = append(cands, 20+i, 20+i, 20+i)
				if profile == 3 {
					cands = append(cands, 30+i, 30+i)
				} else {
					cands = append(cands, 30+i)
				}
			}
		}
		if timers < maxTimers && anyParked() {
			cands = append(cands, 40, 40)
		}
		cands = append(cands, 50, 51, 52, 53, 54, 55)
		if b0, b1 := balancer.VerifBuf(e, 0), balancer.VerifBuf(e, 1); b0.Wi >= c.BufferLen && b1.Wi >= c.BufferLen {
			cands = append(cands, 53, 53, 53)
		}
		if n > nops-3 && r.Chance(1, 4) {
			cands = append(cands, 60)
		}
		switch op := cands[r.Intn(len(cands))]; {
		case op == 0:
			doBurst(burstSize())
		case op == 1:
			var body []byte
			seq := x.nextSeq
			if !r.Chance(1, 8) {
				n := r.Range(0, 20)
				if r.Chance(1, 60) {
					n = c.PktBodyMax - 4
				}
				body = x.mkBody(r, r.Bytes(n), seq)
				x.nextSeq++
			}
			o.Op("h %s", verifx.Hex(body))
			o.Stat("l1.op.h", 1)
			res := x.handle(body, seq)
			o.Obs("push %s", []string{"acc=0", "acc=1", "drop", "ign"}[res])
			x.settle()
			x.state()
		case op >= 10 && op < 20:
			i := op - 10
			o.Op("pop %d", i)
			o.Stat("l1.op.pop", 1)
			x.startPop(i)
			x.settle()
			x.state()
		case op >= 20 && op < 30:
			i := op - 20
			o.Op("wres %d ok", i)
			o.Stat("l1.op.wres-ok", 1)
			x.answer(i, true, 0)
			x.settle()
			x.state()
		case op >= 30 && op < 40:
			i := op - 30
			n := r.Intn(x.s[i].lastBatch)
			if r.Chance(1, 3) {
				n = x.s[i].lastBatch - 1
			}
			o.Op("wres %d err %d", i, n)
			o.Stat("l1.op.wres-err", 1)
			o.NT("write-error")
			x.answer(i, false, n)
			x.settle()
			x.state()
		case op == 40:
			doTimer()
		case op == 50:
			o.Op("stats")
			st := e.Stats()
			x.fwdSeen, x.dropSeen = 0, 0
			o.Obs("stats fwd=%d drop=%d werr=%d", st.ForwardedPackets, st.DroppedPackets, st.WriteErrors)
			x.state()
		case op == 51:
			doReport(r.Pick(3, 1), r.Chance(1, 5), false)
		case op == 53:
			doReport(r.Pick(5, 1), r.Chance(1, 6), true)
		case op == 54:
			i := r.Intn(2)
			n := r.Range(0, 4)
			addrs := make([]string, n)
			for k := range addrs {
				addrs[k] = fmt.Sprint(k)
			}
			o.Op("setpool %d %d", i, n)
			o.Stat("l1.op.setpool", 1)
			balancer.VerifSetPool(e, i, addrs)
			doPick(i, r.Range(1, 2*n+2))
		case op == 55:
			doPick(r.Intn(2), r.Range(1, 6))
		case op == 52:
			i := r.Intn(2)
			o.Op("recon %d", i)
			took := balancer.VerifTakeRecon(e, i)
			o.Obs("recon %d", map[bool]int{false: 0, true: 1}[took])
			x.state()
		case op == 60:
			o.Op("close")
			o.Stat("l1.op.close", 1)
			x.closed = true
			_ = e.Close()
			x.settle()
			x.state()
			wantDrain = false
		}
	}
	// buffer-full profile: end with a report that races with a real drop (both buffers full, nobody pops)
	if profile == 2 && !x.dead && !x.tainted && !x.closed {
		doBurst(2*c.BufferLen + thr + 5)
		if !x.dead && !x.tainted {
			doReport(0, false, true)
		}
	}
	// drain phase: let both senders finish (writes succeed, batch timeouts fire), then check completeness
	if wantDrain && !x.dead && !x.tainted && !x.closed {
		o.Stat("l1.drained-cases", 1)
		for guard := 0; guard < 40 && !x.dead && !x.tainted; guard++ {
			progress := false
			for i := 0; i < 2 && !x.dead; i++ {
				s := x.s[i]
				b := balancer.VerifBuf(e, i)
				pending := b.Wi > 0 || b.Ri < b.Rm
				switch {
				case s.inWrite:
					o.Op("wres %d ok", i)
					x.answer(i, true, 0)
					x.settle()
					x.state()
					progress = true
				case !s.inPop && pending:
					o.Op("pop %d", i)
					x.startPop(i)
					x.settle()
					x.state()
					progress = true
				case s.inPop && pending && !s.timed:
					if doTimer() {
						progress = true
					}
				}
			}
			if !progress {
				break
			}
		}
		if !x.dead && !x.tainted {
			// ---- direct oracle: every accepted packet was handed to the upstream write (or skipped by a scripted write error)
			lost := 0
			for _, q := range x.pushed {
				if !x.dropped[q] && x.fate[q] == 0 {
					lost++
				}
			}
			if lost > 0 {
				o.Viol("l1-lost-in-buffer", "%d accepted packets were never handed to the upstream write after both senders drained", lost)
			}
			st := balancer.VerifStatsPeek(e)
			_ = st
			o.NT("drained")
		}
	}
	return x.tainted
}

// ---------------------------------------------------------------- layer 2: live senders, loopback sinks

type frameRec struct {
	conn    int
	payload []byte
	at      time.Time
}

type sink struct {
	ln      net.Listener
	mu      sync.Mutex
	frames  []frameRec
	badKey  int
	nconn   int
	conns   []net.Conn
	stalled bool
	cond    *sync.Cond
	key     string
	partial int // connections that ended inside a frame
	limit   int // >= 0: stop reading (stall) once the first connection has delivered this many frames
	ended   int           // connections whose reader has finished (EOF, error, held for good)
	script  []byte        // fate of connection k: 'R' reset right after the handshake, 'B' black hole (accept, never read); else normal
	hold    bool          // with limit: only the first connection stops reading, for good (it is never closed by the sink)
	done    chan struct{} // closed when the trial is over
}

// newSink: rcvbuf > 0 fixes SO_RCVBUF of the accepted connections (inherited from the listener; switches receive-buffer
// auto-tuning off), so that what can be in flight towards a sink that does not read is bounded by the sender's send buffer.
func newSink(key string, rcvbuf int) *sink {
	lc := net.ListenConfig{}
	if rcvbuf > 0 {
		lc.Control = func(_, _ string, c syscall.RawConn) error {
			var serr error
			if err := c.Control(func(fd uintptr) { serr = syscall.SetsockoptInt(int(fd), syscall.SOL_SOCKET, syscall.SO_RCVBUF, rcvbuf) }); err != nil {
				return err
			}
			return serr
		}
	}
	ln, err := lc.Listen(context.Background(), "tcp", "127.0.0.1:0")
	if err != nil {
		panic(err)
	}
	s := &sink{ln: ln, key: key, limit: -1, done: make(chan struct{})}
	s.cond = sync.NewCond(&s.mu)
	go func() {
		for {
			c, err := ln.Accept()
			if err != nil {
				return
			}
			s.mu.Lock()
			id := s.nconn
			s.nconn++
			s.conns = append(s.conns, c)
			s.mu.Unlock()
			go s.serve(id, c)
		}
	}()
	return s
}

func (s *sink) addr() string { return s.ln.Addr().String() }

func (s *sink) waitUnstalled() {
	s.mu.Lock()
	for s.stalled {
		s.cond.Wait()
	}
	s.mu.Unlock()
}

func (s *sink) setStalled(v bool) {
	s.mu.Lock()
	s.stalled = v
	s.mu.Unlock()
	s.cond.Broadcast()
}

func (s *sink) serve(id int, c net.Conn) {
	defer c.Close()
	endedOnce := false
	markEnded := func() {
		if !endedOnce {
			endedOnce = true
			s.mu.Lock()
			s.ended++
			s.mu.Unlock()
		}
	}
	defer markEnded()
	s.mu.Lock()
	mode := byte('N')
	if id < len(s.script) {
		mode = s.script[id]
	}
	s.mu.Unlock()
	switch mode {
	case 'R': // the upstream takes the handshake and resets: nothing is in flight, the sender's next write fails
		key := make([]byte, len(s.key))
		_, _ = io.ReadFull(c, key)
		if tc, ok := c.(*net.TCPConn); ok {
			_ = tc.SetLinger(0)
		}
		return
	case 'B': // accepts, never reads, never closes
		markEnded()
		<-s.done
		return
	}
	s.waitUnstalled()
	key := make([]byte, len(s.key))
	// a connection may die (or be reset by the scenario) before the handshake arrived: only bytes that differ count
	if n, err := io.ReadFull(c, key); err != nil || string(key) != s.key {
		if string(key[:n]) != s.key[:n] {
			s.mu.Lock()
			s.badKey++
			s.mu.Unlock()
		}
		return
	}
	head := make([]byte, 4)
	for {
		s.waitUnstalled()
		if _, err := io.ReadFull(c, head); err != nil {
			if err != io.EOF {
				s.mu.Lock()
				s.partial++
				s.mu.Unlock()
			}
			return
		}
		if binary.LittleEndian.Uint32(head) > 1<<20 { // no accepted packet is that long: the stream is garbage
			s.mu.Lock()
			s.badKey++
			s.mu.Unlock()
			return
		}
		body := make([]byte, binary.LittleEndian.Uint32(head))
		if _, err := io.ReadFull(c, body); err != nil {
			s.mu.Lock()
			s.partial++
			s.mu.Unlock()
			return
		}
		s.mu.Lock()
		s.frames = append(s.frames, frameRec{conn: id, payload: body, at: time.Now()})
		if id == 0 && s.limit >= 0 && len(s.frames) >= s.limit {
			s.limit = -1
			if s.hold {
				s.mu.Unlock()
				markEnded() // nothing more will ever be read from this connection
				<-s.done    // a stalled peer: alive, not reading, not closing
				return
			}
			s.stalled = true
		}
		s.mu.Unlock()
	}
}

// resetAll closes every open connection of the sink (unread data => RST).
func (s *sink) resetAll() {
	s.mu.Lock()
	cs := s.conns
	s.conns = nil
	s.mu.Unlock()
	for _, c := range cs {
		if tc, ok := c.(*net.TCPConn); ok {
			_ = tc.SetLinger(0)
		}
		_ = c.Close()
	}
}

func (s *sink) connCount() int {
	s.mu.Lock()
	defer s.mu.Unlock()
	return s.nconn
}

// unread: connections that may still deliver frames, not counting the newest one (the sender's current connection): a
// connection the sender gave up gracefully keeps delivering what the kernel had accepted until its reader sees EOF
func (s *sink) staleOpen() int {
	s.mu.Lock()
	defer s.mu.Unlock()
	n := s.nconn - s.ended - 1
	if n < 0 {
		n = 0
	}
	return n
}

func (s *sink) frameCount() int {
	s.mu.Lock()
	defer s.mu.Unlock()
	return len(s.frames)
}

func (s *sink) snapshot() []frameRec {
	s.mu.Lock()
	defer s.mu.Unlock()
	return append([]frameRec(nil), s.frames...)
}

type pushRec struct {
	seq  uint32
	body []byte
	at   time.Time
}

const stallWriteTimeout = 3 * time.Second // EgressConfig.WriteTimeout of scenario 6

const dataMagic = 0xEE // first byte of every data packet of the harness; a TL boxed batch starts with 0x39

func runL2(seed uint64, idx int, o *out, tier string) {
	r := caseRng(seed, idx)
	c := balancer.VerifGetConsts()
	thr := c.BufferLen * 20 / 100
	// 0 idle tail, 1 upstream down then up (buffers fill, drops), 2 connection resets under traffic, 3 NewEgress as is,
	// 4 upstream resets the idle connection, then a multi-packet batch arrives (write fails on the FIRST packet of the batch),
	// 5 one batch of large packets blocks in the kernel buffers of an upstream that reads m frames and then resets the
	//   connection (write fails in the MIDDLE / towards the END of the batch, after part of it was accepted by the kernel).
	// The scenario rotates with the live-trial index so that every run of >= 128 cases covers all of them several times.
	// 6 the upstream stops reading WITHOUT closing (stalled): the sender's write deadline (WriteTimeout, 3 s here) must end the
	//   blocked write so that it reconnects and forwards what it holds.
	// 7 a sender's address pool holds dead addresses (connection refused) and one live upstream: reconnect must go round the
	//   pool (addressPool.pick) and reach the live one.
	// 8 upstream scripts per connection: some connections are reset right after the handshake (the next write fails at once),
	//   then one connection is a black hole (accepts, never reads), then the upstream is healthy. The write error happens
	//   within the deadline-refresh period, so the black-hole connection must get its own write deadline.
	scen := []int{0, 4, 1, 5, 2, 7, 6, 3, 8, 1, 5, 2, 7, 8, 5, 6}[(idx/8)%16]
	o.Stat(fmt.Sprintf("l2.scenario.%d", scen), 1)
	cfg := balancer.EgressConfig{HostTag: hostTag, ReconnectDelay: 50 * time.Millisecond, DialTimeout: 5 * time.Second}
	var e *balancer.Egress
	var sinks [2]*sink
	descPool := ""
	var key string
	mkSinks := func() {
		for i := range sinks {
			rb := 0
			if scen == 5 || scen == 6 || scen == 8 {
				rb = 4096
			}
			sinks[i] = newSink(key, rb)
		}
	}
	// the reconnect key only depends on the host tag
	key = balancer.VerifReconnectKeyOf(cfg)
	mkSinks()
	defer func() {
		for _, s := range sinks {
			close(s.done)
		}
	}()
	if scen == 6 || scen == 8 {
		cfg.WriteTimeout = stallWriteTimeout
	}
	var deadFds []int
	defer func() {
		for _, fd := range deadFds {
			_ = syscall.Close(fd)
		}
	}()
	livePos := 0
	nReset := 0
	switch scen {
	case 8:
		nReset = r.Range(0, 2)
		if (idx/8)%16 == 8 {
			nReset = 1 // one of the two trials of a rotation is always reset-then-black-hole
		}
		sinks[0].script = append(bytes.Repeat([]byte{'R'}, nReset), 'B')
		e = balancer.VerifNewLive(cfg, []string{sinks[0].addr()}, []string{sinks[1].addr()})
	case 7:
		// dead = a TCP socket bound to a loopback port but not listening: connecting is refused at once and nobody else can take the port
		nDead := r.Range(1, 3)
		livePos = r.Range(0, nDead) // 0 = [live, dead…] (control), otherwise dead addresses come first
		if (idx/8)%16 == 5 {
			livePos = nDead // one of the two trials of a rotation always has the live upstream last
		}
		var prim []string
		for k := 0; k <= nDead; k++ {
			if k == livePos {
				prim = append(prim, sinks[0].addr())
				continue
			}
			addr, fd := deadAddr()
			deadFds = append(deadFds, fd)
			prim = append(prim, addr)
		}
		e = balancer.VerifNewLive(cfg, prim, []string{sinks[1].addr()})
		descPool = fmt.Sprintf("primary pool of %d addresses, the live one at position %d, the others refuse connections", nDead+1, livePos)
	case 1, 5, 6:
		e = balancer.VerifNewLive(cfg, nil, nil) // no resolved address yet: both senders keep retrying
	case 3:
		cfg.Address = sinks[0].addr() + "," + sinks[1].addr()
		e = balancer.NewEgress(cfg) // the real constructor (sleeps 2 s, starts the DNS refresh goroutine)
	default:
		e = balancer.VerifNewLive(cfg, []string{sinks[0].addr()}, []string{sinks[1].addr()})
	}
	h := balancer.VerifNewHandler(e)
	// cleanup order matters: a sender blocked inside WriteTo (no write deadline) only returns when its peer resets the
	// connection, and Egress.Close waits for the senders
	defer func() {
		for _, s := range sinks {
			_ = s.ln.Close()
			s.resetAll()
		}
		closed := make(chan struct{})
		go func() { _ = e.Close(); close(closed) }()
		select {
		case <-closed:
		case <-time.After(timerBudget):
		}
	}()
	var pushes []pushRec
	seq := uint32(0)
	push := func(n int) {
		body := make([]byte, 0, 5+n+4)
		body = append(body, dataMagic)
		body = append(body, r.Bytes(n)...)
		body = binary.LittleEndian.AppendUint32(body, seq)
		pushes = append(pushes, pushRec{seq: seq, body: body, at: time.Now()})
		seq++
		_ = h.Handle(body)
	}
	burst := func(k int) {
		for j := 0; j < k; j++ {
			n := r.Range(0, 40)
			if r.Chance(1, 50) {
				n = r.Range(1000, 60000)
			}
			push(n)
		}
	}
	desc := []string{}
	lastPartial := false
	var stallStart time.Time
	scriptReached, blackHoleLeft := false, false
	switch scen {
	case 0, 3:
		nb := r.Range(1, 5)
		for b := 0; b < nb; b++ {
			k := []int{r.Range(1, 5), r.Range(thr-3, thr+5), r.Range(1, thr-1), r.Range(thr, 3*thr)}[r.Pick(3, 2, 3, 1)]
			if b == nb-1 {
				k = r.Range(1, thr-1) // the last burst is a partial batch, then silence
			}
			gap := []int{0, r.Range(1, 50), r.Range(100, 400), 1200}[r.Pick(3, 3, 2, 1)]
			desc = append(desc, fmt.Sprintf("burst=%d gap=%dms", k, gap))
			burst(k)
			if b < nb-1 {
				time.Sleep(time.Duration(gap) * time.Millisecond)
			}
		}
		lastPartial = true
	case 1:
		k := []int{r.Range(1, thr-1), r.Range(c.BufferLen-2, c.BufferLen+5), r.Range(2*c.BufferLen-3, 2*c.BufferLen+30)}[r.Pick(1, 2, 4)]
		desc = append(desc, fmt.Sprintf("upstream-unresolved burst=%d then resolve", k))
		burst(k)
		time.Sleep(time.Duration(r.Range(0, 150)) * time.Millisecond)
		balancer.VerifReplacePools(e, []string{sinks[0].addr(), sinks[1].addr()})
		if r.Bool() {
			k2 := r.Range(1, thr-1)
			time.Sleep(time.Duration(r.Range(100, 400)) * time.Millisecond)
			desc = append(desc, fmt.Sprintf("tail=%d", k2))
			burst(k2)
		}
		lastPartial = true
	case 4:
		// both senders connect, optionally forward a first burst, then go idle; the upstream resets the idle connections
		// (RST: nothing is in flight, the next write fails before a single byte is accepted)
		waitConn := time.Now().Add(timerBudget)
		for (sinks[0].connCount() < 1 || sinks[1].connCount() < 1) && time.Now().Before(waitConn) {
			time.Sleep(5 * time.Millisecond)
		}
		k0 := []int{0, r.Range(1, 5), r.Range(thr, thr+10)}[r.Pick(2, 2, 1)]
		burst(k0)
		waitWarm := time.Now().Add(timerBudget)
		for sinks[0].frameCount()+sinks[1].frameCount() < k0 && time.Now().Before(waitWarm) {
			time.Sleep(10 * time.Millisecond)
		}
		for _, s := range sinks {
			s.resetAll()
		}
		time.Sleep(300 * time.Millisecond)
		k := []int{r.Range(3, 12), r.Range(13, thr-1), r.Range(thr, 3*thr)}[r.Pick(3, 2, 2)]
		desc = append(desc, fmt.Sprintf("warmup=%d idle-connection-reset burst=%d", k0, k))
		burst(k)
		if r.Bool() {
			k2 := r.Range(1, thr-1)
			time.Sleep(time.Duration(r.Range(200, 1500)) * time.Millisecond)
			desc = append(desc, fmt.Sprintf("tail=%d", k2))
			burst(k2)
		}
	case 5:
		// everything is accepted while the upstream is unresolved, so the primary sender's first write is ONE batch of k large
		// packets (7 … 12 MB, more than a loopback connection buffers). The upstream reads m frames, stops reading; the sender
		// blocks inside the batch; then the upstream resets the connection. What the kernel had accepted beyond the m frames
		// is lost in TCP (bounded by the send buffer limit); the packet being written is given up; the rest must follow once.
		k := r.Range(c.BufferLen*3/4, c.BufferLen-2) // fits the primary buffer: no failover, no drops
		size := r.Range(50000, 60000)
		m := r.Range(1, 6)
		if r.Bool() {
			m = k/2 + r.Range(-10, 10)
		}
		desc = append(desc, fmt.Sprintf("unresolved burst=%d x %d bytes ; resolve ; upstream reads %d frames, stalls, resets", k, size, m))
		for j := 0; j < k; j++ {
			push(size + r.Range(0, 500))
		}
		sinks[0].mu.Lock()
		sinks[0].limit = m
		sinks[0].mu.Unlock()
		balancer.VerifReplacePools(e, []string{sinks[0].addr(), sinks[1].addr()})
		waitM := time.Now().Add(timerBudget)
		for sinks[0].frameCount() < m && time.Now().Before(waitM) {
			time.Sleep(5 * time.Millisecond)
		}
		time.Sleep(400 * time.Millisecond) // the sender fills the kernel buffers and blocks
		sinks[0].resetAll()
		sinks[0].setStalled(false)
	case 6:
		// like 5, but the upstream never resets: it reads m frames of the first connection and then just stops reading.
		// Only the sender's own write deadline can end the blocked write.
		k := r.Range(c.BufferLen*3/4, c.BufferLen-2)
		size := r.Range(50000, 60000)
		m := r.Range(1, 6)
		desc = append(desc, fmt.Sprintf("unresolved burst=%d x %d bytes ; resolve ; upstream reads %d frames of the first connection, then stops reading without closing ; WriteTimeout=%v", k, size, m, stallWriteTimeout))
		for j := 0; j < k; j++ {
			push(size + r.Range(0, 500))
		}
		sinks[0].mu.Lock()
		sinks[0].limit, sinks[0].hold = m, true
		sinks[0].mu.Unlock()
		balancer.VerifReplacePools(e, []string{sinks[0].addr(), sinks[1].addr()})
		stallStart = time.Now()
		// expected: second connection after WriteTimeout + ReconnectDelay (3.05 s); budget 10x
		waitRe := stallStart.Add(10 * stallWriteTimeout)
		for sinks[0].connCount() < 2 && time.Now().Before(waitRe) {
			time.Sleep(10 * time.Millisecond)
		}
	case 8:
		desc = append(desc, fmt.Sprintf("upstream script %q per connection (R reset after handshake, B black hole, then healthy) ; WriteTimeout=%v", string(sinks[0].script), stallWriteTimeout))
		waitConn := func(n int, budget time.Duration) bool {
			dl := time.Now().Add(budget)
			for sinks[0].connCount() < n && time.Now().Before(dl) {
				time.Sleep(5 * time.Millisecond)
			}
			return sinks[0].connCount() >= n
		}
		ok := true
		for j := 0; j < nReset && ok; j++ {
			// connection j is reset after the handshake; a batch that is written at once (>= 20 % of the buffer) hits it
			if ok = waitConn(j+1, timerBudget); ok {
				time.Sleep(100 * time.Millisecond)
				k := r.Range(thr, thr+15)
				desc = append(desc, fmt.Sprintf("conn %d reset, burst=%d", j, k))
				burst(k)
			}
		}
		// the black hole: enough large packets to fill the kernel buffers, pushed as soon as it has accepted
		if ok = ok && waitConn(nReset+1, timerBudget); ok {
			k := r.Range(122, 135)
			size := r.Range(52000, 60000)
			desc = append(desc, fmt.Sprintf("conn %d black hole, burst=%d x %d bytes", nReset, k, size))
			for j := 0; j < k; j++ {
				push(size + r.Range(0, 500))
			}
			stallStart = time.Now()
			// expected: the write deadline of the black-hole connection fires after <= WriteTimeout, next connection 50 ms later
			blackHoleLeft = waitConn(nReset+2, 10*stallWriteTimeout)
		}
		scriptReached = ok
		if blackHoleLeft {
			k := r.Range(1, 5)
			desc = append(desc, fmt.Sprintf("healthy again, marker burst=%d", k))
			burst(k)
		}
	case 7:
		k := []int{r.Range(1, 5), r.Range(6, thr-1), r.Range(thr, 2*thr)}[r.Pick(2, 2, 1)]
		desc = append(desc, descPool, fmt.Sprintf("burst=%d", k))
		burst(k)
		lastPartial = k < thr
	case 2:
		k := r.Range(thr, 3*thr)
		desc = append(desc, fmt.Sprintf("burst=%d reset", k))
		burst(k)
		time.Sleep(time.Duration(r.Range(0, 100)) * time.Millisecond)
		for _, s := range sinks {
			s.resetAll()
		}
	}
	o.Op("e2e scen=%d %s", scen, strings.Join(desc, " ; "))
	o.Stat("l2.pushes", int64(len(pushes)))

	// the byte/order/duplicate oracle on everything the sinks received; each signature is reported once per trial
	reported := map[string]bool{}
	rviol := func(sig, f string, a ...any) {
		if !reported[sig] {
			reported[sig] = true
			o.Viol(sig, f, a...)
		}
	}
	received := func() (data map[uint32]frameRec, reports int64, viol bool) {
		data = map[uint32]frameRec{}
		for si, s := range sinks {
			last := map[int]int64{}
			for _, f := range s.snapshot() {
				p := f.payload
				if len(p) > 0 && p[0] != dataMagic {
					v, why := decodeReport(append(binary.LittleEndian.AppendUint32(nil, uint32(len(p))), p...), hostTag)
					if v < 0 {
						rviol("e2e-bytes", "sink %d got a frame that is neither an accepted packet nor a would-block report: %s", si, why)
						viol = true
						continue
					}
					reports += v
					continue
				}
				if len(p) < 5 {
					rviol("e2e-bytes", "sink %d got a %d byte frame that was never accepted", si, len(p))
					viol = true
					continue
				}
				q := binary.LittleEndian.Uint32(p[len(p)-4:])
				if int(q) >= len(pushes) || !bytes.Equal(pushes[q].body, p) {
					rviol("e2e-bytes", "sink %d got a frame that is not byte-for-byte an accepted packet (seq %d)", si, q)
					viol = true
					continue
				}
				if _, dup := data[q]; dup {
					rviol("e2e-duplicate", "packet seq %d was delivered twice (sink %d connection %d, first copy on connection %d; scenario %d: %s)", q, si, f.conn, data[q].conn, scen, strings.Join(desc, " ; "))
					viol = true
				}
				if l, ok := last[f.conn]; ok && int64(q) <= l {
					rviol("e2e-order", "sink %d connection %d got seq %d after seq %d", si, f.conn, q, l)
					viol = true
				}
				last[f.conn] = int64(q)
				data[q] = f
			}
			s.mu.Lock()
			badKey := s.badKey
			s.mu.Unlock()
			if badKey > 0 {
				rviol("e2e-bytes", "sink %d: %d connections carried bytes that are not the reconnect key followed by length-framed packets", si, badKey)
				viol = true
			}
		}
		return
	}

	switch scen {
	case 0, 1, 3, 7:
		// every accepted packet must arrive; dropped ones (scenario 1) are exactly those the counters and the report announce
		lastPush := pushes[len(pushes)-1].at
		deadline := lastPush.Add(timerBudget)
		if scen == 1 {
			deadline = deadline.Add(time.Second)
		}
		if scen == 7 {
			deadline = deadline.Add(6 * time.Second) // expected: up to 3 refused dials 50 ms apart + the 1 s batch timer = ~1.2-1.6 s
			o.NT("e2e-dead-addresses-in-pool")
		}
		var data map[uint32]frameRec
		var reports int64
		complete := func() bool {
			var bad bool
			data, reports, bad = received()
			if bad {
				return true
			}
			st := balancer.VerifStatsPeek(e)
			if uint64(len(data)) != st.ForwardedPackets {
				return false
			}
			var missBytes int64
			for _, p := range pushes {
				if _, ok := data[p.seq]; !ok {
					missBytes += int64(len(p.body) + c.PktHeadLen)
				}
			}
			return reports == missBytes
		}
		for !complete() && time.Now().Before(deadline) {
			time.Sleep(20 * time.Millisecond)
		}
		st := balancer.VerifStatsPeek(e)
		missing, missBytes := 0, int64(0)
		var maxLat time.Duration
		for _, p := range pushes {
			f, ok := data[p.seq]
			if !ok {
				missing++
				missBytes += int64(len(p.body) + c.PktHeadLen)
				continue
			}
			if d := f.at.Sub(p.at); d > maxLat {
				maxLat = d
			}
		}
		o.Stat("l2.delivered", int64(len(data)))
		o.Stat("l2.dropped", int64(st.DroppedPackets))
		if st.ForwardedPackets+st.DroppedPackets != uint64(len(pushes)) {
			o.Viol("e2e-uncounted", "%d packets handed in, forwarded=%d dropped=%d", len(pushes), st.ForwardedPackets, st.DroppedPackets)
		}
		if scen == 7 && uint64(len(data)) < st.ForwardedPackets {
			// ---- direct oracle: bounded delay = about one second plus reconnection time, with a live upstream in the pool
			o.Viol("e2e-no-failover", "%d of %d accepted packets not written upstream %v after the last packet arrived although the sender's address pool holds a live upstream (%d reconnect errors counted, connections accepted by the live upstream: %d; scenario 7: %s)",
				st.ForwardedPackets-uint64(len(data)), st.ForwardedPackets, timerBudget+6*time.Second, st.ReconnectErrors, sinks[0].connCount(), strings.Join(desc, " ; "))
		} else if uint64(len(data)) < st.ForwardedPackets {
			// ---- direct oracle: bounded delay even if no further packets arrive
			o.Viol("sender-sleeps-through-batch-timeout", "%d of %d accepted packets not written upstream %v after the last packet arrived (scenario %d: %s)",
				st.ForwardedPackets-uint64(len(data)), st.ForwardedPackets, timerBudget, scen, strings.Join(desc, " ; "))
		} else if uint64(len(data)) > st.ForwardedPackets {
			o.Viol("e2e-uncounted", "%d packets delivered but forwarded=%d", len(data), st.ForwardedPackets)
		} else if scen != 1 && missing > 0 {
			o.Viol("e2e-drop-not-full", "%d packets dropped although the upstream was healthy and the buffers never filled", missing)
		} else if reports != missBytes {
			o.Viol("e2e-drop-report", "%d bytes dropped (%d packets), would-block reports received upstream announce %d bytes after %v", missBytes, missing, reports, timerBudget)
		}
		if scen == 1 && missing > 0 && uint64(len(data)) == st.ForwardedPackets {
			if len(pushes) <= 2*c.BufferLen {
				o.Viol("e2e-drop-not-full", "%d packets dropped out of %d although the two buffers hold %d", missing, len(pushes), 2*c.BufferLen)
			}
			o.NT("e2e-both-full-drop-reported")
		}
		if lastPartial {
			o.NT("e2e-idle-after-partial-batch")
		}
		_ = maxLat
	case 4, 5, 6, 8:
		// exact accounting: nothing was in flight when the write failed (4) / everything the kernel accepted is read (5), so
		// every accepted packet is received exactly once, in acceptance order, or is the one packet given up by a counted
		// write error ("not resend for last")
		lastPush := pushes[len(pushes)-1].at
		deadline := lastPush.Add(timerBudget + 5*time.Second)
		if scen == 5 || scen == 6 || scen == 8 {
			deadline = time.Now().Add(40 * time.Second) // ~10 MB through a 4 KiB receive window; normally 1-3 s
		}
		if scen == 8 && !blackHoleLeft {
			deadline = time.Now() // the sender never left the black hole (or the script was not reached): nothing to wait for
		}
		if scen == 6 && sinks[0].connCount() < 2 {
			deadline = time.Now() // the sender never came back within 10x WriteTimeout: nothing more to wait for
		}
		timedOut := false
		var data map[uint32]frameRec
		var st balancer.EgressStats
		quietSince := time.Now()
		lastFrames := -1
		for {
			var bad bool
			data, _, bad = received()
			st = balancer.VerifStatsPeek(e)
			b0, b1 := balancer.VerifBuf(e, 0), balancer.VerifBuf(e, 1)
			drained := b0.Wi == 0 && b1.Wi == 0 && b0.Ri >= b0.Rm && b1.Ri >= b1.Rm
			nf := sinks[0].frameCount() + sinks[1].frameCount()
			if nf != lastFrames {
				lastFrames, quietSince = nf, time.Now()
			}
			if bad {
				break
			}
			if time.Now().After(deadline) {
				timedOut = true
				break
			}
			// finished = the last accepted packet has arrived (streams are in order, so everything the upstream will ever get
			// on that connection before it has been read already) and nothing new came for a moment (late duplicates)
			_, lastIn := data[pushes[len(pushes)-1].seq]
			if drained && lastIn && sinks[0].staleOpen() == 0 && sinks[1].staleOpen() == 0 && time.Since(quietSince) > 300*time.Millisecond {
				break
			}
			time.Sleep(20 * time.Millisecond)
		}
		o.Stat("l2.delivered", int64(len(data)))
		o.Stat(fmt.Sprintf("l2.scen%d.write-errors", scen), int64(st.WriteErrors))
		lost := int64(st.ForwardedPackets) - int64(len(data))
		if st.ForwardedPackets+st.DroppedPackets != uint64(len(pushes)) || st.DroppedPackets != 0 {
			o.Viol("e2e-uncounted", "%d packets handed in, forwarded=%d dropped=%d (the buffers never filled)", len(pushes), st.ForwardedPackets, st.DroppedPackets)
		} else if scen == 8 && !scriptReached {
			o.Stat("l2.scen8.script-not-reached", 1) // a reset connection swallowed a write silently (TCP); nothing to judge
		} else if scen == 8 && !blackHoleLeft {
			// ---- direct oracle: bounded delay under upstream connection failures (reset, then a stalled upstream)
			b0 := balancer.VerifBuf(e, 0)
			o.Viol("stalled-forever-after-reconnect", "after a write error the sender reconnected to an upstream that accepts but never reads; %v later (WriteTimeout is %v) it is still blocked on that connection: connections seen by the upstream %d (wanted %d), write errors %d, %d of %d accepted packets not forwarded (read batch %d..%d, write buffer %d) (scenario 8: %s)",
				time.Since(stallStart).Round(time.Second), stallWriteTimeout, sinks[0].connCount(), nReset+2, st.WriteErrors, lost, st.ForwardedPackets, b0.Ri, b0.Rm, b0.Wi, strings.Join(desc, " ; "))
		} else if timedOut && !(scen == 6 && (sinks[0].connCount() < 2 || st.WriteErrors == 0)) {
			o.Viol("e2e-no-recovery", "the last accepted packet did not reach the upstream within the budget after the connection failure (delivered %d of %d forwarded, write errors %d; scenario %d: %s)",
				len(data), st.ForwardedPackets, st.WriteErrors, scen, strings.Join(desc, " ; "))
		} else if scen == 6 && (sinks[0].connCount() < 2 || st.WriteErrors == 0) {
			// ---- direct oracle: bounded delay under an upstream connection failure (stalled, never reset)
			b0 := balancer.VerifBuf(e, 0)
			o.Viol("stalled-upstream-blocks-sender", "the upstream stopped reading the primary sender's connection without closing it; %v later (WriteTimeout is %v) the sender has neither given up the write (write errors: %d) nor reconnected (connections seen by the upstream: %d): %d of %d accepted packets are still held (read batch %d..%d, write buffer %d) and will not be forwarded before the kernel's TCP timeout (scenario 6: %s)",
				time.Since(stallStart).Round(time.Second), stallWriteTimeout, st.WriteErrors, sinks[0].connCount(), lost, st.ForwardedPackets, b0.Ri, b0.Rm, b0.Wi, strings.Join(desc, " ; "))
		} else if scen == 5 || scen == 6 || scen == 8 {
			// packets accepted by the kernel but not read before the reset are lost in TCP; their bytes cannot exceed the
			// sender's send-buffer limit (+ the small fixed receive buffer); each counted write error gives up one more packet
			var lostBytes int64
			var miss []string
			for _, p := range pushes {
				if _, ok := data[p.seq]; !ok {
					lostBytes += int64(len(p.body) + c.PktHeadLen)
					if len(miss) < 12 {
						miss = append(miss, fmt.Sprint(p.seq))
					}
				}
			}
			o.Stat(fmt.Sprintf("l2.scen%d.lost-packets", scen), lost)
			failedConns := int64(1)
			if scen == 8 {
				failedConns = int64(nReset + 1) // every given-up connection may have swallowed what the kernel had accepted
			}
			if bound := inflightBound() * failedConns; bound > 0 && lostBytes > bound+int64(st.WriteErrors)*int64(c.PktBodyMax+c.PktHeadLen) {
				o.Viol("e2e-lost", "%d accepted packets (%d bytes, first missing seq: %s) never reached the upstream after a connection failure inside a batch; at most %d bytes can have been in flight on the failed connection and %d write errors were counted (scenario %d: %s)",
					lost, lostBytes, strings.Join(miss, ","), bound, st.WriteErrors, scen, strings.Join(desc, " ; "))
			}
		} else if scen == 4 && st.WriteErrors == 0 && lost > 0 {
			// the kernel accepted a write on the reset connection (not observed on Linux loopback): TCP loss, outside the property
			o.Stat("l2.scen4.tcp-silent-loss", 1)
		} else if lost > int64(st.WriteErrors) {
			var miss []string
			for _, p := range pushes {
				if _, ok := data[p.seq]; !ok && len(miss) < 12 {
					miss = append(miss, fmt.Sprint(p.seq))
				}
			}
			o.Viol("e2e-lost", "%d accepted packets never reached the upstream (first missing seq: %s) but only %d write errors were counted, each of which gives up one packet; buffers were never full, nothing was in flight on a dead connection (scenario %d: %s)",
				lost, strings.Join(miss, ","), st.WriteErrors, scen, strings.Join(desc, " ; "))
		}
		if st.WriteErrors > 0 {
			o.NT(fmt.Sprintf("e2e-write-error-inside-batch-scen%d", scen))
		}
		if scen == 6 {
			o.NT("e2e-stalled-upstream")
		}
		if scen == 8 && scriptReached {
			o.NT(fmt.Sprintf("e2e-reset-x%d-then-black-hole", nReset))
		}
	case 2:
		// after the resets: exactness/order of whatever arrived, and the sender recovers: a later packet gets through
		deadline := time.Now().Add(timerBudget + 2*time.Second)
		recovered := false
		first := len(pushes)
		for time.Now().Before(deadline) && !recovered {
			push(r.Range(0, 20))
			time.Sleep(300 * time.Millisecond)
			data, _, bad := received()
			if bad {
				break
			}
			for q := first; q < len(pushes); q++ {
				if _, ok := data[uint32(q)]; ok {
					recovered = true
				}
			}
		}
		_, _, bad := received()
		if !recovered && !bad {
			o.Viol("e2e-no-recovery", "after an upstream connection reset no later packet reached the upstream within %v", timerBudget+2*time.Second)
		}
		o.NT("e2e-upstream-reset")
	}
}

// ---------------------------------------------------------------- main

// every 8th case is a live (layer 2) trial; the layer depends on the index only, so `-only` replays are self-contained
func isLive(i int) bool { return i%8 == 7 }

// inflightBound: upper bound for the payload bytes a loopback TCP connection can hold between a blocked writer and a
// reader that stopped reading with a fixed small receive buffer: the send-buffer limit (third field of tcp_wmem) plus slack.
// 0 = unknown (the loss bound is then not evaluated).
func inflightBound() int64 {
	b, err := os.ReadFile("/proc/sys/net/ipv4/tcp_wmem")
	if err != nil {
		return 0
	}
	f := strings.Fields(string(b))
	if len(f) != 3 {
		return 0
	}
	v, err := strconv.ParseInt(f[2], 10, 64)
	if err != nil || v <= 0 {
		return 0
	}
	return v + 512*1024
}

// deadAddr reserves a loopback TCP port that refuses connections: a socket that is bound but never listens.
func deadAddr() (string, int) {
	fd, err := syscall.Socket(syscall.AF_INET, syscall.SOCK_STREAM, 0)
	if err != nil {
		panic(err)
	}
	if err = syscall.Bind(fd, &syscall.SockaddrInet4{Addr: [4]byte{127, 0, 0, 1}}); err != nil {
		panic(err)
	}
	sa, err := syscall.Getsockname(fd)
	if err != nil {
		panic(err)
	}
	return fmt.Sprintf("127.0.0.1:%d", sa.(*syscall.SockaddrInet4).Port), fd
}

func caseRng(seed uint64, i int) *verifx.Rng {
	return verifx.NewRng(seed*0x9E3779B97F4A7C15 + uint64(i)*0xBF58476D1CE4E5B9 + 1)
}

func selfTest() error {
	e := balancer.VerifNewManual(balancer.EgressConfig{HostTag: hostTag})
	defer e.Close()
	if n := balancer.VerifParked(e, 0); n != 0 {
		return fmt.Errorf("cond waiters = %d on a fresh buffer", n)
	}
	done := make(chan struct{})
	go func() {
		_ = balancer.VerifPop(e, 0, func([][]byte) (int, error) { return 0, nil })
		close(done)
	}()
	deadline := time.Now().Add(5 * time.Second)
	for balancer.VerifParked(e, 0) != 1 {
		if time.Now().After(deadline) {
			return fmt.Errorf("cannot observe a goroutine parked in pktBuffer.swap (sync.Cond layout changed?)")
		}
		time.Sleep(50 * time.Microsecond)
	}
	return nil
}

func main() {
	log.SetOutput(io.Discard)
	h := verifx.New()
	if err := selfTest(); err != nil {
		fmt.Println("verif-c31 self test failed:", err)
		h.Done()
		panic(err)
	}
	total := h.N
	outs := make([]*out, total)
	workers := 24
	var wg sync.WaitGroup
	jobs := make(chan int)
	for w := 0; w < workers; w++ {
		wg.Add(1)
		go func() {
			defer wg.Done()
			for i := range jobs {
				if isLive(i) {
					o := newOut()
					func() {
						defer func() {
							if p := recover(); p != nil {
								o.Obs("panic %v", p)
							}
						}()
						runL2(h.Seed, i, o, h.Tier)
					}()
					outs[i] = o
					continue
				}
				var o *out
				for attempt := 0; attempt < 8; attempt++ {
					o = newOut()
					tainted := false
					func() {
						defer func() {
							if p := recover(); p != nil {
								o.Obs("panic %v", p)
							}
						}()
						tainted = runL1(h.Seed, i, o)
					}()
					if !tainted {
						break
					}
					// the machine stalled between two ops of this attempt (> taintAfter with a sender parked): the schedule
					// is not the scripted one. Never reported as a violation; after 8 attempts the case is skipped.
					o = newOut()
					o.Stat("l1.skipped-after-8-stalled-attempts", 1)
				}
				outs[i] = o
			}
		}()
	}
	for i := 0; i < total; i++ {
		if h.Only >= 0 && i != h.Only {
			continue
		}
		jobs <- i
	}
	close(jobs)
	wg.Wait()
	h.Cases(func(i int, _ *verifx.Rng) {
		o := outs[i]
		if o == nil {
			return
		}
		for _, l := range o.lines {
			emit(h, l)
		}
		keys := make([]string, 0, len(o.stats))
		for k := range o.stats {
			keys = append(keys, k)
		}
		sort.Strings(keys)
		for _, k := range keys {
			h.Stat(k, o.stats[k])
		}
	})
	h.Done()
}

// emit prints a pre-rendered protocol line through verifx (which owns the buffered stdout).
func emit(h *verifx.H, line string) {
	switch {
	case strings.HasPrefix(line, "> "):
		h.Op("%s", line[2:])
	case strings.HasPrefix(line, "< "):
		h.Obs("%s", line[2:])
	case strings.HasPrefix(line, "! sig="):
		sig, text, _ := strings.Cut(line[len("! sig="):], " ")
		h.Viol(sig, "%s", text)
	case strings.HasPrefix(line, "@nt "):
		h.NonTrivial(line[4:])
	}
}
