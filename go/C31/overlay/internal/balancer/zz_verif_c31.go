//go:build verif

package balancer

// Thin accessors for the C31 harness (/verif). No logic under test is copied here: the objects are built with the
// package's own constructors (newPktBuffer, newTCPSender, newHandler) and every operation calls the real method.

import (
	"net"
	"reflect"
	"time"
)

type VerifConsts struct {
	BufferLen   int
	SwapWaitMax time.Duration
	PktHeadLen  int
	PktBodyMax  int
}

func VerifGetConsts() VerifConsts {
	return VerifConsts{BufferLen: bufferLen, SwapWaitMax: swapWaitMax, PktHeadLen: pktHeadLen, PktBodyMax: pktBodyMax}
}

// VerifNewManual builds an Egress whose two senders do NOT run sendLoop: the harness plays the sender by calling the
// real pktBuffer.pop. closeErr is pre-filled so that the real Egress.Close works (its WaitGroup is empty).
func VerifNewManual(cfg EgressConfig) *Egress {
	cfg.fillDefaults()
	e := &Egress{cfg: cfg}
	mk := func() *tcpSender {
		s := &tcpSender{cfg: cfg, stats: &e.stats, buf: newPktBuffer(),
			reconCh: make(chan struct{}, 1), closeCh: make(chan struct{}), closeErr: make(chan error, 1)}
		s.closeErr <- nil
		return s
	}
	e.pool = &tcpPool{primary: mk(), secondary: mk(), closed: make(chan struct{})}
	e.pool.primPtr = &e.pool.primary
	e.pool.secPtr = &e.pool.secondary
	return e
}

// VerifNewLive is NewEgress without the DNS goroutine and without the 2 s sleep: real senders with running sendLoop.
func VerifNewLive(cfg EgressConfig, prim, sec []string) *Egress {
	cfg.fillDefaults()
	e := &Egress{cfg: cfg}
	e.pool = &tcpPool{
		primary:   newTCPSender(cfg, &e.stats, addressPool{addrs: prim}, newPktBuffer()),
		secondary: newTCPSender(cfg, &e.stats, addressPool{addrs: sec}, newPktBuffer()),
		closed:    make(chan struct{}),
	}
	e.pool.primPtr = &e.pool.primary
	e.pool.secPtr = &e.pool.secondary
	return e
}

// VerifReplacePools is what runDNSRefresh does after a successful resolve.
func VerifReplacePools(e *Egress, addrs []string) {
	p, s := newAddressPools(addrs)
	e.pool.primary.replacePool(p)
	e.pool.secondary.replacePool(s)
}

func VerifReconnectKey(e *Egress) string { return e.cfg.reconnectKey }

func (e *Egress) verifSender(i int) *tcpSender {
	if i == 0 {
		return e.pool.primary
	}
	return e.pool.secondary
}

// VerifPrimIdx: which sender primPtr currently points to (0 = pool.primary, 1 = pool.secondary).
// Only meaningful while no WritePacketLocked call is in flight (the pointers are protected by the handler's mutex).
func VerifPrimIdx(e *Egress) int {
	if e.pool.primPtr == &e.pool.primary {
		return 0
	}
	return 1
}

type VerifBufState struct {
	Wi, Ri, Rm int
	Closed     bool
	Parked     int // goroutines that hold a ticket of b.cond (are in cond.Wait)
}

// VerifBuf reads the buffer indices. ri/rm are owned by the sender goroutine: call only while it is parked, blocked
// inside the pop callback, or not inside pop at all.
func VerifBuf(e *Egress, i int) VerifBufState {
	b := e.verifSender(i).buf
	b.mu.Lock()
	defer b.mu.Unlock()
	return VerifBufState{Wi: b.wi, Ri: b.ri, Rm: b.rm, Closed: b.closed, Parked: verifCondWaiters(b)}
}

func VerifParked(e *Egress, i int) int {
	b := e.verifSender(i).buf
	b.mu.Lock()
	defer b.mu.Unlock()
	return verifCondWaiters(b)
}

// sync.Cond keeps ticket counters (notifyList.wait / notifyList.notify); their difference is the number of waiters.
func verifCondWaiters(b *pktBuffer) int {
	n := reflect.ValueOf(b.cond).Elem().FieldByName("notify")
	return int(uint32(n.FieldByName("wait").Uint()) - uint32(n.FieldByName("notify").Uint()))
}

// VerifPop runs the real pktBuffer.pop of sender i with the caller's write callback.
func VerifPop(e *Egress, i int, f func(pkts [][]byte) (int, error)) error {
	return e.verifSender(i).buf.pop(f)
}

func VerifWouldBlock(e *Egress, i int) int64 { return e.verifSender(i).wouldBlockBytes.Load() }

func VerifReconPending(e *Egress, i int) int { return len(e.verifSender(i).reconCh) }

// VerifTakeRecon consumes the reconnect request like sendLoop's select does.
func VerifTakeRecon(e *Egress, i int) bool {
	select {
	case <-e.verifSender(i).reconCh:
		return true
	default:
		return false
	}
}

// VerifReport calls the real reportWouldBlockIfAny of sender i on conn.
func VerifReport(e *Egress, i int, conn net.Conn) {
	s := e.verifSender(i)
	s.reportWouldBlockIfAny(conn, s.getWriteErrM(), make([]byte, 0, pktHeadLen))
}

// VerifStatsPeek reads the counters without resetting them (Egress.Stats swaps two of them to zero).
func VerifStatsPeek(e *Egress) EgressStats {
	return EgressStats{
		ForwardedPackets: e.stats.forwardedPackets.Load(),
		DroppedPackets:   e.stats.droppedPackets.Load(),
		WriteErrors:      e.stats.writeErrors.Load(),
		ReconnectErrors:  e.stats.reconnectErrors.Load(),
		DNSRefreshErrors: e.stats.dnsRefreshErrors.Load(),
	}
}

// VerifHandler wraps the real handler (HandleMetricsBatchRaw is what the receivers call for every packet).
type VerifHandler struct{ h *handler }

// VerifNewHandler: newHandler starts reportLoop, whose Stats() call would reset the counters the harness reads;
// handler.Close stops that loop (and logs once) and leaves HandleMetricsBatchRaw fully functional.
func VerifNewHandler(e *Egress) VerifHandler {
	h := newHandler(e)
	h.Close()
	return VerifHandler{h}
}

func (v VerifHandler) Handle(body []byte) error { return v.h.HandleMetricsBatchRaw(body) }

// VerifReconnectKeyOf: the handshake bytes a sender writes first on every new connection.
func VerifReconnectKeyOf(cfg EgressConfig) string {
	cfg.fillDefaults()
	return cfg.reconnectKey
}

// VerifSetPool gives sender i a fresh address pool (what replacePool does after a DNS refresh).
func VerifSetPool(e *Egress, i int, addrs []string) {
	e.verifSender(i).replacePool(addressPool{addrs: addrs})
}

// VerifPick is the pool access of tcpSender.reconnect: one real pick under poolMu.
func VerifPick(e *Egress, i int) (string, bool) {
	s := e.verifSender(i)
	s.poolMu.Lock()
	defer s.poolMu.Unlock()
	return s.pool.pick()
}
