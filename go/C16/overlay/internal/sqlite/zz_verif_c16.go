//go:build verif

// Thin accessor for the /verif C16 harness: commit the long-running write transaction now, exactly like the
// periodic txLoop does (commitTXAndStartNew(true, waitBinlogCommit)), so that Engine.Backup — which reads the
// COMMITTED database through a separate connection — produces a snapshot at a chosen point of the history.
package sqlite

func (e *Engine) VerifC16CommitNow() error {
	return e.commitTXAndStartNew(true, e.opt.DurabilityMode == WaitCommit)
}
