//go:build verif

// Thin accessors for the /verif C16 harness (binlog replay). No logic under test is copied here: the dump only SELECTs
// the tables (same statements as go/C15's dump, repeated because overlays are per property), the other functions
// forward to the unexported originals inside the same kind of eng.Do callback the package itself uses.
package metadata

import (
	"context"

	"github.com/VKCOM/statshouse/internal/data_model/gen2/tlstatshouse"
	"github.com/VKCOM/statshouse/internal/sqlite"
)

type VerifC16Entity struct {
	ID, Version, NamespaceID, UpdatedAt, DeletedAt, Type int64
	Name, Data                                           string
}

type VerifC16History struct {
	EntityID, Version, NamespaceID, UpdatedAt, DeletedAt, Type int64
	Name, Data, Metadata                                       string
}

type VerifC16Mapping struct {
	ID   int64
	Name string
}

type VerifC16Flood struct {
	Metric     string
	Last, Free int64
}

type VerifC16State struct {
	Entities     []VerifC16Entity  // ORDER BY id
	History      []VerifC16History // ORDER BY version, entity_id
	Mappings     []VerifC16Mapping // ORDER BY id
	Flood        []VerifC16Flood   // ORDER BY metric_name
	SeqEntities  int64             // sqlite_sequence of metrics_v5 (0 when absent)
	SeqMappings  int64             // sqlite_sequence of mappings (0 when absent)
	HasBootstrap bool
	Bootstrap    []byte // property.bootstrap
}

func VerifC16Dump(db *DBV2) (st VerifC16State, err error) {
	err = db.eng.Do(context.Background(), "verif_dump", func(conn sqlite.Conn, cache []byte) ([]byte, error) {
		rows := conn.Query("verif_entities", "SELECT id, version, namespace_id, updated_at, deleted_at, type, name, data FROM metrics_v5 ORDER BY id asc;")
		for rows.Next() {
			var e VerifC16Entity
			e.ID, _ = rows.ColumnInt64(0)
			e.Version, _ = rows.ColumnInt64(1)
			e.NamespaceID, _ = rows.ColumnInt64(2)
			e.UpdatedAt, _ = rows.ColumnInt64(3)
			e.DeletedAt, _ = rows.ColumnInt64(4)
			e.Type, _ = rows.ColumnInt64(5)
			e.Name, _ = rows.ColumnBlobString(6)
			e.Data, _ = rows.ColumnBlobString(7)
			st.Entities = append(st.Entities, e)
		}
		if rows.Error() != nil {
			return cache, rows.Error()
		}
		rows = conn.Query("verif_history", "SELECT entity_id, version, namespace_id, updated_at, deleted_at, type, name, data, metadata FROM entity_history ORDER BY version asc, entity_id asc;")
		for rows.Next() {
			var e VerifC16History
			e.EntityID, _ = rows.ColumnInt64(0)
			e.Version, _ = rows.ColumnInt64(1)
			e.NamespaceID, _ = rows.ColumnInt64(2)
			e.UpdatedAt, _ = rows.ColumnInt64(3)
			e.DeletedAt, _ = rows.ColumnInt64(4)
			e.Type, _ = rows.ColumnInt64(5)
			e.Name, _ = rows.ColumnBlobString(6)
			e.Data, _ = rows.ColumnBlobString(7)
			e.Metadata, _ = rows.ColumnBlobString(8)
			st.History = append(st.History, e)
		}
		if rows.Error() != nil {
			return cache, rows.Error()
		}
		rows = conn.Query("verif_mappings", "SELECT id, name FROM mappings ORDER BY id asc;")
		for rows.Next() {
			var m VerifC16Mapping
			m.ID, _ = rows.ColumnInt64(0)
			m.Name, _ = rows.ColumnBlobString(1)
			st.Mappings = append(st.Mappings, m)
		}
		if rows.Error() != nil {
			return cache, rows.Error()
		}
		rows = conn.Query("verif_flood", "SELECT metric_name, last_time_update, count_free FROM flood_limits ORDER BY metric_name asc;")
		for rows.Next() {
			var f VerifC16Flood
			f.Metric, _ = rows.ColumnBlobString(0)
			f.Last, _ = rows.ColumnInt64(1)
			f.Free, _ = rows.ColumnInt64(2)
			st.Flood = append(st.Flood, f)
		}
		if rows.Error() != nil {
			return cache, rows.Error()
		}
		rows = conn.Query("verif_seq", "SELECT name, seq FROM sqlite_sequence;")
		for rows.Next() {
			name, _ := rows.ColumnBlobString(0)
			seq, _ := rows.ColumnInt64(1)
			switch name {
			case "metrics_v5":
				st.SeqEntities = seq
			case "mappings":
				st.SeqMappings = seq
			}
		}
		if rows.Error() != nil {
			return cache, rows.Error()
		}
		rows = conn.Query("verif_bootstrap", "SELECT data FROM property WHERE name = $name", sqlite.BlobString("$name", bootstrapFieldName))
		if rows.Next() {
			b, _ := rows.ColumnBlobRaw(0)
			st.HasBootstrap = true
			st.Bootstrap = append([]byte{}, b...)
		}
		return cache, rows.Error()
	})
	return st, err
}

func VerifC16DeleteMappings(db *DBV2, ids []int32) (int32, error) {
	return db.deleteMappingsByIdBatched(context.Background(), ids)
}

// VerifC16PutBootstrap runs applyPutBootstrap as a primary operation: the function writes the property row AND returns
// the PutBootstrapEvent bytes for the binlog, i.e. it is written to be the body of an eng.Do callback (the rpc handler
// that called it is not part of the pinned tree; replay calls the same function with a nil cache).
func VerifC16PutBootstrap(db *DBV2, mappings []tlstatshouse.Mapping) (n int32, err error) {
	err = db.eng.Do(context.Background(), "put_bootstrap", func(conn sqlite.Conn, cache []byte) ([]byte, error) {
		var err error
		n, cache, err = applyPutBootstrap(conn, cache, mappings)
		return cache, err
	})
	return n, err
}

// VerifC16Snapshot commits the write transaction and takes the engine's own backup (VACUUM INTO) of the committed state:
// the returned file is an "older snapshot" carrying the binlog position it corresponds to.
func VerifC16Snapshot(db *DBV2, prefix string) (path string, pos int64, err error) {
	if err = db.eng.VerifC16CommitNow(); err != nil {
		return "", 0, err
	}
	return db.eng.Backup(context.Background(), prefix)
}

var (
	VerifC16ErrInvalidVersion   = errInvalidMetricVersion
	VerifC16ErrExists           = errMetricIsExist
	VerifC16ErrNamespaceMissing = errNamespaceNotExists
)
