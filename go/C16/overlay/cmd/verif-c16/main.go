//go:build verif

// verif-c16: correspondence harness + direct property oracle for C16 (replaying the metadata binlog reproduces the primary).
//
// One case = one history on a PRIMARY (real metadata.DBV2, real SQLite, fsbinlog on tmpfs, scripted clock):
//
//	save / gc / put / del / reset / boot   the write operations (entities incl. renames, deletes, builtin ids; mappings; flood reset; bootstrap)
//	cut                                    commit + the engine's own Backup(): an "older snapshot" of the primary at this point
//	dump                                   the primary's tables
//	replay fresh | replay <k>              a REPLICA: a new DBV2 opened on a copy of the binlog and on a fresh database file, or on a
//	                                       copy of snapshot k; OpenDB replays the binlog (suffix); then the replica's tables are dumped
//
// Every write op also prints the binlog events it appended (captured between DBV2 and fsbinlog, decoded with the repo's TL types),
// so the model's `emit` is tied to the real emission and the model's `apply` to the real replay.
// Direct oracle: the replica's observable state (journal, history, mappings, bootstrap through the public getters; flood limits by
// SELECT) must equal the primary's.
//
// Token rendering as in cmd/verif-c15: entity name ⟨ns,loc⟩ = "w<ns>:w<loc>" / "w<loc>", data tag t with length n = "d<t>" padded with
// 'x', metadata m = "u<m>" ("" for 0), mapping key k = "k<k>", metric 0 = "abc2", metric m = "m<m>".
package main

import (
	"context"
	"errors"
	"fmt"
	"io"
	"log"
	"math"
	"os"
	"path/filepath"
	"sort"
	"strconv"
	"strings"
	"time"

	"github.com/VKCOM/statshouse/internal/data_model/gen2/tlmetadata"
	"github.com/VKCOM/statshouse/internal/data_model/gen2/tlstatshouse"
	"github.com/VKCOM/statshouse/internal/metadata"
	"github.com/VKCOM/statshouse/internal/verifx"
	"github.com/VKCOM/statshouse/internal/vkgo/basictl"
	"github.com/VKCOM/statshouse/internal/vkgo/binlog/fsbinlog"
)

type nolog struct{}

func (nolog) Tracef(string, ...interface{}) {}
func (nolog) Debugf(string, ...interface{}) {}
func (nolog) Infof(string, ...interface{})  {}
func (nolog) Warnf(string, ...interface{})  {}
func (nolog) Errorf(string, ...interface{}) {}

const two32 = int64(1) << 32

// ------------------------------------------------------------------ token rendering

type name struct{ ns, loc int }

func (n name) str() string {
	if n.ns == 0 {
		return fmt.Sprintf("w%d", n.loc)
	}
	return fmt.Sprintf("w%d:w%d", n.ns, n.loc)
}
func (n name) tok() string { return fmt.Sprintf("%d:%d", n.ns, n.loc) }

func nameTok(s string) string {
	parts := strings.Split(s, ":")
	num := func(p string) (int, bool) {
		if len(p) < 2 || p[0] != 'w' {
			return 0, false
		}
		v, err := strconv.Atoi(p[1:])
		return v, err == nil
	}
	switch len(parts) {
	case 1:
		if v, ok := num(parts[0]); ok {
			return fmt.Sprintf("0:%d", v)
		}
	case 2:
		a, ok1 := num(parts[0])
		b, ok2 := num(parts[1])
		if ok1 && ok2 {
			return fmt.Sprintf("%d:%d", a, b)
		}
	}
	return "?" + s
}

func parseStrName(s string) name {
	var n name
	fmt.Sscanf(nameTok(s), "%d:%d", &n.ns, &n.loc)
	return n
}

func dataStr(tag, n int) string {
	s := fmt.Sprintf("d%d", tag)
	if n > len(s) {
		s += strings.Repeat("x", n-len(s))
	}
	return s
}
func dataTok(s string) string {
	i := 1
	for i < len(s) && s[i] >= '0' && s[i] <= '9' {
		i++
	}
	if len(s) < 2 || s[0] != 'd' {
		return "?" + s
	}
	return fmt.Sprintf("%s/%d", s[1:i], len(s))
}
func metaStr(m int) string {
	if m == 0 {
		return ""
	}
	return fmt.Sprintf("u%d", m)
}
func metaTok(s string) string {
	if s == "" {
		return "0"
	}
	return strings.TrimPrefix(s, "u")
}
func keyStr(k int) string    { return fmt.Sprintf("k%d", k) }
func keyTok(s string) string { return strings.TrimPrefix(s, "k") }
func metricStr(m int) string {
	if m == 0 {
		return "abc2"
	}
	return fmt.Sprintf("m%d", m)
}
func metricTok(s string) int {
	if s == "abc2" {
		return 0
	}
	v, _ := strconv.Atoi(strings.TrimPrefix(s, "m"))
	return v
}

func classify(err error) string {
	msg := err.Error()
	switch {
	case errors.Is(err, metadata.VerifC16ErrInvalidVersion):
		return "invalid-version"
	case errors.Is(err, metadata.VerifC16ErrExists):
		return "exists"
	case errors.Is(err, metadata.VerifC16ErrNamespaceMissing):
		return "ns-missing"
	case strings.Contains(msg, "can't rename namespace"):
		return "rename-ns"
	case strings.Contains(msg, "UNIQUE constraint failed"):
		return "constraint"
	}
	return "other:" + strings.ReplaceAll(msg, " ", "_")
}

func eventTok(e tlmetadata.Event) string {
	return fmt.Sprintf("%d:%d:%s:%d:%d:%d:%d:%s", e.Id, e.Version, nameTok(e.Name), e.EventType, e.NamespaceId, e.UpdateTime, e.Unused, dataTok(e.Data))
}

func pairsTok(ks []string, vs []int32) string {
	toks := make([]string, len(ks))
	for i := range ks {
		toks[i] = fmt.Sprintf("%s:%d", keyTok(ks[i]), vs[i])
	}
	return verifx.List(toks)
}

// ------------------------------------------------------------------ capturing and decoding the emitted binlog events

// recBinlog sits between DBV2's engine and fsbinlog and records the payload of every Append (one payload per eng.Do that wrote)
type recBinlog struct {
	fsbinlog.BinlogReadWrite
	payloads [][]byte
}

func (b *recBinlog) Append(onOffset int64, payload []byte) (int64, error) {
	b.payloads = append(b.payloads, append([]byte(nil), payload...))
	return b.BinlogReadWrite.Append(onOffset, payload)
}

func (b *recBinlog) AppendASAP(onOffset int64, payload []byte) (int64, error) {
	b.payloads = append(b.payloads, append([]byte(nil), payload...))
	return b.BinlogReadWrite.AppendASAP(onOffset, payload)
}

// decodeEvents renders the events of one payload (the repo's own TL readers; the dispatch mirrors the tags of applyScanEvent)
func decodeEvents(p []byte) []string {
	var out []string
	for len(p) > 0 {
		tag, rest, err := basictl.NatReadTag(p)
		if err != nil {
			return append(out, "undecodable")
		}
		switch tag {
		case (tlmetadata.CreateEntityEvent{}).TLTag():
			var e tlmetadata.CreateEntityEvent
			if rest, err = e.ReadTL1(rest); err == nil {
				out = append(out, fmt.Sprintf("create %s:%s", eventTok(e.Metric), metaTok(e.Metric.Metadata)))
			}
		case (tlmetadata.EditEntityEvent{}).TLTag():
			var e tlmetadata.EditEntityEvent
			if rest, err = e.ReadTL1(rest); err == nil {
				out = append(out, fmt.Sprintf("edit %d %s:%s", e.OldVersion, eventTok(e.Metric), metaTok(e.Metric.Metadata)))
			}
		case (tlmetadata.CreateMappingEvent{}).TLTag():
			var e tlmetadata.CreateMappingEvent
			if rest, err = e.ReadTL1(rest); err == nil {
				c := 0
				if e.IsSetCreate() {
					c = 1
				}
				out = append(out, fmt.Sprintf("cm %d %s %d %d %d c=%d", e.Id, keyTok(e.Key), metricTok(e.Metric), e.UpdatedAt, e.Budget, c))
			}
		case (tlmetadata.PutMappingEvent{}).TLTag():
			var e tlmetadata.PutMappingEvent
			if rest, err = e.ReadTL1(rest); err == nil {
				if len(e.Keys) != len(e.Value) {
					out = append(out, "put-mismatched")
				} else {
					out = append(out, "put "+pairsTok(e.Keys, e.Value))
				}
			}
		case (tlmetadata.DeleteMappingsEvent{}).TLTag():
			var e tlmetadata.DeleteMappingsEvent
			if rest, err = e.ReadTL1(rest); err == nil {
				ids := append([]int32(nil), e.Ids...) // the order is SQLite's scan order of `id IN (…)`: canonicalise
				sort.Slice(ids, func(i, j int) bool { return ids[i] < ids[j] })
				out = append(out, "del "+verifx.List(ids))
			}
		case (tlmetadata.PutBootstrapEvent{}).TLTag():
			var e tlmetadata.PutBootstrapEvent
			if rest, err = e.ReadTL1(rest); err == nil {
				out = append(out, "boot "+bootTok(e.Mappings))
			}
		default:
			return append(out, fmt.Sprintf("unknown-tag-%08x", tag))
		}
		if err != nil {
			return append(out, "undecodable")
		}
		p = rest
	}
	return out
}

func bootTok(ms []tlstatshouse.Mapping) string {
	toks := make([]string, len(ms))
	for i, m := range ms {
		toks[i] = fmt.Sprintf("%s:%d", keyTok(m.Str), m.Value)
	}
	return verifx.List(toks)
}

// ------------------------------------------------------------------ the system under test

type snapshot struct {
	path   string
	opIdx  int // number of write ops performed before the cut
	events int // number of binlog payloads written before the cut
}

type sut struct {
	h   *verifx.H
	dir string
	db  *metadata.DBV2
	bl  *recBinlog
	now int64
	ctx context.Context

	maxBudget, bonus, globalBudget int64
	step                           uint32

	// generator bookkeeping (from the real replies)
	cur    map[int64]int64
	typ    map[int64]int32
	nm     map[int64]string
	maxVer int64
	everID map[int32]bool

	// oracle bookkeeping
	opIdx    int
	snaps    []snapshot
	resets   []struct{ op, metric int } // successful ResetFlood calls: (index of the op, metric)
	renames  []int                      // op indices of successful renames
	mapdels  []int                      // op indices of mapping deletions that removed something
	primary  *observation
	flags    map[string]bool
	closed   bool
	replicas int
}

func (x *sut) opts() metadata.Options {
	return metadata.Options{MaxBudget: x.maxBudget, StepSec: x.step, BudgetBonus: x.bonus, GlobalBudget: x.globalBudget,
		Now: func() time.Time { return time.Unix(x.now, 0) }}
}

func tmpRoot() string {
	if st, err := os.Stat("/dev/shm"); err == nil && st.IsDir() {
		return "/dev/shm"
	}
	return ""
}

func openSut(h *verifx.H, maxBudget int64, step uint32, bonus, globalBudget int64, now int64) *sut {
	// tmpfs when available: every write op waits for the binlog fsync (DurabilityMode WaitCommit)
	dir, err := os.MkdirTemp(tmpRoot(), "verif-c16-")
	if err != nil {
		panic(err)
	}
	bo := fsbinlog.Options{PrefixPath: dir + "/binlog", Magic: 3456} // files are <prefix>.NNNNNN.bin: keep them inside dir
	if _, err := fsbinlog.CreateEmptyFsBinlog(bo); err != nil {
		panic(err)
	}
	bl, err := fsbinlog.NewFsBinlog(nolog{}, bo)
	if err != nil {
		panic(err)
	}
	x := &sut{h: h, dir: dir, now: now, ctx: context.Background(), maxBudget: maxBudget, step: step, bonus: bonus, globalBudget: globalBudget,
		cur: map[int64]int64{}, typ: map[int64]int32{}, nm: map[int64]string{}, everID: map[int32]bool{}, flags: map[string]bool{}}
	x.bl = &recBinlog{BinlogReadWrite: bl}
	x.db, err = metadata.OpenDB(dir+"/db", x.opts(), x.bl)
	if err != nil {
		_ = os.RemoveAll(dir)
		panic(err)
	}
	h.Op("cfg %d %d %d %d", maxBudget, step, bonus, globalBudget)
	return x
}

func (x *sut) closePrimary() {
	if !x.closed {
		_ = x.db.Close()
		x.closed = true
	}
}

func (x *sut) close() {
	x.closePrimary()
	_ = os.RemoveAll(x.dir)
}

func (x *sut) guard(f func()) {
	defer func() {
		if r := recover(); r != nil {
			x.h.Obs("panic %s", strings.ReplaceAll(fmt.Sprint(r), " ", "_"))
		}
	}()
	f()
}

// emitted prints the events the last op appended to the binlog
func (x *sut) emitted(before int) {
	for _, p := range x.bl.payloads[before:] {
		for _, e := range decodeEvents(p) {
			x.h.Obs("bl %s", e)
			x.h.Stat("event."+strings.SplitN(e, " ", 2)[0], 1)
		}
	}
}

// ------------------------------------------------------------------ write ops

type saveReq struct {
	n              name
	id, oldVersion int64
	dtag, dlen     int
	create         bool
	del            uint32
	typ            int32
	meta           int
}

func (x *sut) save(a saveReq) {
	c := 0
	if a.create {
		c = 1
	}
	x.h.Op("save %s %d %d %d %d %d %d %d %d %d", a.n.tok(), a.id, a.oldVersion, a.dtag, a.dlen, c, a.del, a.typ, a.meta, x.now)
	x.opIdx++
	x.guard(func() {
		before := len(x.bl.payloads)
		e, err := x.db.SaveEntity(x.ctx, a.n.str(), a.id, a.oldVersion, dataStr(a.dtag, a.dlen), a.create, a.del, a.typ, metaStr(a.meta))
		if err != nil {
			k := classify(err)
			x.h.Obs("err %s", k)
			x.h.Stat("save.err."+strings.SplitN(k, ":", 2)[0], 1)
			x.emitted(before)
			return
		}
		_, existed := x.cur[e.Id]
		cr := 1
		if existed {
			cr = 0
		}
		x.h.Obs("ok c=%d %s:%s", cr, eventTok(e), metaTok(e.Metadata))
		x.h.Stat("save.ok", 1)
		if existed {
			if x.nm[e.Id] != a.n.str() {
				x.renames = append(x.renames, x.opIdx)
				x.h.Stat("save.ok.rename", 1)
			}
			if a.del != 0 {
				x.h.Stat("save.ok.delete", 1)
			}
		} else {
			x.typ[e.Id] = a.typ
			if e.Id < 0 {
				x.h.Stat("save.ok.builtin-create", 1)
				x.flags["builtin"] = true
			}
		}
		if a.n.ns != 0 && (a.typ == 0 || a.typ == 2) {
			x.h.Stat("save.ok.namespaced", 1)
		}
		x.cur[e.Id] = e.Version
		x.nm[e.Id] = a.n.str()
		if e.Version > x.maxVer {
			x.maxVer = e.Version
		}
		x.emitted(before)
	})
}

func (x *sut) gc(m, k int) {
	x.h.Op("gc %d %d %d", m, k, x.now)
	x.opIdx++
	x.guard(func() {
		before := len(x.bl.payloads)
		r, err := x.db.GetOrCreateMapping(x.ctx, metricStr(m), keyStr(k))
		if err != nil {
			x.h.Obs("err %s", classify(err))
			return
		}
		switch {
		case r.IsCreated():
			c, _ := r.AsCreated()
			x.h.Obs("created %d", c.Id)
			x.h.Stat("gc.created", 1)
			x.everID[c.Id] = true
			x.flags["mapping-created"] = true
		case r.IsGetMappingResponse():
			g, _ := r.AsGetMappingResponse()
			x.h.Obs("got %d", g.Id)
			x.h.Stat("gc.got", 1)
		case r.IsFloodLimitError():
			x.h.Obs("flood")
			x.h.Stat("gc.flood", 1)
			x.flags["flood"] = true
		default:
			x.h.Obs("other")
		}
		x.emitted(before)
	})
}

func (x *sut) put(ks []int, vs []int32) {
	keys := make([]string, len(ks))
	for i := range ks {
		keys[i] = keyStr(ks[i])
	}
	x.h.Op("put %s", pairsTok(keys, vs))
	x.opIdx++
	x.guard(func() {
		before := len(x.bl.payloads)
		if err := x.db.PutMapping(x.ctx, keys, vs); err != nil {
			x.h.Obs("err %s", classify(err))
			return
		}
		x.h.Obs("ok")
		x.h.Stat("put", 1)
		for _, v := range vs {
			x.everID[v] = true
		}
		x.emitted(before)
	})
}

func (x *sut) del(ids []int32) {
	x.h.Op("del %s", verifx.List(ids))
	x.opIdx++
	x.guard(func() {
		before := len(x.bl.payloads)
		n, err := metadata.VerifC16DeleteMappings(x.db, ids)
		if err != nil {
			x.h.Obs("err %s", classify(err))
			return
		}
		x.h.Obs("n=%d", n)
		x.h.Stat("del", 1)
		if n > 0 {
			x.mapdels = append(x.mapdels, x.opIdx)
			x.h.Stat("del.removed", 1)
		}
		x.emitted(before)
	})
}

func (x *sut) reset(m int, limit int64) {
	x.h.Op("reset %d %d %d", m, limit, x.now)
	x.opIdx++
	x.guard(func() {
		before := len(x.bl.payloads)
		b, a, err := x.db.ResetFlood(x.ctx, metricStr(m), limit)
		if err != nil {
			x.h.Obs("err %s", classify(err))
			return
		}
		x.h.Obs("before=%d after=%d", b, a)
		x.h.Stat("reset", 1)
		x.resets = append(x.resets, struct{ op, metric int }{x.opIdx, m})
		x.emitted(before)
	})
}

func (x *sut) boot(ks []int, vs []int32) {
	keys := make([]string, len(ks))
	ms := make([]tlstatshouse.Mapping, len(ks))
	for i := range ks {
		keys[i] = keyStr(ks[i])
		ms[i] = tlstatshouse.Mapping{Str: keys[i], Value: vs[i]}
	}
	x.h.Op("boot %s", pairsTok(keys, vs))
	x.opIdx++
	x.guard(func() {
		before := len(x.bl.payloads)
		n, err := metadata.VerifC16PutBootstrap(x.db, ms)
		if err != nil {
			x.h.Obs("err %s", classify(err))
			return
		}
		x.h.Obs("n=%d", n)
		x.h.Stat("boot", 1)
		x.flags["boot"] = true
		x.emitted(before)
	})
}

func (x *sut) cut() {
	x.h.Op("cut")
	x.guard(func() {
		k := len(x.snaps)
		path, _, err := metadata.VerifC16Snapshot(x.db, fmt.Sprintf("%s/snap%d", x.dir, k))
		if err != nil {
			x.h.Obs("err %s", classify(err))
			x.snaps = append(x.snaps, snapshot{path: "", opIdx: x.opIdx, events: len(x.bl.payloads)})
			return
		}
		x.snaps = append(x.snaps, snapshot{path: path, opIdx: x.opIdx, events: len(x.bl.payloads)})
		x.h.Obs("cut %d events=%d", k, len(x.bl.payloads))
		x.h.Stat("cut", 1)
	})
}

// ------------------------------------------------------------------ dumps and the observable state

// printDump prints the tables of a DBV2 (correspondence with the model's state, raw columns)
func printDump(h *verifx.H, db *metadata.DBV2) (st metadata.VerifC16State, err error) {
	st, err = metadata.VerifC16Dump(db)
	if err != nil {
		h.Obs("err %s", classify(err))
		return st, err
	}
	for _, e := range st.Entities {
		h.Obs("E %d:%d:%s:%d:%d:%d:%d:%s", e.ID, e.Version, nameTok(e.Name), e.Type, e.NamespaceID, e.UpdatedAt, e.DeletedAt, dataTok(e.Data))
	}
	for _, e := range st.History {
		h.Obs("H %d:%d:%s:%d:%d:%d:%d:%s:%s", e.EntityID, e.Version, nameTok(e.Name), e.Type, e.NamespaceID, e.UpdatedAt, e.DeletedAt, dataTok(e.Data), metaTok(e.Metadata))
	}
	for _, m := range st.Mappings {
		h.Obs("M %d %s", m.ID, keyTok(m.Name))
	}
	sort.Slice(st.Flood, func(i, j int) bool { return metricTok(st.Flood[i].Metric) < metricTok(st.Flood[j].Metric) })
	for _, f := range st.Flood {
		h.Obs("F %d %d %d", metricTok(f.Metric), f.Last, f.Free)
	}
	h.Obs("S %d %d", st.SeqEntities, st.SeqMappings)
	if !st.HasBootstrap {
		h.Obs("B none")
	} else {
		var res tlstatshouse.GetTagMappingBootstrapResult
		if _, err := res.ReadTL1(st.Bootstrap); err != nil {
			h.Obs("B undecodable")
		} else {
			h.Obs("B %s", bootTok(res.Mappings))
		}
	}
	return st, nil
}

// observation = what a client of the metadata service can see (the five things the property lists)
type observation struct {
	journal   []string
	history   []string
	mappings  []string
	flood     map[int]string
	bootstrap string
}

func observe(db *metadata.DBV2, st metadata.VerifC16State, nkeys int) (*observation, error) {
	ctx := context.Background()
	o := &observation{flood: map[int]string{}}
	// journal: page through JournalEvents
	var ids []int64
	since := int64(0)
	for n := 0; n < 10000; n++ {
		evs, err := db.JournalEvents(ctx, since, 1000)
		if err != nil {
			return nil, err
		}
		if len(evs) == 0 {
			break
		}
		for _, e := range evs {
			o.journal = append(o.journal, eventTok(e))
			ids = append(ids, e.Id)
		}
		since = evs[len(evs)-1].Version
	}
	// entity history: GetHistoryShort + GetEntityVersioned for every entity of the journal (entities are never removed)
	sort.Slice(ids, func(i, j int) bool { return ids[i] < ids[j] })
	for _, id := range ids {
		r, err := db.GetHistoryShort(ctx, id)
		if err != nil {
			return nil, err
		}
		for _, s := range r.Events {
			line := fmt.Sprintf("%d@%d:%s", id, s.Version, metaTok(s.Metadata))
			e, err := db.GetEntityVersioned(ctx, id, s.Version)
			if err != nil {
				line += " versioned=missing"
			} else {
				line += fmt.Sprintf(" %d:%d:%s:%d:%d:%d:%s:%s", e.Id, e.Version, nameTok(e.Name), e.EventType, e.NamespaceId, e.UpdateTime, dataTok(e.Data), metaTok(e.Metadata))
			}
			o.history = append(o.history, line)
		}
	}
	// mappings: GetNewMappings paging from below every id, GetMappingByID for each, GetMappingByValue over the key universe
	from := int32(math.MinInt32)
	for n := 0; n < 10000; n++ {
		ms, _, err := db.GetNewMappings(ctx, from, 1000, nil)
		if err != nil {
			return nil, err
		}
		if len(ms) == 0 {
			break
		}
		for _, m := range ms {
			k, ok, err := db.GetMappingByID(ctx, m.Value)
			if err != nil {
				return nil, err
			}
			o.mappings = append(o.mappings, fmt.Sprintf("%d=%s byid=%s/%v", m.Value, keyTok(m.Str), keyTok(k), ok))
		}
		from = ms[len(ms)-1].Value
	}
	for k := 0; k < nkeys; k++ {
		id, notExists, err := db.GetMappingByValue(ctx, keyStr(k))
		if err != nil {
			return nil, err
		}
		if !notExists {
			o.mappings = append(o.mappings, fmt.Sprintf("byval %d->%d", k, id))
		}
	}
	b, err := db.GetBootstrap(ctx)
	if err != nil {
		return nil, err
	}
	o.bootstrap = bootTok(b.Mappings)
	for _, f := range st.Flood {
		o.flood[metricTok(f.Metric)] = fmt.Sprintf("last=%d free=%d", f.Last, f.Free)
	}
	return o, nil
}

func firstDiff(a, b []string) string {
	for i := 0; i < len(a) || i < len(b); i++ {
		var x, y = "<absent>", "<absent>"
		if i < len(a) {
			x = a[i]
		}
		if i < len(b) {
			y = b[i]
		}
		if x != y {
			return fmt.Sprintf("#%d primary %s replica %s", i, x, y)
		}
	}
	return ""
}

const maxKeys = 48

func (x *sut) dumpPrimary() {
	x.h.Op("dump")
	x.guard(func() {
		st, err := printDump(x.h, x.db)
		if err != nil {
			return
		}
		x.primary, err = observe(x.db, st, maxKeys)
		if err != nil {
			x.h.Viol("primary-unreadable", "%v", err)
		}
	})
}

// replay opens a replica (k < 0: fresh database file, else a copy of snapshot k) on a copy of the binlog and compares
func (x *sut) replay(k int) {
	if k < 0 {
		x.h.Op("replay fresh")
	} else {
		x.h.Op("replay %d", k)
	}
	x.guard(func() {
		if x.primary == nil {
			x.h.Obs("no-primary-dump")
			return
		}
		x.closePrimary() // commits; the binlog is complete and nobody writes to it any more
		x.replicas++
		rdir := fmt.Sprintf("%s/r%d", x.dir, x.replicas)
		if err := os.Mkdir(rdir, 0o700); err != nil {
			panic(err)
		}
		files, _ := filepath.Glob(x.dir + "/binlog.*")
		for _, f := range files {
			copyFile(f, rdir+"/"+filepath.Base(f))
		}
		sinceOp, what := 0, "fresh database"
		if k >= 0 {
			if k >= len(x.snaps) || x.snaps[k].path == "" {
				x.h.Obs("no-snapshot")
				return
			}
			copyFile(x.snaps[k].path, rdir+"/db")
			sinceOp, what = x.snaps[k].opIdx, fmt.Sprintf("snapshot %d taken after %d ops", k, x.snaps[k].opIdx)
		}
		bl, err := fsbinlog.NewFsBinlog(nolog{}, fsbinlog.Options{PrefixPath: rdir + "/binlog", Magic: 3456})
		if err != nil {
			panic(err)
		}
		db, err := metadata.OpenDB(rdir+"/db", x.opts(), bl)
		if err != nil {
			x.h.Obs("replay error")
			x.h.Stat("replay.error", 1)
			x.h.Viol("replay-failed", "replica on %s cannot replay the primary's binlog: %s", what, strings.ReplaceAll(err.Error(), "\n", " "))
			return
		}
		defer db.Close()
		x.h.Obs("replay ok")
		x.h.Stat("replay.ok", 1)
		st, err := printDump(x.h, db)
		if err != nil {
			return
		}
		o, err := observe(db, st, maxKeys)
		if err != nil {
			x.h.Viol("replica-unreadable", "%v", err)
			return
		}
		// ---- the property: the replica's observable state equals the primary's
		p := x.primary
		if d := firstDiff(p.journal, o.journal); d != "" {
			x.h.Viol("journal-diverged", "replica on %s: journal differs: %s", what, d)
		}
		if d := firstDiff(p.history, o.history); d != "" {
			x.h.Viol("history-diverged", "replica on %s: entity history differs: %s", what, d)
		}
		if d := firstDiff(p.mappings, o.mappings); d != "" {
			x.h.Viol("mapping-diverged", "replica on %s: tag mappings differ: %s", what, d)
		}
		if p.bootstrap != o.bootstrap {
			x.h.Viol("bootstrap-diverged", "replica on %s: bootstrap primary %s replica %s", what, p.bootstrap, o.bootstrap)
		}
		metrics := map[int]bool{}
		for m := range p.flood {
			metrics[m] = true
		}
		for m := range o.flood {
			metrics[m] = true
		}
		ms := make([]int, 0, len(metrics))
		for m := range metrics {
			ms = append(ms, m)
		}
		sort.Ints(ms)
		for _, m := range ms {
			if p.flood[m] == o.flood[m] {
				continue
			}
			wasReset := false
			for _, r := range x.resets {
				if r.metric == m && r.op > sinceOp {
					wasReset = true
				}
			}
			if wasReset { // ResetFlood writes flood_limits but no binlog event
				x.h.Viol("reset-flood-not-replayed", "replica on %s: flood limit of metric %d: primary %q replica %q after a ResetFlood of that metric", what, m, p.flood[m], o.flood[m])
				x.h.Stat("replay.reset-lost", 1)
			} else {
				x.h.Viol("flood-diverged", "replica on %s: flood limit of metric %d: primary %q replica %q", what, m, p.flood[m], o.flood[m])
			}
		}
		// evidence: what the replayed suffix of a snapshot strictly inside the binlog contained
		if k >= 0 && x.snaps[k].events > 0 && x.snaps[k].events < len(x.bl.payloads) {
			for _, op := range x.renames {
				if op > sinceOp {
					x.flags["rename-replayed"] = true
					break
				}
			}
			for _, op := range x.mapdels {
				if op > sinceOp {
					x.flags["mapdel-replayed"] = true
					break
				}
			}
		}
	})
}

func copyFile(src, dst string) {
	b, err := os.ReadFile(src)
	if err != nil {
		panic(err)
	}
	if err := os.WriteFile(dst, b, 0o600); err != nil {
		panic(err)
	}
}

// ------------------------------------------------------------------ generator

func (x *sut) tick(r *verifx.Rng) {
	switch r.Pick(50, 22, 12, 8, 4, 2, 2) {
	case 0:
	case 1:
		x.now += int64(r.Range(1, int(x.step)))
	case 2:
		x.now += int64(x.step) * int64(r.Range(1, 3))
	case 3:
		x.now += int64(x.step)*int64(r.Range(4, 400)) + int64(r.Intn(int(x.step)))
	case 4: // backwards
		d := int64(r.Range(1, 3*int(x.step)))
		if x.now-d > 0 {
			x.now -= d
		}
	case 5: // just below the uint32 wrap
		x.now = two32 - int64(r.Range(1, 2*int(x.step)))
		x.h.Stat("clock.near-wrap", 1)
	case 6: // beyond: metrics_v5.updated_at holds the int64, the event only its low 32 bits
		x.now = two32 + int64(r.Range(0, 5*int(x.step)))
		x.h.Stat("clock.beyond-u32", 1)
	}
}

func knownIDs(x *sut) []int64 {
	ids := make([]int64, 0, len(x.cur))
	for id := range x.cur {
		ids = append(ids, id)
	}
	sort.Slice(ids, func(i, j int) bool { return ids[i] < ids[j] })
	return ids
}

func randTyp(r *verifx.Rng) int32 {
	return []int32{0, 0, 0, 0, 0, 2, 2, 4, 4, 1, 3, 5}[r.Intn(12)]
}

// randName: namespaces are w1..w4; a metric/group name with a namespace part mostly uses a namespace that exists right now
func (x *sut) randName(r *verifx.Rng, typ int32) name {
	if typ == 4 {
		return name{0, r.Range(1, 4)}
	}
	if r.Chance(2, 5) {
		var live []int
		for _, id := range knownIDs(x) {
			if n := parseStrName(x.nm[id]); x.typ[id] == 4 && n.ns == 0 {
				live = append(live, n.loc)
			}
		}
		if len(live) > 0 && r.Chance(4, 5) {
			return name{live[r.Intn(len(live))], r.Range(1, 5)}
		}
		return name{r.Range(1, 4), r.Range(1, 5)}
	}
	return name{0, r.Range(1, 7)}
}

func entityOp(x *sut, r *verifx.Rng) {
	ids := knownIDs(x)
	tag := r.Intn(100)
	dl := func() int { return len(fmt.Sprintf("d%d", tag)) + r.Intn(3) }
	kind := r.Pick(20, 12, 26, 6, 10, 12, 5, 5, 4)
	if len(ids) == 0 && kind != 5 {
		kind = 0
	}
	switch kind {
	case 0: // create
		typ := randTyp(r)
		x.h.Stat("gen.create", 1)
		x.save(saveReq{n: x.randName(r, typ), dtag: tag, dlen: dl(), create: true, typ: typ, meta: r.Intn(4)})
	case 1: // edit, same name
		id := ids[r.Intn(len(ids))]
		x.h.Stat("gen.edit", 1)
		x.save(saveReq{n: parseStrName(x.nm[id]), id: id, oldVersion: x.cur[id], dtag: tag, dlen: dl(), typ: x.typ[id], meta: r.Intn(4)})
	case 2: // rename (fresh name, a used name, the name another entity gave up earlier, into another namespace)
		id := ids[r.Intn(len(ids))]
		a := saveReq{n: x.randName(r, x.typ[id]), id: id, oldVersion: x.cur[id], dtag: tag, dlen: dl(), typ: x.typ[id], meta: r.Intn(4)}
		if r.Chance(1, 4) {
			a.n = parseStrName(x.nm[ids[r.Intn(len(ids))]])
		}
		if r.Chance(1, 5) {
			a.n = name{parseStrName(x.nm[id]).ns, r.Range(8, 11)} // certainly a new name
		}
		x.h.Stat("gen.rename", 1)
		x.save(a)
	case 3: // stale / foreign / future version
		id := ids[r.Intn(len(ids))]
		a := saveReq{n: parseStrName(x.nm[id]), id: id, dtag: tag, dlen: dl(), typ: x.typ[id], meta: r.Intn(4)}
		switch r.Intn(3) {
		case 0:
			a.oldVersion = x.cur[id] - 1
			if a.oldVersion < 0 {
				a.oldVersion = 0
			}
		case 1:
			a.oldVersion = x.cur[ids[r.Intn(len(ids))]]
		case 2:
			a.oldVersion = x.maxVer + int64(r.Range(1, 2))
		}
		if r.Bool() {
			a.n = x.randName(r, a.typ)
		}
		x.h.Stat("gen.edit-stale", 1)
		x.save(a)
	case 4: // delete / undelete (optionally with a rename)
		id := ids[r.Intn(len(ids))]
		a := saveReq{n: parseStrName(x.nm[id]), id: id, oldVersion: x.cur[id], dtag: tag, dlen: dl(), typ: x.typ[id], meta: r.Intn(4), del: uint32(r.Intn(2)) * uint32(x.now%two32)}
		if r.Chance(1, 4) {
			a.n = x.randName(r, a.typ)
		}
		x.h.Stat("gen.delete", 1)
		x.save(a)
	case 5: // builtin (negative id): created through the edit path, later edited / renamed
		typ := randTyp(r)
		id := int64(-r.Range(1, 3))
		a := saveReq{n: x.randName(r, typ), id: id, dtag: tag, dlen: dl(), create: r.Chance(1, 3), typ: typ, meta: r.Intn(4)}
		if typ == 4 {
			a.create = r.Chance(3, 4)
		}
		if v, ok := x.cur[id]; ok {
			a.typ = x.typ[id]
			a.oldVersion = v
			if r.Bool() {
				a.n = parseStrName(x.nm[id])
			} else {
				a.n = x.randName(r, a.typ)
			}
			if a.typ == 4 {
				a.create = r.Bool()
			}
		}
		x.h.Stat("gen.builtin", 1)
		x.save(a)
	case 6: // create naming an existing name of the same type
		id := ids[r.Intn(len(ids))]
		x.h.Stat("gen.create-dup", 1)
		x.save(saveReq{n: parseStrName(x.nm[id]), dtag: tag, dlen: dl(), create: true, typ: x.typ[id], meta: r.Intn(4)})
	case 7: // request of another type for an existing row (SaveEntity does not compare types)
		id := ids[r.Intn(len(ids))]
		a := saveReq{n: parseStrName(x.nm[id]), id: id, oldVersion: x.cur[id], dtag: tag, dlen: dl(), typ: randTyp(r), meta: r.Intn(4)}
		if r.Bool() {
			a.n = x.randName(r, a.typ)
		}
		x.h.Stat("gen.type-mismatch", 1)
		x.save(a)
	case 8: // move between namespaces: same local name, other namespace part
		id := ids[r.Intn(len(ids))]
		n := parseStrName(x.nm[id])
		n.ns = r.Range(0, 4)
		x.h.Stat("gen.move-namespace", 1)
		x.save(saveReq{n: n, id: id, oldVersion: x.cur[id], dtag: tag, dlen: dl(), typ: x.typ[id], meta: r.Intn(4)})
	}
}

func mappingOp(x *sut, r *verifx.Rng, nkeys, nmetrics int, noReset bool) {
	pickID := func() int32 {
		if len(x.everID) > 0 && r.Chance(3, 4) {
			ids := make([]int, 0, len(x.everID))
			for id := range x.everID {
				ids = append(ids, int(id))
			}
			sort.Ints(ids)
			return int32(ids[r.Intn(len(ids))])
		}
		return int32(r.Range(-1, 12))
	}
	pairs := func(n int) ([]int, []int32) {
		ks := make([]int, n)
		vs := make([]int32, n)
		for i := range ks {
			ks[i] = r.Intn(nkeys)
			vs[i] = pickID()
			if r.Chance(1, 4) {
				vs[i] = int32(r.Range(1, 40))
			}
		}
		return ks, vs
	}
	kind := r.Pick(50, 10, 16, 14, 10)
	if kind == 3 && noReset {
		kind = 0
	}
	switch kind {
	case 0:
		x.gc(r.Intn(nmetrics), r.Intn(nkeys))
	case 1:
		x.put(pairs(r.Range(0, 3)))
	case 2:
		n := r.Range(0, 4)
		ids := make([]int32, n)
		for i := range ids {
			ids[i] = pickID()
		}
		x.del(ids)
	case 3:
		lim := []int64{0, -1, 1, 2, x.maxBudget - 1, x.maxBudget, x.maxBudget + 1, x.maxBudget + 3, 9999, 10001}[r.Intn(10)]
		x.reset(r.Intn(nmetrics), lim)
	case 4:
		x.boot(pairs(r.Range(0, 4)))
	}
}

func history(h *verifx.H, r *verifx.Rng) {
	maxBudget := []int64{1, 2, 3, 5, 8, 1000}[r.Intn(6)]
	step := []uint32{1, 7, 60, 3600}[r.Intn(4)]
	bonus := []int64{0, 1, 2, 10}[r.Intn(4)]
	global := []int64{0, 0, 2, 5, 1000000}[r.Intn(5)]
	x := openSut(h, maxBudget, step, bonus, global, int64(r.Range(1_000_000, 2_000_000)))
	defer x.close()
	nkeys := r.Range(4, 30)
	nmetrics := r.Range(1, 3)
	nops := r.Range(8, 40)
	noReset := r.Chance(1, 2) // half of the histories stay inside the hypothesis of the partial theorem (no ResetFlood at all)
	if noReset {
		h.Stat("case.no-reset", 1)
	}
	// snapshot points: about three per history; one history in eight is cut after EVERY operation
	every := r.Chance(1, 8)
	if every {
		h.Stat("case.every-cut", 1)
	}
	cutP := 3
	for i := 0; i < nops; i++ {
		x.tick(r)
		if r.Chance(2, 5) {
			mappingOp(x, r, nkeys, nmetrics, noReset)
		} else {
			entityOp(x, r)
		}
		if every || r.Chance(cutP, nops) {
			x.cut()
		}
	}
	x.dumpPrimary()
	x.replay(-1)
	for k := range x.snaps {
		x.replay(k)
	}
	if x.flags["rename-replayed"] {
		h.NonTrivial("rename-replayed-from-mid-snapshot")
	}
	if x.flags["mapdel-replayed"] {
		h.NonTrivial("mapping-delete-replayed-from-mid-snapshot")
	}
	if x.flags["builtin"] {
		h.Stat("case.builtin-entity", 1)
	}
}

// ------------------------------------------------------------------ script mode (corpus files, witnesses)

func scriptCase(h *verifx.H) {
	raw, err := os.ReadFile(h.Arg)
	if err != nil {
		panic(err)
	}
	var x *sut
	atoi := func(s string) int64 { v, _ := strconv.ParseInt(s, 10, 64); return v }
	parsePairs := func(s string) ([]int, []int32) {
		var ks []int
		var vs []int32
		if s != "-" {
			for _, kv := range strings.Split(s, ",") {
				p := strings.Split(kv, ":")
				if len(p) == 2 {
					ks = append(ks, int(atoi(p[0])))
					vs = append(vs, int32(atoi(p[1])))
				}
			}
		}
		return ks, vs
	}
	defer func() {
		if x != nil {
			x.close()
		}
	}()
	for _, line := range strings.Split(string(raw), "\n") {
		t := strings.Fields(strings.TrimPrefix(strings.TrimSpace(line), ">"))
		if len(t) == 0 || strings.HasPrefix(t[0], "@") || strings.HasPrefix(t[0], "<") || strings.HasPrefix(t[0], "#") || strings.HasPrefix(t[0], "!") {
			continue
		}
		if t[0] == "cfg" && len(t) == 5 {
			if x != nil {
				x.close()
			}
			x = openSut(h, atoi(t[1]), uint32(atoi(t[2])), atoi(t[3]), atoi(t[4]), 1_000_000)
			continue
		}
		if x == nil {
			x = openSut(h, 1000, 3600, 10, 1000000, 1_000_000)
		}
		switch {
		case t[0] == "save" && len(t) == 11:
			var n name
			fmt.Sscanf(t[1], "%d:%d", &n.ns, &n.loc)
			x.now = atoi(t[10])
			x.save(saveReq{n: n, id: atoi(t[2]), oldVersion: atoi(t[3]), dtag: int(atoi(t[4])), dlen: int(atoi(t[5])), create: t[6] == "1",
				del: uint32(atoi(t[7])), typ: int32(atoi(t[8])), meta: int(atoi(t[9]))})
		case t[0] == "gc" && len(t) == 4:
			x.now = atoi(t[3])
			x.gc(int(atoi(t[1])), int(atoi(t[2])))
		case t[0] == "put" && len(t) == 2:
			x.put(parsePairs(t[1]))
		case t[0] == "boot" && len(t) == 2:
			x.boot(parsePairs(t[1]))
		case t[0] == "del" && len(t) == 2:
			var ids []int32
			if t[1] != "-" {
				for _, v := range strings.Split(t[1], ",") {
					ids = append(ids, int32(atoi(v)))
				}
			}
			x.del(ids)
		case t[0] == "reset" && len(t) == 4:
			x.now = atoi(t[3])
			x.reset(int(atoi(t[1])), atoi(t[2]))
		case t[0] == "cut":
			x.cut()
		case t[0] == "dump":
			x.dumpPrimary()
		case t[0] == "replay" && len(t) == 2 && t[1] == "fresh":
			x.replay(-1)
		case t[0] == "replay" && len(t) == 2:
			x.replay(int(atoi(t[1])))
		default:
			h.Note("script: skipped %q", line)
		}
	}
}

func main() {
	log.SetOutput(io.Discard)
	h := verifx.New()
	if h.Mode == "script" {
		h.N = 1
		h.Cases(func(i int, r *verifx.Rng) { scriptCase(h) })
		h.Done()
		return
	}
	h.Cases(func(i int, r *verifx.Rng) { history(h, r) })
	h.Done()
}
