//go:build verif

package api

// Thin accessors for the C24 harness (/verif). No logic under test is copied here: the harness drives the
// real pointsCache (get / loadCached / invalidate / evictLocked and the invalidatedSecondsCache under it)
// with an injected clock and a recording loader, and reads the unexported state back for observation.

import (
	"context"
	"sort"
	"time"

	"github.com/VKCOM/statshouse/internal/data_model"
)

// VerifPCLoad is what the harness' loader returns: n rows tagged with generation gen (rows[i].count = gen).
type VerifPCLoad func(key string, from, to int64) (n int, gen int, err error)

type VerifPCache struct {
	c *pointsCache
	h *requestHandler
}

func VerifNewPCache(approxMaxSize int, utcOffset int64, now func() time.Time, load VerifPCLoad) *VerifPCache {
	loader := func(_ context.Context, _ *requestHandler, pq *queryBuilder, lod data_model.LOD) ([]pSelectRow, error) {
		n, gen, err := load(pq.cacheKey, lod.FromSec, lod.ToSec)
		rows := make([]pSelectRow, n)
		for i := range rows {
			rows[i].count = float64(gen)
		}
		return rows, err
	}
	return &VerifPCache{
		c: newPointsCache(approxMaxSize, utcOffset, loader, now),
		h: &requestHandler{Handler: &Handler{}},
	}
}

// Get calls the real pointsCache.get; the cache key is set directly (getOrBuildCacheKey returns a preset key).
// Returns the number of rows, the generation tag of the rows (0 if there are none) and the error.
func (v *VerifPCache) Get(key string, from, to int64, avoidCache bool) (n int, gen int, err error) {
	pq := &queryBuilder{cacheKey: key}
	rows, err := v.c.get(context.Background(), v.h, pq, data_model.LOD{FromSec: from, ToSec: to}, avoidCache)
	if len(rows) > 0 {
		gen = int(rows[0].count)
	}
	return len(rows), gen, err
}

func (v *VerifPCache) Invalidate(times []int64) { v.c.invalidate(times) }

type VerifPCRange struct {
	From, To     int64
	LoadedAtNano int64
	N, Gen       int
}

type VerifPCEntry struct {
	Key      string
	Ptr      any // identity of the *cacheEntry (changes when the key was evicted and re-created)
	LRU      int64
	RowsSize int
	Ranges   []VerifPCRange // sorted by (From, To)
}

type VerifPCSnap struct {
	Size    int
	Entries []VerifPCEntry // sorted by key
	Levels  [][]int64      // keys of seconds[i], sorted
	Values  []map[int64]int64
}

func (v *VerifPCache) Snapshot() VerifPCSnap {
	c := v.c
	c.cacheMu.RLock()
	defer c.cacheMu.RUnlock()
	s := VerifPCSnap{Size: c.size}
	for k, e := range c.cache {
		ve := VerifPCEntry{Key: k, Ptr: e, LRU: e.lru.Load(), RowsSize: e.rowsSize}
		for tr, cr := range e.rows {
			r := VerifPCRange{From: tr.from, To: tr.to, LoadedAtNano: cr.loadedAtNano, N: len(cr.rows)}
			if len(cr.rows) > 0 {
				r.Gen = int(cr.rows[0].count)
			}
			ve.Ranges = append(ve.Ranges, r)
		}
		sort.Slice(ve.Ranges, func(i, j int) bool {
			if ve.Ranges[i].From != ve.Ranges[j].From {
				return ve.Ranges[i].From < ve.Ranges[j].From
			}
			return ve.Ranges[i].To < ve.Ranges[j].To
		})
		s.Entries = append(s.Entries, ve)
	}
	sort.Slice(s.Entries, func(i, j int) bool { return s.Entries[i].Key < s.Entries[j].Key })
	for i := range c.invalidatedAtNano.seconds {
		m := c.invalidatedAtNano.seconds[i]
		keys := make([]int64, 0, len(m))
		vals := make(map[int64]int64, len(m))
		for k, at := range m {
			keys = append(keys, k)
			vals[k] = at
		}
		sort.Slice(keys, func(a, b int) bool { return keys[a] < keys[b] })
		s.Levels = append(s.Levels, keys)
		s.Values = append(s.Values, vals)
	}
	return s
}

// VerifPCConsts returns the constants as the compiler sees them.
func VerifPCConsts() (invalidateFromNano, invalidateLingerNano int64, evictionSample int, levelSteps []int64) {
	return int64(invalidateFrom), int64(invalidateLinger), maxEvictionSampleSize, append([]int64(nil), steps[:]...)
}

func VerifPCRoundTime(t, step, utcOffset int64) int64 { return roundTime(t, step, utcOffset) }
