//go:build verif

// verif-c24: correspondence + direct oracle for the API points cache (internal/api/pcache.go).
//
// The REAL pointsCache runs in-process with an injected clock (every now() call returns the next value of a
// scripted clock and is recorded) and a recording loader. A get() is printed as two protocol ops, one per
// critical section of the real code: `get` (loadCached + the loadedAt clock reading, printed when the loader is
// entered or when get returns a cached result) and `end` (the store section, printed when get returns). Ops that
// the loader callback runs in between (invalidate, other gets) are exactly the interleavings a concurrent caller
// can produce, because get() does not hold the mutex while loading.
//
// Go map iteration order decides which keys evictLocked / invalidateLocked sample; the harness observes what was
// evicted / deleted and passes it in the op line, the model checks that the observed choice is one the code can make.
package main

import (
	"errors"
	"fmt"
	"os"
	"sort"
	"strings"
	"time"

	"github.com/VKCOM/statshouse/internal/api"
	"github.com/VKCOM/statshouse/internal/verifx"
)

const nsPerSec = int64(1_000_000_000)

var (
	cFromNs, cLingerNs int64
	cSample            int
	cSteps             []int64
)

type rng struct{ from, to int64 }
type kr struct {
	key      string
	from, to int64
}

type world struct {
	h       *verifx.H
	r       *verifx.Rng
	c       *api.VerifPCache
	off     int64
	maxSize int
	mono    bool

	zero     int     // number of upcoming clock readings after which the clock does not advance
	clk      int64   // the value the next now() call returns
	consumed []int64 // clock values handed out since the last reset
	minClk   int64   // smallest clock value handed out during the current top-level bookkeeping window

	keys   []string
	ranges []rng
	secs   []int64 // interesting seconds to invalidate

	nextID, nextGen int
	depth           int
	loaderFn        api.VerifPCLoad

	// ---- shadow state of the direct oracle (independent of the Lean model)
	invals        map[int64][]int64 // second -> every invalidation clock reading (never forgotten)
	maxInvalClock int64
	anyInval      bool
	genStart      map[int]int64 // generation -> harness clock when its load started
	lastGen       map[kr]int    // last successfully stored generation per (key, range), in order of return
	lastN         map[kr]int
	maxRows       int

	// ---- non-triviality bookkeeping
	sawStale, sawValidMutable, sawEvict, sawGcPartial, sawEvictSampled, sawNested, sawImmutableHit bool
	lastInvalAt                                                                                  int64
}

func (w *world) now() time.Time {
	v := w.clk
	w.consumed = append(w.consumed, v)
	if w.zero > 0 {
		w.zero--
		return time.Unix(0, v)
	}
	w.clk += w.delta()
	return time.Unix(0, v)
}

// delta is the scripted advance of the clock after each reading.
func (w *world) delta() int64 {
	r := w.r
	var d int64
	switch r.Pick(35, 25, 15, 10, 10, 5) {
	case 0:
		d = 0
	case 1:
		d = int64(r.Range(1, 2000))
	case 2:
		d = int64(r.Range(1, 3)) * nsPerSec / 2
	case 3:
		d = nsPerSec * int64(r.Range(1, 20))
	case 4:
		d = int64(r.Range(1, 999_999_999))
	default:
		d = cLingerNs + int64(r.Range(-1, 1))
	}
	if !w.mono && r.Chance(1, 6) {
		d = -d * int64(r.Range(1, 3))
	}
	return d
}

func (w *world) takeClocks() []int64 {
	c := w.consumed
	w.consumed = nil
	return c
}

func i64s(xs []int64) string { return verifx.List(xs) }

func keyID(k string) string { return strings.TrimPrefix(k, "k") }

func (w *world) entry(s api.VerifPCSnap, key string) *api.VerifPCEntry {
	for i := range s.Entries {
		if s.Entries[i].Key == key {
			return &s.Entries[i]
		}
	}
	return nil
}

func findRange(e *api.VerifPCEntry, from, to int64) *api.VerifPCRange {
	if e == nil {
		return nil
	}
	for i := range e.Ranges {
		if e.Ranges[i].From == from && e.Ranges[i].To == to {
			return &e.Ranges[i]
		}
	}
	return nil
}

func entryLine(e *api.VerifPCEntry) string {
	if e == nil {
		return "entry none"
	}
	var sb strings.Builder
	fmt.Fprintf(&sb, "entry k=%s lru=%d rowsSize=%d ranges=", keyID(e.Key), e.LRU, e.RowsSize)
	if len(e.Ranges) == 0 {
		sb.WriteString("-")
	}
	for i, r := range e.Ranges {
		if i > 0 {
			sb.WriteString(";")
		}
		fmt.Fprintf(&sb, "%d:%d@%d/%d/%d", r.From, r.To, r.LoadedAtNano, r.N, r.Gen)
	}
	return sb.String()
}

func actualSize(s api.VerifPCSnap) int {
	n := 0
	for _, e := range s.Entries {
		n++
		for _, r := range e.Ranges {
			n += 1 + r.N
		}
	}
	return n
}

var errLoad = errors.New("load failed")

// get runs one real pointsCache.get and prints its two critical sections as protocol ops.
func (w *world) get(key string, from, to int64, avoid bool) {
	h := w.h
	id := w.nextID
	w.nextID++
	w.depth++
	defer func() { w.depth-- }()
	before := w.c.Snapshot()
	preRange := findRange(w.entry(before, key), from, to)
	outer := w.consumed // clocks consumed by an enclosing call stay with it
	w.consumed = nil
	tLo := w.clk
	loaderCalled := false
	var myClocks []int64
	var loadN, loadGen int
	var loadErr error
	var pre api.VerifPCSnap // real state when the loader returns = just before the store section
	loader := func(k string, f, t int64) (int, int, error) {
		loaderCalled = true
		myClocks = w.takeClocks()
		why := "absent"
		if avoid {
			why = "avoid"
		} else if preRange != nil {
			why = "stale"
			w.sawStale = true
			h.Stat("get.stale", 1)
		} else {
			h.Stat("get.absent", 1)
		}
		h.Op("get %d %s %d %d %d %s", id, keyID(key), from, to, b2i(avoid), i64s(myClocks))
		if why == "stale" && len(myClocks) >= 2 {
			w.oracleStale(key, from, to, preRange.LoadedAtNano, myClocks[1])
		}
		mid := w.c.Snapshot()
		h.Obs("load why=%s %s", why, entryLine(w.entry(mid, key)))
		w.nextGen++
		loadGen = w.nextGen
		// "the moment its load started": the harness clock when the loader is entered. With a clock that steps
		// backwards the notion is ambiguous; take the latest of the readings so that the oracle never demands more.
		w.genStart[loadGen] = w.clk
		for _, c := range myClocks {
			if c > w.genStart[loadGen] {
				w.genStart[loadGen] = c
			}
		}
		switch w.r.Pick(30, 25, 20, 15, 6, 4) {
		case 0:
			loadN = 0
		case 1:
			loadN = 1
		case 2:
			loadN = 2
		case 3:
			loadN = w.r.Range(3, 5)
		case 4:
			loadN = w.r.Range(6, 12)
		default:
			loadN = w.r.Range(13, 40)
		}
		if w.maxSize > 150 {
			loadN = w.r.Intn(2)
		}
		if loadN > w.maxRows {
			w.maxRows = loadN
		}
		if w.r.Chance(1, 14) {
			loadErr = errLoad
		}
		// concurrent callers while this load is in flight
		if w.depth <= 2 && w.r.Chance(35, 100) {
			k := w.r.Range(1, 2)
			for j := 0; j < k; j++ {
				w.sawNested = true
				h.Stat("nested.ops", 1)
				if w.r.Chance(70, 100) {
					w.invalidate(w.pickSecs())
				} else {
					rg := w.ranges[w.r.Intn(len(w.ranges))]
					w.get(w.keys[w.r.Intn(len(w.keys))], rg.from, rg.to, false)
				}
			}
		}
		pre = w.c.Snapshot()
		return loadN, loadGen, loadErr
	}
	w.loaderFn = loader
	// the eviction loop of get spins forever (holding the mutex) if the size accounting is ever off: run the call
	// under a watchdog (expected duration: microseconds) so that a hang becomes a reported violation, not a timeout
	type getRes struct {
		n, gen int
		err    error
		pnc    any
	}
	done := make(chan getRes, 1)
	go func() {
		var r getRes
		defer func() {
			if p := recover(); p != nil {
				r.pnc = p
			}
			done <- r
		}()
		r.n, r.gen, r.err = w.c.Get(key, from, to, avoid)
	}()
	var gr getRes
	select {
	case gr = <-done:
	case <-time.After(30 * time.Second):
		if !loaderCalled {
			h.Op("get %d %s %d %d %d %s", id, keyID(key), from, to, b2i(avoid), i64s(w.takeClocks()))
		}
		h.Obs("hang")
		h.Viol("get-hangs", "get %s %d..%d did not return within 30 s (eviction loop spinning: size=%d with %d keys, approxMaxSize=%d)", key, from, to, before.Size, len(before.Entries), w.maxSize)
		h.Done()
		os.Exit(0)
	}
	if gr.pnc != nil {
		panic(gr.pnc)
	}
	n, gen, err := gr.n, gr.gen, gr.err
	rest := w.takeClocks()
	w.consumed = outer
	tHi := w.clk
	after := w.c.Snapshot()
	h.Stat("get.calls", 1)
	k := kr{key, from, to}
	if !loaderCalled {
		// served from the cache: a single critical section
		h.Op("get %d %s %d %d %d %s", id, keyID(key), from, to, b2i(avoid), i64s(rest))
		if err != nil {
			h.Viol("hit-error", "get served from cache returned error %v", err)
		}
		h.Obs("hit n=%d gen=%d %s", n, gen, entryLine(w.entry(after, key)))
		h.Stat("get.hit", 1)
		w.oracleServed(k, n, gen, tLo, tHi, rest)
		return
	}
	// the store section
	evicted := []string{}
	for _, e := range pre.Entries {
		a := w.entry(after, e.Key)
		if a == nil || a.Ptr != e.Ptr {
			evicted = append(evicted, keyID(e.Key))
		}
	}
	if len(evicted) > 0 {
		w.sawEvict = true
		h.Stat("evict.keys", int64(len(evicted)))
		if len(evicted) > 1 {
			h.Stat("evict.multi", 1)
		}
		if len(pre.Entries) > cSample {
			w.sawEvictSampled = true
			h.Stat("evict.sampled", 1)
		}
	}
	h.Op("end %d %d %d %d %s %s", id, b2i(loadErr != nil), loadN, loadGen, i64s(rest), verifx.List(evicted))
	if (err != nil) != (loadErr != nil) || n != loadN || (n > 0 && gen != loadGen) {
		h.Viol("get-returns-other-rows", "get %s %d..%d returned n=%d gen=%d err=%v, loader gave n=%d gen=%d err=%v", key, from, to, n, gen, err, loadN, loadGen, loadErr)
	}
	h.Obs("stored size=%d keys=%d %s", after.Size, len(after.Entries), entryLine(w.entry(after, key)))
	if loadErr == nil && !avoid {
		w.lastGen[k] = loadGen
		w.lastN[k] = loadN
		h.Stat("get.stored", 1)
	}
	// ---- oracle: exact accounting (Lean: run_exact) — c.size is the sum of rowsSize + len(rows) over the entries
	acc := 0
	for _, e := range after.Entries {
		acc += e.RowsSize + len(e.Ranges)
	}
	if acc != after.Size {
		h.Viol("size-accounting", "c.size=%d but the entries account for %d", after.Size, acc)
	}
	// ---- oracle: size bound (actual content, counted from the real maps)
	if a := actualSize(after); a > w.maxSize+1+w.maxRows {
		h.Viol("size-bound", "cache holds %d units (keys+ranges+rows) > approxMaxSize %d + 1 + largest load %d", a, w.maxSize, w.maxRows)
	}
	// ---- oracle: a range wholly outside the mutable window is served as loaded
	if preRange != nil && !avoid {
		minC := tLo
		for _, c := range myClocks {
			if c < minC {
				minC = c
			}
		}
		if to*nsPerSec < minC+cFromNs {
			h.Viol("immutable-reloaded", "get %s %d..%d reloaded although the range is older than the mutable window (clock %d)", key, from, to, minC)
		}
	}
}

func b2i(b bool) int {
	if b {
		return 1
	}
	return 0
}

// oracleServed evaluates the property on a result served from the cache by the REAL code.
func (w *world) oracleServed(k kr, n, gen int, tLo, tHi int64, clocks []int64) {
	h := w.h
	g, ok := w.lastGen[k]
	if !ok {
		h.Viol("served-never-loaded", "get %s %d..%d served from cache but no load of it ever completed", k.key, k.from, k.to)
		return
	}
	if n != w.lastN[k] || (n > 0 && gen != g) {
		h.Viol("served-not-latest-load", "get %s %d..%d served n=%d gen=%d, last completed load was n=%d gen=%d", k.key, k.from, k.to, n, gen, w.lastN[k], g)
	}
	loadStart := w.genStart[g]
	maxC := tHi
	for _, c := range clocks {
		if c > maxC {
			maxC = c
		}
	}
	if tLo > maxC {
		maxC = tLo
	}
	minC := tLo
	for _, c := range clocks {
		if c < minC {
			minC = c
		}
	}
	edge := maxC + cFromNs // a second is inside the mutable window during the whole call iff sec*1e9 >= edge
	if k.to*nsPerSec >= edge {
		h.Stat("hit.mutable", 1)
	} else {
		h.Stat("hit.immutable", 1)
		w.sawImmutableHit = true
	}
	if w.anyInval && w.maxInvalClock > minC {
		h.Stat("oracle.skipped.clock-went-back", 1)
		return
	}
	secs := make([]int64, 0, len(w.invals))
	for s := range w.invals {
		secs = append(secs, s)
	}
	sort.Slice(secs, func(a, b int) bool { return secs[a] < secs[b] })
	touched := false
	for _, s := range secs {
		if s < k.from || s > k.to || s*nsPerSec < edge {
			continue
		}
		touched = true
		for _, at := range w.invals[s] {
			if at+cLingerNs >= loadStart {
				h.Viol("stale-served", "get %s %d..%d served rows whose load started at %d, but second %d was invalidated at %d (linger %d); clock now %d", k.key, k.from, k.to, loadStart, s, at, cLingerNs, maxC)
				return
			}
		}
	}
	if touched {
		w.sawValidMutable = true
		h.Stat("hit.revalidated", 1)
	}
}

// oracleStale: the two-sided reading of C24 (Lean: stale_iff). The real code found a cached range stale at check
// clock tChk: some second of [max(from, edge second), to] must have been invalidated at a clock tAt with
// loadedAt <= tAt + linger. Skipped when an earlier invalidate call read a later clock (hypothesis of the theorem).
func (w *world) oracleStale(key string, from, to, loadedAt, tChk int64) {
	if w.anyInval && w.maxInvalClock > tChk {
		w.h.Stat("oracle.stale.skipped.clock-went-back", 1)
		return
	}
	imm := tChk + cFromNs
	edge := imm / nsPerSec
	if imm%nsPerSec < 0 {
		edge--
	}
	lo := from
	if from*nsPerSec < imm {
		lo = edge
	}
	for s, ats := range w.invals {
		if s < lo || s > to {
			continue
		}
		for _, at := range ats {
			if loadedAt <= at+cLingerNs {
				w.h.Stat("oracle.stale.justified", 1)
				return
			}
		}
	}
	w.h.Viol("needless-reload", "get %s %d..%d (loaded at %d) was found stale at clock %d although no second of %d..%d was invalidated at or after loadedAt-linger", key, from, to, loadedAt, tChk, lo, to)
}

func (w *world) invalidate(secs []int64) {
	h := w.h
	outer := w.consumed
	w.consumed = nil
	before := w.c.Snapshot()
	w.c.Invalidate(secs)
	clocks := w.takeClocks()
	w.consumed = outer
	after := w.c.Snapshot()
	// what did invalidateLocked delete? (before ∪ keys touched by updateTimeLocked) \ after
	dels := make([]string, len(cSteps))
	partial := false
	for i, step := range cSteps {
		set := map[int64]bool{}
		for _, k := range before.Levels[i] {
			set[k] = true
		}
		for _, s := range secs {
			set[api.VerifPCRoundTime(s, step, w.off)] = true
		}
		for _, k := range after.Levels[i] {
			delete(set, k)
		}
		d := make([]int64, 0, len(set))
		for k := range set {
			d = append(d, k)
		}
		sort.Slice(d, func(a, b int) bool { return d[a] < d[b] })
		dels[i] = i64s(d)
		h.Stat("gc.deleted", int64(len(d)))
		if len(clocks) == 2 {
			edge := (clocks[1] + cFromNs) / nsPerSec
			for _, k := range after.Levels[i] {
				if k < edge {
					partial = true
				}
			}
		}
	}
	if partial {
		w.sawGcPartial = true
		h.Stat("gc.partial", 1)
	}
	h.Op("inval %s %s %s", i64s(clocks), i64s(secs), strings.Join(dels, " "))
	lens := make([]int, len(after.Levels))
	for i := range after.Levels {
		lens[i] = len(after.Levels[i])
	}
	h.Obs("inv levels=%s", verifx.List(lens))
	h.Stat("inval.calls", 1)
	h.Stat("inval.secs", int64(len(secs)))
	// oracle shadow
	if len(clocks) > 0 {
		for _, s := range secs {
			w.invals[s] = append(w.invals[s], clocks[0])
		}
		w.lastInvalAt = clocks[0]
	}
	for _, c := range clocks {
		if !w.anyInval || c > w.maxInvalClock {
			w.maxInvalClock = c
		}
		w.anyInval = true
	}
}

func (w *world) pickSecs() []int64 {
	r := w.r
	n := 1
	switch r.Pick(60, 25, 10, 5) {
	case 1:
		n = 2
	case 2:
		n = r.Range(3, 6)
	case 3:
		n = 0
	}
	out := make([]int64, 0, n)
	for i := 0; i < n; i++ {
		out = append(out, w.pickSec())
	}
	return out
}

func (w *world) pickSec() int64 {
	r := w.r
	if r.Chance(70, 100) && len(w.secs) > 0 {
		return w.secs[r.Intn(len(w.secs))]
	}
	rg := w.ranges[r.Intn(len(w.ranges))]
	switch r.Pick(3, 3, 2, 2) {
	case 0:
		if rg.to >= rg.from {
			return rg.from + int64(r.U64()%uint64(rg.to-rg.from+1))
		}
		return rg.from
	case 1:
		return []int64{rg.from - 1, rg.from, rg.from + 1, rg.to - 1, rg.to, rg.to + 1}[r.Intn(6)]
	case 2:
		// a rounding boundary near the range
		step := cSteps[r.Intn(len(cSteps))]
		b := api.VerifPCRoundTime([]int64{rg.from, rg.to}[r.Intn(2)], step, w.off) + step*int64(r.Range(0, 2))
		return b + int64(r.Range(-1, 1))
	default:
		return w.clk/nsPerSec + cFromNs/nsPerSec + int64(r.Range(-3, 3))
	}
}

// newRange builds a range relative to the current mutable edge.
func (w *world) newRange() rng {
	r := w.r
	nowSec := w.clk / nsPerSec
	edge := nowSec + cFromNs/nsPerSec
	window := -cFromNs / nsPerSec
	inWin := func() int64 { return edge + 1 + int64(r.U64()%uint64(window)) }
	align := func(t int64) int64 {
		step := cSteps[r.Intn(len(cSteps))]
		return api.VerifPCRoundTime(t, step, w.off) + int64(r.Range(-1, 1))
	}
	switch r.Pick(16, 18, 18, 14, 12, 8, 6, 4, 4) {
	case 0: // inside one minute
		f := inWin()
		return rng{f, f + int64(r.Range(0, 50))}
	case 1: // a few minutes
		f := inWin()
		if r.Bool() {
			f = align(f)
		}
		return rng{f, f + int64(r.Range(60, 600))}
	case 2: // several hours
		f := inWin()
		t := f + int64(r.Range(3600, 30*3600))
		if r.Bool() {
			f = align(f)
		}
		if r.Bool() {
			t = align(t)
		}
		return rng{f, t}
	case 3: // straddles the mutable edge
		return rng{edge - int64(r.Range(1, 20000)), edge + int64(r.Range(0, 20000))}
	case 4: // ends close to the edge (becomes immutable soon)
		t := edge + int64(r.Range(-2, 40))
		return rng{t - int64(r.Range(0, 7300)), t}
	case 5: // wholly immutable
		t := edge - int64(r.Range(1, 100000))
		return rng{t - int64(r.Range(0, 100000)), t}
	case 6: // exactly aligned to hours / minutes
		step := cSteps[r.Intn(2)]
		f := api.VerifPCRoundTime(inWin(), step, w.off)
		return rng{f, f + step*int64(r.Range(1, 4)) - int64(r.Range(0, 1))}
	case 7: // from > to
		f := inWin()
		return rng{f, f - int64(r.Range(1, 4000))}
	default: // reaches into the future
		return rng{nowSec - int64(r.Range(0, 4000)), nowSec + int64(r.Range(0, 4000))}
	}
}

func (w *world) addSecsFor(rg rng) {
	r := w.r
	cand := []int64{rg.from, rg.to, rg.from - 1, rg.to + 1, rg.from + 1, rg.to - 1}
	if rg.to > rg.from {
		for i := 0; i < 3; i++ {
			cand = append(cand, rg.from+int64(r.U64()%uint64(rg.to-rg.from+1)))
		}
		for _, step := range cSteps[:2] {
			a := api.VerifPCRoundTime(rg.from, step, w.off)
			b := api.VerifPCRoundTime(rg.to, step, w.off)
			cand = append(cand, a+step, a+step-1, a+step+1, b, b-1, b+1, a+2*step, b-step)
			if b-a > 2*step {
				m := a + step*(1+int64(r.U64()%uint64((b-a)/step-1)))
				cand = append(cand, m, m+step-1, m+int64(r.U64()%uint64(step)))
			}
		}
	}
	for i := 0; i < 5; i++ {
		w.secs = append(w.secs, cand[r.Intn(len(cand))])
	}
}

func runCase(h *verifx.H, i int, r *verifx.Rng) {
	w := &world{h: h, r: r, invals: map[int64][]int64{}, genStart: map[int]int64{}, lastGen: map[kr]int{}, lastN: map[kr]int{}}
	big := r.Chance(1, 25)
	w.mono = !r.Chance(1, 7)
	switch r.Pick(30, 20, 15, 15, 10, 10) {
	case 0:
		w.off = 0
	case 1:
		w.off = 3 * 3600
	case 2:
		w.off = 4*24*3600 + 3*3600 // calcUTCOffset: week start + zone
	case 3:
		w.off = -5*3600 - 1800
	case 4:
		w.off = int64(r.Range(-100000, 100000))
	default:
		w.off = 345600
	}
	switch r.Pick(35, 35, 20, 10) {
	case 0:
		w.maxSize = r.Range(1, 8)
	case 1:
		w.maxSize = r.Range(9, 30)
	case 2:
		w.maxSize = r.Range(31, 90)
	default:
		w.maxSize = 1_000_000
	}
	if big {
		w.maxSize = r.Range(215, 330)
	}
	base := int64(1_700_000_000) + int64(r.Range(-50_000_000, 50_000_000))
	w.clk = base * nsPerSec
	if r.Bool() {
		w.clk += int64(r.Range(0, 999_999_999))
	}
	w.c = api.VerifNewPCache(w.maxSize, w.off, w.now, func(k string, f, t int64) (int, int, error) { return w.loaderFn(k, f, t) })
	h.Op("new %d %d", w.maxSize, w.off)
	nk := r.Range(1, 5)
	for j := 1; j <= nk; j++ {
		w.keys = append(w.keys, fmt.Sprintf("k%d", j))
	}
	nr := r.Range(1, 5)
	for j := 0; j < nr; j++ {
		rg := w.newRange()
		w.ranges = append(w.ranges, rg)
		w.addSecsFor(rg)
	}
	h.Stat("case.mono", int64(b2i(w.mono)))
	h.Stat("case.big", int64(b2i(big)))
	nops := r.Range(8, 60)
	if big {
		// many keys (eviction samples 100 of them) and one huge invalidation (gc samples 100 keys per level)
		for j := nk + 1; j <= r.Range(120, 190); j++ {
			w.keys = append(w.keys, fmt.Sprintf("k%d", j))
		}
		rg := w.ranges[0]
		var many []int64
		span := int64(r.Range(200, 20000))
		for j := 0; j < r.Range(110, 240); j++ {
			many = append(many, rg.from+int64(r.U64()%uint64(span)))
		}
		w.invalidate(many)
		for _, k := range w.keys {
			rg := w.ranges[r.Intn(len(w.ranges))]
			w.get(k, rg.from, rg.to, false)
		}
		nops = r.Range(40, 120)
	}
	for j := 0; j < nops; j++ {
		func() {
			defer func() {
				if p := recover(); p != nil {
					h.Obs("panic")
					h.Viol("panic", "%v", p)
				}
			}()
			switch r.Pick(50, 26, 12, 5, 7) {
			case 4: // a load that starts exactly around (invalidation clock + linger)
				rg := w.ranges[r.Intn(len(w.ranges))]
				key := w.keys[r.Intn(len(w.keys))]
				sec := rg.from
				if rg.to > rg.from {
					sec += int64(r.U64() % uint64(rg.to-rg.from+1))
				}
				w.invalidate([]int64{sec})
				t := w.lastInvalAt + cLingerNs + int64(r.Range(-1, 1))
				if t >= w.clk || !w.mono {
					w.clk = t
					w.zero = 3
					h.Stat("boundary.linger", 1)
				}
				w.get(key, rg.from, rg.to, false)
				w.zero = 0
				w.get(key, rg.from, rg.to, false)
			case 0:
				rg := w.ranges[r.Intn(len(w.ranges))]
				w.get(w.keys[r.Intn(len(w.keys))], rg.from, rg.to, r.Chance(1, 14))
			case 1:
				w.invalidate(w.pickSecs())
			case 2: // the clock jumps
				switch r.Pick(30, 25, 15, 15, 15) {
				case 0:
					w.clk += int64(r.Range(1, 120)) * nsPerSec
				case 1: // exactly around the linger after the last invalidation
					t := w.lastInvalAt + cLingerNs + int64(r.Range(-1, 1))
					if t >= w.clk || !w.mono {
						w.clk = t
					}
				case 2:
					w.clk += int64(r.Range(1, 30)) * 3600 * nsPerSec
				case 3:
					w.clk += -cFromNs + int64(r.Range(-7200, 7200))*nsPerSec
				default:
					if w.mono {
						w.clk += int64(r.Range(1, 999_999_999))
					} else {
						w.clk -= int64(r.Range(1, 50000)) * nsPerSec
					}
				}
				h.Stat("clock.jump", 1)
			default: // a new range joins the pool
				rg := w.newRange()
				w.ranges = append(w.ranges, rg)
				w.addSecsFor(rg)
			}
		}()
	}
	// final full dump of the real state
	s := w.c.Snapshot()
	h.Op("dump")
	h.Obs("size=%d keys=%d", s.Size, len(s.Entries))
	for k := range s.Entries {
		h.Obs("%s", entryLine(&s.Entries[k]))
	}
	for li := range s.Levels {
		var sb strings.Builder
		for j, k := range s.Levels[li] {
			if j > 0 {
				sb.WriteString(",")
			}
			fmt.Fprintf(&sb, "%d=%d", k, s.Values[li][k])
		}
		if len(s.Levels[li]) == 0 {
			sb.WriteString("-")
		}
		h.Obs("level %d %s", li, sb.String())
	}
	if w.sawStale && w.sawValidMutable {
		h.NonTrivial("revalidated+stale")
	}
	if w.sawEvict {
		h.NonTrivial("evict")
	}
	if w.sawGcPartial {
		h.NonTrivial("gc-sampled")
	}
	if w.sawEvictSampled {
		h.NonTrivial("evict-sampled")
	}
	if w.sawNested && w.sawStale {
		h.NonTrivial("concurrent-inval")
	}
}

func main() {
	h := verifx.New()
	cFromNs, cLingerNs, cSample, cSteps = api.VerifPCConsts()
	if h.Mode == "gen" {
		fmt.Printf("/- generated by verif-c24 -mode=gen from /repo (internal/api constants as the compiler sees them) -/\n")
		fmt.Printf("namespace SH.Gen.C24\n")
		fmt.Printf("def invalidateFromNs : Int := %d\n", cFromNs)
		fmt.Printf("def invalidateLingerNs : Int := %d\n", cLingerNs)
		fmt.Printf("def evictionSample : Nat := %d\n", cSample)
		fmt.Printf("def steps : List Int := [%s]\n", strings.ReplaceAll(i64s(cSteps), ",", ", "))
		fmt.Printf("end SH.Gen.C24\n")
		return
	}
	h.Cases(func(i int, r *verifx.Rng) { runCase(h, i, r) })
	h.Done()
}
