//go:build verif

// Thin accessors for the C17 harness (cmd/verif-c17). No engine logic lives here: every function either calls an
// unexported method of the real Engine unchanged or reads/sets one of the engine's own test hooks.
package sqlite

import (
	"context"
	"time"

	"github.com/VKCOM/statshouse/internal/sqlite/sqlite0"
)

// VerifDoWithoutWait is Engine.doWithoutWait: the write path of Do/DoWithOffset up to (not including) the wait for the
// binlog commit. The returned channel is the one DoWithOffset blocks on (nil = nothing to wait for).
func (e *Engine) VerifDoWithoutWait(ctx context.Context, queryName string, fn func(Conn, []byte) ([]byte, error)) (chan struct{}, int64, int64, error) {
	return e.doWithoutWait(ctx, queryName, fn)
}

// VerifSetHooks sets the engine's own test hooks (isTest, mustCommitNowFlag, mustWaitCommit).
func (e *Engine) VerifSetHooks(isTest, mustCommitNow, mustWaitCommit bool) {
	e.isTest = isTest
	e.mustCommitNowFlag = mustCommitNow
	e.mustWaitCommit = mustWaitCommit
}

// VerifCommitTX is what txLoop does on every tick (waitBinlogCommit=true in WaitCommit mode).
func (e *Engine) VerifCommitTX(waitBinlogCommit bool) error {
	return e.commitTXAndStartNew(true, waitBinlogCommit)
}

func (e *Engine) VerifDBOffset() int64 { return e.dbOffset }

func (e *Engine) VerifCommittedOffset() int64 {
	ci, _ := e.committedInfo.Load().(*committedInfo)
	if ci == nil {
		return -1
	}
	return ci.offset
}

func (e *Engine) VerifWaitQLen() int {
	e.waitQMx.Lock()
	defer e.waitQMx.Unlock()
	return len(e.waitQ)
}

// VerifRWBusy reports whether the RW connection mutex is currently held (by a blocked commit or Do).
func (e *Engine) VerifRWBusy() bool {
	if e.rw.mu.TryLock() {
		e.rw.mu.Unlock()
		return false
	}
	return true
}

// VerifReadTx runs fn on the RW connection inside the open write transaction (Engine.do, as the engine's own
// startup code does), so fn sees uncommitted effects.
func (e *Engine) VerifReadTx(fn func(Conn) error) error { return e.do(fn) }

// VerifAbandon drops the engine without committing the open transaction (used after the files were copied for an
// in-process crash image).
func (e *Engine) VerifAbandon() {
	e.stop()
	_ = e.close(false, false)
}

// VerifPeek opens the database file at path with a plain connection (no engine), lets SQLite recover it, and runs fn.
func VerifPeek(path string, fn func(Conn) error) error {
	conn, err := sqlite0.Open(path, sqlite0.OpenReadWrite)
	if err != nil {
		return err
	}
	_ = conn.SetBusyTimeout(5 * time.Second)
	sc := newSqliteConn(conn, 10)
	c := sc.startNewConn(false, context.Background(), &StatsOptions{})
	err = fn(c)
	_ = c.close(nil)
	err2 := sc.Close()
	if err != nil {
		return err
	}
	return err2
}

// VerifSetCommitEvery changes Options.CommitEvery of a running engine (the clock knob of
// binlogEngineReplicaImpl.Apply: "more than CommitEvery since the last delayed commit").
func (e *Engine) VerifSetCommitEvery(d time.Duration) { e.opt.CommitEvery = d }
