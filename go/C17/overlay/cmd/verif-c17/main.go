//go:build verif

// verif-c17: correspondence + direct oracle for the binlog-backed SQLite engine (internal/sqlite).
//
//	default mode   step-level: one real Engine (SQLite files under /dev/shm/C17, or /tmp/C17 without tmpfs) driven op by op against a scripted
//	               binlog (implements binlog.Binlog; delivers Apply/Skip/Commit exactly when the op stream says so).
//	               After every op the committed state (RO connection, what readers see), the state inside the open
//	               write transaction, the in-memory offset, the committed offset, the wait queue and the set of
//	               acknowledged calls are printed and diffed against the Lean model; crashes are in-process crash
//	               images (copy of the database files while the write transaction is open) reopened with a new
//	               engine and a binlog that replays the durable prefix.
//	-mode=crash    the harness re-executes itself (-mode=child): a child runs concurrent Do/View against a real
//	               engine + real on-disk fsbinlog and logs acknowledgements to a pipe; the parent SIGKILLs it at a
//	               seeded instant (and, in a third of the rounds, appends the prefix of one more record to the binlog: what
//	               a kill inside write(2) leaves), inspects the files under /tmp/C17, reopens the engine and evaluates the
//	               property. Kill instants depend on scheduling, so this mode is not byte-reproducible; the seeded parts
//	               (workload, torn tail, graceful close between rounds) are.
package main

import (
	"bufio"
	"context"
	"encoding/binary"
	"errors"
	"fmt"
	"io"
	"log"
	"os"
	"os/exec"
	"path/filepath"
	"strconv"
	"strings"
	"sync"
	"syscall"
	"time"

	"github.com/VKCOM/statshouse/internal/sqlite"
	"github.com/VKCOM/statshouse/internal/verifx"
	"github.com/VKCOM/statshouse/internal/vkgo/binlog"
	"github.com/VKCOM/statshouse/internal/vkgo/binlog/fsbinlog"
)

const (
	evMagic     uint32 = 0x0c170e01
	svcMagic    uint32 = 0x0c175c01
	schema             = "CREATE TABLE IF NOT EXISTS t (seq INTEGER PRIMARY KEY AUTOINCREMENT, id INTEGER UNIQUE);"
	diskScratch        = "/tmp/C17" // kill runs: real files
)

// step-level runs take in-process crash images, so nothing depends on fsync: use tmpfs when there is one (an fsync on the
// shared, loaded disk costs 50-100 ms and every engine open does several)
var scratch = func() string {
	if st, err := os.Stat("/dev/shm"); err == nil && st.IsDir() {
		return "/dev/shm/C17"
	}
	return diskScratch
}()

func pad4(n int) int { return (n + 3) &^ 3 }

func evPayload(id int, ln int) []byte {
	if ln < 12 {
		ln = 12
	}
	b := make([]byte, ln)
	binary.LittleEndian.PutUint32(b, evMagic)
	binary.LittleEndian.PutUint32(b[4:], uint32(id))
	binary.LittleEndian.PutUint32(b[8:], uint32(ln-12))
	for i := 12; i < ln; i++ {
		b[i] = byte(0xa0 + i)
	}
	return b
}

// applyEvents is the engine user's ApplyEventFunction (same shape as the one in the repo's engine_test.go).
func applyEvents(scan bool, rec func(id int, end int64)) sqlite.ApplyEventFunction {
	return func(conn sqlite.Conn, offset int64, b []byte) (int, error) {
		read := 0
		for len(b) > 0 {
			if len(b) < 4 {
				return read, binlog.ErrorNotEnoughData
			}
			if binary.LittleEndian.Uint32(b) != evMagic {
				return read, binlog.ErrorUnknownMagic
			}
			if len(b) < 12 {
				return read, binlog.ErrorNotEnoughData
			}
			id := int(binary.LittleEndian.Uint32(b[4:]))
			n := pad4(12 + int(binary.LittleEndian.Uint32(b[8:])))
			if len(b) < n {
				return read, binlog.ErrorNotEnoughData
			}
			if !scan {
				if _, err := conn.Exec("ins", "INSERT INTO t(id) VALUES($id)", sqlite.Int64("$id", int64(id))); err != nil {
					return read, err
				}
				if rec != nil {
					rec(id, offset+int64(read+n))
				}
			}
			read += n
			b = b[n:]
		}
		return read, nil
	}
}

func readState(c sqlite.Conn) (rows []int, off int64, err error) {
	r := c.Query("sel", "SELECT id FROM t ORDER BY seq")
	for r.Next() {
		v, _ := r.ColumnInt64(0)
		rows = append(rows, int(v))
	}
	if r.Error() != nil {
		return nil, 0, r.Error()
	}
	off = 0 // no row yet (nothing was ever committed) is what the engine itself reads as offset 0
	r2 := c.Query("seloff", "SELECT offset FROM __binlog_offset")
	if r2.Next() {
		off, _ = r2.ColumnInt64(0)
	}
	return rows, off, r2.Error()
}

// ------------------------------------------------------------------------------------------------ scripted binlog

type entry struct {
	ev  bool
	id  int
	raw []byte // padded
	end int64
}

type plan struct {
	chunk int    // events per Apply while replaying
	mid   int    // deliver an intermediate Commit after this many deliveries (0 = none)
	fin   bool   // deliver the final Commit(end) before ChangeRole(ready)
	cut   uint64 // != 0: seed; payloads are cut at arbitrary 4-byte positions of the stream (partial records carried over)
}

type mockBinlog struct {
	mu           sync.Mutex
	entries      []entry
	length       int64
	durable      int64   // highest offset ever announced through Commit (the fsynced prefix)
	announced    []int64 // every offset announced through Commit so far (carried over a crash by the harness)
	eng          binlog.Engine
	replica      bool
	failNext     bool
	extra        int
	lastASAP     bool
	appends      int
	plan         plan
	rec          []string // protocol lines recorded while Run replays
	start        int64
	stop         chan struct{}
	stopOnce     sync.Once
	commitOnStop bool
}

func newMock(entries []entry, durable int64, replica bool, p plan) *mockBinlog {
	m := &mockBinlog{entries: entries, durable: durable, replica: replica, plan: p, stop: make(chan struct{}), start: -1}
	if len(entries) > 0 {
		m.length = entries[len(entries)-1].end
	}
	return m
}

func errName(err error) string {
	switch {
	case err == nil:
		return "nil"
	case errors.Is(err, binlog.ErrorNotEnoughData):
		return "short"
	case errors.Is(err, binlog.ErrorUnknownMagic):
		return "magic"
	default:
		return "err"
	}
}

func descr(es []entry) string {
	ss := make([]string, len(es))
	for i, e := range es {
		if e.ev {
			ss[i] = fmt.Sprintf("e%d:%d", e.id, len(e.raw))
		} else {
			ss[i] = fmt.Sprintf("s%d", len(e.raw))
		}
	}
	if len(ss) == 0 {
		return "-"
	}
	return strings.Join(ss, ",")
}

func (m *mockBinlog) Run(offset int64, snapshotMeta []byte, controlMeta []byte, engine binlog.Engine) error {
	m.eng = engine
	m.start = offset
	i, pos := 0, int64(0)
	for i < len(m.entries) && pos < offset {
		pos = m.entries[i].end
		i++
	}
	if pos != offset {
		return fmt.Errorf("verif: engine asked to start at %d which is not a record boundary of the binlog", offset)
	}
	deliveries := 0
	var cutRng *verifx.Rng
	if m.plan.cut != 0 {
		cutRng = verifx.NewRng(m.plan.cut)
	}
	forceWhole := false
	mid := func() error {
		deliveries++
		if m.plan.mid > 0 && deliveries == m.plan.mid {
			m.rec = append(m.rec, fmt.Sprintf("> d-commit %d", pos))
			m.announced = append(m.announced, pos)
			err := engine.Commit(pos, meta(pos), pos)
			if pos > m.durable {
				m.durable = pos
			}
			m.rec = append(m.rec, "< e="+errName(err))
			return err
		}
		return nil
	}
	for i < len(m.entries) {
		if !m.entries[i].ev {
			n := int64(len(m.entries[i].raw))
			m.rec = append(m.rec, fmt.Sprintf("> d-skip %d", n))
			ret, err := engine.Skip(n)
			m.rec = append(m.rec, fmt.Sprintf("< ret=%d e=%s", ret, errName(err)))
			if err != nil {
				return err
			}
			pos = m.entries[i].end
			i++
		} else if cutRng != nil && !forceWhole && cutRng.Chance(2, 3) {
			// what fsbinlog's reader does: it hands the engine whatever its buffer holds, cut anywhere (4-byte aligned);
			// the engine consumes the complete leading events and says how far it got
			remaining := int(m.length - pos)
			n := 4 * (1 + cutRng.Intn(remaining/4))
			var payload []byte
			for j := i; j < len(m.entries) && len(payload) < n; j++ {
				payload = append(payload, m.entries[j].raw...)
			}
			payload = payload[:n]
			m.rec = append(m.rec, fmt.Sprintf("> d-buf %d", n))
			ret, err := engine.Apply(payload)
			m.rec = append(m.rec, fmt.Sprintf("< ret=%d e=%s", ret, errName(err)))
			if err != nil && errName(err) == "err" {
				return err
			}
			if ret == pos {
				forceWhole = true // nothing consumed: the reader reads more; make sure the replay advances
			} else {
				j := i
				for j < len(m.entries) && m.entries[j].end <= ret {
					j++
				}
				if j == i || m.entries[j-1].end != ret {
					return fmt.Errorf("verif: engine consumed up to %d which is not a record boundary", ret)
				}
				pos = ret
				i = j
			}
		} else {
			forceWhole = false
			j := i
			var payload []byte
			for j < len(m.entries) && m.entries[j].ev && j-i < m.plan.chunk {
				payload = append(payload, m.entries[j].raw...)
				j++
			}
			m.rec = append(m.rec, "> d-apply "+descr(m.entries[i:j]))
			ret, err := engine.Apply(payload)
			m.rec = append(m.rec, fmt.Sprintf("< ret=%d e=%s", ret, errName(err)))
			if err != nil {
				return err
			}
			pos = m.entries[j-1].end
			i = j
		}
		if err := mid(); err != nil {
			return err
		}
	}
	if m.plan.fin {
		m.rec = append(m.rec, fmt.Sprintf("> d-commit %d", pos))
		m.announced = append(m.announced, pos)
		err := engine.Commit(pos, meta(pos), pos)
		if pos > m.durable {
			m.durable = pos
		}
		m.rec = append(m.rec, "< e="+errName(err))
		if err != nil {
			return err
		}
	}
	if err := engine.ChangeRole(binlog.ChangeRoleInfo{IsMaster: !m.replica, IsReady: true}); err != nil {
		return err
	}
	<-m.stop
	return nil
}

func meta(pos int64) []byte { return binary.LittleEndian.AppendUint64(nil, uint64(pos)) }

func (m *mockBinlog) doAppend(onOffset int64, payload []byte, asap bool) (int64, error) {
	m.lastASAP = asap
	m.appends++
	if m.failNext {
		m.failNext = false
		return m.length, fmt.Errorf("verif: scripted append failure")
	}
	if onOffset != m.length { // what fsbinlog.putLevToBuffer does
		return m.length, fmt.Errorf("append get wrong offset, expect: %d, got: %d", m.length, onOffset)
	}
	raw := make([]byte, pad4(len(payload)))
	copy(raw, payload)
	id := -1
	if len(raw) >= 8 {
		id = int(binary.LittleEndian.Uint32(raw[4:]))
	}
	m.length += int64(len(raw))
	m.entries = append(m.entries, entry{ev: true, id: id, raw: raw, end: m.length})
	if m.extra > 0 { // a service record (crc32 / rotate) the binlog adds on its own after the event
		m.addSvc(m.extra)
		m.extra = 0
	}
	return m.length, nil
}

func (m *mockBinlog) addSvc(n int) {
	raw := make([]byte, n)
	binary.LittleEndian.PutUint32(raw, svcMagic)
	m.length += int64(n)
	m.entries = append(m.entries, entry{raw: raw, end: m.length})
}

func (m *mockBinlog) Append(onOffset int64, payload []byte) (int64, error) {
	return m.doAppend(onOffset, payload, false)
}
func (m *mockBinlog) AppendASAP(onOffset int64, payload []byte) (int64, error) {
	return m.doAppend(onOffset, payload, true)
}
func (m *mockBinlog) AddStats(stats map[string]string)        {}
func (m *mockBinlog) EngineStatus(status binlog.EngineStatus) {}
func (m *mockBinlog) GetStartCmd() (binlog.StartCmd, bool)    { return binlog.StartCmd{}, false }
func (m *mockBinlog) RequestReindex(diff bool, fast bool)     {}
func (m *mockBinlog) RequestShutdown() {
	m.stopOnce.Do(func() {
		if m.commitOnStop && !m.replica && m.eng != nil { // fsbinlog writer: final fsync + Commit when it stops
			_ = m.commit(m.length)
		}
		close(m.stop)
	})
}

func (m *mockBinlog) commit(k int64) error {
	m.announced = append(m.announced, k)
	if k > m.durable {
		m.durable = k
	}
	return m.eng.Commit(k, meta(k), k)
}

func (m *mockBinlog) boundaries() []int64 {
	bs := []int64{0}
	for _, e := range m.entries {
		bs = append(bs, e.end)
	}
	return bs
}

func (m *mockBinlog) evsUpTo(off int64) []int {
	var ids []int
	for _, e := range m.entries {
		if e.ev && e.end <= off {
			ids = append(ids, e.id)
		}
	}
	return ids
}

func (m *mockBinlog) isBoundary(off int64) bool {
	for _, b := range m.boundaries() {
		if b == off {
			return true
		}
	}
	return false
}

// ------------------------------------------------------------------------------------------------ step harness

type pendingDo struct {
	id    int
	ch    chan struct{}
	write bool
	end   int64
}

type stepper struct {
	h         *verifx.H
	r         *verifx.Rng
	dir       string
	gen       int
	e         *sqlite.Engine
	m         *mockBinlog
	wait      bool
	repl      bool
	pending   []pendingDo
	acked     []int
	ackedW    map[int]int64 // acknowledged writes in wait-for-commit mode: id -> end offset
	txDone    chan error    // non-nil while a timer commit is running/blocked
	closed    bool
	nextID    int
	hold      bool
	broken    bool
	curCtx    context.Context // context of the Do in flight (kCtxCancel / kCtxDeadline)
	curCancel func()
	timer     time.Duration // > 0: the engine is opened with this (short) CommitEvery, real time is allowed to pass (`tick`)
}

// aborted is set when the real engine left a call blocked for good (the harness cannot drive it any further): the
// observation "stuck" disagrees with the model, the remaining cases are skipped so that the run ends quickly.
var aborted bool

func abandon(e *sqlite.Engine, m *mockBinlog) {
	done := make(chan struct{})
	go func() {
		e.VerifAbandon()
		if m != nil {
			m.RequestShutdown()
		}
		close(done)
	}()
	select {
	case <-done:
	case <-time.After(3 * time.Second): // a blocked call holds the RW connection: leave the engine behind
	}
}

func eq(a, b []int) bool {
	if len(a) != len(b) {
		return false
	}
	for i := range a {
		if a[i] != b[i] {
			return false
		}
	}
	return true
}

func (s *stepper) dbPath() string { return filepath.Join(s.dir, fmt.Sprintf("g%d", s.gen), "db") }

func (s *stepper) open(entries []entry, durable int64, p plan) error {
	if err := os.MkdirAll(filepath.Dir(s.dbPath()), 0o755); err != nil {
		return err
	}
	var ann []int64
	if s.m != nil {
		ann = append(ann, s.m.announced...)
	}
	s.m = newMock(entries, durable, s.repl, p)
	s.m.announced = ann
	mode := sqlite.NoWaitCommit
	if s.wait {
		mode = sqlite.WaitCommit
	}
	e, err := sqlite.OpenEngine(sqlite.Options{
		Path: s.dbPath(), APPID: 0xc17, Scheme: schema, Replica: s.repl, DurabilityMode: mode,
		CommitEvery: s.commitEvery(), CacheMaxSizePerConnect: 4, MaxROConn: 2,
	}, s.m, applyEvents(false, nil), applyEvents(true, nil))
	if err != nil {
		s.e = nil
		return err
	}
	s.e = e
	s.closed = false
	s.hold = false
	if !s.repl && !s.wait {
		e.VerifSetHooks(true, false, false)
	}
	return nil
}

func (s *stepper) poll() {
	rest := s.pending[:0]
	for _, p := range s.pending {
		select {
		case <-p.ch:
			s.acked = append(s.acked, p.id)
			if p.write {
				s.ackedW[p.id] = p.end
				if p.end > s.m.durable {
					s.h.Viol("acked-not-durable", "write %d (end offset %d) was acknowledged while the binlog is durable only up to %d", p.id, p.end, s.m.durable)
				}
			} else if p.end > s.m.durable {
				s.h.Viol("read-returned-uncommitted-data", "a wait-for-commit read (%d) that had read the write transaction up to offset %d returned while the binlog is durable only up to %d", p.id, p.end, s.m.durable)
			}
		default:
			rest = append(rest, p)
		}
	}
	s.pending = rest
}

func (s *stepper) txBusy() bool { return s.txDone != nil }

// dump prints the observable state and evaluates the state oracles on it.
func (s *stepper) dump(prefix string) {
	s.poll()
	if s.e == nil || s.closed {
		s.h.Obs("%s | closed acked=%s", prefix, verifx.List(verifx.SortedInts(s.acked)))
		return
	}
	var cr, tr []int
	var co, to int64
	err := s.e.View(context.Background(), "v", func(c sqlite.Conn) error {
		var err error
		cr, co, err = readState(c)
		return err
	})
	if err != nil {
		s.h.Obs("%s | view-error", prefix)
		return
	}
	tx := "busy"
	if !s.txBusy() {
		err = s.e.VerifReadTx(func(c sqlite.Conn) error {
			var err error
			tr, to, err = readState(c)
			return err
		})
		if err != nil {
			tx = "error"
		} else {
			tx = fmt.Sprintf("%s@%d", verifx.List(tr), to)
		}
	}
	s.h.Obs("%s | com=%s@%d tx=%s dbo=%d ci=%d wq=%d acked=%s", prefix, verifx.List(cr), co, tx,
		s.e.VerifDBOffset(), s.e.VerifCommittedOffset(), s.e.VerifWaitQLen(), verifx.List(verifx.SortedInts(s.acked)))
	// ---- direct oracle (independent of the model): the binlog is what the scripted binlog holds
	if !s.m.isBoundary(co) || !eq(cr, s.m.evsUpTo(co)) {
		s.h.Viol("db-not-prefix", "readers see rows %v with stored offset %d, but the binlog prefix up to %d holds %v", cr, co, co, s.m.evsUpTo(co))
	}
	if co > s.m.durable {
		s.h.Viol("db-ahead-of-binlog", "SQLite committed offset %d while the binlog is durable (Commit announced) only up to %d", co, s.m.durable)
	}
	if tx != "busy" && tx != "error" {
		if !s.m.isBoundary(to) || !eq(tr, s.m.evsUpTo(to)) {
			s.h.Viol("tx-not-prefix", "write transaction holds rows %v with stored offset %d, binlog prefix up to %d holds %v", tr, to, to, s.m.evsUpTo(to))
		}
	}
}

type doKind int

const (
	kOK doKind = iota
	kCbFail
	kCbFail0
	kSQLFail
	kAppFail
	kRead
	kCtxCancel   // the callback's SQL succeeds, then the callback cancels the context Do was called with and returns its event
	kCtxDeadline // the same with a deadline that expires before the callback returns
)

var kindNames = []string{"ok", "cbfail", "cbfail0", "sqlfail", "appfail", "read", "ctxcancel", "ctxdeadline"}
var errCb = errors.New("verif: callback failed")

func (s *stepper) callback(id, ln int, k doKind) func(sqlite.Conn, []byte) ([]byte, error) {
	return func(c sqlite.Conn, cache []byte) ([]byte, error) {
		switch k {
		case kRead:
			r := c.Query("cnt", "SELECT count(*) FROM t")
			for r.Next() {
			}
			return nil, r.Error()
		case kCbFail0:
			return nil, errCb
		}
		if err := insertShaped(c, id, ln); err != nil {
			return nil, err
		}
		if k == kSQLFail { // second statement violates UNIQUE: the statement fails, the callback reports it
			if _, err := c.Exec("ins", "INSERT INTO t(id) VALUES($id)", sqlite.Int64("$id", int64(id))); err != nil {
				return evPayload(id, ln), err
			}
			return nil, fmt.Errorf("verif: duplicate insert did not fail")
		}
		if k == kCbFail {
			return evPayload(id, ln), errCb
		}
		if k == kCtxCancel && s.curCancel != nil {
			s.curCancel() // from here on every statement on the caller's context fails
		}
		if k == kCtxDeadline && s.curCtx != nil {
			<-s.curCtx.Done()
		}
		return evPayload(id, ln), nil
	}
}

// insertShaped inserts row id; the FIRST modifying statement of the callback has one of several shapes (a function of id
// and ln, so the op line determines it): the engine must open its automatic savepoint before it whatever it looks like.
func insertShaped(c sqlite.Conn, id, ln int) error {
	arg := sqlite.Int64("$id", int64(id))
	var err error
	switch (id + 3*ln) % 6 {
	case 0, 1:
		_, err = c.Exec("ins", "INSERT INTO t(id) VALUES($id)", arg)
	case 2: // CTE-prefixed write: its normalized text does not start with INSERT
		_, err = c.Exec("ins-cte", "WITH v(x) AS (VALUES($id)) INSERT INTO t(id) SELECT x FROM v", arg)
	case 3:
		_, err = c.Exec("ins-upsert", "INSERT INTO t(id) VALUES($id) ON CONFLICT(id) DO NOTHING", arg)
	case 4:
		_, err = c.Exec("ins-replace", "REPLACE INTO t(id) VALUES($id)", arg)
	case 5: // DDL first (ExecUnsafe), then the row
		if _, err = c.ExecUnsafe("ddl", fmt.Sprintf("CREATE TABLE IF NOT EXISTS scratch_%d (x INTEGER)", id)); err == nil {
			_, err = c.Exec("ins", "INSERT INTO t(id) VALUES($id)", arg)
		}
	}
	return err
}

func countScratch(c sqlite.Conn) int {
	n := 0
	r := c.Query("cnt-scratch", "SELECT count(*) FROM sqlite_master WHERE name LIKE 'scratch_%'")
	if r.Next() {
		v, _ := r.ColumnInt64(0)
		n = int(v)
	}
	return n
}

// ctxFor returns the context a Do of kind k is called with
func (s *stepper) ctxFor(k doKind) (context.Context, func()) {
	switch k {
	case kCtxCancel:
		ctx, cancel := context.WithCancel(context.Background())
		s.curCtx, s.curCancel = ctx, cancel
		return ctx, cancel
	case kCtxDeadline:
		ctx, cancel := context.WithTimeout(context.Background(), 2*time.Millisecond)
		s.curCtx, s.curCancel = ctx, cancel
		return ctx, cancel
	}
	s.curCtx, s.curCancel = nil, nil
	return context.Background(), func() {}
}

type snap struct {
	cr, tr   []int
	co, to   int64
	nent     int
	nscratch int
	dbo      int64
}

func (s *stepper) snapshot() (sn snap) {
	_ = s.e.View(context.Background(), "v", func(c sqlite.Conn) error { sn.cr, sn.co, _ = readState(c); return nil })
	_ = s.e.VerifReadTx(func(c sqlite.Conn) error { sn.tr, sn.to, _ = readState(c); sn.nscratch = countScratch(c); return nil })
	sn.nent = len(s.m.entries)
	sn.dbo = s.e.VerifDBOffset()
	return
}

func (s *stepper) opDo(id, ln, extra int, k doKind) {
	s.h.Op("do %d %d %d %s", id, ln, extra, kindNames[k])
	s.h.Stat("op.do."+kindNames[k], 1)
	before := s.snapshot()
	s.m.failNext = k == kAppFail
	s.m.extra = extra
	apps := s.m.appends
	ctx, cancel := s.ctxFor(k)
	ch, dbo, _, err := s.e.VerifDoWithoutWait(ctx, "w", s.callback(id, ln, k))
	cancel()
	s.m.failNext, s.m.extra = false, 0
	asap := 0
	if s.m.appends > apps && s.m.lastASAP {
		asap = 1
	}
	res := "ok"
	switch {
	case err != nil && sqlite.IsEngineBrokenError(err):
		res = "broken"
	case err != nil:
		res = "err"
	case ch != nil:
		res = "wait"
	}
	if err == nil {
		end := int64(0)
		if k == kOK {
			end = before.dbo + int64(pad4(ln))
		}
		if k == kRead {
			end = before.to // what the read has seen: the write transaction up to its offset row
		}
		if ch != nil {
			s.pending = append(s.pending, pendingDo{id: id, ch: ch, write: k == kOK, end: end})
		} else {
			s.acked = append(s.acked, id)
			if k == kOK && s.wait {
				s.ackedW[id] = end
				if end > s.m.durable {
					s.h.Viol("acked-not-durable", "write %d (end offset %d) returned without waiting while the binlog is durable only up to %d", id, end, s.m.durable)
				}
			}
		}
	}
	s.dump(fmt.Sprintf("%s dbo=%d asap=%d", res, dbo, asap))
	if err != nil { // a failed write must leave neither a database change nor a binlog record
		after := s.snapshot()
		if !eq(before.cr, after.cr) || !eq(before.tr, after.tr) || before.co != after.co || before.to != after.to {
			s.h.Viol("failed-do-left-db-change", "Do(%s) returned an error but the database changed: tx %v@%d -> %v@%d", kindNames[k], before.tr, before.to, after.tr, after.to)
		}
		if before.nscratch != after.nscratch {
			s.h.Viol("failed-do-left-db-change", "Do(%s) returned an error but a table its callback created is still there (%d -> %d scratch tables)", kindNames[k], before.nscratch, after.nscratch)
		}
		if before.nent != after.nent {
			s.h.Viol("failed-do-left-binlog-record", "Do(%s) returned an error but the binlog grew", kindNames[k])
		}
		if before.dbo != after.dbo {
			s.h.Viol("failed-do-moved-offset", "Do(%s) returned an error but the in-memory offset moved %d -> %d", kindNames[k], before.dbo, after.dbo)
		}
	}
}

// opDoNow: NoWaitCommit master, the engine decides (mustCommitNow) to commit SQLite on this write: it appends ASAP, parks on the
// wait queue holding the RW connection, and commits once the binlog announces the offset.
func (s *stepper) opDoNow(id, ln, extra int) {
	s.h.Op("donow %d %d %d", id, ln, extra)
	s.h.Stat("op.donow", 1)
	s.e.VerifSetHooks(true, true, false)
	s.m.extra = extra
	type res struct {
		ch  chan struct{}
		dbo int64
		err error
	}
	done := make(chan res, 1)
	go func() {
		ch, dbo, _, err := s.e.VerifDoWithoutWait(context.Background(), "w", s.callback(id, ln, kOK))
		done <- res{ch, dbo, err}
	}()
	var r res
	parked := false
	deadline := time.Now().Add(10 * time.Second)
loop:
	for {
		select {
		case r = <-done:
			break loop
		default:
		}
		if !parked && s.e.VerifWaitQLen() > 0 {
			parked = true
			// readers must not see the write while it is parked (its binlog bytes are not durable yet)
			var cr []int
			var co int64
			_ = s.e.View(context.Background(), "v", func(c sqlite.Conn) error { cr, co, _ = readState(c); return nil })
			if co > s.m.durable {
				s.h.Viol("db-ahead-of-binlog", "while a must-commit-now write is parked readers see offset %d, binlog durable up to %d", co, s.m.durable)
			}
			_ = cr
			_ = s.m.commit(s.m.length)
		}
		if time.Now().After(deadline) {
			s.h.Obs("stuck")
			s.h.Note("must-commit-now write neither returned nor was released by Commit(%d) within 10s", s.m.length)
			s.broken, aborted = true, true
			return
		}
		time.Sleep(50 * time.Microsecond)
	}
	s.e.VerifSetHooks(true, false, false)
	s.m.extra = 0
	out := "ok"
	if r.err != nil {
		out = "err"
	} else if r.ch != nil {
		out = "wait"
	}
	if r.err == nil {
		s.acked = append(s.acked, id)
	}
	p := 0
	if parked {
		p = 1
	}
	s.dump(fmt.Sprintf("%s dbo=%d parked=%d", out, r.dbo, p))
}

func (s *stepper) opCommit(k int64) {
	s.h.Op("commit %d", k)
	s.h.Stat("op.commit", 1)
	willFinishTx := s.txBusy() && k >= s.e.VerifDBOffset() && k >= s.e.VerifCommittedOffset()
	err := s.m.commit(k)
	if s.txBusy() {
		if willFinishTx {
			select {
			case <-s.txDone:
				s.txDone = nil
			case <-time.After(10 * time.Second):
				s.h.Obs("stuck")
				s.h.Note("the binlog announced offset %d >= engine offset, but the SQLite commit waiting for it did not finish in 10s", k)
				s.broken, aborted = true, true
				return
			}
		} else {
			s.graceTx()
		}
	}
	s.dump("e=" + errName(err))
}

// graceTx gives a commit that must stay blocked a short while to (wrongly) finish; under correct code nothing happens.
func (s *stepper) graceTx() {
	for i := 0; i < 40; i++ {
		select {
		case <-s.txDone:
			s.txDone = nil
			return
		default:
		}
		time.Sleep(50 * time.Microsecond)
	}
}

func (s *stepper) opTx() {
	s.h.Op("tx")
	s.h.Stat("op.tx", 1)
	enabled := s.e.VerifCommittedOffset() >= s.e.VerifDBOffset()
	done := make(chan error, 1)
	go func() { done <- s.e.VerifCommitTX(true) }()
	if enabled {
		select {
		case <-done:
		case <-time.After(10 * time.Second):
			s.h.Obs("stuck")
			s.h.Note("timer commit did not finish although the binlog commit offset already covers the engine offset")
			s.broken, aborted = true, true
			return
		}
		s.dump("committed")
		return
	}
	s.h.Stat("tx.blocked", 1)
	s.txDone = done
	deadline := time.Now().Add(20 * time.Second)
	for !s.e.VerifRWBusy() && time.Now().Before(deadline) { // wait until the commit holds the RW connection
		select {
		case <-s.txDone:
			s.txDone = nil
		default:
		}
		if s.txDone == nil {
			break
		}
		time.Sleep(20 * time.Microsecond)
	}
	if s.txDone != nil {
		s.graceTx()
	}
	if s.txDone == nil {
		s.dump("committed")
	} else {
		s.dump("pending")
	}
}

func (s *stepper) opApply(evs [][2]int) {
	var es []entry
	var payload []byte
	for _, x := range evs {
		raw := make([]byte, pad4(x[1]))
		copy(raw, evPayload(x[0], x[1]))
		s.m.length += int64(len(raw))
		es = append(es, entry{ev: true, id: x[0], raw: raw, end: s.m.length})
		payload = append(payload, raw...)
	}
	s.m.entries = append(s.m.entries, es...)
	s.h.Op("apply %s", descr(es))
	s.h.Stat("op.apply", 1)
	ret, err := s.m.eng.Apply(payload)
	s.dump(fmt.Sprintf("ret=%d e=%s", ret, errName(err)))
}

func (s *stepper) opSkip(n int) {
	s.m.addSvc(n)
	s.h.Op("skip %d", n)
	s.h.Stat("op.skip", 1)
	ret, err := s.m.eng.Skip(int64(n))
	s.dump(fmt.Sprintf("ret=%d e=%s", ret, errName(err)))
}

// opView: what a reader's View callback observes right now
func (s *stepper) opView() {
	s.h.Op("view")
	s.h.Stat("op.view", 1)
	var cr []int
	var co int64
	err := s.e.View(context.Background(), "v", func(c sqlite.Conn) error {
		var err error
		cr, co, err = readState(c)
		return err
	})
	if err != nil {
		s.h.Obs("view-error")
		return
	}
	s.h.Obs("%s@%d", verifx.List(cr), co)
	if !s.m.isBoundary(co) || !eq(cr, s.m.evsUpTo(co)) {
		s.h.Viol("view-not-prefix", "a reader saw rows %v with stored offset %d, the binlog prefix up to %d holds %v", cr, co, co, s.m.evsUpTo(co))
	}
	announced := co == 0
	for _, k := range s.m.announced {
		if co <= k {
			announced = true
		}
	}
	if !announced {
		s.h.Viol("db-ahead-of-binlog", "a reader saw offset %d, no Commit announced so far covers it (announced %v)", co, s.m.announced)
	}
}

func (s *stepper) opHold(on bool) {
	v := 0
	if on {
		v = 1
		s.e.VerifSetCommitEvery(-1)
	} else {
		s.e.VerifSetCommitEvery(time.Hour)
	}
	s.hold = on
	s.h.Op("hold %d", v)
	s.dump("ok")
}

func (s *stepper) opClose() {
	s.h.Op("close")
	s.h.Stat("op.close", 1)
	s.m.commitOnStop = true
	ctx, cancel := context.WithTimeout(context.Background(), 20*time.Second)
	err := s.e.Close(ctx)
	cancel()
	s.closed = true
	res := "ok"
	if err != nil {
		res = "err"
	}
	s.dump(res)
}

func copyFile(src, dst string) error {
	in, err := os.Open(src)
	if err != nil {
		return err
	}
	defer in.Close()
	out, err := os.Create(dst)
	if err != nil {
		return err
	}
	if _, err := io.Copy(out, in); err != nil {
		out.Close()
		return err
	}
	return out.Close()
}

// opCrash: kill -9 image = the database files as they are on disk right now (the open write transaction lives in
// the connection's page cache) + the binlog truncated to d (everything up to the last Commit is durable; anything
// written after it may or may not have reached the disk).
func (s *stepper) opCrash(d int64, p plan) {
	fin := 0
	if p.fin {
		fin = 1
	}
	s.h.Op("crash %d", d)
	s.h.Stat("op.crash", 1)
	old := s.dbPath()
	s.gen++
	if err := os.MkdirAll(filepath.Dir(s.dbPath()), 0o755); err != nil {
		panic(err)
	}
	for _, suf := range []string{"", "-journal", "-wal", "-wal2"} {
		if _, err := os.Stat(old + suf); err == nil {
			if err := copyFile(old+suf, s.dbPath()+suf); err != nil {
				panic(err)
			}
		}
	}
	if !s.closed {
		abandon(s.e, s.m)
	}
	var keep []entry
	for _, e := range s.m.entries {
		if e.end <= d {
			keep = append(keep, e)
		}
	}
	durable := s.m.durable
	s.pending = nil
	// what is in the image before the engine touches it
	var ir []int
	var io_ int64
	perr := sqlite.VerifPeek(s.dbPath(), func(c sqlite.Conn) error {
		var err error
		ir, io_, err = readState(c)
		return err
	})
	err := s.open(keep, durable, p)
	if perr != nil {
		s.h.Obs("image-unreadable")
	} else {
		s.h.Obs("image=%s@%d start=%d", verifx.List(ir), io_, s.m.start)
		if !s.m.isBoundary(io_) || !eq(ir, s.m.evsUpTo(io_)) {
			s.h.Viol("db-not-prefix", "crash image holds rows %v with stored offset %d, binlog prefix holds %v", ir, io_, s.m.evsUpTo(io_))
		}
		if io_ > durable {
			s.h.Viol("db-ahead-of-binlog", "crash image has offset %d, binlog durable only up to %d", io_, durable)
		}
	}
	for _, l := range s.m.rec {
		if strings.HasPrefix(l, "> ") {
			s.h.Op("%s", l[2:])
		} else {
			s.h.Obs("%s", l[2:])
		}
	}
	s.h.Op("ready %d", fin)
	if err != nil {
		s.h.Obs("open-error")
		s.h.Viol("restart-failed", "engine did not reopen after crash at binlog offset %d: %v", d, err)
		s.broken = true
		return
	}
	s.dump("ok")
	// restart oracle: everything durable in the binlog is in the database (inside the write transaction until the next commit)
	var tr []int
	_ = s.e.VerifReadTx(func(c sqlite.Conn) error { tr, _, _ = readState(c); return nil })
	if !s.repl || p.fin {
		if !eq(tr, s.m.evsUpTo(d)) {
			s.h.Viol("restart-missing-events", "after restart the engine holds %v, the durable binlog (up to %d) holds %v", tr, d, s.m.evsUpTo(d))
		}
	}
	have := map[int]bool{}
	for _, id := range tr {
		have[id] = true
	}
	for id := range s.ackedW {
		if !have[id] {
			s.h.Viol("acked-lost", "write %d was acknowledged in wait-for-commit mode but is missing after crash+restart", id)
		}
	}
}

func (s *stepper) commitEvery() time.Duration {
	if s.timer > 0 {
		return s.timer
	}
	return time.Hour // the commit timer never fires by itself; the harness calls what txLoop calls (`tx`)
}

// opTick lets real time pass: several periods of the engine's own CommitEvery timer. In NoWaitCommit mode the engine has no
// commit timer (OpenEngine starts txLoop only in WaitCommit mode), so nothing may change however long we wait; an engine
// that does commit here commits without the binlog commit.
func (s *stepper) opTick() {
	s.h.Op("tick")
	s.h.Stat("op.tick", 1)
	time.Sleep(4 * s.timer)
	s.dump("noop")
}

func (s *stepper) randPlan() plan {
	p := plan{chunk: s.r.Range(1, 3), mid: s.r.Pick(3, 1, 1, 1), fin: !s.r.Chance(1, 6)}
	if s.timer > 0 {
		p.mid = 0 // with a short CommitEvery the "time since the last delayed commit" test of Apply would depend on real time
	}
	if s.r.Bool() {
		p.cut = s.r.U64() | 1
	}
	return p
}

func (s *stepper) pickBoundary(lo, hi int64) (int64, bool) {
	var c []int64
	for _, b := range s.m.boundaries() {
		if b >= lo && b <= hi {
			c = append(c, b)
		}
	}
	if len(c) == 0 {
		return 0, false
	}
	return c[s.r.Intn(len(c))], true
}

func (s *stepper) newID() int { s.nextID++; return s.nextID }

func (s *stepper) randLen() int { return 12 + s.r.Pick(4, 1, 1, 1, 1, 1, 1, 1) } // 12..19, padded to 12/16/20

func (s *stepper) randExtra() int {
	if s.r.Chance(1, 4) {
		return []int{20, 36, 72}[s.r.Intn(3)]
	}
	return 0
}

func runStepCase(h *verifx.H, i int, r *verifx.Rng) {
	s := &stepper{h: h, r: r, dir: filepath.Join(scratch, fmt.Sprintf("s%d-%d-%d", os.Getpid(), h.Seed, i)), ackedW: map[int]int64{}}
	defer os.RemoveAll(s.dir)
	defer func() {
		if s.e != nil && !s.closed {
			if s.txBusy() && !s.broken {
				_ = s.m.commit(s.m.length)
				select {
				case <-s.txDone:
				case <-time.After(5 * time.Second):
				}
			}
			abandon(s.e, s.m)
		}
	}()
	defer func() {
		if x := recover(); x != nil {
			h.Obs("panic %v", x)
		}
	}()
	switch r.Pick(5, 3, 3) {
	case 0:
		s.wait = true
	case 1:
		if r.Chance(2, 3) {
			s.timer = 3 * time.Millisecond
			h.Stat("case.nowait-with-short-commit-every", 1)
		}
	case 2:
		s.repl = true
		s.wait = r.Chance(1, 3)
	}
	var init []entry
	if r.Bool() { // a binlog starts with a service record (LevStart), skipped on first read
		raw := make([]byte, 24)
		binary.LittleEndian.PutUint32(raw, svcMagic)
		init = []entry{{raw: raw, end: 24}}
	}
	w, rp := 0, 0
	if s.wait {
		w = 1
	}
	if s.repl {
		rp = 1
	}
	h.Stat(fmt.Sprintf("case.wait%d.repl%d", w, rp), 1)
	p := s.randPlan()
	p.mid = 0
	fin := 0
	if p.fin {
		fin = 1
	}
	h.Op("open %d %d %s", w, rp, descr(init))
	err := s.open(init, 0, p)
	h.Obs("start=%d", s.m.start)
	for _, l := range s.m.rec {
		if strings.HasPrefix(l, "> ") {
			h.Op("%s", l[2:])
		} else {
			h.Obs("%s", l[2:])
		}
	}
	h.Op("ready %d", fin)
	if err != nil {
		h.Obs("open-error")
		h.Viol("open-failed", "fresh engine did not open: %v", err)
		return
	}
	s.dump("ok")
	nops := r.Range(8, 28)
	crashes, blockedTx, queued := 0, 0, 0
	for k := 0; k < nops && !s.broken; k++ {
		if s.closed {
			s.opCrash(s.m.length, s.randPlan())
			crashes++
			continue
		}
		if s.txBusy() {
			// only the binlog can move now
			if r.Chance(3, 4) {
				s.opCommit(s.m.length)
			} else if b, ok := s.pickBoundary(0, s.m.length); ok {
				s.opCommit(b)
			}
			continue
		}
		ci := s.e.VerifCommittedOffset()
		switch {
		case s.repl:
			switch r.Pick(8, 3, 5, 2, 2, 2, 1, 2) {
			case 0:
				n := r.Range(1, 3)
				var evs [][2]int
				for j := 0; j < n; j++ {
					evs = append(evs, [2]int{s.newID(), s.randLen()})
				}
				before := len(s.m.entries)
				s.opApply(evs)
				_ = before
				if s.e.VerifDBOffset() < s.m.length {
					queued++
				}
			case 1:
				s.opSkip([]int{20, 24, 36}[r.Intn(3)])
			case 2:
				if r.Chance(2, 3) {
					s.opCommit(s.m.length)
				} else if b, ok := s.pickBoundary(0, s.m.length); ok {
					s.opCommit(b)
				}
			case 3:
				s.opHold(!s.hold)
			case 4:
				s.opDo(s.newID(), s.randLen(), 0, []doKind{kOK, kRead, kCbFail}[r.Intn(3)])
			case 5:
				d, _ := s.pickBoundary(s.m.durable, s.m.length)
				s.opCrash(d, s.randPlan())
				crashes++
			case 6:
				s.opClose()
			case 7:
				s.opView()
			}
		default:
			weights := []int{10, 2, 1, 2, 2, 2, 6, 4, 3, 1, 3, 2, 0, 2, 1}
			if s.timer > 0 {
				weights[12] = 5
			}
			if !s.wait {
				weights[7] = 0 // no commit timer in NoWaitCommit mode
			} else {
				weights[10] = 0
			}
			switch r.Pick(weights...) {
			case 0:
				s.opDo(s.newID(), s.randLen(), s.randExtra(), kOK)
			case 1:
				s.opDo(s.newID(), s.randLen(), 0, kCbFail)
			case 2:
				s.opDo(s.newID(), s.randLen(), 0, kCbFail0)
			case 3:
				s.opDo(s.newID(), s.randLen(), 0, kSQLFail)
			case 4:
				s.opDo(s.newID(), s.randLen(), s.randExtra(), kAppFail)
			case 5:
				s.opDo(s.newID(), 0, 0, kRead)
			case 6:
				x := r.Intn(10)
				if x < 5 {
					s.opCommit(s.m.length)
				} else if b, ok := s.pickBoundary(ci, s.m.length); ok && x < 8 {
					s.opCommit(b)
				} else if b, ok := s.pickBoundary(0, ci); ok {
					s.opCommit(b)
				}
			case 7:
				s.opTx()
				if s.txBusy() {
					blockedTx++
				}
			case 8:
				d, _ := s.pickBoundary(s.m.durable, s.m.length)
				s.opCrash(d, s.randPlan())
				crashes++
			case 9:
				s.opClose()
			case 10:
				s.opDoNow(s.newID(), s.randLen(), s.randExtra())
			case 11:
				s.opView()
			case 12:
				s.opTick()
			case 13:
				s.opDo(s.newID(), s.randLen(), s.randExtra(), kCtxCancel)
			case 14:
				s.opDo(s.newID(), s.randLen(), 0, kCtxDeadline)
			}
		}
	}
	if s.txBusy() && !s.broken {
		s.opCommit(s.m.length)
	}
	if crashes > 0 {
		h.NonTrivial("crash")
	}
	if blockedTx > 0 {
		h.NonTrivial("blocked-commit")
	}
	if queued > 0 {
		h.NonTrivial("replica-queue")
	}
	h.Stat("cases.crashes", int64(crashes))
}

func main() {
	log.SetOutput(io.Discard)
	h := verifx.New()
	switch h.Mode {
	case "child":
		childMain(h)
		return
	case "crash":
		_ = os.MkdirAll(scratch, 0o755)
		h.Cases(func(i int, r *verifx.Rng) {
			if !aborted {
				runCrashCase(h, i, r)
			}
		})
		h.Done()
		return
	}
	_ = os.MkdirAll(scratch, 0o755)
	h.Cases(func(i int, r *verifx.Rng) {
		if !aborted {
			runStepCase(h, i, r)
		}
	})
	h.Done()
}

// ------------------------------------------------------------------------------------------------ crash runs (real fsbinlog, SIGKILL)

const fsMagic = 0xc17

func fsOptions(dir string, readAndExit bool) fsbinlog.Options {
	return fsbinlog.Options{PrefixPath: filepath.Join(dir, "bl"), Magic: fsMagic, ReadAndExit: readAndExit}
}

func openReal(dir string, wait bool, commitEvery time.Duration) (*sqlite.Engine, error) {
	opt := fsOptions(dir, false)
	if _, err := os.Stat(opt.PrefixPath + ".000000.bin"); err != nil {
		if _, err := fsbinlog.CreateEmptyFsBinlog(opt); err != nil {
			return nil, err
		}
	}
	bl, err := fsbinlog.NewFsBinlog(nil, opt)
	if err != nil {
		return nil, err
	}
	mode := sqlite.NoWaitCommit
	if wait {
		mode = sqlite.WaitCommit
	}
	return sqlite.OpenEngine(sqlite.Options{Path: filepath.Join(dir, "db"), APPID: 0xc17, Scheme: schema, DurabilityMode: mode,
		CommitEvery: commitEvery, CacheMaxSizePerConnect: 4, MaxROConn: 4}, bl, applyEvents(false, nil), applyEvents(true, nil))
}

// childMain: -arg=dir|wait|firstID|seed|commitEveryMs . Runs until it is killed.
func childMain(h *verifx.H) {
	a := strings.Split(h.Arg, "|")
	if len(a) != 5 {
		os.Exit(3)
	}
	dir := a[0]
	wait := a[1] == "1"
	first, _ := strconv.Atoi(a[2])
	seed, _ := strconv.ParseUint(a[3], 10, 64)
	ce, _ := strconv.Atoi(a[4])
	e, err := openReal(dir, wait, time.Duration(ce)*time.Millisecond)
	if err != nil {
		fmt.Fprintf(os.Stdout, "E %v\n", strings.ReplaceAll(err.Error(), "\n", " "))
		os.Exit(4)
	}
	var outMu sync.Mutex
	say := func(format string, args ...any) {
		b := []byte(fmt.Sprintf(format, args...))
		outMu.Lock()
		_, _ = os.Stdout.Write(b)
		outMu.Unlock()
	}
	say("R %d\n", e.VerifDBOffset())
	var idMu sync.Mutex
	next := first
	newID := func() int { idMu.Lock(); defer idMu.Unlock(); next++; return next }
	for w := 0; w < 3; w++ {
		go func(w int) {
			r := verifx.NewRng(seed*977 + uint64(w) + 1)
			st := &stepper{}
			for {
				id := newID()
				ln := 12 + r.Intn(8)
				if r.Chance(1, 5) {
					ln = 12 + r.Intn(3000)
				}
				k := kOK
				switch r.Intn(12) {
				case 0:
					k = kCbFail
				case 1:
					k = kSQLFail
				case 2:
					if r.Bool() {
						k = kCtxCancel
					}
				}
				ctx, cancel := st.ctxFor(k)
				err := e.Do(ctx, "w", st.callback(id, ln, k))
				cancel()
				switch {
				case k == kOK && err == nil && wait:
					say("A %d\n", id)
				case k == kOK && err == nil:
					say("a %d\n", id)
				case k != kOK && err != nil:
					say("F %d\n", id)
				case k != kOK:
					say("X %d\n", id) // a failing callback reported success
				default:
					say("N %d\n", id) // write refused (engine error); nothing is claimed about it
				}
				if r.Chance(1, 3) {
					time.Sleep(time.Duration(r.Intn(300)) * time.Microsecond)
				}
			}
		}(w)
	}
	for v := 0; v < 2; v++ {
		go func(v int) {
			r := verifx.NewRng(seed*1013 + uint64(v) + 7)
			for {
				var rows []int
				var off int64
				err := e.View(context.Background(), "v", func(c sqlite.Conn) error {
					var err error
					rows, off, err = readState(c)
					return err
				})
				if err == nil {
					sum := 0
					for _, x := range rows {
						sum += x
					}
					say("V %d %d %d\n", off, len(rows), sum)
				}
				time.Sleep(time.Duration(500+r.Intn(3000)) * time.Microsecond)
			}
		}(v)
	}
	time.Sleep(20 * time.Second) // the parent kills us long before
	os.Exit(5)
}

// recEngine records what a binlog contains (used with the repo's own fsbinlog reader, ReadAndExit).
type recEngine struct {
	pos     int64
	entries []entry
}

func (r *recEngine) Apply(payload []byte) (int64, error) {
	start := r.pos
	n, err := applyEvents(true, nil)(sqlite.Conn{}, r.pos, payload)
	b := payload[:n]
	for len(b) > 0 {
		id := int(binary.LittleEndian.Uint32(b[4:]))
		l := pad4(12 + int(binary.LittleEndian.Uint32(b[8:])))
		start += int64(l)
		r.entries = append(r.entries, entry{ev: true, id: id, raw: b[:l], end: start})
		b = b[l:]
	}
	r.pos += int64(n)
	return r.pos, err
}
func (r *recEngine) Skip(n int64) (int64, error) {
	r.pos += n
	r.entries = append(r.entries, entry{raw: make([]byte, n), end: r.pos})
	return r.pos, nil
}
func (r *recEngine) Commit(int64, []byte, int64) error      { return nil }
func (r *recEngine) Revert(int64) (bool, error)             { return false, nil }
func (r *recEngine) ChangeRole(binlog.ChangeRoleInfo) error { return nil }
func (r *recEngine) StartReindex(binlog.ReindexOperator)    {}
func (r *recEngine) Split(int64, string) bool               { return false }
func (r *recEngine) Shutdown()                              {}

func parseBinlog(dir string) ([]entry, int64, error) {
	bl, err := fsbinlog.NewFsBinlog(nil, fsOptions(dir, true))
	if err != nil {
		return nil, 0, err
	}
	rec := &recEngine{}
	if err := bl.Run(0, nil, nil, rec); err != nil {
		return rec.entries, rec.pos, err
	}
	return rec.entries, rec.pos, nil
}

func seqHash(ids []int) uint64 {
	h := uint64(0)
	for _, x := range ids {
		h = (h*1000003 + uint64(x)) % 2147483647
	}
	return h
}

func runCrashCase(h *verifx.H, ci int, r *verifx.Rng) {
	dir := filepath.Join(diskScratch, fmt.Sprintf("k%d-%d-%d", os.Getpid(), h.Seed, ci))
	_ = os.RemoveAll(dir)
	if err := os.MkdirAll(dir, 0o755); err != nil {
		h.Obs("setup-error")
		return
	}
	defer os.RemoveAll(dir)
	wait := !r.Chance(1, 4)
	rounds := r.Range(2, 3)
	firstID := 0
	ackedAll := map[int]bool{}
	failedAll := map[int]bool{}
	w := 0
	if wait {
		w = 1
	}
	h.Stat(fmt.Sprintf("kill.cases.wait%d", w), 1)
	for round := 0; round < rounds; round++ {
		ce := []int{5, 20, 60}[r.Intn(3)]
		delay := time.Duration(r.Range(2, 350)) * time.Millisecond
		if r.Chance(1, 4) { // around the commit timer
			delay = time.Duration(ce*r.Range(1, 4))*time.Millisecond + time.Duration(r.Range(-2000, 2000))*time.Microsecond
		}
		cmd := exec.Command(os.Args[0], "-mode=child", fmt.Sprintf("-arg=%s|%d|%d|%d|%d", dir, w, firstID, r.U64()%1000000, ce))
		out, err := cmd.StdoutPipe()
		if err != nil {
			h.Obs("setup-error")
			return
		}
		cmd.Stderr = nil
		if err := cmd.Start(); err != nil {
			h.Obs("setup-error")
			return
		}
		type line struct{ s string }
		ready := make(chan struct{})
		var lines []string
		done := make(chan struct{})
		go func() {
			sc := bufio.NewScanner(out)
			first := true
			for sc.Scan() {
				t := sc.Text()
				if first && (strings.HasPrefix(t, "R ") || strings.HasPrefix(t, "E ")) {
					first = false
					lines = append(lines, t)
					close(ready)
					continue
				}
				lines = append(lines, t)
			}
			if first {
				close(ready)
			}
			close(done)
		}()
		select {
		case <-ready:
		case <-time.After(60 * time.Second):
		}
		time.Sleep(delay)
		_ = cmd.Process.Signal(syscall.SIGKILL)
		<-done
		_ = cmd.Wait()
		h.Stat("kill.kills", 1)
		if len(lines) == 0 || !strings.HasPrefix(lines[0], "R ") {
			msg := "no output"
			if len(lines) > 0 {
				msg = lines[0]
			}
			h.Op("child %d", round)
			h.Obs("child-failed")
			h.Viol("restart-failed", "child engine did not open in round %d: %s", round, msg)
			return
		}
		type view struct{ off, n, sum int }
		var views []view
		nAck, nFail := 0, 0
		for _, t := range lines[1:] {
			f := strings.Fields(t)
			if len(f) < 2 {
				continue
			}
			id, _ := strconv.Atoi(f[1])
			switch f[0] {
			case "A":
				ackedAll[id] = true
				nAck++
			case "F":
				failedAll[id] = true
				nFail++
			case "X":
				h.Viol("failed-do-reported-ok", "Do with a failing callback returned nil (id %d)", id)
			case "V":
				if len(f) == 4 {
					n, _ := strconv.Atoi(f[2])
					s, _ := strconv.Atoi(f[3])
					views = append(views, view{id, n, s})
				}
			}
			if id > firstID && f[0] != "V" {
				firstID = id
			}
		}
		firstID += 10
		h.Stat("kill.acks", int64(nAck))
		h.Stat("kill.failed-callbacks", int64(nFail))
		h.Stat("kill.views", int64(len(views)))
		// ---- what is on disk
		if st, err := os.Stat(filepath.Join(dir, "db-journal")); err == nil && st.Size() > 0 {
			h.Stat("kill.journal-rolled-back-on-recovery", 1)
		}
		if r.Chance(1, 3) {
			// what a kill inside a large write(2) leaves behind (seen in real runs: the file ends page-aligned in the middle of
			// a record): a proper prefix of the next record at the end of the last binlog file
			files, _ := filepath.Glob(filepath.Join(dir, "bl.*.bin"))
			if len(files) > 0 {
				last := files[len(files)-1]
				ev := evPayload(9000000+round, 12+r.Intn(3000))
				t := r.Range(1, len(ev)-1)
				if f, err := os.OpenFile(last, os.O_WRONLY|os.O_APPEND, 0); err == nil {
					_, _ = f.Write(ev[:t])
					_ = f.Close()
					h.Stat("kill.torn-tail", 1)
					h.NonTrivial("torn-binlog-tail")
				}
			}
		}
		entries, end, perr := parseBinlog(dir)
		if perr != nil {
			h.Op("binlog %d", round)
			h.Obs("unreadable")
			h.Viol("binlog-unreadable", "fsbinlog cannot re-read its own files after the kill: %v", perr)
			return
		}
		m := &mockBinlog{entries: entries, length: end}
		peek := filepath.Join(dir, "peek")
		_ = os.RemoveAll(peek)
		_ = os.MkdirAll(peek, 0o755)
		for _, suf := range []string{"", "-journal", "-wal", "-wal2"} {
			if _, err := os.Stat(filepath.Join(dir, "db") + suf); err == nil {
				_ = copyFile(filepath.Join(dir, "db")+suf, filepath.Join(peek, "db")+suf)
			}
		}
		var ir []int
		var ioff int64
		if err := sqlite.VerifPeek(filepath.Join(peek, "db"), func(c sqlite.Conn) error {
			var err error
			ir, ioff, err = readState(c)
			return err
		}); err != nil {
			h.Op("image %d", round)
			h.Obs("unreadable")
			h.Viol("db-unreadable", "SQLite cannot open the database after the kill: %v", err)
			return
		}
		if !m.isBoundary(ioff) || !eq(ir, m.evsUpTo(ioff)) {
			h.Viol("db-not-prefix", "after kill the database holds %d rows (hash %d) with stored offset %d; the binlog prefix up to it holds %d events (hash %d)",
				len(ir), seqHash(ir), ioff, len(m.evsUpTo(ioff)), seqHash(m.evsUpTo(ioff)))
		}
		if ioff > end {
			h.Viol("db-ahead-of-binlog", "after kill the database has offset %d but the binlog ends at %d", ioff, end)
		}
		for _, v := range views {
			want := m.evsUpTo(int64(v.off))
			sum := 0
			for _, x := range want {
				sum += x
			}
			if int64(v.off) > end || !m.isBoundary(int64(v.off)) || len(want) != v.n || sum != v.sum {
				h.Viol("view-not-prefix", "a reader saw offset %d with %d rows (sum %d); the binlog (ends at %d) has %d events (sum %d) up to that offset", v.off, v.n, v.sum, end, len(want), sum)
				break
			}
		}
		if ioff < end {
			h.NonTrivial("replayed-after-kill")
		}
		for _, e := range entries {
			if !e.ev && len(e.raw) == 20 {
				h.Stat("kill.crc-records", 1)
			}
		}
		// ---- restart on the real files
		torn := 0
		var fileBytes int64
		if files, _ := filepath.Glob(filepath.Join(dir, "bl.*.bin")); len(files) > 0 {
			for _, f := range files {
				if st, err := os.Stat(f); err == nil {
					fileBytes += st.Size()
				}
			}
			if fileBytes > end { // bytes after the last complete record: a write(2) the killed process did not finish
				torn = 1
			}
		}
		h.Op("recover %s %d %s %d", verifx.List(ir), ioff, descr(entries), torn)
		e, err := openReal(dir, true, time.Hour)
		if err != nil && torn == 1 && strings.Contains(err.Error(), "current position in file is not equal file size") {
			// known finding: the writer refuses a file that is longer than the reader's position. Nothing else is
			// claimed about this restart; repair the file the way an operator would (cut the partial record off) and go on.
			h.Obs("open-error")
			h.Viol("restart-failed-torn-tail", "engine did not reopen after a kill that left %d bytes of an unfinished write at the end of the binlog (db offset %d, last complete record ends at %d): %v", fileBytes-end, ioff, end, err)
			files, _ := filepath.Glob(filepath.Join(dir, "bl.*.bin"))
			last := files[len(files)-1]
			st, serr := os.Stat(last)
			if serr != nil || os.Truncate(last, st.Size()-(fileBytes-end)) != nil {
				return
			}
			h.Stat("kill.torn-tail-repaired-by-hand", 1)
			torn = 0
			h.Op("recover %s %d %s %d", verifx.List(ir), ioff, descr(entries), torn)
			e, err = openReal(dir, true, time.Hour)
		}
		if err != nil {
			h.Obs("open-error")
			h.Viol("restart-failed", "engine did not reopen after the kill (db offset %d, binlog end %d, torn tail %d): %v", ioff, end, torn, err)
			return
		}
		var tr []int
		var toff int64
		_ = e.VerifReadTx(func(c sqlite.Conn) error { tr, toff, _ = readState(c); return nil })
		h.Obs("rows=%s off=%d dbo=%d left=0", verifx.List(tr), toff, e.VerifDBOffset())
		all := m.evsUpTo(end)
		if !eq(tr, all) {
			h.Viol("restart-missing-events", "after restart the engine holds %d rows (hash %d); the durable binlog holds %d events (hash %d)", len(tr), seqHash(tr), len(all), seqHash(all))
		}
		have := map[int]bool{}
		for _, id := range tr {
			have[id] = true
		}
		for id := range ackedAll {
			if !have[id] {
				h.Viol("acked-lost", "write %d was acknowledged in wait-for-commit mode but is missing after kill+restart", id)
				break
			}
		}
		for id := range failedAll {
			if have[id] {
				h.Viol("failed-do-left-db-change", "Do %d returned an error but its row is in the database after restart", id)
				break
			}
		}
		for _, en := range entries {
			if en.ev && failedAll[en.id] {
				h.Viol("failed-do-left-binlog-record", "Do %d returned an error but its event is in the binlog (ends at %d)", en.id, en.end)
				break
			}
		}
		// the engine must be writable again (its offset is the binlog writer's position) and acknowledge the write
		wid := firstID
		firstID += 10
		st := &stepper{}
		h.Op("write %d", wid)
		wdone := make(chan error, 1)
		go func() { wdone <- e.Do(context.Background(), "w", st.callback(wid, 16, kOK)) }()
		select {
		case werr := <-wdone:
			if werr != nil {
				h.Obs("err")
				h.Viol("restart-not-writable", "first write after restart failed: %v", werr)
			} else {
				h.Obs("ok")
				ackedAll[wid] = true
			}
		case <-time.After(15 * time.Second):
			h.Obs("stuck")
			aborted = true
			return // the engine holds a blocked call; leave it behind
		}
		if r.Bool() {
			ctx, cancel := context.WithTimeout(context.Background(), 30*time.Second)
			_ = e.Close(ctx)
			cancel()
			h.Stat("kill.graceful-close-between", 1)
		} else {
			e.VerifAbandon()
		}
	}
}
