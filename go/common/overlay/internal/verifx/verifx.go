//go:build verif

// Package verifx is the Go half of the /verif line protocol (DESIGN.md Appendix B).
// It is compiled into the statshouse module through `go build -overlay`, never committed to /repo.
//
//	@case <n> <seed>      start of case n (the model driver resets its state)
//	> tok tok …           one operation, replayed by the Lean model driver
//	< tok tok …           what the real implementation did (diffed against the driver's `<` lines)
//	! sig=<sig> text      the direct property oracle failed on the real implementation in this case
//	@nt <tag>             the current case is non-trivial by the property's evidence rule
//	#stat <key> <n>       input-distribution counters (summed into the evidence file)
package verifx

import (
	"bufio"
	"encoding/hex"
	"flag"
	"fmt"
	"os"
	"sort"
	"strings"
)

type H struct {
	Seed  uint64
	N     int
	Only  int
	Tier  string
	Mode  string
	Arg   string
	w     *bufio.Writer
	stats map[string]int64
	cur   int
}

func New() *H {
	h := &H{stats: map[string]int64{}}
	flag.Uint64Var(&h.Seed, "seed", 1, "PRNG seed")
	flag.IntVar(&h.N, "n", 100, "number of cases")
	flag.IntVar(&h.Only, "only", -1, "run only this case index")
	flag.StringVar(&h.Tier, "tier", "quick", "quick|thorough")
	flag.StringVar(&h.Mode, "mode", "", "harness specific mode")
	flag.StringVar(&h.Arg, "arg", "", "harness specific argument")
	flag.Parse()
	h.w = bufio.NewWriterSize(os.Stdout, 1<<16)
	return h
}

// Cases runs f for case indices 0..N-1 (or only -only), each with its own PRNG derived from (seed, index).
func (h *H) Cases(f func(i int, r *Rng)) {
	for i := 0; i < h.N; i++ {
		if h.Only >= 0 && i != h.Only {
			continue
		}
		h.cur = i
		fmt.Fprintf(h.w, "@case %d %d\n", i, h.Seed)
		f(i, NewRng(h.Seed*0x9E3779B97F4A7C15+uint64(i)*0xBF58476D1CE4E5B9+1))
		h.w.Flush()
	}
}

func (h *H) Op(format string, a ...any)  { fmt.Fprintf(h.w, "> "+format+"\n", a...) }
func (h *H) Obs(format string, a ...any) { fmt.Fprintf(h.w, "< "+format+"\n", a...) }
func (h *H) Viol(sig string, format string, a ...any) {
	fmt.Fprintf(h.w, "! sig=%s %s\n", sig, strings.ReplaceAll(fmt.Sprintf(format, a...), "\n", " "))
}
func (h *H) NonTrivial(tag string)   { fmt.Fprintf(h.w, "@nt %s\n", tag) }
func (h *H) Note(format string, a ...any) { fmt.Fprintf(h.w, "# "+format+"\n", a...) }
func (h *H) Stat(key string, n int64) { h.stats[key] += n }
func (h *H) Flush()                  { h.w.Flush() }

// Done prints the accumulated #stat lines and flushes.
func (h *H) Done() {
	keys := make([]string, 0, len(h.stats))
	for k := range h.stats {
		keys = append(keys, k)
	}
	sort.Strings(keys)
	for _, k := range keys {
		fmt.Fprintf(h.w, "#stat %s %d\n", k, h.stats[k])
	}
	h.w.Flush()
}

// Rng is splitmix64: tiny, deterministic, independent of any library in /repo.
type Rng struct{ s uint64 }

func NewRng(seed uint64) *Rng { return &Rng{s: seed} }
func (r *Rng) U64() uint64 {
	r.s += 0x9E3779B97F4A7C15
	z := r.s
	z = (z ^ (z >> 30)) * 0xBF58476D1CE4E5B9
	z = (z ^ (z >> 27)) * 0x94D049BB133111EB
	return z ^ (z >> 31)
}
func (r *Rng) Intn(n int) int {
	if n <= 0 {
		return 0
	}
	return int(r.U64() % uint64(n))
}
func (r *Rng) Range(lo, hi int) int { return lo + r.Intn(hi-lo+1) } // inclusive
func (r *Rng) Bool() bool          { return r.U64()&1 == 1 }
func (r *Rng) Chance(num, den int) bool { return r.Intn(den) < num }
func (r *Rng) Pick(weights ...int) int {
	t := 0
	for _, w := range weights {
		t += w
	}
	x := r.Intn(t)
	for i, w := range weights {
		if x < w {
			return i
		}
		x -= w
	}
	return len(weights) - 1
}
func (r *Rng) Bytes(n int) []byte {
	b := make([]byte, n)
	for i := range b {
		b[i] = byte(r.U64())
	}
	return b
}

func Hex(b []byte) string {
	if len(b) == 0 {
		return "-"
	}
	return hex.EncodeToString(b)
}

func UnHex(s string) []byte {
	if s == "-" {
		return nil
	}
	b, err := hex.DecodeString(s)
	if err != nil {
		panic(err)
	}
	return b
}

// List renders a comma separated list, "-" when empty (matches SH.showList).
func List[T any](xs []T) string {
	if len(xs) == 0 {
		return "-"
	}
	ss := make([]string, len(xs))
	for i, x := range xs {
		ss[i] = fmt.Sprint(x)
	}
	return strings.Join(ss, ",")
}

func SortedInts(xs []int) []int {
	ys := append([]int(nil), xs...)
	sort.Ints(ys)
	return ys
}
