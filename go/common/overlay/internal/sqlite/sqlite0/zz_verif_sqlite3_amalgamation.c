//go:build verif

// The pinned tree ships an empty sqlite3.c, so internal/sqlite does not link. This verif-only file pulls in the
// public-domain SQLite amalgamation (copied from the sandbox image to /verif/third_party/sqlite) so that the
// harnesses can run the real SQL of internal/metadata and internal/sqlite. Added through `go build -overlay`.
#include "/verif/third_party/sqlite/sqlite3.c"
