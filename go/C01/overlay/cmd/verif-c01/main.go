//go:build verif

// verif-c01: correspondence harness and direct oracle for property C01 (delivery agent -> aggregator -> storage).
//
// One case = one real agent (real MakeAgent, real disk cache in a temp dir, real goSendRecent loop body / sendHistoric /
// popOldestHistoricSecondLocked ...) + three real Aggregator replicas (real handleSendSourceBucket3, advanceRecentBuckets,
// goInsert -> real sendToClickhouse over HTTP) + a fake ClickHouse HTTP endpoint that answers 200/500 on command and
// records which seconds every INSERT body carries. The rpc transport is replaced by an in-process rpc.Client that
// hands the agent's request bytes to the harness; the harness decides when they reach the handler, when the answer
// reaches the agent, and which of them are lost. Sender goroutines are resumed one at a time, so a case is deterministic.
package main

import (
	"bytes"
	"encoding/binary"
	"context"
	"errors"
	"fmt"
	"go/ast"
	"go/parser"
	"go/printer"
	"go/token"
	"io"
	"log"
	"net/http"
	"net/http/httptest"
	"os"
	"path/filepath"
	"sort"
	"strconv"
	"strings"
	"sync"
	"time"

	"github.com/VKCOM/tl/pkg/rpc"
	"github.com/pierrec/lz4"
	"pgregory.net/rand"

	"github.com/VKCOM/statshouse/internal/agent"
	"github.com/VKCOM/statshouse/internal/aggregator"
	"github.com/VKCOM/statshouse/internal/compress"
	"github.com/VKCOM/statshouse/internal/data_model"
	"github.com/VKCOM/statshouse/internal/format"
	"github.com/VKCOM/statshouse/internal/data_model/gen2/tlstatshouse"
	"github.com/VKCOM/statshouse/internal/verifx"
)

const (
	B        = 3000000 // model time of `base`
	agentRel = 300     // the agent's wall clock is about base-agentRel: every generated second is in its future
	window   = 1000    // historic window of agent and aggregators
)

var sh2 *agent.Agent

// ---------------------------------------------------------------- fake ClickHouse

// what the fake ClickHouse (or a balancer in front of it) answers to the next INSERTs
type chKind struct {
	name   string
	status int  // 0 = read the body, then close the connection without any answer
	header bool // X-ClickHouse-Exception-Code present
}

var chKinds = []chKind{
	{"200", 200, false}, {"200x", 200, true}, // accepted
	{"500x", 500, true}, {"500", 500, false}, {"502", 502, false}, {"503", 503, false}, {"504", 504, false}, {"413", 413, false},
	{"reset", 0, false},
}

func (k chKind) accepted() bool { return k.status == 200 }

type fakeCH struct {
	mu   sync.Mutex
	kind chKind
	log  []chInsert
	srv  *httptest.Server
	base uint32
}
type chInsert struct {
	ok   bool
	secs []int // model seconds found in the body
}


func newFakeCH(base uint32) *fakeCH {
	f := &fakeCH{kind: chKinds[0], base: base}
	f.srv = httptest.NewServer(http.HandlerFunc(func(w http.ResponseWriter, r *http.Request) {
		body, _ := io.ReadAll(r.Body)
		// a row of second t: …[timestamp of t, 4 bytes LE][tag 0 = markerKey(t), 4 bytes LE][empty string tag 0]…
		set := map[int]bool{}
		for i := 4; i+4 < len(body); i++ {
			if body[i+2] != 0x3A || body[i+3] != 0x5C || body[i+4] != 0 {
				continue
			}
			t := B + int(binary.LittleEndian.Uint16(body[i:])) - 0x8000
			if binary.LittleEndian.Uint32(body[i-4:]) == uint32(int64(base)+int64(t)-B) {
				set[t] = true
			}
		}
		var secs []int
		for s := range set {
			secs = append(secs, s)
		}
		sort.Ints(secs)
		f.mu.Lock()
		kind := f.kind
		// the INSERT took effect iff this endpoint read the whole body and answered 200 - nothing else (headers, texts) counts
		f.log = append(f.log, chInsert{ok: kind.accepted(), secs: secs})
		f.mu.Unlock()
		if kind.status == 0 {
			if hj, ok := w.(http.Hijacker); ok {
				if conn, _, err := hj.Hijack(); err == nil {
					_ = conn.Close()
					return
				}
			}
			panic(http.ErrAbortHandler)
		}
		w.Header().Set("Connection", "close")
		if kind.header {
			w.Header().Set("X-ClickHouse-Exception-Code", "241")
		}
		w.WriteHeader(kind.status)
		if kind.status != 200 {
			_, _ = w.Write([]byte("Code: 241. DB::Exception: Memory limit exceeded (verif) / <html>bad gateway</html>"))
		}
	}))
	return f
}
func (f *fakeCH) take() []chInsert {
	f.mu.Lock()
	defer f.mu.Unlock()
	r := f.log
	f.log = nil
	return r
}

// ---------------------------------------------------------------- in-process rpc.Client

type answer struct {
	body []byte
	err  error
}
type pending struct {
	rid    int64
	body   []byte
	addr   string
	ans    chan answer
	cancel chan struct{}
}
type event struct {
	p    *pending // non-nil: the sender called SendSourceBucket3
	done bool
}

type fakeClient struct {
	c *caseRun
}

func (f *fakeClient) GetRequest() *rpc.Request           { return &rpc.Request{} }
func (f *fakeClient) PutResponse(*rpc.Response)          {}
func (f *fakeClient) ResetReconnectDelay(rpc.NetAddr)    {}
func (f *fakeClient) Logf(string, ...any)                {}
func (f *fakeClient) Close() error                       { return nil }
func (f *fakeClient) Multi(int) *rpc.Multi               { return nil }
func (f *fakeClient) DoCallback(context.Context, string, string, *rpc.Request, rpc.ClientCallback, any) (rpc.CallbackContext, error) {
	return rpc.CallbackContext{}, errors.New("verif: not supported")
}
func (f *fakeClient) DoMulti(context.Context, []rpc.NetAddr, func(rpc.NetAddr, *rpc.Request) error, func(rpc.NetAddr, *rpc.Response, error) error) error {
	return errors.New("verif: not supported")
}
func (f *fakeClient) Do(ctx context.Context, network string, address string, req *rpc.Request) (*rpc.Response, error) {
	c := f.c
	c.ridMu.Lock()
	c.nextRid++
	rid := c.nextRid
	cancel := c.curCancel
	c.ridMu.Unlock()
	p := &pending{rid: rid, body: append([]byte(nil), req.Body...), addr: address, ans: make(chan answer, 1), cancel: cancel}
	c.events <- event{p: p}
	select {
	case a := <-p.ans:
		if a.err != nil {
			return nil, a.err
		}
		return &rpc.Response{Body: a.body}, nil
	case <-p.cancel:
		return nil, context.Canceled
	}
}

// ---------------------------------------------------------------- one case

type flight struct {
	rid      int64
	sec      int
	id       int64
	historic bool
	replica  int
	spare    bool
	p        *pending
	cancelF  context.CancelFunc
	cancelCh chan struct{}
}

type ans struct {
	rid     int64
	sec     int
	discard bool
	err     bool
	why     string
	body    []byte
	rerr    error
}

type caseRun struct {
	h      *verifx.H
	lines  []string
	r      *verifx.Rng
	base   uint32
	dir    string
	disk   bool
	save   bool
	sw     int
	ag     *agent.VerifC01Agent
	cl     *fakeClient
	events chan event
	ridMu  sync.Mutex
	nextRid int64
	curCancel chan struct{}
	aggs   [3]*aggregator.VerifC01Agg
	ch     *fakeCH
	flights []*flight
	wire   map[int64]*pending // requests not yet received
	wireMeta map[int64]*flight
	answers map[int64]*ans
	parkedAt map[int64]int
	secOfRid map[int64]int
	oowPrev int64
	ballastUnits, ballastBytes, unit, row, limit int // historic memory budget: model units <-> real bytes
	diskOk bool
	longOutage bool
	raceCase bool
	trueUsedPrev, counterPrev int // before the current op: real queued bytes + ballast, and the agent's counter
	accountingReported bool
	vt     int
	// oracle state
	flushed   []int
	insertedOK map[int]int
	excused   map[int]string // second -> deliberate reason it may be absent from storage
	heldPrev  map[int]bool
	nFaults, nHistoricResend int
	stats  map[string]int64
	fatal  string
}

func (c *caseRun) op(f string, a ...any)  { c.lines = append(c.lines, "> "+fmt.Sprintf(f, a...)) }
func (c *caseRun) obs(f string, a ...any) { c.lines = append(c.lines, "< "+fmt.Sprintf(f, a...)) }
func (c *caseRun) viol(sig, f string, a ...any) {
	c.lines = append(c.lines, "! sig="+sig+" "+strings.ReplaceAll(fmt.Sprintf(f, a...), "\n", " "))
}
func (c *caseRun) stat(k string) { c.stats[k]++ }

func (c *caseRun) abs(t int) uint32 { return uint32(int64(c.base) + int64(t) - B) }
func (c *caseRun) rel(a uint32) int { return B + int(int64(a)-int64(c.base)) }
func b01(b bool) int {
	if b {
		return 1
	}
	return 0
}

func (c *caseRun) newAgent() {
	dir := ""
	if c.disk {
		dir = c.dir
	}
	a, err := agent.VerifC01NewAgent(dir, c.save, window, c.cl)
	if err != nil {
		panic(err)
	}
	c.ag = a
	// the model's limit is 1000 units of one second's data; the real limit is a 50 MiB constant: fill the difference
	if c.unit == 0 {
		c.unit = c.mkCbd(B).Len() // B % 3 == 0: the base bucket
		c.row = c.mkCbd(B+1).Len() - c.unit
	}
	c.limit = a.MemLimit()
	c.ballastUnits = 0
	c.ballastBytes = c.limit - 1000*c.unit
	a.AddHistoricDataSize(c.ballastBytes)
	c.diskOk = true
	c.trueUsedPrev, c.counterPrev = c.ballastBytes, c.ballastBytes
}

// size in bytes of the framed data of second t: the base bucket plus t%3 further rows (SH.Delivery.dataSize)
func (c *caseRun) size(t int) int { return c.unit + (t%3)*c.row }

// The bucket of second t: 1 + t%3 counter rows with random tag values (nothing in it depends on the wall clock, so the same
// seed gives the same bytes). It goes through the REAL compress.CompressAndFrame. Small buckets of random values sit at
// the lz4 boundary: lz4 output longer than, equal to, or shorter than the input. The harness keeps the candidates whose
// frame has the stored length (lz4 did not win), so a second's size stays a function of the second (the model's dataSize),
// and counts how many of them have lz4 size == raw size, the case where stored-vs-compressed is decided by one comparison.
// markerKey: the tag value that identifies second t in an INSERT body (an int32 tag travels unchanged to RowBinary)
func markerKey(t int) int32 { return int32(0x5C3A0000 + ((t-B+0x8000)&0xFFFF)) }

func (c *caseRun) candidate(t int, attempt int) agent.VerifC01Cbd {
	return c.candidateKeys(t, attempt, t%3)
}

// The small bucket of an almost idle agent: two counter rows with random tag values; the second row has 1 + extra tags,
// so seconds differ in size (what follows a big second in the historic queue may be smaller).
func (c *caseRun) candidateKeys(t int, attempt int, extra int) agent.VerifC01Cbd {
	rg := verifx.NewRng(uint64(t)*0x9E3779B97F4A7C15 + uint64(attempt)*0xD1B54A32D192ED03 + 7)
	k32 := func() int32 { return int32(rg.U64()>>33) | 1 }
	cnt := func() float64 { return float64(2+rg.Intn(1000)) + float64(rg.U64()>>11)/float64(1<<53) }
	item := tlstatshouse.MultiItem{Metric: 1 + (k32() & 0x3FFFFFFF), Keys: []int32{markerKey(t), k32(), k32()}}
	item.Tail.SetCounter(cnt(), &item.FieldsMask)
	second := tlstatshouse.MultiItem{Metric: 1 + (k32() & 0x3FFFFFFF), Keys: []int32{k32()}}
	for j := 0; j < extra; j++ {
		second.Keys = append(second.Keys, k32())
	}
	second.Tail.SetCounter(cnt(), &second.FieldsMask)
	sb := tlstatshouse.SourceBucket3{Metrics: []tlstatshouse.MultiItem{item, second}}
	return agent.VerifC01MakeCbd(c.abs(t), &sb)
}

func (c *caseRun) mkCbd(t int) agent.VerifC01Cbd {
	for attempt := 0; ; attempt++ {
		cbd := c.candidate(t, attempt)
		if cbd.Len() != 4+cbd.RawLen {
			if attempt > 20000 {
				c.fatal = fmt.Sprintf("no bucket for second %d with lz4 size >= raw size in 20000 attempts", t)
				return cbd
			}
			continue // lz4 made it smaller: its size would not be the model's dataSize(t)
		}
		if c.stats != nil {
			c.stats["frame.attempts"] += int64(attempt + 1)
			buf := make([]byte, lz4.CompressBlockBound(cbd.RawLen))
			if n, err := lz4.CompressBlockHC(cbd.RawBytes(), buf, 0); err == nil && n == cbd.RawLen {
				c.stats["frame.lz4-equals-raw"]++
			} else {
				c.stats["frame.lz4-longer"]++
			}
		}
		if c.unit != 0 && c.row != 0 && cbd.Len() != c.size(t) {
			c.fatal = fmt.Sprintf("generated second %d has %d bytes, expected %d: sizes are not the function of the second the model uses", t, cbd.Len(), c.size(t))
		}
		return cbd
	}
}

// wait for the single runnable sender to block in the rpc or to finish
func (c *caseRun) waitEvent(f *flight) {
	select {
	case ev := <-c.events:
		if ev.done {
			c.obs("done")
			return
		}
		var args tlstatshouse.SendSourceBucket3
		if _, err := args.ReadTL1Boxed(ev.p.body); err != nil {
			c.fatal = "agent wrote an unreadable request: " + err.Error()
			return
		}
		nf := &flight{rid: ev.p.rid, sec: c.rel(args.Time), id: f.id, historic: args.IsSetHistoric(), spare: args.IsSetSpare(),
			replica: int(ev.p.addr[1] - '0'), p: ev.p, cancelF: f.cancelF, cancelCh: f.cancelCh}
		if nf.historic {
			c.nHistoricResend++
		}
		c.flights = append(c.flights, nf)
		c.secOfRid[nf.rid] = nf.sec
		c.wire[nf.rid] = ev.p
		c.wireMeta[nf.rid] = nf
		c.obs("req rid=%d t=%d h=%d s=%d r=%d", nf.rid, nf.sec, b01(nf.historic), b01(nf.spare), nf.replica)
	case <-time.After(40 * time.Second):
		c.fatal = "sender goroutine neither sent nor finished within 40 s"
	}
}

func (c *caseRun) removeFlight(rid int64) *flight {
	for i, f := range c.flights {
		if f.rid == rid {
			c.flights = append(c.flights[:i:i], c.flights[i+1:]...)
			return f
		}
	}
	return nil
}
func (c *caseRun) findFlight(rid int64) *flight {
	for _, f := range c.flights {
		if f.rid == rid {
			return f
		}
	}
	return nil
}

func (c *caseRun) launch(historic bool, cbd agent.VerifC01Cbd) {
	ctx, cancel := context.WithCancel(context.Background())
	ch := make(chan struct{})
	f := &flight{id: cbd.ID, cancelF: cancel, cancelCh: ch}
	c.ridMu.Lock()
	c.curCancel = ch
	c.ridMu.Unlock()
	ag := c.ag
	go func() {
		if historic {
			ag.HistoricOne(ctx, cbd)
		} else {
			ag.RecentOne(ctx, cbd)
		}
		c.events <- event{done: true}
	}()
	c.waitEvent(f)
}

// resume the sender of flight f with an answer / error
func (c *caseRun) resume(f *flight, a answer) {
	c.removeFlight(f.rid)
	c.ridMu.Lock()
	c.curCancel = f.cancelCh
	c.ridMu.Unlock()
	f.p.ans <- a
	c.waitEvent(f)
}

var errConn = errors.New("verif: connection reset")

func classify(warning string, longpoll bool, discard bool, err error) string {
	switch {
	case err != nil:
		return "insert-failed"
	case strings.HasPrefix(warning, "historic bucket time is too far in the future"):
		return "future-historic"
	case strings.HasPrefix(warning, "Successfully discarded historic bucket beyond historic window"):
		return "beyond-window"
	case strings.HasPrefix(warning, "bucket time is too far in the future"):
		return "future-recent"
	case strings.HasPrefix(warning, "bucket time is too far in the past for recent conveyor"):
		return "late-recent"
	case strings.HasPrefix(warning, "Successfully discarded historic bucket with timestamp before historic window"):
		return "stale"
	case strings.HasPrefix(warning, "failed to deserialize") || strings.Contains(warning, "decompress") || strings.Contains(warning, "lz4") || strings.Contains(warning, "compress"):
		return "undecodable"
	case longpoll && discard && warning == "":
		return "inserted"
	}
	return "unknown:" + warning
}

func (c *caseRun) mkAns(rid int64, sec int, va aggregator.VerifC01Answer) *ans {
	var resp tlstatshouse.SendSourceBucket3Response
	var dummy tlstatshouse.SendSourceBucket3
	a := &ans{rid: rid, sec: sec, body: va.Body, rerr: va.Err, err: va.Err != nil}
	if va.Err == nil {
		if _, err := dummy.ReadResultTL1(va.Body, &resp); err != nil {
			c.fatal = "aggregator wrote an unreadable answer: " + err.Error()
			return a
		}
		a.discard = resp.IsSetDiscard()
	}
	a.why = classify(resp.Warning, va.Longpoll, a.discard, va.Err)
	return a
}

func (c *caseRun) printAns(a *ans) {
	c.obs("ans rid=%d t=%d d=%d e=%d why=%s", a.rid, a.sec, b01(a.discard), b01(a.err), a.why)
}

// the direct oracle on an answer the real aggregator produced
func (c *caseRun) checkAnswer(a *ans, r int) {
	if !a.discard {
		return
	}
	switch a.why {
	case "inserted":
		if c.insertedOK[a.sec] == 0 {
			c.viol("ack-without-insert", "replica %d answered request %d (second %d) with discard but no successful INSERT body carried that second", r, a.rid, a.sec)
		}
	case "undecodable":
		// "undecodable, discard" is a deliberate rejection only for bytes that really are not a framed bucket. Every request
		// of the agent carries the frame the real CompressAndFrame made from a valid serialized bucket.
		if a.rid != 0 {
			c.viol("discard-of-valid-bucket", "replica %d answered request %d with 'undecodable, discard' although second %d was framed by the agent's own compress.CompressAndFrame from a valid bucket: the agent will erase a second that was never inserted", r, a.rid, a.sec)
		}
	case "future-historic", "future-recent", "beyond-window", "stale":
		win := c.aggs[r].Window()
		if len(win) == 0 {
			return
		}
		oldest, newest := c.rel(win[0]), c.rel(win[len(win)-1])
		rounded := a.sec
		for rounded%3 != r {
			rounded++
		}
		legit := true
		switch a.why {
		case "future-historic", "future-recent":
			legit = rounded > newest
		case "beyond-window":
			legit = rounded < oldest-window
		case "stale":
			legit = a.sec < oldest-window
		}
		if !legit {
			c.viol("reject-inside-window", "replica %d discarded second %d as %s while its window is [%d..%d] (historic window %d)", r, a.sec, a.why, oldest, newest, window)
		} else {
			c.excused[a.sec] = "rejected:" + a.why
		}
	default:
		c.viol("ack-unknown-reason", "replica %d answered request %d (second %d) with discard for an unlisted reason %q", r, a.rid, a.sec, a.why)
	}
}

func (c *caseRun) state() {
	q := c.ag.Queue()
	qs := make([]string, len(q))
	for i, e := range q {
		qs[i] = fmt.Sprintf("%d:%d:%d", c.rel(e.Time), e.ID, b01(e.HasData))
	}
	ids, times := c.ag.Known()
	ks := make([]string, len(ids))
	for i := range ids {
		ks[i] = fmt.Sprintf("%d:%d", ids[i], c.rel(times[i]))
	}
	var fl, rq, rs []int
	for _, f := range c.flights {
		fl = append(fl, int(f.rid))
	}
	for rid := range c.wire {
		rq = append(rq, int(rid))
	}
	for rid := range c.answers {
		rs = append(rs, int(rid))
	}
	sort.Ints(fl)
	sort.Ints(rq)
	sort.Ints(rs)
	alive := ""
	for r := 0; r < 3; r++ {
		alive += strconv.Itoa(b01(c.ag.Alive(r)))
	}
	oow := c.oowPrev + c.ag.OutOfWindowDropped()
	used := c.ag.HistoricDataSize() - c.ballastBytes
	mem := strconv.Itoa(used)
	if real := c.ag.QueueDataBytes(); real != used && !c.accountingReported {
		c.accountingReported = true
		c.viol("historic-size-accounting", "historicBucketsDataSize accounts %d bytes of queued bucket data but the historic queue holds %d bytes (limit %d, other data %d): the memory limit no longer measures memory", used, real, c.limit, c.ballastBytes)
	}
	c.obs("st q=%s known=%s fl=%s alive=%s mem=%s oow=%d reqs=%s resps=%s", verifx.List(qs), verifx.List(ks), verifx.List(fl), alive, mem, oow, verifx.List(rq), verifx.List(rs))
	var as []string
	for r := 0; r < 3; r++ {
		if c.aggs[r] == nil {
			as = append(as, "down")
			continue
		}
		win := c.aggs[r].Window()
		if len(win) == 0 {
			as = append(as, "empty")
			continue
		}
		var hk []int
		for _, k := range c.aggs[r].HistoricKeys() {
			hk = append(hk, c.rel(k))
		}
		as = append(as, fmt.Sprintf("%d+%d/%s", c.rel(win[0]), len(win), verifx.List(hk)))
	}
	c.obs("ag %s", strings.Join(as, " "))
}

// held = seconds the agent still knows about (queue, disk records it has read, blocked senders)
func (c *caseRun) held() map[int]bool {
	h := map[int]bool{}
	for _, e := range c.ag.Queue() {
		h[c.rel(e.Time)] = true
	}
	_, times := c.ag.Known()
	for _, t := range times {
		h[c.rel(t)] = true
	}
	for _, f := range c.flights {
		h[f.sec] = true
	}
	for _, t := range c.ag.Unread() { // still on disk, not yet read back by this process
		h[c.rel(t)] = true
	}
	return h
}

// oracle: a second may leave `held` only for one of the listed reasons
func (c *caseRun) checkForgotten(opName string, ackedSec int, acked bool, restart bool, memOnly map[int]bool, oowBefore int64) {
	now := c.held()
	oowNow := c.oowPrev + c.ag.OutOfWindowDropped()
	for s := range c.heldPrev {
		if now[s] {
			continue
		}
		switch {
		case acked && s == ackedSec:
		case restart && memOnly[s]:
			c.excused[s] = "memory-only at agent stop"
		case oowNow > oowBefore && s < B-agentRel-window+200:
			c.excused[s] = "agent: out of historic window"
		case (!c.disk || !c.diskOk) && c.trueUsedPrev+c.size(s) > c.limit:
			c.excused[s] = "agent: memory limit reached and no disk copy"
			c.stat("drop.memory-limit")
		case (!c.disk || !c.diskOk) && c.counterPrev+c.size(s) > c.limit:
			c.viol("false-memory-limit-drop", "after %q second %d (no disk copy, not acknowledged) was thrown away as 'memory limit' although the queue held %d bytes + %d other of %d allowed (the agent's counter said %d)", opName, s, c.trueUsedPrev-c.ballastBytes, c.ballastBytes, c.limit, c.counterPrev)
		default:
			c.viol("forgot-without-ack", "after %q the agent no longer holds second %d (not in queue, disk cache or a sender) although no aggregator acknowledged it", opName, s)
		}
	}
	c.heldPrev = now
	c.trueUsedPrev, c.counterPrev = c.ballastBytes+c.ag.QueueDataBytes(), c.ag.HistoricDataSize()
}

func (c *caseRun) doRecv(rid int64) {
	c.op("recv %d", rid)
	p := c.wire[rid]
	if p == nil {
		c.obs("none")
		return
	}
	meta := c.wireMeta[rid]
	delete(c.wire, rid)
	delete(c.wireMeta, rid)
	r := meta.replica
	if c.aggs[r] == nil {
		c.obs("connerr")
		if f := c.findFlight(rid); f != nil {
			c.deliver("recv", f, answer{err: errConn}, false)
		}
		return
	}
	parked, imm := c.aggs[r].Handle(rid, p.body[4:])
	if parked {
		where, bt := c.aggs[r].Where(rid)
		c.obs("parked %s %d", where, c.rel(bt))
		c.parkedAt[rid] = r
		c.stat("recv.parked." + where)
		return
	}
	a := c.mkAns(rid, meta.sec, imm)
	c.answers[rid] = a
	c.printAns(a)
	c.checkAnswer(a, r)
	c.stat("recv.answer." + a.why)
}

func (c *caseRun) doTick(r int, now int, kind chKind) {
	ok := kind.accepted() // what the current sendToClickhouse makes of it: err == nil iff HTTP status 200
	c.op("tick %d %d %d %s", r, now, b01(ok), kind.name)
	g := c.aggs[r]
	if g == nil {
		c.obs("none")
		return
	}
	c.ch.mu.Lock()
	c.ch.kind = kind
	c.ch.mu.Unlock()
	if !ok {
		c.nFaults++
	}
	for _, rb := range g.Advance(c.abs(now)) {
		if !rb.Ours {
			if rb.Contributors != 0 {
				c.viol("foreign-bucket-has-contributors", "replica %d holds %d contributors in bucket %d which it never inserts", r, rb.Contributors, c.rel(rb.Time))
			}
			continue
		}
		g.Insert(rb)
		if !c.insertDone(rb, kind) {
			return
		}
	}
	c.collectAnswers(r, nil)
}

// one goInsert iteration finished: exactly one INSERT reached the fake ClickHouse
func (c *caseRun) insertDone(rb *aggregator.VerifC01Ready, kind chKind) bool {
	log := c.ch.take()
	if len(log) != 1 {
		c.fatal = fmt.Sprintf("goInsert made %d HTTP requests for one ready bucket", len(log))
		return false
	}
	c.obs("ins bt=%d secs=%s ok=%d", c.rel(rb.Time), verifx.List(log[0].secs), b01(log[0].ok))
	if log[0].ok {
		for _, s := range log[0].secs {
			c.insertedOK[s]++
		}
	}
	c.stat("insert." + kind.name)
	return true
}

// the long-poll answers replica r produced (plus `extra`, an answer given at once in the same step), by request id
func (c *caseRun) collectAnswers(r int, extra *ans) {
	g := c.aggs[r]
	as := g.Answers()
	sort.Slice(as, func(i, j int) bool { return as[i].Rid < as[j].Rid })
	printedExtra := extra == nil
	for _, va := range as {
		if !printedExtra && extra.rid < va.Rid {
			c.printAns(extra)
			printedExtra = true
		}
		sec := 0
		if f := c.findFlight(va.Rid); f != nil {
			sec = f.sec
		} else if s, ok := c.secOfRid[va.Rid]; ok {
			sec = s
		}
		a := c.mkAns(va.Rid, sec, va)
		c.answers[va.Rid] = a
		delete(c.parkedAt, va.Rid)
		c.printAns(a)
		c.checkAnswer(a, r)
		c.stat("tick.answer." + a.why)
	}
	if !printedExtra {
		c.printAns(extra)
	}
}

// replica r: the ticker fires at now1 and the inserter of the first ready bucket takes its oldestTime snapshot; it is then
// held up (the harness holds the bucket mutex the inserter needs next) while the ticker fires again at now2 and request rid
// (if it is a historic request for this replica) is handled; then the inserter goes on and pops historic buckets with its
// old snapshot; the other ready buckets are inserted afterwards.
func (c *caseRun) doRace(r int, now1, now2 int, rid int64, kind chKind) {
	ok := kind.accepted()
	c.op("race %d %d %d %d %d %s", r, now1, now2, rid, b01(ok), kind.name)
	g := c.aggs[r]
	if g == nil {
		c.obs("none")
		return
	}
	c.ch.mu.Lock()
	c.ch.kind = kind
	c.ch.mu.Unlock()
	if !ok {
		c.nFaults++
	}
	c.stat("race")
	foreign := func(rbs []*aggregator.VerifC01Ready) {
		for _, rb := range rbs {
			if !rb.Ours && rb.Contributors != 0 {
				c.viol("foreign-bucket-has-contributors", "replica %d holds %d contributors in bucket %d which it never inserts", r, rb.Contributors, c.rel(rb.Time))
			}
		}
	}
	ready1 := g.Advance(c.abs(now1))
	foreign(ready1)
	first := -1
	for i, rb := range ready1 {
		if rb.Ours {
			first = i
			break
		}
	}
	var resume func()
	if first >= 0 {
		var err error
		if resume, err = g.InsertBegin(ready1[first]); err != nil {
			c.fatal = err.Error()
			return
		}
	}
	ready2 := g.Advance(c.abs(now2))
	foreign(ready2)
	// the arrival
	var extra *ans
	if p, meta := c.wire[rid], c.wireMeta[rid]; p != nil && meta.replica == r && meta.historic {
		delete(c.wire, rid)
		delete(c.wireMeta, rid)
		parked, imm := g.Handle(rid, p.body[4:])
		if parked {
			where, bt := g.Where(rid)
			c.obs("parked %s %d", where, c.rel(bt))
			c.parkedAt[rid] = r
			c.stat("race.arrive.parked-" + where)
		} else {
			extra = c.mkAns(rid, meta.sec, imm)
			c.answers[rid] = extra
			c.checkAnswer(extra, r)
			c.stat("race.arrive." + extra.why)
		}
	} else {
		c.obs("none")
	}
	if first >= 0 {
		resume()
		if !c.insertDone(ready1[first], kind) {
			return
		}
		for _, rb := range ready1[first+1:] {
			if rb.Ours {
				g.Insert(rb)
				if !c.insertDone(rb, kind) {
					return
				}
			}
		}
	}
	for _, rb := range ready2 {
		if rb.Ours {
			g.Insert(rb)
			if !c.insertDone(rb, kind) {
				return
			}
		}
	}
	c.collectAnswers(r, extra)
}

func (c *caseRun) deliver(opName string, f *flight, a answer, acked bool) {
	oowBefore := c.oowPrev + c.ag.OutOfWindowDropped()
	c.resume(f, a)
	c.checkForgotten(opName, f.sec, acked, false, nil, oowBefore)
}

func (c *caseRun) doResp(rid int64) {
	c.op("resp %d", rid)
	a := c.answers[rid]
	if a == nil {
		c.obs("none")
		return
	}
	delete(c.answers, rid)
	f := c.findFlight(rid)
	if f == nil {
		c.obs("none")
		return
	}
	c.stat("resp." + a.why)
	c.deliver("resp", f, answer{body: a.body, err: a.rerr}, a.discard && !a.err)
}

func (c *caseRun) doDrop(rid int64) {
	c.op("drop %d", rid)
	f := c.findFlight(rid)
	if f == nil {
		c.obs("none")
		return
	}
	c.nFaults++
	if c.answers[rid] != nil {
		c.stat("drop.answer-lost")
	} else {
		c.stat("drop.timeout")
	}
	delete(c.answers, rid)
	if r, ok := c.parkedAt[rid]; ok && c.aggs[r] != nil {
		c.aggs[r].Cancel(rid)
	}
	delete(c.parkedAt, rid)
	c.deliver("drop", f, answer{err: errConn}, false)
}

// number of historic senders busy in an rpc (the agent has historicSenders of them per shard; each owns one scratch pad)
func (c *caseRun) busyHistoric() int {
	n := 0
	for _, f := range c.flights {
		if f.historic {
			n++
		}
	}
	return n
}

const historicSenders = 2

func (c *caseRun) doPop(now int) {
	c.op("pop %d", now)
	oowBefore := c.oowPrev + c.ag.OutOfWindowDropped()
	cbd, ok := c.ag.PopHistoric(c.abs(now))
	if !ok {
		c.obs("none")
		return
	}
	c.obs("popped t=%d id=%d mem=%d", c.rel(cbd.Time), cbd.ID, b01(cbd.HasData))
	c.stat("pop.ok")
	// between pop and the rpc the second is owned by the sender only: keep it in heldPrev via the flight made by launch
	c.launch(true, cbd)
	c.checkForgotten("pop", 0, false, false, nil, oowBefore)
}

func (c *caseRun) doOverflow(t int) {
	c.op("overflow %d", t)
	c.flushed = append(c.flushed, t)
	c.ag.SendToSenders(c.mkCbd(t))
	c.heldPrev[t] = true
	c.checkForgotten("overflow", 0, false, false, nil, c.oowPrev+c.ag.OutOfWindowDropped())
}

func (c *caseRun) doRecent(t int) {
	c.op("recent %d", t)
	c.flushed = append(c.flushed, t)
	c.launch(false, c.mkCbd(t))
	c.heldPrev[t] = true
	c.checkForgotten("recent", 0, false, false, nil, c.oowPrev+c.ag.OutOfWindowDropped())
}

func (c *caseRun) doAlive(r int, b bool) {
	c.op("alive %d %d", r, b01(b))
	c.ag.SetAlive(r, b)
}

func (c *caseRun) doDown(r int) {
	c.op("down %d", r)
	if c.aggs[r] == nil {
		c.obs("none")
		return
	}
	c.nFaults++
	c.aggs[r] = nil
	var victims []*flight
	for _, f := range c.flights {
		if pr, ok := c.parkedAt[f.rid]; ok && pr == r {
			victims = append(victims, f)
		}
	}
	for rid, pr := range c.parkedAt {
		if pr == r {
			delete(c.parkedAt, rid)
		}
	}
	for _, f := range victims {
		if c.findFlight(f.rid) != nil {
			c.deliver("down", f, answer{err: errConn}, false)
		}
	}
}

func (c *caseRun) doUp(r int, now int) {
	c.op("up %d %d", r, now)
	if c.aggs[r] != nil {
		c.obs("none")
		return
	}
	c.aggs[r] = aggregator.VerifC01NewAgg(sh2, int32(r+1), c.sw, strings.TrimPrefix(c.ch.srv.URL, "http://"))
	c.aggs[r].Advance(c.abs(now))
}

func (c *caseRun) doAgentRestart(crash bool) {
	c.op("agentrestart %d", b01(crash))
	c.nFaults++
	memOnly := map[int]bool{}
	for _, e := range c.ag.Queue() {
		if e.ID == 0 {
			memOnly[c.rel(e.Time)] = true
		}
	}
	for _, f := range c.flights {
		if f.id == 0 && (f.historic || crash || !c.disk || !c.diskOk) {
			memOnly[f.sec] = true
		}
	}
	oowBefore := c.oowPrev + c.ag.OutOfWindowDropped()
	fl := c.flights
	c.flights = nil
	for _, f := range fl {
		if !crash { // graceful: the sender's context is cancelled, it runs to its end
			f.cancelF()
			close(f.cancelCh)
			select {
			case ev := <-c.events:
				if !ev.done {
					c.fatal = "cancelled sender sent another request"
				}
			case <-time.After(40 * time.Second):
				c.fatal = "cancelled sender did not finish"
			}
		}
		delete(c.answers, f.rid)
		if r, ok := c.parkedAt[f.rid]; ok && c.aggs[r] != nil {
			c.aggs[r].Cancel(f.rid)
		}
		delete(c.parkedAt, f.rid)
	}
	c.oowPrev += c.ag.OutOfWindowDropped()
	c.ag.Close()
	c.newAgent()
	c.checkForgotten("agentrestart", 0, false, true, memOnly, oowBefore)
}

// other queued data now takes k of the 1000 units of the historic memory budget
func (c *caseRun) doBallast(k int) {
	c.op("ballast %d", k)
	nb := c.limit - 1000*c.unit + k // k bytes of the model's 1000*unit byte budget
	c.ag.AddHistoricDataSize(nb - c.ballastBytes)
	c.ballastUnits, c.ballastBytes = k, nb
	c.trueUsedPrev, c.counterPrev = c.ballastBytes+c.ag.QueueDataBytes(), c.ag.HistoricDataSize()
	c.stat(fmt.Sprintf("ballast.room%d", (1000*c.unit-k)/c.unit))
}

func (c *caseRun) doDiskOk(b bool) {
	c.op("diskok %d", b01(b))
	c.diskOk = b
	c.ag.SetDiskOk(b)
}

func (c *caseRun) doBad(r int, kind int) {
	c.op("bad %d", r)
	if c.aggs[r] == nil {
		c.obs("connerr")
		return
	}
	args := tlstatshouse.SendSourceBucket3{Time: c.abs(c.vt), BuildCommitTs: ^uint32(0)}
	args.Header.ShardReplica = int32(r)
	args.Header.ShardReplicaTotal = 3
	args.Header.HostName = "verif-agent"
	var req []byte
	switch kind {
	case 0: // statshouse.sendSourceBucket3 itself is cut short
		full, _ := args.WriteTL1BoxedGeneral(nil)
		req = full[4 : 4+(len(full)-4)/2]
	case 1: // payload does not decompress
		args.OriginalSize = 4096
		args.CompressedData = "\xff\xff\xff\xff\xff\xff\xff\xff this is not lz4"
		full, _ := args.WriteTL1BoxedGeneral(nil)
		req = full[4:]
	default: // payload decompresses to something that is not a statshouse.sourceBucket3
		framed := compress.CompressAndFrame([]byte{1, 2, 3, 4, 5, 6, 7})
		orig, data, _ := compress.DeFrame(framed)
		args.OriginalSize = orig
		args.CompressedData = string(data)
		full, _ := args.WriteTL1BoxedGeneral(nil)
		req = full[4:]
	}
	c.stat(fmt.Sprintf("bad.kind%d", kind))
	parked, imm := c.aggs[r].Handle(0, req)
	if parked {
		c.obs("parked")
		c.viol("undecodable-accepted", "replica %d parked an undecodable request (kind %d)", r, kind)
		c.aggs[r].Cancel(0)
		return
	}
	a := c.mkAns(0, 0, imm)
	c.printAns(a)
	c.checkAnswer(a, r)
}

// ---------------------------------------------------------------- generator

func (c *caseRun) sortedKeys(m map[int64]*pending) []int64 {
	var ks []int64
	for k := range m {
		ks = append(ks, k)
	}
	sort.Slice(ks, func(i, j int) bool { return ks[i] < ks[j] })
	return ks
}
func (c *caseRun) answerKeys() []int64 {
	var ks []int64
	for k := range c.answers {
		ks = append(ks, k)
	}
	sort.Slice(ks, func(i, j int) bool { return ks[i] < ks[j] })
	return ks
}

// make sure a historic sender will find a live replica for every second the agent may send next
// (otherwise the real sender sleeps 10 s per attempt)
func (c *caseRun) ensureReplica() {
	dead := 0
	for r := 0; r < 3; r++ {
		if !c.ag.Alive(r) {
			dead++
		}
	}
	for r := 0; r < 3 && dead > 1; r++ {
		if !c.ag.Alive(r) {
			c.doAlive(r, true)
			c.state()
			dead--
		}
	}
}

func (c *caseRun) freshSecond(used map[int]bool) int {
	for k := 0; k < 50; k++ {
		var t int
		switch c.r.Pick(70, 8, 6, 6, 5, 5) {
		case 0:
			t = c.vt - c.r.Intn(c.sw+3) + c.r.Intn(3) // inside the recent window
		case 1:
			t = c.vt + 3 + c.r.Intn(5) // around the future edge
		case 2:
			t = c.vt - c.sw - 1 - c.r.Intn(20) // late for recent, fine for historic
		case 3:
			t = B - 1000 - 90 - c.r.Intn(100) // inside the agent's window for the whole case (real clock may advance 80 s), beyond the aggregators'
		case 4:
			t = B - 2000 - c.r.Intn(50) // outside the agent's window
		default:
			t = c.vt - window - c.sw - 3 + c.r.Intn(7) // aggregator window edge
		}
		if !used[t] && !(t >= B-agentRel-5 && t <= B-agentRel+130) && t > B-2500 {
			used[t] = true
			return t
		}
	}
	for t := c.vt + 20; ; t++ {
		if !used[t] {
			used[t] = true
			return t
		}
	}
}

func (c *caseRun) run(quickOps int) {
	used := map[int]bool{}
	c.vt = B + 10 + c.r.Intn(6)
	for k := 0; k < 3; k++ { // MakeAggregator: advanceRecentBuckets(now, true)
		c.aggs[k].Advance(c.abs(c.vt))
	}
	c.op("new %d %d %d %d %d %d", b01(c.disk), b01(c.save), B-agentRel, window, c.sw, c.vt)
	c.state()
	step := func() { c.state() }
	if c.raceCase {
		// the window of one replica moves on while its inserter is held up, and a historic request for a second that has just
		// left (or is about to leave) the window arrives in between; an older historic bucket already waits at that replica
		r := c.r.Intn(3)
		oldest := c.rel(c.aggs[r].Window()[0])
		t0 := oldest - 6
		for t0%3 != r {
			t0--
		}
		used[t0] = true
		c.doOverflow(t0)
		step()
		c.doPop(B - agentRel)
		step()
		for _, rid := range c.sortedKeys(c.wire) {
			c.doRecv(rid)
			step()
		}
		t := oldest + c.r.Intn(10)
		for t%3 != r {
			t++
		}
		used[t] = true
		c.doOverflow(t)
		step()
		c.doPop(B - agentRel)
		step()
		var rid int64
		for _, k := range c.sortedKeys(c.wire) {
			rid = k
		}
		now1 := oldest + c.sw + 1 + c.r.Intn(4)
		now2 := now1 + 1 + c.r.Intn(6)
		c.doRace(r, now1, now2, rid, chKinds[0])
		step()
		if now2 > c.vt {
			c.vt = now2
		}
	}
	if c.longOutage {
		// a long aggregator outage: about 2*MaxConveyorDelay seconds pile up on disk, the agent process is restarted, reads
		// part of the backlog back (at start-up and one record per popped second), and is restarted again before anything is
		// acknowledged. How far the reader got in the tail file when the process stops is what varies.
		n := agent.VerifC01StartupReads() - 2 + c.r.Intn(6)
		for i := 0; i < n && c.fatal == ""; i++ {
			t := c.vt - c.sw - 2 - i
			used[t] = true
			c.doOverflow(t)
			step()
		}
		c.stat("long-outage")
		for restart := 0; restart < 2 && c.fatal == ""; restart++ {
			c.doAgentRestart(c.r.Chance(1, 2))
			step()
			for k := c.r.Intn(historicSenders + 1); k > 0 && c.busyHistoric() < historicSenders && c.fatal == ""; k-- {
				c.doPop(B - agentRel)
				step()
			}
		}
		quickOps /= 3
	}
	for i := 0; i < quickOps && c.fatal == ""; i++ {
		if c.r.Chance(1, 3) {
			c.vt += c.r.Intn(4)
		}
		c.ensureReplica()
		wire := c.sortedKeys(c.wire)
		answers := c.answerKeys()
		switch c.r.Pick(14, 5, 16, 16, 14, 5, 10, 3, 2, 2, 5, 2, 1, 1, 2) {
		case 0:
			c.doRecent(c.freshSecond(used))
		case 1:
			c.doOverflow(c.freshSecond(used))
		case 2:
			if len(wire) == 0 {
				continue
			}
			c.doRecv(wire[c.r.Intn(len(wire))])
		case 3:
			r := c.r.Intn(3)
			c.vt += c.r.Intn(3)
			kind := chKinds[0]
			if c.r.Chance(1, 4) {
				kind = chKinds[2+c.r.Intn(len(chKinds)-2)]
			} else if c.r.Chance(1, 8) {
				kind = chKinds[1]
			}
			c.doTick(r, c.vt+c.r.Intn(2), kind)
		case 4:
			if len(answers) == 0 {
				continue
			}
			c.doResp(answers[c.r.Intn(len(answers))])
		case 5:
			if len(c.flights) == 0 {
				continue
			}
			c.doDrop(c.flights[c.r.Intn(len(c.flights))].rid)
		case 6:
			if c.busyHistoric() >= historicSenders {
				continue
			}
			now := B - agentRel
			if q := c.ag.Queue(); len(q) != 0 && c.r.Chance(1, 5) {
				now = c.rel(q[0].Time) - []int{0, 1, 121, 122, 123, -1}[c.r.Intn(6)]
			}
			c.doPop(now)
		case 7:
			c.doAlive(c.r.Intn(3), c.r.Chance(1, 2))
		case 8:
			r := c.r.Intn(3)
			if c.aggs[r] != nil {
				c.doDown(r)
			} else {
				c.doUp(r, c.vt)
			}
		case 9:
			c.doAgentRestart(c.r.Chance(1, 2))
		case 10:
			if c.r.Chance(1, 3) {
				c.doDiskOk(!c.diskOk)
			} else {
				L := 1000 * c.unit
				c.doBallast([]int{0, L, L, L - c.unit, L - c.unit - c.row, L - 2*c.unit - 3*c.row, L - 5*c.unit}[c.r.Intn(7)])
			}
		case 11:
			c.doBad(c.r.Intn(3), c.r.Intn(3))
		case 12: // the aggregators' clock jumps (long pause): parked historic buckets may become stale
			c.vt += window + 5 + c.r.Intn(30)
			c.stat("clock-jump")
			continue
		case 14:
			r := c.r.Intn(3)
			var rid int64
			for _, k := range wire {
				if m := c.wireMeta[k]; m != nil && m.historic && m.replica == r {
					rid = k
				}
			}
			c.vt += c.r.Intn(3)
			n1 := c.vt + c.r.Intn(2)
			c.doRace(r, n1, n1+1+c.r.Intn(4), rid, chKinds[0])
		case 13:
			for r := 0; r < 3; r++ {
				if c.aggs[r] == nil {
					c.doUp(r, c.vt)
					c.state()
				}
			}
			continue
		}
		step()
	}
	if c.fatal != "" {
		return
	}
	c.finish()
}

// fault-free continuation: everything up, every message delivered, clocks advance; the queue must drain
func (c *caseRun) finish() {
	c.doBallast(0)
	c.state()
	c.doDiskOk(true)
	c.state()
	for r := 0; r < 3; r++ {
		if !c.ag.Alive(r) {
			c.doAlive(r, true)
			c.state()
		}
		if c.aggs[r] == nil {
			c.doUp(r, c.vt)
			c.state()
		}
	}
	for round := 0; round < 150 && c.fatal == ""; round++ {
		for _, rid := range c.sortedKeys(c.wire) {
			c.doRecv(rid)
			c.state()
		}
		c.vt += 3
		for r := 0; r < 3; r++ {
			c.doTick(r, c.vt, chKinds[0])
			c.state()
		}
		for _, rid := range c.answerKeys() {
			c.doResp(rid)
			c.state()
		}
		for k := 0; k < 30; k++ {
			if len(c.ag.Queue()) == 0 || c.busyHistoric() >= historicSenders {
				break
			}
			n := len(c.lines)
			c.doPop(B - agentRel)
			c.state()
			if c.lines[n+1] == "< none" {
				break
			}
		}
		if len(c.flights) == 0 && len(c.ag.Queue()) == 0 && len(c.wire) == 0 && len(c.answers) == 0 {
			break
		}
	}
	// final oracle: no flushed second is silently lost; after the fault-free continuation every second that was
	// still held and inside the windows reached storage
	held := c.held()
	for _, s := range c.flushed {
		switch {
		case c.insertedOK[s] > 0:
		case c.excused[s] != "":
		case held[s]:
			c.viol("not-delivered-after-recovery", "second %d is still held by the agent after a fault-free continuation (queue %d, flights %d)", s, len(c.ag.Queue()), len(c.flights))
		default:
			c.viol("silently-lost", "second %d was handed to the send path, is in no successful INSERT, was not rejected or dropped deliberately, and the agent no longer holds it", s)
		}
	}
	if c.nFaults > 0 && c.nHistoricResend > 0 {
		c.lines = append(c.lines, "@nt fault+historic-resend")
	}
}

func runCase(h *verifx.H, seed uint64, i int, nOps int) *caseRun {
	r := verifx.NewRng(seed*0x9E3779B97F4A7C15 + uint64(i)*0xBF58476D1CE4E5B9 + 1)
	now := uint32(time.Now().Unix())
	base := (now/6)*6 + 300 // same residue mod 6 as B: replica and spare choice depend on t%3 and t%2
	dir, err := os.MkdirTemp("", "verif-c01-")
	if err != nil {
		panic(err)
	}
	defer os.RemoveAll(dir)
	c := &caseRun{h: h, r: r, base: base, dir: dir, events: make(chan event, 16), wire: map[int64]*pending{}, wireMeta: map[int64]*flight{},
		answers: map[int64]*ans{}, parkedAt: map[int64]int{}, secOfRid: map[int64]int{}, insertedOK: map[int]int{}, excused: map[int]string{},
		heldPrev: map[int]bool{}, stats: map[string]int64{}}
	c.disk = !r.Chance(1, 5)
	c.longOutage = r.Chance(1, 12)
	if c.longOutage {
		c.disk = true
	}
	c.raceCase = !c.longOutage && r.Chance(1, 8)
	c.save = r.Chance(1, 2)
	c.sw = 3 + r.Intn(3)
	c.cl = &fakeClient{c: c}
	c.ch = newFakeCH(base)
	defer c.ch.srv.Close()
	for k := 0; k < 3; k++ {
		c.aggs[k] = aggregator.VerifC01NewAgg(sh2, int32(k+1), c.sw, strings.TrimPrefix(c.ch.srv.URL, "http://"))
	}
	c.newAgent()
	start := time.Now()
	func() {
		defer func() {
			if p := recover(); p != nil {
				c.obs("panic %v", p)
				c.fatal = fmt.Sprint("panic: ", p)
			}
		}()
		c.run(nOps)
	}()
	c.ag.Close()
	if el := time.Since(start); el > 80*time.Second && c.fatal == "" {
		c.fatal = fmt.Sprintf("case took %v of real time: the agent's wall clock left the range the case was generated for", el)
	}
	return c
}

func main() {
	h := verifx.New()
	log.SetOutput(io.Discard)
	if h.Mode == "gen" {
		gen()
		return
	}
	var err error
	sh2, err = aggregator.VerifC01SharedAgent(window)
	if err != nil {
		fmt.Println("cannot build the aggregators' built-in agent:", err)
		os.Exit(2)
	}
	cc := aggregator.VerifC01GetConsts()
	if cc.FutureWindow != 4 || cc.MaxShortWindow != 5 {
		// the generator's margins are written for these values; the model takes them from SH.Gen.C01
		fmt.Println("# note: window constants changed", cc)
	}
	if h.Mode == "conveyor" {
		conveyor(h)
		return
	}
	if h.Mode == "lz4stat" {
		c := &caseRun{base: 1700000000}
		for tm := 0; tm < 8; tm++ {
			less, eq, more := 0, 0, 0
			for attempt := 0; attempt < 1000; attempt++ {
				cbd := c.candidateKeys(B+attempt%7, attempt, tm)
				switch {
				case cbd.Len() < 4+cbd.RawLen:
					less++
				default:
					buf := make([]byte, lz4.CompressBlockBound(cbd.RawLen))
					if n, _ := lz4.CompressBlockHC(cbd.RawBytes(), buf, 0); n == cbd.RawLen {
						eq++
					} else {
						more++
					}
				}
			}
			fmt.Println("rows", tm+1, "lz4<raw", less, "lz4==raw", eq, "lz4>raw", more)
		}
		return
	}
	if h.Mode == "oversize" {
		oversize(h)
		return
	}
	if h.Mode == "eraser" {
		eraser(h)
		return
	}
	if h.Mode == "wakeup" {
		wakeup(h)
		return
	}
	nOps := 28
	if h.Tier == "thorough" {
		nOps = 40
	}
	workers := 24
	res := make([]*caseRun, h.N)
	var wg sync.WaitGroup
	sem := make(chan struct{}, workers)
	for i := 0; i < h.N; i++ {
		if h.Only >= 0 && i != h.Only {
			continue
		}
		wg.Add(1)
		sem <- struct{}{}
		go func(i int) {
			defer wg.Done()
			defer func() { <-sem }()
			res[i] = runCase(h, h.Seed, i, nOps)
		}(i)
	}
	wg.Wait()
	w := os.Stdout
	fatal := ""
	var buf bytes.Buffer
	for i, c := range res {
		if c == nil {
			continue
		}
		fmt.Fprintf(&buf, "@case %d %d\n", i, h.Seed)
		for _, l := range c.lines {
			buf.WriteString(l)
			buf.WriteByte('\n')
		}
		for k, v := range c.stats {
			h.Stat(k, v)
		}
		h.Stat("cases.disk"+strconv.Itoa(b01(c.disk))+".save"+strconv.Itoa(b01(c.save)), 1)
		h.Stat("faults", int64(c.nFaults))
		h.Stat("historic-requests", int64(c.nHistoricResend))
		if c.fatal != "" && fatal == "" {
			fatal = fmt.Sprintf("case %d: %s", i, c.fatal)
		}
	}
	_, _ = w.Write(buf.Bytes())
	h.Done()
	if fatal != "" {
		fmt.Println("# harness failure:", fatal)
		os.Exit(3)
	}
}

// ---------------------------------------------------------------- -mode=gen: constants as compiled + decision-site facts (syntactic)

func repoDir() string {
	if d := os.Getenv("VERIF_REPO"); d != "" {
		return d
	}
	return "/repo"
}

func render(fset *token.FileSet, n ast.Node) string {
	var b bytes.Buffer
	_ = printer.Fprint(&b, fset, n)
	return strings.Join(strings.Fields(b.String()), " ")
}

func funcDecl(f *ast.File, name string) *ast.FuncDecl {
	for _, d := range f.Decls {
		if fd, ok := d.(*ast.FuncDecl); ok && fd.Name.Name == name {
			return fd
		}
	}
	return nil
}

func callsNamed(fset *token.FileSet, n ast.Node, sel string) (args []string) {
	if n == nil {
		return nil
	}
	ast.Inspect(n, func(x ast.Node) bool {
		if ce, ok := x.(*ast.CallExpr); ok {
			if se, ok := ce.Fun.(*ast.SelectorExpr); ok && se.Sel.Name == sel {
				var as []string
				for _, a := range ce.Args {
					as = append(as, render(fset, a))
				}
				args = append(args, strings.Join(as, ", "))
			}
		}
		return true
	})
	return args
}

func hasCall(fset *token.FileSet, n ast.Node, sel string) bool { return len(callsNamed(fset, n, sel)) != 0 }

func leanStr(s string) string { return strconv.Quote(s) }
func leanList(xs []string) string {
	q := make([]string, len(xs))
	for i, x := range xs {
		q[i] = leanStr(x)
	}
	return "[" + strings.Join(q, ", ") + "]"
}

func gen() {
	fset := token.NewFileSet()
	parse := func(rel string) *ast.File {
		f, err := parser.ParseFile(fset, filepath.Join(repoDir(), rel), nil, 0)
		if err != nil {
			fmt.Println("cannot parse", rel, err)
			os.Exit(2)
		}
		return f
	}
	aggF := parse("internal/aggregator/aggregator.go")
	sendF := parse("internal/agent/agent_shard_send.go")
	cc := aggregator.VerifC01GetConsts()
	lw, ls := agent.VerifC01Liveness()
	fmt.Println("/- GENERATED by verif-c01 -mode=gen from the working tree on every run of bin/check C01. Do not edit. -/")
	fmt.Println("namespace SH.Gen.C01")
	fmt.Println()
	fmt.Printf("def futureWindow : Nat := %d\n", cc.FutureWindow)
	fmt.Printf("def maxShortWindow : Nat := %d\n", cc.MaxShortWindow)
	fmt.Printf("def maxFutureSecondsOnDisk : Nat := %d\n", agent.VerifC01MaxFutureSecondsOnDisk())
	fmt.Printf("def maxHistorySendStreams : Nat := %d\n", cc.MaxHistorySendStreams)
	fmt.Printf("def historyContributorsScale : Nat := %d\n", cc.MaxHistoryInsertContributorsScale)
	fmt.Printf("def historicInserters : Nat := %d\n", cc.HistoricInserters)
	fmt.Printf("def insertHistoricWhen : Nat := %d\n", cc.InsertHistoricWhen)
	fmt.Printf("def startupReads : Nat := %d\n", agent.VerifC01StartupReads())
	fmt.Printf("def livenessWindow : Nat := %d\n", lw)
	fmt.Printf("def livenessSuccesses : Nat := %d\n", ls)
	// aggregator.go: every SetDiscard(...) in goInsert, in source order (stale buckets first, then the insert result)
	fmt.Printf("/-- arguments of every `SetDiscard(` call inside goInsert, source order -/\n")
	fmt.Printf("def insertSetDiscardArgs : List String := %s\n", leanList(callsNamed(fset, funcDecl(aggF, "goInsert"), "SetDiscard")))
	fmt.Printf("/-- arguments of every `SetDiscard(` call inside goTicker (the conveyor-full answer must not set discard) -/\n")
	fmt.Printf("def tickerSetDiscardArgs : List String := %s\n", leanList(callsNamed(fset, funcDecl(aggF, "goTicker"), "SetDiscard")))
	// agent_shard_send.go: goSendRecent `if s.sendRecent(...) { erase } else { put; append }`
	shape := "not-found"
	if fd := funcDecl(sendF, "goSendRecent"); fd != nil {
		ast.Inspect(fd, func(x ast.Node) bool {
			is, ok := x.(*ast.IfStmt)
			if !ok || !hasCall(fset, is.Cond, "sendRecent") {
				return true
			}
			var th, el []string
			for _, name := range []string{"diskCacheEraseWithLog", "diskCachePutWithLog", "appendHistoricBucketsToSend"} {
				if hasCall(fset, is.Body, name) {
					th = append(th, name)
				}
				if is.Else != nil && hasCall(fset, is.Else, name) {
					el = append(el, name)
				}
			}
			shape = "if " + render(fset, is.Cond) + " {" + strings.Join(th, ";") + "} else {" + strings.Join(el, ";") + "}"
			return false
		})
	}
	fmt.Printf("def recentLoopShape : String := %s\n", leanStr(shape))
	// sendRecent: the conditions under which it returns true / false
	var retFalse []string
	var lastRet string
	if fd := funcDecl(sendF, "sendRecent"); fd != nil {
		for _, st := range fd.Body.List {
			if is, ok := st.(*ast.IfStmt); ok {
				ast.Inspect(is.Body, func(x ast.Node) bool {
					if r, ok := x.(*ast.ReturnStmt); ok && len(r.Results) == 1 && render(fset, r.Results[0]) == "false" {
						retFalse = append(retFalse, render(fset, is.Cond))
					}
					return true
				})
			}
			if r, ok := st.(*ast.ReturnStmt); ok && len(r.Results) == 1 {
				lastRet = render(fset, r.Results[0])
			}
		}
	}
	fmt.Printf("/-- top-level `if c { … return false }` conditions of sendRecent, source order, and its final return -/\n")
	fmt.Printf("def sendRecentFalseConds : List String := %s\n", leanList(retFalse))
	fmt.Printf("def sendRecentFinalReturn : String := %s\n", leanStr(lastRet))
	// sendHistoric: erase only after the `!respV3.IsSetDiscard()` guard that continues the loop
	var guards []string
	eraseAfterGuard := false
	if fd := funcDecl(sendF, "sendHistoric"); fd != nil {
		ast.Inspect(fd, func(x ast.Node) bool {
			fs, ok := x.(*ast.ForStmt)
			if !ok {
				return true
			}
			seen := false
			for _, st := range fs.Body.List {
				if is, ok := st.(*ast.IfStmt); ok {
					cont := false
					ast.Inspect(is.Body, func(y ast.Node) bool {
						if b, ok := y.(*ast.BranchStmt); ok && b.Tok == token.CONTINUE {
							cont = true
						}
						return true
					})
					if cont {
						guards = append(guards, render(fset, is.Cond))
						if render(fset, is.Cond) == "!respV3.IsSetDiscard()" {
							seen = true
						}
					}
					continue
				}
				if hasCall(fset, st, "diskCacheEraseWithLog") {
					eraseAfterGuard = seen
				}
			}
			return false
		})
	}
	fmt.Printf("/-- sendHistoric loop: conditions whose body `continue`s (retry), and whether the top-level erase comes after the discard guard -/\n")
	fmt.Printf("def sendHistoricRetryConds : List String := %s\n", leanList(guards))
	fmt.Printf("def sendHistoricEraseAfterDiscardGuard : Bool := %v\n", eraseAfterGuard)
	// which functions wake the consumers of the historic queue (s.cond.Signal / s.cond.Broadcast)
	var sites []string
	for _, d := range sendF.Decls {
		fd, ok := d.(*ast.FuncDecl)
		if !ok || fd.Body == nil {
			continue
		}
		found := false
		ast.Inspect(fd.Body, func(x ast.Node) bool {
			if ce, ok := x.(*ast.CallExpr); ok {
				if r := render(fset, ce.Fun); r == "s.cond.Signal" || r == "s.cond.Broadcast" {
					found = true
				}
			}
			return true
		})
		if found {
			sites = append(sites, fd.Name.Name)
		}
	}
	fmt.Printf("/-- functions of agent_shard_send.go that call s.cond.Signal() / s.cond.Broadcast(), source order -/\n")
	fmt.Printf("def condSignalSites : List String := %s\n", leanList(sites))
	// sampleBucket: is the clamp of the per-second budget to MaxUncompressedBucketSize/2 a statement of the function body
	// itself (it then applies to every budget source: --shard-sample-budget override and the derived budget alike)?
	clampTop := false
	if fd := funcDecl(sendF, "sampleBucket"); fd != nil {
		for _, st := range fd.Body.List {
			if is, ok := st.(*ast.IfStmt); ok && strings.Contains(render(fset, is.Cond), "remainingBudget > data_model.MaxUncompressedBucketSize/2") {
				clampTop = true
			}
		}
	}
	fmt.Printf("/-- sampleBucket clamps remainingBudget to MaxUncompressedBucketSize/2 at the top level of its body (after BOTH budget sources) -/\n")
	fmt.Printf("def sampleBudgetClampTopLevel : Bool := %v\n", clampTop)
	fmt.Printf("def maxUncompressedBucketSize : Nat := %d\n", cc.MaxUncompressedBucketSize)
	// goEraseHistoric: where does the disk usage it compares with the shard's share come from
	usedSrc := "not-found"
	if fd := funcDecl(sendF, "goEraseHistoric"); fd != nil {
		ast.Inspect(fd, func(x ast.Node) bool {
			if as, ok := x.(*ast.AssignStmt); ok && len(as.Lhs) >= 1 && render(fset, as.Lhs[0]) == "diskUsed" && len(as.Rhs) == 1 {
				usedSrc = render(fset, as.Rhs[0])
			}
			return true
		})
	}
	fmt.Printf("/-- goEraseHistoric: the expression assigned to `diskUsed` (compared with MaxHistoricDiskSize / NumShards) -/\n")
	fmt.Printf("def eraserDiskUsedSource : String := %s\n", leanStr(usedSrc))
	// sizes of the seconds the harness generates (stored frame: independent of the timestamp's digits)
	gc := &caseRun{base: 1700000000, stats: map[string]int64{}}
	u0 := gc.mkCbd(B).Len()
	fmt.Printf("/-- bytes of the framed data of a generated second with t %% 3 = 0, and of each further row -/\n")
	fmt.Printf("def secBase : Nat := %d\n", u0)
	fmt.Printf("def secRow : Nat := %d\n", gc.mkCbd(B+1).Len()-u0)
	fmt.Println()
	fmt.Println("end SH.Gen.C01")
}

// ---------------------------------------------------------------- -mode=conveyor: the real goTicker, nobody inserting

// One real aggregator replica runs its real goTicker in real time while no inserter reads bucketsToSend, so every ready
// bucket takes the "insert conveyor is full" branch. A recent request for a current second of this replica must be
// answered WITHOUT discard (the agent keeps the second and resends it as historic). Oracle only (no model op).
func conveyor(h *verifx.H) {
	out := os.Stdout // goTicker prints its "conveyor is full" line with fmt.Printf: keep the protocol stream clean
	if devnull, err := os.OpenFile(os.DevNull, os.O_WRONLY, 0); err == nil {
		os.Stdout = devnull
	}
	for i := 0; i < h.N; i++ {
		fmt.Fprintf(out, "@case %d %d\n", i, h.Seed)
		now := uint32(time.Now().Unix())
		c := &caseRun{base: now, events: make(chan event, 16), stats: map[string]int64{}}
		c.ch = newFakeCH(now)
		r := i % 3
		g := aggregator.VerifC01NewAgg(sh2, int32(r+1), 3, strings.TrimPrefix(c.ch.srv.URL, "http://"))
		g.StartTicker()
		t := now
		for t%3 != uint32(r) {
			t++
		}
		var body []byte
		sink := &sinkClient{got: &body}
		a, err := agent.VerifC01NewAgent("", false, window, sink)
		if err != nil {
			panic(err)
		}
		c.base = t - 0
		cbd := c.mkCbd(B)
		a.RecentOne(context.Background(), cbd)
		parked, imm := g.Handle(1, body[4:])
		fmt.Fprintf(out, "# conveyor: replica %d parked=%v\n", r, parked)
		if !parked {
			an := c.mkAns(1, B, imm)
			fmt.Fprintf(out, "! sig=conveyor-not-parked recent request for a current second was answered at once: %s discard=%v\n", an.why, an.discard)
			g.StopTicker()
			c.ch.srv.Close()
			continue
		}
		deadline := time.Now().Add(60 * time.Second)
		var got []aggregator.VerifC01Answer
		for time.Now().Before(deadline) && len(got) == 0 {
			time.Sleep(100 * time.Millisecond)
			got = g.Answers()
		}
		g.StopTicker()
		switch {
		case len(got) == 0:
			fmt.Fprintf(out, "! sig=conveyor-no-answer goTicker did not answer a parked contributor of a full conveyor within 60 s\n")
		default:
			var resp tlstatshouse.SendSourceBucket3Response
			var dummy tlstatshouse.SendSourceBucket3
			if got[0].Err == nil {
				_, _ = dummy.ReadResultTL1(got[0].Body, &resp)
			}
			if got[0].Err == nil && resp.IsSetDiscard() {
				fmt.Fprintf(out, "! sig=ack-without-insert conveyor-full answer carries discard although nothing was inserted (warning %q)\n", resp.Warning)
			} else {
				fmt.Fprintf(out, "@nt conveyor-full-keep\n")
			}
			if n := len(c.ch.take()); n != 0 {
				fmt.Fprintf(out, "# conveyor: unexpected %d inserts\n", n)
			}
		}
		c.ch.srv.Close()
	}
	os.Stdout = out
	h.Done()
}

// ---------------------------------------------------------------- -mode=wakeup: the real consumers of the historic queue

// ackClient answers every sendSourceBucket3 with discard (an aggregator that inserts everything) and records the seconds.
type ackClient struct {
	fakeClient
	mu  sync.Mutex
	got map[uint32]int
}

func (a *ackClient) Do(ctx context.Context, network string, address string, req *rpc.Request) (*rpc.Response, error) {
	var args tlstatshouse.SendSourceBucket3
	if _, err := args.ReadTL1Boxed(req.Body); err != nil {
		return nil, err
	}
	a.mu.Lock()
	a.got[args.Time]++
	a.mu.Unlock()
	var resp tlstatshouse.SendSourceBucket3Response
	resp.SetDiscard(true)
	body, err := args.WriteResultTL1(nil, resp)
	if err != nil {
		return nil, err
	}
	return &rpc.Response{Body: body}, nil
}
func (a *ackClient) count(t uint32) int {
	a.mu.Lock()
	defer a.mu.Unlock()
	return a.got[t]
}

// Liveness of the wake-up protocol on Shard.cond, in real time with the REAL goSendHistoric / goEraseHistoric goroutines
// and the real flushBuckets clock advance. A second that is still `ahead` seconds in the future is saved by a stopping
// agent (sendToSenders with nobody sending = shutdown flush of the future queue), the agent starts again (real MakeAgent
// reads it back), nothing fails and nothing else is appended. The consumers find the second in the future and wait; they
// must be woken when it stops being in the future and deliver it. Expected about ahead+1 s; budget 40 s.
func wakeup(h *verifx.H) {
	out := os.Stdout
	for i := 0; i < h.N; i++ {
		fmt.Fprintf(out, "@case %d %d\n", i, h.Seed)
		r := verifx.NewRng(h.Seed*7919 + uint64(i))
		ahead := uint32(2 + r.Intn(2))
		senders := 1 + r.Intn(2)
		dir, err := os.MkdirTemp("", "verif-c01w-")
		if err != nil {
			panic(err)
		}
		cl := &ackClient{got: map[uint32]int{}}
		c := &caseRun{stats: map[string]int64{}}
		a1, err := agent.VerifC01NewAgent(dir, false, window, cl)
		if err != nil {
			panic(err)
		}
		sec := uint32(time.Now().Unix()) + ahead
		c.base = sec
		a1.SendToSenders(c.mkCbd(B))
		a1.Close()
		a2, err := agent.VerifC01NewAgent(dir, false, window, cl)
		if err != nil {
			panic(err)
		}
		q := a2.Queue()
		fmt.Fprintf(out, "# wakeup: second now+%d saved at stop, %d queued after restart, %d historic senders + eraser\n", ahead, len(q), senders)
		if len(q) != 1 || q[0].Time != sec {
			fmt.Fprintf(out, "! sig=silently-lost second saved by the stopping agent is not in the historic queue after restart (queue %d)\n", len(q))
			_ = os.RemoveAll(dir)
			continue
		}
		ctx, cancel := context.WithCancel(context.Background())
		start := time.Now()
		a2.StartHistoric(ctx, senders)
		deadline := start.Add(40 * time.Second)
		for time.Now().Before(deadline) && cl.count(sec) == 0 {
			time.Sleep(50 * time.Millisecond)
		}
		if cl.count(sec) == 0 {
			fmt.Fprintf(out, "! sig=historic-sender-never-woken second saved %d s ahead of the clock by the previous run is now %d s in the past, inside the historic window, still queued (%d) and was never sent: no consumer of the historic queue was woken when it stopped being in the future\n",
				ahead, int64(time.Now().Unix())-int64(sec), len(a2.Queue()))
		} else {
			fmt.Fprintf(out, "@nt future-second-delivered\n")
			// the acknowledged second must also leave the disk cache
			time.Sleep(200 * time.Millisecond)
			if ids, _ := a2.Known(); len(ids) != 0 {
				fmt.Fprintf(out, "# wakeup: %d disk records left after acknowledgement\n", len(ids))
			}
		}
		// the context is deliberately NOT cancelled: goEraseHistoric returns from its 60 s select with s.mu unlocked and a
		// deferred Unlock (fatal "unlock of unlocked mutex"); production never cancels cancelSendsCtx either
		_ = cancel
		_ = os.RemoveAll(dir)
	}
	h.Done()
}

// ---------------------------------------------------------------- -mode=oversize: one second with more rows than the aggregator takes

// A shard with an explicit --shard-sample-budget far above the aggregator's limit receives more than MaxUncompressedBucketSize
// of serialized rows in one second. The bucket goes through the REAL preProcess (sampleBucket -> WriteTL1Boxed ->
// CompressAndFrame -> sendToSenders), the real historic sender and the real aggregator handler. Whatever the sampler does
// with the budget, the aggregator must not answer "discard" for it: the agent would erase a second nobody inserted.
func oversize(h *verifx.H) {
	out := os.Stdout
	limit := aggregator.VerifC01GetConsts().MaxUncompressedBucketSize
	for i := 0; i < h.N; i++ {
		fmt.Fprintf(out, "@case %d %d\n", i, h.Seed)
		now := uint32(time.Now().Unix()) + 120 // building the rows takes seconds: keep the second fresh for the recent sender
		var body []byte
		sink := &sinkClient{got: &body}
		a, err := agent.VerifC01NewAgent("", false, window, sink)
		if err != nil {
			panic(err)
		}
		a.SetShardSampleBudget(64 << 20)
		rg := verifx.NewRng(h.Seed*977 + uint64(i))
		bucket := &data_model.MetricsBucket{Time: now}
		rnd := rand.New(rg.U64())
		est := 0
		rows := 0
		for est < limit+limit/4 { // 12.5 MiB by the agent's own size estimate
			key := data_model.Key{Timestamp: now, Metric: int32(1000 + rows%50)}
			for k := 0; k < 16; k++ {
				key.Tags[k] = int32(rg.U64()>>33) | 1
			}
			meta := &format.MetricMetaValue{MetricID: key.Metric, EffectiveResolution: 1, EffectiveWeight: 1}
			item, _ := bucket.GetOrCreateMultiItem(&key, meta, nil)
			item.Tail.AddCounter(rnd, float64(1+rows%7))
			est += item.Key.TLSizeEstimate(now) + item.TLSizeEstimate()
			rows++
		}
		a.PreProcess(bucket, rg.U64())
		cbd, ok := a.PopHistoric(now + 200)
		if !ok {
			fmt.Fprintf(out, "! sig=silently-lost the second of %d rows did not reach the historic queue after preProcess\n", rows)
			continue
		}
		a.RecentOne(context.Background(), cbd) // a recent sender: the sink client records the request and fails the rpc
		ch := newFakeCH(now)
		g := aggregator.VerifC01NewAgg(sh2, int32(now%3)+1, 3, strings.TrimPrefix(ch.srv.URL, "http://"))
		g.Advance(now + 2)
		if len(body) < 4 {
			fmt.Fprintf(out, "! sig=silently-lost the historic sender did not send the second (%d bytes framed)\n", cbd.Len())
			ch.srv.Close()
			continue
		}
		parked, imm := g.Handle(1, body[4:])
		fmt.Fprintf(out, "# oversize: %d rows, agent estimate %d MiB, limit %d MiB, parked=%v\n", rows, est>>20, limit>>20, parked)
		if !parked {
			c := &caseRun{base: now, stats: map[string]int64{}}
			an := c.mkAns(1, B, imm)
			if an.discard {
				fmt.Fprintf(out, "! sig=discard-of-valid-bucket the aggregator answered 'discard' (%s) for a second the agent's own sampleBucket/preProcess produced from %d accepted rows with --shard-sample-budget above the aggregator's %d byte limit: the agent erases a second that was never inserted\n", an.why, rows, limit)
			} else {
				fmt.Fprintf(out, "# oversize: answered at once without discard (%s)\n", an.why)
			}
		} else {
			fmt.Fprintf(out, "@nt oversize-second-accepted\n")
		}
		ch.srv.Close()
	}
	h.Done()
}

// ---------------------------------------------------------------- -mode=eraser: the real fail-safe eraser on several shards

// An agent with 3..5 shards during an aggregator outage. Shards 0 and 2 hold one unacknowledged second each, 60% of a
// shard's share of the disk limit; shard 1 holds two (120% of its share). The agent as a whole is under its limit. The REAL
// goEraseHistoric of shard 1 must erase that shard's oldest second (deliberate loss: disk limit of the shard reached); the
// REAL goEraseHistoric of shard 0 must leave its second on disk and put it back into the historic queue: a second erased by
// the eraser while its shard is under its own share is lost outside the deliberate-loss set.
func eraser(h *verifx.H) {
	out := os.Stdout
	for i := 0; i < h.N; i++ {
		fmt.Fprintf(out, "@case %d %d\n", i, h.Seed)
		rg := verifx.NewRng(h.Seed*131 + uint64(i))
		nShards := 3 + rg.Intn(3)
		share := int64(64<<10) << uint(rg.Intn(3))
		dir, err := os.MkdirTemp("", "verif-c01e-")
		if err != nil {
			panic(err)
		}
		var body []byte
		m, err := agent.VerifC01NewMulti(dir, nShards, share*int64(nShards), &sinkClient{got: &body})
		if err != nil {
			panic(err)
		}
		now := uint32(time.Now().Unix())
		blob := rg.Bytes(int(share * 6 / 10))
		id0 := m.Save(0, now-30, blob)
		id1a := m.Save(1, now-40, blob)
		id1b := m.Save(1, now-35, blob)
		id2 := m.Save(2, now-30, blob)
		u0, sh, sum := m.Usage(0)
		u1, _, _ := m.Usage(1)
		fmt.Fprintf(out, "# eraser: %d shards, share %d KiB, shard0 %d%%, shard1 %d%%, all shards %d%% of one share (%d%% of the whole limit)\n",
			nShards, sh>>10, u0*100/sh, u1*100/sh, sum*100/sh, sum*100/(sh*int64(nShards)))
		if id0 == 0 || id1a == 0 || id1b == 0 || id2 == 0 || u0 > sh || u1 <= sh || sum > sh*int64(nShards) {
			fmt.Fprintf(out, "# eraser: scenario not established, skipped\n")
			m.Close()
			_ = os.RemoveAll(dir)
			continue
		}
		// shard 1 first: shows that the eraser runs and does erase when the shard IS over its share
		m.StartEraser(1)
		deadline := time.Now().Add(20 * time.Second)
		for time.Now().Before(deadline) && m.OnDisk(1, id1a) {
			time.Sleep(20 * time.Millisecond)
		}
		if m.OnDisk(1, id1a) {
			fmt.Fprintf(out, "# eraser: shard over its share was not trimmed within 20 s (eraser did not run?)\n")
		}
		m.StartEraser(0)
		time.Sleep(1500 * time.Millisecond) // one pass takes microseconds: pop, window check, disk check, push back
		switch {
		case !m.OnDisk(0, id0):
			fmt.Fprintf(out, "! sig=silently-lost the fail-safe eraser deleted the unacknowledged second of shard 0 from disk although that shard uses %d of its %d bytes (all %d shards together: %d of %d): not a deliberate disk-limit drop\n",
				u0, sh, nShards, sum, sh*int64(nShards))
		case m.Queue(0) != 1:
			fmt.Fprintf(out, "! sig=forgot-without-ack after the eraser pass the unacknowledged second of shard 0 is on disk but no longer in the historic queue (%d entries)\n", m.Queue(0))
		default:
			fmt.Fprintf(out, "@nt eraser-kept-under-share\n")
		}
		m.Close()
		_ = os.RemoveAll(dir)
	}
	h.Done()
}

// sinkClient records the request bytes a real sender writes and fails the rpc.
type sinkClient struct {
	fakeClient
	got *[]byte
}

func (s *sinkClient) Do(ctx context.Context, network string, address string, req *rpc.Request) (*rpc.Response, error) {
	*s.got = append([]byte(nil), req.Body...)
	return nil, errConn
}
