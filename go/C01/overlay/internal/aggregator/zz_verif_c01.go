//go:build verif

package aggregator

// Thin accessors for the C01 harness. No delivery logic lives here. VerifC01Agg holds a REAL *Aggregator (the struct
// literal fields MakeAggregator fills for the handler and the inserter) and calls the repo's own
// handleSendSourceBucket3 (TL decode + decompress + handleSendSourceBucket), advanceRecentBuckets and goInsert.
// Requests enter through the rpc package's mock seam (HandlerContext.ResetTo + HandlerContextConnection);
// long-poll answers leave through the same seam (FinishLongpoll / SendResponse) and are handed to the harness.

import (
	"context"
	"fmt"
	"net"
	"sort"
	"sync"
	"time"

	"github.com/VKCOM/tl/pkg/rpc"

	"github.com/VKCOM/statshouse/internal/agent"
	"github.com/VKCOM/statshouse/internal/data_model"
	"github.com/VKCOM/statshouse/internal/data_model/gen2/tlstatshouse"
	"github.com/VKCOM/statshouse/internal/format"
	"github.com/VKCOM/statshouse/internal/metajournal"
	"github.com/VKCOM/statshouse/internal/vkgo/semaphore"
)

// VerifC01Answer is one answer the aggregator produced for request Rid.
type VerifC01Answer struct {
	Rid      int64
	Body     []byte // statshouse.sendSourceBucket3 result bytes as written by the real code
	Err      error  // error passed to SendLongpollResponse / returned by the handler
	Longpoll bool   // produced through FinishLongpoll (after parking)
}

type verifC01Conn struct {
	mu      sync.Mutex
	parked  map[int64]rpc.LongpollCanceller
	started map[int64]bool
	answers []VerifC01Answer
}

func (c *verifC01Conn) StartLongpoll(hctx *rpc.HandlerContext, canceller rpc.LongpollCanceller) (rpc.LongpollHandle, error) {
	c.mu.Lock()
	defer c.mu.Unlock()
	c.parked[hctx.QueryID()] = canceller
	c.started[hctx.QueryID()] = true
	return rpc.LongpollHandle{QueryID: hctx.QueryID(), CommonConn: c}, nil
}
func (c *verifC01Conn) CancelLongpoll(queryID int64) (rpc.LongpollCanceller, int64) {
	c.mu.Lock()
	defer c.mu.Unlock()
	cc := c.parked[queryID]
	delete(c.parked, queryID)
	return cc, 0
}
func (c *verifC01Conn) FinishLongpoll(lh rpc.LongpollHandle) (*rpc.HandlerContext, error) {
	c.mu.Lock()
	defer c.mu.Unlock()
	if _, ok := c.parked[lh.QueryID]; !ok {
		return nil, nil
	}
	delete(c.parked, lh.QueryID)
	hctx := &rpc.HandlerContext{}
	hctx.ResetTo(c, lh.QueryID)
	return hctx, nil
}
func (c *verifC01Conn) SendResponse(hctx *rpc.HandlerContext, err error) {
	c.mu.Lock()
	defer c.mu.Unlock()
	c.answers = append(c.answers, VerifC01Answer{Rid: hctx.QueryID(), Body: append([]byte(nil), hctx.Response...), Err: err, Longpoll: true})
}
func (c *verifC01Conn) DebugName() string                                 { return "verif-c01" }
func (c *verifC01Conn) SendEmptyResponse(lh rpc.LongpollHandle)           {}
func (c *verifC01Conn) AccountResponseMem(*rpc.HandlerContext, int) error { return nil }
func (c *verifC01Conn) ListenAddr() net.Addr                              { return &net.TCPAddr{IP: net.IPv4(127, 0, 0, 1), Port: 1} }
func (c *verifC01Conn) LocalAddr() net.Addr                               { return &net.TCPAddr{IP: net.IPv4(127, 0, 0, 1), Port: 1} }
func (c *verifC01Conn) RemoteAddr() net.Addr                              { return &net.TCPAddr{IP: net.IPv4(127, 0, 0, 2), Port: 2} }
func (c *verifC01Conn) KeyID() [4]byte                                    { return [4]byte{} }
func (c *verifC01Conn) ProtocolVersion() uint32                           { return 0 }
func (c *verifC01Conn) ProtocolTransportID() byte                         { return 0 }
func (c *verifC01Conn) ConnectionID() uintptr                             { return 0 }

type VerifC01Agg struct {
	a    *Aggregator
	conn *verifC01Conn
}

// VerifC01SharedAgent: the built-in agent (sh2) the aggregators report their own metrics into. Real, never Run.
func VerifC01SharedAgent(historicWindow uint32) (*agent.Agent, error) {
	config := DefaultConfigAggregator()
	agentConfig := agent.DefaultConfig()
	agentConfig.Cluster = config.Cluster
	getConfigResult := tlstatshouse.GetConfigResult3{
		Addresses:          []string{"127.0.0.1:1", "127.0.0.1:2", "127.0.0.1:3"},
		ShardByMetricCount: 1,
	}
	sh2, err := agent.MakeAgent("tcp4", "", "", nil, agentConfig, "verif-agg-host",
		format.TagValueIDComponentAggregator, nil, nil,
		func() (int64, string) { return 0, "" }, func() (int64, string) { return 0, "" },
		func(string, ...interface{}) {}, nil, &getConfigResult, nil)
	if err != nil {
		return nil, err
	}
	agent.VerifC01SetHistoricWindow(sh2, historicWindow)
	return sh2, nil
}

// VerifC01NewAgg builds replica replicaKey (1..3) of shard 1 with an empty recent window; khAddr is the (fake)
// ClickHouse HTTP endpoint every insert of the real sendToClickhouse goes to.
func VerifC01NewAgg(sh2 *agent.Agent, replicaKey int32, shortWindow int, khAddr string) *VerifC01Agg {
	config := DefaultConfigAggregator()
	config.RemoteInitial.ShortWindow = shortWindow
	config.RemoteInitial.DenyOldAgents = false
	config.KHAddr = khAddr
	a := &Aggregator{
		bucketsToSend:     make(chan *aggregatorBucket),
		hostBudgetCache:   map[data_model.TagUnion][]tlstatshouse.MetricBudget{},
		historicBuckets:   map[uint32]*aggregatorBucket{},
		historicHosts:     [2][2]map[data_model.TagUnion]int64{{map[data_model.TagUnion]int64{}, map[data_model.TagUnion]int64{}}, {map[data_model.TagUnion]int64{}, map[data_model.TagUnion]int64{}}},
		config:            config,
		configR:           config.RemoteInitial,
		shardKey:          1,
		replicaKey:        replicaKey,
		orgMetricSize:     data_model.NewExpDecayMetrics(config.RemoteInitial.OriginalSizeDecayHalfLife),
		mappingsStorage:   metajournal.MakeMappings(context.Background(), time.Second, false, 16, []*data_model.ChunkedStorage2{nil}),
		metricStorage:     metajournal.MakeMetricsStorage(nil),
		aggregatorHostTag: data_model.TagUnion{S: "verif-agg-host"},
		sh2:               sh2,
	}
	a.tagsMapper3 = NewTagsMapper3(a, sh2, a.metricStorage, nil)
	a.estimator.Init()
	return &VerifC01Agg{a: a, conn: &verifC01Conn{parked: map[int64]rpc.LongpollCanceller{}, started: map[int64]bool{}}}
}

// Handle runs the real handleSendSourceBucket3 on the request bytes an agent wrote (TL body after the function tag).
// parked == true: the handler started a long poll; the answer arrives later through Answers().
func (v *VerifC01Agg) Handle(rid int64, request []byte) (parked bool, immediate VerifC01Answer) {
	hctx := &rpc.HandlerContext{}
	hctx.ResetTo(v.conn, rid)
	hctx.Request = request
	err := v.a.handleSendSourceBucket3(context.Background(), hctx)
	v.conn.mu.Lock()
	parked = v.conn.started[rid]
	delete(v.conn.started, rid)
	v.conn.mu.Unlock()
	if parked {
		return true, VerifC01Answer{}
	}
	return false, VerifC01Answer{Rid: rid, Body: append([]byte(nil), hctx.Response...), Err: err}
}

// Where tells in which bucket request rid is parked: ("recent"|"historic"|"none", bucket time).
func (v *VerifC01Agg) Where(rid int64) (string, uint32) {
	v.conn.mu.Lock()
	c := v.conn.parked[rid]
	v.conn.mu.Unlock()
	b, ok := c.(*aggregatorBucket)
	if !ok || b == nil {
		return "none", 0
	}
	v.a.mu.Lock()
	defer v.a.mu.Unlock()
	for _, rb := range v.a.recentBuckets {
		if rb == b {
			return "recent", b.time
		}
	}
	for _, hb := range v.a.historicBuckets {
		if hb == b {
			return "historic", b.time
		}
	}
	return "gone", b.time
}

// Answers drains the long-poll answers produced so far (order of production).
func (v *VerifC01Agg) Answers() []VerifC01Answer {
	v.conn.mu.Lock()
	defer v.conn.mu.Unlock()
	r := v.conn.answers
	v.conn.answers = nil
	return r
}

// Cancel is what the rpc server does when the client connection of a parked request goes away.
func (v *VerifC01Agg) Cancel(rid int64) {
	if c, _ := v.conn.CancelLongpoll(rid); c != nil {
		c.CancelLongpoll(rpc.LongpollHandle{QueryID: rid, CommonConn: v.conn})
	}
}

// Advance = the real advanceRecentBuckets(now); returns the buckets goTicker would now hand to the inserters.
func (v *VerifC01Agg) Advance(now uint32) []*VerifC01Ready {
	var res []*VerifC01Ready
	for _, b := range v.a.advanceRecentBuckets(time.Unix(int64(now), 0), false) {
		res = append(res, &VerifC01Ready{b: b, Time: b.time, Ours: b.time%3 == uint32(v.a.replicaKey-1), Contributors: len(b.contributors3)})
	}
	return res
}

type VerifC01Ready struct {
	b            *aggregatorBucket
	Time         uint32
	Ours         bool
	Contributors int
}

// Insert runs the real goInsert for exactly one ready bucket (a closed channel holding it), synchronously.
func (v *VerifC01Agg) Insert(r *VerifC01Ready) {
	ch := make(chan *aggregatorBucket, 1)
	ch <- r.b
	close(ch)
	sema := semaphore.NewWeighted(1)
	_ = sema.Acquire(context.Background(), 1)
	v.a.goInsert(sema, context.Background(), ch, 0)
}

// InsertBegin starts the real goInsert for one ready bucket and returns once it has taken its oldestTime snapshot (the
// recentSenders/historicSenders counter goes up in the same critical section) and is parked at `aggBucket.mu.Lock()`,
// which the caller holds on its behalf: the inserter is "slow" between its snapshot and its pop of historic buckets.
func (v *VerifC01Agg) InsertBegin(r *VerifC01Ready) (resume func(), err error) {
	r.b.mu.Lock()
	done := make(chan struct{})
	go func() {
		v.Insert(r)
		close(done)
	}()
	deadline := time.Now().Add(30 * time.Second)
	for {
		v.a.mu.Lock()
		busy := v.a.recentSenders + v.a.historicSenders
		v.a.mu.Unlock()
		if busy > 0 {
			break
		}
		if time.Now().After(deadline) {
			r.b.mu.Unlock()
			<-done
			return nil, fmt.Errorf("goInsert did not take its snapshot within 30 s")
		}
		time.Sleep(time.Millisecond)
	}
	return func() {
		r.b.mu.Unlock()
		<-done
	}, nil
}

func (v *VerifC01Agg) Window() (times []uint32) {
	v.a.mu.Lock()
	defer v.a.mu.Unlock()
	for _, b := range v.a.recentBuckets {
		times = append(times, b.time)
	}
	return times
}

func (v *VerifC01Agg) HistoricKeys() (keys []uint32) {
	v.a.mu.Lock()
	defer v.a.mu.Unlock()
	for k := range v.a.historicBuckets {
		keys = append(keys, k)
	}
	sort.Slice(keys, func(i, j int) bool { return keys[i] < keys[j] })
	return keys
}

// Shutdown = the real DisableNewInsert (handler hijacks every later request and never answers).
func (v *VerifC01Agg) Shutdown() { v.a.DisableNewInsert() }

// ---- real-time scenario: the real goTicker with nobody reading bucketsToSend (conveyor full)

func (v *VerifC01Agg) StartTicker() {
	_ = v.a.advanceRecentBuckets(time.Now(), true)
	go v.a.goTicker()
}
func (v *VerifC01Agg) StopTicker() {
	v.a.mu.Lock()
	v.a.bucketsToSend = nil
	v.a.mu.Unlock()
}

type VerifC01Consts struct {
	MaxUncompressedBucketSize                                                            int
	MaxShortWindow, FutureWindow, MaxHistorySendStreams, MaxHistoryInsertContributorsScale int
	HistoricInserters, InsertHistoricWhen                                                int
}

func VerifC01GetConsts() VerifC01Consts {
	c := DefaultConfigAggregator()
	return VerifC01Consts{data_model.MaxUncompressedBucketSize, data_model.MaxShortWindow, data_model.FutureWindow, data_model.MaxHistorySendStreams, data_model.MaxHistoryInsertContributorsScale, c.HistoricInserters, c.InsertHistoricWhen}
}
