//go:build verif

package agent

// Thin accessors for the C01 harness. The agent is built by the REAL MakeAgent (so the disk cache is opened and
// the first 2*MaxConveyorDelay seconds are read back exactly as at process start); its goroutines are never
// started. Each accessor forwards to one unexported method of Shard. The only replaced part is the transport:
// every ShardReplica gets an rpc.Client (interface) supplied by the harness.

import (
	"context"
	"fmt"
	"encoding/binary"
	"os"
	"sort"
	"sync"
	"time"

	"github.com/VKCOM/tl/pkg/rpc"
	"pgregory.net/rand"

	"github.com/VKCOM/statshouse/internal/compress"
	"github.com/VKCOM/statshouse/internal/data_model"
	"github.com/VKCOM/statshouse/internal/data_model/gen2/tlstatshouse"
	"github.com/VKCOM/statshouse/internal/format"
	"github.com/VKCOM/statshouse/internal/pcache"
	"github.com/VKCOM/statshouse/internal/vkgo/semaphore"
)

func VerifC01SetHistoricWindow(s *Agent, w uint32) { s.historicWindow.Store(w) }

type VerifC01Agent struct {
	A     *Agent
	shard *Shard
	padMu sync.Mutex
	pads  [][]byte
}

type VerifC01Cbd struct {
	ID      int64
	Time    uint32
	HasData bool
	RawLen  int // size of the serialized bucket before framing (0 when unknown)
	data    []byte
}

func fromCbd(c compressedBucketData) VerifC01Cbd {
	return VerifC01Cbd{ID: c.id, Time: c.time, HasData: len(c.data) != 0, data: c.data}
}
func (c VerifC01Cbd) cbd() compressedBucketData {
	return compressedBucketData{id: c.ID, time: c.Time, data: c.data}
}

// VerifC01NewAgent: cacheDir == "" means no disk cache. client is used for all three replicas of shard 1
// (the address tells the replicas apart: "r0", "r1", "r2").
func VerifC01NewAgent(cacheDir string, saveImmediately bool, historicWindow uint32, client rpc.Client) (*VerifC01Agent, error) {
	config := DefaultConfig()
	config.SaveSecondsImmediately = saveImmediately
	config.HistoricWindow = uint(historicWindow)
	getConfigResult := tlstatshouse.GetConfigResult3{
		Addresses:          []string{"r0", "r1", "r2"},
		ShardByMetricCount: 1,
	}
	a, err := MakeAgent("tcp4", cacheDir, "", nil, config, "verif-agent",
		format.TagValueIDComponentAgent, nil, pcache.NewMappingsCache(data_model.NewChunkedStorageNop(), 1024*1024, 86400),
		func() (int64, string) { return 0, "" }, func() (int64, string) { return 0, "" },
		func(string, ...interface{}) {}, nil, &getConfigResult, nil)
	if err != nil {
		return nil, err
	}
	for _, sr := range a.ShardReplicas {
		sr.mu.Lock()
		sr.clientField.Client = client
		sr.mu.Unlock()
	}
	sh := a.Shards[0]
	sh.timeSpreadDelta = 0
	return &VerifC01Agent{A: a, shard: sh}, nil
}

// Close releases the disk cache lock (what process exit does).
func (v *VerifC01Agent) Close() {
	if v.A.diskBucketCache != nil {
		_ = v.A.diskBucketCache.Close()
	}
}

// MakeCbd frames a serialized SourceBucket3 the way preProcess does.
func VerifC01MakeCbd(t uint32, sb *tlstatshouse.SourceBucket3) VerifC01Cbd {
	raw := sb.WriteTL1Boxed(nil)
	// exactly what preProcess does: the real compress.CompressAndFrame decides between the lz4 and the stored form
	return VerifC01Cbd{Time: t, HasData: true, data: compress.CompressAndFrame(raw), RawLen: len(raw)}
}

// SendToSenders = real sendToSenders (nobody reads BucketsToSend here, so this is its "channel full" path).
func (v *VerifC01Agent) SendToSenders(c VerifC01Cbd) { v.shard.sendToSenders(c.cbd()) }

// RecentOne runs the real goSendRecent loop for exactly one bucket (closed channel holding it); blocks like the
// real sender while the rpc is in flight.
func (v *VerifC01Agent) RecentOne(ctx context.Context, c VerifC01Cbd) {
	ch := make(chan compressedBucketData, 1)
	ch <- c.cbd()
	close(ch)
	var wg sync.WaitGroup
	wg.Add(1)
	sema := semaphore.NewWeighted(1)
	_ = sema.Acquire(context.Background(), 1)
	v.shard.goSendRecent(0, &wg, sema, ctx, ch)
}

// PopHistoric = real popOldestHistoricSecondLocked(nowUnix) under the shard mutex (first statement of the
// goSendHistoric / goEraseHistoric loops).
func (v *VerifC01Agent) PopHistoric(nowUnix uint32) (VerifC01Cbd, bool) {
	v.shard.mu.Lock()
	defer v.shard.mu.Unlock()
	c, ok := v.shard.popOldestHistoricSecondLocked(nowUnix)
	return fromCbd(c), ok
}

// HistoricOne = real sendHistoric for a popped second (the rest of the goSendHistoric loop body). As in goSendHistoric,
// a sender keeps ONE scratch pad for every second it reads from disk: the pads of finished senders are reused (LIFO).
func (v *VerifC01Agent) HistoricOne(ctx context.Context, c VerifC01Cbd) {
	v.padMu.Lock()
	var scratch []byte
	if n := len(v.pads); n != 0 {
		scratch = v.pads[n-1]
		v.pads = v.pads[:n-1]
	}
	v.padMu.Unlock()
	v.shard.sendHistoric(ctx, c.cbd(), &scratch)
	v.padMu.Lock()
	v.pads = append(v.pads, scratch)
	v.padMu.Unlock()
}

// CheckOutOfWindow = real checkOutOfWindow with an explicit clock.
func (v *VerifC01Agent) CheckOutOfWindow(nowUnix uint32, c VerifC01Cbd, historicWindow uint32) bool {
	return v.shard.checkOutOfWindow(nowUnix, c.cbd(), historicWindow)
}

// AppendHistoric = real appendHistoricBucketsToSend (what goEraseHistoric does with a second it keeps).
func (v *VerifC01Agent) AppendHistoric(c VerifC01Cbd) { v.shard.appendHistoricBucketsToSend(c.cbd()) }

// AddHistoricDataSize adds delta to historicBucketsDataSize: the harness's "ballast" that stands for other queued data
// (the limit is a 50 MiB constant; real ballast would cost 50 MiB per case). The harness accounts for it exactly.
func (v *VerifC01Agent) AddHistoricDataSize(delta int) {
	v.shard.mu.Lock()
	defer v.shard.mu.Unlock()
	v.shard.historicBucketsDataSize += delta
	v.A.historicBucketsDataSize.Add(int64(delta))
}

// HistoricDataSize = the counter appendHistoricBucketsToSend compares with the limit.
func (v *VerifC01Agent) HistoricDataSize() int {
	v.shard.mu.Lock()
	defer v.shard.mu.Unlock()
	return v.shard.historicBucketsDataSize
}

// QueueDataBytes = what the queue really holds.
func (v *VerifC01Agent) QueueDataBytes() int {
	v.shard.mu.Lock()
	defer v.shard.mu.Unlock()
	n := 0
	for _, c := range v.shard.historicBucketsToSend {
		n += len(c.data)
	}
	return n
}

func (v *VerifC01Agent) MemLimit() int { return data_model.MaxHistoricBucketsMemorySize / v.A.NumShards() }

// SetDiskOk(false) = MaxHistoricDiskSize set to 0 at run time (remote config): diskCachePutWithLog stops writing.
func (v *VerifC01Agent) SetDiskOk(ok bool) {
	v.shard.mu.Lock()
	defer v.shard.mu.Unlock()
	if ok {
		v.shard.config.MaxHistoricDiskSize = DefaultConfig().MaxHistoricDiskSize
	} else {
		v.shard.config.MaxHistoricDiskSize = 0
	}
}

func (c VerifC01Cbd) Len() int { return len(c.data) }

// RawBytes: the serialized bucket when the frame is in the stored form (Len() == 4+RawLen).
func (c VerifC01Cbd) RawBytes() []byte { return c.data[4:] }

// StartHistoric starts the REAL consumers of the historic queue (goSendHistoric x n, goEraseHistoric) and a flusher
// that calls the real flushBuckets(time.Now()) every 100 ms as goFlusher does; flushed (empty) buckets are drained.
func (v *VerifC01Agent) StartHistoric(ctx context.Context, senders int) {
	var wg sync.WaitGroup
	wg.Add(senders + 1)
	for i := 0; i < senders; i++ {
		go v.shard.goSendHistoric(&wg, ctx)
	}
	go v.shard.goEraseHistoric(&wg, ctx)
	go func() {
		for {
			select {
			case <-v.shard.BucketsToPreprocess:
			case <-ctx.Done():
				return
			}
		}
	}()
	go func() {
		for {
			select {
			case <-ctx.Done():
				return
			case <-time.After(100 * time.Millisecond):
			}
			v.shard.flushBuckets(time.Now())
		}
	}()
}

func (v *VerifC01Agent) SetAlive(replica int, alive bool) { v.A.ShardReplicas[replica].alive.Store(alive) }
func (v *VerifC01Agent) Alive(replica int) bool           { return v.A.ShardReplicas[replica].alive.Load() }

// Queue = historicBucketsToSend sorted by (time, id).
func (v *VerifC01Agent) Queue() []VerifC01Cbd {
	v.shard.mu.Lock()
	defer v.shard.mu.Unlock()
	var r []VerifC01Cbd
	for _, c := range v.shard.historicBucketsToSend {
		r = append(r, fromCbd(c))
	}
	sort.Slice(r, func(i, j int) bool {
		if r[i].Time != r[j].Time {
			return r[i].Time < r[j].Time
		}
		return r[i].ID < r[j].ID
	})
	return r
}

// Known = knownBuckets of the disk cache shard: (id, time) sorted by id. nil without disk cache.
func (v *VerifC01Agent) Known() (ids []int64, times []uint32) {
	if v.A.diskBucketCache == nil {
		return nil, nil
	}
	d := v.A.diskBucketCache.shards[0]
	d.mu.Lock()
	defer d.mu.Unlock()
	for id := range d.knownBuckets {
		ids = append(ids, id)
	}
	sort.Slice(ids, func(i, j int) bool { return ids[i] < ids[j] })
	for _, id := range ids {
		times = append(times, d.knownBuckets[id].time)
	}
	return ids, times
}

// Unread = seconds of live records the disk cache has not handed out yet (rest of the tail file being read + the waiting
// tail files), found by the oracle's own walk over the record headers (magic, time, body size, crc).
func (v *VerifC01Agent) Unread() (times []uint32) {
	if v.A.diskBucketCache == nil {
		return nil
	}
	d := v.A.diskBucketCache.shards[0]
	d.mu.Lock()
	defer d.mu.Unlock()
	scan := func(name string, from int64) {
		b, err := os.ReadFile(name)
		if err != nil {
			return
		}
		for pos := from; pos+headerSize <= int64(len(b)); {
			magic := binary.LittleEndian.Uint32(b[pos:])
			size := int64(binary.LittleEndian.Uint64(b[pos+8:]))
			if size < 0 || pos+headerSize+size > int64(len(b)) || (magic != magicGoodBucket && magic != magicDeletedBucket && magic != magicDeletedTorn) {
				return
			}
			if magic == magicGoodBucket {
				times = append(times, binary.LittleEndian.Uint32(b[pos+4:]))
			}
			pos += headerSize + size
		}
	}
	if d.readingFileTail != nil {
		scan(d.readingFileTail.name, d.readingFileTail.nextPos)
	}
	for _, w := range d.waitingFilesTail {
		scan(w.name, 0)
	}
	return times
}

// SetShardSampleBudget = `--shard-sample-budget <shard>:<bytes>` for this shard.
func (v *VerifC01Agent) SetShardSampleBudget(bytes int) {
	v.shard.mu.Lock()
	defer v.shard.mu.Unlock()
	v.shard.config.ShardSampleBudget = map[int]int{int(v.shard.ShardKey): bytes}
}

// PreProcess = the real Shard.preProcess: sampleBucket, WriteTL1Boxed, CompressAndFrame, sendToSenders.
func (v *VerifC01Agent) PreProcess(bucket *data_model.MetricsBucket, seed uint64) {
	v.shard.preProcess(bucket, nil, map[int32]uint32{}, map[int32]uint32{}, rand.New(seed))
}

// ---- the fail-safe eraser (goEraseHistoric) on an agent with several shards

type VerifC01Multi struct{ A *Agent }

// VerifC01NewMulti: real MakeAgent with nShards shards and a disk cache; every shard's config gets maxDisk as
// MaxHistoricDiskSize (the limit for ALL shards together; goEraseHistoric compares a shard's usage with maxDisk/nShards).
func VerifC01NewMulti(cacheDir string, nShards int, maxDisk int64, client rpc.Client) (*VerifC01Multi, error) {
	config := DefaultConfig()
	config.MaxHistoricDiskSize = maxDisk
	var addrs []string
	for i := 0; i < nShards*3; i++ {
		addrs = append(addrs, fmt.Sprintf("r%d", i))
	}
	getConfigResult := tlstatshouse.GetConfigResult3{Addresses: addrs, ShardByMetricCount: uint32(nShards)}
	a, err := MakeAgent("tcp4", cacheDir, "", nil, config, "verif-agent",
		format.TagValueIDComponentAgent, nil, pcache.NewMappingsCache(data_model.NewChunkedStorageNop(), 1024*1024, 86400),
		func() (int64, string) { return 0, "" }, func() (int64, string) { return 0, "" },
		func(string, ...interface{}) {}, nil, &getConfigResult, nil)
	if err != nil {
		return nil, err
	}
	for _, sr := range a.ShardReplicas {
		sr.mu.Lock()
		sr.clientField.Client = client
		sr.mu.Unlock()
	}
	return &VerifC01Multi{A: a}, nil
}

// Save = what a failed send does with a second of shard `shard`: real diskCachePutWithLog + appendHistoricBucketsToSend.
func (m *VerifC01Multi) Save(shard int, t uint32, body []byte) (id int64) {
	s := m.A.Shards[shard]
	cbd := s.diskCachePutWithLog(compressedBucketData{time: t, data: body})
	s.appendHistoricBucketsToSend(cbd)
	return cbd.id
}

// StartEraser starts the REAL goEraseHistoric of one shard. It is never cancelled (it would return with its mutex
// unlocked and a deferred Unlock); after one pass it sits in its 60 s wait.
func (m *VerifC01Multi) StartEraser(shard int) {
	var wg sync.WaitGroup
	wg.Add(1)
	go m.A.Shards[shard].goEraseHistoric(&wg, context.Background())
}

// OnDisk: is the record still known to the disk cache of the shard; Queue: length of the shard's historic queue;
// Usage: the shard's own disk usage and its share of the limit, as goEraseHistoric is documented to compare them.
func (m *VerifC01Multi) OnDisk(shard int, id int64) bool {
	d := m.A.diskBucketCache.shards[shard]
	d.mu.Lock()
	defer d.mu.Unlock()
	_, ok := d.knownBuckets[id]
	return ok
}
func (m *VerifC01Multi) Queue(shard int) int {
	s := m.A.Shards[shard]
	s.mu.Lock()
	defer s.mu.Unlock()
	return len(s.historicBucketsToSend)
}
func (m *VerifC01Multi) Usage(shard int) (used int64, share int64, sum int64) {
	used, _ = m.A.diskBucketCache.TotalFileSize(shard)
	for i := range m.A.Shards {
		t, _ := m.A.diskBucketCache.TotalFileSize(i)
		sum += t
	}
	s := m.A.Shards[shard]
	s.mu.Lock()
	defer s.mu.Unlock()
	return used, s.config.MaxHistoricDiskSize / int64(m.A.NumShards()), sum
}
func (m *VerifC01Multi) Close() { _ = m.A.diskBucketCache.Close() }

func (v *VerifC01Agent) OutOfWindowDropped() int64 { return v.shard.HistoricOutOfWindowDropped.Load() }

func VerifC01StartupReads() int { return data_model.MaxConveyorDelay * 2 }
func VerifC01MaxFutureSecondsOnDisk() uint32 { return data_model.MaxFutureSecondsOnDisk }

func VerifC01Liveness() (window int, successes int) {
	c := DefaultConfig()
	return c.LivenessResponsesWindowLength, c.LivenessResponsesWindowSuccesses
}
