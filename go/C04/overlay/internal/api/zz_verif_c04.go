//go:build verif

package api

import (
	"bytes"

	"github.com/VKCOM/statshouse/internal/data_model"
)

// Thin accessors for the C04 harness: build a tsValues row, call the real (unexported) tsValues.merge, read it back.

type VerifC04Row struct {
	Min, Max, Sum, Count, SumSquare, Cardinality float64
	MergeCount                                   int
	MinHostArg, MaxHostArg                       int32
	MinHostVal, MaxHostVal                       float32
	MinHostStr, MaxHostStr                       string
	MinHostStrInt, MaxHostStrInt                 int32
	MinHostStrVal, MaxHostStrVal                 float32
}

type VerifC04Ts struct{ v tsValues }

// VerifC04NewTs builds a row the way the API loader does: numeric columns plus a sketch read with ChUnique.ReadFrom.
func VerifC04NewTs(r VerifC04Row, uniqueWire []byte) (*VerifC04Ts, error) {
	t := &VerifC04Ts{}
	t.v.min, t.v.max, t.v.sum, t.v.count, t.v.sumsquare, t.v.cardinality = r.Min, r.Max, r.Sum, r.Count, r.SumSquare, r.Cardinality
	t.v.minHost.Arg, t.v.minHost.Val = r.MinHostArg, r.MinHostVal
	t.v.maxHost.Arg, t.v.maxHost.Val = r.MaxHostArg, r.MaxHostVal
	t.v.minHostStr.AsString, t.v.minHostStr.AsInt32, t.v.minHostStr.Val = r.MinHostStr, r.MinHostStrInt, r.MinHostStrVal
	t.v.maxHostStr.AsString, t.v.maxHostStr.AsInt32, t.v.maxHostStr.Val = r.MaxHostStr, r.MaxHostStrInt, r.MaxHostStrVal
	if err := t.v.unique.ReadFrom(bytes.NewBuffer(uniqueWire)); err != nil {
		return nil, err
	}
	return t, nil
}

// VerifC04Merge calls the real tsValues.merge(rhs).
func (t *VerifC04Ts) VerifC04Merge(rhs *VerifC04Ts) { t.v.merge(rhs.v) }

// VerifC04Copy copies the row the way the API does (struct copy; merge makes its own deep copy on first use).
func (t *VerifC04Ts) VerifC04Copy() *VerifC04Ts { c := *t; return &c }

func (t *VerifC04Ts) VerifC04Row() VerifC04Row {
	return VerifC04Row{Min: t.v.min, Max: t.v.max, Sum: t.v.sum, Count: t.v.count, SumSquare: t.v.sumsquare, Cardinality: t.v.cardinality,
		MergeCount: t.v.mergeCount,
		MinHostArg: t.v.minHost.Arg, MinHostVal: t.v.minHost.Val, MaxHostArg: t.v.maxHost.Arg, MaxHostVal: t.v.maxHost.Val,
		MinHostStr: t.v.minHostStr.AsString, MinHostStrInt: t.v.minHostStr.AsInt32, MinHostStrVal: t.v.minHostStr.Val,
		MaxHostStr: t.v.maxHostStr.AsString, MaxHostStrInt: t.v.maxHostStr.AsInt32, MaxHostStrVal: t.v.maxHostStr.Val}
}

func (t *VerifC04Ts) VerifC04Unique() *data_model.ChUnique { return &t.v.unique }
