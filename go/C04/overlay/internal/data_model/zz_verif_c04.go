//go:build verif

package data_model

import "sort"

// Thin accessors for the C04 harness (unexported fields / functions of ChUnique and ItemValue). No logic under test is copied.

// VerifC04InsertHash calls the real insertHash (Insert without uintHash32), allocating like Insert does.
func VerifC04InsertHash(ch *ChUnique, x uint32) {
	if ch.buf == nil {
		ch.Reset()
	}
	ch.insertHash(x)
}

func VerifC04Hash(x uint64) uint32 { var ch ChUnique; return ch.uintHash32(x) }

// VerifC04Clone deep-copies a sketch (Merge takes rhs by value but shares buf).
func VerifC04Clone(ch *ChUnique) ChUnique {
	c := *ch
	if ch.buf != nil {
		c.buf = append(make([]uint32, 0, len(ch.buf)), ch.buf...)
	}
	return c
}

type VerifC04Sketch struct {
	Nil        bool
	SkipDegree uint32
	SizeDegree uint32
	ItemsCount int32
	HasZero    bool
	Items      []uint32 // non-zero slots, ascending
	BufOrder   []uint32 // non-zero slots in table order
}

func VerifC04Dump(ch *ChUnique, withOrder bool) VerifC04Sketch {
	d := VerifC04Sketch{Nil: ch.buf == nil, SkipDegree: ch.skipDegree, SizeDegree: ch.sizeDegree, ItemsCount: ch.itemsCount, HasZero: ch.hasZeroItem}
	for _, x := range ch.buf {
		if x != 0 {
			d.Items = append(d.Items, x)
		}
	}
	if withOrder {
		d.BufOrder = append([]uint32(nil), d.Items...)
	}
	sort.Slice(d.Items, func(i, j int) bool { return d.Items[i] < d.Items[j] })
	return d
}

const (
	VerifC04MaxSizeDegree  = uniquesHashMaxSizeDegree
	VerifC04MaxSize        = uniquesHashMaxSize
	VerifC04InitSizeDegree = uniquesHashSetInitialSizeDegree
	VerifC04BitsForSkip    = uniquesHashBitsForSkip
)

// VerifC04SetCounter sets the unexported counter of an ItemValue (used to build arbitrary leaf contributions).
func VerifC04SetCounter(v *ItemValue, c float64) { v.counter = c }

// VerifC04Buf returns a copy of the table (all 2^sizeDegree slots, 0 = empty).
func VerifC04Buf(ch *ChUnique) []uint32 {
	if ch.buf == nil {
		return nil
	}
	return append([]uint32(nil), ch.buf[:ch.bufSize()]...)
}

// VerifC04Unreachable runs the REAL insertImpl for every stored value on a deep copy: a value that is stored but not
// found by the probe (insertImpl stores it again and increments itemsCount) is returned with ok=false.
// It also reports whether itemsCount equals the number of occupied slots (+1 for the zero item).
func VerifC04Unreachable(ch *ChUnique) (x uint32, reachable bool, countOK bool) {
	if ch.buf == nil {
		return 0, true, ch.itemsCount == 0
	}
	occupied := int32(0)
	for _, v := range ch.buf[:ch.bufSize()] {
		if v != 0 {
			occupied++
		}
	}
	if ch.hasZeroItem {
		occupied++
	}
	countOK = occupied == ch.itemsCount
	c := VerifC04Clone(ch)
	for _, v := range ch.buf[:ch.bufSize()] {
		if v == 0 {
			continue
		}
		before := c.itemsCount
		c.insertImpl(v)
		if c.itemsCount != before {
			return v, false, countOK
		}
	}
	return 0, true, countOK
}
