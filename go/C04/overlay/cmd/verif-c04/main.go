//go:build verif

// verif-c04: correspondence + direct oracle for C04 (aggregation does not depend on merge order or grouping).
//
// A case generates a multiset of contributions (leaves), then evaluates several merge programs over them on the REAL
// code (ItemValue/MultiValue.Merge, ChUnique.Merge/MergeRead, tsValues.merge): the given order, random permutations
// and random binary trees. Every call is one op of the line protocol, replayed by the Lean model (drv_c04).
// The direct oracle compares the results of the programs with each other and with an independent recomputation,
// and checks that the reported hosts are contributors.
//
// Numbers stay in the exact domain of float64: integer values, counters that are multiples of 1/4 (printed ×4).
package main

import (
	"bytes"
	"encoding/binary"
	"fmt"
	"math"
	"os"
	"sort"
	"time"

	"github.com/VKCOM/statshouse/internal/api"
	dm "github.com/VKCOM/statshouse/internal/data_model"
	"github.com/VKCOM/statshouse/internal/verifx"
	"pgregory.net/rand"
)

const nM = 16
const nT = 8

type mach struct {
	h   *verifx.H
	rng *rand.Rand
	m   [nM]dm.MultiValue
	t   [nT]*api.VerifC04Ts
}

func tag(id int) dm.TagUnion {
	if id == 0 {
		return dm.TagUnion{}
	}
	if id%2 == 1 {
		return dm.TagUnion{I: int32(id)}
	}
	return dm.TagUnion{S: fmt.Sprintf("h%d", id)}
}

func hostID(t dm.TagUnion) int {
	if t.I != 0 && t.S == "" {
		return int(t.I)
	}
	if t.I == 0 && t.S == "" {
		return 0
	}
	var id int
	if _, err := fmt.Sscanf(t.S, "h%d", &id); err == nil && t.I == 0 {
		return id
	}
	return -1
}

// q4 prints x*4 as an exact integer ("inexact:<x>" if it is not one: the generator left the exact domain)
func q4(x float64) string { return exact(x * 4) }
func exact(x float64) string {
	if x != math.Trunc(x) || math.Abs(x) > 1<<52 {
		return fmt.Sprintf("inexact:%v", x)
	}
	return fmt.Sprintf("%d", int64(x))
}

func showV(v *dm.ItemValue) string {
	set := 0
	if v.ValueSet {
		set = 1
	}
	return fmt.Sprintf("V cnt=%s ch=%d set=%d min=%s max=%s sum=%s sq=%s minh=%d maxh=%d", q4(v.Count()), hostID(v.MaxCounterHostTag), set,
		exact(v.ValueMin), exact(v.ValueMax), q4(v.ValueSum), q4(v.ValueSumSquare), hostID(v.MinHostTag), hostID(v.MaxHostTag))
}

func b01(b bool) int {
	if b {
		return 1
	}
	return 0
}

func showU(ch *dm.ChUnique) string {
	d := dm.VerifC04Dump(ch, false)
	var sum, x uint64
	for _, it := range d.Items {
		sum += uint64(it)
		x ^= uint64(it)
	}
	s := fmt.Sprintf("U nil=%d k=%d sd=%d n=%d z=%d stored=%d sum=%d xor=%d", b01(d.Nil), d.SkipDegree, d.SizeDegree, d.ItemsCount, b01(d.HasZero), len(d.Items), sum, x)
	if len(d.Items) <= 40 {
		s += " items=" + verifx.List(d.Items)
	}
	return s
}

// showB prints the real table: slot-by-slot layout digest, and whether every stored value is found by the real probe
// (direct oracle: a stranded value is a violation whatever the model says)
func (x *mach) showB(ch *dm.ChUnique) string {
	d := dm.VerifC04Dump(ch, false)
	buf := dm.VerifC04Buf(ch)
	var pos uint64
	for i, v := range buf {
		pos += uint64(i+1) * uint64(v)
	}
	lost, reachable, countOK := dm.VerifC04Unreachable(ch)
	if !reachable {
		x.h.Viol("unique-item-unreachable", "value %d is stored in the table but not reachable from its home slot (skip=%d sizeDegree=%d items=%d): the next insert of it is counted twice", lost, d.SkipDegree, d.SizeDegree, d.ItemsCount)
	}
	if !countOK {
		x.h.Viol("unique-count-mismatch", "itemsCount=%d differs from the number of occupied slots (skip=%d sizeDegree=%d)", d.ItemsCount, d.SkipDegree, d.SizeDegree)
	}
	s := fmt.Sprintf("B nil=%d k=%d sd=%d n=%d z=%d slots=%d wf=%d pos=%d", b01(d.Nil), d.SkipDegree, d.SizeDegree, d.ItemsCount, b01(d.HasZero), len(buf), b01(reachable && countOK), pos)
	if len(buf) <= 64 {
		s += " buf=" + verifx.List(buf)
	}
	return s
}

// guard runs one op on the real code, turning a panic into "< panic"
func (x *mach) guard(f func()) {
	// watchdog: an op on the real code that does not return (e.g. a probe spinning in a table without a free slot) is a
	// violation with this case as replay, not a hung check. Ops take milliseconds; 120 s is far beyond 10x the slowest.
	wd := time.AfterFunc(120*time.Second, func() {
		x.h.Obs("hang")
		x.h.Viol("op-hang", "an operation on the real code did not return within 120 s (the last '>' line above)")
		x.h.Flush()
		os.Exit(0)
	})
	defer wd.Stop()
	defer func() {
		if r := recover(); r != nil {
			x.h.Obs("panic")
			x.h.Viol("panic", "%v", r)
		}
	}()
	f()
}

// predictDraw: the value rng.Uint64n(weight+otherWeight) WOULD return if the real code draws now (computed on a copy of the rng)
func (x *mach) predictDraw(sCount, oCount float64) (uint64, rand.Rand) {
	clone := *x.rng
	if sCount <= 0 || oCount <= 0 {
		return 0, clone
	}
	total := dm.CounterHostDistribution(sCount) + dm.CounterHostDistribution(oCount)
	d := clone.Uint64n(total)
	return d, clone
}

func (x *mach) drewObs(before, cloneAfter rand.Rand) {
	drew := *x.rng != before
	if drew && *x.rng != cloneAfter {
		panic("harness: the real code consumed the rng differently from one Uint64n(totalWeight) call")
	}
	x.h.Obs("drew=%d", b01(drew))
}

func (x *mach) opNew(r int) {
	x.h.Op("m new %d", r)
	x.m[r] = dm.MultiValue{}
}

func (x *mach) opCopy(r1, r2 int) {
	x.h.Op("m copy %d %d", r1, r2)
	x.m[r1] = dm.MultiValue{Value: x.m[r2].Value, HLL: dm.VerifC04Clone(&x.m[r2].HLL)}
}

func (x *mach) opCnt(r int, c4 int, host int) {
	x.h.Op("m cnt %d %d %d", r, c4, host)
	x.guard(func() {
		x.m[r].Value = dm.SimpleItemCounter(float64(c4)/4, tag(host))
		x.h.Obs("%s", showV(&x.m[r].Value))
	})
}

func (x *mach) opVal(r int, v int, c4 int, host int) {
	x.h.Op("m val %d %d %d %d", r, v, c4, host)
	x.guard(func() {
		x.m[r].Value = dm.SimpleItemValue(float64(v), float64(c4)/4, tag(host))
		x.h.Obs("%s", showV(&x.m[r].Value))
	})
}

type rawLeaf struct {
	cnt4, ch, set, vmin, vmax, sum4, sq4, minh, maxh int
}

func (x *mach) opRaw(r int, l rawLeaf) {
	x.h.Op("m raw %d %d %d %d %d %d %d %d %d %d", r, l.cnt4, l.ch, l.set, l.vmin, l.vmax, l.sum4, l.sq4, l.minh, l.maxh)
	x.guard(func() {
		v := dm.ItemValue{}
		dm.VerifC04SetCounter(&v, float64(l.cnt4)/4)
		v.MaxCounterHostTag = tag(l.ch)
		v.ValueSet = l.set == 1
		v.ValueMin, v.ValueMax = float64(l.vmin), float64(l.vmax)
		v.ValueSum, v.ValueSumSquare = float64(l.sum4)/4, float64(l.sq4)/4
		v.MinHostTag, v.MaxHostTag = tag(l.minh), tag(l.maxh)
		x.m[r].Value = v
		x.h.Obs("%s", showV(&x.m[r].Value))
	})
}

func (x *mach) opAddC(r int, c4 int, host int) {
	d, clone := x.predictDraw(x.m[r].Value.Count(), float64(c4)/4)
	x.h.Op("m addc %d %d %d %d", r, d, c4, host)
	x.guard(func() {
		before := *x.rng
		x.m[r].AddCounterHost(x.rng, float64(c4)/4, tag(host))
		x.drewObs(before, clone)
		x.h.Obs("%s", showV(&x.m[r].Value))
	})
}

func (x *mach) opAddV(r int, v int, c4 int, host int) {
	d, clone := x.predictDraw(x.m[r].Value.Count(), float64(c4)/4)
	x.h.Op("m addv %d %d %d %d %d", r, d, v, c4, host)
	x.guard(func() {
		before := *x.rng
		x.m[r].AddValueCounterHost(x.rng, float64(v), float64(c4)/4, tag(host))
		x.drewObs(before, clone)
		x.h.Obs("%s", showV(&x.m[r].Value))
	})
}

// opUniq: the event-level entry MultiValue.ApplyUnique(rng, hashes, count, host)
func (x *mach) opUniq(r int, hashes []int64, c4 int, host int) {
	d, clone := x.predictDraw(x.m[r].Value.Count(), float64(c4)/4)
	x.h.Op("m uniq %d %d %d %d %s", r, d, c4, host, verifx.List(hashes))
	x.guard(func() {
		before := *x.rng
		x.m[r].ApplyUnique(x.rng, hashes, float64(c4)/4, tag(host))
		x.drewObs(before, clone)
		x.h.Obs("%s", showV(&x.m[r].Value))
		x.h.Obs("%s", showU(&x.m[r].HLL))
		x.h.Obs("%s", x.showB(&x.m[r].HLL))
	})
}

// opVals: the event-level entries MultiValue.ApplyValues / ApplyValuesLegacy (hasPercentiles=false)
func (x *mach) opVals(r int, legacy bool, vals []int, hv []int, hc []int, c4 int, total4 int, host int) {
	d, clone := x.predictDraw(x.m[r].Value.Count(), float64(c4)/4)
	if total4 <= 0 {
		d = 0
	}
	x.h.Op("m vals %d %d %d %d %d %d %s %s %s", r, d, b01(legacy), c4, total4, host, verifx.List(vals), verifx.List(hv), verifx.List(scale4(hc)))
	x.guard(func() {
		before := *x.rng
		fv := make([]float64, len(vals))
		for i, v := range vals {
			fv[i] = float64(v)
		}
		hist := make([][2]float64, len(hv))
		for i := range hv {
			hist[i] = [2]float64{float64(hv[i]), float64(hc[i])}
		}
		if legacy {
			x.m[r].ApplyValuesLegacy(x.rng, hist, fv, float64(c4)/4, float64(total4)/4, tag(host), 0, false)
		} else {
			x.m[r].ApplyValues(x.rng, hist, fv, float64(c4)/4, float64(total4)/4, tag(host), 0, false)
		}
		x.drewObs(before, clone)
		x.h.Obs("%s", showV(&x.m[r].Value))
	})
}

func scale4(xs []int) []int {
	ys := make([]int, len(xs))
	for i, v := range xs {
		ys[i] = 4 * v
	}
	return ys
}

// event: one agent-side contribution applied through the glue (AddCounterHost, AddValueCounterHost, ApplyValues,
// ApplyValuesLegacy, ApplyUnique). expect* is the independent singleton view of the same event.
type event struct {
	kind   string // addc addv vals valsl uniq
	v      int
	c4     int
	host   int
	vals   []int
	hv, hc []int
	total4 int
	hashes []int64
}

type evAgg struct {
	cnt4, sum4, sq4 int64
	set             bool
	vmin, vmax      int64
}

func (a *evAgg) value(v int64) {
	if !a.set || v < a.vmin {
		a.vmin = v
	}
	if !a.set || v > a.vmax {
		a.vmax = v
	}
	a.set = true
}

func (a *evAgg) add(e event) {
	switch e.kind {
	case "addc":
		if e.c4 > 0 {
			a.cnt4 += int64(e.c4)
		}
	case "addv":
		if e.c4 > 0 {
			a.cnt4 += int64(e.c4)
		}
		a.sum4 += int64(e.v) * int64(e.c4)
		a.sq4 += int64(e.v) * int64(e.v) * int64(e.c4)
		a.value(int64(e.v))
	case "vals", "valsl":
		if e.total4 <= 0 {
			return
		}
		if e.c4 > 0 {
			a.cnt4 += int64(e.c4)
		}
		var s4, q4 int64
		for _, v := range e.vals {
			s4 += 4 * int64(v)
			q4 += 4 * int64(v) * int64(v)
			a.value(int64(v))
		}
		for i, v := range e.hv {
			s4 += 4 * int64(e.hc[i]) * int64(v)
			q4 += 4 * int64(e.hc[i]) * int64(v) * int64(v)
			a.value(int64(v))
		}
		if e.c4 != e.total4 {
			s4 = s4 * int64(e.c4) / int64(e.total4)
			q4 = q4 * int64(e.c4) / int64(e.total4)
		}
		a.sum4 += s4
		a.sq4 += q4
	case "uniq":
		if e.c4 > 0 {
			a.cnt4 += int64(e.c4)
		}
		var s4, q4 int64
		for _, v := range e.hashes {
			s4 += 4 * v
			q4 += 4 * v * v
			a.value(v)
		}
		n4 := int64(4 * len(e.hashes))
		if int64(e.c4) != n4 {
			s4 = s4 * int64(e.c4) / n4
			q4 = q4 * int64(e.c4) / n4
		}
		a.sum4 += s4
		a.sq4 += q4
	}
}

func (x *mach) apply(reg int, e event) {
	switch e.kind {
	case "addc":
		x.opAddC(reg, e.c4, e.host)
	case "addv":
		x.opAddV(reg, e.v, e.c4, e.host)
	case "vals":
		x.opVals(reg, false, e.vals, e.hv, e.hc, e.c4, e.total4, e.host)
	case "valsl":
		x.opVals(reg, true, e.vals, e.hv, e.hc, e.c4, e.total4, e.host)
	case "uniq":
		x.opUniq(reg, e.hashes, e.c4, e.host)
	}
}

func genEvent(r *verifx.Rng) event {
	e := event{host: pickHost(r)}
	switch r.Pick(3, 3, 3, 2, 2) {
	case 0:
		e.kind, e.c4 = "addc", pickCnt4(r)
		if e.c4 == 0 {
			e.c4 = 4
		}
	case 1:
		e.kind, e.v, e.c4 = "addv", pickVal(r), pickCnt4(r)
	case 2, 3:
		e.kind = "vals"
		if r.Chance(1, 3) {
			e.kind = "valsl"
		}
		t := 0
		for i, n := 0, r.Range(0, 3); i < n; i++ {
			e.vals = append(e.vals, pickVal(r))
			t++
		}
		for i, n := 0, r.Range(0, 2); i < n || t == 0; i++ {
			cc := r.Range(1, 3)
			e.hv = append(e.hv, pickVal(r))
			e.hc = append(e.hc, cc)
			t += cc
		}
		e.total4 = 4 * t
		e.c4 = e.total4
		if (t == 1 || t == 2 || t == 4) && r.Chance(1, 2) {
			e.c4 = 4 * r.Range(1, 20) // count differs from totalCount: sums are rescaled (exact for 1, 2, 4)
		}
	default:
		e.kind = "uniq"
		n := r.Range(1, 5)
		for i := 0; i < n; i++ {
			e.hashes = append(e.hashes, int64(r.Range(-30, 30)))
		}
		e.c4 = 4 * n
		if (n == 1 || n == 2 || n == 4) && r.Chance(1, 2) {
			e.c4 = 4 * r.Range(1, 20)
		}
	}
	return e
}

// eventStream: a leaf built from agent-side events. Direct oracle: (1) the aggregate equals the sum of the singleton
// contributions, (2) the same events applied in another order give the same count/min/max/sum/sumsq and unique estimate.
func (x *mach) eventStream(r *verifx.Rng, reg int) {
	h := x.h
	n := r.Range(2, 5)
	evs := make([]event, n)
	var exp evAgg
	counterFirst := false
	for i := range evs {
		evs[i] = genEvent(r)
		if i == 0 && evs[i].kind == "addc" {
			counterFirst = true
		}
		exp.add(evs[i])
		h.Stat("event."+evs[i].kind, 1)
	}
	for _, e := range evs {
		x.apply(reg, e)
	}
	got := leafInfo(&x.m[reg].Value)
	if got.cnt4 != exp.cnt4 {
		h.Viol("event-count-mismatch", "events %v: count*4=%d, the contributions sum to %d", kinds(evs), got.cnt4, exp.cnt4)
	}
	if got.set != exp.set || (exp.set && (got.vmin != exp.vmin || got.vmax != exp.vmax || got.sum4 != exp.sum4 || got.sq4 != exp.sq4)) {
		h.Viol("event-value-mismatch", "events %v: set=%v min=%d max=%d sum*4=%d sumsq*4=%d, singleton contributions give set=%v %d %d %d %d", kinds(evs), got.set, got.vmin, got.vmax, got.sum4, got.sq4, exp.set, exp.vmin, exp.vmax, exp.sum4, exp.sq4)
	}
	// another order on a scratch register
	p := perm(r, n)
	x.opNew(15)
	for _, k := range p {
		x.apply(15, evs[k])
	}
	o := leafInfo(&x.m[15].Value)
	if o.cnt4 != got.cnt4 || o.set != got.set || (got.set && (o.vmin != got.vmin || o.vmax != got.vmax || o.sum4 != got.sum4 || o.sq4 != got.sq4)) {
		h.Viol("event-order-dependent", "events %v applied in order %v: count*4=%d min=%d max=%d sum*4=%d sumsq*4=%d, in the given order %d %d %d %d %d", kinds(evs), p, o.cnt4, o.vmin, o.vmax, o.sum4, o.sq4, got.cnt4, got.vmin, got.vmax, got.sum4, got.sq4)
	}
	if x.m[15].HLL.Size(false) != x.m[reg].HLL.Size(false) {
		h.Viol("unique-merge-order", "events %v: unique estimate %d in order %v, %d in the given order", kinds(evs), x.m[15].HLL.Size(false), p, x.m[reg].HLL.Size(false))
	}
	if counterFirst {
		h.NonTrivial("counter-before-first-value")
		h.Stat("event.stream_counter_first", 1)
	}
}

func kinds(evs []event) []string {
	ks := make([]string, len(evs))
	for i, e := range evs {
		ks[i] = e.kind
	}
	return ks
}

// opLoad: r.HLL = UmMarshall(image) for a crafted, well-formed image: skipDegree k and distinct values divisible by 2^k
func (x *mach) opLoad(r int, k int, items []uint32) {
	x.h.Op("m load %d %d %s", r, k, verifx.List(items))
	x.guard(func() {
		blob := []byte{byte(k)}
		blob = binary.AppendUvarint(blob, uint64(len(items)))
		for _, it := range items {
			blob = binary.LittleEndian.AppendUint32(blob, it)
		}
		var c dm.ChUnique
		if err := c.UmMarshall(bytes.NewBuffer(blob)); err != nil {
			x.h.Obs("err")
			return
		}
		x.m[r] = dm.MultiValue{HLL: c}
		x.h.Obs("%s", showU(&x.m[r].HLL))
		x.h.Obs("%s", x.showB(&x.m[r].HLL))
	})
}

// caseWrap: small tables (16 slots) whose collision chains wrap around the end of the table, then a thinning step (a
// contribution with a higher skipDegree arrives through Merge / MergeRead) that drops some of the chain, then a contribution
// that carries surviving hashes again — merged in several groupings. Oracle: the same estimate for every grouping, and
// (showB) every stored value stays reachable.
func (x *mach) caseWrap(r *verifx.Rng) {
	h := x.h
	bits := uint(dm.VerifC04BitsForSkip)
	mk := func(home int, minDeg int) uint32 {
		t := minDeg + r.Intn(3)
		low := uint32(2*r.Intn(500)+1) << uint(t)
		return uint32(home)<<bits | low
	}
	seen := map[uint32]bool{}
	fresh := func(home, minDeg int) uint32 {
		for {
			v := mk(home, minDeg)
			if !seen[v] {
				seen[v] = true
				return v
			}
		}
	}
	endHome := func() int {
		if r.Chance(3, 4) {
			return 15 - r.Intn(2)
		}
		return r.Intn(16)
	}
	var a, b, c []uint32
	wrapped := 0
	for i, n := 0, r.Range(2, 6); i < n; i++ {
		hm := endHome()
		if hm == 15 {
			wrapped++
		}
		a = append(a, fresh(hm, 0))
	}
	kB := r.Range(1, 2)
	for i, n := 0, r.Range(1, 3); i < n; i++ {
		b = append(b, fresh(r.Intn(16), kB))
	}
	for i, n := 0, r.Range(1, 3); i < n; i++ {
		if r.Chance(2, 3) {
			v := a[r.Intn(len(a))]
			dup := false
			for _, w := range c {
				dup = dup || w == v
			}
			if !dup {
				c = append(c, v)
				continue
			}
		}
		c = append(c, fresh(endHome(), 0))
	}
	x.opLoad(0, 0, a)
	x.opLoad(1, kB, b)
	x.opLoad(2, 0, c)
	type res struct {
		prog string
		est  uint64
		n    int32
	}
	run := func(kind string, t *tree) res {
		x.evalM(t, 8, kind)
		d := dm.VerifC04Dump(&x.m[8].HLL, false)
		return res{kind + t.String(), x.m[8].HLL.Size(false), d.ItemsCount}
	}
	l := func(i int) *tree { return &tree{leaf: i} }
	n2 := func(p, q *tree) *tree { return &tree{leaf: -1, l: p, r: q} }
	progs := []res{
		run("umerge", n2(n2(l(0), l(1)), l(2))),
		run("umerge", n2(n2(l(2), l(1)), l(0))),
		run("umerge", n2(l(0), n2(l(1), l(2)))),
		run("mread", n2(n2(l(0), l(1)), l(2))),
		run("mread", n2(n2(l(2), l(1)), l(0))),
	}
	for _, p := range progs[1:] {
		if p.est != progs[0].est {
			h.Viol("unique-merge-order", "wrapped chain + thinning: estimate %d (items=%d) for %s but %d (items=%d) for %s", p.est, p.n, p.prog, progs[0].est, progs[0].n, progs[0].prog)
			break
		}
	}
	h.Stat("wrap.cases", 1)
	if wrapped >= 2 {
		h.NonTrivial("chain-wraps-past-last-slot")
		h.Stat("wrap.chain_through_last_slot", 1)
	}
}

func (x *mach) opIns(r int, val uint64) {
	x.h.Op("m ins %d %d", r, val)
	x.guard(func() {
		x.m[r].HLL.Insert(val)
		x.h.Obs("%s", showU(&x.m[r].HLL))
		x.h.Obs("%s", x.showB(&x.m[r].HLL))
	})
}

func (x *mach) opInsH(r int, hash uint32) {
	x.h.Op("m insh %d %d", r, hash)
	x.guard(func() {
		dm.VerifC04InsertHash(&x.m[r].HLL, hash)
		x.h.Obs("%s", showU(&x.m[r].HLL))
		x.h.Obs("%s", x.showB(&x.m[r].HLL))
	})
}

func (x *mach) opSeq(r int, base, stride uint32, n int) {
	x.h.Op("m seq %d %d %d %d", r, base, stride, n)
	x.guard(func() {
		for i := 0; i < n; i++ {
			dm.VerifC04InsertHash(&x.m[r].HLL, (base+uint32(i)*stride)*2654435761) // well spread 32-bit values (arithmetic sequences would pile up in one table slot)
		}
		x.h.Obs("%s", showU(&x.m[r].HLL))
		x.h.Obs("%s", x.showB(&x.m[r].HLL))
	})
}

func (x *mach) opMerge(r1, r2 int) {
	d, clone := x.predictDraw(x.m[r1].Value.Count(), x.m[r2].Value.Count())
	x.h.Op("m merge %d %d %d", r1, r2, d)
	x.guard(func() {
		before := *x.rng
		x.m[r1].Merge(x.rng, &x.m[r2])
		x.drewObs(before, clone)
		x.h.Obs("%s", showV(&x.m[r1].Value))
		x.h.Obs("%s", showU(&x.m[r1].HLL))
		x.h.Obs("%s", x.showB(&x.m[r1].HLL))
	})
}

func (x *mach) opUMerge(r1, r2 int) {
	x.h.Op("m umerge %d %d", r1, r2)
	x.guard(func() {
		x.m[r1].HLL.Merge(x.m[r2].HLL)
		x.h.Obs("%s", showU(&x.m[r1].HLL))
		x.h.Obs("%s", x.showB(&x.m[r1].HLL))
	})
}

func (x *mach) opMRead(r1, r2 int) {
	x.h.Op("m mread %d %d", r1, r2)
	x.guard(func() {
		wire := x.m[r2].HLL.MarshallAppend(nil)
		if err := x.m[r1].HLL.MergeRead(bytes.NewBuffer(wire)); err != nil {
			x.h.Obs("err")
			return
		}
		x.h.Obs("%s", showU(&x.m[r1].HLL))
		x.h.Obs("%s", x.showB(&x.m[r1].HLL))
	})
}

func (x *mach) opUm(r1, r2 int) {
	x.h.Op("m um %d %d", r1, r2)
	x.guard(func() {
		wire := x.m[r2].HLL.MarshallAppend(nil)
		var c dm.ChUnique
		if err := c.UmMarshall(bytes.NewBuffer(wire)); err != nil {
			x.h.Obs("err")
			return
		}
		x.m[r1].HLL = c
		x.h.Obs("%s", showU(&x.m[r1].HLL))
		x.h.Obs("%s", x.showB(&x.m[r1].HLL))
	})
}

// ---------------------------------------------------------------- API rows

type tsLeaf struct {
	min, max, sum, count, sq, card           int
	mina, minv, maxa, maxv                   int
	smina, sminv, smaxa, smaxv               int
	reg                                      int
}

func strHost(id int) (string, int32) {
	if id == 0 {
		return "", 0
	}
	if id%2 == 1 {
		return "", int32(id)
	}
	return fmt.Sprintf("h%d", id), 0
}

func strHostID(s string, i int32) int {
	if s == "" {
		return int(i)
	}
	var id int
	if _, err := fmt.Sscanf(s, "h%d", &id); err == nil && i == 0 {
		return id
	}
	return -1
}

func showT(t *api.VerifC04Ts) string {
	r := t.VerifC04Row()
	return fmt.Sprintf("T min=%s max=%s sum=%s count=%s sq=%s card=%s mc=%d minh=%d:%s maxh=%d:%s sminh=%d:%s smaxh=%d:%s",
		exact(r.Min), exact(r.Max), exact(r.Sum), exact(r.Count), exact(r.SumSquare), exact(r.Cardinality), r.MergeCount,
		r.MinHostArg, exact(float64(r.MinHostVal)), r.MaxHostArg, exact(float64(r.MaxHostVal)),
		strHostID(r.MinHostStr, r.MinHostStrInt), exact(float64(r.MinHostStrVal)), strHostID(r.MaxHostStr, r.MaxHostStrInt), exact(float64(r.MaxHostStrVal)))
}

func (x *mach) opTsSet(t int, l tsLeaf) {
	x.h.Op("ts set %d %d %d %d %d %d %d %d %d %d %d %d %d %d %d %d", t, l.reg, l.min, l.max, l.sum, l.count, l.sq, l.card,
		l.mina, l.minv, l.maxa, l.maxv, l.smina, l.sminv, l.smaxa, l.smaxv)
	x.guard(func() {
		row := api.VerifC04Row{Min: float64(l.min), Max: float64(l.max), Sum: float64(l.sum), Count: float64(l.count), SumSquare: float64(l.sq), Cardinality: float64(l.card),
			MinHostArg: int32(l.mina), MinHostVal: float32(l.minv), MaxHostArg: int32(l.maxa), MaxHostVal: float32(l.maxv),
			MinHostStrVal: float32(l.sminv), MaxHostStrVal: float32(l.smaxv)}
		row.MinHostStr, row.MinHostStrInt = strHost(l.smina)
		row.MaxHostStr, row.MaxHostStrInt = strHost(l.smaxa)
		ts, err := api.VerifC04NewTs(row, x.m[l.reg].HLL.MarshallAppend(nil))
		if err != nil {
			x.h.Obs("err")
			return
		}
		x.t[t] = ts
		x.h.Obs("%s", showT(ts))
		x.h.Obs("%s", showU(ts.VerifC04Unique()))
		x.h.Obs("%s", x.showB(ts.VerifC04Unique()))
	})
}

func (x *mach) opTsCopy(t1, t2 int) {
	x.h.Op("ts copy %d %d", t1, t2)
	x.t[t1] = x.t[t2].VerifC04Copy()
}

func (x *mach) opTsMerge(t1, t2 int) {
	x.h.Op("ts merge %d %d", t1, t2)
	x.guard(func() {
		x.t[t1].VerifC04Merge(x.t[t2])
		x.h.Obs("%s", showT(x.t[t1]))
		x.h.Obs("%s", showU(x.t[t1].VerifC04Unique()))
		x.h.Obs("%s", x.showB(x.t[t1].VerifC04Unique()))
	})
}

// ---------------------------------------------------------------- merge programs

type tree struct {
	leaf int
	l, r *tree
}

func randTree(r *verifx.Rng, leaves []int) *tree {
	if len(leaves) == 1 {
		return &tree{leaf: leaves[0]}
	}
	k := 1 + r.Intn(len(leaves)-1)
	return &tree{leaf: -1, l: randTree(r, leaves[:k]), r: randTree(r, leaves[k:])}
}

func leftFold(leaves []int) *tree {
	t := &tree{leaf: leaves[0]}
	for _, l := range leaves[1:] {
		t = &tree{leaf: -1, l: t, r: &tree{leaf: l}}
	}
	return t
}

func perm(r *verifx.Rng, n int) []int {
	p := make([]int, n)
	for i := range p {
		p[i] = i
	}
	for i := n - 1; i > 0; i-- {
		j := r.Intn(i + 1)
		p[i], p[j] = p[j], p[i]
	}
	return p
}

func (t *tree) String() string {
	if t.leaf >= 0 {
		return fmt.Sprint(t.leaf)
	}
	return "(" + t.l.String() + " " + t.r.String() + ")"
}

// evalM evaluates the tree with MultiValue.Merge; the result is left in register dst (work registers dst, dst+1, …)
func (x *mach) evalM(t *tree, dst int, kind string) {
	if t.leaf >= 0 {
		x.opCopy(dst, t.leaf)
		return
	}
	x.evalM(t.l, dst, kind)
	x.evalM(t.r, dst+1, kind)
	switch kind {
	case "merge":
		x.opMerge(dst, dst+1)
	case "umerge":
		x.opUMerge(dst, dst+1)
	case "mread":
		x.opMRead(dst, dst+1)
	}
}

func (x *mach) evalT(t *tree, dst int) {
	if t.leaf >= 0 {
		x.opTsCopy(dst, t.leaf)
		return
	}
	x.evalT(t.l, dst)
	x.evalT(t.r, dst+1)
	x.opTsMerge(dst, dst+1)
}

// ---------------------------------------------------------------- case generators

func pickHost(r *verifx.Rng) int {
	// few distinct hosts so that "same host" branches are common; 0 = no host
	return []int{0, 1, 1, 2, 3, 4, 5, 6}[r.Intn(8)]
}

func pickCnt4(r *verifx.Rng) int {
	switch r.Pick(1, 6, 2, 2) {
	case 0:
		return 0
	case 1:
		return 4 * r.Range(1, 20)
	case 2:
		return r.Range(1, 12) // fractional counts: 0.25 … 3.0 (rounding inside CounterHostDistribution)
	default:
		return []int{1, 2, 5, 6, 9, 10, 400, 4000}[r.Intn(8)]
	}
}

func pickVal(r *verifx.Rng) int {
	if r.Chance(1, 2) {
		return r.Range(-3, 3) // ties between leaves are frequent
	}
	return r.Range(-1000, 1000)
}

type valLeafInfo struct {
	cnt4           int64
	chost          int
	set            bool
	vmin, vmax     int64
	sum4, sq4      int64
	minHost, maxHost int
}

func leafInfo(v *dm.ItemValue) valLeafInfo {
	return valLeafInfo{cnt4: int64(v.Count() * 4), chost: hostID(v.MaxCounterHostTag), set: v.ValueSet, vmin: int64(v.ValueMin), vmax: int64(v.ValueMax),
		sum4: int64(v.ValueSum * 4), sq4: int64(v.ValueSumSquare * 4), minHost: hostID(v.MinHostTag), maxHost: hostID(v.MaxHostTag)}
}

func (x *mach) genLeaf(r *verifx.Rng, reg int, sharedHashes []uint64) {
	h := x.h
	x.opNew(reg)
	switch r.Pick(4, 2, 4, 2) {
	case 0:
		x.opVal(reg, pickVal(r), pickCnt4(r), pickHost(r))
		h.Stat("leaf.simple_value", 1)
	case 1:
		x.opCnt(reg, pickCnt4(r), pickHost(r))
		h.Stat("leaf.simple_counter", 1)
	case 2:
		x.eventStream(r, reg)
		h.Stat("leaf.event_stream", 1)
	default:
		l := rawLeaf{cnt4: pickCnt4(r), ch: pickHost(r), set: b01(r.Intn(4) != 0), minh: pickHost(r), maxh: pickHost(r)}
		a, b := pickVal(r), pickVal(r)
		if a > b {
			a, b = b, a
		}
		l.vmin, l.vmax = a, b
		if l.set == 1 {
			l.sum4, l.sq4 = r.Range(-4000, 4000), r.Range(0, 100000)
		}
		x.opRaw(reg, l)
		h.Stat("leaf.raw", 1)
	}
	// event-level entry: ApplyUnique (hashes are also values); count = len(hashes), or an integer count with 1, 2 or 4 hashes
	if r.Chance(1, 3) {
		n := r.Range(1, 5)
		hs := make([]int64, n)
		for i := range hs {
			hs[i] = int64(r.Range(-30, 30))
			if r.Chance(1, 4) {
				hs[i] = int64(r.Range(-1000, 1000))
			}
		}
		c4 := 4 * n
		if (n == 1 || n == 2 || n == 4) && r.Chance(1, 2) {
			c4 = 4 * r.Range(1, 20)
		}
		x.opUniq(reg, hs, c4, pickHost(r))
		h.Stat("leaf.apply_unique", 1)
	}
	// unique part: small sketches that share values (and sometimes the hash 0)
	if r.Chance(2, 3) {
		n := r.Range(1, 24)
		for i := 0; i < n; i++ {
			switch r.Pick(6, 3, 1) {
			case 0:
				x.opIns(reg, sharedHashes[r.Intn(len(sharedHashes))])
			case 1:
				x.opInsH(reg, uint32(r.U64()))
			default:
				x.opInsH(reg, 0)
			}
		}
		h.Stat("leaf.with_unique", 1)
	}
}

type result struct {
	prog string
	v    valLeafInfo
	est  uint64
	asIs uint64
}

func (x *mach) caseValues(r *verifx.Rng) {
	h := x.h
	n := r.Range(2, 6)
	shared := make([]uint64, 12)
	for i := range shared {
		shared[i] = r.U64() >> uint(r.Intn(40))
	}
	leaves := make([]int, n)
	info := make([]valLeafInfo, n)
	for i := 0; i < n; i++ {
		leaves[i] = i
		x.genLeaf(r, i, shared)
		info[i] = leafInfo(&x.m[i].Value)
	}
	h.Stat("values.leaves", int64(n))
	progs := []*tree{leftFold(leaves)}
	for k := 0; k < 3; k++ {
		p := perm(r, n)
		if k%2 == 0 {
			progs = append(progs, leftFold(p))
		} else {
			progs = append(progs, randTree(r, p))
		}
	}
	var res []result
	drewAny := false
	for _, t := range progs {
		before := *x.rng
		x.evalM(t, 8, "merge")
		if *x.rng != before {
			drewAny = true
		}
		res = append(res, result{prog: t.String(), v: leafInfo(&x.m[8].Value), est: x.m[8].HLL.Size(false), asIs: x.m[8].HLL.Size(true)})
	}
	// ---- direct oracle (independent of the model) ----
	var cnt, sum, sq int64
	anySet := false
	var vmin, vmax int64
	for _, l := range info {
		if l.cnt4 > 0 {
			cnt += l.cnt4
		}
		if l.set {
			sum += l.sum4
			sq += l.sq4
			if !anySet || l.vmin < vmin {
				vmin = l.vmin
			}
			if !anySet || l.vmax > vmax {
				vmax = l.vmax
			}
			anySet = true
		}
	}
	ties := false
	for i, a := range res {
		g := a.v
		if g.cnt4 != cnt {
			h.Viol("count-mismatch", "program %s: count*4=%d, contributions sum to %d", a.prog, g.cnt4, cnt)
		}
		if g.set != anySet {
			h.Viol("value-set-mismatch", "program %s: ValueSet=%v", a.prog, g.set)
		}
		if anySet && (g.vmin != vmin || g.vmax != vmax) {
			h.Viol("minmax-mismatch", "program %s: min=%d max=%d expected %d %d", a.prog, g.vmin, g.vmax, vmin, vmax)
		}
		if anySet && (g.sum4 != sum || g.sq4 != sq) {
			h.Viol("sum-mismatch", "program %s: sum*4=%d sumsq*4=%d expected %d %d", a.prog, g.sum4, g.sq4, sum, sq)
		}
		if anySet {
			okMin, okMax, nMin := false, false, 0
			for _, l := range info {
				if l.set && l.vmin == g.vmin {
					nMin++
					if l.minHost == g.minHost {
						okMin = true
					}
				}
				if l.set && l.vmax == g.vmax && l.maxHost == g.maxHost {
					okMax = true
				}
			}
			if nMin > 1 {
				ties = true
			}
			if !okMin {
				h.Viol("min-host-not-contributor", "program %s: min host %d did not contribute min %d", a.prog, g.minHost, g.vmin)
			}
			if !okMax {
				h.Viol("max-host-not-contributor", "program %s: max host %d did not contribute max %d", a.prog, g.maxHost, g.vmax)
			}
		}
		if g.cnt4 > 0 {
			ok := false
			for _, l := range info {
				if l.cnt4 > 0 && l.chost == g.chost {
					ok = true
				}
			}
			if !ok {
				h.Viol("maxcount-host-not-contributor", "program %s: max-count host %d is not a contributing host", a.prog, g.chost)
			}
		}
		if i > 0 && a.est != res[0].est {
			h.Viol("unique-merge-order", "unique estimate %d for program %s but %d for %s", a.est, a.prog, res[0].est, res[0].prog)
		}
	}
	if drewAny {
		h.NonTrivial("rng-draw")
		h.Stat("values.case_with_draw", 1)
	}
	if ties {
		h.NonTrivial("min-tie")
		h.Stat("values.case_with_min_tie", 1)
	}
}

type operand struct {
	kind string
	n    int
}

func (x *mach) genSketch(r *verifx.Rng, reg int, bases []uint32) operand {
	x.opNew(reg)
	base := bases[r.Intn(len(bases))]
	stride := uint32(2*r.Intn(50) + 1) // odd: low bits cycle uniformly
	if r.Chance(1, 5) {
		stride = uint32(2 * (2*r.Intn(20) + 1)) // even stride: half of the bit patterns only
	}
	var n int
	var kind string
	switch r.Pick(8, 6, 6, 4, 3, 1) {
	case 0:
		kind, n = "big", r.Range(66000, 150000)
	case 1:
		kind, n = "medium", r.Range(1000, 40000)
	case 2:
		kind, n = "small", r.Range(1, 60)
	case 3:
		kind, n = "edge", 65536+r.Range(-3, 3)
	case 4:
		kind, n = "full", 65536
	default:
		kind, n = "huge", r.Range(150000, 270000)
	}
	x.opSeq(reg, base, stride, n)
	if r.Chance(1, 4) {
		x.opInsH(reg, 0)
	}
	x.h.Stat("sketch.operand."+kind, 1)
	return operand{kind, n}
}

func (x *mach) caseSketch(r *verifx.Rng) {
	h := x.h
	n := r.Range(2, 3)
	bases := []uint32{uint32(r.U64()), uint32(r.U64()), uint32(r.Intn(16))}
	leaves := make([]int, n)
	ks := map[uint32]bool{}
	for i := 0; i < n; i++ {
		leaves[i] = i
		x.genSketch(r, i, bases)
		ks[dm.VerifC04Dump(&x.m[i].HLL, false).SkipDegree] = true
	}
	type ures struct {
		prog string
		est  uint64
		cnt  int32
		k    uint32
	}
	run := func(kind string, t *tree) ures {
		x.evalM(t, 8, kind)
		d := dm.VerifC04Dump(&x.m[8].HLL, false)
		return ures{prog: kind + t.String(), est: x.m[8].HLL.Size(false), cnt: d.ItemsCount, k: d.SkipDegree}
	}
	p := perm(r, n)
	rev := make([]int, n)
	for i := range p {
		rev[n-1-i] = p[i]
	}
	var mres, rres []ures
	mres = append(mres, run("umerge", leftFold(p)))
	if n == 3 && r.Chance(1, 2) {
		mres = append(mres, run("umerge", randTree(r, rev)))
	} else {
		mres = append(mres, run("umerge", leftFold(rev)))
	}
	rres = append(rres, run("mread", leftFold(p)))
	// a nil receiver takes the UmMarshall path of MergeRead
	x.opNew(7)
	for _, l := range rev {
		x.opMRead(7, l)
	}
	d := dm.VerifC04Dump(&x.m[7].HLL, false)
	rres = append(rres, ures{prog: "mread(nil<-" + fmt.Sprint(rev) + ")", est: x.m[7].HLL.Size(false), cnt: d.ItemsCount, k: d.SkipDegree})
	for _, a := range mres[1:] {
		if a.est != mres[0].est {
			h.Viol("unique-merge-order", "Merge: estimate %d (items=%d skip=%d) for %s but %d (items=%d skip=%d) for %s", a.est, a.cnt, a.k, a.prog, mres[0].est, mres[0].cnt, mres[0].k, mres[0].prog)
			break
		}
	}
	for _, a := range rres[1:] {
		if a.est != rres[0].est {
			h.Viol("unique-mergeread-order", "MergeRead: estimate %d (items=%d skip=%d) for %s but %d (items=%d skip=%d) for %s", a.est, a.cnt, a.k, a.prog, rres[0].est, rres[0].cnt, rres[0].k, rres[0].prog)
			break
		}
	}
	for _, a := range rres {
		if a.est != mres[0].est {
			h.Viol("unique-mergeread-vs-merge", "estimate %d (items=%d skip=%d) through the wire, %s, but %d (items=%d skip=%d) in memory, %s", a.est, a.cnt, a.k, a.prog, mres[0].est, mres[0].cnt, mres[0].k, mres[0].prog)
			break
		}
	}
	if len(ks) > 1 {
		h.NonTrivial("operands-differ-in-skipDegree")
		h.Stat("sketch.case_diff_skip", 1)
	}
	if mres[0].k > 0 {
		h.Stat("sketch.case_result_thinned", 1)
	}
}

func (x *mach) caseTs(r *verifx.Rng) {
	h := x.h
	n := r.Range(2, 4)
	// sketches for the rows live in m0..m3
	shared := make([]uint64, 10)
	for i := range shared {
		shared[i] = r.U64()
	}
	leaves := make([]int, n)
	ls := make([]tsLeaf, n)
	allStr := true
	// the query selects a subset of the columns; unselected columns are zero in EVERY row (seriesQuery.valuesAt)
	var sel [8]bool // min max sum count sumsq cardinality minHost maxHost
	allCols := r.Chance(1, 3)
	nsel := 0
	for c := range sel {
		sel[c] = allCols || r.Chance(1, 2)
		if sel[c] {
			nsel++
		}
	}
	if !sel[3] {
		h.Stat("ts.case_without_count", 1)
	}
	h.Stat(fmt.Sprintf("ts.selected_columns.%d", nsel), 1)
	for i := 0; i < n; i++ {
		leaves[i] = i
		x.opNew(i)
		if r.Chance(3, 4) {
			k := r.Range(1, 30)
			for j := 0; j < k; j++ {
				if r.Chance(2, 3) {
					x.opIns(i, shared[r.Intn(len(shared))])
				} else {
					x.opInsH(i, uint32(r.U64()))
				}
			}
		} else if r.Chance(1, 2) {
			x.opSeq(i, uint32(r.Intn(8)), uint32(2*r.Intn(8)+1), r.Range(100, 3000))
		}
		a, b := pickVal(r), pickVal(r)
		if a > b {
			a, b = b, a
		}
		cnt := r.Range(1, 50)
		l := tsLeaf{reg: i, min: a, max: b, sum: r.Range(-5000, 5000), count: cnt, sq: r.Range(0, 1000000), card: r.Range(0, 50)}
		l.mina, l.minv = r.Intn(6), a
		l.maxa, l.maxv = r.Intn(6), b
		l.smina, l.sminv = r.Intn(6), a
		l.smaxa, l.smaxv = r.Intn(6), b
		if r.Chance(1, 6) { // rows whose host value is not the row's min/max (the code keeps them independent)
			l.minv, l.sminv = pickVal(r), pickVal(r)
		}
		if !sel[0] {
			l.min = 0
		}
		if !sel[1] {
			l.max = 0
		}
		if !sel[2] {
			l.sum = 0
		}
		if !sel[3] {
			l.count = 0
		}
		if !sel[4] {
			l.sq = 0
		}
		if !sel[5] {
			l.card = 0
		}
		if !sel[6] {
			l.mina, l.minv, l.smina, l.sminv = 0, 0, 0, 0
		}
		if !sel[7] {
			l.maxa, l.maxv, l.smaxa, l.smaxv = 0, 0, 0, 0
		}
		if l.smina == 0 || l.smaxa == 0 {
			allStr = false
		}
		ls[i] = l
		x.opTsSet(i, l)
	}
	h.Stat("ts.rows", int64(n))
	progs := []*tree{leftFold(leaves), leftFold(perm(r, n)), randTree(r, perm(r, n))}
	type tres struct {
		prog string
		row  api.VerifC04Row
		est  uint64
	}
	var res []tres
	for _, t := range progs {
		x.evalT(t, 4) // rows t4..t7 are work registers (n ≤ 4 leaves use t0..t3; right depth ≤ 3)
		res = append(res, tres{t.String(), x.t[4].VerifC04Row(), x.t[4].VerifC04Unique().Size(false)})
	}
	emin, emax, esum, ecount, esq, ecard := ls[0].min, ls[0].max, 0, 0, 0, 0
	for _, l := range ls {
		if l.min < emin {
			emin = l.min
		}
		if l.max > emax {
			emax = l.max
		}
		esum, ecount, esq, ecard = esum+l.sum, ecount+l.count, esq+l.sq, ecard+l.card
	}
	for i, a := range res {
		g := a.row
		if g.Min != float64(emin) || g.Max != float64(emax) {
			h.Viol("ts-minmax-mismatch", "tsValues.merge %s (selected columns %v): min=%v max=%v, the rows have least min %d and greatest max %d", a.prog, sel, g.Min, g.Max, emin, emax)
		}
		if g.Sum != float64(esum) || g.Count != float64(ecount) || g.SumSquare != float64(esq) || g.Cardinality != float64(ecard) {
			h.Viol("ts-sum-mismatch", "tsValues.merge %s (selected columns %v): sum=%v count=%v sumsq=%v card=%v, the rows add up to %d %d %d %d", a.prog, sel, g.Sum, g.Count, g.SumSquare, g.Cardinality, esum, ecount, esq, ecard)
		}
		if i > 0 {
			b := res[0].row
			if g.Min != b.Min || g.Max != b.Max || g.Sum != b.Sum || g.Count != b.Count || g.SumSquare != b.SumSquare || g.Cardinality != b.Cardinality {
				h.Viol("ts-merge-order", "tsValues.merge: %s gives min=%v max=%v sum=%v count=%v sumsq=%v, %s gives %v %v %v %v %v", a.prog, g.Min, g.Max, g.Sum, g.Count, g.SumSquare, res[0].prog, b.Min, b.Max, b.Sum, b.Count, b.SumSquare)
			}
			if a.est != res[0].est {
				h.Viol("unique-merge-order", "tsValues.merge: unique estimate %d for %s but %d for %s", a.est, a.prog, res[0].est, res[0].prog)
			}
		}
		// hosts: the reported (arg,val) is a row's (arg,val) and val is extremal
		okMin, okMax, okSMin, okSMax := false, false, false, false
		for _, l := range ls {
			okMin = okMin || (int32(l.mina) == g.MinHostArg && float32(l.minv) == g.MinHostVal)
			okMax = okMax || (int32(l.maxa) == g.MaxHostArg && float32(l.maxv) == g.MaxHostVal)
			okSMin = okSMin || (l.smina == strHostID(g.MinHostStr, g.MinHostStrInt) && float32(l.sminv) == g.MinHostStrVal)
			okSMax = okSMax || (l.smaxa == strHostID(g.MaxHostStr, g.MaxHostStrInt) && float32(l.smaxv) == g.MaxHostStrVal)
		}
		for _, l := range ls {
			okMin = okMin && !(float32(l.minv) < g.MinHostVal)
			okMax = okMax && !(float32(l.maxv) > g.MaxHostVal)
			if allStr {
				okSMin = okSMin && !(float32(l.sminv) < g.MinHostStrVal)
				okSMax = okSMax && !(float32(l.smaxv) > g.MaxHostStrVal)
			}
		}
		if !okMin || !okSMin {
			h.Viol("ts-min-host-not-contributor", "tsValues.merge %s: min host %d:%v / %d:%v is not a row's host with the least value", a.prog, g.MinHostArg, g.MinHostVal, strHostID(g.MinHostStr, g.MinHostStrInt), g.MinHostStrVal)
		}
		if !okMax || !okSMax {
			h.Viol("ts-max-host-not-contributor", "tsValues.merge %s: max host %d:%v / %d:%v is not a row's host with the greatest value", a.prog, g.MaxHostArg, g.MaxHostVal, strHostID(g.MaxHostStr, g.MaxHostStrInt), g.MaxHostStrVal)
		}
	}
	h.NonTrivial("ts-rows")
}

func genLean() {
	fmt.Println("-- GENERATED by verif-c04 -mode=gen from /repo (internal/data_model/ch_unique.go constants). Do not edit.")
	fmt.Println("namespace SH.Gen.C04")
	fmt.Printf("def maxSizeDegree : Nat := %d\n", dm.VerifC04MaxSizeDegree)
	fmt.Printf("def maxSize : Nat := %d\n", dm.VerifC04MaxSize)
	fmt.Printf("def initSizeDegree : Nat := %d\n", dm.VerifC04InitSizeDegree)
	fmt.Printf("def bitsForSkip : Nat := %d\n", dm.VerifC04BitsForSkip)
	fmt.Println("end SH.Gen.C04")
}

func main() {
	h := verifx.New()
	if h.Mode == "gen" {
		genLean()
		return
	}
	// -mode=values|sketch|ts restricts the case kinds; -arg=<k> makes every k-th case a big-sketch case (default 40)
	every := 40
	if h.Arg != "" {
		fmt.Sscanf(h.Arg, "%d", &every)
	}
	h.Cases(func(i int, r *verifx.Rng) {
		x := &mach{h: h, rng: rand.New(r.U64())}
		kind := "values"
		switch {
		case h.Mode != "":
			kind = h.Mode
		case every > 0 && i%every == every-1:
			kind = "sketch"
		case i%5 == 3:
			kind = "ts"
		}
		h.Stat("case."+kind, 1)
		switch kind {
		case "values":
			x.caseValues(r)
		case "sketch":
			x.caseSketch(r)
		case "ts":
			x.caseTs(r)
		case "wrap":
			x.caseWrap(r)
		default:
			h.Obs("bad-mode")
		}
	})
	_ = sort.Ints
	h.Done()
}
