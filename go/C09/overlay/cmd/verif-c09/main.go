//go:build verif

// verif-c09: correspondence + direct oracle for the agent disk cache (internal/agent/disk_cache.go).
//
// Every op line is one call on a REAL DiskBucketStorage living in a scratch directory under /tmp/C09, or one
// action on its directory (torn write, torn erase, byte flip, truncation, snapshot/revert of the directory).
// After every op the harness prints what the real code reports (ids, bytes, TotalFileSize) plus a white-box
// tail (ref counts, read/write heads) and a checksum of every file on disk; the Lean driver must print the same.
// Independently of the model, the oracle keeps the op log (puts, erases, torn writes) and checks the property
// on what the reopened cache returns.
package main

import (
	"bytes"
	"encoding/binary"
	"fmt"
	"hash/crc32"
	"os"
	"os/signal"
	"syscall"
	"path/filepath"
	"sort"
	"strings"
	"time"

	"github.com/VKCOM/statshouse/internal/agent"
	"github.com/VKCOM/statshouse/internal/verifx"
)

var consts = agent.VerifC09GetConsts()

// ---------------------------------------------------------------- oracle bookkeeping (op log)

type rec struct {
	time   uint32
	data   []byte
	file   string // base name of the file the put went to (observed from the directory)
	pos    int64  // file size before the put (observed with os.Stat)
	erased bool   // erase (or a failed get, which erases) completed
	lost   bool   // its put was torn: may be missing
	maybe  int    // 0 = no; k+1 = an erase of it was torn after k bytes (k<4): present or absent are both fine
	curID  int64  // id in the current incarnation (0 = not handed out yet)
}

type shardT struct {
	recs      []*rec
	expect    []int // indices into recs that the current incarnation has to re-read, in order
	ep        int
	drained   bool // ReadNextTailBucket returned 0 in this incarnation
	fresh     bool // no op on this shard since the restart
	puts      bool // a put happened in this incarnation (so a writing file exists)
	sizeOff   bool // a body write failed part way: bytes behind the accounted size may sit on disk until the next restart
	ghost     bool // a waiting file vanished and the tail reader has not reached it yet: sizes may still include it
	damaged   bool // bytes were flipped / files truncated / a known finding fired: only the byte-identity oracle stays on
	erasedIDs []int64
}

func (s *shardT) clone() *shardT {
	c := *s
	c.recs = make([]*rec, len(s.recs))
	for i, r := range s.recs {
		rr := *r
		c.recs[i] = &rr
	}
	c.expect = append([]int(nil), s.expect...)
	c.erasedIDs = append([]int64(nil), s.erasedIDs...)
	return &c
}

func (s *shardT) onRestart() {
	s.expect = s.expect[:0]
	for i, r := range s.recs {
		r.curID = 0
		if !r.erased && !r.lost {
			s.expect = append(s.expect, i)
		}
	}
	s.ep = 0
	s.drained = false
	s.fresh = true
	s.ghost = false
	s.sizeOff = false
	s.puts = false
	s.erasedIDs = nil
}

func (s *shardT) liveIDs() []int64 {
	var ids []int64
	for _, r := range s.recs {
		if r.curID != 0 && !r.erased {
			ids = append(ids, r.curID)
		}
	}
	return ids
}

func (s *shardT) byID(id int64) *rec {
	if id == 0 {
		return nil
	}
	for _, r := range s.recs {
		if r.curID == id {
			return r
		}
	}
	return nil
}

// ---------------------------------------------------------------- the world of one case

type world struct {
	h      *verifx.H
	root   string
	dir    string
	gen    int
	n      int
	d      *agent.DiskBucketStorage
	sh     []*shardT
	snapSh []*shardT
	snap   string
	nt     map[string]bool
	pad    []byte // ONE scratch pad reused by every GetBucket of the case, as the agent's sender does
}

func must(err error) {
	if err != nil {
		panic(err)
	}
}

func nolog(format string, args ...interface{}) {}

func (w *world) open() {
	must(os.MkdirAll(w.dir, 0o777))
	d, err := agent.MakeDiskBucketStorage(w.dir, w.n, nolog)
	must(err)
	w.d = d
}

type dfile struct {
	name string
	size int64
	data []byte
}

func listDir(p string) []dfile {
	des, err := os.ReadDir(p)
	must(err)
	var out []dfile
	for _, de := range des {
		if de.IsDir() {
			continue
		}
		b, err := os.ReadFile(filepath.Join(p, de.Name()))
		must(err)
		out = append(out, dfile{de.Name(), int64(len(b)), b})
	}
	sort.Slice(out, func(i, j int) bool { return out[i].name < out[j].name })
	return out
}

// listStat: names and sizes only (no contents)
func listStat(p string) []dfile {
	des, err := os.ReadDir(p)
	must(err)
	var out []dfile
	for _, de := range des {
		if de.IsDir() {
			continue
		}
		fi, err := de.Info()
		must(err)
		out = append(out, dfile{de.Name(), fi.Size(), nil})
	}
	sort.Slice(out, func(i, j int) bool { return out[i].name < out[j].name })
	return out
}

func adler(b []byte) uint64 {
	a, c := uint64(1), uint64(0)
	for _, x := range b {
		a = (a + uint64(x)) % 65521
		c = (c + a) % 65521
	}
	return c*65536 + a
}

func (w *world) shardDir(i int) string { return agent.VerifC09ShardPath(w.d, i) }

// tail = canonical white-box observation of one shard + its directory
func (w *world) tail(i int) (string, []dfile, int64, int64) {
	files := listDir(w.shardDir(i))
	idx := map[string]int{}
	var ds []string
	for k, f := range files {
		idx[f.name] = k
		ds = append(ds, fmt.Sprintf("%d:%d", f.size, adler(f.data)))
	}
	total, unsent := w.d.TotalFileSize(i)
	st := agent.VerifC09GetState(w.d, i)
	ix := func(full string) string {
		if full == "" {
			return "-"
		}
		k, ok := idx[filepath.Base(full)]
		if !ok {
			return "gone"
		}
		return fmt.Sprint(k)
	}
	rd := "-"
	var refs []string
	for _, f := range st.Files {
		refs = append(refs, fmt.Sprintf("%s:%d", ix(f.Name), f.RefCount))
		if f.Name == st.Reading {
			rd = fmt.Sprintf("%s:%d", ix(f.Name), f.NextPos)
		}
	}
	return fmt.Sprintf("T=%d U=%d L=%d K=%d W=%d rd=%s wr=%s R=%s D=%s", total, unsent, st.LastID, st.Known, st.Waiting,
		rd, ix(st.Writing), verifx.List(refs), verifx.List(ds)), files, total, unsent
}

// obs prints the observation of an op on shard i and runs the state oracle
func (w *world) obs(i int, what string) {
	t, files, total, unsent := w.tail(i)
	w.h.Obs("%s %s", what, t)
	w.stateOracle(i, files, total, unsent)
}

func (w *world) stateOracle(i int, files []dfile, total, unsent int64) {
	s := w.sh[i]
	if s.damaged || s.ghost || s.sizeOff {
		return
	}
	var sum int64
	for _, f := range files {
		sum += f.size
	}
	if total != sum {
		w.h.Viol("total-mismatch", "shard %d: TotalFileSize total=%d but the files on disk sum to %d", i, total, sum)
	}
	if unsent > total || unsent < 0 {
		w.h.Viol("unsent-range", "shard %d: unsent=%d total=%d", i, unsent, total)
	}
	if s.fresh && unsent != sum {
		w.h.Viol("unsent-after-restart", "shard %d: right after restart unsent=%d but the files on disk sum to %d", i, unsent, sum)
	}
	if s.drained {
		var live int64
		want := map[string]bool{}
		for _, r := range s.recs {
			if r.curID != 0 && !r.erased {
				live += consts.HeaderSize + int64(len(r.data))
				want[r.file] = true
			}
		}
		if unsent != live {
			w.h.Viol("unsent-mismatch", "shard %d: everything re-read, unsent=%d but live seconds occupy %d", i, unsent, live)
		}
		wr := ""
		if s.puts {
			for k := len(s.recs) - 1; k >= 0; k-- { // file of the last put of this incarnation = writing file
				wr = s.recs[k].file
				break
			}
		}
		for fi, f := range files {
			if !want[f.name] && f.name != wr {
				w.h.Viol("file-not-deleted", "shard %d: file #%d has no live second, is neither read nor written, but is still on disk", i, fi)
			}
			delete(want, f.name)
		}
		if len(want) > 0 {
			w.h.Viol("file-missing", "shard %d: %d file(s) holding a live second are gone", i, len(want))
		}
	}
}

func (w *world) mark(tag string) {
	if !w.nt[tag] {
		w.nt[tag] = true
	}
}

// ---------------------------------------------------------------- ops on the real cache

func (w *world) put(i int, tm uint32, data []byte, rot int) {
	s := w.sh[i]
	before := listStat(w.shardDir(i))
	w.h.Op("put %d %d %s %d", i, tm, verifx.Hex(data), rot)
	id, err := w.d.PutBucket(i, tm, data)
	if err != nil {
		id = 0
	}
	after := listStat(w.shardDir(i))
	if id != 0 {
		newest := after[len(after)-1]
		pos := newest.size - consts.HeaderSize - int64(len(data))
		s.recs = append(s.recs, &rec{time: tm, data: append([]byte(nil), data...), file: newest.name, pos: pos, curID: id})
		s.puts = true
		if len(before) > 0 && newest.name != before[len(before)-1].name && rot == 1 {
			w.h.Stat("branch.time-rotation", 1)
			w.mark("rotation")
		}
	}
	s.fresh = false
	w.obs(i, fmt.Sprintf("put id=%d", id))
	w.h.Stat("op.put", 1)
}

var castagnoli = crc32.MakeTable(crc32.Castagnoli)

// putFail: PutBucket whose body write fails after k bytes (RLIMIT_FSIZE lowered around the call, SIGXFSZ ignored: WriteAt gets
// EFBIG after a partial write, as on a full disk). Returns whether the put really failed.
func (w *world) putFail(i int, tm uint32, data []byte, rot int, k int) bool {
	s := w.sh[i]
	st := agent.VerifC09GetState(w.d, i)
	base := int64(0)
	if st.Writing != "" && rot == 0 {
		for _, f := range st.Files {
			if f.Name == st.Writing {
				base = f.Size
			}
		}
	}
	w.h.Op("putfail %d %d %s %d %d", i, tm, verifx.Hex(data), rot, k)
	w.h.Flush()
	var old syscall.Rlimit
	must(syscall.Getrlimit(syscall.RLIMIT_FSIZE, &old))
	lim := old
	lim.Cur = uint64(base + consts.HeaderSize + int64(k))
	must(syscall.Setrlimit(syscall.RLIMIT_FSIZE, &lim))
	id, err := w.d.PutBucket(i, tm, data)
	must(syscall.Setrlimit(syscall.RLIMIT_FSIZE, &old))
	if err == nil { // the environment did not make the write fail: treat as an ordinary put (never expected)
		w.h.Viol("harness-putfail-did-not-fail", "PutBucket succeeded under RLIMIT_FSIZE (id %d)", id)
		return false
	}
	s.sizeOff = true
	s.fresh = false
	w.obs(i, "putfail id=0")
	w.h.Stat("op.putfail", 1)
	w.mark("failed-body-write")
	return true
}

func classify(err error) string {
	m := err.Error()
	switch {
	case strings.Contains(m, "not known"):
		return "unknown"
	case strings.Contains(m, "has wrong second"):
		return "wrongtime"
	case strings.Contains(m, "failed read at"):
		return "readerr"
	case strings.Contains(m, "wrong crc"):
		return "badcrc"
	}
	return "other"
}

func (w *world) get(i int, id int64, tm uint32) {
	s := w.sh[i]
	w.h.Op("get %d %d %d", i, id, tm)
	padBefore := len(w.pad)
	data, err := w.d.GetBucket(i, id, tm, &w.pad)
	r := s.byID(id)
	res := ""
	if err != nil {
		res = classify(err)
		w.h.Stat("get."+res, 1)
		if r != nil && !r.erased && r.time == tm && !s.damaged {
			w.h.Viol("get-failed-live", "shard %d: GetBucket(%d,%d) failed (%s) for a second that was put and not erased", i, id, tm, res)
		}
		if r != nil && (res == "badcrc" || res == "readerr") {
			r.erased = true // the code erases what it cannot read
		}
	} else {
		res = "ok " + verifx.Hex(data)
		w.h.Stat("get.ok", 1)
		if r != nil && len(r.data) == 0 && padBefore > 0 {
			w.h.Stat("get.empty-body-with-dirty-pad", 1)
		}
		switch {
		case r == nil:
			w.h.Viol("get-unknown-returned", "shard %d: GetBucket(%d,%d) returned data for an id never handed out", i, id, tm)
		case r.erased:
			w.h.Viol("get-erased-returned", "shard %d: GetBucket(%d,%d) returned an erased second", i, id, tm)
		case !bytes.Equal(data, r.data):
			w.h.Viol("returned-bytes-differ", "shard %d: GetBucket(%d,%d) returned %x, put was %x (scratch pad held %d bytes of the previous read)", i, id, tm, data, r.data, padBefore)
		case r.time != tm && !s.damaged:
			w.h.Viol("get-wrong-time", "shard %d: GetBucket(%d,%d) succeeded for a second put with time %d", i, id, tm, r.time)
		}
	}
	s.fresh = false
	w.obs(i, "get "+res)
	w.h.Stat("op.get", 1)
}

func (w *world) erase(i int, id int64) {
	s := w.sh[i]
	w.h.Op("erase %d %d", i, id)
	err := w.d.EraseBucket(i, id)
	if err != nil {
		w.h.Viol("erase-error", "shard %d: EraseBucket(%d) returned %v", i, id, err)
	}
	if r := s.byID(id); r != nil && !r.erased {
		r.erased = true
		s.erasedIDs = append(s.erasedIDs, id)
		w.h.Stat("erase.live", 1)
	} else {
		w.h.Stat("erase.nop", 1)
	}
	s.fresh = false
	w.obs(i, "erase")
	w.h.Stat("op.erase", 1)
}

// next = ReadNextTailBucket; the oracle matches the returned second by its place on disk
func (w *world) next(i int) (uint32, int64) {
	s := w.sh[i]
	w.h.Op("next %d", i)
	tm, id := w.d.ReadNextTailBucket(i)
	if id != 0 {
		name, pos, size, ok := agent.VerifC09BucketLoc(w.d, i, id)
		name = filepath.Base(name)
		if !ok {
			w.h.Viol("reread-id-unknown", "shard %d: ReadNextTailBucket returned id %d which the shard does not know", i, id)
		} else {
			j := -1
			for k := s.ep; k < len(s.expect); k++ {
				r := s.recs[s.expect[k]]
				if r.file == name && r.pos == pos {
					j = k
					break
				}
			}
			if j < 0 {
				if !s.damaged {
					sig := "reread-unexpected"
					for _, r := range s.recs {
						if r.file == name && r.pos == pos && r.erased {
							sig = "reread-erased-returned"
						}
					}
					w.h.Viol(sig, "shard %d: re-read returned a second (time %d, pos %d size %d) that must not be returned here", i, tm, pos, size)
					s.damaged = true
				}
			} else {
				w.skipped(i, s.ep, j)
				r := s.recs[s.expect[j]]
				r.curID = id
				s.ep = j + 1
				if !s.damaged && (r.time != tm || size != len(r.data)) {
					w.h.Viol("reread-wrong-header", "shard %d: re-read second has time %d size %d, put was time %d size %d", i, tm, size, r.time, len(r.data))
				}
				w.h.Stat("next.got", 1)
			}
		}
	} else {
		w.skipped(i, s.ep, len(s.expect))
		s.ep = len(s.expect)
		s.drained = true
		s.ghost = false // the tail reader has been through every waiting file: a vanished one is no longer accounted
		w.h.Stat("next.end", 1)
	}
	s.fresh = false
	w.obs(i, fmt.Sprintf("next t=%d id=%d", tm, id))
	w.h.Stat("op.next", 1)
	return tm, id
}

// expect[from:to] were passed over by the re-read: each must be allowed to be missing
func (w *world) skipped(i, from, to int) {
	s := w.sh[i]
	if s.damaged {
		return
	}
	for k := from; k < to; k++ {
		r := s.recs[s.expect[k]]
		if r.maybe != 0 || r.lost {
			continue
		}
		sig := "reread-missing"
		for _, q := range s.recs { // is it behind an erase torn after 3 bytes in the same file?
			if q.maybe == 4 && q.file == r.file && q.pos < r.pos {
				sig = "torn-erase-drops-later-seconds"
			}
		}
		w.h.Viol(sig, "shard %d: second (time %d, %d bytes, pos %d) was put, not erased, not torn, but is not re-read after restart", i, r.time, len(r.data), r.pos)
		s.damaged = true // one report per incarnation, no cascades
		return
	}
}

func (w *world) restart() {
	w.h.Op("restart")
	must(w.d.Close())
	w.open()
	for i, s := range w.sh {
		s.onRestart()
		w.obs(i, fmt.Sprintf("restart sh=%d", i))
	}
	w.h.Stat("op.restart", 1)
}

// tear: the newest file of the shard loses its last n bytes (the last put was torn); caller restarts next
func (w *world) tear(i int, n int) {
	s := w.sh[i]
	w.h.Op("tear %d %d", i, n)
	files := listStat(w.shardDir(i))
	f := files[len(files)-1]
	must(os.Truncate(filepath.Join(w.shardDir(i), f.name), f.size-int64(n)))
	if n > 0 {
		s.recs[len(s.recs)-1].lost = true
	}
	s.fresh = false
	w.obsDiskOnly(i, "tear")
	w.h.Stat("op.tear", 1)
}

// obsDiskOnly: used between a crash action and the `restart` line; only the directory is meaningful
func (w *world) obsDiskOnly(i int, what string) {
	files := listDir(w.shardDir(i))
	var ds []string
	for _, f := range files {
		ds = append(ds, fmt.Sprintf("%d:%d", f.size, adler(f.data)))
	}
	w.h.Obs("%s D=%s", what, verifx.List(ds))
}

func (w *world) tornErase(i int, id int64, k int) {
	s := w.sh[i]
	w.h.Op("terase %d %d %d", i, id, k)
	name, pos, _, ok := agent.VerifC09BucketLoc(w.d, i, id)
	if ok {
		var m [4]byte
		binary.LittleEndian.PutUint32(m[:], consts.MagicDeleted)
		fp, err := os.OpenFile(name, os.O_RDWR, 0)
		must(err)
		_, err = fp.WriteAt(m[:k], pos)
		must(err)
		must(fp.Close())
		if r := s.byID(id); r != nil {
			if k == 4 {
				r.erased = true
			} else {
				r.maybe = k + 1
			}
		}
	}
	s.fresh = false
	w.obsDiskOnly(i, "terase")
	w.h.Stat(fmt.Sprintf("op.terase.k%d", k), 1)
}

// vanish: a tail file that was stat-ed at start-up and not yet opened disappears (removed from outside). Its seconds are
// lost by an external cause (excluded from the loss oracle); the size accounting must again equal the bytes on disk once the
// tail reader has been through the waiting list.
func (w *world) vanish(i int, r *verifx.Rng) bool {
	s := w.sh[i]
	waiting := agent.VerifC09Waiting(w.d, i)
	if len(waiting) == 0 {
		return false
	}
	pick := filepath.Base(waiting[r.Intn(len(waiting))])
	files := listStat(w.shardDir(i))
	idx := -1
	for k, f := range files {
		if f.name == pick {
			idx = k
		}
	}
	if idx < 0 {
		return false
	}
	w.h.Op("vanish %d %d", i, idx)
	must(os.Remove(filepath.Join(w.shardDir(i), pick)))
	for _, rc := range s.recs {
		if rc.file == pick {
			rc.lost = true
		}
	}
	s.ghost = true
	s.fresh = false
	w.obsDiskOnly(i, "vanish")
	w.h.Stat("op.vanish", 1)
	w.mark("tail-file-vanished")
	return true
}

func (w *world) flip(i, fi, off, x int) {
	w.h.Op("flip %d %d %d %d", i, fi, off, x)
	files := listDir(w.shardDir(i))
	if fi < len(files) && off < len(files[fi].data) {
		b := files[fi].data
		b[off] ^= byte(x)
		p := filepath.Join(w.shardDir(i), files[fi].name)
		fp, err := os.OpenFile(p, os.O_RDWR, 0)
		must(err)
		_, err = fp.WriteAt(b[off:off+1], int64(off))
		must(err)
		must(fp.Close())
	}
	w.sh[i].damaged = true
	w.sh[i].fresh = false
	w.obsDiskOnly(i, "flip")
	w.h.Stat("op.flip", 1)
}

func (w *world) chop(i, fi, ln int) {
	w.h.Op("chop %d %d %d", i, fi, ln)
	files := listDir(w.shardDir(i))
	if fi < len(files) && ln < len(files[fi].data) {
		must(os.Truncate(filepath.Join(w.shardDir(i), files[fi].name), int64(ln)))
	}
	w.sh[i].damaged = true
	w.sh[i].fresh = false
	w.obsDiskOnly(i, "chop")
	w.h.Stat("op.chop", 1)
}

func copyDir(src, dst string) {
	must(os.MkdirAll(dst, 0o777))
	des, err := os.ReadDir(src)
	must(err)
	for _, de := range des {
		if de.IsDir() {
			copyDir(filepath.Join(src, de.Name()), filepath.Join(dst, de.Name()))
			continue
		}
		b, err := os.ReadFile(filepath.Join(src, de.Name()))
		must(err)
		must(os.WriteFile(filepath.Join(dst, de.Name()), b, 0o666))
	}
}

func (w *world) snapshot() {
	w.h.Op("snapshot")
	w.snap = filepath.Join(w.root, "snap")
	must(os.RemoveAll(w.snap))
	copyDir(w.dir, w.snap)
	w.snapSh = nil
	for _, s := range w.sh {
		w.snapSh = append(w.snapSh, s.clone())
	}
}

// revert: the directory becomes the snapshot again and the cache is started on it
func (w *world) revert() {
	w.h.Op("revert")
	must(w.d.Close())
	w.gen++
	w.dir = filepath.Join(w.root, fmt.Sprintf("g%d", w.gen))
	copyDir(w.snap, w.dir)
	w.open()
	for i := range w.sh {
		w.sh[i] = w.snapSh[i].clone()
		w.sh[i].onRestart()
		w.obs(i, fmt.Sprintf("restart sh=%d", i))
	}
}

// ---------------------------------------------------------------- generators

func genData(r *verifx.Rng) []byte {
	switch r.Pick(10, 60, 15, 10, 5) {
	case 0:
		return nil
	case 1:
		return r.Bytes(r.Range(1, 24))
	case 2:
		return r.Bytes(r.Range(25, 300))
	case 3: // a body that looks like a record header (good or deleted magic, plausible size)
		var hd [20]byte
		m := consts.MagicGood
		if r.Bool() {
			m = consts.MagicDeleted
		}
		binary.LittleEndian.PutUint32(hd[0:], m)
		binary.LittleEndian.PutUint32(hd[4:], uint32(r.Intn(50)))
		binary.LittleEndian.PutUint64(hd[8:], uint64(r.Intn(8)))
		return append(hd[:], r.Bytes(r.Intn(10))...)
	default:
		return bytes.Repeat([]byte{byte(r.Intn(256))}, r.Range(1, 40))
	}
}

func genTime(r *verifx.Rng) uint32 {
	switch r.Pick(80, 5, 5, 10) {
	case 0:
		return uint32(r.Range(1, 40))
	case 1:
		return 0
	case 2:
		return 0xFFFFFFFF
	default:
		return uint32(r.U64())
	}
}

func (w *world) genPut(r *verifx.Rng, i int) []byte {
	rot := 0
	st := agent.VerifC09GetState(w.d, i)
	if st.Writing != "" {
		switch r.Pick(20, 15, 65) {
		case 0:
			rot = 1
			agent.VerifC09SetAge(w.d, i, consts.FileRotateInterval) // boundary: age == interval rotates (>=)
		case 1:
			agent.VerifC09SetAge(w.d, i, consts.FileRotateInterval-10*time.Minute) // just below: must not rotate
			w.h.Stat("put.age-below-interval", 1)
		default:
		}
	}
	data := genData(r)
	w.put(i, genTime(r), data, rot)
	return data
}

func (w *world) genGet(r *verifx.Rng, i int) {
	s := w.sh[i]
	live := s.liveIDs()
	switch {
	case len(live) > 0 && r.Chance(70, 100):
		id := live[r.Intn(len(live))]
		w.get(i, id, s.byID(id).time)
	case len(live) > 0 && r.Chance(40, 100):
		id := live[r.Intn(len(live))]
		w.get(i, id, s.byID(id).time+1)
	case len(s.erasedIDs) > 0 && r.Bool():
		id := s.erasedIDs[r.Intn(len(s.erasedIDs))]
		w.get(i, id, uint32(r.Range(1, 40)))
	default:
		w.get(i, int64(r.Range(0, 12)), uint32(r.Range(1, 40)))
	}
}

func (w *world) genErase(r *verifx.Rng, i int) {
	s := w.sh[i]
	live := s.liveIDs()
	switch {
	case len(live) > 0 && r.Chance(80, 100):
		w.erase(i, live[r.Intn(len(live))])
	case len(s.erasedIDs) > 0 && r.Bool():
		w.erase(i, s.erasedIDs[r.Intn(len(s.erasedIDs))])
	default:
		w.erase(i, int64(r.Range(0, 12)))
	}
}

// drainAll: re-read everything of every shard and get every second (what an agent does after a restart)
func (w *world) drainAll(getAll bool) {
	for i := range w.sh {
		for k := 0; k < 10000; k++ {
			tm, id := w.next(i)
			if id == 0 {
				break
			}
			if getAll {
				w.get(i, id, tm)
			}
		}
	}
}

func (w *world) anyErasedOrRotated() bool {
	for _, s := range w.sh {
		files := map[string]bool{}
		for _, r := range s.recs {
			files[r.file] = true
			if r.erased {
				return true
			}
		}
		if len(files) > 1 {
			return true
		}
	}
	return false
}

func runCase(h *verifx.H, root string, ci int, r *verifx.Rng) {
	w := &world{h: h, root: filepath.Join(root, fmt.Sprintf("c%d", ci)), nt: map[string]bool{}}
	must(os.MkdirAll(w.root, 0o777))
	defer os.RemoveAll(w.root)
	w.dir = filepath.Join(w.root, "g0")
	w.n = r.Range(1, 3)
	for i := 0; i < w.n; i++ {
		w.sh = append(w.sh, &shardT{fresh: true})
	}
	h.Op("new %d", w.n)
	w.open()
	defer func() {
		if w.d != nil {
			_ = w.d.Close()
		}
	}()

	kind := r.Pick(60, 15, 25) // 0 history, 1 history with damage, 2 history + enumeration of tear offsets
	if h.Mode == "enum" {
		kind = 2
	}
	h.Stat(fmt.Sprintf("kind.%d", kind), 1)
	nops := r.Range(8, 60)
	for k := 0; k < nops; k++ {
		i := r.Intn(w.n)
		func() {
			defer func() {
				if e := recover(); e != nil {
					h.Obs("panic %v", e)
					h.Viol("panic", "op panicked: %v", e)
				}
			}()
			switch r.Pick(34, 16, 18, 14, 6, 5, 4, 3, 3, 3) {
			case 0:
				w.genPut(r, i)
			case 1:
				w.genGet(r, i)
			case 2:
				w.genErase(r, i)
			case 3:
				w.next(i)
			case 4:
				if w.anyErasedOrRotated() {
					w.mark("restart-after-erase-or-rotation")
				}
				w.restart()
				if r.Chance(60, 100) {
					w.drainAll(r.Bool())
				}
			case 5: // crash tearing the put that is being written
				data := w.genPut(r, i)
				if w.sh[i].recs != nil && w.sh[i].puts {
					n := r.Range(1, int(consts.HeaderSize)+len(data))
					if r.Chance(30, 100) {
						n = []int{1, len(data), len(data) + 1, int(consts.HeaderSize) + len(data) - 1, int(consts.HeaderSize) + len(data)}[r.Intn(5)]
						if n == 0 {
							n = 1
						}
					}
					if w.anyErasedOrRotated() {
						w.mark("tear-after-erase-or-rotation")
					}
					w.tear(i, n)
					w.restart()
					w.drainAll(true)
				}
			case 6: // crash tearing an erase
				live := w.sh[i].liveIDs()
				if len(live) > 0 {
					id := live[r.Intn(len(live))]
					w.tornErase(i, id, r.Range(0, 4))
					w.mark("torn-erase")
					w.restart()
					w.drainAll(true)
				}
			case 9: // the body write fails part way; the failed body CONTAINS the image of a stored second at offset L1,
				// and the next put into the shard has a body of exactly L1 bytes (so leftovers, if any, would parse)
				L1 := r.Range(0, 30)
				payload := r.Bytes(r.Range(0, 8))
				var img [20]byte
				binary.LittleEndian.PutUint32(img[0:], consts.MagicGood)
				binary.LittleEndian.PutUint32(img[4:], uint32(r.Range(1, 40)))
				binary.LittleEndian.PutUint64(img[8:], uint64(len(payload)))
				binary.LittleEndian.PutUint32(img[16:], crc32.Checksum(payload, castagnoli))
				body := append(append(append(r.Bytes(L1), img[:]...), payload...), r.Bytes(r.Range(5, 30))...)
				k := r.Range(L1+20+len(payload), len(body)-1)
				rot := 0
				if agent.VerifC09GetState(w.d, i).Writing != "" && r.Chance(20, 100) {
					rot = 1
					agent.VerifC09SetAge(w.d, i, consts.FileRotateInterval)
				}
				if w.putFail(i, genTime(r), body, rot, k) {
					w.put(i, genTime(r), r.Bytes(L1), 0)
					if r.Chance(30, 100) {
						w.put(i, genTime(r), genData(r), 0)
					}
					if r.Chance(70, 100) {
						w.restart()
						w.drainAll(true)
					}
				}
			case 8: // a waiting tail file vanishes (usually right after a restart, when everything is waiting)
				if len(agent.VerifC09Waiting(w.d, i)) == 0 && r.Chance(70, 100) {
					w.restart()
				}
				if w.vanish(i, r) {
					w.next(i)
					if r.Chance(70, 100) {
						w.drainAll(true)
					}
				}
			case 7:
				if kind == 1 {
					files := listDir(w.shardDir(i))
					if len(files) > 0 {
						fi := r.Intn(len(files))
						if len(files[fi].data) > 0 {
							if r.Chance(75, 100) {
								w.flip(i, fi, r.Intn(len(files[fi].data)), 1<<r.Intn(8))
							} else {
								w.chop(i, fi, r.Intn(len(files[fi].data)))
							}
							if r.Bool() {
								w.restart()
							}
							w.drainAll(true)
							for _, id := range w.sh[i].liveIDs() {
								w.get(i, id, w.sh[i].byID(id).time)
							}
						}
					}
				}
			}
		}()
	}
	if kind == 2 {
		// every byte offset of the final write (thorough) / boundaries + a few random ones (quick)
		i := r.Intn(w.n)
		data := w.genPut(r, i)
		total := int(consts.HeaderSize) + len(data)
		w.snapshot()
		var offs []int
		if h.Tier == "thorough" || total <= 24 {
			for n := 1; n <= total; n++ {
				offs = append(offs, n)
			}
		} else {
			set := map[int]bool{1: true, total: true, total - 1: true, len(data): true, len(data) + 1: true, total - 4: true}
			for len(set) < 10 {
				set[r.Range(1, total)] = true
			}
			for n := range set {
				if n >= 1 && n <= total {
					offs = append(offs, n)
				}
			}
			sort.Ints(offs)
		}
		if w.anyErasedOrRotated() {
			w.mark("tear-enum-after-erase-or-rotation")
		}
		for _, n := range offs {
			w.revert()
			w.tear(i, n)
			w.restart()
			w.drainAll(true)
			h.Stat("enum.tear-offsets", 1)
		}
		w.revert() // and the untorn directory
		w.drainAll(true)
	} else {
		w.restart()
		w.drainAll(true)
	}
	var tags []string
	for t := range w.nt {
		tags = append(tags, t)
	}
	sort.Strings(tags)
	for _, t := range tags {
		h.NonTrivial(t)
	}
}

// ---------------------------------------------------------------- size rotation (real 50 MB files, predicate-level correspondence)

func runBig(h *verifx.H, root string, ci int, r *verifx.Rng, buf []byte) {
	dir := filepath.Join(root, fmt.Sprintf("b%d", ci))
	must(os.MkdirAll(dir, 0o777))
	defer os.RemoveAll(dir)
	d, err := agent.MakeDiskBucketStorage(dir, 1, nolog)
	must(err)
	R := int(consts.FileRotateSize)
	H := int(consts.HeaderSize)
	M := int(consts.MaxChunkSize)
	switch ci {
	case 0, 1, 2: // the size limit of the writer against the size limit of the reader: REAL bodies of max, max-1, max+1 bytes
		ln := []int{M, M - 1, M + 1}[ci]
		h.Op("putprobe %d", ln)
		body := buf[:ln]
		id, err := d.PutBucket(0, 7, body)
		files := listStat(dir + "/0")
		if (err != nil) != (ln > M) {
			h.Viol("big-chunk-limit", "put of %d bytes: err=%v", ln, err)
		}
		if err == nil && (len(files) != 1 || files[0].size != int64(ln+H)) {
			h.Viol("big-put-size", "put of %d bytes left %d files", ln, len(files))
		}
		reread := false
		if err == nil {
			var sc []byte
			g, e := d.GetBucket(0, id, 7, &sc)
			if e != nil || !bytes.Equal(g, body) {
				h.Viol("returned-bytes-differ", "body of %d bytes not read back before the restart: %v", ln, e)
			}
			must(d.Close())
			d, err = agent.MakeDiskBucketStorage(dir, 1, nolog)
			must(err)
			tm, id2 := d.ReadNextTailBucket(0)
			reread = id2 != 0 && tm == 7
			if !reread {
				h.Viol("boundary-second-lost", "a body of %d bytes (maxChunkSize=%d) was accepted by PutBucket, never erased, but is not re-read after a restart (got time %d id %d)", ln, M, tm, id2)
			} else {
				g, e = d.GetBucket(0, id2, 7, &sc)
				if e != nil || !bytes.Equal(g, body) {
					h.Viol("returned-bytes-differ", "body of %d bytes not read back after the restart: %v", ln, e)
				}
				tot, _ := d.TotalFileSize(0)
				if tot != int64(ln+H) {
					h.Viol("total-mismatch", "boundary: total=%d want %d", tot, ln+H)
				}
			}
		}
		h.Obs("putprobe accept=%v reread=%v", err == nil, reread)
		h.Stat(fmt.Sprintf("big.putprobe%+d", ln-M), 1)
		h.NonTrivial("max-chunk-boundary")
		_ = d.Close()
		return
	case 3: // header-level probes of the tail reader with sparse files: chunk sizes max-1, max, max+1
		_ = d.Close()
		for k, ln := range []int{M - 1, M, M + 1} {
			pd := filepath.Join(dir, fmt.Sprintf("p%d", k))
			must(os.MkdirAll(filepath.Join(pd, "0"), 0o777))
			var hd [20]byte
			binary.LittleEndian.PutUint32(hd[0:], consts.MagicGood)
			binary.LittleEndian.PutUint32(hd[4:], 7)
			binary.LittleEndian.PutUint64(hd[8:], uint64(ln))
			fn := filepath.Join(pd, "0", "20200101_000000.000000000.seconds")
			must(os.WriteFile(fn, hd[:], 0o666))
			must(os.Truncate(fn, int64(ln+H))) // sparse: the reader only looks at the header and the file size
			h.Op("readprobe %d", ln)
			dd, err := agent.MakeDiskBucketStorage(pd, 1, nolog)
			must(err)
			tm, id := dd.ReadNextTailBucket(0)
			h.Obs("readprobe readable=%v", id != 0 && tm == 7)
			if ln <= M && id == 0 {
				h.Viol("boundary-second-lost", "the tail reader rejects a chunk of %d bytes that PutBucket accepts (maxChunkSize=%d)", ln, M)
			}
			_ = dd.Close()
			h.Stat(fmt.Sprintf("big.readprobe%+d", ln-M), 1)
		}
		h.NonTrivial("max-chunk-boundary")
		return
	}
	a := r.Range(R/2, R-100)          // first record body
	delta := []int{-1, 0, 1, 2, -20}[r.Intn(5)] // second put lands at R+delta
	b := R + delta - 2*H - a
	if b < 0 {
		b = 0
	}
	id1, err := d.PutBucket(0, 1, buf[:a])
	must(err)
	h.Op("sizerot %d %d", a+H, b)
	id2, err := d.PutBucket(0, 2, buf[a:a+b])
	must(err)
	files := listStat(dir + "/0")
	h.Obs("sizerot rot=%v", len(files) == 2)
	h.Stat(fmt.Sprintf("big.delta%+d", delta), 1)
	var sc []byte
	g1, e1 := d.GetBucket(0, id1, 1, &sc)
	ok1 := e1 == nil && bytes.Equal(g1, buf[:a])
	g2, e2 := d.GetBucket(0, id2, 2, &sc)
	ok2 := e2 == nil && bytes.Equal(g2, buf[a:a+b])
	if !ok1 || !ok2 {
		h.Viol("big-get", "big seconds not read back: %v %v", e1, e2)
	}
	must(d.Close())
	d, err = agent.MakeDiskBucketStorage(dir, 1, nolog)
	must(err)
	t1, i1 := d.ReadNextTailBucket(0)
	t2, i2 := d.ReadNextTailBucket(0)
	_, i3 := d.ReadNextTailBucket(0)
	if t1 != 1 || t2 != 2 || i1 == 0 || i2 == 0 || i3 != 0 {
		h.Viol("big-reread", "after restart got (%d,%d) (%d,%d) (_,%d)", t1, i1, t2, i2, i3)
	} else {
		g1, e1 = d.GetBucket(0, i1, 1, &sc)
		ok1 = e1 == nil && bytes.Equal(g1, buf[:a])
		g2, e2 = d.GetBucket(0, i2, 2, &sc)
		ok2 = e2 == nil && bytes.Equal(g2, buf[a:a+b])
		if !ok1 || !ok2 {
			h.Viol("big-get", "big seconds not read back after restart: %v %v", e1, e2)
		}
	}
	tot, _ := d.TotalFileSize(0)
	if tot != int64(a+b+2*H) {
		h.Viol("total-mismatch", "big: total=%d want %d", tot, a+b+2*H)
	}
	h.NonTrivial("size-rotation-boundary")
	must(d.Close())
}

// probeTornErase: two seconds in one file, the erase of the first torn after 3 bytes; is the second one re-read?
func probeTornErase() bool {
	dir := filepath.Join("/tmp/C09", fmt.Sprintf("probe-%d", os.Getpid()))
	must(os.MkdirAll(dir, 0o777))
	defer os.RemoveAll(dir)
	d, err := agent.MakeDiskBucketStorage(dir, 1, nolog)
	must(err)
	_, err = d.PutBucket(0, 11, []byte("a"))
	must(err)
	_, err = d.PutBucket(0, 12, []byte("bb"))
	must(err)
	must(d.Close())
	files := listDir(filepath.Join(dir, "0"))
	var m [4]byte
	binary.LittleEndian.PutUint32(m[:], consts.MagicDeleted)
	fp, err := os.OpenFile(filepath.Join(dir, "0", files[0].name), os.O_RDWR, 0)
	must(err)
	_, err = fp.WriteAt(m[:3], 0)
	must(err)
	must(fp.Close())
	d, err = agent.MakeDiskBucketStorage(dir, 1, nolog)
	must(err)
	defer d.Close()
	tm, id := d.ReadNextTailBucket(0)
	return id != 0 && tm == 12
}

func main() {
	h := verifx.New()
	if h.Mode == "gen" {
		fmt.Printf("-- generated by verif-c09 -mode=gen from the constants of internal/agent/disk_cache.go as compiled\n")
		fmt.Printf("namespace SH.Gen.C09\n")
		fmt.Printf("def magicGoodBucket : Nat := %d\n", consts.MagicGood)
		fmt.Printf("def magicDeletedBucket : Nat := %d\n", consts.MagicDeleted)
		fmt.Printf("def headerSize : Nat := %d\n", consts.HeaderSize)
		fmt.Printf("def fileRotateSize : Nat := %d\n", consts.FileRotateSize)
		fmt.Printf("def maxChunkSize : Nat := %d\n", consts.MaxChunkSize)
		fmt.Printf("def fileRotateIntervalSeconds : Nat := %d\n", int64(consts.FileRotateInterval/time.Second))
		fmt.Printf("/-- decision-site fact, probed on the real code: is the magic left by an erase torn after 3 bytes read as \"deleted\"? -/\n")
		fmt.Printf("def tornEraseAccepted : Bool := %v\n", probeTornErase())
		fmt.Printf("end SH.Gen.C09\n")
		return
	}
	signal.Ignore(syscall.SIGXFSZ) // a write beyond RLIMIT_FSIZE then fails with EFBIG instead of killing the harness
	root := filepath.Join("/tmp/C09", fmt.Sprintf("run-%d", os.Getpid()))
	must(os.MkdirAll(root, 0o777))
	defer os.RemoveAll(root)
	if h.Mode == "big" {
		buf := make([]byte, int(consts.FileRotateSize)+64)
		x := verifx.NewRng(h.Seed)
		for i := 0; i < len(buf); i += 8 {
			binary.LittleEndian.PutUint64(buf[i:], x.U64())
		}
		h.Cases(func(i int, r *verifx.Rng) { runBig(h, root, i, r, buf[:len(buf)-8]) })
	} else {
		h.Cases(func(i int, r *verifx.Rng) { runCase(h, root, i, r) })
	}
	h.Done()
	os.RemoveAll(root)
}
