//go:build verif

package agent

import (
	"sort"
	"time"
)

// Thin accessors for the /verif C09 harness. No logic of the disk cache is copied here.

type VerifC09Consts struct {
	MagicGood, MagicDeleted                  uint32
	HeaderSize, FileRotateSize, MaxChunkSize int64
	FileRotateInterval                       time.Duration
}

func VerifC09GetConsts() VerifC09Consts {
	return VerifC09Consts{magicGoodBucket, magicDeletedBucket, headerSize, fileRotateSize, maxChunkSize, fileRotateInterval}
}

func VerifC09ShardPath(d *DiskBucketStorage, shard int) string { return d.shards[shard].shardPath }

// VerifC09SetAge makes the writing file of the shard look `age` old (the clock is an input of the model).
func VerifC09SetAge(d *DiskBucketStorage, shard int, age time.Duration) bool {
	s := d.shards[shard]
	s.mu.Lock()
	defer s.mu.Unlock()
	if s.writingFile == nil {
		return false
	}
	s.writingFileCreatedTs = time.Now().Add(-age)
	return true
}

type VerifC09FileRef struct {
	Name     string
	RefCount int
	NextPos  int64
	Size     int64
}

type VerifC09State struct {
	LastID   int64
	Known    int
	Waiting  int
	Reading  string // "" = nil
	Writing  string
	Files    []VerifC09FileRef // every diskCacheFile object reachable from the shard, by name
}

func VerifC09GetState(d *DiskBucketStorage, shard int) VerifC09State {
	s := d.shards[shard]
	s.mu.Lock()
	defer s.mu.Unlock()
	st := VerifC09State{LastID: s.lastBucketID, Known: len(s.knownBuckets), Waiting: len(s.waitingFilesTail)}
	seen := map[*diskCacheFile]bool{}
	add := func(f *diskCacheFile) {
		if f == nil || seen[f] {
			return
		}
		seen[f] = true
		st.Files = append(st.Files, VerifC09FileRef{f.name, f.refCount, f.nextPos, f.size})
	}
	if s.readingFileTail != nil {
		st.Reading = s.readingFileTail.name
	}
	if s.writingFile != nil {
		st.Writing = s.writingFile.name
	}
	add(s.readingFileTail)
	add(s.writingFile)
	for _, b := range s.knownBuckets {
		add(b.file)
	}
	sort.Slice(st.Files, func(i, j int) bool { return st.Files[i].Name < st.Files[j].Name })
	return st
}

// VerifC09BucketLoc tells where on disk the bucket with this id lives (identity of a second for the oracle).
func VerifC09BucketLoc(d *DiskBucketStorage, shard int, id int64) (name string, pos int64, size int, ok bool) {
	s := d.shards[shard]
	s.mu.Lock()
	defer s.mu.Unlock()
	b, ok := s.knownBuckets[id]
	if !ok {
		return "", 0, 0, false
	}
	return b.file.name, b.pos, b.size, true
}

// VerifC09Waiting lists the tail files that were stat-ed at start-up and not yet opened by the tail reader.
func VerifC09Waiting(d *DiskBucketStorage, shard int) []string {
	s := d.shards[shard]
	s.mu.Lock()
	defer s.mu.Unlock()
	var out []string
	for _, w := range s.waitingFilesTail {
		out = append(out, w.name)
	}
	return out
}
