//go:build verif

// verif-c10: correspondence + direct oracle for shard / replica routing (DESIGN §6 C10).
//
//	case kinds (i % 4):  0 shard choice (case 0: exhaustive grid), 1 replica choice (case 1: exhaustive grid),
//	                     2,3 aggregator: real advanceRecentBuckets + real handleSendSourceBucket
//	-mode=gen -arg=<repo root>  prints lean/SH/Gen/C10.lean (constants as compiled + the text of goTicker's guard)
package main

import (
	"bytes"
	"fmt"
	"go/ast"
	"go/parser"
	"go/printer"
	"go/token"
	"os"
	"path/filepath"
	"sort"
	"strings"

	"github.com/VKCOM/statshouse/internal/agent"
	"github.com/VKCOM/statshouse/internal/aggregator"
	"github.com/VKCOM/statshouse/internal/data_model"
	"github.com/VKCOM/statshouse/internal/format"
	"github.com/VKCOM/statshouse/internal/sharding"
	"github.com/VKCOM/statshouse/internal/verifx"
)

var h *verifx.H

// ------------------------------------------------------------------------------------------------ shard choice

var strategies = []struct{ tok, val string }{
	{"f", format.ShardFixed}, {"m", format.ShardByMetricID}, {"h", format.ShardByTagsHash},
	{"b", format.ShardBuiltinDist}, {"x", "no_such_strategy"},
}

type shardIn struct {
	fk     uint32
	st     int
	num    uint32
	mid    int32
	km     int32
	fk2    uint32
	cnt    uint32
	ns     int
	tags   [format.MaxTags]int32
	stags  [format.MaxTags]string
	emitKey bool
	ts     uint32
	fk2ts  uint32
}

type shardOut struct {
	raw, ag, api string
	s1, s2       int
	ok           bool
	rawN         uint32
	rawOK        bool
	apiN         int
	sharded      bool
	panicked     bool
	hash         uint64
}

var agentCache = map[[2]uint32]*agent.Agent{}

func agentFor(ns int, cnt uint32) *agent.Agent {
	k := [2]uint32{uint32(ns), cnt}
	if a, ok := agentCache[k]; ok {
		return a
	}
	if len(agentCache) > 4096 {
		agentCache = map[[2]uint32]*agent.Agent{}
	}
	a := agent.VerifC10Agent(ns, cnt)
	agentCache[k] = a
	return a
}

func (in *shardIn) key(ts uint32) *data_model.Key {
	k := &data_model.Key{Timestamp: ts, Metric: in.km}
	k.Tags = in.tags
	k.STags = in.stags
	return k
}

func (in *shardIn) meta() *format.MetricMetaValue {
	return &format.MetricMetaValue{MetricID: in.mid, ShardStrategy: strategies[in.st].val, ShardNum: in.num,
		ShardFixedKey: in.fk, ShardFixedKey2: in.fk2, ShardFixedKey2Timestamp: in.fk2ts}
}

func evalShard(in *shardIn, ts uint32) (o shardOut) {
	meta := in.meta()
	var scratch []byte
	_, o.hash = in.key(ts).XXHash(nil)
	func() {
		defer func() {
			if r := recover(); r != nil {
				o.raw, o.panicked = "panic", true
			}
		}()
		o.rawN, o.rawOK = sharding.Shard(in.key(ts), meta, in.cnt, &scratch)
		o.raw = fmt.Sprintf("%d:%d", o.rawN, b2i(o.rawOK))
	}()
	func() {
		defer func() {
			if r := recover(); r != nil {
				o.ag, o.panicked = "panic", true
			}
		}()
		o.s1, o.ok, o.s2 = agent.VerifC10Shard(agentFor(in.ns, in.cnt), in.key(ts), meta, &scratch)
		s2 := "-"
		if o.s2 >= 0 {
			s2 = fmt.Sprint(o.s2)
		}
		o.ag = fmt.Sprintf("%d:%d:%s", o.s1, b2i(o.ok), s2)
	}()
	func() {
		defer func() {
			if r := recover(); r != nil {
				o.api, o.panicked = "panic", true
			}
		}()
		o.sharded = meta.Sharded()
		o.apiN = meta.Shard(int(in.cnt))
		o.api = fmt.Sprintf("%d:%d", o.apiN, b2i(o.sharded))
	}()
	return o
}

func b2i(b bool) int {
	if b {
		return 1
	}
	return 0
}

// the bytes Key.XXHash hashes: MarshalAppend output without its first four bytes
func doKey(in *shardIn) {
	k := in.key(in.ts)
	scr, _ := k.XXHash(nil)
	tags := make([]int32, len(k.Tags))
	copy(tags, k.Tags[:])
	st := make([]string, len(k.STags))
	for i, s := range k.STags {
		st[i] = verifx.Hex([]byte(s))
	}
	h.Op("key %d %d %s %s", k.Timestamp, k.Metric, verifx.List(tags), strings.Join(st, ","))
	h.Obs("m=%s in=%s", verifx.Hex(scr), verifx.Hex(scr[4:]))
	h.Stat("key.marshalled", 1)
	k2 := in.key(in.ts ^ 0x5a5a5a5a)
	scr2, _ := k2.XXHash(nil)
	if !bytes.Equal(scr[4:], scr2[4:]) {
		h.Viol("hash-input-depends-on-timestamp", "bytes hashed for ts %d: %x, for ts %d: %x", k.Timestamp, scr[4:], k2.Timestamp, scr2[4:])
	}
}

func doShard(in *shardIn, r *verifx.Rng) {
	if in.emitKey {
		doKey(in)
	}
	o := evalShard(in, in.ts)
	h.Op("shard %d %s %d %d %d %d %d %d %d", in.fk, strategies[in.st].tok, in.num, in.mid, in.km, in.fk2, in.cnt, in.ns, o.hash)
	h.Obs("raw=%s agent=%s api=%s", o.raw, o.ag, o.api)
	h.Stat("shard.strategy."+strategies[in.st].tok, 1)
	if in.fk > 0 {
		h.Stat("shard.fixedKey", 1)
	}
	if o.panicked {
		h.Stat("shard.panic(count=0)", 1)
		return
	}
	if !o.ok {
		h.Stat("shard.notOk", 1)
	}
	if o.s2 >= 0 {
		h.Stat("shard.secondary", 1)
	}
	// ---- direct oracle on the real outputs
	if o.s1 < 0 || o.s1 >= in.ns {
		h.Viol("shard-out-of-range", "agent shard %d outside [0,%d) for %+v", o.s1, in.ns, *in)
	}
	if o.ok && int(o.rawN) != o.s1 {
		h.Viol("shard-accepted-differs", "Agent.shard accepted %d but sharding.Shard returned %d", o.s1, o.rawN)
	}
	if o.s2 >= 0 && (o.s2 == o.s1 || o.s2 >= in.ns) {
		h.Viol("shard2-equals-shard1", "secondary shard %d primary %d shards %d", o.s2, o.s1, in.ns)
	}
	for k := 0; k < 3; k++ { // the event timestamp (and the shard2 switch-over timestamp) must not matter
		ts2 := uint32(r.U64())
		if k == 0 {
			ts2 = in.ts + 1
		}
		o2 := evalShard(in, ts2)
		if o2.raw != o.raw || o2.ag != o.ag || o2.api != o.api {
			h.Viol("shard-depends-on-timestamp", "ts %d -> %s/%s, ts %d -> %s/%s for %+v", in.ts, o.raw, o.ag, ts2, o2.raw, o2.ag, *in)
		}
	}
	// agent and API agree for fixed / by-metric sharding (same metric id on both sides, same by-metric count).
	// The API side is chutil: shard = meta.Shard(byMetricShards); a shard >= the real shard count means "ask all shards".
	// So whenever the API reads ONE specific shard, the agent must have written the metric to exactly that shard —
	// also when the by-metric count is smaller than the number of shards (cluster grown, by-metric metrics pinned).
	if o.sharded && in.mid == in.km && in.cnt >= 1 { // by-metric count 0 is not a configuration the aggregator hands out
		if o.apiN >= 0 && o.apiN < in.ns {
			h.Stat("shard.agreeChecked", 1)
			if in.cnt < uint32(in.ns) {
				h.Stat("shard.agreeChecked(byMetric<shards)", 1)
				if uint32(o.apiN) >= in.cnt {
					h.Stat("shard.agreeChecked(shard>=byMetric)", 1)
				}
			}
			if !o.ok || o.apiN != o.s1 {
				h.Viol("agent-api-shard-differ", "API reads shard %d of %d (by-metric count %d); agent writes shard %d ok=%v for %+v",
					o.apiN, in.ns, in.cnt, o.s1, o.ok, *in)
			}
		} else if o.ok {
			h.Viol("agent-api-shard-differ", "agent accepted shard %d but the API reads all shards (Shard()=%d of %d) for %+v", o.s1, o.apiN, in.ns, *in)
		}
	}
	if !o.sharded && o.apiN != -1 {
		h.Viol("api-shard-for-unsharded", "Sharded()=false but Shard()=%d", o.apiN)
	}
}

func randShard(r *verifx.Rng) *shardIn {
	in := &shardIn{}
	in.ns = []int{1, 2, 3, 5, 8, 16, 17, 64, r.Range(1, 64)}[r.Intn(9)]
	switch r.Pick(6, 2, 1, 1) {
	case 0:
		in.cnt = uint32(r.Range(1, in.ns))
	case 1:
		in.cnt = uint32(in.ns)
	case 2:
		in.cnt = uint32(r.Range(in.ns, in.ns+3)) // misconfiguration: more by-metric shards than shards
	default:
		in.cnt = 0
	}
	in.st = r.Pick(4, 4, 4, 1, 1)
	edge := func() uint32 {
		switch r.Pick(4, 2, 2, 2, 1, 1) {
		case 0:
			return 0
		case 1:
			return uint32(r.Range(1, in.ns))
		case 2:
			return uint32(in.ns)
		case 3:
			return uint32(in.ns + 1)
		case 4:
			return uint32(r.U64())
		default:
			return ^uint32(0)
		}
	}
	in.fk = edge()
	in.fk2 = edge()
	if r.Chance(1, 4) && in.fk > 0 {
		in.fk2 = in.fk
	}
	switch r.Pick(3, 2, 1, 1) {
	case 0:
		in.num = uint32(r.Intn(in.ns))
	case 1:
		in.num = uint32(in.ns) - uint32(r.Intn(2))
	case 2:
		in.num = uint32(r.U64())
	default:
		in.num = 0
	}
	switch r.Pick(3, 3, 1, 1) {
	case 0:
		in.mid = int32(r.Range(1, 100000))
	case 1:
		in.mid = -int32(r.Range(1, 2000)) // built-in metrics have negative ids
	case 2:
		in.mid = int32(uint32(r.U64()))
	default:
		in.mid = []int32{0, -1, 1<<31 - 1, -1 << 31}[r.Intn(4)]
	}
	in.km = in.mid
	if r.Chance(1, 10) {
		in.km = int32(uint32(r.U64()))
	}
	nt := r.Intn(20)
	if r.Chance(1, 5) {
		nt = format.MaxTags - r.Intn(3)
	}
	for i := 0; i < nt; i++ {
		switch r.Pick(4, 2, 1) {
		case 0:
			in.tags[i] = int32(r.Intn(1000))
		case 1:
			in.tags[i] = 0
		default:
			in.tags[i] = int32(uint32(r.U64()))
		}
	}
	for i := r.Intn(17); i > 0; i-- { // string tags anywhere, empty ones in between and at the end
		if r.Chance(2, 3) {
			in.stags[r.Intn(format.MaxTags)] = string(r.Bytes(r.Range(1, 5)))
		}
	}
	in.emitKey = true
	in.ts = uint32(r.U64())
	in.fk2ts = uint32(r.U64())
	return in
}

func shardGrid(maxNS int) {
	r := verifx.NewRng(7)
	n := 0
	for st := range strategies {
		for ns := 1; ns <= maxNS; ns++ {
			for _, cnt := range uniq(1, ns/2, ns, ns+1) {
				for _, fk := range uniq(0, 1, ns, ns+1) {
					for _, fk2 := range uniq(0, 1, 2, ns, ns+1) {
						for _, num := range uniq(0, ns-1, ns) {
							for _, mid := range []int32{0, 7, -7, int32(ns), -1 << 31} {
								in := &shardIn{fk: uint32(fk), st: st, num: uint32(num), mid: mid, km: mid, fk2: uint32(fk2),
									cnt: uint32(cnt), ns: ns, ts: 1700000000 + uint32(n)}
								in.tags[1] = int32(n)
								doShard(in, r)
								n++
							}
						}
					}
				}
			}
		}
	}
	// every shard index (incl. the highest) as fixed key / fixed_shard number, under every relation of the by-metric
	// count to the number of shards: 1, below, equal
	for ns := 1; ns <= maxNS; ns++ {
		for _, cnt := range uniq(1, ns/2, ns-1, ns) {
			if cnt == 0 {
				continue
			}
			for idx := 0; idx < ns; idx++ {
				for _, st := range []int{0, 1, 2} {
					for _, viaKey := range []bool{true, false} {
						in := &shardIn{st: st, mid: int32(100 + idx), km: int32(100 + idx), cnt: uint32(cnt), ns: ns, ts: 1700000000 + uint32(n)}
						if viaKey {
							in.fk = uint32(idx + 1)
						} else if st == 0 {
							in.num = uint32(idx)
						} else {
							continue
						}
						doShard(in, r)
						n++
					}
				}
			}
		}
	}
	h.Stat("shard.gridPoints", int64(n))
}

func uniq(xs ...int) []int {
	var out []int
	seen := map[int]bool{}
	for _, x := range xs {
		if x >= 0 && !seen[x] {
			seen[x] = true
			out = append(out, x)
		}
	}
	return out
}

// ------------------------------------------------------------------------------------------------ replica choice

func doReplica(ns, shard int, t uint32, mask int) (rep int, spare bool) {
	a := agentFor(ns, 1)
	for i := 0; i < 3; i++ {
		agent.VerifC10SetAlive(a, shard*3+i, mask&(1<<i) != 0)
	}
	num, spare := agent.VerifC10Replica(a, shard, t)
	for i := 0; i < 3; i++ {
		agent.VerifC10SetAlive(a, shard*3+i, true)
	}
	h.Op("rep %d %d %d %d", ns, shard, t, mask)
	rs := "-"
	rep = -1
	if num >= 0 {
		if num/3 != shard {
			h.Viol("replica-of-other-shard", "shard %d second %d got shard-replica %d", shard, t, num)
		}
		rep = num - shard*3
		rs = fmt.Sprint(rep)
	}
	h.Obs("r=%s spare=%d", rs, b2i(spare))
	h.Stat(fmt.Sprintf("replica.mask%d", mask), 1)
	return rep, spare
}

// oracle over 6 consecutive seconds starting at t0 (no wrap inside): primary alive -> one primary per second, not spare;
// primary dead -> the spare is another replica; over the window each primary's two spares are the two others, once each.
func replicaWindow(ns, shard int, t0 uint32) {
	spares := map[int][]int{}
	for d := uint32(0); d < 6; d++ {
		t := t0 + d
		p, sp := doReplica(ns, shard, t, 7)
		if p < 0 || p > 2 || sp {
			h.Viol("primary-missing", "second %d all alive: replica %d spare %v", t, p, sp)
			continue
		}
		// a live primary is used whatever the state of the others
		for _, m := range []int{1 << p, 7 &^ (1 << ((p + 1) % 3)), 7 &^ (1 << ((p + 2) % 3))} {
			p2, sp2 := doReplica(ns, shard, t, m)
			if p2 != p || sp2 {
				h.Viol("primary-not-deterministic", "second %d mask %d: replica %d spare %v, primary is %d", t, m, p2, sp2, p)
			}
		}
		q, sq := doReplica(ns, shard, t, 7&^(1<<p))
		if q < 0 || !sq {
			h.Viol("spare-missing", "second %d primary %d dead: replica %d spare %v", t, p, q, sq)
			continue
		}
		if q == p {
			h.Viol("spare-equals-primary", "second %d primary %d spare %d", t, p, q)
		}
		spares[p] = append(spares[p], q)
		// the spare choice does not depend on the third replica
		third := 3 - p - q
		if q2, _ := doReplica(ns, shard, t, 1<<q); q2 != q {
			h.Viol("spare-not-deterministic", "second %d primary %d: spare %d, with third (%d) dead too %d", t, p, q, third, q2)
		}
		if n, _ := doReplica(ns, shard, t, 1<<third); n != -1 {
			h.Viol("third-replica-used", "second %d primary %d spare %d both dead: got %d", t, p, q, n)
		}
		doReplica(ns, shard, t, 0)
	}
	for p := 0; p < 3; p++ {
		s := append([]int(nil), spares[p]...)
		sort.Ints(s)
		want := []int{(p + 1) % 3, (p + 2) % 3}
		sort.Ints(want)
		if fmt.Sprint(s) != fmt.Sprint(want) {
			h.Viol("spare-unbalanced", "window %d..%d primary %d spares %v, want %v once each", t0, t0+5, p, s, want)
		}
	}
}

// ------------------------------------------------------------------------------------------------ aggregator

var warnTok = map[string]string{
	"historic bucket time is too far in the future":                 "future-historic",
	"Successfully discarded historic bucket beyond historic window": "beyond-window",
	"bucket time is too far in the future":                          "future-recent",
	"bucket time is too far in the past for recent conveyor":        "late-recent",
}

var (
	aggV    *aggregator.VerifC10
	aggUses int
)

func aggCase(r *verifx.Rng) {
	rk := int32(r.Range(1, 3))
	sk := int32(r.Range(1, 4))
	minSW, maxSW := 3, aggregator.VerifC10MaxShortWindow() // the range ConfigAggregatorRemote.Validate allows
	sw := r.Range(minSW, maxSW)
	if r.Chance(1, 8) {
		sw = r.Range(1, 9)
		minSW, maxSW = 1, 9
	}
	hw := []uint32{0, 1, 3, 10, 100, 86400, 172800}[r.Intn(7)]
	if aggV == nil || aggUses >= 200 { // the built-in agent keeps every metric row it is given: renew it now and then
		var err error
		if aggV, err = aggregator.VerifC10New(sk, rk, sw, hw); err != nil {
			h.Obs("panic new %v", err)
			return
		}
		aggUses = 0
	}
	aggUses++
	v := aggV
	v.Reset(sk, rk, sw, hw)
	h.Op("agg new %d %d %d", rk, sw, hw)
	now := uint32(r.Range(1000, 2000000000))
	if r.Chance(1, 10) {
		now = uint32(r.Range(sw, sw+200)) // clock near zero: historic window larger than the clock
	}
	pending := map[uint32]bool{} // times of recent buckets that accepted data and were not handed out yet
	var window []uint32
	advance := func(initial bool) {
		ready, win := v.Advance(now, initial)
		window = win
		h.Op("agg adv %d", now)
		h.Obs("win=%s ready=%s", verifx.List(win), verifx.List(ready))
		for _, t := range ready {
			delete(pending, t)
		}
		for i, t := range win {
			if t != win[0]+uint32(i) {
				h.Viol("window-not-contiguous", "recentBuckets times %v", win)
				break
			}
		}
		inWin := map[uint32]bool{}
		for _, t := range win {
			inWin[t] = true
		}
		for t := range pending {
			if !inWin[t] {
				h.Viol("accepted-second-lost", "bucket %d accepted data, left the window and was not handed to the inserters", t)
				delete(pending, t)
			}
		}
	}
	advance(true)
	nOps := r.Range(8, 30)
	sawHist, sawRecent, sawRound := false, false, false
	for k := 0; k < nOps; k++ {
		if r.Chance(1, 7) { // remote config changes ShortWindow while running: +-1, +-2, or anywhere in the range
			nsw := sw
			switch r.Pick(3, 3, 3, 3, 2) {
			case 0:
				nsw = sw + 1
			case 1:
				nsw = sw + 2
			case 2:
				nsw = sw - 1
			case 3:
				nsw = sw - 2
			default:
				nsw = r.Range(minSW, maxSW)
			}
			if nsw < minSW {
				nsw = minSW
			}
			if nsw > maxSW {
				nsw = maxSW
			}
			h.Stat(fmt.Sprintf("agg.shortWindow.delta%+d", nsw-sw), 1)
			sw = nsw
			v.SetShortWindow(sw)
			h.Op("agg sw %d", sw)
			if r.Bool() { // usually the next tick follows; sometimes sends arrive first
				now++
				advance(false)
			}
			continue
		}
		if r.Chance(1, 4) {
			switch r.Pick(10, 3, 1, 1) {
			case 0:
				now++
			case 1:
				now += uint32(r.Range(2, 4))
			case 2:
				now += uint32(r.Range(5, 40)) // jump into the future: whole window replaced
			default:
				if now > 50 {
					now -= uint32(r.Range(1, 3)) // clock stepped back
				}
			}
			advance(false)
			continue
		}
		oldest, newest := window[0], window[len(window)-1]
		var t uint32
		switch r.Pick(10, 3, 3, 2, 2, 1) {
		case 0:
			t = oldest + uint32(r.Intn(len(window)))
		case 1:
			t = newest - uint32(r.Intn(4)) + uint32(r.Intn(6)) // around the newest edge
		case 2:
			t = sub(oldest, uint32(r.Intn(5))) // just below the oldest edge
		case 3:
			t = sub(sub(oldest, hw), uint32(r.Intn(5))) + uint32(r.Intn(5)) // around oldest - historicWindow
		case 4:
			t = sub(oldest, uint32(r.Intn(int(hw)+2)))
		default:
			t = ^uint32(0) - uint32(r.Intn(4)) // rounding wraps around 2^32
		}
		historic := r.Chance(2, 5)
		spare := r.Bool()
		res := v.Send(t, historic, spare)
		h.Op("agg send %d %d %d", t, b2i(historic), b2i(spare))
		switch {
		case res.Err != nil:
			h.Obs("error")
		case res.Longpoll && res.Where == "recent":
			h.Obs("recent idx=%d bt=%d", res.Index, res.BucketTime)
		case res.Longpoll && res.Where == "historic":
			h.Obs("historic key=%d", res.Key)
		case res.Longpoll:
			h.Obs("parked-nowhere")
		default:
			w, ok := warnTok[res.Warning]
			if !ok {
				w = "other:" + strings.ReplaceAll(res.Warning, " ", "_")
			}
			h.Obs("reject %s discard=%d", w, b2i(res.Discard))
			h.Stat("agg.reject."+w, 1)
		}
		// ---- direct oracle: an accepted second sits in a bucket this replica inserts, at most 2 s later, or in the historic queue
		if res.Err == nil && res.Longpoll {
			switch res.Where {
			case "recent":
				sawRecent = true
				h.Stat("agg.accept.recent", 1)
				if historic {
					h.Stat("agg.accept.recent(historic flag)", 1)
				}
				if res.BucketTime%3 != uint32(rk-1) {
					h.Viol("filed-in-foreign-bucket", "second %d filed into bucket %d which replica %d never inserts", t, res.BucketTime, rk)
				}
				// t within 2 of the uint32 limit: the rounding loop wraps to second 0..2 (hypothesis t+2 < 2^32 of
				// theorem filed_in_own_bucket; reachable only with an aggregator clock within seconds of the epoch)
				if t <= ^uint32(0)-2 && (res.BucketTime < t || res.BucketTime-t > 2) {
					h.Viol("filed-too-far", "second %d filed into bucket %d (allowed %d..%d)", t, res.BucketTime, t, t+2)
				}
				if res.BucketTime != t {
					sawRound = true
					h.Stat("agg.accept.rounded", 1)
				}
				if res.Index < 0 || res.Index >= len(window) || window[res.Index] != res.BucketTime {
					h.Viol("bucket-outside-window", "bucket %d index %d window %v", res.BucketTime, res.Index, window)
				}
				pending[res.BucketTime] = true
			case "historic":
				sawHist = true
				h.Stat("agg.accept.historic", 1)
				if !historic {
					h.Viol("recent-into-historic", "recent second %d filed into the historic queue", t)
				}
				if res.Key != t || res.BucketTime != t {
					h.Viol("historic-wrong-key", "second %d filed under historic key %d bucket time %d", t, res.Key, res.BucketTime)
				}
			default:
				h.Viol("accepted-but-unfiled", "second %d accepted but the bucket is neither recent nor historic", t)
			}
		}
	}
	// drain: every bucket that accepted data must be handed out by advanceRecentBuckets
	if last := window[len(window)-1]; last > now { // the clock may have been stepped back
		now = last
	}
	now += uint32(sw + aggregator.VerifC10FutureWindow() + 3)
	advance(false)
	for t := range pending {
		h.Viol("accepted-second-lost", "bucket %d accepted data and was never handed to the inserters", t)
	}
	if sawHist && sawRecent && sawRound {
		h.NonTrivial("recent+rounded+historic")
	}
}

func sub(a, b uint32) uint32 {
	if b > a {
		return 0
	}
	return a - b
}

// ------------------------------------------------------------------------------------------------ gen

func exprString(fset *token.FileSet, n ast.Node) string {
	var b bytes.Buffer
	_ = printer.Fprint(&b, fset, n)
	return strings.Join(strings.Fields(b.String()), " ")
}

func endsWith(body *ast.BlockStmt, tok token.Token) bool {
	if len(body.List) == 0 {
		return false
	}
	br, ok := body.List[len(body.List)-1].(*ast.BranchStmt)
	return ok && br.Tok == tok
}

// goTicker: inside `for _, aggBucket := range readyBuckets`, the conditions of the if-statements that end in
// `continue` and come before the channel send `a.bucketsToSend <- aggBucket`.
func tickerFacts(repo string) (rangeOver string, source string, skips []string, sendFound bool, err error) {
	fset := token.NewFileSet()
	f, err := parser.ParseFile(fset, filepath.Join(repo, "internal/aggregator/aggregator.go"), nil, 0)
	if err != nil {
		return "", "", nil, false, err
	}
	for _, d := range f.Decls {
		fd, ok := d.(*ast.FuncDecl)
		if !ok || fd.Name.Name != "goTicker" {
			continue
		}
		ast.Inspect(fd.Body, func(n ast.Node) bool {
			if as, ok := n.(*ast.AssignStmt); ok && len(as.Lhs) == 1 && exprString(fset, as.Lhs[0]) == "readyBuckets" {
				source = exprString(fset, as.Rhs[0])
			}
			rs, ok := n.(*ast.RangeStmt)
			if !ok || exprString(fset, rs.Value) != "aggBucket" {
				return true
			}
			rangeOver = exprString(fset, rs.X)
			for _, st := range rs.Body.List {
				if is, ok := st.(*ast.IfStmt); ok && endsWith(is.Body, token.CONTINUE) && !sendFound {
					skips = append(skips, exprString(fset, is.Cond))
				}
				ast.Inspect(st, func(m ast.Node) bool {
					if s, ok := m.(*ast.SendStmt); ok && exprString(fset, s.Chan) == "a.bucketsToSend" && exprString(fset, s.Value) == "aggBucket" {
						sendFound = true
					}
					return true
				})
			}
			return false
		})
	}
	return rangeOver, source, skips, sendFound, nil
}

// chutil: the statement that asks the metric for its shard and the clamp that follows it
func apiFacts(repo string) (call, clampCond, clampBody, zeroCond, zeroBody string, err error) {
	fset := token.NewFileSet()
	f, err := parser.ParseFile(fset, filepath.Join(repo, "internal/chutil/chutil.go"), nil, 0)
	if err != nil {
		return "", "", "", "", "", err
	}
	ast.Inspect(f, func(n ast.Node) bool {
		blk, ok := n.(*ast.BlockStmt)
		if !ok {
			return true
		}
		for i, st := range blk.List {
			as, ok := st.(*ast.AssignStmt)
			if !ok || len(as.Rhs) != 1 || !strings.Contains(exprString(fset, as.Rhs[0]), ".Shard(") || call != "" {
				continue
			}
			call = exprString(fset, as)
			if i+1 < len(blk.List) {
				if is, ok := blk.List[i+1].(*ast.IfStmt); ok {
					clampCond, clampBody = exprString(fset, is.Cond), exprString(fset, is.Body)
				}
			}
			if i > 0 {
				if is, ok := blk.List[i-1].(*ast.IfStmt); ok {
					zeroCond, zeroBody = exprString(fset, is.Cond), exprString(fset, is.Body)
				}
			}
		}
		return true
	})
	return
}

func leanStr(s string) string { return "\"" + strings.ReplaceAll(strings.ReplaceAll(s, "\\", "\\\\"), "\"", "\\\"") + "\"" }

func gen(repo string) {
	rangeOver, source, skips, sendFound, err := tickerFacts(repo)
	if err != nil {
		fmt.Fprintln(os.Stderr, err)
		os.Exit(1)
	}
	call, clampCond, clampBody, zeroCond, zeroBody, err := apiFacts(repo)
	if err != nil {
		fmt.Fprintln(os.Stderr, err)
		os.Exit(1)
	}
	qs := make([]string, len(skips))
	for i, s := range skips {
		qs[i] = leanStr(s)
	}
	fmt.Printf(`/- GENERATED by verif-c10 -mode=gen from the working tree on every run of bin/check C10. Do not edit. -/
namespace SH.Gen.C10

/-- data_model.FutureWindow as compiled -/
def futureWindow : Nat := %d
/-- data_model.MaxShortWindow as compiled -/
def maxShortWindow : Nat := %d
/-- goTicker: what the loop that feeds the inserters ranges over, and where that comes from -/
def tickerRangeOver : String := %s
def tickerSource : String := %s
/-- goTicker: conditions under which a ready bucket is skipped (`+"`continue`"+`) before `+"`a.bucketsToSend <- aggBucket`"+` -/
def tickerSkipConds : List String := [%s]
def tickerSends : Bool := %v
/-- chutil: how the API picks the shard to read (the call, the clamp after it, the default before it) -/
def apiShardCall : String := %s
def apiClampCond : String := %s
def apiClampBody : String := %s
def apiZeroCond : String := %s
def apiZeroBody : String := %s

end SH.Gen.C10
`, aggregator.VerifC10FutureWindow(), aggregator.VerifC10MaxShortWindow(), leanStr(rangeOver), leanStr(source), strings.Join(qs, ", "), sendFound,
		leanStr(call), leanStr(clampCond), leanStr(clampBody), leanStr(zeroCond), leanStr(zeroBody))
}

// ------------------------------------------------------------------------------------------------ main

func main() {
	h = verifx.New()
	if h.Mode == "gen" {
		gen(h.Arg)
		return
	}
	h.Cases(func(i int, r *verifx.Rng) {
		switch {
		case i == 0:
			maxNS := 12
			if h.Tier == "thorough" {
				maxNS = 64
			}
			shardGrid(maxNS)
			h.NonTrivial("shard-grid")
		case i == 1:
			for _, t0 := range []uint32{0, 1, 2, 3, 4, 5, 6, 1700000000, 1<<31 - 3, 1<<32 - 12, 1<<32 - 8} {
				for _, ns := range []int{1, 3} {
					replicaWindow(ns, ns-1, t0)
				}
			}
			// the last seconds of the uint32 range, where timestamp+1+timestamp%%2 wraps
			for t := ^uint32(0) - 7; t != 0; t++ {
				for m := 0; m < 8; m++ {
					doReplica(2, 1, t, m)
				}
			}
			h.NonTrivial("replica-grid")
		case i%4 == 0:
			n := 40
			any2 := false
			for k := 0; k < n; k++ {
				in := randShard(r)
				doShard(in, r)
				any2 = any2 || in.fk2 > 0
			}
			if any2 {
				h.NonTrivial("shard-random")
			}
		case i%4 == 1:
			ns := r.Range(1, 8)
			replicaWindow(ns, r.Intn(ns), uint32(r.U64()%(1<<32-16)))
			h.NonTrivial("replica-window")
		default:
			aggCase(r)
		}
	})
	h.Done()
}
