//go:build verif

package aggregator

// Thin accessors for the C10 harness. No routing logic lives here: VerifC10 builds a minimal but REAL
// *Aggregator (same struct literal fields MakeAggregator fills for the handler) and calls the repo's own
// advanceRecentBuckets and handleSendSourceBucket; the only observation taken is which *aggregatorBucket the
// handler passed to hctx.StartLongpoll (through the rpc package's documented mock seam HandlerContext.ResetTo).

import (
	"context"
	"fmt"
	"net"
	"time"

	"github.com/VKCOM/tl/pkg/rpc"

	"github.com/VKCOM/statshouse/internal/agent"
	"github.com/VKCOM/statshouse/internal/data_model"
	"github.com/VKCOM/statshouse/internal/data_model/gen2/tlstatshouse"
	"github.com/VKCOM/statshouse/internal/format"
	"github.com/VKCOM/statshouse/internal/metajournal"
)

type verifConn struct {
	last  rpc.LongpollCanceller
	calls int
}

func (c *verifConn) StartLongpoll(hctx *rpc.HandlerContext, canceller rpc.LongpollCanceller) (rpc.LongpollHandle, error) {
	c.last = canceller
	c.calls++
	return rpc.LongpollHandle{QueryID: int64(c.calls), CommonConn: c}, nil
}
func (c *verifConn) CancelLongpoll(queryID int64) (rpc.LongpollCanceller, int64) { return nil, 0 }
func (c *verifConn) FinishLongpoll(rpc.LongpollHandle) (*rpc.HandlerContext, error) {
	return nil, fmt.Errorf("verif")
}
func (c *verifConn) DebugName() string                                 { return "verif" }
func (c *verifConn) SendResponse(hctx *rpc.HandlerContext, err error)  {}
func (c *verifConn) SendEmptyResponse(lh rpc.LongpollHandle)           {}
func (c *verifConn) AccountResponseMem(*rpc.HandlerContext, int) error { return nil }
func (c *verifConn) ListenAddr() net.Addr                              { return &net.TCPAddr{IP: net.IPv4(127, 0, 0, 1), Port: 1} }
func (c *verifConn) LocalAddr() net.Addr                               { return &net.TCPAddr{IP: net.IPv4(127, 0, 0, 1), Port: 1} }
func (c *verifConn) RemoteAddr() net.Addr                              { return &net.TCPAddr{IP: net.IPv4(127, 0, 0, 2), Port: 2} }
func (c *verifConn) KeyID() [4]byte                                    { return [4]byte{} }
func (c *verifConn) ProtocolVersion() uint32                           { return 0 }
func (c *verifConn) ProtocolTransportID() byte                         { return 0 }
func (c *verifConn) ConnectionID() uintptr                             { return 0 }

type VerifC10 struct {
	a    *Aggregator
	conn *verifConn
}

// VerifC10New: aggregator for shard shardKey / replica replicaKey (1-based as in the config) with the given
// recent window and historic window. The built-in agent (sh2) is the real one, created the way MakeAggregator
// creates it (config handed over instead of fetched by RPC); it is never Run, so nothing is sent anywhere.
func VerifC10New(shardKey, replicaKey int32, shortWindow int, historicWindow uint32) (*VerifC10, error) {
	config := DefaultConfigAggregator()
	config.RemoteInitial.ShortWindow = shortWindow
	config.RemoteInitial.DenyOldAgents = false
	a := &Aggregator{
		bucketsToSend:   make(chan *aggregatorBucket),
		hostBudgetCache: map[data_model.TagUnion][]tlstatshouse.MetricBudget{},
		historicBuckets: map[uint32]*aggregatorBucket{},
		historicHosts:   [2][2]map[data_model.TagUnion]int64{{map[data_model.TagUnion]int64{}, map[data_model.TagUnion]int64{}}, {map[data_model.TagUnion]int64{}, map[data_model.TagUnion]int64{}}},
		config:          config,
		configR:         config.RemoteInitial,
		shardKey:        shardKey,
		replicaKey:      replicaKey,
		mappingsStorage: metajournal.MakeMappings(context.Background(), time.Second, false, 16, []*data_model.ChunkedStorage2{nil}),
	}
	a.estimator.Init()
	agentConfig := agent.DefaultConfig()
	agentConfig.Cluster = config.Cluster
	getConfigResult := tlstatshouse.GetConfigResult3{
		Addresses:          []string{"127.0.0.1:1", "127.0.0.1:2", "127.0.0.1:3"},
		ShardByMetricCount: 1,
	}
	sh2, err := agent.MakeAgent("tcp4", "", "", nil, agentConfig, "verif-host",
		format.TagValueIDComponentAggregator, nil, nil,
		func() (int64, string) { return 0, "" }, func() (int64, string) { return 0, "" },
		func(string, ...interface{}) {}, nil, &getConfigResult, nil)
	if err != nil {
		return nil, err
	}
	agent.VerifC10SetHistoricWindow(sh2, historicWindow)
	a.sh2 = sh2
	return &VerifC10{a: a, conn: &verifConn{}}, nil
}

// Reset re-initialises the fields VerifC10New set (empty window, empty historic map, other keys/windows) so that one
// built-in agent can serve many cases (creating it costs ~40 ms).
func (v *VerifC10) Reset(shardKey, replicaKey int32, shortWindow int, historicWindow uint32) {
	a := v.a
	a.mu.Lock()
	defer a.mu.Unlock()
	a.recentBuckets = nil
	a.historicBuckets = map[uint32]*aggregatorBucket{}
	a.historicHosts = [2][2]map[data_model.TagUnion]int64{{map[data_model.TagUnion]int64{}, map[data_model.TagUnion]int64{}}, {map[data_model.TagUnion]int64{}, map[data_model.TagUnion]int64{}}}
	a.shardKey, a.replicaKey = shardKey, replicaKey
	a.configMu.Lock()
	a.configR.ShortWindow = shortWindow
	a.configMu.Unlock()
	a.estimator.Init()
	agent.VerifC10SetHistoricWindow(a.sh2, historicWindow)
}

// SetShortWindow replaces configR the way updateConfigRemotelyExperimental does (a.configR = config under configMu)
// with a copy that differs in ShortWindow only.
func (v *VerifC10) SetShortWindow(shortWindow int) {
	a := v.a
	a.configMu.Lock()
	config := a.configR
	config.ShortWindow = shortWindow
	a.configR = config
	a.configMu.Unlock()
}

// Advance calls the real advanceRecentBuckets(now) and returns the times of the buckets it handed out for
// sending and the times of the recent window afterwards (in slice order).
func (v *VerifC10) Advance(now uint32, initial bool) (ready []uint32, window []uint32) {
	for _, b := range v.a.advanceRecentBuckets(time.Unix(int64(now), 0), initial) {
		ready = append(ready, b.time)
	}
	v.a.mu.Lock()
	defer v.a.mu.Unlock()
	for _, b := range v.a.recentBuckets {
		window = append(window, b.time)
	}
	return ready, window
}

type VerifC10Result struct {
	Warning    string
	Discard    bool
	Err        error
	Longpoll   bool   // the handler parked the request in a bucket
	Where      string // "recent" | "historic" | "none" | "unknown"
	Index      int    // index in recentBuckets when Where == "recent"
	BucketTime uint32 // time field of the chosen bucket
	Key        uint32 // key in historicBuckets when Where == "historic"
}

// Send calls the real handleSendSourceBucket for an empty source bucket of second t.
func (v *VerifC10) Send(t uint32, historic bool, spare bool) (res VerifC10Result) {
	a := v.a
	var args tlstatshouse.SendSourceBucket3Bytes
	args.Time = t
	args.SetHistoric(historic)
	args.SetSpare(spare)
	args.Header.ShardReplica = (a.shardKey-1)*3 + (a.replicaKey - 1)
	args.Header.ShardReplicaTotal = 3
	args.Header.HostName = []byte("verif-agent")
	args.Header.ComponentTag = format.TagValueIDComponentAgent
	args.BuildCommitTs = ^uint32(0)
	var bucket tlstatshouse.SourceBucket3Bytes
	hctx := &rpc.HandlerContext{}
	hctx.ResetTo(v.conn, 1)
	v.conn.last = nil
	before := v.conn.calls
	res.Warning, res.Err, res.Discard = a.handleSendSourceBucket(hctx, args, bucket)
	res.Where = "none"
	if v.conn.calls == before {
		return res
	}
	res.Longpoll = true
	b, ok := v.conn.last.(*aggregatorBucket)
	if !ok {
		res.Where = "unknown"
		return res
	}
	res.BucketTime = b.time
	res.Where = "unknown"
	a.mu.Lock()
	defer a.mu.Unlock()
	for i, rb := range a.recentBuckets {
		if rb == b {
			res.Where = "recent"
			res.Index = i
			return res
		}
	}
	for k, hb := range a.historicBuckets {
		if hb == b {
			res.Where = "historic"
			res.Key = k
			return res
		}
	}
	return res
}

func (v *VerifC10) HistoricKeys() (keys []uint32) {
	v.a.mu.Lock()
	defer v.a.mu.Unlock()
	for k := range v.a.historicBuckets {
		keys = append(keys, k)
	}
	return keys
}

func VerifC10FutureWindow() int { return data_model.FutureWindow }
func VerifC10MaxShortWindow() int { return data_model.MaxShortWindow }
