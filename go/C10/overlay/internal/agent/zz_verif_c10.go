//go:build verif

package agent

import (
	"github.com/VKCOM/statshouse/internal/data_model"
	"github.com/VKCOM/statshouse/internal/format"
)

// Accessors for the C10 harness: they only build the receiver the unexported methods need and forward the call.

func VerifC10SetHistoricWindow(s *Agent, w uint32) { s.historicWindow.Store(w) }

// VerifC10Agent is an Agent that has exactly the fields Agent.shard and Agent.getShardReplicaForSecond read:
// nShards shards, 3 replicas per shard, the by-metric shard count.
func VerifC10Agent(nShards int, shardByMetricCount uint32) *Agent {
	s := &Agent{shardByMetricCount: shardByMetricCount}
	for i := 0; i < nShards; i++ {
		s.Shards = append(s.Shards, &Shard{agent: s, ShardNum: i, ShardKey: int32(i) + 1})
		for r := 0; r < 3; r++ {
			sr := &ShardReplica{agent: s, ShardReplicaNum: i*3 + r, ShardKey: int32(i) + 1, ReplicaKey: int32(r) + 1}
			sr.alive.Store(true)
			s.ShardReplicas = append(s.ShardReplicas, sr)
		}
	}
	return s
}

func VerifC10SetAlive(s *Agent, shardReplicaNum int, alive bool) {
	s.ShardReplicas[shardReplicaNum].alive.Store(alive)
}

// VerifC10Shard forwards to the real Agent.shard; shard numbers instead of pointers (-1 = nil).
func VerifC10Shard(s *Agent, key *data_model.Key, meta *format.MetricMetaValue, scratch *[]byte) (shard1 int, ok bool, shard2 int) {
	s1, ok, s2 := s.shard(key, meta, scratch)
	shard1, shard2 = -1, -1
	if s1 != nil {
		shard1 = s1.ShardNum
	}
	if s2 != nil {
		shard2 = s2.ShardNum
	}
	return shard1, ok, shard2
}

// VerifC10Replica forwards to the real Agent.getShardReplicaForSecond; -1 = nil.
func VerifC10Replica(s *Agent, shardNum int, timestamp uint32) (shardReplicaNum int, spare bool) {
	sr, spare := s.getShardReplicaForSecond(shardNum, timestamp)
	if sr == nil {
		return -1, spare
	}
	return sr.ShardReplicaNum, spare
}
