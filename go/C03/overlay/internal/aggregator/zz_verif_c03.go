//go:build verif

package aggregator

// Thin accessors for the C03 harness. VerifC03 holds a minimal but REAL *Aggregator (only the fields
// rowDataMarshalAppendPositions reads) and real aggregatorBuckets. Merge repeats the six glue lines of
// handleSendSourceBucket that sit between the TL row and the shard (key from the row, string keys copied, shard chosen
// by the key hash, GetOrCreateMultiItem, MergeWithTLMultiItem); everything they call is the repo's code.

import (
	"fmt"
	"pgregory.net/rand"

	"github.com/VKCOM/statshouse/internal/data_model"
	"github.com/VKCOM/statshouse/internal/data_model/gen2/tlmetadata"
	"github.com/VKCOM/statshouse/internal/data_model/gen2/tlstatshouse"
	"github.com/VKCOM/statshouse/internal/format"
	"github.com/VKCOM/statshouse/internal/metajournal"
)

type VerifC03 struct {
	a       *Aggregator
	buckets []*aggregatorBucket
}

func VerifC03New(stringTopCountInsert int) *VerifC03 {
	config := DefaultConfigAggregator()
	config.RemoteInitial.StringTopCountInsert = stringTopCountInsert
	a := &Aggregator{
		config:            config,
		configR:           config.RemoteInitial,
		shardKey:          1,
		replicaKey:        1,
		aggregatorHostTag: data_model.TagUnion{I: 77},
		metricStorage:     metajournal.MakeMetricsStorage(nil),
		tagsMapper3:       &tagsMapper3{},
	}
	return &VerifC03{a: a}
}

// AddBucket appends a real aggregatorBucket for second t; the first one is the "recent" bucket of the insert.
func (v *VerifC03) AddBucket(t uint32) int {
	v.buckets = append(v.buckets, newAggregatorBucket(t))
	return len(v.buckets) - 1
}

// Merge is the per-row part of handleSendSourceBucket for a row without mapped string tags.
func (v *VerifC03) Merge(rng *rand.Rand, bucket int, item *tlstatshouse.MultiItemBytes, hostTag data_model.TagUnion) (created bool, ingestionError int32, shard int) {
	b := v.buckets[bucket]
	k, _ := data_model.KeyFromStatshouseMultiItem(item, b.time)
	for i, str := range item.Skeys {
		if i >= format.MaxTags {
			break
		}
		k.STags[i] = string(str)
	}
	keyBytes, hash := k.XXHash(nil)
	sID := int(hash % data_model.AggregationShardsPerSecond)
	s := &b.shards[sID]
	s.mu.Lock()
	defer s.mu.Unlock()
	mi, created := s.GetOrCreateMultiItem(&k, nil, keyBytes)
	is := mi.MergeWithTLMultiItem(rng, data_model.AggregatorStringTopCapacity, item, hostTag)
	return created, is, sID
}

// Insert calls the real rowDataMarshalAppendPositions on all buckets (first = recent) and returns the body.
func (v *VerifC03) Insert(rng *rand.Rand) []byte {
	body, _, _, _ := v.a.rowDataMarshalAppendPositions(v.buckets, data_model.SamplerBuffers{}, rng, nil)
	return body
}

type VerifC03Value struct {
	Key   data_model.Key
	Top   data_model.TagUnion
	Value *data_model.MultiValue
	SF    float64
}

// Values lists every (key, top) MultiValue held by the shards of all buckets (tail first, then tops in map order).
func (v *VerifC03) Values() (res []VerifC03Value) {
	for _, b := range v.buckets {
		for si := range b.shards {
			for _, item := range b.shards[si].MultiItems {
				res = append(res, VerifC03Value{Key: item.Key, Value: &item.Tail, SF: item.SF})
				for t, mv := range item.Top {
					res = append(res, VerifC03Value{Key: item.Key, Top: t, Value: mv, SF: item.SF})
				}
			}
		}
	}
	return res
}

// ItemsInShards counts MultiItems per bucket over all shards.
func (v *VerifC03) ItemsInShards() (n int) {
	for _, b := range v.buckets {
		for si := range b.shards {
			n += len(b.shards[si].MultiItems)
		}
	}
	return n
}

// VerifC03AppendKeys is the real appendKeys with an empty unknown-tag context.
func VerifC03AppendKeys(k *data_model.Key, top data_model.TagUnion) []byte {
	ctx := appendContext{
		metricCache:       makeMetricCache(metajournal.MakeMetricsStorage(nil)),
		unknownTags:       map[string]createMappingExtra{},
		bucketUnknownTags: map[string]createMappingExtra{},
	}
	return appendKeys(nil, k, top, ctx)
}

// VerifC03AppendArgMinMaxTag is the real appendArgMinMaxTag appended to prefix.
func VerifC03AppendArgMinMaxTag(prefix []byte, tag data_model.TagUnion, value float32) []byte {
	return appendArgMinMaxTag(prefix, tag, value)
}

// VerifC03MultiValueMarshal is the real multiValueMarshal for a metric without meta (no skip flags).
func VerifC03MultiValueMarshal(rng *rand.Rand, metricID int32, value *data_model.MultiValue, sf float64) []byte {
	ctx := appendContext{
		metricCache:       makeMetricCache(metajournal.MakeMetricsStorage(nil)),
		unknownTags:       map[string]createMappingExtra{},
		bucketUnknownTags: map[string]createMappingExtra{},
	}
	return multiValueMarshal(rng, metricID, nil, value, sf, ctx)
}

// VerifC03MultiValueMarshalMeta is the real multiValueMarshal for a USER metric whose meta (built by the real journal
// ApplyEvent from JSON) carries the given skip flags; the metric cache is used twice so that both the first lookup and
// the cached path (lastMetricID) are taken. Returns both outputs and the flags the real meta ended up with.
func VerifC03MultiValueMarshalMeta(rng *rand.Rand, metricID int32, skipMin, skipMax, skipSq bool, value *data_model.MultiValue, sf float64) (first []byte, second []byte, ok bool) {
	ms := metajournal.MakeMetricsStorage(nil)
	data := fmt.Sprintf(`{"name":"verif_c03_m","kind":"value","skip_min_host":%v,"skip_max_host":%v,"skip_sum_square":%v}`, skipMin, skipMax, skipSq)
	ms.ApplyEvent([]tlmetadata.Event{{Id: int64(metricID), Name: "verif_c03_m", EventType: format.MetricEvent, Version: 1, Data: data}})
	meta := ms.GetMetaMetric(metricID)
	if meta == nil || meta.SkipMinHost != skipMin || meta.SkipMaxHost != skipMax || meta.SkipSumSquare != skipSq {
		return nil, nil, false
	}
	ctx := appendContext{
		metricCache:       makeMetricCache(ms),
		unknownTags:       map[string]createMappingExtra{},
		bucketUnknownTags: map[string]createMappingExtra{},
	}
	first = multiValueMarshal(rng, metricID, nil, value, sf, ctx)
	second = multiValueMarshal(rng, metricID, nil, value, sf, ctx)
	return first, second, true
}

func VerifC03TableDesc() string { return getTableDesc() }
