//go:build verif

package data_model

// Thin accessors for the C03 harness: the wire-relevant fields of ChUnique (table order preserved), direct insertion
// of a 32-bit hash (the hash function is not under test here), and the constants the Lean model is generated from.

const (
	VerifC03UniqMaxSize    = uniquesHashMaxSize
	VerifC03UniqMaxDegree  = uniquesHashMaxSizeDegree
	VerifC03UniqInitDegree = uniquesHashSetInitialSizeDegree
)

// VerifC03UniqueState returns buf != nil, skipDegree, itemsCount, hasZeroItem and the non-zero slots of buf in table order.
func VerifC03UniqueState(ch *ChUnique) (alloc bool, skipDegree uint32, itemsCount int32, hasZero bool, vals []uint32) {
	for _, x := range ch.buf {
		if x != 0 {
			vals = append(vals, x)
		}
	}
	return ch.buf != nil, ch.skipDegree, ch.itemsCount, ch.hasZeroItem, vals
}

// VerifC03InsertHash is ChUnique.Insert without the hash function (Reset on first use, then insertHash).
func VerifC03InsertHash(ch *ChUnique, x uint32) {
	if ch.buf == nil {
		ch.Reset()
	}
	ch.insertHash(x)
}
