//go:build verif

package api

import (
	"context"
	"errors"
	"fmt"
	"math"
	"strings"
	"time"

	"github.com/hrissan/tdigest"

	"github.com/VKCOM/statshouse/internal/data_model"
	"github.com/VKCOM/statshouse/internal/format"
	"github.com/VKCOM/statshouse/internal/promql"
)

// Thin accessors for the C25 harness (table.go). No logic under test is copied here: the functions only convert
// between plain exported structs and the package's unexported row types and call the real code.

// VerifRow is a storage row: tag[j] = Tags[j] for j < len(Tags), stag[StringTopTagIndexV3] = SKey.
// Fields: count, sum, min, max, cardinality, and one value placed as the only centroid of the percentile digest.
type VerifRow struct {
	Time   int64
	Tags   []int64
	STags  []string // stag[j] = STags[j] for j < len(STags): the unmapped string value of tag j ("" = none)
	SKey   string
	Fields [6]float64
}

type VerifLOD struct{ From, To, Step int64 }

type VerifTableReq struct {
	From, To RowMarker
	FromEnd  bool
	Limit    int
	By       []string
	Whats    []int // promql.DigestWhat values
	NTags    int   // tags 0..NTags-1 are declared raw in the metric meta
	LODs     []VerifLOD
	// Store is the stub storage: handler-what index q (position in getHandlerWhat's result), LOD index k.
	// qry = the storage query's selectors as the function under test built them ("what:arg‰" x 7), k = LOD index.
	Store func(qry string, k int) ([][]VerifRow, error)
}

type VerifOutRow struct {
	Time int64
	Tags []int64 // first NTags numeric tags of the row key
	STags []string // their unmapped string values
	SKey string  // stag[StringTopTagIndexV3] of the row key
	Rest bool    // true if any other part of the key (other tags/stags, shardNum, stagCount) is non-zero
	Data []float64
	Repr RowMarker
}

func verifToRow(r VerifRow) tsSelectRow {
	var row tsSelectRow
	row.time = r.Time
	for j, v := range r.Tags {
		row.tag[j] = v
	}
	for j, v := range r.STags {
		row.stag[j] = v
	}
	row.stag[format.StringTopTagIndexV3] = r.SKey
	row.count, row.sum, row.min, row.max, row.cardinality = r.Fields[0], r.Fields[1], r.Fields[2], r.Fields[3], r.Fields[4]
	row.percentile = verifDigest(r.Fields[5])
	return row
}

// one single-centroid digest per value, shared (value() only reads it): every quantile of it is the value itself
var verifDigests = map[float64]*tdigest.TDigest{}

func verifDigest(v float64) *tdigest.TDigest {
	if d := verifDigests[v]; d != nil {
		return d
	}
	d := tdigest.NewWithCompression(10)
	d.Add(v, 1)
	d.Normalize()
	verifDigests[v] = d
	return d
}

func verifFromRow(row *tsSelectRow, ntags int) VerifRow {
	r := VerifRow{Time: row.time, SKey: row.stag[format.StringTopTagIndexV3]}
	for j := 0; j < ntags; j++ {
		r.Tags = append(r.Tags, row.tag[j])
		r.STags = append(r.STags, row.stag[j])
	}
	r.Fields = [6]float64{row.count, row.sum, row.min, row.max, row.cardinality, 0}
	return r
}

func verifToGroups(gs [][]VerifRow) [][]tsSelectRow {
	res := make([][]tsSelectRow, len(gs))
	for i, g := range gs {
		for _, r := range g {
			res[i] = append(res[i], verifToRow(r))
		}
	}
	return res
}

// VerifHandlerWhat runs the real getHandlerWhat and returns, per handler-what, the digests of its columns.
func VerifHandlerWhat(whats []int) [][]int {
	h := &requestHandler{Handler: &Handler{}}
	ws := make([]promql.SelectorWhat, len(whats))
	for i, w := range whats {
		ws[i] = promql.SelectorWhat{Digest: promql.DigestWhat(w)}
	}
	var res [][]int
	for _, hw := range h.getHandlerWhat(ws) {
		var ds []int
		for _, s := range hw.sel {
			ds = append(ds, int(s.Digest))
		}
		res = append(res, ds)
	}
	return res
}

// VerifLimitQueries calls the real limitQueries.
func VerifLimitQueries(groups [][]VerifRow, from, to RowMarker, fromEnd bool, limit int, ntags int) ([]VerifRow, bool) {
	rows, more := limitQueries(verifToGroups(groups), from, to, fromEnd, limit)
	res := make([]VerifRow, 0, len(rows))
	for i := range rows {
		res = append(res, verifFromRow(&rows[i], ntags))
	}
	return res, more
}

var ErrVerifUnknownQuery = errors.New("verif: loadPoints stub called with an unknown what/LOD")

// VerifGetTable calls the real requestHandler.getTableFromLODs with a stub loadPoints.
func VerifGetTable(req VerifTableReq) (rows []VerifOutRow, hasMore bool, err error) {
	loc := time.UTC
	meta := &format.MetricMetaValue{}
	for j := 0; j < req.NTags; j++ {
		meta.Tags = append(meta.Tags, format.MetricMetaTag{Index: int32(j), RawKind: "int"})
	}
	h := &requestHandler{Handler: &Handler{HandlerOptions: HandlerOptions{location: loc}}}
	ws := make([]promql.SelectorWhat, len(req.Whats))
	for i, w := range req.Whats {
		ws[i] = promql.SelectorWhat{Digest: promql.DigestWhat(w)}
	}
	lods := make([]data_model.LOD, len(req.LODs))
	kIndex := map[int64]int{}
	for k, l := range req.LODs {
		lods[k] = data_model.LOD{FromSec: l.From, ToSec: l.To, StepSec: l.Step, Version: "3", Location: loc}
		kIndex[l.From] = k
	}
	p := tableReqParams{
		req: seriesRequest{
			numResults: req.Limit,
			what:       ws,
			by:         req.By,
			fromEnd:    req.FromEnd,
			fromRow:    req.From,
			toRow:      req.To,
		},
		metricMeta:     meta,
		desiredStepMul: 1,
		location:       loc,
	}
	load := func(_ context.Context, _ *requestHandler, pq *queryBuilder, lod data_model.LOD, _ bool) ([][]tsSelectRow, error) {
		k, ok2 := kIndex[lod.FromSec]
		if !ok2 {
			return nil, ErrVerifUnknownQuery
		}
		gs, err := req.Store(verifQryKey(pq.what), k)
		if err != nil {
			return nil, err
		}
		return verifToGroups(gs), nil
	}
	out, hasMore, err := h.getTableFromLODs(context.Background(), lods, p, load)
	if err != nil {
		return nil, false, err
	}
	for i := range out {
		o := VerifOutRow{Time: out[i].Time, SKey: out[i].row.stag[format.StringTopTagIndexV3], Repr: out[i].rowRepr}
		for j := 0; j < req.NTags; j++ {
			o.Tags = append(o.Tags, out[i].row.tag[j])
			o.STags = append(o.STags, out[i].row.stag[j])
		}
		probe := out[i].row.tsTags
		for j := 0; j < req.NTags; j++ {
			probe.tag[j] = 0
			probe.stag[j] = ""
		}
		probe.stag[format.StringTopTagIndexV3] = ""
		o.Rest = probe != tsTags{}
		for _, v := range out[i].Data {
			o.Data = append(o.Data, float64(v))
		}
		if out[i].Time != out[i].row.time {
			o.Rest = true
		}
		rows = append(rows, o)
	}
	return rows, hasMore, nil
}

// ---------------------------------------------------------------------------------------------------------
// VerifHandleGetTable runs the REAL requestHandler.handleGetTable (GetLODs, the LOD reordering for fromEnd,
// getTableFromLODs, cacheGet -> cache2 -> loader) with a stub storage loader: one row (no tags, count 1) at every
// slot of a LOD that contains one of rowTimes. Returns the times of the table rows, the has-more flag and the LODs
// in the order the loader was first asked for them.
type VerifLODVisit struct{ From, To, Step int64 }

func VerifHandleGetTable(fromSec, toSec int64, fromEnd bool, limit int, rowTimes []int64, fromRow, toRow RowMarker) (times []int64, more bool, visits []VerifLODVisit, err error) {
	h := &Handler{HandlerOptions: HandlerOptions{location: time.UTC}}
	seen := map[int64]bool{}
	h.cache2 = newCache2(h, 0, func(ctx context.Context, _ *requestHandler, q *queryBuilder, lod data_model.LOD, ret [][]tsSelectRow, retStartIx int) (int, error) {
		n := 0
		for _, t := range rowTimes {
			if t < lod.FromSec || lod.ToSec <= t {
				continue
			}
			ix, err := lod.IndexOf(t)
			if err != nil {
				return 0, err
			}
			var row tsSelectRow
			row.time = lod.FromSec + int64(ix)*lod.StepSec
			row.count = 1
			if len(ret[retStartIx+ix]) == 0 {
				ret[retStartIx+ix] = append(ret[retStartIx+ix], row)
				n++
			}
		}
		return n, nil
	})
	defer h.cache2.shutdown()
	rh := &requestHandler{Handler: h, accessInfo: accessInfo{user: "verif"}}
	rh.endpointStat.timings.Timings = map[string][]time.Duration{}
	req := seriesRequest{
		numResults: limit,
		metricName: format.BuiltinMetricMetaAggBucketReceiveDelaySec.Name,
		from:       time.Unix(fromSec, 0),
		to:         time.Unix(toSec, 0),
		what:       []promql.SelectorWhat{{Digest: promql.DigestCountRaw}},
		fromEnd:    fromEnd,
		fromRow:    fromRow,
		toRow:      toRow,
	}
	// record the order in which getTableFromLODs asks for the LODs: wrap through the request handler's trace of
	// loader calls is not available, so observe it through the loader itself (first call per LOD step/from)
	inner := h.cache2.loader
	h.cache2.loader = func(ctx context.Context, r *requestHandler, q *queryBuilder, lod data_model.LOD, ret [][]tsSelectRow, retStartIx int) (int, error) {
		if !seen[lod.StepSec] {
			seen[lod.StepSec] = true
			visits = append(visits, VerifLODVisit{From: lod.FromSec, To: lod.ToSec, Step: lod.StepSec})
		}
		return inner(ctx, r, q, lod, ret, retStartIx)
	}
	resp, _, err := rh.handleGetTable(context.Background(), req)
	if err != nil {
		return nil, false, visits, err
	}
	for i := range resp.Rows {
		times = append(times, resp.Rows[i].Time)
	}
	return times, resp.More, visits, nil
}

// VerifTableSQL returns the text the real buildSeriesQuery generates for a table query (sort = req.tableSort()).
func VerifTableSQL(by []int, fromEnd bool) (string, error) {
	req := seriesRequest{fromEnd: fromEnd}
	pq := queryBuilder{
		metric: &format.MetricMetaValue{MetricID: 1000},
		user:   "verif",
		what:   tsWhat{data_model.DigestSelector{What: data_model.DigestCount}},
		by:     by,
		sort:   req.tableSort(),
	}
	lod := data_model.LOD{FromSec: 3600, ToSec: 7200, StepSec: 60, Version: Version6, Location: time.UTC}
	q, err := pq.buildSeriesQuery(lod, "")
	if err != nil {
		return "", err
	}
	return q.body, nil
}

// VerifLess calls the real queryTableRows.Less on two rows that carry the given row markers.
func VerifLess(a, b RowMarker) bool {
	s := queryTableRows{{Time: a.Time, rowRepr: a}, {Time: b.Time, rowRepr: b}}
	return s.Less(0, 1)
}

// VerifLessThan calls the real lessThan (row marker against a storage row) the way inRange does.
func VerifLessThan(m RowMarker, r VerifRow, orEq, fromEnd bool) bool {
	row := verifToRow(r)
	return lessThan(m, row, row.tsTags.stag[format.StringTopTagIndexV3], orEq, fromEnd)
}

func verifQryKey(w tsWhat) string {
	var sb strings.Builder
	for i, v := range w {
		if i > 0 {
			sb.WriteString(",")
		}
		fmt.Fprintf(&sb, "%d:%d", int(v.What), int(math.Round(v.Argument*1000)))
	}
	return sb.String()
}

// VerifHandlerWhatFull runs the real getHandlerWhat on the requested functions (promql.DigestWhat values, request order)
// and returns the request list as it is afterwards (the function sorts it in place; GetTableResp.What reports it),
// and per storage query its functions (sel) and its selectors (qry, rendered "what:arg‰" x 7).
func VerifHandlerWhatFull(whats []int) (sorted []int, sel [][]int, qry []string) {
	h := &requestHandler{Handler: &Handler{}}
	ws := make([]promql.SelectorWhat, len(whats))
	for i, w := range whats {
		ws[i] = promql.SelectorWhat{Digest: promql.DigestWhat(w)}
	}
	for _, hw := range h.getHandlerWhat(ws) {
		var ds []int
		for _, s := range hw.sel {
			ds = append(ds, int(s.Digest))
		}
		sel = append(sel, ds)
		qry = append(qry, verifQryKey(hw.qry))
	}
	for _, w := range ws {
		sorted = append(sorted, int(w.Digest))
	}
	return sorted, sel, qry
}

// VerifSelector renders promql.DigestWhat(d).Selector() as "what:arg‰".
func VerifSelector(d int) string {
	v := promql.DigestWhat(d).Selector()
	return fmt.Sprintf("%d:%d", int(v.What), int(math.Round(v.Argument*1000)))
}
