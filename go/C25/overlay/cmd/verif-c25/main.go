//go:build verif

// verif-c25: correspondence + direct oracle for table queries (internal/api/table.go:
// getTableFromLODs, limitQueries, inRange; handler.go: lessThan, queryTableRows.Less).
//
// One case = one table request over a generated LOD split and a generated stub storage. The ops describe
// the request and the storage answers; `lq` runs the REAL limitQueries on one storage answer, `run` runs the
// REAL getTableFromLODs with a stub loadPoints that serves the described answers.
//
//	> cfg nt=3 by=0,2 bysk=1 fe=0 lim=4 sel=0,1/5      sel: per handler-what (as grouped by the real getHandlerWhat) the
//	                                                    value field each column shows (0 count 1 sum 2 min 3 max 4 card 5 pct)
//	> from <time> <idx:val,…|-> <skey code>             row markers (time 0 = absent)
//	> to   <time> <idx:val,…|-> <skey code>
//	> lod <from> <to>                                   next LOD (step 1)
//	> err <q> <k>                                       storage answer (q,k) is an error
//	> grp <q> <k>                                       next time group of answer (q,k)
//	> row <q> <k> <time> <tags> <skey code> <6 fields>  next row of the last group of answer (q,k)
//	> lq <q> <k> <limit>                                < lq more=0|1 rows=<time:tags:skey;…>
//	> run                                               < res n=.. more=0|1 | < err ; then one "< r …" line per row
package main

import (
	"errors"
	"fmt"
	"math"
	"sort"
	"strings"
	"time"

	"github.com/VKCOM/statshouse/internal/api"
	"github.com/VKCOM/statshouse/internal/promql"
	"github.com/VKCOM/statshouse/internal/verifx"
)

const NT = 3

// skey pool: index = code used on the wire and in the model; the pool is strictly increasing for Go's string order
var skeys = []string{"", "a", "ab", "b", "c"}

func skeyCode(s string) int {
	for i, v := range skeys {
		if v == s {
			return i
		}
	}
	return -1
}

// digest -> value field (only digests whose value() is the identity on one stored field, LOD step = query step = 1)
var digestField = map[promql.DigestWhat]int{
	promql.DigestCount: 0, promql.DigestCountSec: 0, promql.DigestCountRaw: 0,
	promql.DigestSum: 1, promql.DigestSumSec: 1, promql.DigestSumRaw: 1,
	promql.DigestMin: 2, promql.DigestMax: 3,
	promql.DigestCardinality: 4, promql.DigestCardinalitySec: 4, promql.DigestCardinalityRaw: 4,
	promql.DigestP0_1: 5, promql.DigestP1: 5, promql.DigestP5: 5, promql.DigestP10: 5, promql.DigestP25: 5, promql.DigestP50: 5,
	promql.DigestP75: 5, promql.DigestP90: 5, promql.DigestP95: 5, promql.DigestP99: 5, promql.DigestP999: 5,
	promql.DigestUnique: 6, promql.DigestUniqueSec: 6, promql.DigestUniqueRaw: 6, // field 6 = 0: the stub rows carry an empty unique sketch
}

// fieldVal: the stored value a column of field f must show
func fieldVal(row *api.VerifRow, f int) float64 {
	if f >= len(row.Fields) {
		return 0
	}
	return row.Fields[f]
}

// ---------------------------------------------------------------- reference grouping of the requested functions
// (independent of getHandlerWhat): the request sorted by function code; a storage query takes the following functions
// while it has fewer than 7 selectors, a function whose selector differs from the last one takes a new slot.

func selKey(d int) string { return api.VerifSelector(d) }

func refGroup(whats []int) (sorted []int, sel [][]int, qry []string) {
	sorted = append([]int(nil), whats...)
	sort.Ints(sorted)
	var slots []string
	flush := func() {
		for len(slots) < 7 {
			slots = append(slots, "0:0")
		}
		qry = append(qry, strings.Join(slots, ","))
	}
	n := 0
	for _, d := range sorted {
		if len(sel) == 0 || n >= 7 {
			if len(sel) > 0 {
				flush()
			}
			sel = append(sel, []int{d})
			slots = []string{selKey(d)}
			n = 1
			continue
		}
		if selKey(d) != slots[n-1] {
			slots = append(slots, selKey(d))
			n++
		}
		sel[len(sel)-1] = append(sel[len(sel)-1], d)
	}
	if len(sel) > 0 {
		flush()
	}
	return sorted, sel, qry
}

func groupsStr(gs [][]int) string {
	if len(gs) == 0 {
		return "-"
	}
	return selStr(gs)
}

// opWhats: one `whats` op = the REAL getHandlerWhat on a function list, observed and checked against the property:
// nothing dropped, order kept, one column per requested function
func opWhats(h *verifx.H, whats []int, fields []int) {
	h.Op("whats %s f=%s", verifx.List(whats), verifx.List(fields))
	defer func() {
		if p := recover(); p != nil {
			h.Obs("panic")
			h.Viol("handlerwhat-panic", "getHandlerWhat(%v) panicked: %v", whats, p)
		}
	}()
	sorted, sel, qry := api.VerifHandlerWhatFull(whats)
	q := "-"
	if len(qry) > 0 {
		q = strings.Join(qry, "/")
	}
	h.Obs("hw sorted=%s sel=%s qry=%s", verifx.List(sorted), groupsStr(sel), q)
	h.Stat("whats.calls", 1)
	want := append([]int(nil), whats...)
	sort.Ints(want)
	var flat []int
	for _, g := range sel {
		flat = append(flat, g...)
	}
	if fmt.Sprint(sorted) != fmt.Sprint(want) {
		h.Viol("handlerwhat-request-changed", "getHandlerWhat(%v) leaves the request as %v", whats, sorted)
	}
	if fmt.Sprint(flat) != fmt.Sprint(want) {
		h.Viol("column-count-mismatch", "getHandlerWhat(%v) groups the functions as %s: %d columns for %d requested functions", whats, groupsStr(sel), len(flat), len(whats))
	}
	shares := false
	for i := 1; i < len(want); i++ {
		if selKey(want[i]) == selKey(want[i-1]) {
			shares = true
		}
	}
	if shares {
		h.Stat("whats.shared-selector", 1)
	}
	if len(sel) > 1 {
		h.Stat("whats.multi-query", 1)
	}
}


var allDigests []promql.DigestWhat

func init() {
	for d := range digestField {
		allDigests = append(allDigests, d)
	}
	sort.Slice(allDigests, func(i, j int) bool { return allDigests[i] < allDigests[j] })
	for i := 1; i < len(skeys); i++ {
		if !(skeys[i-1] < skeys[i]) {
			panic("skey pool not increasing")
		}
	}
}

type cell struct {
	err    bool
	groups [][]api.VerifRow
}

type scenario struct {
	by       []int
	bySk     bool
	fromEnd  bool
	limit    int
	whats    []int
	sel      [][]int // per storage query (reference grouping): field per column
	qry      []string // per storage query (reference grouping): its selectors
	from, to api.RowMarker
	lods     []api.VerifLOD
	store    [][]cell // [q][k]
	lqs      [][3]int // (q,k,limit)
	// generator facts used to decide which oracle clauses apply
	consistent bool // every handler-what gets the same keys
	sorted     bool // groups ascending by time slot, rows inside a group sorted in the requested direction
	wide       bool // tag values over the whole int64 range
	strTags    bool // group-by tags also carry unmapped string values (stag[j] set, tag[j] = 0)
	clean      bool // unique keys per answer, non-by tags zero, skey empty unless grouped by it, rows inside their LOD
}

// setWhats: the requested functions and their reference grouping into storage queries
func (sc *scenario) setWhats(whats []int) {
	sc.whats = whats
	sc.sel, sc.qry = nil, nil
	_, sel, qry := refGroup(whats)
	for _, g := range sel {
		var fs []int
		for _, d := range g {
			fs = append(fs, digestField[promql.DigestWhat(d)])
		}
		sc.sel = append(sc.sel, fs)
	}
	sc.qry = qry
}

func tagsStr(t []int64) string { return verifx.List(t) }

// wireTags: the row's tags on the wire and in the model: NT integer values, then the codes of the NT unmapped string
// values (0 = none) — together with time and the string-top key this is the whole row key (tableRowKey = tsTags)
func wireTags(r *api.VerifRow) string {
	t := append([]int64(nil), r.Tags...)
	for j := 0; j < NT; j++ {
		c := 0
		if j < len(r.STags) {
			c = skeyCode(r.STags[j])
		}
		t = append(t, int64(c))
	}
	return verifx.List(t)
}

func stagAt(r *api.VerifRow, j int) string {
	if j < len(r.STags) {
		return r.STags[j]
	}
	return ""
}

func markerStr(m api.RowMarker) string {
	ts := make([]string, len(m.Tags))
	for i, t := range m.Tags {
		ts[i] = fmt.Sprintf("%d:%d", t.Index, t.Value)
	}
	s := "-"
	if len(ts) > 0 {
		s = strings.Join(ts, ",")
	}
	return fmt.Sprintf("%d %s %d", m.Time, s, skeyCode(m.SKey))
}

func selStr(sel [][]int) string {
	gs := make([]string, len(sel))
	for i, g := range sel {
		gs[i] = verifx.List(g)
	}
	return strings.Join(gs, "/")
}

func fieldsStr(f [6]float64) string {
	s := make([]string, 6)
	for i, v := range f {
		s[i] = fmt.Sprint(int64(v))
	}
	return strings.Join(s, ",")
}

func byStrings(sc *scenario) []string {
	var by []string
	for _, j := range sc.by {
		by = append(by, fmt.Sprint(j))
	}
	if sc.bySk {
		by = append(by, "_s")
	}
	return by
}

// ---------------------------------------------------------------- reference order (independent of the code under test)

// cmpMarker: three-way comparison of the marker's tuple (time, listed tag values…, skey) with the row's projection
func cmpMarker(m api.RowMarker, r *api.VerifRow) int {
	c3 := func(a, b int64) int {
		if a < b {
			return -1
		} else if a > b {
			return 1
		}
		return 0
	}
	if c := c3(m.Time, r.Time); c != 0 {
		return c
	}
	for _, t := range m.Tags {
		var rv int64
		if t.Index < len(r.Tags) {
			rv = r.Tags[t.Index]
		}
		if c := c3(t.Value, rv); c != 0 {
			return c
		}
	}
	return strings.Compare(m.SKey, r.SKey)
}

// inWindow: strictly after `from` and strictly before `to` in the requested direction (an absent marker has time 0)
func inWindow(sc *scenario, r *api.VerifRow) bool {
	if sc.from.Time != 0 {
		c := cmpMarker(sc.from, r)
		if (!sc.fromEnd && c >= 0) || (sc.fromEnd && c <= 0) {
			return false
		}
	}
	if sc.to.Time != 0 {
		c := cmpMarker(sc.to, r)
		if (!sc.fromEnd && c <= 0) || (sc.fromEnd && c >= 0) {
			return false
		}
	}
	return true
}

// visible sort key of a row: time, grouped tags, skey when grouped by it
func reprCmp(sc *scenario, a, b *api.VerifRow) int {
	if a.Time != b.Time {
		if a.Time < b.Time {
			return -1
		}
		return 1
	}
	for _, j := range sc.by {
		if a.Tags[j] != b.Tags[j] {
			if a.Tags[j] < b.Tags[j] {
				return -1
			}
			return 1
		}
	}
	if sc.bySk {
		return strings.Compare(a.SKey, b.SKey)
	}
	return 0
}

func keyCmp(a, b *api.VerifRow) int {
	if a.Time != b.Time {
		if a.Time < b.Time {
			return -1
		}
		return 1
	}
	for j := range a.Tags {
		if a.Tags[j] != b.Tags[j] {
			if a.Tags[j] < b.Tags[j] {
				return -1
			}
			return 1
		}
	}
	for j := 0; j < NT; j++ {
		if c := cmp3(int64(skeyCode(stagAt(a, j))), int64(skeyCode(stagAt(b, j)))); c != 0 {
			return c
		}
	}
	return strings.Compare(a.SKey, b.SKey)
}

func keyStr(r *api.VerifRow) string {
	return fmt.Sprintf("%d:%s:%d", r.Time, strings.ReplaceAll(wireTags(r), ",", "."), skeyCode(r.SKey))
}

// ---------------------------------------------------------------- generator

// raw 64-bit tag values: the whole int64 range, pairs more than MaxInt64 apart, pairs exactly 2^63 apart
var wideVals = []int64{math.MinInt64, math.MinInt64 + 1, -6e18, -(1 << 62), -1, 0, 1, 1 << 62, 6e18, math.MaxInt64 - 1, math.MaxInt64,
	-(1 << 62) - 1, (1 << 62) + 1, math.MinInt32, math.MaxInt32}

// tagVal: an ordinary small value, or (wide cases) any of the boundary values
func tagVal(r *verifx.Rng, wide bool, small int) int64 {
	if wide && r.Chance(2, 3) {
		return wideVals[r.Intn(len(wideVals))]
	}
	return int64(r.Intn(small))
}

func genScenario(r *verifx.Rng, h *verifx.H) *scenario {
	sc := &scenario{}
	// group-by
	switch r.Pick(1, 4, 4, 1) {
	case 0:
	case 1:
		sc.by = []int{r.Intn(NT)}
	case 2:
		a := r.Intn(NT)
		b := (a + 1 + r.Intn(NT-1)) % NT
		if a > b {
			a, b = b, a
		}
		sc.by = []int{a, b}
	case 3:
		sc.by = []int{0, 1, 2}
	}
	sc.bySk = r.Chance(1, 2)
	sc.fromEnd = r.Bool()
	sc.clean = !r.Chance(1, 12)
	sc.sorted = !r.Chance(1, 7)
	sc.consistent = !r.Chance(1, 4)
	sc.wide = r.Chance(1, 4)
	sc.strTags = r.Chance(1, 3)
	// whats
	var ds []promql.DigestWhat
	if r.Chance(1, 4) {
		// runs of functions that share a storage selector, and duplicates
		fams := [][]promql.DigestWhat{
			{promql.DigestCount, promql.DigestCountSec, promql.DigestCountRaw},
			{promql.DigestSum, promql.DigestSumSec, promql.DigestSumRaw},
			{promql.DigestCardinality, promql.DigestCardinalitySec, promql.DigestCardinalityRaw},
			{promql.DigestUnique, promql.DigestUniqueSec, promql.DigestUniqueRaw},
			{promql.DigestMin}, {promql.DigestMax}, {promql.DigestP50}, {promql.DigestP99},
		}
		nf := r.Range(1, 5)
		for i := 0; i < nf; i++ {
			f := fams[r.Intn(len(fams))]
			k := r.Range(1, len(f))
			for j := 0; j < k; j++ {
				ds = append(ds, f[r.Intn(len(f))])
			}
		}
	} else if r.Chance(3, 5) {
		n := r.Range(1, 3)
		for i := 0; i < n; i++ {
			ds = append(ds, allDigests[r.Intn(len(allDigests))])
		}
	} else {
		// enough distinct selectors for 2..3 handler-whats (each holds at most 7 distinct selectors)
		distinct := []promql.DigestWhat{promql.DigestCountRaw, promql.DigestSumRaw, promql.DigestMin, promql.DigestMax, promql.DigestCardinalityRaw,
			promql.DigestP0_1, promql.DigestP1, promql.DigestP5, promql.DigestP10, promql.DigestP25, promql.DigestP50,
			promql.DigestP75, promql.DigestP90, promql.DigestP95, promql.DigestP99, promql.DigestP999}
		n := r.Range(7, len(distinct))
		perm := make([]int, len(distinct))
		for i := range perm {
			perm[i] = i
		}
		for i := len(perm) - 1; i > 0; i-- {
			j := r.Intn(i + 1)
			perm[i], perm[j] = perm[j], perm[i]
		}
		for _, p := range perm[:n] {
			ds = append(ds, distinct[p])
		}
		if r.Chance(1, 3) {
			ds = append(ds, promql.DigestCount, promql.DigestSumSec)
		}
	}
	for _, d := range ds {
		sc.whats = append(sc.whats, int(d))
	}
	sc.setWhats(sc.whats)
	nq := len(sc.sel)
	// LODs: contiguous, step 1
	nl := 1 + r.Pick(5, 4, 2)
	t := int64(10)
	for k := 0; k < nl; k++ {
		w := int64(r.Range(1, 3))
		sc.lods = append(sc.lods, api.VerifLOD{From: t, To: t + w, Step: 1})
		t += w
	}
	if r.Chance(1, 15) { // a gap between LODs
		for k := 1; k < nl; k++ {
			sc.lods[k].From += int64(k)
			sc.lods[k].To += int64(k)
		}
	}
	// base rows per LOD / time slot
	base := make([][][]api.VerifRow, nl)
	var flat []api.VerifRow
	for k, l := range sc.lods {
		base[k] = make([][]api.VerifRow, l.To-l.From)
		for s := range base[k] {
			n := r.Pick(2, 3, 3, 3, 2, 1)
			seen := map[string]bool{}
			for i := 0; i < n; i++ {
				row := api.VerifRow{Time: l.From + int64(s), Tags: make([]int64, NT)}
				for _, j := range sc.by {
					row.Tags[j] = tagVal(r, sc.wide, 4)
					if sc.strTags {
						// a group-by tag is mapped (integer), unmapped (integer 0 + string value) or unspecified (0, "")
						switch r.Pick(2, 3, 1) {
						case 1:
							if row.STags == nil {
								row.STags = make([]string, NT)
							}
							row.Tags[j] = 0
							row.STags[j] = skeys[1+r.Intn(len(skeys)-1)]
						case 2:
							row.Tags[j] = 0
						}
					}
				}
				if sc.bySk {
					row.SKey = skeys[r.Intn(len(skeys))]
				}
				if !sc.clean {
					switch r.Intn(6) {
					case 0:
						row.Tags[r.Intn(NT)] = tagVal(r, sc.wide, 4)
					case 1:
						row.SKey = skeys[r.Intn(len(skeys))]
					case 2:
						row.Time = l.From + int64(r.Range(-1, int(l.To-l.From)))
					}
				}
				ks := keyStr(&row)
				if seen[ks] && (sc.clean || r.Chance(2, 3)) {
					continue
				}
				seen[ks] = true
				base[k][s] = append(base[k][s], row)
			}
			g := base[k][s]
			if sc.sorted {
				// the order ClickHouse gives the rows of one second for the ORDER BY text the real code generates
				tagDesc, skDesc := sqlKeyDirs(sc.by, sc.bySk, sc.fromEnd)
				sort.SliceStable(g, func(a, b int) bool {
					for i, j := range sc.by {
						if g[a].Tags[j] != g[b].Tags[j] {
							return (g[a].Tags[j] < g[b].Tags[j]) != tagDesc[i]
						}
					}
					if sc.bySk && g[a].SKey != g[b].SKey {
						return (g[a].SKey < g[b].SKey) != skDesc
					}
					return keyCmp(&g[a], &g[b]) < 0
				})
			} else {
				for i := len(g) - 1; i > 0; i-- {
					j := r.Intn(i + 1)
					g[i], g[j] = g[j], g[i]
				}
			}
			flat = append(flat, g...)
		}
	}
	// per handler-what answers
	sc.store = make([][]cell, nq)
	for q := 0; q < nq; q++ {
		sc.store[q] = make([]cell, nl)
		for k := 0; k < nl; k++ {
			c := &sc.store[q][k]
			c.groups = make([][]api.VerifRow, len(base[k]))
			for s, g := range base[k] {
				for _, row := range g {
					if !sc.consistent && r.Chance(1, 4) {
						continue
					}
					row.Tags = append([]int64(nil), row.Tags...)
					row.STags = append([]string(nil), row.STags...)
					for f := 0; f < 6; f++ {
						row.Fields[f] = float64(r.Intn(50) + 100*q)
					}
					c.groups[s] = append(c.groups[s], row)
				}
			}
			if r.Chance(1, 40) {
				c.groups = nil // an answer with no time groups at all
				if countRows(base[k]) > 0 {
					sc.consistent = sc.consistent && nq == 1
				}
			}
			if r.Chance(1, 60) {
				c.err = true
			}
		}
	}
	// markers
	mk := func(row *api.VerifRow) api.RowMarker {
		m := api.RowMarker{Time: row.Time}
		for _, j := range sc.by {
			m.Tags = append(m.Tags, api.RawTag{Index: j, Value: row.Tags[j]})
		}
		if sc.bySk {
			m.SKey = row.SKey
		}
		return m
	}
	rnd := func() api.RowMarker {
		m := api.RowMarker{Time: int64(r.Range(8, int(t)+1))}
		if r.Chance(1, 10) {
			m.Time = int64(r.Range(-1, 1))
		}
		for j := 0; j < NT; j++ {
			if r.Chance(1, 2) {
				m.Tags = append(m.Tags, api.RawTag{Index: j, Value: tagVal(r, sc.wide, 5) - 1 + b2i64(sc.wide)})
			}
		}
		if r.Chance(1, 12) {
			m.Tags = append(m.Tags, api.RawTag{Index: r.Range(NT, 47), Value: int64(r.Intn(2))})
		}
		if r.Chance(1, 2) {
			m.SKey = skeys[r.Intn(len(skeys))]
		}
		return m
	}
	// direction-ordered flat list of base rows, to pick from < to
	ordered := append([]api.VerifRow(nil), flat...)
	sort.SliceStable(ordered, func(a, b int) bool {
		c := reprCmp(sc, &ordered[a], &ordered[b])
		if sc.fromEnd {
			return c > 0
		}
		return c < 0
	})
	pickFrom, pickTo := r.Pick(3, 5, 2), r.Pick(4, 4, 2)
	i1, i2 := 0, 0
	if len(ordered) > 0 {
		i1, i2 = r.Intn(len(ordered)), r.Intn(len(ordered))
		if i1 > i2 && r.Chance(4, 5) {
			i1, i2 = i2, i1
		}
	}
	switch {
	case pickFrom == 1 && len(ordered) > 0:
		sc.from = mk(&ordered[i1])
	case pickFrom == 2:
		sc.from = rnd()
	}
	switch {
	case pickTo == 1 && len(ordered) > 0:
		sc.to = mk(&ordered[i2])
	case pickTo == 2:
		sc.to = rnd()
	}
	// limit
	total := len(flat)
	switch r.Pick(6, 2, 1, 1) {
	case 0:
		sc.limit = r.Range(1, 6)
	case 1:
		sc.limit = total + r.Range(0, 2)
		if sc.limit == 0 {
			sc.limit = 1
		}
	case 2:
		sc.limit = 1
	case 3:
		sc.limit = r.Range(7, 30)
	}
	// direct limitQueries calls
	nlq := r.Range(1, 3)
	for i := 0; i < nlq; i++ {
		sc.lqs = append(sc.lqs, [3]int{r.Intn(nq), r.Intn(nl), r.Pick(1, 3, 3, 2, 1, 1, 1) - 0})
	}
	if r.Chance(1, 20) {
		sc.lqs = append(sc.lqs, [3]int{0, 0, -r.Range(1, 3)})
	}
	return sc
}

var sqlDirCache = map[string][]bool{}

// sqlKeyDirs asks the REAL query builder for the text of a table query grouped by these tags and reads the sort
// direction of every key off its ORDER BY clause (SQL: ASC unless the key itself is followed by DESC). Numeric tags are
// ordered by their first column (tagN), the string top (index 47) by its string column.
func sqlKeyDirs(by []int, bySk, fromEnd bool) (tagDesc []bool, skDesc bool) {
	key := fmt.Sprint(by, bySk, fromEnd)
	if d, ok := sqlDirCache[key]; ok {
		return d[:len(by)], d[len(by)]
	}
	cols := append([]int(nil), by...)
	if bySk {
		cols = append(cols, 47)
	}
	text, err := api.VerifTableSQL(cols, fromEnd)
	if err != nil {
		panic(err)
	}
	i := strings.Index(text, " ORDER BY ")
	j := strings.Index(text, " LIMIT")
	if i < 0 || j < i {
		panic("no ORDER BY clause in " + text)
	}
	items := strings.Split(text[i+len(" ORDER BY "):j], ",")
	if len(items) != 1+2*len(cols) {
		panic("unexpected ORDER BY clause in " + text)
	}
	desc := func(item string) bool { return strings.HasSuffix(strings.TrimSpace(item), " DESC") }
	d := make([]bool, len(by)+1)
	for n := range by {
		d[n] = desc(items[1+2*n])
	}
	if bySk {
		d[len(by)] = desc(items[1+2*len(by)+1])
	}
	sqlDirCache[key] = d
	return d[:len(by)], d[len(by)]
}

// fixed scenarios first (corpus of the design-round findings), then generated ones
func fixedScenario(i int) *scenario {
	row := func(t int64, tag0 int64) api.VerifRow {
		return api.VerifRow{Time: t, Tags: []int64{tag0, 0, 0}, Fields: [6]float64{1, 2, 3, 4, 5, 6}}
	}
	mk := func(t int64, tag0 int64) api.RowMarker {
		return api.RowMarker{Time: t, Tags: []api.RawTag{{Index: 0, Value: tag0}}}
	}
	sc := &scenario{by: []int{0}, limit: 10, consistent: true, sorted: true, clean: true,
		lods: []api.VerifLOD{{From: 10, To: 11, Step: 1}}}
	sc.setWhats([]int{int(promql.DigestCountRaw)})
	switch i {
	case 0: // F9a: both markers inside one time group
		sc.from, sc.to = mk(10, 3), mk(10, 7)
		sc.store = [][]cell{{{groups: [][]api.VerifRow{{row(10, 1), row(10, 5), row(10, 9)}}}}}
		sc.lqs = [][3]int{{0, 0, 10}}
	case 1: // F9b: the row seen after the limit is outside the window
		sc.to = mk(10, 5)
		sc.limit = 1
		sc.store = [][]cell{{{groups: [][]api.VerifRow{{row(10, 3), row(10, 7)}}}}}
		sc.lqs = [][3]int{{0, 0, 1}}
	case 2: // limit reached exactly at the end of a LOD, next LOD has (empty) time groups only
		sc.limit = 1
		sc.lods = []api.VerifLOD{{From: 10, To: 11, Step: 1}, {From: 11, To: 13, Step: 1}}
		sc.store = [][]cell{{{groups: [][]api.VerifRow{{row(10, 3)}}}, {groups: [][]api.VerifRow{nil, nil}}}}
		sc.lqs = [][3]int{{0, 1, 0}}
	case 3: // rows of one LOD keep their own markers: 14 rows of one second, two grouped tags, descending
		sc.by = []int{0, 1}
		sc.fromEnd = true
		sc.limit = 30
		var g []api.VerifRow
		for a := int64(3); a >= 0; a-- {
			for b := int64(3); b >= 0; b-- {
				if a == 3 && b > 1 {
					continue
				}
				g = append(g, api.VerifRow{Time: 10, Tags: []int64{a, b, 0}, Fields: [6]float64{1, 2, 3, 4, 5, 6}})
			}
		}
		sc.store = [][]cell{{{groups: [][]api.VerifRow{g}}}}
	case 4: // the row-marker witness of Props/C25 (reqAlias): first answer tags 1 and 3, second answer only tag 2
		sc.whats = []int{int(promql.DigestCountRaw), int(promql.DigestSumRaw), int(promql.DigestMin), int(promql.DigestMax), int(promql.DigestCardinalityRaw),
			int(promql.DigestP50), int(promql.DigestP90), int(promql.DigestP99)}
		sc.setWhats(sc.whats)
		sc.consistent = false
		sc.store = [][]cell{{{groups: [][]api.VerifRow{{row(10, 1), row(10, 3)}}}}, {{groups: [][]api.VerifRow{{row(10, 2)}}}}}
	default:
		return nil
	}
	return sc
}

const nFixed = 5

// ---------------------------------------------------------------- running

func rowsKeyList(rows []api.VerifRow) string {
	if len(rows) == 0 {
		return "-"
	}
	s := make([]string, len(rows))
	for i := range rows {
		s[i] = keyStr(&rows[i])
	}
	return strings.Join(s, ";")
}

func dataStr(d []float64) string {
	if len(d) == 0 {
		return "-"
	}
	s := make([]string, len(d))
	for i, v := range d {
		switch {
		case math.IsNaN(v):
			s[i] = "nan"
		case v == math.Trunc(v) && math.Abs(v) < 1<<40:
			s[i] = fmt.Sprint(int64(v))
		default:
			s[i] = fmt.Sprintf("f%v", v)
		}
	}
	return strings.Join(s, ",")
}

var errStub = errors.New("stub storage error")
var errUnknownQry = errors.New("stub storage: unknown query")

func runScenario(h *verifx.H, sc *scenario) {
	nq, nl := len(sc.sel), len(sc.lods)
	fe := 0
	if sc.fromEnd {
		fe = 1
	}
	bs := 0
	if sc.bySk {
		bs = 1
	}
	// ---- getHandlerWhat on function lists of every kind (grouping only), then on the request of this case
	{
		r := verifx.NewRng(uint64(sc.limit)*0x9E3779B97F4A7C15 + uint64(len(sc.whats))*15485863 + uint64(len(sc.lods))*32452843 + 777)
		h.Op("seltab")
		tab := make([]string, 30)
		for d := range tab {
			tab[d] = api.VerifSelector(d)
		}
		h.Obs("seltab %s", strings.Join(tab, " "))
		for n := r.Range(1, 2); n > 0; n-- {
			var ws []int
			switch r.Intn(4) {
			case 0: // any codes, also the unspecified one and an unknown one
				for k := r.Range(0, 12); k > 0; k-- {
					ws = append(ws, r.Intn(30))
				}
			case 1: // a few families, several members each
				for k := r.Range(1, 4); k > 0; k-- {
					base := []int{1, 4, 21, 23, 26}[r.Intn(5)]
					for j := r.Range(1, 4); j > 0; j-- {
						ws = append(ws, base+r.Intn(3))
					}
				}
			case 2: // many percentiles: more than 7 selectors, with families in between
				for d := 10; d <= 20; d++ {
					if r.Chance(3, 4) {
						ws = append(ws, d)
					}
				}
				for k := r.Range(0, 6); k > 0; k-- {
					ws = append(ws, 1+r.Intn(9))
				}
			default: // every function once
				for d := 1; d <= 28; d++ {
					ws = append(ws, d)
				}
			}
			for i := len(ws) - 1; i > 0; i-- {
				j := r.Intn(i + 1)
				ws[i], ws[j] = ws[j], ws[i]
			}
			opWhats(h, ws, make([]int, len(ws)))
		}
	}
	h.Op("cfg nt=%d by=%s bysk=%d fe=%d lim=%d sel=%s", 2*NT, verifx.List(sc.by), bs, fe, sc.limit, selStr(sc.sel))
	{
		fs := make([]int, len(sc.whats))
		for i, d := range sc.whats {
			fs[i] = digestField[promql.DigestWhat(d)]
		}
		opWhats(h, sc.whats, fs)
	}
	h.Op("from %s", markerStr(sc.from))
	h.Op("to %s", markerStr(sc.to))
	for _, l := range sc.lods {
		h.Op("lod %d %d", l.From, l.To)
	}
	nrows := 0
	for q := 0; q < nq; q++ {
		for k := 0; k < nl; k++ {
			c := &sc.store[q][k]
			if c.err {
				h.Op("err %d %d", q, k)
				h.Stat("cell.err", 1)
			}
			for _, g := range c.groups {
				h.Op("grp %d %d", q, k)
				for i := range g {
					h.Op("row %d %d %d %s %d %s", q, k, g[i].Time, wireTags(&g[i]), skeyCode(g[i].SKey), fieldsStr(g[i].Fields))
					nrows++
				}
			}
		}
	}
	h.Stat("rows.storage", int64(nrows))
	h.Stat(fmt.Sprintf("handlerwhats.%d", nq), 1)
	h.Stat(fmt.Sprintf("lods.%d", nl), 1)
	h.Stat(fmt.Sprintf("by.%d", len(sc.by)), 1)
	if sc.fromEnd {
		h.Stat("dir.fromEnd", 1)
	}
	if !sc.consistent {
		h.Stat("storage.inconsistent", 1)
	}
	if !sc.sorted {
		h.Stat("storage.unsorted", 1)
	}
	if !sc.clean {
		h.Stat("storage.dirty", 1)
	}
	if sc.wide {
		h.Stat("tags.wide", 1)
	}
	if sc.strTags {
		h.Stat("tags.unmapped-strings", 1)
	}
	if sc.from.Time != 0 {
		h.Stat("marker.from", 1)
	}
	if sc.to.Time != 0 {
		h.Stat("marker.to", 1)
	}

	// ---- the two comparators directly, over boundary values
	runComparators(h, sc)

	// ---- limitQueries directly
	for _, lq := range sc.lqs {
		q, k, lim := lq[0], lq[1], lq[2]
		h.Op("lq %d %d %d", q, k, lim)
		func() {
			defer func() {
				if p := recover(); p != nil {
					h.Obs("panic")
				}
			}()
			groups := sc.store[q][k].groups
			rows, more := api.VerifLimitQueries(groups, sc.from, sc.to, sc.fromEnd, lim, NT)
			h.Obs("lq more=%d rows=%s", b2i(more), rowsKeyList(rows))
			h.Stat("lq.calls", 1)
			// direct oracle: the window and the limit are respected, has-more is exact
			var cand []api.VerifRow
			for gi := range groups {
				g := groups[gi]
				if sc.fromEnd {
					g = groups[len(groups)-1-gi]
				}
				for i := range g {
					if inWindow(sc, &g[i]) {
						cand = append(cand, g[i])
					}
				}
			}
			l0 := lim
			if l0 < 0 {
				l0 = 0
			}
			want := cand
			if len(want) > l0 {
				want = want[:l0]
			}
			if rowsKeyList(rows) != rowsKeyList(want) {
				sig := "limit-rows"
				if len(rows) < len(want) {
					sig = "limit-window-rows-skipped"
				}
				h.Viol(sig, "limitQueries(limit=%d) returned %s, the first rows of the window are %s", lim, rowsKeyList(rows), rowsKeyList(want))
			}
			if more != (len(cand) > l0) {
				if more {
					h.Viol("limit-hasmore-spurious", "limitQueries(limit=%d) reports more although the window holds %d rows", lim, len(cand))
				} else {
					h.Viol("limit-hasmore-missed", "limitQueries(limit=%d) reports no more although the window holds %d rows", lim, len(cand))
				}
			}
			if len(cand) > 0 && len(cand) < countRows(groups) {
				h.Stat("lq.window.partial", 1)
			}
			if more {
				h.Stat("lq.more", 1)
			}
		}()
	}

	// ---- the table
	h.Op("run")
	defer func() {
		if p := recover(); p != nil {
			h.Obs("panic")
			h.Viol("table-panic", "getTableFromLODs panicked for handler-whats %s: %v", selStr(sc.sel), p)
			h.Stat("run.panic", 1)
		}
	}()
	visited := map[[2]int]bool{}
	unknownQry := ""
	req := api.VerifTableReq{From: sc.from, To: sc.to, FromEnd: sc.fromEnd, Limit: sc.limit, By: byStrings(sc), Whats: sc.whats, NTags: NT, LODs: sc.lods,
		Store: func(qry string, k int) ([][]api.VerifRow, error) {
			q := -1
			for i, key := range sc.qry {
				if key == qry {
					q = i
				}
			}
			if q < 0 {
				unknownQry = qry
				return nil, errUnknownQry
			}
			visited[[2]int{q, k}] = true
			if sc.store[q][k].err {
				return nil, errStub
			}
			return sc.store[q][k].groups, nil
		}}
	out, more, err := api.VerifGetTable(req)
	if err != nil {
		if errors.Is(err, errUnknownQry) {
			h.Obs("err-other unknown storage query")
			h.Viol("storage-query-unexpected", "getTableFromLODs asked the storage for selectors %s, the requested functions %v need %v", unknownQry, sc.whats, sc.qry)
			return
		}
		if !errors.Is(err, errStub) {
			h.Obs("err-other %v", err)
			return
		}
		h.Obs("err")
		h.Stat("run.err", 1)
		return
	}
	// canonical order: runs of rows with the same visible sort key are ordered by full key
	rows := make([]api.VerifRow, len(out))
	for i := range out {
		rows[i] = api.VerifRow{Time: out[i].Time, Tags: out[i].Tags, STags: out[i].STags, SKey: out[i].SKey}
	}
	idx := make([]int, len(out))
	for i := range idx {
		idx[i] = i
	}
	for a := 0; a < len(idx); {
		b := a + 1
		for b < len(idx) && reprCmp(sc, &rows[idx[a]], &rows[idx[b]]) == 0 {
			b++
		}
		run := idx[a:b]
		sort.SliceStable(run, func(x, y int) bool { return keyCmp(&rows[run[x]], &rows[run[y]]) < 0 })
		a = b
	}
	h.Obs("res n=%d more=%d", len(out), b2i(more))
	for _, i := range idx {
		extra := ""
		if out[i].Rest {
			extra = " rest"
		}
		h.Obs("r %d %s %d %s%s", out[i].Time, wireTags(&rows[i]), skeyCode(out[i].SKey), dataStr(out[i].Data), extra)
	}
	h.Stat("rows.table", int64(len(out)))
	if more {
		h.Stat("run.more", 1)
	}

	// ---------------- direct oracle on the real result
	// column c of every row is function c of the request (as the response lists it: sorted by function code); the
	// storage query that serves it comes from the reference grouping
	ncols := len(sc.whats)
	colQ, colF := []int{}, []int{}
	sortedWhats, refSel, _ := refGroup(sc.whats)
	for q, g := range refSel {
		for range g {
			colQ = append(colQ, q)
		}
	}
	for _, d := range sortedWhats {
		colF = append(colF, digestField[promql.DigestWhat(d)])
	}
	// storage index per handler-what (all LODs), and duplicate detection
	type ent struct {
		row   *api.VerifRow
		count int
	}
	idxQ := make([]map[string]*ent, nq)
	dup := false
	for q := 0; q < nq; q++ {
		idxQ[q] = map[string]*ent{}
		for k := 0; k < nl; k++ {
			for _, g := range sc.store[q][k].groups {
				for i := range g {
					ks := keyStr(&g[i])
					if e := idxQ[q][ks]; e != nil {
						e.count++
						dup = true
					} else {
						idxQ[q][ks] = &ent{row: &g[i], count: 1}
					}
				}
			}
		}
	}
	padded := false
	for i := range out {
		ks := keyStr(&rows[i])
		// (1) one column per requested function, missing values are NaN
		if !dup {
			if len(out[i].Data) != ncols {
				h.Viol("column-count-mismatch", "row %s has %d columns for %d requested functions %v (storage queries %s)", ks, len(out[i].Data), ncols, sortedWhats, selStr(sc.sel))
			} else {
				for c, v := range out[i].Data {
					e := idxQ[colQ[c]][ks]
					switch {
					case math.IsNaN(v):
						padded = true
					case e == nil:
						h.Viol("column-function-misaligned", "row %s column %d (function %d) shows %v but storage has no such row for that function", ks, c, sortedWhats[c], v)
					case fieldVal(e.row, colF[c]) != v:
						h.Viol("column-function-misaligned", "row %s column %d (function %d) shows %v, storage has %v for it", ks, c, sortedWhats[c], v, fieldVal(e.row, colF[c]))
					}
				}
			}
		}
		// (2) unique by time and tags
		for j := 0; j < i; j++ {
			if keyCmp(&rows[i], &rows[j]) == 0 && !out[i].Rest && !out[j].Rest {
				h.Viol("table-duplicate", "rows %d and %d have the same time and tags %s", j, i, ks)
			}
		}
		// (3) sorted in the requested direction
		if i > 0 {
			c := reprCmp(sc, &rows[i-1], &rows[i])
			if (!sc.fromEnd && c > 0) || (sc.fromEnd && c < 0) {
				h.Viol("table-unsorted", "rows %d,%d out of order: %s then %s (fromEnd=%v)", i-1, i, keyStr(&rows[i-1]), ks, sc.fromEnd)
			}
		}
		// (4) the row window is respected
		if !inWindow(sc, &rows[i]) {
			h.Viol("table-window", "row %s is outside the requested window from=(%s) to=(%s)", ks, markerStr(sc.from), markerStr(sc.to))
		}
		// the marker a client pages with must describe the row itself
		want := api.RowMarker{Time: rows[i].Time}
		for _, j := range sc.by {
			want.Tags = append(want.Tags, api.RawTag{Index: j, Value: rows[i].Tags[j]})
		}
		got := out[i].Repr
		same := got.Time == want.Time && len(got.Tags) == len(want.Tags)
		for j := 0; same && j < len(want.Tags); j++ {
			same = got.Tags[j] == want.Tags[j]
		}
		if !same {
			h.Viol("table-row-marker", "row %s carries the row marker (%s)", ks, markerStr(got))
		}
	}
	if padded {
		h.Stat("run.nan-padded", 1)
	}
	// (5) limit, completeness and has-more: only when every function sees the same clean keys
	if sc.consistent && sc.clean && !dup {
		var w []api.VerifRow
		for k := 0; k < nl; k++ {
			for _, g := range sc.store[0][k].groups {
				for i := range g {
					if inWindow(sc, &g[i]) {
						w = append(w, g[i])
					}
				}
			}
		}
		lim := sc.limit
		if len(out) > lim {
			h.Viol("table-limit", "%d rows returned for limit %d", len(out), lim)
		}
		wantN := len(w)
		if wantN > lim {
			wantN = lim
		}
		if len(out) < wantN {
			h.Viol("table-window-rows-skipped", "%d rows returned, the window holds %d and the limit is %d", len(out), len(w), lim)
		}
		if more && len(w) <= lim {
			h.Viol("table-hasmore-spurious", "has-more is set, the window holds %d rows and the limit is %d", len(w), lim)
		}
		if !more && len(w) > lim {
			h.Viol("table-hasmore-missed", "has-more is not set, the window holds %d rows and the limit is %d", len(w), lim)
		}
		if sc.sorted && len(out) == wantN {
			sort.SliceStable(w, func(a, b int) bool {
				c := reprCmp(sc, &w[a], &w[b])
				if sc.fromEnd {
					return c > 0
				}
				return c < 0
			})
			got := make([]api.VerifRow, len(idx))
			for i, j := range idx {
				got[i] = rows[j]
			}
			// compare as sequences of visible sort keys
			for i := 0; i < wantN; i++ {
				if reprCmp(sc, &got[i], &w[i]) != 0 {
					h.Viol("table-page", "row %d is %s, the %d-th row of the window in the requested order is %s", i, keyStr(&got[i]), i, keyStr(&w[i]))
					break
				}
			}
		}
		if len(w) > 0 && len(w) < countAll(sc) {
			h.Stat("run.window.partial", 1)
		}
		h.Stat("run.oracle.full", 1)
	}
	// ---------------- evidence rule
	markerAtRowTime := false
	for k := 0; k < nl && !markerAtRowTime; k++ {
		for _, g := range sc.store[0][k].groups {
			for i := range g {
				if (sc.from.Time != 0 && g[i].Time == sc.from.Time) || (sc.to.Time != 0 && g[i].Time == sc.to.Time) {
					markerAtRowTime = true
				}
			}
		}
	}
	if markerAtRowTime {
		h.NonTrivial("marker-in-group")
	}
	if nq > 1 && padded {
		h.NonTrivial("multi-what-padding")
	}
	if nl > 1 && more {
		h.NonTrivial("multi-lod-more")
	}
	_ = visited
}

// cmp3: reference three-way comparison of int64 (no arithmetic)
func cmp3(a, b int64) int {
	if a < b {
		return -1
	} else if a > b {
		return 1
	}
	return 0
}

// runComparators: `cmp` = the real queryTableRows.Less on two row markers, `mlt` = the real lessThan of a marker against
// a storage row; both are compared with the model (order on unbounded Int) and with a reference lexicographic order.
// The PRNG is derived from the scenario so that the generated scenario itself is unchanged by these ops.
func runComparators(h *verifx.H, sc *scenario) {
	r := verifx.NewRng(uint64(sc.limit)*0x9E3779B97F4A7C15 + uint64(len(sc.whats))*7919 + uint64(len(sc.lods))*104729 + uint64(b2i(sc.fromEnd)) + 12345)
	val := func() int64 {
		if r.Chance(3, 4) {
			return wideVals[r.Intn(len(wideVals))]
		}
		return int64(r.Intn(3))
	}
	for n := 0; n < 4; n++ {
		nt := r.Pick(1, 3, 3, 1)
		mk := func(ntags int) api.RowMarker {
			m := api.RowMarker{Time: int64(10 + r.Intn(2)), SKey: skeys[r.Intn(3)]}
			for j := 0; j < ntags; j++ {
				m.Tags = append(m.Tags, api.RawTag{Index: j, Value: val()})
			}
			return m
		}
		a := mk(nt)
		b := mk(nt)
		switch r.Intn(6) {
		case 0:
			b = mk(r.Pick(1, 3, 3, 1)) // possibly another length
		case 1, 2: // equal prefix, differ late
			b.Time = a.Time
			for j := range b.Tags {
				if j+1 < len(b.Tags) || r.Bool() {
					b.Tags[j].Value = a.Tags[j].Value
				}
			}
		}
		h.Op("cmp %s / %s", markerStr(a), markerStr(b))
		func() {
			defer func() {
				if p := recover(); p != nil {
					h.Obs("panic")
				}
			}()
			got := api.VerifLess(a, b)
			h.Obs("cmp %d", b2i(got))
			h.Stat("cmp.calls", 1)
			// reference: lexicographic on (time, number of tags, tag values, skey)
			c := cmp3(a.Time, b.Time)
			if c == 0 {
				c = cmp3(int64(len(a.Tags)), int64(len(b.Tags)))
			}
			for j := 0; c == 0 && j < len(a.Tags); j++ {
				c = cmp3(a.Tags[j].Value, b.Tags[j].Value)
				if c != 0 && (a.Tags[j].Value < 0) != (b.Tags[j].Value < 0) {
					h.Stat("cmp.decided-by-opposite-signs", 1)
				}
			}
			if c == 0 {
				c = strings.Compare(a.SKey, b.SKey)
			}
			if got != (c < 0) {
				h.Viol("less-order", "queryTableRows.Less((%s), (%s)) = %v, the rows compare %d in (time, tags, skey) order", markerStr(a), markerStr(b), got, c)
			}
		}()
	}
	for n := 0; n < 3; n++ {
		row := api.VerifRow{Time: int64(10 + r.Intn(2)), Tags: make([]int64, NT), SKey: skeys[r.Intn(3)]}
		for j := range row.Tags {
			row.Tags[j] = val()
		}
		m := api.RowMarker{Time: int64(10 + r.Intn(2)), SKey: skeys[r.Intn(3)]}
		for j := 0; j < NT; j++ {
			if r.Chance(2, 3) {
				v := val()
				if r.Chance(1, 3) {
					v = row.Tags[j]
				}
				m.Tags = append(m.Tags, api.RawTag{Index: j, Value: v})
			}
		}
		if r.Chance(1, 2) {
			m.Time = row.Time
		}
		orEq, fe := r.Bool(), r.Bool()
		h.Op("mlt %s / %d %s %d / %d %d", markerStr(m), row.Time, tagsStr(row.Tags), skeyCode(row.SKey), b2i(orEq), b2i(fe))
		func() {
			defer func() {
				if p := recover(); p != nil {
					h.Obs("panic")
				}
			}()
			got := api.VerifLessThan(m, row, orEq, fe)
			h.Obs("mlt %d", b2i(got))
			h.Stat("mlt.calls", 1)
			c := cmpMarker(m, &row) // reference: marker tuple against the row's projection, three-way
			if fe {
				c = -c
			}
			want := c < 0 || (orEq && c == 0)
			if got != want {
				h.Viol("lessthan-order", "lessThan((%s), row %s, orEq=%v, fromEnd=%v) = %v, want %v", markerStr(m), keyStr(&row), orEq, fe, got, want)
			}
		}()
	}
}

func countRows(gs [][]api.VerifRow) int {
	n := 0
	for _, g := range gs {
		n += len(g)
	}
	return n
}

func countAll(sc *scenario) int {
	n := 0
	for k := range sc.lods {
		n += countRows(sc.store[0][k].groups)
	}
	return n
}

func b2i64(b bool) int64 {
	if b {
		return 1
	}
	return 0
}

func b2i(b bool) int {
	if b {
		return 1
	}
	return 0
}

// -mode=getpage: the real handleGetTable (with its own GetLODs and LOD reordering) over a two-LOD time range
func modeGetPage() {
	now := time.Now().Unix()
	nowH := now - now%3600
	from, to := nowH-54*3600, nowH-50*3600
	var rowTimes []int64
	for m := int64(5); m <= 25; m += 5 {
		rowTimes = append(rowTimes, from+m*60) // old LOD (1m table)
		rowTimes = append(rowTimes, to-m*60)   // new LOD (1s table)
	}
	for _, fe := range []bool{false, true} {
		for _, limit := range []int{3, 100} {
			times, more, visits, err := api.VerifHandleGetTable(from, to, fe, limit, rowTimes, api.RowMarker{}, api.RowMarker{})
			if err != nil {
				fmt.Printf("getpage fromEnd=%v limit=%d err=%v\n", fe, limit, err)
				continue
			}
			var rel []string
			for _, t := range times {
				if t-from < to-t {
					rel = append(rel, fmt.Sprintf("from+%dm", (t-from)/60))
				} else {
					rel = append(rel, fmt.Sprintf("to-%dm", (to-t)/60))
				}
			}
			var vs []string
			for _, v := range visits {
				vs = append(vs, fmt.Sprintf("step%d", v.Step))
			}
			fmt.Printf("getpage fromEnd=%v limit=%d more=%v rows=[%s] lods-visited=[%s]\n", fe, limit, more, strings.Join(rel, " "), strings.Join(vs, " "))
		}
	}
}

// hpage: one case through the REAL handleGetTable (GetLODs over a range that crosses the 1m/1s table boundary, the
// caller's LOD ordering, getTableFromLODs, cacheGet -> cache2 -> stub loader). Real times depend on time.Now(); the
// case is printed in abstract times: old LOD = [100,200) with a row at 100+m for a row at from+m minutes, new LOD =
// [200,300) with a row at 300-m for a row at to-m minutes (order preserving, so the model sees the same scenario).
func runHPage(h *verifx.H, r *verifx.Rng, fixed int) {
	now := time.Now().Unix()
	nowH := now - now%3600
	from, to := nowH-54*3600, nowH-50*3600
	fe := r.Bool()
	limit := r.Range(1, 8)
	var oldM, newM []int
	for m := 1; m < 60; m++ {
		if r.Chance(1, 8) {
			oldM = append(oldM, m)
		}
		if r.Chance(1, 8) {
			newM = append(newM, m)
		}
	}
	markAt := -1 // abstract time of the from-marker, -1 = none
	switch fixed {
	case 0:
		fe, limit, oldM, newM = true, 3, []int{5, 10, 15, 20, 25}, []int{5, 10, 15, 20, 25}
	case 1:
		fe, limit, oldM, newM = false, 3, []int{5, 10, 15, 20, 25}, []int{5, 10, 15, 20, 25}
	case 2: // second descending page: continue below the last row of the first page
		fe, limit, oldM, newM, markAt = true, 4, []int{5, 10, 15}, []int{5, 10, 15}, 295
	default:
		if r.Chance(1, 3) && len(oldM)+len(newM) > 0 {
			k := r.Intn(len(oldM) + len(newM))
			if k < len(oldM) {
				markAt = 100 + oldM[k]
			} else {
				markAt = 300 - newM[k-len(oldM)]
			}
		}
	}
	abs2real := func(a int) int64 {
		if a < 200 {
			return from + int64(a-100)*60
		}
		return to - int64(300-a)*60
	}
	real2abs := func(t int64) int {
		if t-from < to-t {
			return 100 + int((t-from)/60)
		}
		return 300 - int((to-t)/60)
	}
	var rowTimes []int64
	var absRows []int
	for _, m := range oldM {
		absRows = append(absRows, 100+m)
	}
	for i := len(newM) - 1; i >= 0; i-- {
		absRows = append(absRows, 300-newM[i])
	}
	for _, a := range absRows {
		rowTimes = append(rowTimes, abs2real(a))
	}
	var fromRow api.RowMarker
	if markAt >= 0 {
		fromRow = api.RowMarker{Time: abs2real(markAt)}
	}
	h.Op("cfg nt=0 by=- bysk=0 fe=%d lim=%d sel=0", b2i(fe), limit)
	if markAt >= 0 {
		h.Op("from %d - 0", markAt)
	} else {
		h.Op("from 0 - 0")
	}
	h.Op("to 0 - 0")
	h.Op("lod 100 200")
	h.Op("lod 200 300")
	for _, a := range absRows {
		k := 0
		if a >= 200 {
			k = 1
		}
		h.Op("grp 0 %d", k)
		h.Op("row 0 %d %d - 0 1,0,0,0,0,0", k, a)
	}
	h.Op("hrun")
	h.Stat("hpage", 1)
	defer func() {
		if p := recover(); p != nil {
			h.Obs("panic")
			h.Viol("table-panic", "handleGetTable panicked: %v", p)
		}
	}()
	times, more, visits, err := api.VerifHandleGetTable(from, to, fe, limit, rowTimes, fromRow, api.RowMarker{})
	if err != nil {
		h.Obs("err-other %v", err)
		return
	}
	if len(visits) > 0 {
		h.Stat(fmt.Sprintf("hpage.firstlod.step%d", visits[0].Step), 1)
	}
	h.Obs("res n=%d more=%d", len(times), b2i(more))
	for _, t := range times {
		h.Obs("r %d - 0 1", real2abs(t))
	}
	// direct oracle: the page is the first `limit` rows of the window in the requested direction
	var w []int
	for _, a := range absRows {
		if markAt >= 0 && ((!fe && a <= markAt) || (fe && a >= markAt)) {
			continue
		}
		w = append(w, a)
	}
	if fe {
		for i, j := 0, len(w)-1; i < j; i, j = i+1, j-1 {
			w[i], w[j] = w[j], w[i]
		}
	}
	want := w
	if len(want) > limit {
		want = want[:limit]
	}
	got := make([]int, len(times))
	for i, t := range times {
		got[i] = real2abs(t)
	}
	if fmt.Sprint(got) != fmt.Sprint(want) {
		h.Viol("table-page-lod-order", "handleGetTable(fromEnd=%v, limit=%d) over LODs [100,200) [200,300) returned rows at %v, the first rows of the window in the requested direction are %v", fe, limit, got, want)
	}
	if more != (len(w) > limit) {
		h.Viol("table-hasmore-lod-order", "handleGetTable(fromEnd=%v, limit=%d) has-more=%v, the window holds %d rows", fe, limit, more, len(w))
	}
	if fe && len(oldM) > 0 && len(newM) > 0 {
		h.NonTrivial("descending-multi-lod")
	}
}

func main() {
	h := verifx.New()
	if h.Mode == "sql" {
		for _, fe := range []bool{false, true} {
			for _, by := range [][]int{nil, {1}, {1, 2}} {
				q, err := api.VerifTableSQL(by, fe)
				fmt.Printf("fromEnd=%v by=%v err=%v\n  %s\n", fe, by, err, q)
			}
		}
		return
	}
	if h.Mode == "getpage" {
		modeGetPage()
		return
	}
	h.Cases(func(i int, r *verifx.Rng) {
		if i >= nFixed && i < nFixed+3 {
			runHPage(h, r, i-nFixed)
			return
		}
		if i >= nFixed+3 && i%25 == 7 {
			runHPage(h, r, -1)
			return
		}
		sc := fixedScenario(i)
		if sc == nil {
			sc = genScenario(r, h)
		} else {
			h.Stat("fixed", 1)
		}
		runScenario(h, sc)
	})
	h.Done()
}
