//go:build verif

package promql

import (
	"context"

	"github.com/VKCOM/statshouse/internal/data_model"
	"github.com/VKCOM/statshouse/internal/promql/parser"
)

// VerifC27Window drives the real window cursor (newWindow/moveOneLeft) and reports (l, r, n) after every successful move.
func VerifC27Window(t []int64, v []float64, w, step int64, strict bool, f func(l, r, n int)) {
	wnd := newWindow(t, v, w, step, strict)
	for wnd.moveOneLeft() {
		f(wnd.l, wnd.r, wnd.n)
	}
}

// VerifC27Exec is Engine.Exec that also returns the evaluator's time scale and the texts of the expressions the
// evaluator decided to replace by a storage query (none if no reduction rule matched). Exec itself is NewEvaluator + Run.
func VerifC27Exec(ng Engine, ctx context.Context, h Handler, qry Query) (parser.Value, func(), data_model.Timescale, []string, error) {
	ev, err := ng.NewEvaluator(ctx, h, qry)
	if err != nil {
		return nil, nil, data_model.Timescale{}, nil, err
	}
	var replaced []string
	for e := range ev.ars {
		replaced = append(replaced, e.String())
	}
	v, cancel, err := ev.Run()
	return v, cancel, ev.t, replaced, err
}
