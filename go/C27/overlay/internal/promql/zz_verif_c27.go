//go:build verif

package promql

import (
	"context"

	"github.com/VKCOM/statshouse/internal/data_model"
	"github.com/VKCOM/statshouse/internal/promql/parser"
)

// VerifC27Window drives the real window cursor (newWindow/moveOneLeft) and reports (l, r, n) after every successful move.
func VerifC27Window(t []int64, v []float64, w, step int64, strict bool, f func(l, r, n int)) {
	wnd := newWindow(t, v, w, step, strict)
	for wnd.moveOneLeft() {
		f(wnd.l, wnd.r, wnd.n)
	}
}

// VerifC27Reduce runs the real evalReductionRules for the (only) vector selector of expr, with the same path the
// evaluator passes. Returns (found, depth-marker expression string, what, range, grouped, groupBy, without).
func VerifC27Reduce(expr parser.Expr, stepMin int64) (ok bool, what string, rng int64, grouped bool, groupBy []string, without bool, replaced string) {
	parser.Inspect(expr, func(node parser.Node, nodes []parser.Node) error {
		if s, is := node.(*parser.VectorSelector); is {
			var r reduction
			r, ok = evalReductionRules(s, nodes, stepMin)
			if ok {
				what, rng, grouped, groupBy, without = r.what, r.step, r.grouped, r.groupBy, r.groupWithout
				replaced = r.expr.String()
			}
		}
		return nil
	})
	return
}

// VerifC27Exec is Engine.Exec that also returns the evaluator's time scale (Exec itself is NewEvaluator + Run).
func VerifC27Exec(ng Engine, ctx context.Context, h Handler, qry Query) (parser.Value, func(), data_model.Timescale, error) {
	ev, err := ng.NewEvaluator(ctx, h, qry)
	if err != nil {
		return nil, nil, data_model.Timescale{}, err
	}
	v, cancel, err := ev.Run()
	return v, cancel, ev.t, err
}
