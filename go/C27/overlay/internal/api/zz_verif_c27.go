//go:build verif

package api

import "github.com/VKCOM/statshouse/internal/promql"

// VerifC27Row is one stored row (count, sum, min, max, sumsquare) as the time-series cache keeps it.
type VerifC27Row struct {
	Count, Sum, Min, Max, SumSquare float64
}

// VerifC27MergeValue merges rows with the real tsValues.merge (in the given order) and selects the value with the real
// tsValues.value, exactly as requestHandler.QuerySeries/copyRowValuesAt do for one (group, time bucket).
func VerifC27MergeValue(rows []VerifC27Row, what promql.DigestWhat, queryStep, lodStep int64) float64 {
	var acc tsValues
	for i, r := range rows {
		v := tsValues{count: r.Count, sum: r.Sum, min: r.Min, max: r.Max, sumsquare: r.SumSquare}
		if i == 0 {
			acc = v
		} else {
			acc.merge(v)
		}
	}
	if queryStep == 0 {
		queryStep = lodStep
	}
	return acc.value(what, what.Selector().Argument, queryStep, lodStep)
}
