//go:build verif

package main

import (
	"fmt"
	"math/big"
	"sort"
	"strings"
)

// ---------------------------------------------------------------- reference evaluation (definitions, big.Rat)

type rser struct {
	tags [][2]int64
	vals []*big.Rat // nil = missing
}

type flags struct {
	inexact bool
	tie     bool
}

func exactRat(r *big.Rat) bool {
	_, ex := r.Float64()
	return ex
}

func (f *flags) chk(r *big.Rat) *big.Rat {
	if !exactRat(r) {
		f.inexact = true
	}
	return r
}

func tagKey(t [][2]int64) string {
	ss := make([]string, len(t))
	for i, p := range t {
		ss[i] = fmt.Sprintf("%d=%d", p[0], p[1])
	}
	return "{" + strings.Join(ss, ",") + "}"
}

func groupKey(n node, tags [][2]int64) [][2]int64 {
	var res [][2]int64
	for _, t := range tags {
		listed := false
		for _, l := range n.labels {
			if int64(labelIdx(l)) == t[0] {
				listed = true
			}
		}
		if listed != n.without {
			res = append(res, t)
		}
	}
	return res
}

func sortedPresent(col []*big.Rat) []*big.Rat {
	var p []*big.Rat
	for _, v := range col {
		if v != nil {
			p = append(p, v)
		}
	}
	sort.Slice(p, func(i, j int) bool { return p[i].Cmp(p[j]) < 0 })
	return p
}

func present(col []*big.Rat) []*big.Rat {
	var p []*big.Rat
	for _, v := range col {
		if v != nil {
			p = append(p, v)
		}
	}
	return p
}

func ratInt(n int) *big.Rat { return big.NewRat(int64(n), 1) }

func sqrtRat(r *big.Rat, f *flags) *big.Rat {
	if r.Sign() < 0 {
		f.inexact = true
		return new(big.Rat)
	}
	n := new(big.Int).Sqrt(r.Num())
	d := new(big.Int).Sqrt(r.Denom())
	if new(big.Int).Mul(n, n).Cmp(r.Num()) != 0 || new(big.Int).Mul(d, d).Cmp(r.Denom()) != 0 {
		f.inexact = true
		x := new(big.Float).SetPrec(300).SetRat(r)
		x.Sqrt(x)
		res, _ := x.Rat(nil)
		return res
	}
	return new(big.Rat).SetFrac(n, d)
}

// population variance with the exactness of every float step the code performs (mean, d*d/cnt, running sum)
func variance(p []*big.Rat, f *flags) *big.Rat {
	n := ratInt(len(p))
	sum := new(big.Rat)
	for _, v := range p {
		sum = f.chk(new(big.Rat).Add(sum, v))
	}
	mean := f.chk(new(big.Rat).Quo(sum, n))
	res := new(big.Rat)
	for _, v := range p {
		d := f.chk(new(big.Rat).Sub(v, mean))
		dd := f.chk(new(big.Rat).Mul(d, d))
		res = f.chk(new(big.Rat).Add(res, f.chk(new(big.Rat).Quo(dd, n))))
	}
	return res
}

// quantile of the present points: linear interpolation between the closest ranks of the sorted values
func quantileDef(qn, qd int64, sorted []*big.Rat, f *flags) *big.Rat {
	if len(sorted) == 0 {
		return nil
	}
	q := big.NewRat(qn, qd)
	ix := f.chk(new(big.Rat).Mul(q, ratInt(len(sorted)-1)))
	i1 := int(new(big.Int).Quo(ix.Num(), ix.Denom()).Int64())
	i2 := i1 + 1
	if i2 > len(sorted)-1 {
		i2 = len(sorted) - 1
	}
	frac := new(big.Rat).Sub(ix, ratInt(i1)) // position between the two ranks
	a := f.chk(new(big.Rat).Mul(sorted[i1], f.chk(new(big.Rat).Sub(ratInt(i2), ix))))
	w2 := f.chk(new(big.Rat).Sub(ratInt(1), new(big.Rat).Sub(ratInt(i2), ix)))
	b := f.chk(new(big.Rat).Mul(sorted[i2], w2))
	_ = frac
	return f.chk(new(big.Rat).Add(a, b))
}

func aggDef(n node, col []*big.Rat, f *flags) *big.Rat {
	p := present(col)
	switch n.kind {
	case "q":
		return quantileDef(n.qn, n.qd, sortedPresent(col), f)
	}
	switch n.op {
	case "count":
		return ratInt(len(p))
	}
	if len(p) == 0 {
		return nil
	}
	switch n.op {
	case "sum", "avg":
		s := new(big.Rat)
		for _, v := range p {
			s = f.chk(new(big.Rat).Add(s, v))
		}
		if n.op == "avg" {
			return f.chk(s.Quo(s, ratInt(len(p))))
		}
		return s
	case "min":
		return sortedPresent(col)[0]
	case "max":
		return sortedPresent(col)[len(p)-1]
	case "group":
		return ratInt(1)
	case "stdvar":
		return variance(p, f)
	case "stddev":
		return sqrtRat(variance(p, f), f)
	}
	panic("agg op " + n.op)
}

type tsInfo struct {
	times          []int64
	widths         []int64 // step of the LOD each point belongs to
	startX, vs, ve int
	lod, step      int64 // finest (last) LOD step, requested step
}

// the window of index r for range w: the engine's convention is that point i stands for [t[i], t[i+1]) and index 0 is a
// guard point, so a window must start at an index >= 1.  strict: the widest window not wider than w; otherwise the
// narrowest window at least w wide.  ok=false: no such window inside the fetched time scale (result missing).
func windowDef(ts tsInfo, r int, w int64, strict bool) (l int, empty bool, ok bool) {
	s := ts.lod
	if r+1 < len(ts.times) {
		s = ts.times[r+1] - ts.times[r]
	}
	width := func(l int) int64 { return ts.times[r] - ts.times[l] + s }
	if strict {
		if w < width(r) {
			return r, true, r >= 1
		}
		l = r
		for l-1 >= 0 && width(l-1) <= w {
			l--
		}
		if width(l) == w {
			return l, false, l >= 1
		}
		// narrower than w: the cursor accepts it only when one more point would exceed w, i.e. l-1 exists
		return l, false, l >= 1
	}
	l = r
	for l >= 0 && width(l) < w {
		l--
	}
	return l, false, l >= 1
}

func otDef(n node, win []*big.Rat, f *flags) *big.Rat {
	p := present(win)
	if len(p) == 0 {
		if n.kind == "ot" && n.op == "count" {
			return ratInt(0)
		}
		return nil
	}
	if n.kind == "qot" {
		return quantileDef(n.qn, n.qd, sortedPresent(win), f)
	}
	switch n.op {
	case "count":
		return ratInt(len(p))
	case "last":
		return p[len(p)-1]
	case "stdvar":
		return variance(p, f)
	case "stddev":
		return sqrtRat(variance(p, f), f)
	}
	return aggDef(node{kind: "agg", op: n.op}, win, f)
}

func hasPresentInView(ts tsInfo, s rser) bool {
	for i := ts.vs; i < ts.ve && i < len(s.vals); i++ {
		if s.vals[i] != nil {
			return true
		}
	}
	return false
}

func weightsDef(ts tsInfo, g []rser, f *flags) []*big.Rat {
	allND := true
	for _, s := range g {
		var prev *big.Rat
		for i := ts.vs; i < ts.ve; i++ {
			if v := s.vals[i]; v != nil {
				if prev != nil && v.Cmp(prev) < 0 {
					allND = false
				}
				prev = v
			}
		}
	}
	w := make([]*big.Rat, len(g))
	for i, s := range g {
		if allND {
			w[i] = new(big.Rat)
			for j := ts.ve; j > 0; j-- {
				if s.vals[j-1] != nil {
					w[i] = s.vals[j-1]
					break
				}
			}
		} else {
			acc := new(big.Rat)
			for j := ts.vs; j < ts.ve; j++ {
				if v := s.vals[j]; v != nil {
					t := f.chk(new(big.Rat).Mul(v, v))
					t = f.chk(t.Mul(t, big.NewRat(ts.widths[j], 1)))
					acc = f.chk(new(big.Rat).Add(acc, t))
				}
			}
			w[i] = acc
		}
	}
	return w
}

func refApply(n node, ts tsInfo, in []rser, f *flags) []rser {
	switch n.kind {
	case "paren", "brk":
		return in
	case "agg", "q":
		var order []string
		groups := map[string][]rser{}
		keys := map[string][][2]int64{}
		for _, s := range in {
			k := groupKey(n, s.tags)
			ks := tagKey(k)
			if _, ok := groups[ks]; !ok {
				order = append(order, ks)
				keys[ks] = k
			}
			groups[ks] = append(groups[ks], s)
		}
		var out []rser
		for _, ks := range order {
			g := groups[ks]
			vals := make([]*big.Rat, len(ts.times))
			for i := range ts.times {
				col := make([]*big.Rat, len(g))
				for j, s := range g {
					col[j] = s.vals[i]
				}
				vals[i] = aggDef(n, col, f)
			}
			out = append(out, rser{tags: keys[ks], vals: vals})
		}
		return out
	case "topk", "botk":
		if n.k <= 0 {
			return nil
		}
		var kept []rser
		for _, s := range in {
			if ts.vs == ts.ve || hasPresentInView(ts, s) {
				kept = append(kept, s)
			}
		}
		var order []string
		groups := map[string][]rser{}
		for _, s := range kept {
			ks := tagKey(groupKey(n, s.tags))
			if _, ok := groups[ks]; !ok {
				order = append(order, ks)
			}
			groups[ks] = append(groups[ks], s)
		}
		var out []rser
		for _, ks := range order {
			g := groups[ks]
			w := weightsDef(ts, g, f)
			idx := make([]int, len(g))
			for i := range idx {
				idx[i] = i
			}
			sort.SliceStable(idx, func(a, b int) bool {
				if n.kind == "topk" {
					return w[idx[a]].Cmp(w[idx[b]]) > 0
				}
				return w[idx[a]].Cmp(w[idx[b]]) < 0
			})
			k := n.k
			if k > len(g) {
				k = len(g)
			}
			if k < len(g) && w[idx[k-1]].Cmp(w[idx[k]]) == 0 {
				f.tie = true // which of the equally heavy series survives is the engine's free choice
			}
			for _, i := range idx[:k] {
				out = append(out, g[i])
			}
		}
		return out
	case "ot", "qot":
		strict := n.kind == "qot" || n.op == "sum" || n.op == "count" || n.op == "stddev" || n.op == "stdvar"
		var out []rser
		for _, s := range in {
			vals := make([]*big.Rat, len(ts.times))
			for r := range ts.times {
				l, empty, ok := windowDef(ts, r, n.rng, strict)
				if !ok {
					continue
				}
				if empty {
					vals[r] = otDef(n, nil, f)
					continue
				}
				vals[r] = otDef(n, s.vals[l:r+1], f)
			}
			out = append(out, rser{tags: s.tags, vals: vals})
		}
		return out
	}
	panic("kind " + n.kind)
}


// ---- vector-vector binary operators, one-to-one matching by label sets

func matchKeyDef(b *binop, tags [][2]int64) [][2]int64 {
	switch b.match {
	case "on":
		return groupKey(node{labels: b.labels}, tags)
	case "ign":
		return groupKey(node{labels: b.labels, without: true}, tags)
	}
	return tags
}

func binVal(op string, keepRight bool, x, y *big.Rat, f *flags) *big.Rat {
	if x == nil || y == nil {
		return nil
	}
	keep := x
	if keepRight {
		keep = y
	}
	c := x.Cmp(y)
	if keepRight && c == 0 && op != "eq" {
		// scalar on the left of an ordering comparison and a tie: evalBinary's swapped operator table (GTR→LTE, GTE→LSS,
		// LSS→GTE, LTE→GTR) disagrees with the mirrored operator exactly here; such cases are regenerated, not judged
		f.tie = true
	}
	var ok bool
	switch op {
	case "add":
		return f.chk(new(big.Rat).Add(x, y))
	case "sub":
		return f.chk(new(big.Rat).Sub(x, y))
	case "mul":
		return f.chk(new(big.Rat).Mul(x, y))
	case "div":
		if y.Sign() == 0 {
			f.inexact = true
			return nil
		}
		return f.chk(new(big.Rat).Quo(x, y))
	case "eq":
		ok = c == 0
	case "gt":
		ok = c > 0
	case "lt":
		ok = c < 0
	case "ge":
		ok = c >= 0
	case "le":
		ok = c <= 0
	}
	if ok {
		return keep
	}
	return nil
}

func zipDef(op string, keepRight bool, a, b []*big.Rat, f *flags) []*big.Rat {
	out := make([]*big.Rat, len(a))
	for i := range a {
		out[i] = binVal(op, keepRight, a[i], b[i], f)
	}
	return out
}

func isScalarDef(ss []rser) bool { return len(ss) == 1 && len(ss[0].tags) == 0 }

// definition: every left series that has exactly one partner with the same matching label set yields left op right at
// every timestamp where both have a point; a label-less single series acts as a scalar for every series of the other side
// (the engine's convention). err = a label set matches several series on one side.
func binDef(b *binop, l, r []rser, f *flags) (out []rser, err bool) {
	if isScalarDef(r) {
		for _, s := range l {
			out = append(out, rser{tags: s.tags, vals: zipDef(b.op, false, s.vals, r[0].vals, f)})
		}
		return out, false
	}
	if isScalarDef(l) {
		for _, s := range r {
			out = append(out, rser{tags: s.tags, vals: zipDef(b.op, true, l[0].vals, s.vals, f)})
		}
		return out, false
	}
	lk := map[string]int{}
	for _, s := range l {
		lk[tagKey(matchKeyDef(b, s.tags))]++
	}
	rk := map[string]*rser{}
	for i := range r {
		k := tagKey(matchKeyDef(b, r[i].tags))
		if rk[k] != nil {
			return nil, true
		}
		rk[k] = &r[i]
	}
	for _, n := range lk {
		if n > 1 {
			return nil, true
		}
	}
	for _, s := range l {
		k := matchKeyDef(b, s.tags)
		if p := rk[tagKey(k)]; p != nil {
			out = append(out, rser{tags: k, vals: zipDef(b.op, false, s.vals, p.vals, f)})
		}
	}
	return out, false
}
