//go:build verif

package main

// the extended-real stream: ±Inf (and MaxFloat64, ±0) as PRESENT points.  One operator of functions.go on top of the
// selector's series turned into such points by an engine-side scalar operation (`(m + 0) * 2^1008` overflows for the larger
// values, `/ 0`, `/ -0`, `* 0 + MaxFloat64`, `* -0`).  The input series handed to the model are the captured storage values with
// that scalar operation applied in float64; the model (ERat layer) and the big.Rat definitions work on −∞ | finite | +∞
// with "missing" kept separate.

import (
	"fmt"
	"math"
	"math/big"
	"sort"
	"strings"

	"github.com/VKCOM/statshouse/internal/format"
	"github.com/VKCOM/statshouse/internal/verifx"
)

type xv struct {
	inf int // -1, 0, +1
	r   *big.Rat
}

type xser struct {
	tags [][2]int64
	vals []*xv // nil = missing
}

type xflags struct {
	inexact bool // a finite float operation rounds or overflows
	undef   bool // ∞ − ∞: the definition has no value
}

func xfromFloat(v float64) *xv {
	switch {
	case math.IsNaN(v):
		return nil
	case math.IsInf(v, 1):
		return &xv{inf: 1}
	case math.IsInf(v, -1):
		return &xv{inf: -1}
	}
	return &xv{r: new(big.Rat).SetFloat64(v)}
}

func (x *xv) String() string {
	if x == nil {
		return "_"
	}
	switch x.inf {
	case 1:
		return "inf"
	case -1:
		return "-inf"
	}
	return x.r.RatString()
}

func xcmp(a, b *xv) int {
	if a.inf != b.inf {
		if a.inf < b.inf {
			return -1
		}
		return 1
	}
	if a.inf != 0 {
		return 0
	}
	return a.r.Cmp(b.r)
}

func xpresent(col []*xv) []*xv {
	var p []*xv
	for _, v := range col {
		if v != nil {
			p = append(p, v)
		}
	}
	return p
}

func (f *xflags) fin(r *big.Rat) *xv {
	if _, ex := r.Float64(); !ex {
		f.inexact = true
	}
	return &xv{r: r}
}

// sum of present points: an infinite point decides, both infinities together have no sum
func xsum(p []*xv, f *xflags) *xv {
	pos, neg := false, false
	s := new(big.Rat)
	for _, v := range p {
		switch v.inf {
		case 1:
			pos = true
		case -1:
			neg = true
		default:
			s = new(big.Rat).Add(s, v.r)
			f.fin(s)
		}
	}
	switch {
	case pos && neg:
		f.undef = true
		return nil
	case pos:
		return &xv{inf: 1}
	case neg:
		return &xv{inf: -1}
	}
	return f.fin(s)
}

func xquantile(qn, qd int64, p []*xv, f *xflags) *xv {
	if len(p) == 0 {
		return nil
	}
	if qn < 0 { // q < 0: −∞, q > 1: +∞ (for a non-empty input)
		return &xv{inf: -1}
	}
	if qn > qd {
		return &xv{inf: 1}
	}
	s := append([]*xv(nil), p...)
	sort.SliceStable(s, func(i, j int) bool { return xcmp(s[i], s[j]) < 0 })
	ix := new(big.Rat).Mul(big.NewRat(qn, qd), big.NewRat(int64(len(s)-1), 1))
	i1 := int(new(big.Int).Quo(ix.Num(), ix.Denom()).Int64())
	i2 := i1 + 1
	if i2 > len(s)-1 {
		i2 = len(s) - 1
	}
	phi := new(big.Rat).Sub(ix, big.NewRat(int64(i1), 1))
	a, b := s[i1], s[i2]
	switch {
	case phi.Sign() == 0 || xcmp(a, b) == 0:
		return a
	case a.inf == 0 && b.inf == 0:
		// a·(1−φ) + b·φ with every float step exact
		w1 := new(big.Rat).Sub(big.NewRat(1, 1), phi)
		t1 := f.fin(new(big.Rat).Mul(a.r, w1))
		t2 := f.fin(new(big.Rat).Mul(b.r, phi))
		return f.fin(new(big.Rat).Add(t1.r, t2.r))
	case a.inf == -1 && b.inf == 1:
		f.undef = true
		return nil
	case a.inf == -1:
		return a
	default:
		return b
	}
}

// op on the present points of a column or window; empty=true: no point at all
func xdef(n node, col []*xv, f *xflags) *xv {
	p := xpresent(col)
	op := n.op
	if n.kind == "q" || n.kind == "qot" {
		op = "quantile"
	}
	if op == "count" {
		return &xv{r: big.NewRat(int64(len(p)), 1)}
	}
	if len(p) == 0 {
		return nil
	}
	switch op {
	case "max", "min":
		best := p[0]
		for _, v := range p[1:] {
			if (op == "max" && xcmp(v, best) > 0) || (op == "min" && xcmp(v, best) < 0) {
				best = v
			}
		}
		return best
	case "sum":
		return xsum(p, f)
	case "avg":
		s := xsum(p, f)
		if s == nil || s.inf != 0 {
			return s
		}
		return f.fin(new(big.Rat).Quo(s.r, big.NewRat(int64(len(p)), 1)))
	case "group":
		return &xv{r: big.NewRat(1, 1)}
	case "last":
		return p[len(p)-1]
	case "quantile":
		return xquantile(n.qn, n.qd, p, f)
	}
	panic("xdef " + op)
}

func xapply(n node, ts tsInfo, in []xser, f *xflags) []xser {
	switch n.kind {
	case "agg", "q":
		var order []string
		groups := map[string][]xser{}
		keys := map[string][][2]int64{}
		for _, s := range in {
			k := groupKey(n, s.tags)
			ks := tagKey(k)
			if _, ok := groups[ks]; !ok {
				order = append(order, ks)
				keys[ks] = k
			}
			groups[ks] = append(groups[ks], s)
		}
		var out []xser
		for _, ks := range order {
			g := groups[ks]
			vals := make([]*xv, len(ts.times))
			for i := range ts.times {
				col := make([]*xv, len(g))
				for j, s := range g {
					col[j] = s.vals[i]
				}
				vals[i] = xdef(n, col, f)
			}
			out = append(out, xser{tags: keys[ks], vals: vals})
		}
		return out
	case "ot", "qot":
		strict := n.kind == "qot" || n.op == "sum" || n.op == "count"
		var out []xser
		for _, s := range in {
			vals := make([]*xv, len(ts.times))
			for r := range ts.times {
				l, empty, ok := windowDef(ts, r, n.rng, strict)
				if !ok {
					continue
				}
				if empty {
					vals[r] = xdef(n, nil, f)
					continue
				}
				vals[r] = xdef(n, s.vals[l:r+1], f)
			}
			out = append(out, xser{tags: s.tags, vals: vals})
		}
		return out
	}
	panic("xapply " + n.kind)
}

var pow1008 = new(big.Int).Lsh(big.NewInt(1), 1008)

type injection struct {
	name string
	text func(inner string) string
	f    func(v float64) float64
}

var injections = []injection{
	{"scale", func(s string) string { return fmt.Sprintf("(%s * %s)", s, pow1008.String()) },
		func(v float64) float64 { return v * math.Ldexp(1, 1008) }},
	{"div0", func(s string) string { return fmt.Sprintf("(%s / 0)", s) },
		func(v float64) float64 { return v / 0 }},
	{"divneg0", func(s string) string { return fmt.Sprintf("(%s / -0)", s) },
		func(v float64) float64 { return v / math.Copysign(0, -1) }},
	{"maxf", func(s string) string { return fmt.Sprintf("((%s * 0) + 1.7976931348623157e+308)", s) },
		func(v float64) float64 { return v*0 + math.MaxFloat64 }},
	{"negzero", func(s string) string { return fmt.Sprintf("(%s * -0)", s) },
		func(v float64) float64 { return v * math.Copysign(0, -1) }},
}

var xAggOps = []string{"max", "min", "max", "min", "sum", "avg", "count", "group"}
var xOtOps = []string{"max", "min", "max", "min", "sum", "avg", "count", "last"}

// also q outside [0,1]
func genQX(r *verifx.Rng) (int64, int64) {
	if r.Chance(1, 3) {
		if r.Bool() {
			return -1, 2
		}
		return 3, 2
	}
	return genQ(r)
}

func extCase(h *verifx.H, r *verifx.Rng, metric *format.MetricMetaValue) {
	sc := genFine(r, metric)
	for sc.step == 10 {
		sc = genFine(r, metric)
	}
	lod := gridOf(sc.step)
	inj := injections[r.Pick(5, 2, 2, 1, 1)]
	var n node
	switch r.Pick(5, 3, 5, 2) {
	case 0:
		n = node{kind: "agg", op: xAggOps[r.Intn(len(xAggOps))], without: r.Chance(1, 3), labels: genLabels(r)}
	case 1:
		qn, qd := genQX(r)
		n = node{kind: "q", qn: qn, qd: qd, without: r.Chance(1, 3), labels: genLabels(r)}
	case 2:
		n = node{kind: "ot", op: xOtOps[r.Intn(len(xOtOps))], rng: lod * int64(r.Range(1, 3)), sub: true}
	default:
		qn, qd := genQX(r)
		n = node{kind: "qot", qn: qn, qd: qd, rng: lod * int64(r.Range(1, 3)), sub: true}
	}
	text := n.wrap(inj.text("(m + 0)"), false)
	real := run(sc.st, text, sc.start, sc.end, sc.step, sc.now)
	h.Stat("ext.cases", 1)
	h.Stat("ext.inject."+inj.name, 1)
	if real.err != nil || len(real.caps) != 1 {
		h.Stat("ext.error", 1)
		h.Note("ext: engine error for %q: %v", text, real.err)
		return
	}
	// the operator's input: the storage answer with the scalar operation applied in float64
	var in []xser
	var toks []string
	anyInf := false
	for _, c := range real.caps[0].series {
		s := xser{tags: c.tags}
		vs := make([]string, len(c.vals))
		for i, v := range c.vals {
			x := v
			if !math.IsNaN(v) {
				x = inj.f(v)
			}
			xx := xfromFloat(x)
			if xx != nil && xx.inf != 0 {
				anyInf = true
			}
			s.vals = append(s.vals, xx)
			vs[i] = xx.String()
		}
		in = append(in, s)
		toks = append(toks, fmt.Sprintf("s:%d:%d:%d:%s", c.tags[0][1], c.tags[1][1], c.tags[2][1], strings.Join(vs, ",")))
	}
	var fl xflags
	ref := xapply(n, real.ts, in, &fl)
	if fl.inexact || real.inex {
		h.Stat("ext.skip.inexact", 1)
		return
	}
	h.Op("%s", tsOp(real.ts))
	h.Op("xeval %s %s", n.token(), strings.Join(toks, " "))
	h.Obs("n=%d", len(real.lines))
	for _, l := range real.lines {
		h.Obs("%s", l)
	}
	h.Note("expr %s", text)
	if anyInf {
		h.Stat("ext.with-infinite-points", 1)
		h.NonTrivial("infinite")
	}
	if fl.undef {
		h.Stat("ext.undefined", 1) // ∞ − ∞ somewhere: only the correspondence judges
		return
	}
	var lines []string
	for _, s := range ref {
		keep := real.ts.vs == real.ts.ve
		for i := real.ts.vs; i < real.ts.ve && i < len(s.vals); i++ {
			if s.vals[i] != nil {
				keep = true
			}
		}
		if !keep {
			continue
		}
		vs := make([]string, 0, len(s.vals))
		for _, v := range s.vals[real.ts.startX:] {
			vs = append(vs, v.String())
		}
		lines = append(lines, tagKey(s.tags)+" "+strings.Join(vs, " "))
	}
	sort.Strings(lines)
	if d := firstDiff(real.lines, lines); d != "" {
		h.Viol(sigOf(n)+"-inf", "expr=%q step=%d start=%d end=%d now=%d %s", text, sc.step, sc.start, sc.end, sc.now, d)
	}
}
