//go:build verif

package main

import (
	"context"
	"fmt"
	"math"
	"os"
	"sort"
	"strings"

	"github.com/VKCOM/statshouse/internal/api"
	"github.com/VKCOM/statshouse/internal/data_model"
	"github.com/VKCOM/statshouse/internal/format"
	"github.com/VKCOM/statshouse/internal/promql"
)

type row struct {
	series int
	sec    int64
	val    float64
}

type store struct {
	metric *format.MetricMetaValue
	tags   [][3]int64 // series -> values of tags 1,2,3
	rows   []row
	log    []string
}

func (s *store) GetHostName(hostID int32) string   { return "" }
func (s *store) GetHostName64(hostID int64) string { return "" }
func (s *store) GetTagValue(q promql.TagValueQuery) string {
	return fmt.Sprintf("v%d", q.TagValueID)
}
func (s *store) GetTagValueID(q promql.TagValueIDQuery) (int64, error) { return 0, promql.ErrNotFound }
func (s *store) GetTagFilter(metric *format.MetricMetaValue, tagIndex int, tagValue string) (data_model.TagValue, error) {
	return data_model.TagValue{}, fmt.Errorf("no filters")
}
func (s *store) MatchMetrics(f *data_model.QueryFilter) error {
	if f.MetricMatcher.Matches(s.metric.Name) {
		f.MatchingMetrics = []*format.MetricMetaValue{s.metric}
	}
	return nil
}
func (s *store) QueryTagValueIDs(ctx context.Context, qry promql.TagValuesQuery) ([]int64, error) {
	return nil, nil
}
func (s *store) Alloc(n int) *[]float64 { v := make([]float64, n); return &v }
func (s *store) Free(*[]float64)       {}
func (s *store) Tracef(format string, a ...any) {
}

func (s *store) QuerySeries(ctx context.Context, qry *promql.SeriesQuery) (promql.Series, func(), error) {
	ts := qry.Timescale
	lodStep := ts.LODs[len(ts.LODs)-1].Step
	s.log = append(s.log, fmt.Sprintf("whats=%v by=%v range=%d", qry.Whats, qry.GroupBy, qry.Range))
	res := promql.Series{Meta: promql.SeriesMeta{Metric: qry.Metric}}
	by := map[int]bool{}
	for _, x := range qry.GroupBy {
		by[x] = true
	}
	type key [3]int64
	groups := map[key][]int{}
	var order []key
	for i, tg := range s.tags {
		var k key
		for j := 0; j < 3; j++ {
			if by[j+1] {
				k[j] = tg[j]
			}
		}
		if _, ok := groups[k]; !ok {
			order = append(order, k)
		}
		groups[k] = append(groups[k], i)
	}
	for _, k := range order {
		member := map[int]bool{}
		for _, i := range groups[k] {
			member[i] = true
		}
		vals := make([]float64, len(ts.Time))
		any := false
		for x, t := range ts.Time {
			var rs []api.VerifC27Row
			for _, r := range s.rows {
				if member[r.series] && t <= r.sec && r.sec < t+lodStep {
					rs = append(rs, api.VerifC27Row{Count: 1, Sum: r.val, Min: r.val, Max: r.val, SumSquare: r.val * r.val})
				}
			}
			if len(rs) == 0 {
				vals[x] = promql.NilValue
				continue
			}
			any = true
			vals[x] = api.VerifC27MergeValue(rs, qry.Whats[0].Digest, qry.Range, lodStep)
		}
		if !any {
			continue
		}
		v := vals
		res.Data = append(res.Data, promql.SeriesData{Values: &v, What: qry.Whats[0]})
		x := len(res.Data) - 1
		for j := 0; j < 3; j++ {
			if by[j+1] {
				res.AddTagAt(x, &promql.SeriesTag{
					Metric: qry.Metric,
					Index:  j + 1 + promql.SeriesTagIndexOffset,
					ID:     format.TagID(j + 1),
					Name:   qry.Metric.Tags[j+1].Name,
					Value:  k[j],
				})
			}
		}
	}
	res.Meta.Total = len(res.Data)
	return res, func() {}, nil
}

func fmtVal(v float64) string {
	if math.IsNaN(v) {
		return "_"
	}
	return fmt.Sprint(v)
}

func main() {
	m := &format.MetricMetaValue{MetricID: 1, Name: "m", Kind: format.MetricKindValue,
		Tags: []format.MetricMetaTag{{}, {Name: "a"}, {Name: "b"}, {Name: "c"}}}
	if err := m.RestoreCachedInfo(); err != nil {
		fmt.Println("meta:", err)
	}
	st := &store{metric: m,
		tags: [][3]int64{{1, 1, 1}, {1, 2, 1}, {2, 1, 1}},
		rows: []row{{0, 100, 2}, {0, 101, 4}, {1, 100, 10}, {1, 103, 30}, {2, 102, 7}, {0, 106, 3}, {1, 107, 5}, {0, 111, 1}}}
	ng := promql.NewEngine(nil, 0)
	for _, e := range os.Args[1:] {
		for _, step := range []int64{1, 5} {
			st.log = nil
			v, cancel, err := ng.Exec(context.Background(), st, promql.Query{Start: 100, End: 115, Step: step, Expr: e,
				Options: promql.Options{TimeNow: 120}})
			if err != nil {
				fmt.Println(e, "ERR", err)
				continue
			}
			tsr := v.(*promql.TimeSeries)
			fmt.Printf("%s step=%d time=%v log=%v\n", e, step, tsr.Time, st.log)
			var lines []string
			for _, d := range tsr.Series.Data {
				var tg []string
				for id, t := range d.Tags.ID2Tag {
					tg = append(tg, fmt.Sprintf("%s/%s=%d%s", id, t.Name, t.Value, t.SValue))
				}
				sort.Strings(tg)
				var vs []string
				for _, x := range *d.Values {
					vs = append(vs, fmtVal(x))
				}
				lines = append(lines, fmt.Sprintf("  {%s} %s", strings.Join(tg, ","), strings.Join(vs, " ")))
			}
			sort.Strings(lines)
			fmt.Println(strings.Join(lines, "\n"))
			cancel()
		}
	}
}
