//go:build verif

// verif-c27: correspondence + direct oracles for PromQL aggregation operators, over-time functions and reduction
// (push-down) rules.  Every `eval` op is one Engine run (parser → NewEvaluator → reduction rules → querySeries →
// functions.go → exec) of the REAL engine against an in-memory promql.Handler whose QuerySeries pre-aggregates
// generated one-second events the way internal/api does (real tsValues.merge / tsValues.value through an accessor).
//
// Oracles on the real outputs (independent of the Lean model):
//
//	def-*     the engine-side operators above the storage query equal their definitions recomputed with big.Rat
//	          from the storage answer (missing points excluded; window = the points of the selected range)
//	reduce-*  an expression a reduction rule rewrites into a storage query equals the same expression evaluated by
//	          the engine operators alone (selector wrapped in `(m + 0)`, which no rule matches) over the underlying
//	          one-second series
package main

import (
	"context"
	"fmt"
	"math"
	"math/big"
	"sort"
	"strings"

	"github.com/VKCOM/statshouse/internal/api"
	"github.com/VKCOM/statshouse/internal/data_model"
	"github.com/VKCOM/statshouse/internal/format"
	"github.com/VKCOM/statshouse/internal/promql"
	"github.com/VKCOM/statshouse/internal/promql/parser"
	"github.com/VKCOM/statshouse/internal/verifx"
)

// ---------------------------------------------------------------- storage stub

type event struct {
	series int
	sec    int64
	val    int64
}

type capSeries struct {
	tags [][2]int64
	vals []float64
}

type store struct {
	metric  *format.MetricMetaValue
	tags    [][3]int64
	events  []event
	queries int
	last    []capSeries // answer of the last QuerySeries
	lastQ   string
	inexact bool
}

func (s *store) GetHostName(int32) string   { return "" }
func (s *store) GetHostName64(int64) string { return "" }
func (s *store) GetTagValue(q promql.TagValueQuery) string {
	return fmt.Sprintf("v%d", q.TagValueID)
}
func (s *store) GetTagValueID(promql.TagValueIDQuery) (int64, error) { return 0, promql.ErrNotFound }
func (s *store) GetTagFilter(*format.MetricMetaValue, int, string) (data_model.TagValue, error) {
	return data_model.TagValue{}, fmt.Errorf("no filters in this harness")
}
func (s *store) MatchMetrics(f *data_model.QueryFilter) error {
	if f.MetricMatcher.Matches(s.metric.Name) {
		f.MatchingMetrics = []*format.MetricMetaValue{s.metric}
	}
	return nil
}
func (s *store) QueryTagValueIDs(context.Context, promql.TagValuesQuery) ([]int64, error) {
	return nil, nil
}
func (s *store) Alloc(n int) *[]float64 { v := make([]float64, n); return &v }
func (s *store) Free(*[]float64)        {}
func (s *store) Tracef(string, ...any)  {}

func whatName(w promql.DigestWhat) string { return w.String() }

// exact value of `what` for the events of one (group, bucket), by definition
func exactWhat(w promql.DigestWhat, evs []int64, qstep, lstep int64) *big.Rat {
	n := big.NewRat(int64(len(evs)), 1)
	sum := new(big.Rat)
	mn, mx := evs[0], evs[0]
	sq := new(big.Rat)
	for _, v := range evs {
		sum.Add(sum, big.NewRat(v, 1))
		sq.Add(sq, new(big.Rat).Mul(big.NewRat(v, 1), big.NewRat(v, 1)))
		if v < mn {
			mn = v
		}
		if v > mx {
			mx = v
		}
	}
	switch w {
	case promql.DigestCount:
		return n.Mul(n, big.NewRat(qstep, lstep))
	case promql.DigestCountSec:
		return n.Mul(n, big.NewRat(1, lstep))
	case promql.DigestSum:
		return sum.Mul(sum, big.NewRat(qstep, lstep))
	case promql.DigestSumSec:
		return sum.Mul(sum, big.NewRat(1, lstep))
	case promql.DigestAvg:
		return sum.Quo(sum, n)
	case promql.DigestMin:
		return big.NewRat(mn, 1)
	case promql.DigestMax:
		return big.NewRat(mx, 1)
	case promql.DigestStdVar:
		if len(evs) < 2 {
			return new(big.Rat)
		}
		x := new(big.Rat).Mul(sum, sum)
		x.Quo(x, n)
		x.Sub(sq, x)
		x.Quo(x, new(big.Rat).Sub(n, big.NewRat(1, 1)))
		if x.Sign() < 0 {
			return new(big.Rat)
		}
		return x
	}
	return nil
}

func (s *store) QuerySeries(_ context.Context, qry *promql.SeriesQuery) (promql.Series, func(), error) {
	ts := qry.Timescale
	lodStep := ts.LODs[len(ts.LODs)-1].Step
	qstep := qry.Range
	if qstep == 0 {
		qstep = ts.Step
	}
	if qstep == 0 {
		qstep = lodStep
	}
	s.queries++
	what := qry.Whats[0].Digest
	s.lastQ = fmt.Sprintf("what=%s by=%v range=%d", whatName(what), qry.GroupBy, qry.Range)
	s.last = nil
	res := promql.Series{Meta: promql.SeriesMeta{Metric: qry.Metric}}
	by := map[int]bool{}
	for _, x := range qry.GroupBy {
		by[x] = true
	}
	type key [3]int64
	groups := map[key][]int{}
	var order []key
	for i, tg := range s.tags {
		var k key
		for j := 0; j < 3; j++ {
			if by[j+1] {
				k[j] = tg[j]
			}
		}
		if _, ok := groups[k]; !ok {
			order = append(order, k)
		}
		groups[k] = append(groups[k], i)
	}
	for _, k := range order {
		member := map[int]bool{}
		for _, i := range groups[k] {
			member[i] = true
		}
		vals := make([]float64, len(ts.Time))
		any := false
		for x, t := range ts.Time {
			var rs []api.VerifC27Row
			var evs []int64
			for _, e := range s.events {
				if member[e.series] && t <= e.sec && e.sec < t+lodStep {
					v := float64(e.val)
					rs = append(rs, api.VerifC27Row{Count: 1, Sum: v, Min: v, Max: v, SumSquare: v * v})
					evs = append(evs, e.val)
				}
			}
			if len(rs) == 0 {
				vals[x] = promql.NilValue
				continue
			}
			any = true
			vals[x] = api.VerifC27MergeValue(rs, what, lodStepOr(ts.Step, qry.Range, lodStep), lodStep)
			if ex := exactWhat(what, evs, qstep, lodStep); ex == nil || math.IsNaN(vals[x]) || math.IsInf(vals[x], 0) ||
				new(big.Rat).SetFloat64(vals[x]).Cmp(ex) != 0 {
				s.inexact = true
			}
		}
		if !any {
			continue
		}
		v := vals
		res.Data = append(res.Data, promql.SeriesData{Values: &v, What: qry.Whats[0]})
		x := len(res.Data) - 1
		var ctags [][2]int64
		for j := 0; j < 3; j++ {
			if by[j+1] {
				res.AddTagAt(x, &promql.SeriesTag{
					Metric: qry.Metric,
					Index:  j + 1 + promql.SeriesTagIndexOffset,
					ID:     format.TagID(j + 1),
					Name:   qry.Metric.Tags[j+1].Name,
					Value:  k[j],
				})
				ctags = append(ctags, [2]int64{int64(j + 1), k[j]})
			}
		}
		s.last = append(s.last, capSeries{tags: ctags, vals: append([]float64(nil), vals...)})
	}
	res.Meta.Total = len(res.Data)
	return res, func() {}, nil
}

// the step requestHandler.QuerySeries hands to copyRowValuesAt: qry.Range, else Timescale.Step (0 → row step there)
func lodStepOr(tsStep, rng, lod int64) int64 {
	if rng != 0 {
		return rng
	}
	return tsStep
}

// ---------------------------------------------------------------- expressions

type node struct {
	kind    string // agg q topk botk ot qot paren brk
	op      string
	qn, qd  int64
	k       int
	without bool
	labels  []int
	rng     int64
	sub     bool
}

var labelName = []string{"z", "a", "b", "c"}

func (n node) labelsTok() string {
	if len(n.labels) == 0 {
		return "-"
	}
	ss := make([]string, len(n.labels))
	for i, l := range n.labels {
		ss[i] = fmt.Sprint(l)
	}
	return strings.Join(ss, ".")
}

func (n node) woTok() string {
	if n.without {
		return "wo"
	}
	return "by"
}

func subTok(b bool) string {
	if b {
		return "s"
	}
	return "m"
}

func (n node) token() string {
	switch n.kind {
	case "agg":
		return fmt.Sprintf("agg:%s:%s:%s", n.op, n.woTok(), n.labelsTok())
	case "q":
		return fmt.Sprintf("q:%s:%s:%s", big.NewRat(n.qn, n.qd).RatString(), n.woTok(), n.labelsTok())
	case "topk", "botk":
		return fmt.Sprintf("%s:%d:%s:%s", n.kind, n.k, n.woTok(), n.labelsTok())
	case "ot":
		return fmt.Sprintf("ot:%s:%d:%s", n.op, n.rng, subTok(n.sub))
	case "qot":
		return fmt.Sprintf("qot:%s:%d:%s", big.NewRat(n.qn, n.qd).RatString(), n.rng, subTok(n.sub))
	}
	return n.kind
}

func (n node) grouping() string {
	names := make([]string, len(n.labels))
	for i, l := range n.labels {
		names[i] = labelName[l]
	}
	kw := "by"
	if n.without {
		kw = "without"
	}
	return fmt.Sprintf("%s (%s)", kw, strings.Join(names, ","))
}

func qstr(n node) string {
	return fmt.Sprint(float64(n.qn) / float64(n.qd)) // dyadic: prints exactly
}

func (n node) wrap(inner string, innerIsSelector bool) string {
	rangeOf := func() string {
		if n.sub {
			return fmt.Sprintf("(%s)[%ds:]", inner, n.rng)
		}
		return fmt.Sprintf("%s[%ds]", inner, n.rng)
	}
	switch n.kind {
	case "agg":
		return fmt.Sprintf("%s %s (%s)", n.op, n.grouping(), inner)
	case "q":
		return fmt.Sprintf("quantile %s (%s, %s)", n.grouping(), qstr(n), inner)
	case "topk":
		return fmt.Sprintf("topk %s (%d, %s)", n.grouping(), n.k, inner)
	case "botk":
		return fmt.Sprintf("bottomk %s (%d, %s)", n.grouping(), n.k, inner)
	case "ot":
		return fmt.Sprintf("%s_over_time(%s)", n.op, rangeOf())
	case "qot":
		return fmt.Sprintf("quantile_over_time(%s, %s)", qstr(n), rangeOf())
	case "paren":
		return "(" + inner + ")"
	case "brk":
		return "(" + inner + " + 0)"
	}
	panic("kind")
}

func selString(what string) string {
	if what == "" {
		return "m"
	}
	return fmt.Sprintf("m{__what__=%q}", what)
}

// chain is root first; returns the PromQL text of every prefix (bottom-up): pre[i] = text of nodes bottom..i
func chainStrings(what string, chain []node) (string, []string) {
	cur := selString(what)
	var pre []string
	for i := len(chain) - 1; i >= 0; i-- {
		cur = chain[i].wrap(cur, i == len(chain)-1)
		pre = append(pre, cur)
	}
	return cur, pre
}

func chainTokens(what string, chain []node) string {
	w := what
	if w == "" {
		w = "-"
	}
	toks := []string{"what=" + w}
	for _, n := range chain {
		toks = append(toks, n.token())
	}
	return strings.Join(toks, " ")
}

// ---------------------------------------------------------------- reference evaluation (definitions, big.Rat)

type rser struct {
	tags [][2]int64
	vals []*big.Rat // nil = missing
}

type flags struct {
	inexact bool
	tie     bool
}

func exactRat(r *big.Rat) bool {
	_, ex := r.Float64()
	return ex
}

func (f *flags) chk(r *big.Rat) *big.Rat {
	if !exactRat(r) {
		f.inexact = true
	}
	return r
}

func tagKey(t [][2]int64) string {
	ss := make([]string, len(t))
	for i, p := range t {
		ss[i] = fmt.Sprintf("%d=%d", p[0], p[1])
	}
	return "{" + strings.Join(ss, ",") + "}"
}

func groupKey(n node, tags [][2]int64) [][2]int64 {
	var res [][2]int64
	for _, t := range tags {
		listed := false
		for _, l := range n.labels {
			if int64(l) == t[0] {
				listed = true
			}
		}
		if listed != n.without {
			res = append(res, t)
		}
	}
	return res
}

func sortedPresent(col []*big.Rat) []*big.Rat {
	var p []*big.Rat
	for _, v := range col {
		if v != nil {
			p = append(p, v)
		}
	}
	sort.Slice(p, func(i, j int) bool { return p[i].Cmp(p[j]) < 0 })
	return p
}

func present(col []*big.Rat) []*big.Rat {
	var p []*big.Rat
	for _, v := range col {
		if v != nil {
			p = append(p, v)
		}
	}
	return p
}

func ratInt(n int) *big.Rat { return big.NewRat(int64(n), 1) }

func sqrtRat(r *big.Rat, f *flags) *big.Rat {
	if r.Sign() < 0 {
		f.inexact = true
		return new(big.Rat)
	}
	n := new(big.Int).Sqrt(r.Num())
	d := new(big.Int).Sqrt(r.Denom())
	if new(big.Int).Mul(n, n).Cmp(r.Num()) != 0 || new(big.Int).Mul(d, d).Cmp(r.Denom()) != 0 {
		f.inexact = true
	}
	return new(big.Rat).SetFrac(n, d)
}

// population variance with the exactness of every float step the code performs (mean, d*d/cnt, running sum)
func variance(p []*big.Rat, f *flags) *big.Rat {
	n := ratInt(len(p))
	sum := new(big.Rat)
	for _, v := range p {
		sum = f.chk(new(big.Rat).Add(sum, v))
	}
	mean := f.chk(new(big.Rat).Quo(sum, n))
	res := new(big.Rat)
	for _, v := range p {
		d := f.chk(new(big.Rat).Sub(v, mean))
		dd := f.chk(new(big.Rat).Mul(d, d))
		res = f.chk(new(big.Rat).Add(res, f.chk(new(big.Rat).Quo(dd, n))))
	}
	return res
}

// quantile of the present points: linear interpolation between the closest ranks of the sorted values
func quantileDef(qn, qd int64, sorted []*big.Rat, f *flags) *big.Rat {
	if len(sorted) == 0 {
		return nil
	}
	q := big.NewRat(qn, qd)
	ix := f.chk(new(big.Rat).Mul(q, ratInt(len(sorted)-1)))
	i1 := int(new(big.Int).Quo(ix.Num(), ix.Denom()).Int64())
	i2 := i1 + 1
	if i2 > len(sorted)-1 {
		i2 = len(sorted) - 1
	}
	frac := new(big.Rat).Sub(ix, ratInt(i1)) // position between the two ranks
	a := f.chk(new(big.Rat).Mul(sorted[i1], f.chk(new(big.Rat).Sub(ratInt(i2), ix))))
	w2 := f.chk(new(big.Rat).Sub(ratInt(1), new(big.Rat).Sub(ratInt(i2), ix)))
	b := f.chk(new(big.Rat).Mul(sorted[i2], w2))
	_ = frac
	return f.chk(new(big.Rat).Add(a, b))
}

func aggDef(n node, col []*big.Rat, f *flags) *big.Rat {
	p := present(col)
	switch n.kind {
	case "q":
		return quantileDef(n.qn, n.qd, sortedPresent(col), f)
	}
	switch n.op {
	case "count":
		return ratInt(len(p))
	}
	if len(p) == 0 {
		return nil
	}
	switch n.op {
	case "sum", "avg":
		s := new(big.Rat)
		for _, v := range p {
			s = f.chk(new(big.Rat).Add(s, v))
		}
		if n.op == "avg" {
			return f.chk(s.Quo(s, ratInt(len(p))))
		}
		return s
	case "min":
		return sortedPresent(col)[0]
	case "max":
		return sortedPresent(col)[len(p)-1]
	case "group":
		return ratInt(1)
	case "stdvar":
		return variance(p, f)
	case "stddev":
		return sqrtRat(variance(p, f), f)
	}
	panic("agg op " + n.op)
}

type tsInfo struct {
	times            []int64
	startX, vs, ve   int
	lod, step        int64
}

// the window of index r for range w: the engine's convention is that point i stands for [t[i], t[i+1]) and index 0 is a
// guard point, so a window must start at an index >= 1.  strict: the widest window not wider than w; otherwise the
// narrowest window at least w wide.  ok=false: no such window inside the fetched time scale (result missing).
func windowDef(ts tsInfo, r int, w int64, strict bool) (l int, empty bool, ok bool) {
	s := ts.lod
	if r+1 < len(ts.times) {
		s = ts.times[r+1] - ts.times[r]
	}
	width := func(l int) int64 { return ts.times[r] - ts.times[l] + s }
	if strict {
		if w < width(r) {
			return r, true, r >= 1
		}
		l = r
		for l-1 >= 0 && width(l-1) <= w {
			l--
		}
		if width(l) == w {
			return l, false, l >= 1
		}
		// narrower than w: the cursor accepts it only when one more point would exceed w, i.e. l-1 exists
		return l, false, l >= 1
	}
	l = r
	for l >= 0 && width(l) < w {
		l--
	}
	return l, false, l >= 1
}

func otDef(n node, win []*big.Rat, f *flags) *big.Rat {
	p := present(win)
	if len(p) == 0 {
		if n.kind == "ot" && n.op == "count" {
			return ratInt(0)
		}
		return nil
	}
	if n.kind == "qot" {
		return quantileDef(n.qn, n.qd, sortedPresent(win), f)
	}
	switch n.op {
	case "count":
		return ratInt(len(p))
	case "last":
		return p[len(p)-1]
	case "stdvar":
		return variance(p, f)
	case "stddev":
		return sqrtRat(variance(p, f), f)
	}
	return aggDef(node{kind: "agg", op: n.op}, win, f)
}

func hasPresentInView(ts tsInfo, s rser) bool {
	for i := ts.vs; i < ts.ve && i < len(s.vals); i++ {
		if s.vals[i] != nil {
			return true
		}
	}
	return false
}

func weightsDef(ts tsInfo, g []rser, f *flags) []*big.Rat {
	allND := true
	for _, s := range g {
		var prev *big.Rat
		for i := ts.vs; i < ts.ve; i++ {
			if v := s.vals[i]; v != nil {
				if prev != nil && v.Cmp(prev) < 0 {
					allND = false
				}
				prev = v
			}
		}
	}
	w := make([]*big.Rat, len(g))
	for i, s := range g {
		if allND {
			w[i] = new(big.Rat)
			for j := ts.ve; j > 0; j-- {
				if s.vals[j-1] != nil {
					w[i] = s.vals[j-1]
					break
				}
			}
		} else {
			acc := new(big.Rat)
			for j := ts.vs; j < ts.ve; j++ {
				if v := s.vals[j]; v != nil {
					t := f.chk(new(big.Rat).Mul(v, v))
					t = f.chk(t.Mul(t, big.NewRat(ts.lod, 1)))
					acc = f.chk(new(big.Rat).Add(acc, t))
				}
			}
			w[i] = acc
		}
	}
	return w
}

func refApply(n node, ts tsInfo, in []rser, f *flags) []rser {
	switch n.kind {
	case "paren", "brk":
		return in
	case "agg", "q":
		var order []string
		groups := map[string][]rser{}
		keys := map[string][][2]int64{}
		for _, s := range in {
			k := groupKey(n, s.tags)
			ks := tagKey(k)
			if _, ok := groups[ks]; !ok {
				order = append(order, ks)
				keys[ks] = k
			}
			groups[ks] = append(groups[ks], s)
		}
		var out []rser
		for _, ks := range order {
			g := groups[ks]
			vals := make([]*big.Rat, len(ts.times))
			for i := range ts.times {
				col := make([]*big.Rat, len(g))
				for j, s := range g {
					col[j] = s.vals[i]
				}
				vals[i] = aggDef(n, col, f)
			}
			out = append(out, rser{tags: keys[ks], vals: vals})
		}
		return out
	case "topk", "botk":
		if n.k <= 0 {
			return nil
		}
		var kept []rser
		for _, s := range in {
			if ts.vs == ts.ve || hasPresentInView(ts, s) {
				kept = append(kept, s)
			}
		}
		var order []string
		groups := map[string][]rser{}
		for _, s := range kept {
			ks := tagKey(groupKey(n, s.tags))
			if _, ok := groups[ks]; !ok {
				order = append(order, ks)
			}
			groups[ks] = append(groups[ks], s)
		}
		var out []rser
		for _, ks := range order {
			g := groups[ks]
			w := weightsDef(ts, g, f)
			idx := make([]int, len(g))
			for i := range idx {
				idx[i] = i
			}
			sort.SliceStable(idx, func(a, b int) bool {
				if n.kind == "topk" {
					return w[idx[a]].Cmp(w[idx[b]]) > 0
				}
				return w[idx[a]].Cmp(w[idx[b]]) < 0
			})
			k := n.k
			if k > len(g) {
				k = len(g)
			}
			if k < len(g) && w[idx[k-1]].Cmp(w[idx[k]]) == 0 {
				f.tie = true // which of the equally heavy series survives is the engine's free choice
			}
			for _, i := range idx[:k] {
				out = append(out, g[i])
			}
		}
		return out
	case "ot", "qot":
		strict := n.kind == "qot" || n.op == "sum" || n.op == "count" || n.op == "stddev" || n.op == "stdvar"
		var out []rser
		for _, s := range in {
			vals := make([]*big.Rat, len(ts.times))
			for r := range ts.times {
				l, empty, ok := windowDef(ts, r, n.rng, strict)
				if !ok {
					continue
				}
				if empty {
					vals[r] = otDef(n, nil, f)
					continue
				}
				vals[r] = otDef(n, s.vals[l:r+1], f)
			}
			out = append(out, rser{tags: s.tags, vals: vals})
		}
		return out
	}
	panic("kind " + n.kind)
}

// ---------------------------------------------------------------- running the real engine

type runResult struct {
	err    error
	ts     tsInfo
	lines  []string            // canonical observation lines
	series map[string][]float64 // tags → trimmed values
	times  []int64             // trimmed times
	capt   []capSeries
	query  string
	nq     int
	inex   bool
	replaced string
}

func fmtFloat(v float64) string {
	if math.IsNaN(v) {
		return "_"
	}
	if math.IsInf(v, 1) {
		return "inf"
	}
	if math.IsInf(v, -1) {
		return "-inf"
	}
	return new(big.Rat).SetFloat64(v).RatString()
}

func fmtRat(v *big.Rat) string {
	if v == nil {
		return "_"
	}
	return v.RatString()
}

func tagsOf(d *promql.SeriesData) [][2]int64 {
	var t [][2]int64
	for id, tg := range d.Tags.ID2Tag {
		if id == "__name__" {
			continue
		}
		var idx int64 = -1
		fmt.Sscanf(id, "%d", &idx)
		t = append(t, [2]int64{idx, tg.Value})
	}
	sort.Slice(t, func(i, j int) bool { return t[i][0] < t[j][0] })
	return t
}

func run(st *store, expr string, start, end, step, now int64) (res runResult) {
	defer func() {
		if p := recover(); p != nil {
			res.err = fmt.Errorf("panic: %v", p)
		}
	}()
	st.queries, st.last, st.lastQ, st.inexact = 0, nil, "", false
	ng := promql.NewEngine(nil, 0)
	v, cancel, t, replaced, err := promql.VerifC27Exec(ng, context.Background(), st, promql.Query{Start: start, End: end, Step: step, Expr: expr,
		Options: promql.Options{TimeNow: now}})
	if err != nil {
		res.err = err
		return res
	}
	defer cancel()
	tsr, ok := v.(*promql.TimeSeries)
	if !ok || len(t.LODs) != 1 {
		res.err = fmt.Errorf("unexpected result %T lods=%d", v, len(t.LODs))
		return res
	}
	res.replaced = replaced
	res.ts = tsInfo{times: append([]int64(nil), t.Time...), startX: t.StartX, vs: t.ViewStartX, ve: t.ViewEndX, lod: t.LODs[0].Step, step: t.Step}
	res.times = append([]int64(nil), tsr.Time...)
	res.series = map[string][]float64{}
	for i := range tsr.Series.Data {
		d := &tsr.Series.Data[i]
		vs := make([]string, len(*d.Values))
		for j, x := range *d.Values {
			vs[j] = fmtFloat(x)
		}
		k := tagKey(tagsOf(d))
		res.lines = append(res.lines, k+" "+strings.Join(vs, " "))
		res.series[k] = append([]float64(nil), *d.Values...)
	}
	sort.Strings(res.lines)
	res.capt, res.query, res.nq, res.inex = st.last, st.lastQ, st.queries, st.inexact
	return res
}

// index (bottom-up) of the chain node the evaluator replaced by the selector, -1 if none, -2 if it cannot be located
func reducedUpto(replaced string, pre []string) int {
	if replaced == "" {
		return -1
	}
	for i, p := range pre {
		if a, err := parser.ParseExpr(p); err == nil && a.String() == replaced {
			return i
		}
	}
	return -2
}

// ---------------------------------------------------------------- generator

func genLabels(r *verifx.Rng) []int {
	switch r.Pick(3, 3, 2, 1, 1) {
	case 0:
		return nil
	case 1:
		return []int{r.Range(1, 3)}
	case 2:
		a := r.Range(1, 3)
		b := r.Range(1, 3)
		if a == b {
			return []int{a}
		}
		return []int{a, b}
	case 3:
		return []int{1, 2, 3}
	}
	return []int{0}
}

var aggOps = []string{"sum", "min", "max", "avg", "count", "group", "stddev", "stdvar"}
var otOps = []string{"avg", "min", "max", "sum", "count", "stdvar", "stddev", "last"}

func genRange(r *verifx.Rng, lod int64) int64 {
	switch r.Pick(5, 2, 1, 1, 1) {
	case 0:
		return lod
	case 1:
		return 2 * lod
	case 2:
		return 3 * lod
	case 3:
		if lod > 1 {
			return int64(r.Range(1, int(lod)-1))
		}
		return lod
	}
	return lod + int64(r.Range(1, int(lod)+1))
}

func genQ(r *verifx.Rng) (int64, int64) {
	qs := [][2]int64{{0, 1}, {1, 4}, {1, 2}, {3, 4}, {1, 1}, {1, 8}}
	q := qs[r.Intn(len(qs))]
	return q[0], q[1]
}

func genNode(r *verifx.Rng, lod int64, bottom bool) node {
	switch r.Pick(8, 2, 2, 6, 1) {
	case 0:
		return node{kind: "agg", op: aggOps[r.Intn(len(aggOps))], without: r.Chance(1, 3), labels: genLabels(r)}
	case 1:
		qn, qd := genQ(r)
		return node{kind: "q", qn: qn, qd: qd, without: r.Chance(1, 3), labels: genLabels(r)}
	case 2:
		k := "topk"
		if r.Bool() {
			k = "botk"
		}
		return node{kind: k, k: r.Range(0, 3), without: r.Chance(1, 3), labels: genLabels(r)}
	case 3:
		return node{kind: "ot", op: otOps[r.Intn(len(otOps))], rng: genRange(r, lod), sub: !bottom || r.Chance(1, 4)}
	}
	qn, qd := genQ(r)
	return node{kind: "qot", qn: qn, qd: qd, rng: genRange(r, lod), sub: !bottom || r.Chance(1, 4)}
}

// chain root first
func genChain(r *verifx.Rng, lod int64) []node {
	depth := r.Pick(0, 4, 5, 2)
	var up []node // bottom-up
	for i := 0; i < depth; i++ {
		bottom := len(up) == 0
		n := genNode(r, lod, bottom)
		up = append(up, n)
		if r.Chance(1, 6) {
			up = append(up, node{kind: "paren"})
		}
		if r.Chance(1, 12) {
			up = append(up, node{kind: "brk"})
		}
	}
	if r.Chance(1, 8) {
		up = append([]node{{kind: "brk"}}, up...)
		// a matrix selector needs the bare selector below it
		if len(up) > 1 && (up[1].kind == "ot" || up[1].kind == "qot") {
			up[1].sub = true
		}
	}
	chain := make([]node, len(up))
	for i, n := range up {
		chain[len(up)-1-i] = n
	}
	return chain
}

var explicitWhats = []string{"avg", "sum", "count", "min", "max", "sumsec", "countsec"}

type scenario struct {
	st               *store
	start, end, now  int64
	step             int64
}

func genScenario(r *verifx.Rng, metric *format.MetricMetaValue) scenario {
	st := &store{metric: metric}
	n := r.Range(1, 4)
	seen := map[[3]int64]bool{}
	for len(st.tags) < n {
		t := [3]int64{int64(r.Range(1, 2)), int64(r.Range(1, 2)), int64(r.Range(1, 2))}
		if !seen[t] {
			seen[t] = true
			st.tags = append(st.tags, t)
		}
	}
	step := []int64{1, 1, 1, 5, 5, 15, 0, 10}[r.Intn(8)]
	lod := step
	if lod == 0 {
		lod = 1
	}
	if lod == 10 {
		lod = 5
	}
	points := int64(r.Range(5, 12))
	base := int64(1_000_000 + 900*r.Range(0, 50))
	start := base
	if r.Chance(1, 4) {
		start += int64(r.Range(1, int(lod)))
	}
	end := start + points*lod
	// events: seconds from well before the start (ranges look back) up to the end
	from := base - 4*lod*3
	density := []int{1, 2, 3, 4}[r.Intn(4)] // out of 4
	gapLo := from + int64(r.Intn(int(end-from)))
	gapHi := gapLo + int64(r.Range(0, int(3*lod)))
	for s := range st.tags {
		for sec := from; sec < end; sec++ {
			if sec >= gapLo && sec < gapHi {
				continue
			}
			if r.Intn(4) < density {
				k := int64(r.Range(-3, 20))
				st.events = append(st.events, event{series: s, sec: sec, val: 5040 * k})
			}
		}
	}
	return scenario{st: st, start: start, end: end, now: end + int64(r.Range(1, 30)), step: step}
}

func storeOp(st *store) string {
	tg := make([]string, len(st.tags))
	for i, t := range st.tags {
		tg[i] = fmt.Sprintf("%d:%d:%d", t[0], t[1], t[2])
	}
	ev := make([]string, len(st.events))
	for i, e := range st.events {
		ev[i] = fmt.Sprintf("%d:%d:%d", e.series, e.sec, e.val)
	}
	evs := "-"
	if len(ev) != 0 {
		evs = strings.Join(ev, ",")
	}
	return fmt.Sprintf("store tags=%s ev=%s", strings.Join(tg, ";"), evs)
}

func tsOp(ts tsInfo) string {
	return fmt.Sprintf("ts step=%d lod=%d startx=%d vs=%d ve=%d times=%s", ts.step, ts.lod, ts.startX, ts.vs, ts.ve, verifx.List(ts.times))
}

func capToRef(c []capSeries) []rser {
	out := make([]rser, len(c))
	for i, s := range c {
		vals := make([]*big.Rat, len(s.vals))
		for j, v := range s.vals {
			if !math.IsNaN(v) {
				vals[j] = new(big.Rat).SetFloat64(v)
			}
		}
		out[i] = rser{tags: s.tags, vals: vals}
	}
	return out
}

func refLines(ts tsInfo, ss []rser) []string {
	var lines []string
	for _, s := range ss {
		if ts.vs != ts.ve && !hasPresentInView(ts, s) {
			continue
		}
		vs := make([]string, 0, len(s.vals))
		for _, v := range s.vals[ts.startX:] {
			vs = append(vs, fmtRat(v))
		}
		lines = append(lines, tagKey(s.tags)+" "+strings.Join(vs, " "))
	}
	sort.Strings(lines)
	return lines
}

func firstDiff(a, b []string) string {
	for i := 0; i < len(a) || i < len(b); i++ {
		var x, y string
		if i < len(a) {
			x = a[i]
		}
		if i < len(b) {
			y = b[i]
		}
		if x != y {
			return fmt.Sprintf("engine=[%s] definition=[%s]", x, y)
		}
	}
	return ""
}

// reference result (definitions) for the engine-side nodes of chain above the storage answer captured in `real`
func refFor(chain []node, real runResult, upto int) ([]string, flags) {
	fl := flags{inexact: real.inex}
	ss := capToRef(real.capt)
	for i := len(chain) - 1 - (upto + 1); i >= 0; i-- {
		ss = refApply(chain[i], real.ts, ss, &fl)
	}
	return refLines(real.ts, ss), fl
}

// the node to blame for a difference: the sub-expressions are run bottom-up on the real engine, the first one whose
// result differs from its definition names the signature (falls back to the root)
func blame(sc scenario, what string, chain []node, upto int) string {
	for i := len(chain) - 1 - (upto + 1); i > 0; i-- {
		sub := chain[i:]
		expr, pre := chainStrings(what, sub)
		real := run(sc.st, expr, sc.start, sc.end, sc.step, sc.now)
		if real.err != nil || real.nq == 0 {
			continue
		}
		u := reducedUpto(real.replaced, pre)
		if u != upto {
			continue
		}
		ref, _ := refFor(sub, real, u)
		if firstDiff(real.lines, ref) != "" {
			return sigOf(sub[0])
		}
	}
	return sigOf(chain[0])
}

func sigOf(n node) string {
	switch n.kind {
	case "agg":
		return "def-agg-" + n.op
	case "q":
		return "def-agg-quantile"
	case "topk", "botk":
		return "def-" + n.kind
	case "ot":
		return "def-" + n.op + "-over-time"
	case "qot":
		return "def-quantile-over-time"
	}
	return "def-" + n.kind
}

func defSigUnused(chain []node, upto int) string {
	for i := len(chain) - 1 - (upto + 1); i >= 0; i-- {
		n := chain[i]
		switch n.kind {
		case "agg":
			return "def-agg-" + n.op
		case "q":
			return "def-agg-quantile"
		case "topk", "botk":
			return "def-" + n.kind
		case "ot":
			return "def-" + n.op + "-over-time"
		case "qot":
			return "def-quantile-over-time"
		}
	}
	return "def-selector"
}

func withBrk(chain []node) []node {
	c := append([]node(nil), chain...)
	c = append(c, node{kind: "brk"})
	if len(c) >= 2 {
		n := c[len(c)-2]
		if n.kind == "ot" || n.kind == "qot" {
			n.sub = true
			c[len(c)-2] = n
		}
	}
	return c
}

func nonParen(chain []node) []node {
	var c []node
	for _, n := range chain {
		if n.kind != "paren" {
			c = append(c, n)
		}
	}
	return c
}

// reduction oracle: which (rule shape, what) combinations are claimed to be result preserving, see checks/C27.py
func reduceOracle(h *verifx.H, sc scenario, chain []node, real runResult, upto int, expr string) {
	np := nonParen(chain)
	if len(np) == 0 {
		return
	}
	lod := real.ts.lod
	// shape of the reduced part (bottom-up)
	bottom := np[len(np)-1]
	var shape, what string
	reducedNodes := 0
	// count non-paren nodes among the replaced ones
	for i, seen := len(chain)-1, 0; i >= 0 && seen <= upto; i, seen = i-1, seen+1 {
		if chain[i].kind != "paren" {
			reducedNodes++
		}
	}
	switch {
	case reducedNodes == 1 && bottom.kind == "agg":
		shape, what = "agg", bottom.op
	case reducedNodes == 1 && bottom.kind == "ot":
		shape, what = "over-time", bottom.op
	case reducedNodes == 2 && bottom.kind == "ot":
		shape, what = "agg-of-over-time", bottom.op
		if np[len(np)-2].op != what {
			return // mixed (sum∘count …): the rule blends the two `what`s by design, nothing exact to compare with
		}
	case reducedNodes == 2 && bottom.kind == "agg":
		shape, what = "over-time-of-agg", bottom.op
		if np[len(np)-2].op != what {
			return
		}
	default:
		return
	}
	switch shape {
	case "agg":
		// per-second normalised what: equal to the PromQL operator on one-second data only
		if lod != 1 || real.ts.step > 1 {
			return
		}
	case "over-time":
		if bottom.rng != lod {
			return
		}
	default:
		// sum/min/max compose exactly; avg-of-avg and count-of-count are not the pooled value by definition
		if what != "sum" && what != "min" && what != "max" {
			return
		}
		for _, n := range np[len(np)-2:] {
			if n.kind == "ot" && n.rng != lod {
				return
			}
		}
	}
	if (shape != "agg" || what == "count") && reducedNodes != len(np) {
		return // engine-side nodes above would run on another step in the comparison run
	}
	h.Stat("reduce.checked."+shape, 1)
	// the same expression with the selector wrapped in (m + 0): no rule matches, the engine operators do the work
	alt := withBrk(chain)
	altExpr, _ := chainStrings("", alt)
	altStep := real.ts.step
	if shape != "agg" {
		altStep = 1
	}
	ref := run(sc.st, altExpr, sc.start, sc.end, altStep, sc.now)
	if ref.err != nil || ref.nq != 1 {
		h.Note("reduce oracle: comparison run failed: %v", ref.err)
		return
	}
	sig := fmt.Sprintf("reduce-%s-%s", shape, what)
	shift := int64(0)
	if shape != "agg" {
		shift = lod - 1 // bucket [T, T+lod) of the reduced run = window ending at second T+lod-1 of the one-second run
	}
	refIdx := map[int64]int{}
	for i, t := range ref.times {
		refIdx[t] = i
	}
	keys := map[string]bool{}
	for k := range real.series {
		keys[k] = true
	}
	for k := range ref.series {
		keys[k] = true
	}
	var ks []string
	for k := range keys {
		ks = append(ks, k)
	}
	sort.Strings(ks)
	for _, k := range ks {
		a, b := real.series[k], ref.series[k]
		for i, t := range real.times {
			if t < sc.start { // before the requested interval the two runs fetch different amounts of history
				continue
			}
			j, ok := refIdx[t+shift]
			if !ok {
				continue
			}
			x, y := math.NaN(), math.NaN()
			if a != nil {
				x = a[i]
			}
			if b != nil {
				y = b[j]
			}
			if what == "count" {
				// count_over_time yields 0 where the engine sees no point; the storage has no row there
				if math.IsNaN(x) {
					x = 0
				}
				if math.IsNaN(y) {
					y = 0
				}
			}
			if fmtFloat(x) != fmtFloat(y) {
				h.Viol(sig, "expr=%q step=%d start=%d end=%d series=%s t=%d pushed-down=%s engine-evaluated=%s (%q step=%d at t=%d) storage-query=[%s]",
					expr, real.ts.step, sc.start, sc.end, k, t, fmtFloat(x), fmtFloat(y), altExpr, altStep, t+shift, real.query)
				return
			}
		}
	}
}

func evalCase(h *verifx.H, r *verifx.Rng, metric *format.MetricMetaValue) {
	sc := genScenario(r, metric)
	h.Op("%s", storeOp(sc.st))
	lod := sc.step
	if lod == 0 {
		lod = 1
	}
	if lod == 10 {
		lod = 5
	}
	h.Stat(fmt.Sprintf("step.%d", sc.step), 1)
	nexpr := r.Range(1, 3)
	for e := 0; e < nexpr; e++ {
		var chain []node
		var what, expr string
		var pre []string
		var real runResult
		var upto int
		var fl flags
		var refOut []string
		okCase := false
		for try := 0; try < 30; try++ {
			chain = genChain(r, lod)
			what = ""
			if r.Chance(1, 5) {
				what = explicitWhats[r.Intn(len(explicitWhats))]
			}
			expr, pre = chainStrings(what, chain)
			real = run(sc.st, expr, sc.start, sc.end, sc.step, sc.now)
			if real.err != nil {
				h.Stat("skip.error", 1)
				h.Note("engine error for %q: %v", expr, real.err)
				continue
			}
			if real.nq == 0 { // topk(0, …) never reaches the storage
				upto = -1
				fl = flags{}
				refOut = nil
				okCase = true
				break
			}
			upto = reducedUpto(real.replaced, pre)
			if upto == -2 {
				h.Stat("skip.unmatched-reduction", 1)
				continue
			}
			refOut, fl = refFor(chain, real, upto)
			if fl.inexact {
				h.Stat("skip.inexact", 1)
				continue
			}
			if fl.tie {
				h.Stat("skip.tie", 1)
				continue
			}
			okCase = true
			break
		}
		if !okCase {
			h.Stat("skip.gave-up", 1)
			continue
		}
		h.Op("%s", tsOp(real.ts))
		h.Op("eval %s", chainTokens(what, chain))
		h.Obs("n=%d", len(real.lines))
		for _, l := range real.lines {
			h.Obs("%s", l)
		}
		h.Note("expr %s | storage %s", expr, real.query)
		// statistics and the non-trivial rule
		for _, n := range chain {
			switch n.kind {
			case "agg", "ot":
				h.Stat("node."+n.kind+"."+n.op, 1)
			default:
				h.Stat("node."+n.kind, 1)
			}
		}
		if upto >= 0 {
			h.Stat("reduced", 1)
			h.NonTrivial("reduced")
		}
		missing := false
		for _, l := range real.lines {
			if strings.Contains(l, " _") {
				missing = true
			}
		}
		if missing && len(chain) > 0 {
			h.Stat("with-missing-points", 1)
			h.NonTrivial("missing")
		}
		// oracle 1: operators above the storage query compute their definitions
		if real.nq != 0 {
			if d := firstDiff(real.lines, refOut); d != "" {
				h.Viol(blame(sc, what, chain, upto), "expr=%q step=%d start=%d end=%d now=%d %s storage-query=[%s]", expr, sc.step, sc.start, sc.end, sc.now, d, real.query)
			}
		}
		// oracle 2: a pushed-down expression equals its engine-side evaluation
		if upto >= 0 && what == "" {
			reduceOracle(h, sc, chain, real, upto, expr)
		}
	}
}

func winCase(h *verifx.H, r *verifx.Rng) {
	n := r.Range(0, 14)
	t := make([]int64, n)
	v := make([]float64, n)
	vs := make([]string, n)
	step := []int64{1, 5, 15, 60}[r.Intn(4)]
	cur := int64(1000 * r.Range(1, 50))
	for i := 0; i < n; i++ {
		t[i] = cur
		// coarser steps first, finer later (LODs only shrink towards the present)
		s := step
		if i < n/3 && r.Chance(1, 2) {
			s = step * 4
		}
		cur += s
		if r.Chance(1, 3) {
			v[i] = math.NaN()
			vs[i] = "_"
		} else {
			v[i] = 1
			vs[i] = "1"
		}
	}
	w := int64(r.Range(0, int(4*step)))
	if r.Chance(1, 3) {
		w = step * int64(r.Range(1, 4))
	}
	strict := r.Bool()
	sb := 0
	if strict {
		sb = 1
	}
	h.Op("win w=%d step=%d strict=%d t=%s v=%s", w, step, sb, verifx.List(t), verifx.List(vs))
	moves := 0
	func() {
		defer func() {
			if p := recover(); p != nil {
				h.Obs("panic")
			}
		}()
		promql.VerifC27Window(t, v, w, step, strict, func(l, rr, cnt int) {
			h.Obs("l=%d r=%d n=%d", l, rr, cnt)
			moves++
			// direct oracle: n is the number of present points of [l, r]
			c := 0
			for i := l; i <= rr; i++ {
				if !math.IsNaN(v[i]) {
					c++
				}
			}
			if !strict && c != cnt {
				h.Viol("window-count", "w=%d step=%d strict=%v t=%v v=%v l=%d r=%d n=%d present=%d", w, step, strict, t, vs, l, rr, cnt, c)
			}
		})
	}()
	h.Obs("end")
	h.Stat("win.cases", 1)
	if moves > 2 {
		h.NonTrivial("window")
	}
}

func main() {
	h := verifx.New()
	metric := &format.MetricMetaValue{MetricID: 1, Name: "m", Kind: format.MetricKindValue,
		Tags: []format.MetricMetaTag{{}, {Name: "a"}, {Name: "b"}, {Name: "c"}}}
	_ = metric.RestoreCachedInfo()
	h.Cases(func(i int, r *verifx.Rng) {
		if i%5 == 4 {
			winCase(h, r)
		} else {
			evalCase(h, r, metric)
		}
	})
	h.Done()
}
