//go:build verif

// verif-c27: correspondence + direct oracles for PromQL aggregation operators, over-time functions, vector-vector binary
// operators and reduction (push-down) rules.  Every `eval` op is one Engine run (parser → NewEvaluator → real
// data_model.GetTimescale → reduction rules → querySeries → functions.go → exec) of the REAL engine against an in-memory
// promql.Handler whose QuerySeries pre-aggregates generated one-second events the way internal/api does (real
// tsValues.merge / tsValues.value through an accessor), per LOD of the time scale the engine built.
//
// Oracles on the real outputs (independent of the Lean model):
//
//	def-*          the engine-side operators above the storage queries equal their definitions recomputed with big.Rat
//	               from the storage answers (missing points excluded; window = the points of the selected range;
//	               binary operators: one-to-one label-set matching)
//	def-*-numeric  the same outside float64's exact domain (large magnitude / small spread, mixed magnitudes), within a
//	               relative tolerance the current algorithms meet with > 1000x headroom
//	reduce-*       an expression a reduction rule rewrites into a storage query equals the same expression evaluated by
//	               the engine operators alone (selector wrapped in `(m + 0)`, which no rule matches) over the underlying
//	               series
package main

import (
	"context"
	"fmt"
	"math"
	"math/big"
	"sort"
	"strings"

	"github.com/VKCOM/statshouse/internal/api"
	"github.com/VKCOM/statshouse/internal/data_model"
	"github.com/VKCOM/statshouse/internal/format"
	"github.com/VKCOM/statshouse/internal/promql"
	"github.com/VKCOM/statshouse/internal/promql/parser"
	"github.com/VKCOM/statshouse/internal/verifx"
)

// ---------------------------------------------------------------- storage stub

type event struct {
	series int
	sec    int64
	val    int64
}

type capSeries struct {
	tags [][2]int64
	vals []float64
}

type capture struct {
	series []capSeries
	query  string
}

type store struct {
	metric  *format.MetricMetaValue
	tags    [][3]int64
	events  []event
	caps    []capture // answers of the QuerySeries calls of one run, in call order
	inexact bool
}

func (s *store) GetHostName(int32) string   { return "" }
func (s *store) GetHostName64(int64) string { return "" }
func (s *store) GetTagValue(q promql.TagValueQuery) string {
	return fmt.Sprintf("v%d", q.TagValueID)
}
func (s *store) GetTagValueID(promql.TagValueIDQuery) (int64, error) { return 0, promql.ErrNotFound }
func (s *store) GetTagFilter(*format.MetricMetaValue, int, string) (data_model.TagValue, error) {
	return data_model.TagValue{}, fmt.Errorf("no filters in this harness")
}
func (s *store) MatchMetrics(f *data_model.QueryFilter) error {
	if f.MetricMatcher.Matches(s.metric.Name) {
		f.MatchingMetrics = []*format.MetricMetaValue{s.metric}
	}
	return nil
}
func (s *store) QueryTagValueIDs(context.Context, promql.TagValuesQuery) ([]int64, error) {
	return nil, nil
}
func (s *store) Alloc(n int) *[]float64 { v := make([]float64, n); return &v }
func (s *store) Free(*[]float64)        {}
func (s *store) Tracef(string, ...any)  {}

// exact value of `what` for the events of one (group, bucket), by definition
func exactWhat(w promql.DigestWhat, evs []int64, qstep, lstep int64) *big.Rat {
	n := big.NewRat(int64(len(evs)), 1)
	sum := new(big.Rat)
	mn, mx := evs[0], evs[0]
	sq := new(big.Rat)
	for _, v := range evs {
		sum.Add(sum, big.NewRat(v, 1))
		sq.Add(sq, new(big.Rat).Mul(big.NewRat(v, 1), big.NewRat(v, 1)))
		if v < mn {
			mn = v
		}
		if v > mx {
			mx = v
		}
	}
	switch w {
	case promql.DigestCount:
		return n.Mul(n, big.NewRat(qstep, lstep))
	case promql.DigestCountSec:
		return n.Mul(n, big.NewRat(1, lstep))
	case promql.DigestSum:
		return sum.Mul(sum, big.NewRat(qstep, lstep))
	case promql.DigestSumSec:
		return sum.Mul(sum, big.NewRat(1, lstep))
	case promql.DigestAvg:
		return sum.Quo(sum, n)
	case promql.DigestMin:
		return big.NewRat(mn, 1)
	case promql.DigestMax:
		return big.NewRat(mx, 1)
	case promql.DigestStdVar:
		if len(evs) < 2 {
			return new(big.Rat)
		}
		x := new(big.Rat).Mul(sum, sum)
		x.Quo(x, n)
		x.Sub(sq, x)
		x.Quo(x, new(big.Rat).Sub(n, big.NewRat(1, 1)))
		if x.Sign() < 0 {
			return new(big.Rat)
		}
		return x
	}
	return nil
}

// step of the LOD every point of the time scale belongs to (what requestHandler.QuerySeries iterates: Timescale.GetLODs)
func widthsOf(ts data_model.Timescale) []int64 {
	w := make([]int64, 0, len(ts.Time))
	for _, lod := range ts.LODs {
		for i := 0; i < lod.Len && len(w) < len(ts.Time); i++ {
			w = append(w, lod.Step)
		}
	}
	for len(w) < len(ts.Time) {
		w = append(w, ts.LODs[len(ts.LODs)-1].Step)
	}
	return w
}

func (s *store) QuerySeries(_ context.Context, qry *promql.SeriesQuery) (promql.Series, func(), error) {
	ts := qry.Timescale
	widths := widthsOf(ts)
	// the step requestHandler.QuerySeries hands to copyRowValuesAt: qry.Range, else Timescale.Step (0 → row step there)
	hstep := qry.Range
	if hstep == 0 {
		hstep = ts.Step
	}
	what := qry.Whats[0].Digest
	cp := capture{query: fmt.Sprintf("what=%s by=%v range=%d", what.String(), groupByShort(qry.GroupBy), qry.Range)}
	res := promql.Series{Meta: promql.SeriesMeta{Metric: qry.Metric}}
	by := map[int]bool{}
	for _, x := range qry.GroupBy {
		by[x] = true
	}
	type key [3]int64
	groups := map[key][]int{}
	var order []key
	for i, tg := range s.tags {
		var k key
		for j := 0; j < 3; j++ {
			if by[j+1] {
				k[j] = tg[j]
			}
		}
		if _, ok := groups[k]; !ok {
			order = append(order, k)
		}
		groups[k] = append(groups[k], i)
	}
	for _, k := range order {
		member := map[int]bool{}
		for _, i := range groups[k] {
			member[i] = true
		}
		vals := make([]float64, len(ts.Time))
		any := false
		for x, t := range ts.Time {
			lodStep := widths[x]
			var rs []api.VerifC27Row
			var evs []int64
			for _, e := range s.events {
				if member[e.series] && t <= e.sec && e.sec < t+lodStep {
					v := float64(e.val)
					rs = append(rs, api.VerifC27Row{Count: 1, Sum: v, Min: v, Max: v, SumSquare: v * v})
					evs = append(evs, e.val)
				}
			}
			if len(rs) == 0 {
				vals[x] = promql.NilValue
				continue
			}
			any = true
			vals[x] = api.VerifC27MergeValue(rs, what, hstep, lodStep)
			qstep := hstep
			if qstep == 0 {
				qstep = lodStep
			}
			if ex := exactWhat(what, evs, qstep, lodStep); ex == nil || math.IsNaN(vals[x]) || math.IsInf(vals[x], 0) ||
				new(big.Rat).SetFloat64(vals[x]).Cmp(ex) != 0 {
				s.inexact = true
			}
		}
		if !any {
			continue
		}
		v := vals
		res.Data = append(res.Data, promql.SeriesData{Values: &v, What: qry.Whats[0]})
		x := len(res.Data) - 1
		var ctags [][2]int64
		for j := 0; j < 3; j++ {
			if by[j+1] {
				res.AddTagAt(x, &promql.SeriesTag{
					Metric: qry.Metric,
					Index:  j + 1 + promql.SeriesTagIndexOffset,
					ID:     format.TagID(j + 1),
					Name:   qry.Metric.Tags[j+1].Name,
					Value:  k[j],
				})
				ctags = append(ctags, [2]int64{int64(j + 1), k[j]})
			}
		}
		cp.series = append(cp.series, capSeries{tags: ctags, vals: append([]float64(nil), vals...)})
	}
	s.caps = append(s.caps, cp)
	res.Meta.Total = len(res.Data)
	return res, func() {}, nil
}

func groupByShort(g []int) string {
	if len(g) > 8 {
		return "all"
	}
	return fmt.Sprint(g)
}

// ---------------------------------------------------------------- running the real engine

type runResult struct {
	err      error
	ts       tsInfo
	lines    []string             // canonical observation lines
	series   map[string][]float64 // tags → trimmed values
	times    []int64              // trimmed times
	caps     []capture
	inex     bool
	replaced []string
	sparse   bool // at most one event per (series, point of the time scale)
}

func (r runResult) queries() string {
	qs := make([]string, len(r.caps))
	for i, c := range r.caps {
		qs[i] = c.query
	}
	return strings.Join(qs, "; ")
}

func fmtFloat(v float64) string {
	if math.IsNaN(v) {
		return "_"
	}
	if math.IsInf(v, 1) {
		return "inf"
	}
	if math.IsInf(v, -1) {
		return "-inf"
	}
	return new(big.Rat).SetFloat64(v).RatString()
}

func fmtRat(v *big.Rat) string {
	if v == nil {
		return "_"
	}
	return v.RatString()
}

func tagsOf(d *promql.SeriesData) [][2]int64 {
	var t [][2]int64
	for id, tg := range d.Tags.ID2Tag {
		if id == "__name__" {
			continue
		}
		var idx int64 = -1
		fmt.Sscanf(id, "%d", &idx)
		t = append(t, [2]int64{idx, tg.Value})
	}
	sort.Slice(t, func(i, j int) bool { return t[i][0] < t[j][0] })
	return t
}

func run(st *store, expr string, start, end, step, now int64) (res runResult) {
	defer func() {
		if p := recover(); p != nil {
			res.err = fmt.Errorf("panic: %v", p)
		}
	}()
	st.caps, st.inexact = nil, false
	ng := promql.NewEngine(nil, 0)
	v, cancel, t, replaced, err := promql.VerifC27Exec(ng, context.Background(), st, promql.Query{Start: start, End: end, Step: step, Expr: expr,
		Options: promql.Options{TimeNow: now}})
	if len(t.LODs) != 0 {
		res.ts = tsInfo{times: append([]int64(nil), t.Time...), widths: widthsOf(t), startX: t.StartX, vs: t.ViewStartX, ve: t.ViewEndX,
			lod: t.LODs[len(t.LODs)-1].Step, step: t.Step}
	}
	if err != nil {
		res.err = err
		return res
	}
	defer cancel()
	tsr, ok := v.(*promql.TimeSeries)
	if !ok || len(t.LODs) == 0 {
		res.err = fmt.Errorf("unexpected result %T lods=%d", v, len(t.LODs))
		return res
	}
	res.replaced = replaced
	res.times = append([]int64(nil), tsr.Time...)
	res.series = map[string][]float64{}
	for i := range tsr.Series.Data {
		d := &tsr.Series.Data[i]
		vs := make([]string, len(*d.Values))
		for j, x := range *d.Values {
			vs[j] = fmtFloat(x)
		}
		k := tagKey(tagsOf(d))
		res.lines = append(res.lines, k+" "+strings.Join(vs, " "))
		res.series[k] = append([]float64(nil), *d.Values...)
	}
	sort.Strings(res.lines)
	res.caps, res.inex = st.caps, st.inexact
	res.sparse = true
	cnt := map[[2]int]int{}
	for _, e := range st.events {
		for x, tm := range res.ts.times {
			if tm <= e.sec && e.sec < tm+res.ts.widths[x] {
				cnt[[2]int{e.series, x}]++
				if cnt[[2]int{e.series, x}] > 1 {
					res.sparse = false
				}
			}
		}
	}
	return res
}

// index (bottom-up) of the chain node the evaluator replaced by the selector, -1 if none
func reducedUpto(replaced []string, pre []string) int {
	if len(replaced) == 0 {
		return -1
	}
	set := map[string]bool{}
	for _, r := range replaced {
		set[r] = true
	}
	upto := -1
	for i, p := range pre {
		if a, err := parser.ParseExpr(p); err == nil && set[a.String()] {
			upto = i
		}
	}
	return upto
}

// ---------------------------------------------------------------- reference evaluation of a tree from the captured storage answers

func capToRef(c []capSeries) []rser {
	out := make([]rser, len(c))
	for i, s := range c {
		vals := make([]*big.Rat, len(s.vals))
		for j, v := range s.vals {
			if !math.IsNaN(v) {
				vals[j] = new(big.Rat).SetFloat64(v)
			}
		}
		out[i] = rser{tags: s.tags, vals: vals}
	}
	return out
}

type refState struct {
	real   runResult
	next   int // next capture
	fl     flags
	err    bool
	broken bool // captures do not line up with the selectors (should not happen)
	anyRed bool
}

func (rs *refState) eval(e *expr, pre map[*expr][]string) []rser {
	return rs.evalFrom(e, 0, pre)
}

func (rs *refState) evalFrom(e *expr, i int, pre map[*expr][]string) []rser {
	if rs.err || rs.broken {
		return nil
	}
	if i < len(e.chain) {
		n := e.chain[i]
		if (n.kind == "topk" || n.kind == "botk") && n.k <= 0 {
			return nil // funcTopK returns before evaluating its operand
		}
		if e.base == nil {
			// the nodes from the bottom up to `upto` are replaced by the storage query
			upto := reducedUpto(rs.real.replaced, pre[e])
			if upto >= 0 {
				rs.anyRed = true
			}
			if len(e.chain)-1-i <= upto {
				return rs.capture()
			}
		}
		in := rs.evalFrom(e, i+1, pre)
		if rs.err || rs.broken {
			return nil
		}
		return refApply(n, rs.real.ts, in, &rs.fl)
	}
	if e.base == nil {
		return rs.capture()
	}
	l := rs.eval(e.base.l, pre)
	r := rs.eval(e.base.r, pre)
	if rs.err || rs.broken {
		return nil
	}
	out, err := binDef(e.base, l, r, &rs.fl)
	if err {
		rs.err = true
	}
	return out
}

func (rs *refState) capture() []rser {
	if rs.next >= len(rs.real.caps) {
		rs.broken = true
		return nil
	}
	c := rs.real.caps[rs.next]
	rs.next++
	return capToRef(c.series)
}

func refSeries(e *expr, leaves []leaf, real runResult) (out []rser, rs *refState) {
	pre := map[*expr][]string{}
	for _, l := range leaves {
		pre[l.e] = l.pre
	}
	rs = &refState{real: real, fl: flags{inexact: real.inex}}
	out = rs.eval(e, pre)
	if rs.next != len(real.caps) {
		rs.broken = true
	}
	var kept []rser
	for _, s := range out {
		if real.ts.vs != real.ts.ve && !hasPresentInView(real.ts, s) {
			continue
		}
		kept = append(kept, rser{tags: s.tags, vals: s.vals[real.ts.startX:]})
	}
	return kept, rs
}

func refLines(ss []rser) []string {
	var lines []string
	for _, s := range ss {
		vs := make([]string, 0, len(s.vals))
		for _, v := range s.vals {
			vs = append(vs, fmtRat(v))
		}
		lines = append(lines, tagKey(s.tags)+" "+strings.Join(vs, " "))
	}
	sort.Strings(lines)
	return lines
}

func firstDiff(a, b []string) string {
	for i := 0; i < len(a) || i < len(b); i++ {
		var x, y string
		if i < len(a) {
			x = a[i]
		}
		if i < len(b) {
			y = b[i]
		}
		if x != y {
			return fmt.Sprintf("engine=[%s] definition=[%s]", x, y)
		}
	}
	return ""
}

// numeric comparison: relative tolerance plus a floor scaled by the magnitude of the inputs
func numericDiff(real runResult, ref []rser, tol tolerance) (string, float64) {
	worst := 0.0
	refBy := map[string]rser{}
	for _, s := range ref {
		refBy[tagKey(s.tags)] = s
	}
	if len(refBy) != len(real.series) {
		return fmt.Sprintf("series engine=%d definition=%d", len(real.series), len(refBy)), math.Inf(1)
	}
	keys := make([]string, 0, len(real.series))
	for k := range real.series {
		keys = append(keys, k)
	}
	sort.Strings(keys)
	for _, k := range keys {
		a := real.series[k]
		b, ok := refBy[k]
		if !ok {
			return "series " + k + " not in the definition's result", math.Inf(1)
		}
		for i, x := range a {
			if (b.vals[i] == nil) != math.IsNaN(x) {
				return fmt.Sprintf("series=%s i=%d engine=%v definition=%s", k, i, x, fmtRat(b.vals[i])), math.Inf(1)
			}
			if b.vals[i] == nil {
				continue
			}
			y, _ := b.vals[i].Float64()
			errAbs := math.Abs(x - y)
			allowed := tol.rel*math.Abs(y) + tol.floor
			if r := errAbs / allowed; r > worst {
				worst = r
			}
			if errAbs > allowed {
				return fmt.Sprintf("series=%s i=%d engine=%.17g definition=%.17g error=%.3g allowed=%.3g", k, i, x, y, errAbs, allowed), errAbs / allowed
			}
		}
	}
	return "", worst
}

type tolerance struct{ rel, floor float64 }

func sigOf(n node) string {
	switch n.kind {
	case "agg":
		return "def-agg-" + n.op
	case "q":
		return "def-agg-quantile"
	case "topk", "botk":
		return "def-" + n.kind
	case "ot":
		return "def-" + n.op + "-over-time"
	case "qot":
		return "def-quantile-over-time"
	}
	return "def-" + n.kind
}

// the operator to blame for a difference: sub-expressions are run bottom-up on the real engine, the first one whose result
// differs from its definition names the signature (falls back to the root)
func blame(sc scenario, e *expr, differs func(*expr) bool) string {
	var found string
	var visit func(x *expr) bool
	visit = func(x *expr) bool {
		if x.base != nil {
			if visit(x.base.l) || visit(x.base.r) {
				return true
			}
			if len(x.chain) > 0 {
				if differs(&expr{base: x.base}) {
					found = "def-binary-" + x.base.op
					return true
				}
			}
		}
		for i := len(x.chain) - 1; i >= 0; i-- {
			if i == 0 && x == e {
				break // the whole expression: known to differ
			}
			if differs(&expr{chain: x.chain[i:], what: x.what, base: x.base}) {
				found = sigOf(x.chain[i])
				return true
			}
		}
		return false
	}
	if visit(e) {
		return found
	}
	if len(e.chain) > 0 {
		return sigOf(e.chain[0])
	}
	if e.base != nil {
		return "def-binary-" + e.base.op
	}
	return "def-selector"
}

// ---------------------------------------------------------------- generator

func genLabels(r *verifx.Rng) []int {
	var ls []int
	switch r.Pick(3, 3, 2, 1, 1) {
	case 0:
		return nil
	case 1:
		ls = []int{r.Range(1, 3)}
	case 2:
		a := r.Range(1, 3)
		b := r.Range(1, 3)
		if a == b {
			ls = []int{a}
		} else {
			ls = []int{a, b}
		}
	case 3:
		ls = []int{1, 2, 3}
	default:
		return []int{0}
	}
	// the same tag more than once: repeated, or by another of its names (canonical id <i>, legacy alias key<i>)
	if r.Chance(1, 3) {
		n := r.Range(1, 2)
		for x := 0; x < n; x++ {
			l := ls[r.Intn(len(ls))]
			var add int
			switch r.Pick(2, 1, 1) {
			case 0:
				add = l
			case 1:
				add = 10 + l%10
			default:
				add = 20 + l%10
			}
			at := r.Intn(len(ls) + 1)
			ls = append(ls[:at], append([]int{add}, ls[at:]...)...)
		}
	} else if r.Chance(1, 5) {
		form := 10 * r.Range(1, 2) // every label by its legacy alias key<i> alone, or by its canonical id alone
		for i := range ls {
			ls[i] = form + ls[i]%10
		}
	}
	return ls
}

var aggOps = []string{"sum", "min", "max", "avg", "count", "group", "stddev", "stdvar"}
var otOps = []string{"avg", "min", "max", "sum", "count", "stdvar", "stddev", "last"}

// ranges of 1-3 grid points, below one point, and not a multiple of the grid step
func genRange(r *verifx.Rng, lod int64) int64 {
	switch r.Pick(5, 3, 1, 1, 1) {
	case 0:
		return lod
	case 1:
		return 2 * lod
	case 2:
		return 3 * lod
	case 3:
		if lod > 1 {
			return int64(r.Range(1, int(lod)-1))
		}
		return lod
	}
	return lod + int64(r.Range(1, int(lod)+1))
}

func genQ(r *verifx.Rng) (int64, int64) {
	qs := [][2]int64{{0, 1}, {1, 4}, {1, 2}, {3, 4}, {1, 1}, {1, 8}}
	q := qs[r.Intn(len(qs))]
	return q[0], q[1]
}

func genNode(r *verifx.Rng, lod int64, matrixOK bool) node {
	switch r.Pick(8, 2, 2, 6, 1) {
	case 0:
		return node{kind: "agg", op: aggOps[r.Intn(len(aggOps))], without: r.Chance(1, 3), labels: genLabels(r)}
	case 1:
		qn, qd := genQ(r)
		return node{kind: "q", qn: qn, qd: qd, without: r.Chance(1, 3), labels: genLabels(r)}
	case 2:
		k := "topk"
		if r.Bool() {
			k = "botk"
		}
		return node{kind: k, k: r.Range(0, 3), without: r.Chance(1, 3), labels: genLabels(r)}
	case 3:
		return node{kind: "ot", op: otOps[r.Intn(len(otOps))], rng: genRange(r, lod), sub: !matrixOK || r.Chance(1, 4)}
	}
	qn, qd := genQ(r)
	return node{kind: "qot", qn: qn, qd: qd, rng: genRange(r, lod), sub: !matrixOK || r.Chance(1, 4)}
}

// chain (root first) of `depth` operators with parentheses and `+ 0` breakers sprinkled in; overSelector: the bottom
// node may use the matrix-selector form
func genChain(r *verifx.Rng, lod int64, depth int, overSelector bool) []node {
	var up []node // bottom-up
	for i := 0; i < depth; i++ {
		n := genNode(r, lod, overSelector && len(up) == 0)
		up = append(up, n)
		if r.Chance(1, 6) {
			up = append(up, node{kind: "paren"})
		}
		if r.Chance(1, 12) {
			up = append(up, node{kind: "brk"})
		}
	}
	if overSelector && r.Chance(1, 8) {
		up = append([]node{{kind: "brk"}}, up...)
		if len(up) > 1 && (up[1].kind == "ot" || up[1].kind == "qot") {
			up[1].sub = true
		}
	}
	chain := make([]node, len(up))
	for i, n := range up {
		chain[len(up)-1-i] = n
	}
	return chain
}

var explicitWhats = []string{"avg", "sum", "count", "min", "max", "sumsec", "countsec"}

func genSel(r *verifx.Rng, lod int64, depth int) *expr {
	e := &expr{chain: genChain(r, lod, depth, true)}
	if r.Chance(1, 5) {
		e.what = explicitWhats[r.Intn(len(explicitWhats))]
	}
	return e
}

var binOps = []string{"add", "sub", "mul", "mul", "div", "eq", "gt", "lt", "ge", "le"}

func genMatch(r *verifx.Rng) (m string, ls []int) {
	defer func() {
		if r.Chance(1, 5) {
			form := 10 * r.Range(1, 2)
			for i := range ls {
				ls[i] = form + ls[i]%10
			}
		}
	}()
	switch r.Pick(5, 3, 2) {
	case 1:
		ls := []int{r.Range(1, 3)}
		if r.Bool() {
			if b := r.Range(1, 3); b != ls[0] {
				ls = append(ls, b)
			}
		}
		return "on", ls
	case 2:
		ls := []int{r.Range(1, 3)}
		if r.Chance(1, 3) {
			if b := r.Range(1, 3); b != ls[0] {
				ls = append(ls, b)
			}
		}
		return "ign", ls
	}
	return "dflt", nil
}

func groupingNode(r *verifx.Rng, ls []int, without bool) node {
	ops := []string{"sum", "sum", "max", "min", "avg", "count"}
	return node{kind: "agg", op: ops[r.Intn(len(ops))], labels: ls, without: without}
}

// one operand of a binary operation
func genOperand(r *verifx.Rng, lod int64, nest int) *expr {
	switch r.Pick(3, 4, 2) {
	case 0:
		return &expr{} // the raw selector
	case 1:
		return genSel(r, lod, r.Range(1, 2))
	}
	if nest <= 0 {
		return genSel(r, lod, 1)
	}
	return genBin(r, lod, nest-1)
}

func genBin(r *verifx.Rng, lod int64, nest int) *expr {
	m, ls := genMatch(r)
	b := &binop{op: binOps[r.Intn(len(binOps))], match: m, labels: ls}
	if r.Chance(1, 2) {
		// both sides aggregated to the same label set, the aggregated operands produced in different ways:
		// agg by (L) (x op x) op agg by (L) (y), agg by (L) (agg without () (x)) op …
		gl := [][]int{{1}, {2}, {1, 2}, {1, 3}, {3}, {1, 1}, {2, 12}, {21, 1}, {2, 1, 2}}[r.Intn(9)]
		wo := r.Chance(1, 4)
		mk := func() *expr {
			var inner *expr
			switch r.Pick(3, 2, 2, 2) {
			case 0:
				inner = &expr{}
			case 1:
				inner = &expr{base: &binop{op: []string{"mul", "add", "sub", "gt"}[r.Intn(4)], match: "dflt", l: &expr{}, r: &expr{}}}
			case 2:
				inner = &expr{chain: []node{{kind: "agg", op: []string{"sum", "max", "min"}[r.Intn(3)], without: true}}}
			default:
				inner = genSel(r, lod, 1)
				for i := range inner.chain {
					if inner.chain[i].kind == "topk" || inner.chain[i].kind == "botk" {
						inner.chain[i].k = 2
					}
				}
			}
			inner.chain = append([]node{groupingNode(r, gl, wo)}, inner.chain...)
			return inner
		}
		b.l, b.r = mk(), mk()
		if r.Chance(2, 3) {
			b.match, b.labels = "dflt", nil
		}
	} else {
		b.l, b.r = genOperand(r, lod, nest), genOperand(r, lod, nest)
	}
	e := &expr{base: b}
	if r.Chance(1, 3) {
		e.chain = genChain(r, lod, 1, false)
	}
	return e
}

func genExpr(r *verifx.Rng, lod int64) *expr {
	if r.Chance(3, 10) {
		return genBin(r, lod, 1)
	}
	return genSel(r, lod, r.Pick(0, 4, 5, 2))
}

type scenario struct {
	hidden bool // one series has events only before the visible part of the time scale (round 7)
	st              *store
	start, end, now int64
	step            int64
	kind            string
}

// LOD levels of the newest LOD table
var lodLevels = []int64{1, 5, 15, 60, 300, 900, 3600}

func gridOf(step int64) int64 {
	g := int64(1)
	for _, l := range lodLevels {
		if l <= step {
			g = l
		}
	}
	return g
}

func genTags(r *verifx.Rng, st *store) {
	n := r.Range(1, 4)
	seen := map[[3]int64]bool{}
	for len(st.tags) < n {
		t := [3]int64{int64(r.Range(1, 2)), int64(r.Range(1, 2)), int64(r.Range(1, 2))}
		if !seen[t] {
			seen[t] = true
			st.tags = append(st.tags, t)
		}
	}
}

// round 7: in two of five scenarios with at least two series, one series has events only BEFORE the visible part of the time scale
// (in the hidden points an extended range loads): such a series must not take part in topk/bottomk ranking nor appear in
// the result, whatever later operators do (Series.removeEmpty looks at the view only).
func genHiddenOnly(r *verifx.Rng, st *store) int {
	if len(st.tags) >= 2 && r.Chance(2, 5) {
		return r.Intn(len(st.tags))
	}
	return -1
}

func genValue(r *verifx.Rng) int64 { return 5040 * int64(r.Range(-3, 20)) }

// dense one-second events on a fine grid (steps 0, 1, 5, 10, 15)
func genFine(r *verifx.Rng, metric *format.MetricMetaValue) scenario {
	st := &store{metric: metric}
	genTags(r, st)
	step := []int64{1, 1, 1, 5, 5, 15, 0, 10}[r.Intn(8)]
	lod := gridOf(step)
	points := int64(r.Range(5, 12))
	base := int64(1_000_000 + 900*r.Range(0, 50))
	start := base
	if r.Chance(1, 4) {
		start += int64(r.Range(1, int(lod)))
	}
	end := start + points*lod
	from := base - 4*lod*3
	density := []int{1, 2, 3, 4}[r.Intn(4)] // out of 4
	gapLo := from + int64(r.Intn(int(end-from)))
	gapHi := gapLo + int64(r.Range(0, int(3*lod)))
	hiddenOnly := genHiddenOnly(r, st)
	for s := range st.tags {
		for sec := from; sec < end; sec++ {
			if sec >= gapLo && sec < gapHi {
				continue
			}
			if s == hiddenOnly && sec >= base {
				continue
			}
			if r.Intn(4) < density {
				st.events = append(st.events, event{series: s, sec: sec, val: genValue(r)})
			}
		}
	}
	return scenario{st: st, start: start, end: end, now: end + int64(r.Range(1, 30)), step: step, kind: "fine", hidden: hiddenOnly >= 0}
}

// at most one event per series and grid bucket; requested steps that are not LOD levels are served on a finer grid
func genCoarse(r *verifx.Rng, metric *format.MetricMetaValue) scenario {
	st := &store{metric: metric}
	genTags(r, st)
	step := []int64{30, 120, 600, 7200, 30, 120, 20, 45, 60, 300, 10, 2}[r.Intn(12)]
	g := gridOf(step)
	points := int64(r.Range(5, 10))
	base := (int64(2_000_000+r.Range(0, 500)*7200) / 7200) * 7200
	start := base
	if r.Chance(1, 4) {
		start += int64(r.Range(1, int(g)))
	}
	end := start + points*step
	density := []int{2, 3, 4}[r.Intn(3)]
	hiddenOnly := genHiddenOnly(r, st)
	for s := range st.tags {
		for b := base/g - 8; b*g < end; b++ {
			if s == hiddenOnly && b*g+g > base {
				continue
			}
			if r.Intn(4) < density {
				st.events = append(st.events, event{series: s, sec: b*g + int64(r.Intn(int(g))), val: genValue(r)})
			}
		}
	}
	return scenario{st: st, start: start, end: end, now: end + int64(r.Range(1, 30)), step: step, kind: "coarse", hidden: hiddenOnly >= 0}
}

// the query crosses the boundary (now - 52h + 2s) between the minute table and the second table: two LODs
func genMultiLOD(r *verifx.Rng, metric *format.MetricMetaValue) scenario {
	st := &store{metric: metric}
	genTags(r, st)
	step := []int64{1, 5, 15, 15, 30, 10}[r.Intn(6)]
	g := gridOf(step)
	edge := int64(3_000_000+r.Range(0, 1000)*900) / 900 * 900 // multiple of every level up to 15m
	now := edge + 52*3600 - 2
	start := edge - 60*int64(r.Range(2, 5))
	fine := int64(r.Range(3, 8))
	if g == 1 {
		fine = int64(r.Range(5, 20))
	}
	end := edge + fine*g
	if step > g {
		end = edge + int64(r.Range(2, 5))*step
	}
	density := []int{2, 3, 4}[r.Intn(3)]
	for s := range st.tags {
		for b := start/60 - 6; b*60 < edge; b++ {
			if r.Intn(4) < density {
				st.events = append(st.events, event{series: s, sec: b*60 + int64(r.Intn(60)), val: genValue(r)})
			}
		}
		for b := edge / g; b*g < end; b++ {
			if r.Intn(4) < density {
				st.events = append(st.events, event{series: s, sec: b*g + int64(r.Intn(int(g))), val: genValue(r)})
			}
		}
	}
	return scenario{st: st, start: start, end: end, now: now, step: step, kind: "multilod"}
}

func storeOp(st *store) string {
	tg := make([]string, len(st.tags))
	for i, t := range st.tags {
		tg[i] = fmt.Sprintf("%d:%d:%d", t[0], t[1], t[2])
	}
	ev := make([]string, len(st.events))
	for i, e := range st.events {
		ev[i] = fmt.Sprintf("%d:%d:%d", e.series, e.sec, e.val)
	}
	evs := "-"
	if len(ev) != 0 {
		evs = strings.Join(ev, ",")
	}
	return fmt.Sprintf("store tags=%s ev=%s", strings.Join(tg, ";"), evs)
}

func tsOp(ts tsInfo) string {
	return fmt.Sprintf("ts step=%d lod=%d startx=%d vs=%d ve=%d times=%s w=%s", ts.step, ts.lod, ts.startX, ts.vs, ts.ve,
		verifx.List(ts.times), verifx.List(ts.widths))
}

// ---------------------------------------------------------------- reduction oracle

func withBrk(chain []node) []node {
	c := append([]node(nil), chain...)
	c = append(c, node{kind: "brk"})
	if len(c) >= 2 {
		n := c[len(c)-2]
		if n.kind == "ot" || n.kind == "qot" {
			n.sub = true
			c[len(c)-2] = n
		}
	}
	return c
}

func nonParen(chain []node) []node {
	var c []node
	for _, n := range chain {
		if n.kind != "paren" {
			c = append(c, n)
		}
	}
	return c
}

// which (rule shape, what) combinations are claimed to be result preserving is described in checks/C27.py
func reduceOracle(h *verifx.H, sc scenario, e *expr, real runResult, upto int, text string) {
	chain := e.chain
	np := nonParen(chain)
	if len(np) == 0 {
		return
	}
	lod := real.ts.lod
	bottom := np[len(np)-1]
	var shape, what string
	reducedNodes := 0
	for i, seen := len(chain)-1, 0; i >= 0 && seen <= upto; i, seen = i-1, seen+1 {
		if chain[i].kind != "paren" {
			reducedNodes++
		}
	}
	rng := int64(0) // range of the pushed-down over-time function
	switch {
	case reducedNodes == 1 && bottom.kind == "agg":
		shape, what = "agg", bottom.op
	case reducedNodes == 1 && bottom.kind == "ot":
		shape, what, rng = "over-time", bottom.op, bottom.rng
	case reducedNodes == 2 && bottom.kind == "ot":
		shape, what, rng = "agg-of-over-time", bottom.op, bottom.rng
		if np[len(np)-2].op != what {
			return // mixed (sum∘count …): the rule blends the two `what`s by design, nothing exact to compare with
		}
	case reducedNodes == 2 && bottom.kind == "agg":
		shape, what, rng = "over-time-of-agg", bottom.op, np[len(np)-2].rng
		if np[len(np)-2].op != what {
			return
		}
	default:
		return
	}
	uniform := true
	for _, w := range real.ts.widths {
		if w != lod {
			uniform = false
		}
	}
	sameGrid := false // comparison run on the same time scale (needs at most one event per series and point)
	switch shape {
	case "agg":
		// per-second normalised what: equal to the PromQL operator on one-second buckets only
		if !uniform || lod != 1 || real.ts.step > 1 {
			return
		}
		sameGrid = true
	case "over-time":
		if rng < lod {
			return // a range below the grid step is an estimate (value·range/step) by design
		}
	default:
		// sum/min/max compose exactly; avg-of-avg and count-of-count are not the pooled value by definition
		if what != "sum" && what != "min" && what != "max" {
			return
		}
		if rng < lod {
			return
		}
	}
	if shape != "agg" {
		if reducedNodes != len(np) {
			return // engine-side nodes above would run on another grid in the comparison run
		}
		if real.sparse {
			sameGrid = true
		} else if !uniform || sc.end-sc.start > 1500 {
			return
		}
	} else if what == "count" && reducedNodes != len(np) {
		return
	}
	h.Stat("reduce.checked."+shape, 1)
	// the same expression with the selector wrapped in (m + 0): no rule matches, the engine operators do the work
	alt := &expr{chain: withBrk(chain)}
	altExpr := alt.render(nil)
	altStep := sc.step
	shift := int64(0)
	if !sameGrid {
		altStep = 1
		shift = lod - 1 // bucket [T, T+lod) of the pushed-down run = window ending at second T+lod-1 of the one-second run
	}
	ref := run(sc.st, altExpr, sc.start, sc.end, altStep, sc.now)
	if ref.err != nil || len(ref.caps) != 1 {
		h.Note("reduce oracle: comparison run failed: %v", ref.err)
		return
	}
	sig := fmt.Sprintf("reduce-%s-%s", shape, what)
	refIdx := map[int64]int{}
	for i, t := range ref.times {
		refIdx[t] = i
	}
	keys := map[string]bool{}
	for k := range real.series {
		keys[k] = true
	}
	for k := range ref.series {
		keys[k] = true
	}
	var ks []string
	for k := range keys {
		ks = append(ks, k)
	}
	sort.Strings(ks)
	for _, k := range ks {
		a, b := real.series[k], ref.series[k]
		for i, t := range real.times {
			if t < sc.start { // before the requested interval the two runs may fetch different amounts of history
				continue
			}
			if rng != 0 {
				// the window of `rng` ending with this point must lie in one LOD, whose step the range reaches
				x := real.ts.startX + i
				w := real.ts.widths[x]
				if rng < w {
					continue
				}
				okw := true
				for y := x; y >= 0 && real.ts.times[x]-real.ts.times[y] < rng; y-- {
					if real.ts.widths[y] != w {
						okw = false
					}
				}
				if !okw {
					continue
				}
			}
			j, ok := refIdx[t+shift]
			if !ok {
				continue
			}
			x, y := math.NaN(), math.NaN()
			if a != nil {
				x = a[i]
			}
			if b != nil {
				y = b[j]
			}
			if what == "count" {
				// count(_over_time) yields 0 where the engine sees no point; the storage has no row there
				if math.IsNaN(x) {
					x = 0
				}
				if math.IsNaN(y) {
					y = 0
				}
			}
			if fmtFloat(x) != fmtFloat(y) {
				h.Viol(sig, "expr=%q step=%d start=%d end=%d now=%d grid=%v series=%s t=%d pushed-down=%s engine-evaluated=%s (%q step=%d at t=%d) storage-query=[%s]",
					text, sc.step, sc.start, sc.end, sc.now, real.ts.widths, k, t, fmtFloat(x), fmtFloat(y), altExpr, altStep, t+shift, real.queries())
				return
			}
		}
	}
}

// ---------------------------------------------------------------- cases

func evalCase(h *verifx.H, r *verifx.Rng, metric *format.MetricMetaValue) {
	var sc scenario
	switch r.Pick(5, 3, 2) {
	case 0:
		sc = genFine(r, metric)
	case 1:
		sc = genCoarse(r, metric)
	default:
		sc = genMultiLOD(r, metric)
	}
	h.Op("%s", storeOp(sc.st))
	lod := gridOf(sc.step)
	h.Stat("scenario."+sc.kind, 1)
	if sc.hidden {
		h.Stat("scenario.hidden-only-series", 1)
	}
	h.Stat(fmt.Sprintf("step.%d", sc.step), 1)
	nexpr := r.Range(1, 3)
	for x := 0; x < nexpr; x++ {
		var e *expr
		var text string
		var leaves []leaf
		var real runResult
		var ref []rser
		var rs *refState
		okCase := false
		for try := 0; try < 30; try++ {
			e = genExpr(r, lod)
			leaves = nil
			text = e.render(&leaves)
			real = run(sc.st, text, sc.start, sc.end, sc.step, sc.now)
			if len(real.ts.times) == 0 {
				h.Stat("skip.no-timescale", 1)
				h.Note("no time scale for %q: %v", text, real.err)
				continue
			}
			if real.err != nil {
				if !strings.Contains(real.err.Error(), "label set match multiple series") {
					h.Stat("skip.error", 1)
					h.Note("engine error for %q: %v", text, real.err)
					continue
				}
				if try < 10 && r.Chance(4, 5) {
					continue // keep only some of the many-to-one errors
				}
				okCase = true
				break
			}
			ref, rs = refSeries(e, leaves, real)
			if rs.broken {
				h.Stat("skip.captures-misaligned", 1)
				continue
			}
			if rs.fl.inexact {
				h.Stat("skip.inexact", 1)
				continue
			}
			if rs.fl.tie {
				h.Stat("skip.tie", 1)
				continue
			}
			okCase = true
			break
		}
		if !okCase {
			h.Stat("skip.gave-up", 1)
			continue
		}
		h.Op("%s", tsOp(real.ts))
		h.Op("eval %s", e.tokens())
		if real.err != nil {
			h.Obs("err")
			h.Stat("result.match-error", 1)
			h.Note("expr %s | %v", text, real.err)
			continue
		}
		h.Obs("n=%d", len(real.lines))
		for _, l := range real.lines {
			h.Obs("%s", l)
		}
		h.Note("expr %s | storage %s", text, real.queries())
		// statistics and the non-trivial rule
		e.walk(func(x *expr) {
			for _, n := range x.chain {
				seen := map[int]bool{}
				for _, l := range n.labels {
					if seen[labelIdx(l)] {
						h.Stat("labels.same-tag-twice", 1)
						break
					}
					seen[labelIdx(l)] = true
				}
				switch n.kind {
				case "agg", "ot":
					h.Stat("node."+n.kind+"."+n.op, 1)
				default:
					h.Stat("node."+n.kind, 1)
				}
			}
			if x.base != nil {
				h.Stat("node.bin."+x.base.op+"."+x.base.match, 1)
			}
		})
		if len(real.ts.widths) > 0 && real.ts.widths[0] != real.ts.lod {
			h.Stat("grid.multi-lod", 1)
		}
		if real.ts.step > real.ts.lod {
			h.Stat("grid.finer-than-step", 1)
		}
		if rs != nil && rs.anyRed {
			h.Stat("reduced", 1)
			h.NonTrivial("reduced")
		}
		if e.base != nil && len(real.lines) > 0 {
			h.Stat("binary-nonempty", 1)
			h.NonTrivial("binary")
		}
		missing := false
		for _, l := range real.lines {
			if strings.Contains(l, " _") {
				missing = true
			}
		}
		if missing && (len(e.chain) > 0 || e.base != nil) {
			h.Stat("with-missing-points", 1)
			h.NonTrivial("missing")
		}
		// oracle 1: operators above the storage queries compute their definitions
		if rs != nil && rs.err {
			h.Viol("def-binary-match", "expr=%q step=%d start=%d end=%d now=%d engine returned a result, the definition finds a label set matching several series storage-query=[%s]",
				text, sc.step, sc.start, sc.end, sc.now, real.queries())
		} else if len(real.caps) != 0 {
			if d := firstDiff(real.lines, refLines(ref)); d != "" {
				sig := blame(sc, e, func(sub *expr) bool {
					var lv []leaf
					t := sub.render(&lv)
					rr := run(sc.st, t, sc.start, sc.end, sc.step, sc.now)
					if rr.err != nil || len(rr.caps) == 0 {
						return false
					}
					rf, st := refSeries(sub, lv, rr)
					return !st.broken && !st.err && firstDiff(rr.lines, refLines(rf)) != ""
				})
				h.Viol(sig, "expr=%q step=%d start=%d end=%d now=%d %s storage-query=[%s]", text, sc.step, sc.start, sc.end, sc.now, d, real.queries())
			}
		}
		// oracle 2: a pushed-down expression equals its engine-side evaluation
		if e.base == nil && e.what == "" && rs != nil && rs.anyRed {
			reduceOracle(h, sc, e, real, reducedUpto(real.replaced, leaves[0].pre), text)
		}
	}
}

// numeric stream: values outside float64's exact domain.  Nothing is sent to the model; the engine's result must be within
// a relative tolerance of the exact (big.Rat) definition.
var worstNumeric float64

func numericCase(h *verifx.H, r *verifx.Rng, metric *format.MetricMetaValue) {
	st := &store{metric: metric}
	genTags(r, st)
	for len(st.tags) < 3 {
		st.tags = nil
		genTags(r, st)
	}
	step := []int64{1, 5, 15}[r.Intn(3)]
	points := int64(r.Range(4, 8))
	start := int64(1_000_000 + 900*r.Range(0, 50))
	end := start + points*step
	// magnitude / spread <= 1e9: the two-pass variance keeps ~1e-14 relative accuracy there, a one-pass E[x²]-E[x]² none
	mags := []int64{1_000_000, 1_000_000_000, 30_000_000_000, 1_000_000_000_000}
	mag := mags[r.Intn(len(mags))]
	spread := []int64{1, 3, 10, 1000, 100_000}[r.Intn(5)]
	for mag/spread > 1_000_000_000 {
		spread *= 10
	}
	mixed := r.Chance(1, 4)
	maxAbs := float64(mag + spread)
	for s := range st.tags {
		base := mag
		if mixed && s%2 == 1 {
			base = int64(r.Range(1, 1000))
		}
		for sec := start - 3*step*3; sec < end; sec++ {
			if r.Chance(3, 4) {
				st.events = append(st.events, event{series: s, sec: sec, val: base + int64(r.Range(-int(spread), int(spread)))})
			}
		}
	}
	sc := scenario{st: st, start: start, end: end, now: end + 5, step: step, kind: "numeric"}
	aggN := []string{"stdvar", "stddev", "avg", "sum", "stdvar", "stddev"}
	otN := []string{"stdvar", "stddev", "avg", "sum"}
	var up []node
	up = append(up, node{kind: "brk"})
	depth := r.Range(1, 2)
	varUsed := false // one variance-like operator per expression: the tolerance is derived for degree <= 2 quantities
	pick := func(ops []string) string {
		for {
			op := ops[r.Intn(len(ops))]
			if op == "stdvar" || op == "stddev" {
				if varUsed {
					continue
				}
				varUsed = true
			}
			return op
		}
	}
	for i := 0; i < depth; i++ {
		if r.Chance(3, 5) {
			if r.Chance(1, 6) {
				qn, qd := genQ(r)
				up = append(up, node{kind: "q", qn: qn, qd: qd, without: r.Chance(1, 3), labels: genLabels(r)})
			} else {
				up = append(up, node{kind: "agg", op: pick(aggN), without: r.Chance(1, 3), labels: genLabels(r)})
			}
		} else {
			up = append(up, node{kind: "ot", op: pick(otN), rng: step * int64(r.Range(2, 4)), sub: true})
		}
	}
	e := &expr{}
	for i := len(up) - 1; i >= 0; i-- {
		e.chain = append(e.chain, up[i])
	}
	degree2 := false // variance-like quantities scale with the square of the inputs
	for _, n := range e.chain {
		if n.op == "stdvar" && (n.kind == "agg" || n.kind == "ot") {
			degree2 = true
		}
	}
	tol := tolerance{rel: 1e-6, floor: 1e-9 * maxAbs}
	if degree2 {
		tol.floor = 1e-18 * maxAbs * maxAbs
		if tol.floor < 1e-9 {
			tol.floor = 1e-9
		}
	}
	var leaves []leaf
	text := e.render(&leaves)
	real := run(st, text, sc.start, sc.end, sc.step, sc.now)
	h.Stat("numeric.cases", 1)
	if real.err != nil {
		h.Stat("numeric.error", 1)
		h.Note("numeric: engine error for %q: %v", text, real.err)
		return
	}
	ref, rs := refSeries(e, leaves, real)
	if rs.broken || rs.err {
		h.Stat("numeric.skipped", 1)
		return
	}
	cmp := func(sub *expr) (string, float64) {
		var lv []leaf
		t := sub.render(&lv)
		rr := run(st, t, sc.start, sc.end, sc.step, sc.now)
		if rr.err != nil {
			return "", 0
		}
		rf, s2 := refSeries(sub, lv, rr)
		if s2.broken || s2.err {
			return "", 0
		}
		return numericDiff(rr, rf, tol)
	}
	d, worst := numericDiff(real, ref, tol)
	if worst > worstNumeric && !math.IsInf(worst, 0) {
		worstNumeric = worst
	}
	h.NonTrivial("numeric")
	if d != "" {
		sig := blame(sc, e, func(sub *expr) bool { x, _ := cmp(sub); return x != "" })
		h.Viol(sig+"-numeric", "expr=%q step=%d start=%d end=%d now=%d magnitude=%d spread=%d mixed=%v %s", text, sc.step, sc.start, sc.end, sc.now, mag, spread, mixed, d)
	}
}

func winCase(h *verifx.H, r *verifx.Rng) {
	n := r.Range(0, 14)
	t := make([]int64, n)
	v := make([]float64, n)
	vs := make([]string, n)
	step := []int64{1, 5, 15, 60}[r.Intn(4)]
	cur := int64(1000 * r.Range(1, 50))
	for i := 0; i < n; i++ {
		t[i] = cur
		// coarser steps first, finer later (LODs only shrink towards the present)
		s := step
		if i < n/3 && r.Chance(1, 2) {
			s = step * 4
		}
		cur += s
		if r.Chance(1, 3) {
			v[i] = math.NaN()
			vs[i] = "_"
		} else {
			v[i] = 1
			vs[i] = "1"
		}
	}
	w := int64(r.Range(0, int(4*step)))
	if r.Chance(1, 3) {
		w = step * int64(r.Range(1, 4))
	}
	strict := r.Bool()
	sb := 0
	if strict {
		sb = 1
	}
	h.Op("win w=%d step=%d strict=%d t=%s v=%s", w, step, sb, verifx.List(t), verifx.List(vs))
	moves := 0
	func() {
		defer func() {
			if p := recover(); p != nil {
				h.Obs("panic")
			}
		}()
		promql.VerifC27Window(t, v, w, step, strict, func(l, rr, cnt int) {
			h.Obs("l=%d r=%d n=%d", l, rr, cnt)
			moves++
			// direct oracle: n is the number of present points of [l, r]
			c := 0
			for i := l; i <= rr; i++ {
				if !math.IsNaN(v[i]) {
					c++
				}
			}
			if !strict && c != cnt {
				h.Viol("window-count", "w=%d step=%d strict=%v t=%v v=%v l=%d r=%d n=%d present=%d", w, step, strict, t, vs, l, rr, cnt, c)
			}
		})
	}()
	h.Obs("end")
	h.Stat("win.cases", 1)
	if moves > 2 {
		h.NonTrivial("window")
	}
}

func main() {
	h := verifx.New()
	if h.Mode == "probe" {
		probe(h.Arg)
		return
	}
	metric := &format.MetricMetaValue{MetricID: 1, Name: "m", Kind: format.MetricKindValue,
		Tags: []format.MetricMetaTag{{}, {Name: "a"}, {Name: "b"}, {Name: "c"}}}
	_ = metric.RestoreCachedInfo()
	h.Cases(func(i int, r *verifx.Rng) {
		switch {
		case i%8 == 7:
			winCase(h, r)
		case i%8 == 5:
			extCase(h, r, metric)
		case i%4 == 2:
			numericCase(h, r, metric)
		default:
			evalCase(h, r, metric)
		}
	})
	if h.Mode == "numeric-worst" {
		h.Note("worst numeric error / allowed = %.3g", worstNumeric)
	}
	h.Done()
}

// -mode=probe -arg='<promql>': one fixed storage, prints the storage queries and the result (debugging aid)
func probe(text string) {
	metric := &format.MetricMetaValue{MetricID: 1, Name: "m", Kind: format.MetricKindValue,
		Tags: []format.MetricMetaTag{{}, {Name: "a"}, {Name: "b"}, {Name: "c"}}}
	_ = metric.RestoreCachedInfo()
	st := &store{metric: metric, tags: [][3]int64{{1, 1, 1}, {1, 2, 1}, {2, 1, 1}},
		events: []event{{0, 100, 2}, {0, 101, 4}, {1, 100, 10}, {1, 101, 30}, {2, 100, 7}, {2, 101, 9}}}
	r := run(st, text, 100, 102, 1, 110)
	fmt.Println("err:", r.err, "queries:", r.queries())
	for _, l := range r.lines {
		fmt.Println(" ", l)
	}
}
