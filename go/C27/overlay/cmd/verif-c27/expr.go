//go:build verif

package main

import (
	"fmt"
	"math/big"
	"strings"
)

// ---------------------------------------------------------------- expressions

type node struct {
	kind    string // agg q topk botk ot qot paren brk
	op      string
	qn, qd  int64
	k       int
	without bool
	labels  []int
	rng     int64
	sub     bool
}

var labelName = []string{"z", "a", "b", "c"}

func (n node) labelsTok() string {
	if len(n.labels) == 0 {
		return "-"
	}
	ss := make([]string, len(n.labels))
	for i, l := range n.labels {
		ss[i] = fmt.Sprint(labelIdx(l))
	}
	return strings.Join(ss, ".")
}

// a grouping label: 0..3 = the tag's custom name (0: a name no tag has), 10+i = its legacy alias key<i>, 20+i = its
// canonical id <i>; the model sees the resolved tag index only
func labelIdx(l int) int { return l % 10 }

func labelText(l int) string {
	switch l / 10 {
	case 1:
		return fmt.Sprintf("key%d", l%10)
	case 2:
		return fmt.Sprint(l % 10)
	}
	return labelName[l]
}

func (n node) woTok() string {
	if n.without {
		return "wo"
	}
	return "by"
}

func subTok(b bool) string {
	if b {
		return "s"
	}
	return "m"
}

func (n node) token() string {
	switch n.kind {
	case "agg":
		return fmt.Sprintf("agg:%s:%s:%s", n.op, n.woTok(), n.labelsTok())
	case "q":
		return fmt.Sprintf("q:%s:%s:%s", big.NewRat(n.qn, n.qd).RatString(), n.woTok(), n.labelsTok())
	case "topk", "botk":
		return fmt.Sprintf("%s:%d:%s:%s", n.kind, n.k, n.woTok(), n.labelsTok())
	case "ot":
		return fmt.Sprintf("ot:%s:%d:%s", n.op, n.rng, subTok(n.sub))
	case "qot":
		return fmt.Sprintf("qot:%s:%d:%s", big.NewRat(n.qn, n.qd).RatString(), n.rng, subTok(n.sub))
	}
	return n.kind
}

func (n node) grouping() string {
	names := make([]string, len(n.labels))
	for i, l := range n.labels {
		names[i] = labelText(l)
	}
	kw := "by"
	if n.without {
		kw = "without"
	}
	return fmt.Sprintf("%s (%s)", kw, strings.Join(names, ","))
}

func qstr(n node) string {
	return fmt.Sprint(float64(n.qn) / float64(n.qd)) // dyadic: prints exactly
}

func (n node) wrap(inner string, innerIsSelector bool) string {
	rangeOf := func() string {
		if n.sub {
			return fmt.Sprintf("(%s)[%ds:]", inner, n.rng)
		}
		return fmt.Sprintf("%s[%ds]", inner, n.rng)
	}
	switch n.kind {
	case "agg":
		return fmt.Sprintf("%s %s (%s)", n.op, n.grouping(), inner)
	case "q":
		return fmt.Sprintf("quantile %s (%s, %s)", n.grouping(), qstr(n), inner)
	case "topk":
		return fmt.Sprintf("topk %s (%d, %s)", n.grouping(), n.k, inner)
	case "botk":
		return fmt.Sprintf("bottomk %s (%d, %s)", n.grouping(), n.k, inner)
	case "ot":
		return fmt.Sprintf("%s_over_time(%s)", n.op, rangeOf())
	case "qot":
		return fmt.Sprintf("quantile_over_time(%s, %s)", qstr(n), rangeOf())
	case "paren":
		return "(" + inner + ")"
	case "brk":
		return "(" + inner + " + 0)"
	}
	panic("kind")
}

func selString(what string) string {
	if what == "" {
		return "m"
	}
	return fmt.Sprintf("m{__what__=%q}", what)
}

// chain is root first; returns the PromQL text of every prefix (bottom-up): pre[i] = text of nodes bottom..i
// ---- expression trees: a chain of unary nodes (root first) over a selector or over a vector-vector binary operation

type binop struct {
	op     string // add sub mul div eq gt lt ge le
	match  string // dflt on ign
	labels []int
	l, r   *expr
}

type expr struct {
	chain []node
	what  string // selector's explicit __what__ (base == nil)
	base  *binop
}

var opText = map[string]string{"add": "+", "sub": "-", "mul": "*", "div": "/", "eq": "==", "gt": ">", "lt": "<", "ge": ">=", "le": "<="}

func (b *binop) matching() string {
	names := make([]string, len(b.labels))
	for i, l := range b.labels {
		names[i] = labelText(l)
	}
	switch b.match {
	case "on":
		return fmt.Sprintf(" on (%s)", strings.Join(names, ","))
	case "ign":
		return fmt.Sprintf(" ignoring (%s)", strings.Join(names, ","))
	}
	return ""
}

func (b *binop) token() string {
	ls := "-"
	if len(b.labels) != 0 {
		ss := make([]string, len(b.labels))
		for i, l := range b.labels {
			ss[i] = fmt.Sprint(labelIdx(l))
		}
		ls = strings.Join(ss, ".")
	}
	return fmt.Sprintf("bin:%s:%s:%s", b.op, b.match, ls)
}

// leaf = one selector with the unary chain above it (up to the nearest binary operator or the root)
type leaf struct {
	e   *expr
	pre []string // PromQL text of every prefix of the chain, bottom-up
}

// PromQL text; leaves are collected in evaluation order (left operand first)
func (e *expr) render(leaves *[]leaf) string {
	var cur string
	if e.base == nil {
		cur = selString(e.what)
	} else {
		l := e.base.l.render(leaves)
		r := e.base.r.render(leaves)
		cur = fmt.Sprintf("(%s) %s%s (%s)", l, opText[e.base.op], e.base.matching(), r)
	}
	var pre []string
	for i := len(e.chain) - 1; i >= 0; i-- {
		cur = e.chain[i].wrap(cur, i == len(e.chain)-1)
		pre = append(pre, cur)
	}
	if e.base == nil && leaves != nil {
		*leaves = append(*leaves, leaf{e: e, pre: pre})
	}
	return cur
}

func (e *expr) tokens() string {
	var toks []string
	for _, n := range e.chain {
		toks = append(toks, n.token())
	}
	if e.base == nil {
		w := e.what
		if w == "" {
			w = "-"
		}
		toks = append(toks, "sel:"+w)
	} else {
		toks = append(toks, e.base.token(), e.base.l.tokens(), e.base.r.tokens())
	}
	return strings.Join(toks, " ")
}

func (e *expr) walk(f func(*expr)) {
	f(e)
	if e.base != nil {
		e.base.l.walk(f)
		e.base.r.walk(f)
	}
}
