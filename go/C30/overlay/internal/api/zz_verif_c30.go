//go:build verif

package api

import (
	"sort"

	"github.com/VKCOM/statshouse/internal/format"
	"github.com/VKCOM/statshouse/internal/vkgo/vkuth"
)

// Thin accessors for the C30 verification harness (/verif). No logic: every decision is taken by the real
// parseAccessToken / CanViewMetricName / canChangeMetricByName / CanEditMetric.

type VerifC30AI struct{ ai accessInfo }

// VerifC30Snapshot is a copy of the unexported accessInfo fields (map keys sorted).
type VerifC30Snapshot struct {
	User                                       string
	Service                                    bool
	Protected                                  []string
	Admin, Developer, ViewDefault, EditDefault bool
	ViewPrefix, EditPrefix, ViewMetric, EditMetric []string
}

func verifC30Keys(m map[string]bool) []string {
	var ks []string
	for k, v := range m {
		if v {
			ks = append(ks, k)
		}
	}
	sort.Strings(ks)
	return ks
}

func VerifC30Parse(h *vkuth.JWTHelper, token string, protectedPrefixes []string, localMode, insecureMode bool) (*VerifC30AI, error) {
	ai, err := parseAccessToken(h, token, protectedPrefixes, localMode, insecureMode)
	if err != nil {
		return nil, err
	}
	return &VerifC30AI{ai: ai}, nil
}

func (a *VerifC30AI) Snapshot() VerifC30Snapshot {
	return VerifC30Snapshot{
		User: a.ai.user, Service: a.ai.service, Protected: append([]string(nil), a.ai.protectedPrefixes...),
		Admin: a.ai.bitAdmin, Developer: a.ai.bitDeveloper, ViewDefault: a.ai.bitViewDefault, EditDefault: a.ai.bitEditDefault,
		ViewPrefix: verifC30Keys(a.ai.bitViewPrefix), EditPrefix: verifC30Keys(a.ai.bitEditPrefix),
		ViewMetric: verifC30Keys(a.ai.bitViewMetric), EditMetric: verifC30Keys(a.ai.bitEditMetric),
	}
}

func (a *VerifC30AI) ViewName(name string) bool { return a.ai.CanViewMetricName(name) }
func (a *VerifC30AI) View(m format.MetricMetaValue) bool { return a.ai.CanViewMetric(m) }
func (a *VerifC30AI) Change(create bool, old, new_ format.MetricMetaValue) bool {
	return a.ai.canChangeMetricByName(create, old, new_)
}
func (a *VerifC30AI) Edit(create bool, old, new_ format.MetricMetaValue) error {
	return a.ai.CanEditMetric(create, old, new_)
}
