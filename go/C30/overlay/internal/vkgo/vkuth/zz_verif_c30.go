//go:build verif

package vkuth

// Thin accessors for the C30 verification harness (/verif). No logic.

// VerifC30KeyIDHeader returns the unexported header name the key id is read from.
func VerifC30KeyIDHeader() string { return keyIDHeader }

// VerifC30StripFullBit calls the real stripFullBit.
func VerifC30StripFullBit(fullBit, appName string) string { return stripFullBit(fullBit, appName) }
