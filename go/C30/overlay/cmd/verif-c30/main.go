//go:build verif

// verif-c30: correspondence + direct oracle for access control (property C30).
//
// Every case configures a real vkuth.JWTHelper (keys through the production ParseVkuthKeys path, clock injected
// with SetNow) and parses a SEQUENCE of 1-5 tokens with it, in this one process. Each token is minted with a fresh
// Ed25519 key from a *spec* (valid, or differing from a valid token in one or two aspects, or malformed; the claims
// JSON in several shapes: bits / user / is_service / vkuth_data / registered claims present, absent or null). The
// first token of a sequence is usually privileged, later ones often carry no bits key, null, [], fewer bits or the
// previous bits under another application's prefix. Every token goes through the REAL api.parseAccessToken, and the
// resulting accessInfo through the REAL CanViewMetricName / canChangeMetricByName / CanEditMetric on generated names
// and MetricMetaValue pairs. The model decides every token ALONE (it has no memory), so any leak from an earlier
// token into a later one is a disagreement; the oracle grant-depends-on-previous-token re-parses every accepted
// token on a fresh helper after a neutral token and demands the same grants.
//
//	> cfg <app> <listed keys, fingerprint:key in configuration order> <entries put into the map directly> <protected prefixes> <local 0|1> <insecure 0|1>
//	< keys <id:key,… sorted>      the map the REAL vkuth.ParseVkuthKeys built from the listed keys (+ the direct entries)
//	> tok <now ms> empty | malformed | t <alg> <kind> <kid> <sigValid keys> <iss> <user> <exp> <iat> <nbf> <svc> <bits>
//	< ok user=.. svc=. admin=. dev=. vd=. ed=. vp=.. ep=.. vm=.. em=..  |  < err <jwt error mask>  |  < panic
//	> view <name>                                  < view 0|1
//	> chg <create> <old name> <new name>           < chg 0|1
//	> edit <create> <old meta> <new meta>          < edit ok|forbidden|weight|presort|presortonly|skips|strategy|shard|raw
//
// Strings are "x"+hex, lists comma separated ("-" = empty), header values A (absent) / O (present, not a string) /
// S<hex>. The signature is NOT decided by the model: `sigValid` is the list of public keys (bytes; the harness's OWN
// key pairs, configured or not — never the map returned by the code under test) under which the
// token's signature verifies, computed here with crypto/ed25519 directly, independently of golang-jwt.
//
//	-mode=gen   prints lean/SH/Gen/C30.lean (constants as compiled)
package main

import (
	"crypto/ed25519"
	"crypto/hmac"
	"crypto/sha256"
	"encoding/base64"
	"encoding/hex"
	"encoding/json"
	"errors"
	"fmt"
	"sort"
	"strings"
	"time"

	"github.com/golang-jwt/jwt/v4"

	"github.com/VKCOM/statshouse/internal/api"
	"github.com/VKCOM/statshouse/internal/format"
	"github.com/VKCOM/statshouse/internal/verifx"
	"github.com/VKCOM/statshouse/internal/vkgo/vkuth"
)

var h *verifx.H

// ------------------------------------------------------------------------------------------------ encoding

func xs(s string) string { return "x" + hex.EncodeToString([]byte(s)) }

func xl(ss []string) string {
	if len(ss) == 0 {
		return "-"
	}
	o := make([]string, len(ss))
	for i, s := range ss {
		o[i] = xs(s)
	}
	return strings.Join(o, ",")
}

func sortedSet(ss []string) []string {
	m := map[string]bool{}
	for _, s := range ss {
		m[s] = true
	}
	var o []string
	for s := range m {
		o = append(o, s)
	}
	sort.Strings(o)
	return o
}

func b2i(b bool) int {
	if b {
		return 1
	}
	return 0
}

type hv struct {
	k int // 0 absent, 1 present but not a string, 2 string
	s string
}

func (v hv) tok() string {
	switch v.k {
	case 0:
		return "A"
	case 1:
		return "O"
	}
	return "S" + hex.EncodeToString([]byte(v.s))
}

func str(s string) hv { return hv{2, s} }

func optMs(p *int64) string {
	if p == nil {
		return "-"
	}
	return fmt.Sprint(*p)
}

func jsonStr(s string) string {
	b, _ := json.Marshal(s)
	return string(b)
}

// seconds with up to three decimals, exact in float64 for the quarter-second values generated here
func jsonMs(ms int64) string {
	if ms%1000 == 0 {
		return fmt.Sprint(ms / 1000)
	}
	sign, a := "", ms
	if a < 0 {
		sign, a = "-", -a
	}
	return fmt.Sprintf("%s%d.%03d", sign, a/1000, a%1000)
}

// floorSecMs: ms rounded DOWN to a whole second (what golang-jwt's NumericDate keeps), also for negative values
func floorSecMs(ms int64) int64 {
	q := ms / 1000
	if ms%1000 < 0 {
		q--
	}
	return q * 1000
}

// extremeMs: boundary-aware absolute times (ms), all exactly representable as JSON numbers in float64 (|seconds| <= 2^53):
// the epoch, before the epoch, year 1900 / 9999, now -/+ 2^63 ns and 2^64 ns (int64 nanosecond Durations wrap there),
// the band in between, -/+ 2^63 ns as absolute times, -/+ 2^53 s.
func extremeMs(r *verifx.Rng, now int64) int64 {
	nowSec := now / 1000
	small := int64(r.Intn(7)) - 3
	var sec int64
	switch r.Intn(15) {
	case 0:
		sec = small
	case 1:
		sec = -1 - int64(r.Intn(100000))
	case 2:
		sec = -2208988800 + small // 1900-01-01
	case 3:
		sec = 253402300799 + small // 9999-12-31
	case 4:
		sec = nowSec - 9223372036 + small // now - 2^63 ns
	case 5:
		sec = nowSec - 18446744073 + small // now - 2^64 ns
	case 6:
		sec = nowSec + 9223372036 + small
	case 7:
		sec = nowSec + 18446744073 + small
	case 8:
		sec = -9223372036 + small
	case 9:
		sec = 9223372036 + small
	case 10:
		sec = nowSec - 9223372037 - int64(r.Intn(9223372035)) // expired between 2^63 and 2^64 ns ago
	case 11:
		sec = -(1 << 53) + int64(r.Intn(1000))
	case 12:
		sec = (1 << 53) - int64(r.Intn(1000))
	case 13:
		sec = nowSec - 5 + small // the tolerance edge
	case 14:
		sec = nowSec - 27670116110 - int64(r.Intn(1000000)) // more than 1.5 * 2^64 ns ago
	}
	ms := sec * 1000
	if r.Chance(1, 5) && sec > -(1<<53) && sec < (1<<53)-1 {
		ms += int64(r.Intn(4)) * 250
	}
	return ms
}

// hugeExp: JSON numbers beyond 2^53 s. float64 rounding and Go's float->int64 conversion are not modelled: the
// value the model is given is the one golang-jwt's own NumericDate decoding yields (seconds, printed as ms).
var hugeExp = []struct {
	lit     string
	farPast bool // the number as written is before now - 5 s
}{
	{"4000000000000000000", false}, {"-4000000000000000000", true}, {"9223372036854775807", false}, {"9223372036854775808", false},
	{"-9223372036854775808", true}, {"1e19", false}, {"-1e19", true}, {"1e300", false}, {"-1e300", true}, {"-9.3e18", true},
}

func parsedSecAsMs(lit string) string {
	var d jwt.NumericDate
	if err := json.Unmarshal([]byte(lit), &d); err != nil {
		panic(err)
	}
	if d.Unix() == 0 {
		return "0"
	}
	return fmt.Sprintf("%d000", d.Unix())
}

// ------------------------------------------------------------------------------------------------ token spec

type keyPair struct {
	id   string
	pub  ed25519.PublicKey
	priv ed25519.PrivateKey
}

type spec struct {
	alg, kind, kid hv
	otherLit       string // JSON literal used for "present but not a string"
	signer         int    // index into keys used to sign
	sigMode        int    // 0 proper, 1 bit flipped, 2 truncated, 3 not base64, 4 claims replaced after signing, 5 empty, 6 HMAC-SHA256 with the public key as secret
	iss, user      *string
	exp, iat, nbf  *int64 // ms since epoch
	service        bool
	bits           []string
	expRaw         string // if set: the JSON literal written for exp (a number beyond 2^53 s) instead of *exp
	expRawFarPast  bool
	malformed      int // 0 = well formed
	aspects        []string
	// JSON shape of the claims (all of these decode to the same model token: absent = null = zero value)
	bitsShape  int  // 0 "bits":[…], 1 no bits key, 2 "bits":null            (bits must be empty for 1 and 2)
	dataShape  int  // 0 "vkuth_data":{…}, 1 no vkuth_data key, 2 "vkuth_data":null   (user/bits/service empty for 1 and 2)
	nullAbsent bool // absent iss / exp / iat / nbf / user are written as JSON null instead of being omitted
	svcShape   int  // is_service=false written as: 0 omitted, 1 false, 2 null
}

func (s *spec) headerJSON() string {
	var f []string
	add := func(name string, v hv) {
		switch v.k {
		case 1:
			f = append(f, jsonStr(name)+":"+s.otherLit)
		case 2:
			f = append(f, jsonStr(name)+":"+jsonStr(v.s))
		}
	}
	add("alg", s.alg)
	add(vkuth.VerifC30KeyIDHeader(), s.kid)
	add(vkuth.KindHeaderName, s.kind)
	f = append(f, `"typ":"JWT"`)
	return "{" + strings.Join(f, ",") + "}"
}

func (s *spec) claimsJSON(user *string) string {
	var f []string
	null := func(dst *[]string, key string) {
		if s.nullAbsent {
			*dst = append(*dst, jsonStr(key)+":null")
		}
	}
	if s.iss != nil {
		f = append(f, `"iss":`+jsonStr(*s.iss))
	} else {
		null(&f, "iss")
	}
	if s.exp != nil {
		if s.expRaw != "" {
			f = append(f, `"exp":`+s.expRaw)
		} else {
			f = append(f, `"exp":`+jsonMs(*s.exp))
		}
	} else {
		null(&f, "exp")
	}
	if s.iat != nil {
		f = append(f, `"iat":`+jsonMs(*s.iat))
	} else {
		null(&f, "iat")
	}
	if s.nbf != nil {
		f = append(f, `"nbf":`+jsonMs(*s.nbf))
	} else {
		null(&f, "nbf")
	}
	var d []string
	switch s.bitsShape {
	case 0:
		bs := make([]string, len(s.bits))
		for i, b := range s.bits {
			bs[i] = jsonStr(b)
		}
		d = append(d, `"bits":[`+strings.Join(bs, ",")+`]`)
	case 2:
		d = append(d, `"bits":null`)
	}
	if user != nil {
		d = append(d, `"user":`+jsonStr(*user))
	} else {
		null(&d, "user")
	}
	switch {
	case s.service:
		d = append(d, `"is_service":true`)
	case s.svcShape == 1:
		d = append(d, `"is_service":false`)
	case s.svcShape == 2:
		d = append(d, `"is_service":null`)
	}
	switch s.dataShape {
	case 0:
		f = append(f, `"vkuth_data":{`+strings.Join(d, ",")+`}`)
	case 2:
		f = append(f, `"vkuth_data":null`)
	}
	return "{" + strings.Join(f, ",") + "}"
}

var b64 = base64.RawURLEncoding

func (s *spec) mint(keys []keyPair) string {
	hd, cl := b64.EncodeToString([]byte(s.headerJSON())), b64.EncodeToString([]byte(s.claimsJSON(s.user)))
	switch s.malformed {
	case 1:
		return hd + "." + cl
	case 2:
		return hd + "." + cl + ".AAAA.BBBB"
	case 3:
		hd = "!!" + hd
	case 4:
		hd = b64.EncodeToString([]byte(`{"alg":"EdDSA",`))
	case 5:
		hd = b64.EncodeToString([]byte(`["EdDSA"]`))
	case 6:
		cl = cl + "*"
	case 7:
		cl = b64.EncodeToString([]byte(`{"iss":"vkuth"`))
	case 8:
		cl = b64.EncodeToString([]byte(`{"iss":"vkuth","exp":"soon","iat":1,"vkuth_data":{"bits":[],"user":"u"}}`))
	case 9:
		cl = b64.EncodeToString([]byte(`{"iss":"vkuth","exp":2000000000,"iat":1,"vkuth_data":{"bits":"statshouse:admin","user":"u"}}`))
	case 10:
		cl = b64.EncodeToString([]byte(`{"iss":7,"exp":2000000000,"iat":1,"vkuth_data":{"bits":[],"user":"u"}}`))
	case 11:
		return "garbage"
	}
	signing := hd + "." + cl
	k := keys[s.signer]
	sig := ed25519.Sign(k.priv, []byte(signing))
	enc := b64.EncodeToString(sig)
	sigMode := s.sigMode
	if s.malformed != 0 {
		sigMode = 0 // a malformed token stays malformed (mode 4 would replace a broken claims segment by a sound one)
	}
	switch sigMode {
	case 1:
		sig[len(sig)/2] ^= 0x10
		enc = b64.EncodeToString(sig)
	case 2:
		enc = b64.EncodeToString(sig[:40])
	case 3:
		enc = enc[:10] + "=" + enc[11:]
	case 4:
		other := *s.userOr("u") + "2"
		s2 := *s
		s2.dataShape = 0 // the replaced claims must differ from the signed ones
		cl = b64.EncodeToString([]byte(s2.claimsJSON(&other)))
	case 5:
		enc = ""
	case 6:
		m := hmac.New(sha256.New, k.pub)
		m.Write([]byte(signing))
		enc = b64.EncodeToString(m.Sum(nil))
	}
	return hd + "." + cl + "." + enc
}

func (s *spec) userOr(d string) *string {
	if s.user != nil {
		return s.user
	}
	return &d
}

// fingerprint: the key id vkuth gives a public key (hex of the first 8 bytes of its SHA-256), computed here independently.
func fingerprint(pub []byte) string {
	d := sha256.Sum256(pub)
	return hex.EncodeToString(d[:8])
}

// sigValidFor: the candidate public keys (the harness's own) under which the third segment is a valid Ed25519
// signature of the first two.
func sigValidFor(token string, cands [][]byte) []string {
	parts := strings.Split(token, ".")
	if len(parts) != 3 {
		return nil
	}
	sig, err := b64.DecodeString(parts[2])
	if err != nil {
		return nil
	}
	var ok []string
	for _, k := range cands {
		if len(k) == ed25519.PublicKeySize && ed25519.Verify(ed25519.PublicKey(k), []byte(parts[0]+"."+parts[1]), sig) {
			ok = append(ok, string(k))
		}
	}
	return ok
}

func pairs(ids []string, ks [][]byte) string {
	if len(ids) == 0 {
		return "-"
	}
	o := make([]string, len(ids))
	for i := range ids {
		o[i] = xs(ids[i]) + ":" + xs(string(ks[i]))
	}
	return strings.Join(o, ",")
}

// ------------------------------------------------------------------------------------------------ generators

var appNames = []string{"statshouse", "statshouse", "statshouse", "sh", "statshouse2", ""}

var remoteNames = []string{format.StatshouseAgentRemoteConfigMetric, format.StatshouseJournalDump,
	format.StatshouseAggregatorRemoteConfigMetric, format.StatshouseAPIRemoteConfig}

var namePool = []string{"foo_bar", "foo_buzz", "foo_", "foo", "abc", "abcd", "ns:foo_bar", "ns:abc", "ns:", "a:b@c", "a:b:c", "",
	"statshouse_api_remote_config2", "statshouse_agent_remote_confi", "other:statshouse_journal_dump", "bar"}

var prefixPool = []string{"foo_", "foo", "ns@foo_", "ns@", "ns@abc", "a@b@", "abc", "", "statshouse_", "b", "ns:"}
var metricPool = []string{"foo_bar", "foo_buzz", "abc", "ns@foo_bar", "ns@abc", "a@b@c", "statshouse_api_remote_config",
	"statshouse_journal_dump", "", "bar", "ns:abc"}
var nsPool = []string{"ns", "a", "", "other", "ns@x"}
var protPool = []string{"foo_", "ns:", "statshouse_", "abc", "a:", "", "bar"}

func pick(r *verifx.Rng, pool []string) string { return pool[r.Intn(len(pool))] }

func genName(r *verifx.Rng) string {
	if r.Chance(1, 5) {
		return pick(r, remoteNames)
	}
	return pick(r, namePool)
}

func genBit(r *verifx.Rng, app string) string {
	pfx := app + ":"
	switch r.Pick(70, 8, 6, 4, 4, 4, 4) {
	case 1:
		pfx = pick(r, []string{"other:", "statshouse2:", "statshous:", "Statshouse:", "x" + app + ":"})
	case 2:
		pfx = ""
	case 3:
		pfx = app
	case 4:
		pfx = app + "::"
	case 5:
		pfx = app + ":" + app + ":"
	case 6:
		pfx = " " + app + ":"
	}
	var b string
	switch r.Pick(5, 3, 8, 8, 10, 10, 10, 10, 6, 6, 6) {
	case 0:
		b = "admin"
	case 1:
		b = "developer"
	case 2:
		b = "view_default"
	case 3:
		b = "edit_default"
	case 4:
		b = "view_prefix." + pick(r, prefixPool)
	case 5:
		b = "edit_prefix." + pick(r, prefixPool)
	case 6:
		b = "view_metric." + pick(r, metricPool)
	case 7:
		b = "edit_metric." + pick(r, metricPool)
	case 8:
		b = "view_namespace." + pick(r, nsPool)
	case 9:
		b = "edit_namespace." + pick(r, nsPool)
	case 10:
		b = pick(r, []string{"", "adminx", "admi", "Admin", "view_prefix", "edit_metric", "view_namespace", "view_defaults",
			"edit_default.", "foo", "view_prefix.foo_@x@y", "edit_metric.@", "view_metric.@@", "developer.", "view_prefix.é", "edit_prefix.é_"})
	}
	return pfx + b
}

func genBits(r *verifx.Rng, app string) []string {
	n := r.Pick(1, 3, 4, 4, 3, 2, 1)
	if r.Chance(1, 12) {
		n += 6
	}
	bits := make([]string, 0, n)
	for i := 0; i < n; i++ {
		bits = append(bits, genBit(r, app))
	}
	if n > 0 && r.Chance(1, 6) {
		bits = append(bits, bits[0])
	}
	return bits
}

var tamperKinds = []string{"alg", "kind", "kid", "sig", "iss", "user", "exp", "iat", "nbf", "malformed"}

func p64(v int64) *int64    { return &v }
func pstr(s string) *string { return &s }

// otherKey: index of a key different from `cur`: a configured one if there are two or more, else the unconfigured last one
func otherKey(r *verifx.Rng, keys []keyPair, cur int) int {
	nCfg := len(keys) - 1
	if nCfg < 2 || cur >= nCfg {
		if cur == nCfg {
			return 0
		}
		return nCfg
	}
	o := r.Intn(nCfg - 1)
	if o >= cur {
		o++
	}
	return o
}

// one aspect of a valid spec is changed; returns the aspect name
func tamper(r *verifx.Rng, s *spec, now int64, keys []keyPair, which int) string {
	w := time.Duration(vkuth.JWTTimeWindow).Milliseconds()
	bnd := []int64{-2000, -1000, -750, -250, -1, 0, 1, 250, 750, 1000, 2000}
	switch tamperKinds[which] {
	case "alg":
		switch r.Intn(8) {
		case 0:
			s.alg = hv{0, ""}
		case 1:
			s.alg = hv{1, ""}
		case 2:
			s.alg = str("none")
			s.sigMode = 5
		case 3:
			s.alg = str("HS256")
			s.sigMode = 6
		case 4:
			s.alg = str(pick(r, []string{"HS384", "RS256", "ES256", "PS512", "ES512"}))
		case 5:
			s.alg = str(pick(r, []string{"XX", "", "Ed25519", "EDDSA", "eddsa", "EdDSA ", "EdDSA\x00"}))
		case 6:
			s.alg = str("none")
		case 7:
			s.alg = str("HS256")
		}
	case "kind":
		switch r.Intn(4) {
		case 0:
			s.kind = hv{0, ""}
		case 1:
			s.kind = hv{1, ""}
		default:
			s.kind = str(pick(r, []string{"cookie", "Token", "", "token ", "tokens", "toke", "refresh"}))
		}
	case "kid":
		switch r.Intn(7) {
		case 0:
			s.kid = hv{0, ""}
		case 1:
			s.kid = hv{1, ""}
		case 2:
			s.kid = str(keys[otherKey(r, keys, s.signer)].id) // another key (configured if there is one), signed by the original one
		case 3:
			s.kid = str(keys[len(keys)-1].id) // unconfigured key, properly signed by it
			s.signer = len(keys) - 1
		case 4:
			id := keys[s.signer].id
			s.kid = str(pick(r, []string{"", "short", "0000000000000000", id + "0", strings.ToUpper(id), id[:15]}))
		case 5:
			o := otherKey(r, keys, s.signer)
			if o == len(keys)-1 {
				return "none"
			}
			s.kid = str(keys[o].id) // other configured key, properly signed by it: still valid (rotation)
			s.signer = o
			return "none"
		case 6:
			s.kid = str("short")
		}
	case "sig":
		switch r.Intn(6) {
		case 0:
			s.signer = len(keys) - 1 // unconfigured key, kid names a configured one
		case 1:
			s.signer = otherKey(r, keys, s.signer) // another (configured, if any) key, kid unchanged
		case 2:
			if s.signer == len(keys)-2 {
				s.signer = otherKey(r, keys, s.signer)
			} else {
				s.signer = len(keys) - 2 // the LAST configured key, kid unchanged
			}
		default:
			s.sigMode = 1 + r.Intn(5)
		}
	case "iss":
		switch r.Intn(4) {
		case 0:
			s.iss = nil
		default:
			s.iss = pstr(pick(r, []string{"", "vkuth2", "VKUTH", "vkut", "vkuth ", "statshouse", "https://vkuth"}))
		}
	case "user":
		if r.Bool() {
			s.user = nil
		} else {
			s.user = pstr("")
		}
	case "exp":
		if r.Chance(1, 8) {
			s.exp = nil
		} else {
			s.exp = p64(now - w + bnd[r.Intn(len(bnd))])
			if r.Chance(1, 6) {
				s.exp = p64(now - 3600_000*int64(1+r.Intn(100)))
			}
			switch r.Pick(60, 32, 8) {
			case 1:
				s.exp = p64(extremeMs(r, now))
			case 2:
				hx := hugeExp[r.Intn(len(hugeExp))]
				s.expRaw, s.expRawFarPast = hx.lit, hx.farPast
			}
		}
	case "iat":
		if r.Chance(1, 8) {
			s.iat = nil
		} else {
			s.iat = p64(now + w + bnd[r.Intn(len(bnd))])
			if r.Chance(1, 6) {
				s.iat = p64(now + 3600_000*int64(1+r.Intn(100)))
			}
			if r.Chance(1, 4) {
				s.iat = p64(extremeMs(r, now))
			}
		}
	case "nbf":
		s.nbf = p64(now + bnd[r.Intn(len(bnd))])
		if r.Chance(1, 6) {
			s.nbf = p64(now + w + bnd[r.Intn(len(bnd))])
		}
		if r.Chance(1, 4) {
			s.nbf = p64(extremeMs(r, now))
		}
	case "malformed":
		s.malformed = 1 + r.Intn(11)
	}
	return tamperKinds[which]
}

type metaSpec struct {
	name         string
	wq           int // weight * 4
	pre          uint32
	only         bool
	sk           [3]bool
	strat        string
	num, fk, fk2 uint32
	ts           uint32
	raws         []string // RawKind per tag
	desc         string
	resolution   int
}

func (m *metaSpec) meta() format.MetricMetaValue {
	v := format.MetricMetaValue{Name: m.name, Weight: float64(m.wq) / 4, PreKeyFrom: m.pre, PreKeyOnly: m.only,
		SkipMaxHost: m.sk[0], SkipMinHost: m.sk[1], SkipSumSquare: m.sk[2], ShardStrategy: m.strat, ShardNum: m.num,
		ShardFixedKey: m.fk, ShardFixedKey2: m.fk2, ShardFixedKey2Timestamp: m.ts, Description: m.desc, Resolution: m.resolution}
	for i, k := range m.raws {
		v.Tags = append(v.Tags, format.MetricMetaTag{Name: fmt.Sprintf("t%d", i), RawKind: k})
	}
	return v
}

func (m *metaSpec) tok() string {
	raw := "-"
	if len(m.raws) > 0 {
		b := make([]byte, len(m.raws))
		for i, k := range m.raws {
			b[i] = '0'
			if k != "" {
				b[i] = '1'
			}
		}
		raw = string(b)
	}
	return fmt.Sprintf("%s %d %d %d %d%d%d %s %d %d %d %d %s", xs(m.name), m.wq, m.pre, b2i(m.only), b2i(m.sk[0]), b2i(m.sk[1]), b2i(m.sk[2]),
		xs(m.strat), m.num, m.fk, m.fk2, m.ts, raw)
}

var strategies = []string{"", format.ShardByTagsHash, format.ShardFixed, format.ShardByMetricID}
var rawKinds = []string{"", "", "", "int", "hex", "timestamp", "uint"}

func genMeta(r *verifx.Rng, names []string) metaSpec {
	m := metaSpec{name: names[r.Intn(len(names))]}
	m.wq = []int{0, 0, 4, 4, 4, 8, 1, 2, 40, -4}[r.Intn(10)]
	if r.Chance(1, 3) {
		m.pre = uint32(r.Intn(3)) * 1700000000
	}
	m.only = r.Chance(1, 5)
	for i := range m.sk {
		m.sk[i] = r.Chance(1, 4)
	}
	m.strat = strategies[r.Intn(len(strategies))]
	if r.Chance(1, 3) {
		m.num = uint32(r.Intn(4))
	}
	if r.Chance(1, 4) {
		m.fk = uint32(r.Intn(3))
	}
	if r.Chance(1, 5) {
		m.fk2 = uint32(r.Intn(3))
		m.ts = uint32(r.Intn(2)) * 1700000000
	}
	n := r.Pick(3, 2, 3, 3, 2, 1)
	for i := 0; i < n; i++ {
		m.raws = append(m.raws, rawKinds[r.Intn(len(rawKinds))])
	}
	return m
}

var mutKinds = []string{"name", "weight", "pre", "only", "skip", "strat", "num", "fk", "fk2", "ts", "tags", "free"}

func mutate(r *verifx.Rng, m *metaSpec, names []string) string {
	k := r.Pick(14, 12, 5, 5, 8, 5, 5, 5, 5, 5, 16, 10)
	switch mutKinds[k] {
	case "name":
		m.name = names[r.Intn(len(names))]
	case "weight":
		switch r.Intn(5) {
		case 0:
			m.wq = 4
		case 1:
			m.wq = 0
		case 2:
			m.wq += []int{1, -1, 4, -4, 3}[r.Intn(5)]
		case 3:
			m.wq = 8
		case 4:
			m.wq = -m.wq
		}
	case "pre":
		m.pre += uint32(1 + r.Intn(2))
	case "only":
		m.only = !m.only
	case "skip":
		i := r.Intn(3)
		m.sk[i] = !m.sk[i]
		if r.Chance(1, 4) { // swap two: same number of skips, different fields
			j := (i + 1) % 3
			m.sk[j] = !m.sk[j]
		}
	case "strat":
		m.strat = strategies[r.Intn(len(strategies))]
	case "num":
		m.num += uint32(1 + r.Intn(2))
	case "fk":
		m.fk += uint32(1 + r.Intn(2))
	case "fk2":
		m.fk2 += uint32(1 + r.Intn(2))
	case "ts":
		m.ts += uint32(1 + r.Intn(2))
	case "tags":
		m.raws = append([]string(nil), m.raws...)
		switch r.Intn(6) {
		case 0: // append a tag (raw or not)
			m.raws = append(m.raws, rawKinds[r.Intn(len(rawKinds))])
		case 1: // drop the last tag
			if len(m.raws) > 0 {
				m.raws = m.raws[:len(m.raws)-1]
			}
		case 2: // flip raw-ness of one tag
			if len(m.raws) > 0 {
				i := r.Intn(len(m.raws))
				if m.raws[i] == "" {
					m.raws[i] = "int"
				} else {
					m.raws[i] = ""
				}
			}
		case 3: // change the raw kind, raw-ness kept
			if len(m.raws) > 0 {
				i := r.Intn(len(m.raws))
				if m.raws[i] != "" {
					m.raws[i] = "lexenc_float"
				}
			}
		case 4: // append several non-raw tags
			m.raws = append(m.raws, "", "")
		case 5: // drop all
			m.raws = nil
		}
	case "free":
		m.desc += "!"
		m.resolution = 5
	}
	return mutKinds[k]
}

// ------------------------------------------------------------------------------------------------ oracle helpers (independent of the model)

func isRemote(name string) bool {
	for _, n := range remoteNames {
		if n == name {
			return true
		}
	}
	return false
}

func anyPrefix(ps []string, name string) bool {
	for _, p := range ps {
		if strings.HasPrefix(name, p) {
			return true
		}
	}
	return false
}

func contains(ss []string, s string) bool {
	for _, x := range ss {
		if x == s {
			return true
		}
	}
	return false
}

// the right the property allows a non-admin to use for one name
func viewRight(sn *api.VerifC30Snapshot, name string) bool {
	return contains(sn.ViewMetric, name) || anyPrefix(sn.ViewPrefix, name) || (sn.ViewDefault && !anyPrefix(sn.Protected, name))
}
func editRight(sn *api.VerifC30Snapshot, name string) bool {
	return contains(sn.EditMetric, name) || anyPrefix(sn.EditPrefix, name) || (sn.EditDefault && !anyPrefix(sn.Protected, name))
}

// bitRight: does the TOKEN carry a bit with the application prefix that, by the property's wording, lets `name` be
// viewed (kind "view") or edited (kind "edit")? Independent of the code's bit switch; '@' and ':' are identified
// everywhere (laxer than the code's "first '@' becomes ':'"), so this can only accept more than the code does.
func bitRight(bits []string, app, kind, name string, prot []string) bool {
	norm := func(x string) string { return strings.ReplaceAll(x, "@", ":") }
	for _, b := range bits {
		r, ok := strings.CutPrefix(b, app+":")
		if !ok {
			continue
		}
		if r == kind+"_default" && !anyPrefix(prot, name) {
			return true
		}
		if x, ok := strings.CutPrefix(r, kind+"_metric."); ok && norm(x) == norm(name) {
			return true
		}
		if x, ok := strings.CutPrefix(r, kind+"_prefix."); ok && strings.HasPrefix(norm(name), norm(x)) {
			return true
		}
		if x, ok := strings.CutPrefix(r, kind+"_namespace."); ok && strings.HasPrefix(norm(name), norm(x)+":") {
			return true
		}
	}
	return false
}

func editClass(err error) string {
	if err == nil {
		return "ok"
	}
	t := err.Error()
	switch {
	case t == "access forbidden":
		return "forbidden"
	case strings.Contains(t, "changing weight"):
		return "weight"
	case strings.Contains(t, "'presort tag only'"):
		return "presortonly"
	case strings.Contains(t, "'presort tag'"):
		return "presort"
	case strings.Contains(t, "'max host'"):
		return "skips"
	case strings.Contains(t, "sharding strategy shard"):
		return "shard"
	case strings.Contains(t, "sharding strategy"):
		return "strategy"
	case strings.Contains(t, "Raw Tag"):
		return "raw"
	}
	return "other:" + strings.ReplaceAll(t, " ", "_")
}

func snapTok(sn *api.VerifC30Snapshot) string {
	return fmt.Sprintf("user=%s svc=%d admin=%d dev=%d vd=%d ed=%d vp=%s ep=%s vm=%s em=%s", xs(sn.User), b2i(sn.Service),
		b2i(sn.Admin), b2i(sn.Developer), b2i(sn.ViewDefault), b2i(sn.EditDefault),
		xl(sn.ViewPrefix), xl(sn.EditPrefix), xl(sn.ViewMetric), xl(sn.EditMetric))
}

type parseOut struct {
	ai       *api.VerifC30AI
	mask     uint32
	hasMask  bool
	panicked bool
	err      error
}

func parse(helper *vkuth.JWTHelper, token string, prot []string, local, insecure bool) (o parseOut) {
	defer func() {
		if r := recover(); r != nil {
			o = parseOut{panicked: true}
		}
	}()
	ai, err := api.VerifC30Parse(helper, token, prot, local, insecure)
	o.ai, o.err = ai, err
	if err != nil {
		var ve *jwt.ValidationError
		if errors.As(err, &ve) {
			o.mask, o.hasMask = ve.Errors, true
		}
	}
	return o
}

// ------------------------------------------------------------------------------------------------ one case

func runCase(i int, r *verifx.Rng) {
	app := appNames[r.Intn(len(appNames))]
	// key rotation: 1-4 configured keys (keys[0..nCfg-1]) and one unconfigured key (the last). The JWTHelper gets the map
	// the REAL vkuth.ParseVkuthKeys builds from the base64 list, exactly as cmd/statshouse-api does for --vkuth-public-keys.
	nCfg := 1 + r.Pick(15, 40, 25, 20)
	keys := make([]keyPair, nCfg+1)
	for k := range keys {
		priv := ed25519.NewKeyFromSeed(r.Bytes(ed25519.SeedSize))
		keys[k] = keyPair{pub: priv.Public().(ed25519.PublicKey), priv: priv}
		keys[k].id = fingerprint(keys[k].pub)
	}
	h.Stat(fmt.Sprintf("keys.configured.%d", nCfg), 1)
	var enc, listedIDs []string
	var listedKeys [][]byte
	list := func(k int) {
		enc = append(enc, b64.EncodeToString(keys[k].pub))
		listedIDs = append(listedIDs, keys[k].id)
		listedKeys = append(listedKeys, keys[k].pub)
	}
	for k := 0; k < nCfg; k++ {
		list(k)
	}
	if r.Chance(1, 10) {
		list(r.Intn(nCfg)) // the same key listed twice
	}
	cfgKeys, err := vkuth.ParseVkuthKeys(enc)
	if err != nil {
		panic(err)
	}
	own := map[string][]byte{} // the harness's own table: id -> key bytes
	for k := 0; k < nCfg; k++ {
		own[keys[k].id] = keys[k].pub
	}
	var extraIDs []string
	var extraKeys [][]byte
	if r.Chance(1, 3) {
		short := append([]byte(nil), keys[0].pub[:16]...)
		cfgKeys["short"] = short // a configured key of the wrong size can verify nothing
		own["short"] = short
		extraIDs, extraKeys = []string{"short"}, [][]byte{short}
	}
	cands := [][]byte{}
	for k := range keys {
		cands = append(cands, keys[k].pub)
	}
	if len(extraKeys) > 0 {
		cands = append(cands, extraKeys[0])
	}
	var prot []string
	for n := r.Pick(3, 4, 2, 1); n > 0; n-- {
		prot = append(prot, pick(r, protPool))
	}
	local, insecure := r.Chance(1, 40), r.Chance(1, 40)

	now := int64(1_600_000_000+r.Intn(200_000_000)) * 1000
	if r.Chance(1, 10) {
		now = int64(10+r.Intn(100000)) * 1000
	}
	if r.Chance(1, 3) {
		now += int64(r.Intn(4)) * 250
	}
	helper := vkuth.NewJWTHelper(cfgKeys, app)
	helper.SetNow(func() time.Time { return time.Unix(now/1000, (now%1000)*1_000_000) })
	h.Op("cfg %s %s %s %s %d %d", xs(app), pairs(listedIDs, listedKeys), pairs(extraIDs, extraKeys), xl(prot), b2i(local), b2i(insecure))
	{
		var dump []string
		for id, k := range cfgKeys {
			dump = append(dump, xs(id)+":"+xs(string(k)))
		}
		sort.Strings(dump)
		h.Obs("keys %s", verifx.List(dump))
		// direct oracle: every configured key id maps to the bytes of the key it is the fingerprint of, and nothing else is configured
		for id, k := range own {
			if got, ok := cfgKeys[id]; !ok {
				h.Viol("keytable-missing-key", "ParseVkuthKeys lost key id %s", id)
			} else if string(got) != string(k) {
				h.Viol("keytable-wrong-key", "key id %s maps to key %x, not to its own key %x (configured: %d keys)", id, got, k, nCfg)
			}
		}
		for id := range cfgKeys {
			if _, ok := own[id]; !ok {
				h.Viol("keytable-extra-key", "ParseVkuthKeys configured an id %s that is no listed key's fingerprint", id)
			}
		}
	}

	// A neutral token: valid, explicit empty bit array, its own user. Parsed (unobserved) at the start of every case so
	// that whatever process-wide state token parsing may keep is the same whether or not earlier cases ran (-only replays),
	// and used as the "other history" of the grant-depends-on-previous-token oracle.
	neutral := func(at int64) string {
		ns := &spec{alg: str(jwt.SigningMethodEdDSA.Alg()), kind: str(vkuth.KindHeaderTokenValue), kid: str(keys[0].id), otherLit: "7",
			iss: pstr(vkuth.TokenIssuer), user: pstr("neutral"), exp: p64(at + 3600_000), iat: p64(at), svcShape: 1}
		return ns.mint(keys)
	}
	parse(helper, neutral(now), prot, false, false)

	// A case is a SEQUENCE of 1-5 tokens parsed by the same JWTHelper in this one process. The model is a function of
	// (configuration, clock, token) alone, so any influence of an earlier token on a later one is a disagreement.
	nTok := 1 + r.Pick(25, 35, 20, 12, 8)
	h.Stat(fmt.Sprintf("seq.len.%d", nTok), 1)
	var prevBits []string // bits carried by the claims of the previous token of the sequence (accepted or not)
	var deferred []func() // metamorphic re-parses, run after the sequence so that they cannot disturb it
	oneAspect, interesting, bitlessAfterBits := false, false, false
	for j := 0; j < nTok; j++ {
		if j > 0 {
			now += int64(r.Intn(4)) * 1000
		}
		last := j == nTok-1
		prev := prevBits
		func() {
			// a valid token, signed by one of the configured keys (rotation) and naming it …
			cur := r.Intn(nCfg)
			s := &spec{alg: str(jwt.SigningMethodEdDSA.Alg()), kind: str(vkuth.KindHeaderTokenValue), kid: str(keys[cur].id), signer: cur, otherLit: pick(r, []string{"7", "true", "null", `["EdDSA"]`, `{"a":1}`}),
				iss: pstr(vkuth.TokenIssuer), user: pstr(pick(r, []string{"u@corp", "alice", "x", "svc-1", "имя"})),
				exp: p64(now + int64(1+r.Intn(7200))*1000), iat: p64(now - int64(r.Intn(600))*1000), service: r.Chance(1, 6)}
			if r.Chance(1, 3) {
				s.nbf = p64(*s.iat)
			}
			if r.Chance(1, 5) { // fractional seconds still inside the window
				*s.exp += int64(r.Intn(4)) * 250
				*s.iat += int64(r.Intn(4)) * 250
			}
			// still valid: expiry far in the future, issue / not-before far in the past (incl. before 1970)
			if r.Chance(1, 20) {
				s.exp = p64([]int64{253402300799, 1<<53 - 1 - int64(r.Intn(1000)), now/1000 + 9223372036 + int64(r.Intn(7)) - 3, now/1000 + 18446744073 + int64(r.Intn(7)) - 3}[r.Intn(4)] * 1000)
			}
			if r.Chance(1, 20) {
				s.iat = p64([]int64{0, -1, -2208988800, now/1000 - 9223372036 - int64(r.Intn(7)), now/1000 - 18446744074, -(1 << 53) + int64(r.Intn(1000))}[r.Intn(6)] * 1000)
				if r.Bool() {
					s.nbf = p64(*s.iat)
				}
			}
			s.nullAbsent = r.Chance(1, 4)
			s.svcShape = r.Intn(3)
			// bit sets: the first token of a sequence is usually privileged; later ones often carry no bits key / null / [] /
			// a subset of the previous token's bits / the previous bits under another application's prefix
			ownPriv := []string{"admin", "developer", "edit_default", "view_default", "edit_prefix.", "view_prefix.foo_", "edit_namespace.ns", "edit_metric.abc"}
			mode := r.Pick(50, 5, 3, 4, 0, 0)
			if j == 0 && nTok > 1 {
				mode = r.Pick(30, 3, 2, 2, 0, 0, 63)
			} else if j > 0 {
				mode = r.Pick(30, 28, 9, 9, 14, 10)
			}
			switch mode {
			case 0:
				s.bits = genBits(r, app)
			case 1:
				s.bitsShape = 1
			case 2:
				s.bitsShape = 2
			case 3: // explicit []
			case 4: // fewer bits than the previous token
				for _, b := range prev {
					if r.Bool() {
						s.bits = append(s.bits, b)
					}
				}
			case 5: // the previous token's bits under another application's prefix
				for _, b := range prev {
					if rest, ok := strings.CutPrefix(b, app+":"); ok {
						s.bits = append(s.bits, "other:"+rest)
					}
				}
			case 6: // privileged
				s.bits = genBits(r, app)
				for n := 1 + r.Intn(3); n > 0; n-- {
					s.bits = append(s.bits, app+":"+pick(r, ownPriv))
				}
			}
			if r.Chance(1, 25) {
				s.dataShape = 1 + r.Intn(2)
				s.user, s.bits, s.service, s.bitsShape = nil, nil, false, 1
			}
			h.Stat(fmt.Sprintf("bits.mode.%d", mode), 1)
			h.Stat(fmt.Sprintf("shape.bits.%d", s.bitsShape), 1)
			h.Stat(fmt.Sprintf("shape.data.%d", s.dataShape), 1)
			// … changed in 0, 1 or 2 aspects
			nt := r.Pick(30, 60, 10)
			used := map[int]bool{}
			for len(s.aspects) < nt {
				w := r.Intn(len(tamperKinds))
				if used[w] {
					continue
				}
				used[w] = true
				if a := tamper(r, s, now, keys, w); a != "none" {
					s.aspects = append(s.aspects, a)
				} else {
					break
				}
			}
			expTok := optMs(s.exp)
			if s.exp != nil && s.expRaw != "" {
				expTok = parsedSecAsMs(s.expRaw)
				h.Stat("exp.huge", 1)
			} else if s.exp != nil {
				switch d := (now - *s.exp) / 1000; {
				case d > 18446744073:
					h.Stat("exp.expired-more-than-2^64ns-ago", 1)
				case d > 9223372036:
					h.Stat("exp.expired-2^63..2^64ns-ago", 1)
				case d > 3600*24*366:
					h.Stat("exp.expired-years-ago", 1)
				case d >= 5:
					h.Stat("exp.expired", 1)
				case d > -3600*24*366:
					h.Stat("exp.near-future", 1)
				default:
					h.Stat("exp.far-future", 1)
				}
				if *s.exp < 0 {
					h.Stat("exp.negative", 1)
				}
			}
			token := s.mint(keys)
			empty := r.Chance(1, 60)
			if empty {
				token = ""
				s.aspects = append(s.aspects, "empty")
			}
			sigValid := sigValidFor(token, cands)
			if s.malformed == 0 && !empty {
				prevBits = s.bits
			}
			hadOwn := false
			for _, b := range prev {
				if strings.HasPrefix(b, app+":") {
					hadOwn = true
				}
			}
			tokNow := now

			switch {
			case empty:
				h.Op("tok %d empty", now)
			case s.malformed != 0:
				h.Op("tok %d malformed", now)
			default:
				iss, user := "", ""
				if s.iss != nil {
					iss = *s.iss
				}
				if s.user != nil {
					user = *s.user
				}
				h.Op("tok %d t %s %s %s %s %s %s %s %s %s %d %s", now, s.alg.tok(), s.kind.tok(), s.kid.tok(), xl(sigValid), xs(iss), xs(user),
					expTok, optMs(s.iat), optMs(s.nbf), b2i(s.service), xl(s.bits))
			}
			o := parse(helper, token, prot, local, insecure)
			for _, a := range s.aspects {
				h.Stat("tamper."+a, 1)
			}
			h.Stat(fmt.Sprintf("aspects.%d", len(s.aspects)), 1)
			switch {
			case o.panicked:
				h.Obs("panic")
				h.Stat("out.panic", 1)
			case o.err != nil:
				h.Obs("err %d", o.mask)
				h.Stat(fmt.Sprintf("out.err.%d", o.mask), 1)
			default:
				sn := o.ai.Snapshot()
				h.Obs("ok %s", snapTok(&sn))
				h.Stat("out.ok", 1)
			}
			if len(s.aspects) == 1 {
				oneAspect = true
			}
			if s.malformed == 0 && !empty {
				switch {
				case s.kid.k == 2 && s.kid.s == keys[s.signer].id && s.signer < nCfg:
					h.Stat(fmt.Sprintf("key.named-and-signed.cfg%d.%s", nCfg, map[bool]string{true: "last", false: "notlast"}[s.signer == nCfg-1]), 1)
				case s.kid.k == 2 && own[s.kid.s] != nil && s.signer < nCfg:
					h.Stat("key.names-one-configured-signed-by-another", 1)
				case s.kid.k == 2 && own[s.kid.s] != nil:
					h.Stat("key.names-configured-signed-by-unconfigured", 1)
				}
			}
			// a token generated valid in every aspect (comfortably inside its window, named key = signing key = a configured
			// key) must be accepted: "grants exactly the permissions carried by a valid token"
			if o.ai == nil && len(s.aspects) == 0 && s.dataShape == 0 && !local && !insecure {
				h.Viol("rejected-valid-token", "a valid token signed by configured key %d of %d (kid %s) is rejected: panic=%v err=%v; token=%s now=%d", s.signer, nCfg, s.kid.s, o.panicked, o.err, token, now)
			}
			if o.ai == nil {
				return
			}
			sn := o.ai.Snapshot()
			if j > 0 && hadOwn && s.bitsShape != 0 && !local && !insecure {
				bitlessAfterBits = true
				h.Stat("seq.bitless-after-bits", 1)
			}
			// metamorphic, after the sequence: the grants of a token must not depend on which tokens were parsed before it.
			// Same token, fresh JWTHelper, other history (the neutral token instead of this case's earlier tokens).
			if !local && !insecure {
				inSeq := snapTok(&sn)
				deferred = append(deferred, func() {
					h.Stat("oracle.history", 1)
					hf := vkuth.NewJWTHelper(cfgKeys, app)
					hf.SetNow(func() time.Time { return time.Unix(tokNow/1000, (tokNow%1000)*1_000_000) })
					parse(hf, neutral(tokNow), prot, false, false)
					o2 := parse(hf, token, prot, false, false)
					if o2.ai == nil {
						h.Viol("accept-depends-on-previous-token", "token %d of the sequence was accepted, but is rejected after a neutral token on a fresh helper (%v); token=%s", j, o2.err, token)
					} else if sn2 := o2.ai.Snapshot(); snapTok(&sn2) != inSeq {
						h.Viol("grant-depends-on-previous-token", "token %d of the sequence got [%s] but gets [%s] when parsed after a neutral token on a fresh helper; claims=%s previous token's bits=%q", j, inSeq, snapTok(&sn2), s.claimsJSON(s.user), prev)
					}
				})
			}

			// ---- direct oracle, acceptance (the property's "accepted only if …"); not applicable to local/insecure mode
			if !local && !insecure {
				const w = 5000 // the property's tolerance in ms — deliberately NOT vkuth.JWTTimeWindow
				bad := func(sig, what string) {
					h.Viol("accept-"+sig, "token accepted although %s; token=%s now=%d", what, token, now)
				}
				named, kidCfg := own[s.kid.s] // the key the kid names, by the harness's own table (not the map under test)
				kidCfg = kidCfg && s.kid.k == 2
				switch {
				case empty || s.malformed != 0:
					bad("malformed", "it is empty or malformed")
				case s.alg != str("EdDSA"):
					bad("alg", "its alg is not EdDSA")
				case s.kind != str("token"):
					bad("kind", "its kind header is not \"token\"")
				case !kidCfg:
					bad("kid", "its kid names no configured key")
				case !contains(sigValid, string(named)) && len(sigValid) > 0:
					h.Viol("accepted-under-wrong-key", "token accepted although its signature verifies under key(s) %x but not under the key %x its kid %q names (%d keys configured); token=%s", sigValid, named, s.kid.s, nCfg, token)
				case !contains(sigValid, string(named)):
					bad("sig", "its signature does not verify under the key its kid names")
				case s.iss == nil || *s.iss != "vkuth":
					bad("iss", "its issuer is not vkuth")
				case s.user == nil || *s.user == "":
					bad("user", "it names no user")
				case s.exp == nil:
					bad("noexp", "it has no expiry")
				case s.expRaw != "" && s.expRawFarPast, s.expRaw == "" && now >= *s.exp+w:
					bad("expired", "it expired more than 5 s ago")
				// iat/nbf are NumericDates: golang-jwt keeps whole seconds (jwt.TimePrecision), so they are compared floored
				case s.iat != nil && floorSecMs(*s.iat) > now+w:
					bad("future-iat", "it was issued more than 5 s in the future")
				case s.nbf != nil && floorSecMs(*s.nbf) > now+w:
					bad("premature", "its not-before is more than 5 s in the future")
				}
				// only bits prefixed with the application name are granted
				pfx := app + ":"
				if sn.Admin && !contains(s.bits, pfx+"admin") {
					h.Viol("grant-admin", "admin granted without bit %q; bits=%q", pfx+"admin", s.bits)
				}
				if sn.Developer && !contains(s.bits, pfx+"developer") {
					h.Viol("grant-developer", "developer granted without bit; bits=%q", s.bits)
				}
				if sn.ViewDefault && !contains(s.bits, pfx+"view_default") {
					h.Viol("grant-view-default", "view_default granted without bit; bits=%q", s.bits)
				}
				if sn.EditDefault && !contains(s.bits, pfx+"edit_default") {
					h.Viol("grant-edit-default", "edit_default granted without bit; bits=%q", s.bits)
				}
				// metamorphic: removing every bit that lacks the application prefix changes nothing
				var own []string
				for _, b := range s.bits {
					if strings.HasPrefix(b, pfx) {
						own = append(own, b)
					}
				}
				if len(own) != len(s.bits) {
					h.Stat("oracle.foreign-bits", 1)
					s2 := *s
					s2.bits = own
					tok2, inSeq := s2.mint(keys), snapTok(&sn)
					deferred = append(deferred, func() {
						hf := vkuth.NewJWTHelper(cfgKeys, app)
						hf.SetNow(func() time.Time { return time.Unix(tokNow/1000, (tokNow%1000)*1_000_000) })
						o2 := parse(hf, tok2, prot, false, false)
						if o2.ai == nil {
							h.Viol("foreign-bit-accept", "token without its foreign bits is rejected: %v", o2.err)
						} else if sn2 := o2.ai.Snapshot(); snapTok(&sn2) != inSeq {
							h.Viol("foreign-bit-grant", "bits without the %q prefix changed the grants: %s vs %s; bits=%q", pfx, inSeq, snapTok(&sn2), s.bits)
						}
					})
				}
				if len(own) == 0 && (sn.Admin || sn.Developer || sn.ViewDefault || sn.EditDefault || len(sn.ViewPrefix)+len(sn.EditPrefix)+len(sn.ViewMetric)+len(sn.EditMetric) > 0) {
					h.Viol("grant-from-nothing", "no bit carries the application prefix but something is granted: %s", snapTok(&sn))
				}
			}

			// ---- policy: names biased towards what the bits mention
			names := append([]string(nil), namePool...)
			names = append(names, remoteNames...)
			for _, m := range append(append([]string(nil), sn.ViewMetric...), sn.EditMetric...) {
				names = append(names, m, m)
			}
			for _, p := range append(append([]string(nil), sn.ViewPrefix...), sn.EditPrefix...) {
				names = append(names, p+"x", p+"bar", p)
			}
			nView, nChg, nEdit := 3+r.Intn(3), 1+r.Intn(2), 3+r.Intn(4)
			if !last {
				nView, nChg, nEdit = 1+r.Intn(2), r.Intn(2), 1+r.Intn(2)
			}
			for n := nView; n > 0; n-- {
				name := names[r.Intn(len(names))]
				h.Op("view %s", xs(name))
				got := o.ai.ViewName(name)
				if got2 := o.ai.View(format.MetricMetaValue{Name: name}); got2 != got {
					h.Viol("view-inconsistent", "CanViewMetric and CanViewMetricName differ on %q", name)
				}
				h.Obs("view %d", b2i(got))
				h.Stat(fmt.Sprintf("view.%d", b2i(got)), 1)
				if got {
					if !sn.Admin && isRemote(name) {
						h.Viol("view-remote-config", "non-admin may view remote-config metric %q; %s", name, snapTok(&sn))
					}
					if !local && !insecure && !bitRight(s.bits, app, "view", name, prot) {
						h.Viol("view-without-bit", "%q viewable but the token has no matching view bit; bits=%q prot=%q", name, s.bits, prot)
					}
					if !viewRight(&sn, name) {
						h.Viol("view-without-right", "%q viewable without a metric, prefix, namespace or default right; %s prot=%q", name, snapTok(&sn), sn.Protected)
					}
				}
			}
			for n := nChg; n > 0; n-- {
				a, b := names[r.Intn(len(names))], names[r.Intn(len(names))]
				create := r.Bool()
				h.Op("chg %d %s %s", b2i(create), xs(a), xs(b))
				got := o.ai.Change(create, format.MetricMetaValue{Name: a}, format.MetricMetaValue{Name: b})
				h.Obs("chg %d", b2i(got))
				if got && !sn.Admin && (isRemote(a) || isRemote(b) || !editRight(&sn, a) || !editRight(&sn, b)) {
					h.Viol("change-without-right", "non-admin may change %q -> %q; %s prot=%q", a, b, snapTok(&sn), sn.Protected)
				}
				if got && !local && !insecure && !contains(s.bits, app+":admin") && (!bitRight(s.bits, app, "edit", a, prot) || !bitRight(s.bits, app, "edit", b, prot)) {
					h.Viol("change-without-bit", "%q -> %q may be changed but the token has no admin bit and no matching edit bits for both; bits=%q prot=%q", a, b, s.bits, prot)
				}
			}
			// names for edits: prefer names the token can edit so that the field checks are reached
			var editable []string
			for _, nm := range names {
				if editRight(&sn, nm) && !isRemote(nm) {
					editable = append(editable, nm)
				}
			}
			for n := nEdit; n > 0; n-- {
				pool := names
				if len(editable) > 0 && r.Chance(4, 5) {
					pool = editable
				}
				old := genMeta(r, pool)
				nw := old
				nmut := r.Pick(2, 6, 2)
				if r.Chance(1, 10) {
					nw = genMeta(r, pool)
				}
				for k := 0; k < nmut; k++ {
					h.Stat("mut."+mutate(r, &nw, pool), 1)
				}
				create := r.Chance(1, 4)
				if create {
					old = nw
				}
				h.Op("edit %d %s %s", b2i(create), old.tok(), nw.tok())
				om, nm := old.meta(), nw.meta()
				var cls string
				func() {
					defer func() {
						if rec := recover(); rec != nil {
							cls = "panic"
						}
					}()
					cls = editClass(o.ai.Edit(create, om, nm))
				}()
				h.Obs("edit %s", cls)
				h.Stat("edit."+cls, 1)
				if cls != "forbidden" && !sn.Admin {
					interesting = true
				}
				if cls == "ok" && !local && !insecure && !contains(s.bits, app+":admin") &&
					(!bitRight(s.bits, app, "edit", old.name, prot) || !bitRight(s.bits, app, "edit", nw.name, prot)) {
					h.Viol("edit-without-bit", "edit %q -> %q accepted but the token has no admin bit and no matching edit bits for both; bits=%q prot=%q", old.name, nw.name, s.bits, prot)
				}
				if cls == "ok" && !sn.Admin {
					v := func(sig, what string) {
						h.Viol("edit-"+sig, "non-admin edit accepted although %s; old=[%s] new=[%s] %s prot=%q", what, old.tok(), nw.tok(), snapTok(&sn), sn.Protected)
					}
					if isRemote(old.name) || isRemote(nw.name) {
						v("remote-config", "a remote-config metric is involved")
					}
					if !editRight(&sn, old.name) {
						v("no-right-old", "there is no edit right on the old name")
					}
					if !editRight(&sn, nw.name) {
						v("no-right-new", "there is no edit right on the new name")
					}
					if old.wq != nw.wq && !(old.wq == 0 && nw.wq == 4) {
						v("weight", "weight changes")
					}
					if old.pre != nw.pre || old.only != nw.only {
						v("presort", "presort changes")
					}
					if old.strat != nw.strat || old.num != nw.num || old.fk != nw.fk || old.fk2 != nw.fk2 || old.ts != nw.ts {
						v("sharding", "sharding changes")
					}
					if old.sk != nw.sk {
						v("skips", "host / sum-square skips change")
					}
					for t := 0; t < len(old.raws) || t < len(nw.raws); t++ {
						or, nr := t < len(old.raws) && old.raws[t] != "", t < len(nw.raws) && nw.raws[t] != ""
						if or != nr {
							v("raw", fmt.Sprintf("raw-ness of tag %d changes", t))
						}
					}
				}
			}
		}()
	}
	for _, f := range deferred {
		f()
	}
	if oneAspect {
		h.NonTrivial("one-aspect")
	}
	if interesting {
		h.NonTrivial("field-checks")
	}
	if bitlessAfterBits {
		h.NonTrivial("bitless-after-bits")
	}
}

// ------------------------------------------------------------------------------------------------ gen

func leanBytes(s string) string {
	if s == "" {
		return "[]"
	}
	o := make([]string, len(s))
	for i := 0; i < len(s); i++ {
		o[i] = fmt.Sprint(s[i])
	}
	return "[" + strings.Join(o, ", ") + "]"
}

func genLean() {
	var b strings.Builder
	p := func(f string, a ...any) { fmt.Fprintf(&b, f+"\n", a...) }
	p("/- GENERATED by verif-c30 -mode=gen from the working tree on every run of bin/check C30. Do not edit. -/")
	p("namespace SH.Gen.C30")
	p("")
	p("/-- vkuth.JWTTimeWindow in milliseconds -/")
	p("def timeWindowMs : Nat := %d", time.Duration(vkuth.JWTTimeWindow).Milliseconds())
	p("/-- vkuth.TokenIssuer = %q -/", vkuth.TokenIssuer)
	p("def issuer : List UInt8 := %s", leanBytes(vkuth.TokenIssuer))
	p("/-- vkuth.KindHeaderTokenValue = %q (header %q; key id header %q) -/", vkuth.KindHeaderTokenValue, vkuth.KindHeaderName, vkuth.VerifC30KeyIDHeader())
	p("def kindToken : List UInt8 := %s", leanBytes(vkuth.KindHeaderTokenValue))
	p("def kindHeaderName : String := %q", vkuth.KindHeaderName)
	p("def kidHeaderName : String := %q", vkuth.VerifC30KeyIDHeader())
	p("/-- jwt.SigningMethodEdDSA.Alg() = %q -/", jwt.SigningMethodEdDSA.Alg())
	p("def algEdDSA : List UInt8 := %s", leanBytes(jwt.SigningMethodEdDSA.Alg()))
	algs := jwt.GetAlgorithms()
	sort.Strings(algs)
	p("/-- jwt.GetAlgorithms(), sorted: %s -/", strings.Join(algs, " "))
	var la []string
	for _, a := range algs {
		la = append(la, leanBytes(a))
	}
	p("def knownAlgs : List (List UInt8) := [%s]", strings.Join(la, ",\n  "))
	p("/-- jwt.ValidationError bits -/")
	p("def errMalformed : Nat := %d", jwt.ValidationErrorMalformed)
	p("def errUnverifiable : Nat := %d", jwt.ValidationErrorUnverifiable)
	p("def errSignatureInvalid : Nat := %d", jwt.ValidationErrorSignatureInvalid)
	p("def errExpired : Nat := %d", jwt.ValidationErrorExpired)
	p("def errIssuedAt : Nat := %d", jwt.ValidationErrorIssuedAt)
	p("def errNotValidYet : Nat := %d", jwt.ValidationErrorNotValidYet)
	p("def errClaimsInvalid : Nat := %d", jwt.ValidationErrorClaimsInvalid)
	// every name format.RemoteConfigMetric answers true for, among the four constants and all built-in metric names
	cand := map[string]bool{}
	for _, n := range remoteNames {
		cand[n] = true
	}
	for n := range format.BuiltinMetricByName {
		cand[n] = true
	}
	var rc []string
	for n := range cand {
		if format.RemoteConfigMetric(n) {
			rc = append(rc, n)
		}
	}
	sort.Strings(rc)
	p("/-- names for which format.RemoteConfigMetric is true (probed over its four constants and every built-in metric name): %s -/", strings.Join(rc, " "))
	var lr []string
	for _, n := range rc {
		lr = append(lr, leanBytes(n))
	}
	p("def remoteConfig : List (List UInt8) := [%s]", strings.Join(lr, ",\n  "))
	p("")
	p("end SH.Gen.C30")
	fmt.Print(b.String())
}

func main() {
	h = verifx.New()
	if h.Mode == "gen" {
		genLean()
		return
	}
	h.Cases(runCase)
	h.Done()
}
