//go:build verif

// Thin accessors for the /verif C15/C19 (and later C16) harness. No logic under test is copied here:
// the dump only SELECTs the tables, the other functions forward to the unexported originals.
package metadata

import (
	"context"
	"time"

	"github.com/VKCOM/statshouse/internal/sqlite"
)

type VerifEntity struct {
	ID, Version, NamespaceID, UpdatedAt, DeletedAt, Type int64
	Name, Data                                           string
}

type VerifHistory struct {
	EntityID, Version, NamespaceID, UpdatedAt, DeletedAt, Type int64
	Name, Data, Metadata                                       string
}

type VerifMapping struct {
	ID   int64
	Name string
}

type VerifFlood struct {
	Metric     string
	Last, Free int64
}

// VerifState is the replay-relevant state of a DBV2: entities, history, mappings, flood limits, bootstrap,
// the two AUTOINCREMENT high-water marks and the in-memory id of the last created mapping.
type VerifState struct {
	Entities      []VerifEntity  // ORDER BY id
	History       []VerifHistory // ORDER BY version, entity_id
	Mappings      []VerifMapping // ORDER BY id
	Flood         []VerifFlood   // ORDER BY metric_name
	SeqEntities   int64          // sqlite_sequence of metrics_v5 (0 when absent)
	SeqMappings   int64          // sqlite_sequence of mappings (0 when absent)
	Bootstrap     []byte         // property.bootstrap (nil when absent)
	LastMappingID int32          // db.lastMappingIDToInsert
}

func VerifDump(db *DBV2) (st VerifState, err error) {
	err = db.eng.Do(context.Background(), "verif_dump", func(conn sqlite.Conn, cache []byte) ([]byte, error) {
		rows := conn.Query("verif_entities", "SELECT id, version, namespace_id, updated_at, deleted_at, type, name, data FROM metrics_v5 ORDER BY id asc;")
		for rows.Next() {
			var e VerifEntity
			e.ID, _ = rows.ColumnInt64(0)
			e.Version, _ = rows.ColumnInt64(1)
			e.NamespaceID, _ = rows.ColumnInt64(2)
			e.UpdatedAt, _ = rows.ColumnInt64(3)
			e.DeletedAt, _ = rows.ColumnInt64(4)
			e.Type, _ = rows.ColumnInt64(5)
			e.Name, _ = rows.ColumnBlobString(6)
			e.Data, _ = rows.ColumnBlobString(7)
			st.Entities = append(st.Entities, e)
		}
		if rows.Error() != nil {
			return cache, rows.Error()
		}
		rows = conn.Query("verif_history", "SELECT entity_id, version, namespace_id, updated_at, deleted_at, type, name, data, metadata FROM entity_history ORDER BY version asc, entity_id asc;")
		for rows.Next() {
			var e VerifHistory
			e.EntityID, _ = rows.ColumnInt64(0)
			e.Version, _ = rows.ColumnInt64(1)
			e.NamespaceID, _ = rows.ColumnInt64(2)
			e.UpdatedAt, _ = rows.ColumnInt64(3)
			e.DeletedAt, _ = rows.ColumnInt64(4)
			e.Type, _ = rows.ColumnInt64(5)
			e.Name, _ = rows.ColumnBlobString(6)
			e.Data, _ = rows.ColumnBlobString(7)
			e.Metadata, _ = rows.ColumnBlobString(8)
			st.History = append(st.History, e)
		}
		if rows.Error() != nil {
			return cache, rows.Error()
		}
		rows = conn.Query("verif_mappings", "SELECT id, name FROM mappings ORDER BY id asc;")
		for rows.Next() {
			var m VerifMapping
			m.ID, _ = rows.ColumnInt64(0)
			m.Name, _ = rows.ColumnBlobString(1)
			st.Mappings = append(st.Mappings, m)
		}
		if rows.Error() != nil {
			return cache, rows.Error()
		}
		rows = conn.Query("verif_flood", "SELECT metric_name, last_time_update, count_free FROM flood_limits ORDER BY metric_name asc;")
		for rows.Next() {
			var f VerifFlood
			f.Metric, _ = rows.ColumnBlobString(0)
			f.Last, _ = rows.ColumnInt64(1)
			f.Free, _ = rows.ColumnInt64(2)
			st.Flood = append(st.Flood, f)
		}
		if rows.Error() != nil {
			return cache, rows.Error()
		}
		rows = conn.Query("verif_seq", "SELECT name, seq FROM sqlite_sequence;")
		for rows.Next() {
			name, _ := rows.ColumnBlobString(0)
			seq, _ := rows.ColumnInt64(1)
			switch name {
			case "metrics_v5":
				st.SeqEntities = seq
			case "mappings":
				st.SeqMappings = seq
			}
		}
		if rows.Error() != nil {
			return cache, rows.Error()
		}
		rows = conn.Query("verif_bootstrap", "SELECT data FROM property WHERE name = $name", sqlite.BlobString("$name", bootstrapFieldName))
		if rows.Next() {
			b, _ := rows.ColumnBlobRaw(0)
			st.Bootstrap = append([]byte{}, b...)
		}
		return cache, rows.Error()
	})
	st.LastMappingID = db.lastMappingIDToInsert
	return st, err
}

func VerifDeleteMappings(db *DBV2, ids []int32) (int32, error) {
	return db.deleteMappingsByIdBatched(context.Background(), ids)
}

func VerifCalcBudget(oldBudget, expense int64, lastTimeUpdate, now uint32, max, bonusToStep int64, stepSec uint32) int64 {
	return calcBudget(oldBudget, expense, lastTimeUpdate, now, max, bonusToStep, stepSec)
}

func VerifRoundTime(unix int64, step uint32) uint32 {
	return roundTime(time.Unix(unix, 0), step)
}

// error classes the rpc handler and the harness distinguish
var (
	VerifErrInvalidVersion   = errInvalidMetricVersion
	VerifErrExists           = errMetricIsExist
	VerifErrNamespaceMissing = errNamespaceNotExists
)

const (
	VerifMaxResetLimit        = maxResetLimit
	VerifMetricCountReadLimit = metricCountReadLimit
	VerifMetricBytesReadLimit = metricBytesReadLimit
	VerifMaxDeletionSize      = maxDeletionSizeLimit
)

// ---- journal long-poll path of the rpc handler (C15: "the journal returns each entity's latest version exactly once")

// VerifBroadcastJournal runs the real broadcastJournal (what RawEditEntity calls after a successful save).
func VerifBroadcastJournal(h *Handler) { h.broadcastJournal() }

// VerifJournalWaiting returns the From values of the journal long-poll clients that are parked right now (sorted).
func VerifJournalWaiting(h *Handler) []int64 {
	h.getJournalClients.mx.Lock()
	defer h.getJournalClients.mx.Unlock()
	res := make([]int64, 0, len(h.getJournalClients.clients))
	for _, a := range h.getJournalClients.clients {
		res = append(res, a.From)
	}
	for i := 1; i < len(res); i++ {
		for j := i; j > 0 && res[j] < res[j-1]; j-- {
			res[j], res[j-1] = res[j-1], res[j]
		}
	}
	return res
}
