//go:build verif

// verif-c15: correspondence harness + direct property oracles for C15 (entity versioning / OCC) and C19 (tag mappings,
// flood limits). It drives the REAL metadata.DBV2 on real SQLite with an fsbinlog on a temp dir and a scripted clock.
//
//	-mode=c15   entity-heavy histories; every 8th case is a concurrent race (identical requests from 8 goroutines); every 4th
//	            case drives the journal long-poll path of the real rpc Handler (RawGetJournal / RawEditEntity / broadcastJournal)
//	-mode=c19   mapping-heavy histories with random budgets/clock; every 6th case is a pure calcBudget/roundTime stream
//
// Token rendering (the Lean model only sees tokens): entity name ⟨ns,loc⟩ = "w<ns>:w<loc>" / "w<loc>", data tag t with
// length n = "d<t>" padded with 'x' to n bytes, metadata m = "u<m>" ("" for 0), mapping key k = "k<k>", metric 0 = "abc2",
// metric m = "m<m>".
package main

import (
	"context"
	"errors"
	"fmt"
	"io"
	"log"
	"os"
	"sort"
	"strconv"
	"strings"
	"sync"
	"sync/atomic"
	"time"

	"net"

	"github.com/VKCOM/statshouse/internal/data_model"
	"github.com/VKCOM/statshouse/internal/data_model/gen2/tlmetadata"
	"github.com/VKCOM/tl/pkg/rpc"
	"github.com/VKCOM/statshouse/internal/metadata"
	"github.com/VKCOM/statshouse/internal/verifx"
	"github.com/VKCOM/statshouse/internal/vkgo/binlog/fsbinlog"
)

type nolog struct{}

func (nolog) Tracef(string, ...interface{}) {}
func (nolog) Debugf(string, ...interface{}) {}
func (nolog) Infof(string, ...interface{})  {}
func (nolog) Warnf(string, ...interface{})  {}
func (nolog) Errorf(string, ...interface{}) {}

const two32 = int64(1) << 32

// ------------------------------------------------------------------ token rendering

type name struct{ ns, loc int }

func (n name) str() string {
	if n.ns == 0 {
		return fmt.Sprintf("w%d", n.loc)
	}
	return fmt.Sprintf("w%d:w%d", n.ns, n.loc)
}
func (n name) tok() string { return fmt.Sprintf("%d:%d", n.ns, n.loc) }

func nameTok(s string) string {
	parts := strings.Split(s, ":")
	num := func(p string) (int, bool) {
		if len(p) < 2 || p[0] != 'w' {
			return 0, false
		}
		v, err := strconv.Atoi(p[1:])
		return v, err == nil
	}
	switch len(parts) {
	case 1:
		if v, ok := num(parts[0]); ok {
			return fmt.Sprintf("0:%d", v)
		}
	case 2:
		a, ok1 := num(parts[0])
		b, ok2 := num(parts[1])
		if ok1 && ok2 {
			return fmt.Sprintf("%d:%d", a, b)
		}
	}
	return "?" + s
}

func dataStr(tag, n int) string {
	s := fmt.Sprintf("d%d", tag)
	if n > len(s) {
		s += strings.Repeat("x", n-len(s))
	}
	return s
}
func dataTok(s string) string {
	i := 1
	for i < len(s) && s[i] >= '0' && s[i] <= '9' {
		i++
	}
	if len(s) < 2 || s[0] != 'd' {
		return "?" + s
	}
	return fmt.Sprintf("%s/%d", s[1:i], len(s))
}
func metaStr(m int) string {
	if m == 0 {
		return ""
	}
	return fmt.Sprintf("u%d", m)
}
func metaTok(s string) string {
	if s == "" {
		return "0"
	}
	return strings.TrimPrefix(s, "u")
}
func keyStr(k int) string { return fmt.Sprintf("k%d", k) }
func keyTok(s string) string {
	return strings.TrimPrefix(s, "k")
}
func metricStr(m int) string {
	if m == 0 {
		return "abc2"
	}
	return fmt.Sprintf("m%d", m)
}
func metricTok(s string) int {
	if s == "abc2" {
		return 0
	}
	v, _ := strconv.Atoi(strings.TrimPrefix(s, "m"))
	return v
}

func classify(err error) string {
	msg := err.Error()
	switch {
	case errors.Is(err, metadata.VerifErrInvalidVersion):
		return "invalid-version"
	case errors.Is(err, metadata.VerifErrExists):
		return "exists"
	case errors.Is(err, metadata.VerifErrNamespaceMissing):
		return "ns-missing"
	case strings.Contains(msg, "can't rename namespace"):
		return "rename-ns"
	case strings.Contains(msg, "UNIQUE constraint failed"):
		return "constraint"
	}
	return "other:" + strings.ReplaceAll(msg, " ", "_")
}

func eventTok(e tlmetadata.Event) string {
	return fmt.Sprintf("%d:%d:%s:%d:%d:%d:%d:%s", e.Id, e.Version, nameTok(e.Name), e.EventType, e.NamespaceId, e.UpdateTime, e.Unused, dataTok(e.Data))
}

// ------------------------------------------------------------------ the system under test

type sut struct {
	h   *verifx.H
	dir string
	db  *metadata.DBV2
	now int64
	ctx context.Context

	maxBudget, bonus, globalBudget int64
	step                           uint32

	// ---- C15 oracle bookkeeping, built ONLY from what the real code returned
	cur      map[int64]int64  // entity id -> current version
	typ      map[int64]int32  // entity id -> type at creation
	nm       map[int64]string // entity id -> current name
	nsName   map[int64]string // namespace-typed id -> name it was created with
	maxVer   int64
	versions map[int64]bool

	// ---- C19 oracle bookkeeping
	shadow      map[string]int32 // key -> id according to the explicit operations and the real replies
	everID      map[int32]bool   // ids that were ever present
	lastCreated int32
	env         map[int]*envelope

	last  map[int64]saveReq // entity id -> the request that produced its current version (the stored payload)

	// a get-or-create request parked inside DBV2.GetOrCreateMapping, between function entry and its eng.Do (Options.Now seam)
	blockNext atomic.Bool
	entered   chan struct{}
	release   chan struct{}
	lateRes   chan lateReply
	lateM     int
	lateK     int
	parked    bool
	flags map[string]bool
}

type lateReply struct {
	r   tlmetadata.GetMappingResponse
	err error
}

type envelope struct {
	e int64
	k int64
}

func openSut(h *verifx.H, maxBudget int64, step uint32, bonus, globalBudget int64, now int64) *sut {
	// tmpfs when available: every write op waits for the binlog fsync (DurabilityMode WaitCommit)
	dir, err := os.MkdirTemp("/dev/shm", "verif-c15-")
	if err != nil {
		dir, err = os.MkdirTemp("", "verif-c15-")
	}
	if err != nil {
		panic(err)
	}
	bo := fsbinlog.Options{PrefixPath: dir + "/binlog", Magic: 3456} // files are <prefix>.NNNNNN.bin: keep them inside dir
	if _, err := fsbinlog.CreateEmptyFsBinlog(bo); err != nil {
		panic(err)
	}
	x := &sut{h: h, dir: dir, now: now, ctx: context.Background(), maxBudget: maxBudget, step: step, bonus: bonus, globalBudget: globalBudget,
		cur: map[int64]int64{}, typ: map[int64]int32{}, nm: map[int64]string{}, nsName: map[int64]string{},
		versions: map[int64]bool{}, shadow: map[string]int32{}, everID: map[int32]bool{}, env: map[int]*envelope{}, last: map[int64]saveReq{}, flags: map[string]bool{}}
	x.open()
	h.Op("cfg %d %d %d %d", maxBudget, step, bonus, globalBudget)
	return x
}

// open: OpenDB on the files in x.dir (a fresh fsbinlog reader/writer on the same prefix, as a restarted process would)
func (x *sut) open() {
	bl, err := fsbinlog.NewFsBinlog(nolog{}, fsbinlog.Options{PrefixPath: x.dir + "/binlog", Magic: 3456})
	if err != nil {
		panic(err)
	}
	x.db, err = metadata.OpenDB(x.dir+"/db", metadata.Options{MaxBudget: x.maxBudget, StepSec: x.step, BudgetBonus: x.bonus, GlobalBudget: x.globalBudget,
		Now: func() time.Time {
			if x.blockNext.CompareAndSwap(true, false) { // the parked request waits here; it reads the clock when it is released
				close(x.entered)
				<-x.release
			}
			return time.Unix(x.now, 0)
		}}, bl)
	if err != nil {
		panic(err)
	}
}

// reopen: orderly restart (Close, OpenDB). Everything durable must survive; lastMappingIDToInsert starts from 0 again.
func (x *sut) reopen() {
	x.resume()
	x.h.Op("reopen")
	x.guard(func() {
		if err := x.db.Close(); err != nil {
			x.h.Obs("err close %s", strings.ReplaceAll(err.Error(), " ", "_"))
			return
		}
		x.open()
		x.h.Obs("reopened")
		x.h.Stat("reopen", 1)
		x.lastCreated = 0
		x.flags["reopened"] = true
	})
}

func (x *sut) close() {
	if x.parked { // never leave a goroutine inside the DB
		x.parked = false
		close(x.release)
		<-x.lateRes
	}
	_ = x.db.Close()
	_ = os.RemoveAll(x.dir)
}

func (x *sut) guard(f func()) {
	defer func() {
		if r := recover(); r != nil {
			x.h.Obs("panic %s", strings.ReplaceAll(fmt.Sprint(r), " ", "_"))
		}
	}()
	f()
}

// ------------------------------------------------------------------ entity ops

type saveReq struct {
	n               name
	id, oldVersion  int64
	dtag, dlen      int
	create          bool
	del             uint32
	typ             int32
	meta            int
}

func (x *sut) saveOp(a saveReq) string {
	c := 0
	if a.create {
		c = 1
	}
	return fmt.Sprintf("save %s %d %d %d %d %d %d %d %d %d", a.n.tok(), a.id, a.oldVersion, a.dtag, a.dlen, c, a.del, a.typ, a.meta, x.now)
}

func (x *sut) doSave(a saveReq) (tlmetadata.Event, error) {
	return x.db.SaveEntity(x.ctx, a.n.str(), a.id, a.oldVersion, dataStr(a.dtag, a.dlen), a.create, a.del, a.typ, metaStr(a.meta))
}

func (x *sut) save(a saveReq) {
	x.h.Op("%s", x.saveOp(a))
	x.guard(func() {
		e, err := x.doSave(a)
		x.observeSave(a, e, err)
	})
}

// observeSave prints the observation and evaluates the C15 property on the real reply
func (x *sut) observeSave(a saveReq, e tlmetadata.Event, err error) {
	h := x.h
	if err != nil {
		k := classify(err)
		h.Obs("err %s", k)
		h.Stat("save.err."+strings.SplitN(k, ":", 2)[0], 1)
		if k == "invalid-version" || k == "ns-missing" {
			x.flags["stale-rejected"] = true
		}
		return
	}
	prev, existed := x.cur[e.Id]
	created := !existed
	c := 0
	if created {
		c = 1
	}
	h.Obs("ok c=%d %s:%s", c, eventTok(e), metaTok(e.Metadata))
	h.Stat("save.ok", 1)
	// ---- oracle: only the current version may be edited
	if existed && prev != a.oldVersion {
		h.Viol("edit-stale-version-accepted", "entity %d has version %d but an edit naming version %d succeeded", e.Id, prev, a.oldVersion)
	}
	if existed && a.id != e.Id {
		h.Viol("edit-wrong-entity", "request for id %d changed entity %d", a.id, e.Id)
	}
	// ---- oracle: new version is globally unique and greater than all previous ones
	if e.Version <= x.maxVer || x.versions[e.Version] {
		h.Viol("version-not-increasing", "entity %d got version %d, previous maximum %d", e.Id, e.Version, x.maxVer)
	}
	if e.Version > x.maxVer {
		x.maxVer = e.Version
	}
	x.versions[e.Version] = true
	// ---- oracle: an edit is applied only to a row of the request's own type; namespaces cannot be renamed by ANY request
	if existed {
		if x.typ[e.Id] != a.typ {
			h.Viol("edit-foreign-type-accepted", "request of type %d edited entity %d, which is of type %d", a.typ, e.Id, x.typ[e.Id])
		}
		if x.typ[e.Id] == 4 && x.nm[e.Id] != a.n.str() {
			h.Viol("namespace-renamed", "namespace %d renamed from %q to %q by a request of type %d", e.Id, x.nm[e.Id], a.n.str(), a.typ)
		}
		if x.nm[e.Id] != a.n.str() {
			x.flags["renamed"] = true
			h.Stat("save.ok.rename", 1)
		}
		x.flags["edited"] = true
	} else {
		x.typ[e.Id] = a.typ
		if a.typ == 4 {
			x.nsName[e.Id] = a.n.str()
		}
		for id, n := range x.nm {
			_ = id
			if n == a.n.str() {
				x.flags["name-reuse"] = true
			}
		}
	}
	if e.EventType != x.typ[e.Id] {
		h.Viol("entity-type-changed", "entity %d was created with type %d, the reply carries type %d", e.Id, x.typ[e.Id], e.EventType)
	}
	// ---- oracle: an entity in a namespace references an existing namespace
	if (a.typ == 0 || a.typ == 2) && a.n.ns != 0 {
		want := fmt.Sprintf("w%d", a.n.ns)
		nsTyp, known := x.typ[e.NamespaceId]
		if !known || nsTyp != 4 {
			h.Viol("dangling-namespace", "entity %d (%s) saved with namespace_id %d which is not a namespace entity", e.Id, a.n.str(), e.NamespaceId)
		} else if x.nm[e.NamespaceId] != want {
			h.Viol("wrong-namespace", "entity %d (%s) saved with namespace_id %d named %q", e.Id, a.n.str(), e.NamespaceId, x.nm[e.NamespaceId])
		}
		h.Stat("save.ok.namespaced", 1)
	}
	x.cur[e.Id] = e.Version
	x.last[e.Id] = a
	x.nm[e.Id] = a.n.str()
}

func (x *sut) journal(since int64, page int64) {
	x.h.Op("journal %d %d", since, page)
	x.guard(func() {
		evs, err := x.db.JournalEvents(x.ctx, since, page)
		if err != nil {
			x.h.Obs("err %s", classify(err))
			return
		}
		toks := make([]string, len(evs))
		for i, e := range evs {
			toks[i] = eventTok(e)
		}
		x.h.Obs("j %s", verifx.List(toks))
		x.h.Stat("journal", 1)
		x.checkJournalPage(since, evs)
	})
}

// checkJournalPage: ascending, each entity at most once, each at its latest version, nothing older than `since`
func (x *sut) checkJournalPage(since int64, evs []tlmetadata.Event) {
	seen := map[int64]bool{}
	last := since
	for _, e := range evs {
		if e.Version <= last {
			x.h.Viol("journal-order", "version %d after %d (since %d)", e.Version, last, since)
		}
		last = e.Version
		if seen[e.Id] {
			x.h.Viol("journal-dup", "entity %d twice in one journal reply", e.Id)
		}
		seen[e.Id] = true
		if v, ok := x.cur[e.Id]; !ok || v != e.Version {
			x.h.Viol("journal-stale", "entity %d listed at version %d, latest is %d", e.Id, e.Version, v)
		}
	}
}

// journalWalk pages through the whole journal with a small page and checks that every entity with version > since
// is delivered exactly once (reads only; the model is asked the same questions)
func (x *sut) journalWalk(since int64, page int64) {
	got := map[int64]int{}
	from := since
	for n := 0; n < 200; n++ {
		x.h.Op("journal %d %d", from, page)
		evs, err := x.db.JournalEvents(x.ctx, from, page)
		if err != nil {
			x.h.Obs("err %s", classify(err))
			return
		}
		toks := make([]string, len(evs))
		for i, e := range evs {
			toks[i] = eventTok(e)
			got[e.Id]++
		}
		x.h.Obs("j %s", verifx.List(toks))
		x.checkJournalPage(from, evs)
		if len(evs) == 0 {
			break
		}
		from = evs[len(evs)-1].Version
	}
	for id, v := range x.cur {
		if v > since && got[id] != 1 {
			x.h.Viol("journal-missing", "entity %d (version %d > since %d) delivered %d times by paging with page=%d", id, v, since, got[id], page)
		}
	}
	x.h.Stat("journal.walk", 1)
}

func (x *sut) getv(id, ver int64) {
	x.h.Op("getv %d %d", id, ver)
	x.guard(func() {
		e, err := x.db.GetEntityVersioned(x.ctx, id, ver)
		if err != nil {
			x.h.Obs("none")
			return
		}
		x.h.Obs("ev %d:%d:%s:%d:%d:%d:%s:%s", e.Id, e.Version, nameTok(e.Name), e.EventType, e.NamespaceId, e.UpdateTime, dataTok(e.Data), metaTok(e.Metadata))
	})
}

func (x *sut) hist(id int64) {
	x.h.Op("hist %d", id)
	x.guard(func() {
		r, err := x.db.GetHistoryShort(x.ctx, id)
		if err != nil {
			x.h.Obs("err %s", classify(err))
			return
		}
		toks := make([]string, len(r.Events))
		for i, e := range r.Events {
			toks[i] = fmt.Sprintf("%d:%s", e.Version, metaTok(e.Metadata))
		}
		x.h.Obs("h %s", verifx.List(toks))
	})
}

// ------------------------------------------------------------------ mapping ops

func (x *sut) stepIdx() int64 { return (x.now % two32) / int64(x.step) }

func (x *sut) envFor(m int) *envelope {
	e := x.env[m]
	if e == nil {
		e = &envelope{e: x.maxBudget, k: x.stepIdx()}
		x.env[m] = e
	}
	return e
}

func (x *sut) gc(m, k int) {
	x.h.Op("gc %d %d %d", m, k, x.now)
	x.guard(func() {
		r, err := x.db.GetOrCreateMapping(x.ctx, metricStr(m), keyStr(k))
		x.observeGc(m, k, r, err)
	})
}

// park: a get-or-create request enters DBV2.GetOrCreateMapping and is held before its eng.Do (it has not touched the
// database yet); everything the harness does until `resume` is applied BEFORE it
func (x *sut) park(m, k int) {
	if x.parked {
		return
	}
	x.h.Op("park %d %d", m, k)
	x.entered, x.release, x.lateRes = make(chan struct{}), make(chan struct{}), make(chan lateReply, 1)
	x.lateM, x.lateK = m, k
	x.blockNext.Store(true)
	db := x.db
	go func() {
		r, err := db.GetOrCreateMapping(x.ctx, metricStr(m), keyStr(k))
		x.lateRes <- lateReply{r, err}
	}()
	select {
	case <-x.entered:
		x.parked = true
		x.h.Obs("parked")
		x.h.Stat("late.park", 1)
		if x.lastCreated > 0 && int64(x.lastCreated) <= x.globalBudget {
			x.flags["parked-inside-global-budget"] = true
		}
	case <-time.After(20 * time.Second):
		x.h.Obs("hang")
	}
}

// resume: the parked request proceeds now; it is judged like any other request applied at this point
func (x *sut) resume() {
	if !x.parked {
		return
	}
	x.h.Op("resume %d", x.now)
	x.parked = false
	exhausted := !(x.lastCreated > 0 && int64(x.lastCreated) <= x.globalBudget)
	if x.flags["parked-inside-global-budget"] && exhausted {
		if e := x.env[x.lateM]; e != nil && e.e < 1 && e.k == x.stepIdx() {
			x.h.Stat("late.resume.critical", 1) // entered inside the global budget, applied after it and the metric's budget are spent
			x.flags["late-critical"] = true
		}
	}
	delete(x.flags, "parked-inside-global-budget")
	close(x.release)
	select {
	case lr := <-x.lateRes:
		x.guard(func() { x.observeGc(x.lateM, x.lateK, lr.r, lr.err) })
	case <-time.After(20 * time.Second):
		x.h.Obs("hang")
	}
}

// observeGc prints the reply of a get-or-create request and evaluates the C19 oracles at the point where it was applied
func (x *sut) observeGc(m, k int, r tlmetadata.GetMappingResponse, err error) {
	if err != nil {
		x.h.Obs("err %s", classify(err))
		return
	}
	key := keyStr(k)
	switch {
	case r.IsCreated():
		c, _ := r.AsCreated()
		x.h.Obs("created %d", c.Id)
		x.h.Stat("gc.created", 1)
		if id, ok := x.shadow[key]; ok {
			x.h.Viol("mapping-changed", "key %s was mapped to %d but get-or-create created %d", key, id, c.Id)
		}
		if c.Id <= 0 {
			x.h.Viol("mapping-nonpositive", "created id %d", c.Id)
		}
		if x.everID[c.Id] {
			x.h.Viol("mapping-id-reused", "id %d was handed out before (key %s)", c.Id, key)
			x.flags["reuse"] = true
		}
		x.flood(m, c.Id)
		x.shadow[key] = c.Id
		x.everID[c.Id] = true
		x.lastCreated = c.Id
	case r.IsGetMappingResponse():
		g, _ := r.AsGetMappingResponse()
		x.h.Obs("got %d", g.Id)
		x.h.Stat("gc.got", 1)
		if id, ok := x.shadow[key]; !ok || id != g.Id {
			x.h.Viol("mapping-changed", "key %s expected %d (present=%v) but got %d", key, id, ok, g.Id)
		}
	case r.IsFloodLimitError():
		x.h.Obs("flood")
		x.h.Stat("gc.flood", 1)
		x.flags["flood"] = true
		if _, ok := x.shadow[key]; ok {
			x.h.Viol("mapping-changed", "key %s is mapped but get-or-create answered flood limit", key)
		}
	default:
		x.h.Obs("other")
	}
}

// flood: the token-bucket envelope the property allows (see checks/C19.py). Called for every creation.
func (x *sut) flood(m int, id int32) {
	k := x.stepIdx()
	skip := x.lastCreated > 0 && int64(x.lastCreated) <= x.globalBudget
	if skip {
		x.env[m] = &envelope{e: x.maxBudget, k: k}
		x.h.Stat("gc.created.global-budget", 1)
		return
	}
	x.flags["limited"] = true
	e := x.envFor(m)
	if k > e.k {
		if e.e > x.maxBudget {
			e.e += x.bonus * (k - e.k)
		} else if e.e += x.bonus * (k - e.k); e.e > x.maxBudget {
			e.e = x.maxBudget
		}
	} else if k < e.k && e.e < x.maxBudget {
		e.e = x.maxBudget // clock went backwards: the property is silent, be lenient
		x.h.Stat("gc.created.clock-backwards", 1)
	}
	e.k = k
	if e.e < 1 {
		x.h.Viol("flood-bound-exceeded", "metric %d created mapping %d with no budget left (budget=%d step=%d bonus=%d)", m, id, x.maxBudget, x.step, x.bonus)
	}
	e.e--
}

func (x *sut) put(ks []int, vs []int32) {
	toks := make([]string, len(ks))
	keys := make([]string, len(ks))
	for i := range ks {
		toks[i] = fmt.Sprintf("%d:%d", ks[i], vs[i])
		keys[i] = keyStr(ks[i])
	}
	x.h.Op("put %s", verifx.List(toks))
	x.guard(func() {
		err := x.db.PutMapping(x.ctx, keys, vs)
		if err != nil {
			x.h.Obs("err %s", classify(err))
			return
		}
		x.h.Obs("ok")
		x.h.Stat("put", 1)
		for i := range keys { // explicit operation: displaces whatever used the key or the id
			for k2, id2 := range x.shadow {
				if id2 == vs[i] || k2 == keys[i] {
					delete(x.shadow, k2)
				}
			}
			x.shadow[keys[i]] = vs[i]
			x.everID[vs[i]] = true
		}
	})
}

func (x *sut) del(ids []int32) {
	x.h.Op("del %s", verifx.List(ids))
	x.guard(func() {
		n, err := metadata.VerifDeleteMappings(x.db, ids)
		if err != nil {
			x.h.Obs("err %s", classify(err))
			return
		}
		x.h.Obs("n=%d", n)
		x.h.Stat("del", 1)
		cnt := int32(0)
		for k, id := range x.shadow {
			for _, d := range ids {
				if d == id {
					delete(x.shadow, k)
					cnt++
					x.flags["deleted"] = true
					break
				}
			}
		}
		if cnt != n {
			x.h.Viol("delete-count", "deleted ids %v: reported %d present, %d were mapped", ids, n, cnt)
		}
	})
}

func (x *sut) reset(m int, limit int64) {
	x.h.Op("resetr %d %d %d", m, limit, x.now)
	x.guard(func() {
		before, after, err := x.db.ResetFlood(x.ctx, metricStr(m), limit)
		if err != nil {
			x.h.Obs("err %s", classify(err))
			return
		}
		// what the reset really stored: the metric's flood row, read back from the table
		row := "none"
		var stored *metadata.VerifFlood
		if st, err := metadata.VerifDump(x.db); err == nil {
			for i := range st.Flood {
				if st.Flood[i].Metric == metricStr(m) {
					stored = &st.Flood[i]
					row = fmt.Sprintf("%d:%d", stored.Last, stored.Free)
				}
			}
		}
		x.h.Obs("before=%d after=%d row=%s", before, after, row)
		x.h.Stat("reset", 1)
		// ---- oracle: "the value set by a flood reset" is at most min(requested value, ceiling) and at most what the reply reports
		if stored != nil && limit > 0 {
			ceil := int64(metadata.VerifMaxResetLimit)
			want := limit
			if want > ceil {
				want = ceil
				x.h.Stat("reset.above-ceiling", 1)
			}
			if stored.Free > want {
				x.h.Viol("reset-budget-above-ceiling", "reset of metric %d to %d stored a budget of %d, allowed min(value, %d) = %d", m, limit, stored.Free, ceil, want)
			}
			if stored.Free > after {
				x.h.Viol("reset-budget-above-reported", "reset of metric %d to %d reports BudgetAfter=%d but stored %d", m, limit, after, stored.Free)
			}
		}
		if stored != nil && limit <= 0 {
			x.h.Viol("reset-budget-above-ceiling", "reset of metric %d to the default (value %d) left a flood row with budget %d", m, limit, stored.Free)
		}
		b := x.maxBudget
		if after > b {
			b = after
		}
		x.env[m] = &envelope{e: b, k: x.stepIdx()}
	})
}

func (x *sut) byval(k int) {
	x.h.Op("byval %d", k)
	x.guard(func() {
		id, notExists, err := x.db.GetMappingByValue(x.ctx, keyStr(k))
		if err != nil {
			x.h.Obs("err %s", classify(err))
			return
		}
		want, ok := x.shadow[keyStr(k)]
		if notExists {
			x.h.Obs("none")
			if ok {
				x.h.Viol("mapping-changed", "key %s lost (was %d)", keyStr(k), want)
			}
			return
		}
		x.h.Obs("id %d", id)
		if !ok || want != id {
			x.h.Viol("mapping-changed", "key %s resolves to %d, expected %d (present=%v)", keyStr(k), id, want, ok)
		}
	})
}

func (x *sut) byid(id int32) {
	x.h.Op("byid %d", id)
	x.guard(func() {
		k, ok, err := x.db.GetMappingByID(x.ctx, id)
		if err != nil {
			x.h.Obs("err %s", classify(err))
			return
		}
		if !ok {
			x.h.Obs("none")
		} else {
			x.h.Obs("key %s", keyTok(k))
		}
		want := ""
		for k2, id2 := range x.shadow {
			if id2 == id {
				want = k2
			}
		}
		if (want != "") != ok || (ok && want != k) {
			x.h.Viol("mapping-changed", "id %d resolves to %q (present=%v), expected %q", id, k, ok, want)
		}
	})
}

func (x *sut) newmaps(from int32, page int32) {
	x.h.Op("newmaps %d %d", from, page)
	x.guard(func() {
		ms, maxID, err := x.db.GetNewMappings(x.ctx, from, page, nil)
		if err != nil {
			x.h.Obs("err %s", classify(err))
			return
		}
		toks := make([]string, len(ms))
		for i, m := range ms {
			toks[i] = fmt.Sprintf("%d:%s", m.Value, keyTok(m.Str))
		}
		x.h.Obs("m %s max=%d", verifx.List(toks), maxID)
	})
}

// ------------------------------------------------------------------ dump + state oracles

func (x *sut) dump() {
	x.h.Op("dump")
	x.dumpBody(true)
}

func (x *sut) dumpNoHistory() { x.dumpBody(false) }

func (x *sut) dumpBody(withHistory bool) {
	x.guard(func() {
		st, err := metadata.VerifDump(x.db)
		if err != nil {
			x.h.Obs("err %s", classify(err))
			return
		}
		vers := map[int64]int64{}
		names := map[string]int64{}
		for _, e := range st.Entities {
			x.h.Obs("E %d:%d:%s:%d:%d:%d:%d:%s", e.ID, e.Version, nameTok(e.Name), e.Type, e.NamespaceID, e.UpdatedAt, e.DeletedAt, dataTok(e.Data))
			if o, dup := vers[e.Version]; dup {
				x.h.Viol("dup-version", "entities %d and %d share version %d", o, e.ID, e.Version)
			}
			vers[e.Version] = e.ID
			key := fmt.Sprintf("%d/%d/%s", e.NamespaceID, e.Type, e.Name)
			if o, dup := names[key]; dup {
				x.h.Viol("dup-name", "entities %d and %d share (namespace,type,name) %s", o, e.ID, key)
			}
			names[key] = e.ID
			if v, ok := x.cur[e.ID]; !ok || v != e.Version {
				x.h.Viol("version-mismatch", "entity %d stored at version %d, last successful save returned %d", e.ID, e.Version, v)
			}
			if t, ok := x.typ[e.ID]; ok && int64(t) != e.Type {
				x.h.Viol("entity-type-changed", "entity %d was created with type %d, is stored with type %d", e.ID, t, e.Type)
			}
			if e.Type == 4 && x.nsName[e.ID] != e.Name {
				x.h.Viol("namespace-renamed", "namespace %d is now %q, was created as %q", e.ID, e.Name, x.nsName[e.ID])
			}
		}
		if len(st.Entities) != len(x.cur) {
			x.h.Viol("entity-count", "%d rows, %d entities were created", len(st.Entities), len(x.cur))
		}
		hv := map[int64]bool{}
		for _, e := range st.History {
			if !withHistory {
				continue
			}
			x.h.Obs("H %d:%d:%s:%d:%d:%d:%d:%s:%s", e.EntityID, e.Version, nameTok(e.Name), e.Type, e.NamespaceID, e.UpdatedAt, e.DeletedAt, dataTok(e.Data), metaTok(e.Metadata))
			if hv[e.Version] {
				x.h.Viol("dup-version", "history holds version %d twice", e.Version)
			}
			hv[e.Version] = true
		}
		ids := map[int64]bool{}
		keys := map[string]bool{}
		for _, m := range st.Mappings {
			x.h.Obs("M %d %s", m.ID, keyTok(m.Name))
			if ids[m.ID] || keys[m.Name] {
				x.h.Viol("mapping-not-bijective", "id %d / key %s appear twice", m.ID, m.Name)
			}
			ids[m.ID], keys[m.Name] = true, true
			if want, ok := x.shadow[m.Name]; !ok || int64(want) != m.ID {
				x.h.Viol("mapping-changed", "stored mapping %s -> %d, expected %d (present=%v)", m.Name, m.ID, want, ok)
			}
		}
		if len(st.Mappings) != len(x.shadow) {
			x.h.Viol("mapping-changed", "%d stored mappings, %d expected", len(st.Mappings), len(x.shadow))
		}
		sort.Slice(st.Flood, func(i, j int) bool { return metricTok(st.Flood[i].Metric) < metricTok(st.Flood[j].Metric) })
		for _, f := range st.Flood {
			x.h.Obs("F %d %d %d", metricTok(f.Metric), f.Last, f.Free)
		}
		x.h.Obs("S %d %d %d", st.SeqEntities, st.SeqMappings, st.LastMappingID)
	})
}

// ------------------------------------------------------------------ generators

func (x *sut) tick(r *verifx.Rng) {
	switch r.Pick(50, 20, 12, 6, 6, 3, 3) {
	case 0:
	case 1:
		x.now += int64(r.Range(1, int(x.step)))
	case 2:
		x.now += int64(x.step) * int64(r.Range(1, 3))
	case 3:
		x.now += int64(x.step)*int64(r.Range(4, 400)) + int64(r.Intn(int(x.step)))
	case 4: // backwards
		d := int64(r.Range(1, 3*int(x.step)))
		if x.now-d > 0 {
			x.now -= d
			x.h.Stat("clock.backwards", 1)
		}
	case 5: // just below / above the uint32 wrap
		x.now = two32 - int64(r.Range(1, 2*int(x.step)))
		x.h.Stat("clock.near-wrap", 1)
	case 6:
		x.now = two32 + int64(r.Range(0, 5*int(x.step)))
		x.h.Stat("clock.beyond-u32", 1)
	}
}

func (x *sut) versionIsCurrent(v int64) bool {
	for _, cv := range x.cur {
		if cv == v {
			return true
		}
	}
	return false
}

func knownIDs(x *sut) []int64 {
	ids := make([]int64, 0, len(x.cur))
	for id := range x.cur {
		ids = append(ids, id)
	}
	sort.Slice(ids, func(i, j int) bool { return ids[i] < ids[j] })
	return ids
}

func (x *sut) randName(r *verifx.Rng, typ int32) name {
	if typ == 4 {
		if r.Chance(1, 12) {
			return name{r.Range(1, 3), r.Range(1, 4)}
		}
		return name{0, r.Range(1, 4)}
	}
	if r.Chance(2, 5) {
		return name{r.Range(1, 4), r.Range(1, 5)}
	}
	return name{0, r.Range(1, 6)}
}

func randTyp(r *verifx.Rng) int32 {
	return []int32{0, 0, 0, 0, 2, 2, 4, 4, 4, 1, 1, 3, 5}[r.Intn(13)]
}

func parseStrName(s string) name {
	t := nameTok(s)
	var n name
	fmt.Sscanf(t, "%d:%d", &n.ns, &n.loc)
	return n
}

func entityOp(x *sut, r *verifx.Rng, big bool) {
	ids := knownIDs(x)
	dl := func(tag int) int {
		n := len(fmt.Sprintf("d%d", tag)) + r.Intn(3)
		if big && r.Chance(1, 2) {
			n = r.Range(200_000, 600_000)
		}
		return n
	}
	tag := r.Intn(100)
	kind := r.Pick(22, 22, 10, 14, 6, 5, 9, 5, 10, 12)
	if len(ids) == 0 && kind != 6 {
		kind = 0
	}
	switch kind {
	case 0: // create
		typ := randTyp(r)
		a := saveReq{n: x.randName(r, typ), id: 0, oldVersion: 0, dtag: tag, dlen: dl(tag), create: true, typ: typ, meta: r.Intn(4)}
		if r.Chance(1, 6) && len(ids) > 0 { // id and version of an existing entity are ignored by create
			a.id = ids[r.Intn(len(ids))]
			if a.id < 0 {
				a.id = 0
			}
			a.oldVersion = x.cur[a.id]
		}
		x.h.Stat("gen.create", 1)
		x.save(a)
	case 1: // edit, current version, same name
		id := ids[r.Intn(len(ids))]
		a := saveReq{n: parseStrName(x.nm[id]), id: id, oldVersion: x.cur[id], dtag: tag, dlen: dl(tag), typ: x.typ[id], meta: r.Intn(4)}
		x.h.Stat("gen.edit", 1)
		x.save(a)
	case 2: // edit with a stale / foreign / future version
		id := ids[r.Intn(len(ids))]
		a := saveReq{n: parseStrName(x.nm[id]), id: id, dtag: tag, dlen: dl(tag), typ: x.typ[id], meta: r.Intn(4)}
		switch r.Intn(4) {
		case 0:
			a.oldVersion = x.cur[id] - int64(r.Range(1, 2))
			if a.oldVersion < 0 {
				a.oldVersion = 0
			}
		case 1:
			a.oldVersion = x.cur[ids[r.Intn(len(ids))]]
		case 2:
			a.oldVersion = x.maxVer + int64(r.Range(1, 2))
		case 3:
			a.oldVersion = int64(r.Intn(int(x.maxVer) + 1))
		}
		if r.Chance(1, 4) {
			a.n = x.randName(r, a.typ)
		}
		x.h.Stat("gen.edit-stale", 1)
		x.save(a)
	case 3: // rename (maybe onto a used name, maybe into a missing namespace)
		id := ids[r.Intn(len(ids))]
		a := saveReq{n: x.randName(r, x.typ[id]), id: id, oldVersion: x.cur[id], dtag: tag, dlen: dl(tag), typ: x.typ[id], meta: r.Intn(4)}
		if r.Chance(1, 3) {
			other := ids[r.Intn(len(ids))]
			a.n = parseStrName(x.nm[other])
		}
		x.h.Stat("gen.rename", 1)
		x.save(a)
	case 4: // delete / undelete
		id := ids[r.Intn(len(ids))]
		a := saveReq{n: parseStrName(x.nm[id]), id: id, oldVersion: x.cur[id], dtag: tag, dlen: dl(tag), typ: x.typ[id], meta: r.Intn(4), del: uint32(r.Intn(2)) * uint32(x.now%two32)}
		x.h.Stat("gen.delete", 1)
		x.save(a)
	case 5: // request of another type for an existing row
		id := ids[r.Intn(len(ids))]
		a := saveReq{n: parseStrName(x.nm[id]), id: id, oldVersion: x.cur[id], dtag: tag, dlen: dl(tag), typ: randTyp(r), meta: r.Intn(4)}
		if r.Bool() {
			a.n = x.randName(r, a.typ)
		}
		x.h.Stat("gen.type-mismatch", 1)
		x.save(a)
	case 6: // builtin (negative id): created through the edit path (namespaces only with the create flag)
		typ := randTyp(r)
		id := int64(-r.Range(1, 3))
		if r.Chance(1, 3) {
			typ = 4
		}
		a := saveReq{n: x.randName(r, typ), id: id, dtag: tag, dlen: dl(tag), create: r.Chance(1, 3), typ: typ, meta: r.Intn(4)}
		if typ == 4 {
			a.create = r.Chance(3, 4)
			a.n = name{0, r.Range(1, 8)}
		}
		if v, ok := x.cur[id]; ok {
			a.typ = x.typ[id]
			a.oldVersion = v
			if r.Chance(1, 2) {
				a.n = parseStrName(x.nm[id])
			} else {
				a.n = x.randName(r, a.typ)
			}
			if a.typ == 4 {
				if r.Bool() {
					a.n = name{0, r.Range(1, 8)}
				}
				a.create = r.Bool() // "create" of an existing builtin namespace is an edit
				x.h.Stat("gen.builtin.namespace-edit", 1)
			}
			if r.Chance(1, 4) {
				a.oldVersion = int64(r.Intn(int(x.maxVer) + 1))
			}
		}
		x.h.Stat("gen.builtin", 1)
		x.save(a)
	case 7: // create=true naming an existing name of the same type
		id := ids[r.Intn(len(ids))]
		a := saveReq{n: parseStrName(x.nm[id]), dtag: tag, dlen: dl(tag), create: true, typ: x.typ[id], meta: r.Intn(4)}
		x.h.Stat("gen.create-dup", 1)
		x.save(a)
	case 9: // re-save an entity UNCHANGED (same name, data, delete time) — every type; still an edit: new version, history, journal
		id := ids[r.Intn(len(ids))]
		a, ok := x.last[id]
		if !ok {
			return
		}
		a.id, a.create, a.oldVersion, a.meta = id, false, x.cur[id], r.Intn(4)
		x.h.Stat("gen.resave-unchanged", 1)
		x.h.Stat(fmt.Sprintf("gen.resave-unchanged.type%d", a.typ), 1)
		x.save(a)
		if r.Chance(1, 2) { // the same request again: its version is stale now and must be refused
			x.h.Stat("gen.resave-unchanged.stale-repeat", 1)
			x.save(a)
		}
	case 8: // reads
		switch r.Intn(4) {
		case 0:
			x.journal(int64(r.Intn(int(x.maxVer)+2)), []int64{-1, 0, 1, 2, 3, 5, 1000, 5000}[r.Intn(8)])
		case 1:
			x.journalWalk(int64(r.Intn(int(x.maxVer)+1)), int64(r.Range(1, 4)))
		case 2:
			id := ids[r.Intn(len(ids))]
			x.getv(id, int64(r.Intn(int(x.maxVer)+2)))
			x.getv(id, x.cur[id])
		case 3:
			x.hist(ids[r.Intn(len(ids))])
		}
	}
}

func mappingOp(x *sut, r *verifx.Rng, nkeys, nmetrics int) {
	pickID := func() int32 {
		if len(x.everID) > 0 && r.Chance(3, 4) {
			ids := make([]int, 0, len(x.everID))
			for id := range x.everID {
				ids = append(ids, int(id))
			}
			sort.Ints(ids)
			return int32(ids[r.Intn(len(ids))])
		}
		return int32(r.Range(-1, 12))
	}
	switch r.Pick(60, 6, 8, 8, 4, 4, 3) {
	case 0:
		x.gc(r.Intn(nmetrics), r.Intn(nkeys))
	case 1:
		n := r.Range(1, 3)
		ks := make([]int, n)
		vs := make([]int32, n)
		for i := range ks {
			ks[i] = r.Intn(nkeys)
			vs[i] = pickID()
			if r.Chance(1, 4) {
				vs[i] = int32(r.Range(1, 40))
			}
		}
		x.put(ks, vs)
	case 2:
		n := r.Range(1, 4)
		ids := make([]int32, n)
		for i := range ids {
			ids[i] = pickID()
		}
		x.del(ids)
	case 3:
		ceil := int64(metadata.VerifMaxResetLimit)
		lim := []int64{0, -1, 1, 2, x.maxBudget - 1, x.maxBudget, x.maxBudget + 1, x.maxBudget + 3, ceil - 1, ceil, ceil + 1, 2 * ceil, 2147483647, ceil + int64(r.Range(2, 5000))}[r.Intn(14)]
		x.reset(r.Intn(nmetrics), lim)
	case 4:
		x.byval(r.Intn(nkeys))
	case 5:
		x.byid(pickID())
	case 6:
		x.newmaps(int32(r.Range(-1, 8)), []int32{-1, 0, 1, 2, 3, 1000, 60000}[r.Intn(7)])
	}
}

func historyC15(h *verifx.H, r *verifx.Rng) {
	x := openSut(h, 1000, 3600, 10, 1000000, int64(r.Range(1_000_000, 2_000_000)))
	defer x.close()
	big := r.Chance(1, 25)
	if big {
		h.Stat("case.big-data", 1)
	}
	nops := r.Range(10, 45)
	for i := 0; i < nops; i++ {
		x.tick(r)
		if r.Chance(1, 12) {
			mappingOp(x, r, 6, 2)
		} else {
			entityOp(x, r, big)
		}
		if r.Chance(1, 6) {
			x.dump()
		}
	}
	x.journalWalk(0, int64(r.Range(1, 3)))
	x.journal(0, 1000)
	x.dump()
	if x.flags["edited"] && (x.flags["renamed"] || x.flags["name-reuse"]) && x.flags["stale-rejected"] {
		h.NonTrivial("edit+rename/reuse+stale-rejected")
	}
}

// raceC15: identical requests from 8 goroutines against the same version (the replies do not depend on which goroutine
// wins, so the output is deterministic); the op lines are printed winner first.
func raceC15(h *verifx.H, r *verifx.Rng) {
	x := openSut(h, 1000, 3600, 10, 1000000, int64(r.Range(1_000_000, 2_000_000)))
	defer x.close()
	for i := r.Range(0, 5); i > 0; i-- {
		entityOp(x, r, false)
	}
	rounds := r.Range(1, 4)
	for round := 0; round < rounds; round++ {
		x.tick(r)
		typ := []int32{0, 0, 2, 4, 1}[r.Intn(5)]
		var a saveReq
		kind := r.Intn(4)
		ids := knownIDs(x)
		switch {
		case kind == 0 || len(ids) == 0: // racing creates of the same name
			a = saveReq{n: x.randName(r, typ), create: true, typ: typ, dtag: r.Intn(100), dlen: 4, meta: 1}
			h.Stat("race.create", 1)
		case kind == 1: // racing edits from the current version (maybe a rename)
			id := ids[r.Intn(len(ids))]
			a = saveReq{n: parseStrName(x.nm[id]), id: id, oldVersion: x.cur[id], typ: x.typ[id], dtag: r.Intn(100), dlen: 4, meta: 2}
			if r.Bool() && a.typ != 4 {
				a.n = name{0, r.Range(7, 9)}
			}
			h.Stat("race.edit", 1)
		case kind == 3: // racing re-saves that change NOTHING (payload identical to the stored row): still exactly one winner
			id := ids[r.Intn(len(ids))]
			if l, ok := x.last[id]; ok {
				a = l
				a.id, a.create, a.oldVersion, a.meta = id, false, x.cur[id], 2
			} else {
				a = saveReq{n: parseStrName(x.nm[id]), id: id, oldVersion: x.cur[id], typ: x.typ[id], dtag: r.Intn(100), dlen: 4, meta: 2}
			}
			h.Stat("race.resave-unchanged", 1)
		default: // racing edits from a stale version: nobody may win
			id := ids[r.Intn(len(ids))]
			a = saveReq{n: parseStrName(x.nm[id]), id: id, oldVersion: x.cur[id] + 1, typ: x.typ[id], dtag: r.Intn(100), dlen: 4, meta: 3}
			h.Stat("race.stale", 1)
		}
		const K = 8
		type res struct {
			e   tlmetadata.Event
			err error
		}
		out := make([]res, K)
		var wg sync.WaitGroup
		start := make(chan struct{})
		for g := 0; g < K; g++ {
			wg.Add(1)
			go func(g int) {
				defer wg.Done()
				<-start
				e, err := x.doSave(a)
				out[g] = res{e, err}
			}(g)
		}
		close(start)
		wg.Wait()
		sort.SliceStable(out, func(i, j int) bool { return out[i].err == nil && out[j].err != nil })
		wins := 0
		for _, o := range out {
			if o.err == nil {
				wins++
			}
		}
		for _, o := range out {
			h.Op("%s", x.saveOp(a))
			x.observeSave(a, o.e, o.err)
		}
		// ---- oracle: of several edits racing from the same version at most one succeeds; exactly one when the request
		// is valid on its own (decided by the sequential replies: the first one is what a lone request would get)
		if wins > 1 {
			h.Viol("race-multiple-winners", "%d of %d identical racing requests succeeded: %s", wins, K, x.saveOp(a))
		}
		h.Stat(fmt.Sprintf("race.winners.%d", wins), 1)
		if wins == 1 {
			h.NonTrivial("race-one-winner")
		}
	}
	// ---- racing edits with DIFFERENT payloads (new names, data, metadata) from one version: which goroutine wins is not
	// deterministic, so only order-independent facts are printed (number of winners, id, new version, sorted error kinds); the
	// winner's payload is then overwritten by a fixed edit and the history table is left out of the final dump
	if ids := knownIDs(x); len(ids) > 0 {
		x.tick(r)
		id := ids[r.Intn(len(ids))]
		typ := x.typ[id]
		const K = 8
		reqs := make([]saveReq, K)
		toks := make([]string, K)
		for g := range reqs {
			n := name{0, 100 + g}
			if typ == 4 {
				n = parseStrName(x.nm[id]) // namespaces keep their name: the racers differ in data and metadata
			}
			reqs[g] = saveReq{n: n, id: id, oldVersion: x.cur[id], typ: typ, dtag: 10 + g, dlen: 4, meta: g % 4}
			toks[g] = fmt.Sprintf("%s/%d/%d", n.tok(), 10+g, g%4)
		}
		h.Op("race %d %d %d %d %s", id, x.cur[id], typ, x.now, strings.Join(toks, ","))
		type res struct {
			e   tlmetadata.Event
			err error
		}
		out := make([]res, K)
		var wg sync.WaitGroup
		start := make(chan struct{})
		for g := 0; g < K; g++ {
			wg.Add(1)
			go func(g int) {
				defer wg.Done()
				<-start
				e, err := x.doSave(reqs[g])
				out[g] = res{e, err}
			}(g)
		}
		close(start)
		wg.Wait()
		wins, who := 0, ""
		var errs []string
		for g, o := range out {
			if o.err != nil {
				errs = append(errs, classify(o.err))
				continue
			}
			wins++
			who = fmt.Sprintf(" id=%d ver=%d", o.e.Id, o.e.Version)
			if o.e.Version <= x.maxVer {
				h.Viol("version-not-increasing", "racing edit of entity %d got version %d, previous maximum %d", id, o.e.Version, x.maxVer)
			}
			x.cur[o.e.Id], x.nm[o.e.Id] = o.e.Version, reqs[g].n.str()
			x.versions[o.e.Version] = true
			if o.e.Version > x.maxVer {
				x.maxVer = o.e.Version
			}
		}
		if wins != 1 {
			who = ""
		}
		sort.Strings(errs)
		h.Obs("race ok=%d%s errs=%s", wins, who, verifx.List(errs))
		h.Stat(fmt.Sprintf("race.distinct.winners.%d", wins), 1)
		if wins > 1 {
			h.Viol("race-multiple-winners", "%d of %d racing edits with different payloads from version %d of entity %d succeeded", wins, K, reqs[0].oldVersion, id)
		}
		if wins == 0 {
			h.Viol("race-no-winner", "none of %d racing edits (each valid on its own) from version %d of entity %d succeeded: %v", K, reqs[0].oldVersion, id, errs)
		}
		if wins == 1 {
			h.NonTrivial("race-distinct-one-winner")
			fix := saveReq{n: name{0, 99}, id: id, oldVersion: x.cur[id], typ: typ, dtag: 1, dlen: 4, meta: 1}
			if typ == 4 {
				fix.n = parseStrName(x.nm[id])
			}
			x.save(fix) // overwrites whatever the winner wrote
		}
	}
	x.journalWalk(0, 2)
	x.h.Op("dumpe")
	x.dumpNoHistory()
}

// ------------------------------------------------------------------ journal long-poll through the real rpc handler

type pollReply struct {
	c    int
	resp tlmetadata.GetJournalResponsenew
	err  error
}

type poller struct {
	x       *sut
	hd      *metadata.Handler
	srv     *rpc.Server
	cl      *tlmetadata.Client
	rc      rpc.Client
	ctx     context.Context
	cancel  func()
	replies chan pollReply
	parked  map[int]int64 // client -> From of its parked request (harness view, from the real replies)
	lastCur map[int]int64 // client -> CurrentVersion of its last reply (what a well-behaved client asks from next)
	seen    map[int]map[int64]bool // client -> versions delivered in the current protocol-following session
}

func newPoller(x *sut) *poller {
	p := &poller{x: x, replies: make(chan pollReply, 256), parked: map[int]int64{}, lastCur: map[int]int64{}, seen: map[int]map[int64]bool{}}
	p.hd = metadata.NewHandler(x.db, "verif", "", func(string, ...interface{}) {})
	proxy := metadata.ProxyHandler{}
	hh := tlmetadata.Handler{RawEditEntitynew: proxy.HandleProxy("", p.hd.RawEditEntity)}
	sh := tlmetadata.Handler{RawGetJournalnew: proxy.HandleProxy("", p.hd.RawGetJournal)}
	p.srv = rpc.NewServer(rpc.ServerWithHandler(hh.Handle), rpc.ServerWithSyncHandler(sh.Handle), rpc.ServerWithLogf(func(string, ...any) {}))
	ln, err := net.Listen("tcp4", "127.0.0.1:0")
	if err != nil {
		panic(err)
	}
	go func() { _ = p.srv.Serve(ln) }()
	p.rc = rpc.NewClient(rpc.ClientWithLogf(func(string, ...any) {}))
	p.cl = &tlmetadata.Client{Client: p.rc, Network: "tcp4", Address: ln.Addr().String()}
	p.ctx, p.cancel = context.WithCancel(context.Background())
	return p
}

func (p *poller) close() {
	p.cancel()
	_ = p.rc.Close()
	_ = p.srv.Close()
}

// checkReply: the C15 journal clause on what one client received: only versions newer than its From, strictly ascending,
// every event is the entity's latest version, nothing between From and CurrentVersion is left out, and — across the replies
// of a client that always continues from the CurrentVersion it was given — no version twice.
func (p *poller) checkReply(c int, from int64, resp tlmetadata.GetJournalResponsenew) {
	h := p.x.h
	last := from
	got := map[int64]bool{}
	for _, e := range resp.Events {
		if e.Version <= from {
			h.Viol("journal-client-duplicate", "client %d asked from=%d and was sent entity %d at version %d again", c, from, e.Id, e.Version)
		} else if e.Version <= last {
			h.Viol("journal-client-not-ascending", "client %d (from=%d): version %d after %d", c, from, e.Version, last)
		}
		last = e.Version
		if v, ok := p.x.cur[e.Id]; !ok || v != e.Version {
			h.Viol("journal-stale", "client %d: entity %d delivered at version %d, latest is %d", c, e.Id, e.Version, v)
		}
		if p.seen[c][e.Version] {
			h.Viol("journal-client-duplicate", "client %d received version %d twice in one session", c, e.Version)
		}
		p.seen[c][e.Version] = true
		got[e.Id] = true
	}
	if len(resp.Events) > 0 && resp.CurrentVersion != resp.Events[len(resp.Events)-1].Version {
		h.Viol("journal-client-missed", "client %d: CurrentVersion %d but last event %d (a client continuing from it skips or repeats)", c, resp.CurrentVersion, resp.Events[len(resp.Events)-1].Version)
	}
	for id, v := range p.x.cur {
		if v > from && v <= resp.CurrentVersion && !got[id] {
			h.Viol("journal-client-missed", "client %d (from=%d, CurrentVersion=%d) was not sent entity %d at version %d", c, from, resp.CurrentVersion, id, v)
		}
	}
	p.lastCur[c] = resp.CurrentVersion
}

func replyTok(c int, resp tlmetadata.GetJournalResponsenew) string {
	toks := make([]string, len(resp.Events))
	for i, e := range resp.Events {
		toks[i] = eventTok(e)
	}
	return fmt.Sprintf("reply %d cur=%d %s", c, resp.CurrentVersion, verifx.List(toks))
}

// sub: client c sends metadata.getJournalnew; the harness waits until the request is either answered or parked
func (p *poller) sub(c int, from int64, limit int64, rie bool) {
	h := p.x.h
	b := 0
	if rie {
		b = 1
	}
	h.Op("sub %d %d %d %d", c, from, limit, b)
	if from != p.lastCur[c] || p.seen[c] == nil {
		p.seen[c] = map[int64]bool{} // the client jumps: a new session
	}
	before := len(metadata.VerifJournalWaiting(p.hd))
	args := tlmetadata.GetJournalnew{From: from, Limit: limit}
	args.SetReturnIfEmpty(rie)
	go func() {
		var r tlmetadata.GetJournalResponsenew
		err := p.cl.GetJournalnew(p.ctx, args, nil, &r)
		p.replies <- pollReply{c, r, err}
	}()
	deadline := time.Now().Add(20 * time.Second)
	for {
		select {
		case r := <-p.replies:
			if r.err != nil {
				h.Obs("err %s", strings.ReplaceAll(r.err.Error(), " ", "_"))
				return
			}
			h.Obs("%s", replyTok(r.c, r.resp))
			h.Stat("poll.reply-immediate", 1)
			p.checkReply(r.c, from, r.resp)
			return
		default:
		}
		if len(metadata.VerifJournalWaiting(p.hd)) == before+1 {
			h.Obs("parked %d", c)
			h.Stat("poll.parked", 1)
			p.parked[c] = from
			// ---- oracle: a request is parked only when nothing newer than its From exists
			for id, v := range p.x.cur {
				if v > from {
					h.Viol("journal-client-missed", "client %d parked with from=%d although entity %d is at version %d", c, from, id, v)
					break
				}
			}
			return
		}
		if time.Now().After(deadline) {
			h.Obs("hang")
			return
		}
		time.Sleep(50 * time.Microsecond)
	}
}

// afterBroadcast collects the replies of the clients that broadcastJournal released and prints them in client order
func (p *poller) afterBroadcast() {
	h := p.x.h
	left := metadata.VerifJournalWaiting(p.hd)
	n := len(p.parked) - len(left)
	var rs []pollReply
	deadline := time.After(20 * time.Second)
	for len(rs) < n {
		select {
		case r := <-p.replies:
			rs = append(rs, r)
		case <-deadline:
			h.Obs("hang")
			n = len(rs)
		}
	}
	sort.Slice(rs, func(i, j int) bool { return rs[i].c < rs[j].c })
	for _, r := range rs {
		from := p.parked[r.c]
		delete(p.parked, r.c)
		if r.err != nil {
			h.Obs("err %d %s", r.c, strings.ReplaceAll(r.err.Error(), " ", "_"))
			continue
		}
		h.Obs("%s", replyTok(r.c, r.resp))
		h.Stat("poll.reply-broadcast", 1)
		if len(r.resp.Events) == 0 {
			h.Viol("journal-client-missed", "client %d released by a broadcast with no events", r.c)
		}
		p.checkReply(r.c, from, r.resp)
	}
	h.Obs("waiting %s", verifx.List(left))
	// ---- oracle: after a broadcast nobody stays parked behind a version that exists (pages hold 100 events, cases are smaller)
	for c, from := range p.parked {
		for id, v := range p.x.cur {
			if v > from {
				h.Viol("journal-client-missed", "client %d still parked with from=%d after a broadcast although entity %d is at version %d", c, from, id, v)
				break
			}
		}
	}
}

// critical: the schedule the journal clause hinges on — clients parked at different From values, the highest of them AT the
// version of an event that the coming broadcast will read
func (p *poller) critical() {
	lo, hi := int64(-1), int64(-1)
	for _, f := range p.parked {
		if lo < 0 || f < lo {
			lo = f
		}
		if f > hi {
			hi = f
		}
	}
	if lo >= 0 && hi > lo && p.x.versionIsCurrent(hi) {
		p.x.flags["poll-critical"] = true
		p.x.h.Stat("poll.broadcast.critical", 1)
	}
}

func (p *poller) broadcast() {
	p.critical()
	p.x.h.Op("broadcast")
	metadata.VerifBroadcastJournal(p.hd)
	p.x.h.Stat("poll.broadcast", 1)
	p.afterBroadcast()
}

func classifyRPC(err error) string {
	var re *rpc.Error
	if errors.As(err, &re) {
		switch {
		case re.Code == data_model.ErrEntityInvalidVersion.Code:
			return "invalid-version"
		case re.Code == data_model.ErrEntityExists.Code:
			return "exists"
		case strings.Contains(re.Description, "namespace doesn't exists"):
			return "ns-missing"
		case strings.Contains(re.Description, "can't rename namespace"):
			return "rename-ns"
		case strings.Contains(re.Description, "UNIQUE constraint failed"):
			return "constraint"
		}
	}
	return "other:" + strings.ReplaceAll(err.Error(), " ", "_")
}

// rpcsave: the production path — metadata.editEntitynew through the rpc server: RawEditEntity = SaveEntity + broadcastJournal
func (p *poller) rpcsave(a saveReq) {
	x := p.x
	x.h.Op("rpc%s", x.saveOp(a))
	ev := tlmetadata.Event{Id: a.id, Name: a.n.str(), EventType: a.typ, Version: a.oldVersion, Data: dataStr(a.dtag, a.dlen), Unused: a.del}
	ev.SetMetadata(metaStr(a.meta))
	args := tlmetadata.EditEntitynew{Event: ev}
	args.SetCreate(a.create)
	var out tlmetadata.Event
	p.critical()
	err := p.cl.EditEntitynew(p.ctx, args, nil, &out)
	if err != nil {
		k := classifyRPC(err)
		x.h.Obs("err %s", k)
		x.h.Stat("save.err."+strings.SplitN(k, ":", 2)[0], 1)
		return
	}
	x.observeSave(a, out, nil)
	p.afterBroadcast()
}

// pollC15: 2-4 journal long-poll clients, saves whose broadcast is delayed (db.SaveEntity, then an explicit broadcast op: the
// window in which other clients fetch and re-subscribe), saves through the rpc handler, clients that mostly continue from
// the CurrentVersion they were given and sometimes jump.
func pollC15(h *verifx.H, r *verifx.Rng) {
	x := openSut(h, 1000, 3600, 10, 1000000, int64(r.Range(1_000_000, 2_000_000)))
	defer x.close()
	p := newPoller(x)
	defer p.close()
	nclients := r.Range(2, 4)
	nops := r.Range(12, 40)
	for i := 0; i < nops; i++ {
		x.tick(r)
		ids := knownIDs(x)
		switch r.Pick(16, 8, 50, 9, 3) {
		case 0, 1: // a save: most of them directly on the DB (broadcast pending), the rest through the handler
			var a saveReq
			tag := r.Intn(100)
			if len(ids) == 0 || r.Chance(2, 5) {
				a = saveReq{n: name{0, r.Range(1, 12)}, create: true, typ: 0, dtag: tag, dlen: 4, meta: r.Intn(3)}
			} else {
				id := ids[r.Intn(len(ids))]
				a = saveReq{n: parseStrName(x.nm[id]), id: id, oldVersion: x.cur[id], typ: x.typ[id], dtag: tag, dlen: 4, meta: r.Intn(3)}
				if r.Chance(1, 6) {
					a.oldVersion = int64(r.Intn(int(x.maxVer) + 1))
				}
			}
			if r.Chance(4, 5) {
				x.save(a)
				h.Stat("poll.save-direct", 1)
			} else {
				p.rpcsave(a)
				h.Stat("poll.save-rpc", 1)
			}
		case 2: // a client that is not parked asks again
			c := r.Intn(nclients)
			if _, busy := p.parked[c]; busy {
				continue
			}
			from := p.lastCur[c]
			if r.Chance(1, 10) {
				from = int64(r.Intn(int(x.maxVer) + 2))
			}
			limit := []int64{1000, 1000, 1000, 100, 2, 1}[r.Intn(6)]
			p.sub(c, from, limit, r.Chance(1, 8))
			// a well-behaved client keeps asking from the CurrentVersion it was given until it is parked
			for k := 0; k < 4 && r.Chance(3, 4); k++ {
				if _, busy := p.parked[c]; busy {
					break
				}
				p.sub(c, p.lastCur[c], 1000, false)
			}
		case 3:
			p.broadcast()
		case 4:
			x.journal(int64(r.Intn(int(x.maxVer)+2)), 1000)
		}
	}
	p.broadcast()
	x.dump()
	if x.flags["poll-critical"] {
		h.NonTrivial("broadcast-with-client-at-pending-version")
	}
}

func historyC19(h *verifx.H, r *verifx.Rng) {
	maxBudget := []int64{1, 2, 3, 3, 5, 8, 1000}[r.Intn(7)]
	step := []uint32{1, 7, 60, 60, 3600}[r.Intn(5)]
	bonus := []int64{0, 1, 1, 2, 10}[r.Intn(5)]
	global := []int64{0, 0, 0, 2, 5, 1000000}[r.Intn(6)]
	x := openSut(h, maxBudget, step, bonus, global, int64(r.Range(1_000_000, 2_000_000)))
	defer x.close()
	nkeys := r.Range(4, 40)
	nmetrics := r.Range(1, 4)
	nops := r.Range(15, 70)
	for i := 0; i < nops; i++ {
		x.tick(r)
		if r.Chance(1, 15) {
			entityOp(x, r, false)
		} else if r.Chance(1, 30) {
			x.reopen()
			x.dump()
		} else if r.Chance(1, 20) {
			if x.parked {
				x.resume()
			} else {
				x.park(r.Intn(nmetrics), r.Intn(nkeys))
			}
		} else {
			mappingOp(x, r, nkeys, nmetrics)
		}
		if r.Chance(1, 8) {
			x.dump()
		}
	}
	x.resume()
	x.newmaps(0, 1000)
	x.dump()
	if x.flags["flood"] && x.flags["limited"] {
		h.NonTrivial("flood-limit-hit")
	}
	if x.flags["deleted"] {
		h.NonTrivial("deleted-then-continued")
	}
}

// bigResetC19 (thorough tier, once per run): a reset far above the ceiling followed by ceiling+50 real creations in one step —
// exactly `ceiling` of them may succeed, the rest must answer flood-limit
func bigResetC19(h *verifx.H, r *verifx.Rng) {
	x := openSut(h, 3, 60, 1, 0, int64(r.Range(1_000_000, 2_000_000)))
	defer x.close()
	x.gc(1, 0)
	x.reset(1, 2147483647)
	n := int(metadata.VerifMaxResetLimit) + 50
	for k := 1; k <= n; k++ {
		x.gc(1, k)
	}
	x.newmaps(int32(n-60), 1000)
	x.h.Op("dumpe")
	x.dumpNoHistory()
	if x.flags["flood"] {
		h.NonTrivial("flood-limit-hit")
	}
	h.Stat("case.big-reset", 1)
}

// lateC19: the schedule around the exhaustion of the global budget. Mappings are created until the last created id is near the
// global budget, one request is parked inside GetOrCreateMapping (before its eng.Do), other requests then run — exhausting the
// global budget and, usually, the metric's own budget — and only then the parked request is applied.
func lateC19(h *verifx.H, r *verifx.Rng) {
	maxBudget := int64(r.Range(1, 3))
	step := []uint32{60, 3600}[r.Intn(2)]
	bonus := int64(r.Intn(2))
	global := int64(r.Range(1, 6))
	x := openSut(h, maxBudget, step, bonus, global, int64(r.Range(1_000_000, 2_000_000)))
	defer x.close()
	m := r.Range(1, 2)
	key := 0
	fresh := func() int { key++; return key }
	rounds := r.Range(1, 3)
	for round := 0; round < rounds; round++ {
		// approach the boundary: stop 0-2 ids before the global budget is used up (or run past it sometimes)
		target := global - int64(r.Range(0, 2)) + int64(r.Intn(2))*int64(r.Intn(3))
		for n := 0; int64(x.lastCreated) < target && n < 12; n++ {
			x.gc(m, fresh())
		}
		pm := m
		if r.Chance(1, 5) {
			pm = 3 - m
		}
		pk := fresh()
		if r.Chance(1, 8) && key > 2 {
			pk = r.Range(1, key-1) // an existing key: the parked request only reads
		}
		x.park(pm, pk)
		// how many creations it takes to leave the global budget and then spend the metric's own budget; vary around that
		need := int(global) - int(x.lastCreated) + 1 + int(maxBudget)
		if need < 1 {
			need = 1
		}
		n := need + r.Range(-1, 2)
		if r.Chance(1, 4) {
			n = r.Range(1, int(maxBudget)+3)
		}
		for ; n > 0; n-- {
			if r.Chance(1, 12) {
				x.tick(r)
			}
			switch r.Pick(20, 2, 1, 1) {
			case 0:
				x.gc(m, fresh())
			case 1:
				x.gc(3-m, fresh())
			case 2:
				x.reset(m, []int64{0, 1, maxBudget + 2}[r.Intn(3)])
			case 3:
				x.del([]int32{int32(r.Range(1, key))})
			}
		}
		x.resume()
		for n := r.Range(0, 2); n > 0; n-- {
			x.gc(pm, fresh())
		}
		if r.Chance(1, 3) {
			x.reopen()
		}
	}
	x.dump()
	if x.flags["late-critical"] {
		h.NonTrivial("late-request-applied-after-budgets-spent")
	}
	if x.flags["flood"] && x.flags["limited"] {
		h.NonTrivial("flood-limit-hit")
	}
}

func pureC19(h *verifx.H, r *verifx.Rng) {
	h.Op("cfg 1000 3600 10 1000000")
	edge := func(c int64) int64 { return c + int64(r.Range(-2, 2)) }
	for i := 0; i < 60; i++ {
		max := []int64{0, 1, 3, 500, 1000}[r.Intn(5)]
		step := []uint32{1, 5, 60, 3600, 86400}[r.Intn(5)]
		bonus := []int64{0, 1, 10, 100}[r.Intn(4)]
		old := []int64{edge(0), edge(max), int64(r.Range(-5, 20)), 9999, 10000}[r.Intn(5)]
		expense := int64(r.Range(0, 2))
		last := uint32(r.U64())
		var now uint32
		switch r.Intn(5) {
		case 0:
			now = last
		case 1:
			now = last + uint32(r.Intn(3*int(step)))
		case 2:
			now = last - uint32(r.Range(1, 3*int(step))) // clock went backwards: unsigned wrap
		case 3:
			now = last + step*uint32(r.Range(1, 2000))
		case 4:
			now = uint32(r.U64())
		}
		h.Op("calc %d %d %d %d %d %d %d", old, expense, last, now, max, bonus, step)
		res := metadata.VerifCalcBudget(old, expense, last, now, max, bonus, step)
		h.Obs("r %d", res)
		// direct oracle: the result never exceeds what was there plus the bonus of the elapsed steps, and never max
		if res > old-expense+int64((now-last)/step)*bonus {
			h.Viol("calc-budget-too-large", "calcBudget(%d,%d,%d,%d,%d,%d,%d)=%d", old, expense, last, now, max, bonus, step, res)
		}
		if old <= max && expense >= 1 && res >= max {
			h.Viol("calc-budget-over-max", "calcBudget(%d,%d,%d,%d,%d,%d,%d)=%d", old, expense, last, now, max, bonus, step, res)
		}
		h.Stat("pure.calc", 1)
		unix := int64(r.U64() % uint64(3*two32/2))
		h.Op("round %d %d", unix, step)
		rt := metadata.VerifRoundTime(unix, step)
		h.Obs("r %d", rt)
		if rt%step != 0 || uint32(unix)-rt >= step {
			h.Viol("round-time", "roundTime(%d,%d)=%d", unix, step, rt)
		}
	}
	h.NonTrivial("pure")
}

// scriptCase replays op lines ("> save …" or "save …", one per line) from the file named by -arg on the real DBV2:
// used for corpus files and to confirm model-found witnesses on the implementation.
func scriptCase(h *verifx.H) {
	raw, err := os.ReadFile(h.Arg)
	if err != nil {
		panic(err)
	}
	var x *sut
	var p *poller // the rpc server + Handler, started by the first rpcsave / sub / broadcast op
	poll := func() *poller {
		if p == nil {
			p = newPoller(x)
		}
		return p
	}
	defer func() {
		if p != nil {
			p.close()
		}
	}()
	atoi := func(s string) int64 { v, _ := strconv.ParseInt(s, 10, 64); return v }
	for _, line := range strings.Split(string(raw), "\n") {
		t := strings.Fields(strings.TrimPrefix(strings.TrimSpace(line), ">"))
		if len(t) == 0 || strings.HasPrefix(t[0], "@") || strings.HasPrefix(t[0], "<") || strings.HasPrefix(t[0], "#") || strings.HasPrefix(t[0], "!") {
			continue
		}
		if t[0] == "cfg" && len(t) == 5 {
			if x != nil {
				x.close()
			}
			x = openSut(h, atoi(t[1]), uint32(atoi(t[2])), atoi(t[3]), atoi(t[4]), 1_000_000)
			continue
		}
		if x == nil {
			x = openSut(h, 1000, 3600, 10, 1000000, 1_000_000)
		}
		switch {
		case t[0] == "save" && len(t) == 11:
			var n name
			fmt.Sscanf(t[1], "%d:%d", &n.ns, &n.loc)
			x.now = atoi(t[10])
			x.save(saveReq{n: n, id: atoi(t[2]), oldVersion: atoi(t[3]), dtag: int(atoi(t[4])), dlen: int(atoi(t[5])), create: t[6] == "1",
				del: uint32(atoi(t[7])), typ: int32(atoi(t[8])), meta: int(atoi(t[9]))})
		case t[0] == "rpcsave" && len(t) == 11:
			var n name
			fmt.Sscanf(t[1], "%d:%d", &n.ns, &n.loc)
			x.now = atoi(t[10])
			poll().rpcsave(saveReq{n: n, id: atoi(t[2]), oldVersion: atoi(t[3]), dtag: int(atoi(t[4])), dlen: int(atoi(t[5])), create: t[6] == "1",
				del: uint32(atoi(t[7])), typ: int32(atoi(t[8])), meta: int(atoi(t[9]))})
		case t[0] == "sub" && len(t) == 5:
			poll().sub(int(atoi(t[1])), atoi(t[2]), atoi(t[3]), t[4] == "1")
		case t[0] == "broadcast":
			poll().broadcast()
		case t[0] == "journal" && len(t) == 3:
			x.journal(atoi(t[1]), atoi(t[2]))
		case t[0] == "getv" && len(t) == 3:
			x.getv(atoi(t[1]), atoi(t[2]))
		case t[0] == "hist" && len(t) == 2:
			x.hist(atoi(t[1]))
		case t[0] == "gc" && len(t) == 4:
			x.now = atoi(t[3])
			x.gc(int(atoi(t[1])), int(atoi(t[2])))
		case t[0] == "put" && len(t) == 2:
			var ks []int
			var vs []int32
			if t[1] != "-" {
				for _, kv := range strings.Split(t[1], ",") {
					p := strings.Split(kv, ":")
					ks = append(ks, int(atoi(p[0])))
					vs = append(vs, int32(atoi(p[1])))
				}
			}
			x.put(ks, vs)
		case t[0] == "del" && len(t) == 2:
			var ids []int32
			if t[1] != "-" {
				for _, v := range strings.Split(t[1], ",") {
					ids = append(ids, int32(atoi(v)))
				}
			}
			x.del(ids)
		case (t[0] == "reset" || t[0] == "resetr") && len(t) == 4:
			x.now = atoi(t[3])
			x.reset(int(atoi(t[1])), atoi(t[2]))
		case t[0] == "byval" && len(t) == 2:
			x.byval(int(atoi(t[1])))
		case t[0] == "byid" && len(t) == 2:
			x.byid(int32(atoi(t[1])))
		case t[0] == "newmaps" && len(t) == 3:
			x.newmaps(int32(atoi(t[1])), int32(atoi(t[2])))
		case t[0] == "park" && len(t) == 3:
			x.park(int(atoi(t[1])), int(atoi(t[2])))
		case t[0] == "resume":
			if len(t) == 2 {
				x.now = atoi(t[1])
			}
			x.resume()
		case t[0] == "reopen":
			x.reopen()
		case t[0] == "dump":
			x.dump()
		default:
			h.Note("script: skipped %q", line)
		}
	}
	if x != nil {
		x.close()
	}
}

func main() {
	log.SetOutput(io.Discard)
	h := verifx.New()
	if h.Mode == "script" {
		h.N = 1
		h.Cases(func(i int, r *verifx.Rng) { scriptCase(h) })
		h.Done()
		return
	}
	h.Cases(func(i int, r *verifx.Rng) {
		switch h.Mode {
		case "c19":
			if h.Tier == "thorough" && i == 7 && h.Seed%1000 == 0 {
				bigResetC19(h, r)
			} else if i%6 == 5 {
				pureC19(h, r)
			} else if i%6 == 2 {
				lateC19(h, r)
			} else {
				historyC19(h, r)
			}
		default:
			if i%8 == 7 {
				raceC15(h, r)
			} else if i%4 == 1 {
				pollC15(h, r)
			} else {
				historyC15(h, r)
			}
		}
	})
	h.Done()
}
