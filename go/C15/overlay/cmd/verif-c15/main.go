//go:build verif

package main

import (
	"context"
	"fmt"
	"io"
	"log"
	"os"
	"time"

	"github.com/VKCOM/statshouse/internal/format"
	"github.com/VKCOM/statshouse/internal/metadata"
	"github.com/VKCOM/statshouse/internal/vkgo/binlog/fsbinlog"
)

type nolog struct{}

func (nolog) Tracef(string, ...interface{}) {}
func (nolog) Debugf(string, ...interface{}) {}
func (nolog) Infof(string, ...interface{})  {}
func (nolog) Warnf(string, ...interface{})  {}
func (nolog) Errorf(string, ...interface{}) {}

func main() {
	log.SetOutput(io.Discard)
	t0 := time.Now()
	for k := 0; k < 20; k++ {
		dir, _ := os.MkdirTemp("", "verif-c15-")
		bo := fsbinlog.Options{PrefixPath: dir, Magic: 3456}
		if _, err := fsbinlog.CreateEmptyFsBinlog(bo); err != nil {
			panic(err)
		}
		bl, err := fsbinlog.NewFsBinlog(nolog{}, bo)
		if err != nil {
			panic(err)
		}
		now := time.Unix(1000000, 0)
		db, err := metadata.OpenDB(dir+"/db", metadata.Options{MaxBudget: 3, StepSec: 60, BudgetBonus: 1, GlobalBudget: 2, Now: func() time.Time { return now }}, bl)
		if err != nil {
			panic(err)
		}
		ctx := context.Background()
		for i := 0; i < 30; i++ {
			e, err := db.SaveEntity(ctx, fmt.Sprintf("m%d", i%7), 0, 0, "{}", true, 0, format.MetricEvent, "meta")
			if k == 0 && i < 9 {
				fmt.Println(e.Id, e.Version, err)
			}
			r, err := db.GetOrCreateMapping(ctx, "m", fmt.Sprintf("k%d", i))
			if k == 0 && i < 9 {
				fmt.Println(r, err)
			}
		}
		if k == 0 {
			e, err := db.SaveEntity(ctx, "neg", -5, 0, "{}", false, 0, format.MetricEvent, "meta")
			fmt.Println(e, err)
			e, err = db.SaveEntity(ctx, "m1", -6, 0, "{}", false, 0, format.MetricEvent, "meta")
			fmt.Println(e, err)
			e, err = db.SaveEntity(ctx, "after", 0, 0, "{}", true, 0, format.MetricEvent, "meta")
			fmt.Println(e, err)
			fmt.Println(db.PutMapping(ctx, []string{"a", "k0", "z"}, []int32{100, 2, 0}))
			r, err := db.GetOrCreateMapping(ctx, "m2", "fresh")
			fmt.Println(r, err)
			st, err := metadata.VerifDump(db)
			fmt.Printf("%+v %v\n", st, err)
		}
		db.Close()
		os.RemoveAll(dir)
	}
	fmt.Println("elapsed", time.Since(t0))
}
