//go:build verif

// verif-c29: correspondence + direct oracle for the round-robin queue and the weighted semaphore.
// Every model op is one call on the real object; blocked Acquire calls are goroutines; after every op
// the harness waits for quiescence (returned + parked == started) using the verif accessors.
package main

import (
	"context"
	"fmt"
	"math"
	"sort"
	"time"

	"github.com/VKCOM/statshouse/internal/util/queue"
	"github.com/VKCOM/statshouse/internal/verifx"
	"github.com/VKCOM/statshouse/internal/vkgo/semaphore"
)

type ret struct {
	id  int
	err error
}

// ---------------------------------------------------------------- queue

type qh struct {
	h        *verifx.H
	q        *queue.Queue
	started  int
	done     int
	rets     chan ret
	cancels  map[int]context.CancelFunc
	user     map[int]int   // query id -> user
	pending  map[int]bool  // not yet returned
	granted  int
	released int
	passed   map[int]map[int]bool // waiting user v -> users granted since v started waiting / was granted
	waitQ    map[int]int          // user -> number of parked queries
}

func (x *qh) settle() (grants []int, cancelled []int, hang bool) {
	deadline := time.Now().Add(10 * time.Second)
	for {
		for {
			select {
			case r := <-x.rets:
				x.done++
				delete(x.pending, r.id)
				if r.err == nil {
					grants = append(grants, r.id)
				} else {
					cancelled = append(cancelled, r.id)
				}
				continue
			default:
			}
			break
		}
		if x.done+queue.VerifWaiting(x.q) == x.started {
			// one more drain: a goroutine may have sent between the drain and the count
			select {
			case r := <-x.rets:
				x.done++
				delete(x.pending, r.id)
				if r.err == nil {
					grants = append(grants, r.id)
				} else {
					cancelled = append(cancelled, r.id)
				}
				continue
			default:
			}
			return grants, cancelled, false
		}
		if time.Now().After(deadline) {
			return grants, cancelled, true
		}
		time.Sleep(20 * time.Microsecond)
	}
}

func (x *qh) observe(opname string, isRelease bool, grants []int) {
	active, _ := x.q.Observe()
	cap := queue.VerifCap(x.q)
	waiting := queue.VerifWaiting(x.q)
	sort.Ints(grants)
	x.h.Obs("q active=%d cap=%d waiting=%d grants=%s", active, cap, waiting, verifx.List(grants))
	// ---- direct oracle on the real object
	x.granted += len(grants)
	if isRelease {
		x.released++
	}
	if len(grants) > 0 && active > cap {
		x.h.Viol("queue-grant-over-capacity", "op=%s granted %v although active=%d cap=%d", opname, grants, active, cap)
	}
	if waiting > 0 && active < cap {
		x.h.Viol("queue-not-work-conserving", "op=%s leaves %d waiting with active=%d < cap=%d", opname, waiting, active, cap)
	}
	if int64(x.granted-x.released) != active {
		x.h.Viol("queue-leak", "op=%s active=%d but granted-released=%d", opname, active, x.granted-x.released)
	}
	// no-overtake bookkeeping
	perUser := map[int]int{}
	for _, g := range grants {
		perUser[x.user[g]]++
	}
	for u, k := range perUser {
		for v, p := range x.passed {
			if v == u {
				continue
			}
			stillWaiting := x.waitQ[v] > 0 && perUser[v] == 0
			if stillWaiting && (p[u] || k > 1) {
				x.h.Viol("queue-overtake", "op=%s user %d granted again while user %d still waiting", opname, u, v)
			}
		}
	}
	for u, k := range perUser {
		if x.waitQ[u] > 0 { // a parked query of u was granted
			x.waitQ[u] -= k
			if x.waitQ[u] < 0 {
				x.waitQ[u] = 0
			}
		}
		for v, p := range x.passed {
			if v != u {
				p[u] = true
			}
		}
	}
	// the order of grants inside one critical section is not observable: a user granted in this op is
	// assumed to have been granted last (lenient; the step-by-step correspondence pins the exact order)
	for u := range perUser {
		if x.waitQ[u] > 0 {
			x.passed[u] = map[int]bool{}
		} else {
			delete(x.passed, u)
		}
	}
}

func runQueue(h *verifx.H, r *verifx.Rng) {
	capacity := r.Range(0, 4)
	x := &qh{h: h, q: queue.NewQueue(int64(capacity)), rets: make(chan ret, 1024), cancels: map[int]context.CancelFunc{},
		user: map[int]int{}, pending: map[int]bool{}, passed: map[int]map[int]bool{}, waitQ: map[int]int{}}
	h.Op("q new %d", capacity)
	nops := r.Range(5, 40)
	users := r.Range(1, 5)
	nextQ := 1
	adjusted, waitedDuringAdjust := false, false
	for i := 0; i < nops; i++ {
		active, _ := x.q.Observe()
		switch r.Pick(5, 2, 4, 2, 2) {
		case 4: // release racing with the cancellation of one parked query
			var parked []int
			for id := range x.pending {
				parked = append(parked, id)
			}
			if active <= 0 || len(parked) == 0 {
				continue
			}
			sort.Ints(parked)
			id := parked[r.Intn(len(parked))]
			h.Stat("q.relcancel", 1)
			h.Op("q relcancel %d", id)
			queue.VerifReleaseRacingCancel(x.q, x.cancels[id], func() { time.Sleep(300 * time.Microsecond) })
			var grants, cancelled []int
			deadline := time.Now().Add(10 * time.Second)
			for {
				g, c, hang := x.settle()
				grants, cancelled = append(grants, g...), append(cancelled, c...)
				if !x.pending[id] && !hang {
					break
				}
				if time.Now().After(deadline) {
					h.Viol("queue-hang", "release racing with cancel of %d never settled", id)
					return
				}
			}
			for _, c := range cancelled {
				u := x.user[c]
				x.waitQ[u]--
				if x.waitQ[u] <= 0 {
					delete(x.passed, u)
					x.waitQ[u] = 0
				}
			}
			h.NonTrivial("cancel-races-grant")
			x.observe("relcancel", true, grants)
		case 0: // acquire
			u, id := r.Range(1, users), nextQ
			nextQ++
			ctx, cancel := context.WithCancel(context.Background())
			x.cancels[id], x.user[id], x.pending[id] = cancel, u, true
			x.started++
			h.Stat("q.acquire", 1)
			h.Op("q acq %d %d", u, id)
			go func() { x.rets <- ret{id, x.q.Acquire(ctx, fmt.Sprint(u))} }()
			grants, _, hang := x.settle()
			if hang {
				h.Viol("queue-hang", "acquire never settled")
				return
			}
			if x.pending[id] { // parked
				if x.waitQ[u] == 0 {
					x.passed[u] = map[int]bool{}
				}
				x.waitQ[u]++
			}
			x.observe("acquire", false, grants)
		case 1: // cancel a parked (or already finished) query
			if nextQ == 1 {
				continue
			}
			id := r.Range(1, nextQ-1)
			h.Stat("q.cancel", 1)
			h.Op("q cancel %d", id)
			wasPending := x.pending[id]
			x.cancels[id]()
			var grants, cancelled []int
			if wasPending {
				deadline := time.Now().Add(10 * time.Second)
				for x.pending[id] {
					g, c, _ := x.settle()
					grants, cancelled = append(grants, g...), append(cancelled, c...)
					if time.Now().After(deadline) {
						h.Viol("queue-hang", "cancelled acquire %d never returned", id)
						return
					}
				}
			}
			for _, c := range cancelled {
				u := x.user[c]
				x.waitQ[u]--
				if x.waitQ[u] <= 0 {
					delete(x.passed, u)
					x.waitQ[u] = 0
				}
			}
			x.observe("cancel", false, grants)
		case 2: // release
			if active <= 0 {
				continue
			}
			h.Stat("q.release", 1)
			h.Op("q rel")
			x.q.Release()
			grants, _, hang := x.settle()
			if hang {
				h.Viol("queue-hang", "release never settled")
				return
			}
			x.observe("release", true, grants)
		case 3: // adjust
			c := r.Range(0, 5)
			h.Stat("q.adjust", 1)
			h.Op("q adj %d", c)
			adjusted = true
			if queue.VerifWaiting(x.q) > 0 {
				waitedDuringAdjust = true
			}
			x.q.AdjustCapacity(uint64(c))
			grants, _, hang := x.settle()
			if hang {
				h.Viol("queue-hang", "adjust never settled")
				return
			}
			x.observe("adjust", false, grants)
		}
	}
	if adjusted && waitedDuringAdjust {
		h.NonTrivial("capacity-change-while-waiting")
	}
	for _, c := range x.cancels { // unblock leftovers
		c()
	}
}

// ---------------------------------------------------------------- semaphore

type sh struct {
	h       *verifx.H
	s       *semaphore.Weighted
	started int
	done    int
	doomed  map[int]bool
	rets    chan ret
	pending map[int]bool
	fifo    []int       // parked ids in arrival order (harness' own bookkeeping)
	heldSum func() int64
	weight  map[int]int64
}

func (x *sh) drain(grants, failed *[]int) bool {
	got := false
	for {
		select {
		case r := <-x.rets:
			x.done++
			delete(x.pending, r.id)
			if r.err == nil {
				*grants = append(*grants, r.id)
			} else {
				*failed = append(*failed, r.id)
			}
			got = true
			continue
		default:
		}
		return got
	}
}

func (x *sh) settle() (grants, failed []int, hang bool) {
	deadline := time.Now().Add(10 * time.Second)
	for {
		x.drain(&grants, &failed)
		nd := 0
		for id := range x.doomed {
			if x.pending[id] {
				nd++
			}
		}
		if x.done+semaphore.VerifWaiters(x.s)+nd == x.started {
			if x.drain(&grants, &failed) {
				continue
			}
			return grants, failed, false
		}
		if time.Now().After(deadline) {
			return grants, failed, true
		}
		time.Sleep(20 * time.Microsecond)
	}
}

func (x *sh) observe(opname string, grants, failed []int, parkedBefore []int) {
	cur, size := x.s.Observe()
	waiting := semaphore.VerifWaiters(x.s)
	sort.Ints(grants)
	sort.Ints(failed)
	x.h.Obs("s cur=%d size=%d waiting=%d granted=%s failed=%s", cur, size, waiting, verifx.List(grants), verifx.List(failed))
	// ---- direct oracle
	if x.heldSum != nil {
		if hs := x.heldSum(); hs != cur {
			x.h.Viol("sem-accounting-cur", "op=%s cur=%d but the callers hold %d", opname, cur, hs)
		} else if len(grants) > 0 && hs > size {
			x.h.Viol("sem-over-size", "op=%s admitted %v although callers hold %d > size=%d", opname, grants, hs, size)
		}
	}
	if len(grants) > 0 && cur > size {
		x.h.Viol("sem-over-size", "op=%s granted %v with cur=%d > size=%d", opname, grants, cur, size)
	}
	// FIFO: parked ids granted by this op must be a prefix of the parked list
	gset := map[int]bool{}
	for _, g := range grants {
		gset[g] = true
	}
	fset := map[int]bool{}
	for _, f := range failed {
		fset[f] = true
	}
	var pb []int
	for _, p := range parkedBefore {
		if !fset[p] {
			pb = append(pb, p)
		}
	}
	parkedBefore = pb
	np := 0
	for _, g := range grants {
		for _, p := range parkedBefore {
			if p == g {
				np++
			}
		}
	}
	for i := 0; i < np && i < len(parkedBefore); i++ {
		if !gset[parkedBefore[i]] {
			x.h.Viol("sem-fifo", "op=%s granted %v but earlier waiter %d is still parked (order %v)", opname, grants, parkedBefore[i], parkedBefore)
			break
		}
	}
	// rebuild fifo
	var nf []int
	for _, p := range x.fifo {
		if x.pending[p] && !x.doomed[p] {
			nf = append(nf, p)
		}
	}
	x.fifo = nf
	if len(x.fifo) != waiting {
		x.h.Viol("sem-accounting", "op=%s harness sees %d parked, semaphore %d", opname, len(x.fifo), waiting)
	}
	if len(x.fifo) > 0 && x.weight[x.fifo[0]] > 0 && size-cur >= x.weight[x.fifo[0]] {
		x.h.Viol("sem-lost-wakeup", "op=%s head waiter %d (n=%d) fits: cur=%d size=%d", opname, x.fifo[0], x.weight[x.fifo[0]], cur, size)
	}
}

func runSem(h *verifx.H, r *verifx.Rng) {
	size := semSize(r)
	huge := size > 1<<40 // "unlimited" semaphore: boundary weights near MaxInt64 are exercised
	x := &sh{h: h, s: semaphore.NewWeighted(size), rets: make(chan ret, 1024), doomed: map[int]bool{}, pending: map[int]bool{}, weight: map[int]int64{}}
	h.Op("s new %d", size)
	cancels := map[int]context.CancelFunc{}
	held := []int64{} // weights currently held (so that Release never panics)
	heldBy := map[int]bool{}
	nops := r.Range(5, 40)
	nextID := 1
	sizeChanged := false
	noteGrants := func(grants []int) {
		for _, g := range grants {
			if !heldBy[g] {
				heldBy[g] = true
				held = append(held, x.weight[g])
			}
		}
	}
	x.heldSum = func() int64 {
		var t int64
		for _, w := range held {
			t += w
		}
		return t
	}
	for i := 0; i < nops; i++ {
		parkedBefore := append([]int(nil), x.fifo...)
		switch r.Pick(6, 2, 3, 5, 2, 1, 2) {
		case 6: // release racing with the cancellation of one parked acquire
			if len(held) == 0 || len(x.fifo) == 0 {
				continue
			}
			k := r.Intn(len(held))
			n := held[k]
			held = append(held[:k], held[k+1:]...)
			id := x.fifo[r.Intn(len(x.fifo))]
			h.Stat("s.relcancel", 1)
			h.Op("s relcancel %d %d", n, id)
			semaphore.VerifReleaseRacingCancel(x.s, n, cancels[id], func() { time.Sleep(300 * time.Microsecond) })
			var grants, failed []int
			deadline := time.Now().Add(10 * time.Second)
			for {
				g, f, hang := x.settle()
				grants, failed = append(grants, g...), append(failed, f...)
				if !x.pending[id] && !hang {
					break
				}
				if time.Now().After(deadline) {
					h.Viol("sem-hang", "release racing with cancel of %d never settled", id)
					return
				}
			}
			noteGrants(grants)
			h.NonTrivial("cancel-races-grant")
			x.observe("relcancel", grants, failed, parkedBefore)
		case 0: // acquire
			id, n := nextID, semWeight(r, huge)
			nextID++
			ctx, cancel := context.WithCancel(context.Background())
			x.weight[id] = n
			cur, sz := x.s.Observe()
			if !(sz-cur >= n && semaphore.VerifWaiters(x.s) == 0) && n > sz {
				// "doomed" acquire (n > size): the real call parks on ctx.Done() outside the waiter list, which
				// nothing can observe. It is run with an already cancelled context, i.e. as the two model ops
				// acquire;cancel executed by one call.
				cancel()
				h.Stat("s.acquire_doomed", 1)
				h.Op("s acq %d %d", id, n)
				x.observe("acquire", nil, nil, parkedBefore)
				h.Op("s cancel %d", id)
				err := x.s.Acquire(ctx, n)
				if err == nil {
					x.observe("cancel", []int{id}, nil, parkedBefore)
				} else {
					x.observe("cancel", nil, []int{id}, parkedBefore)
				}
				continue
			}
			cancels[id], x.pending[id] = cancel, true
			x.started++
			h.Stat("s.acquire", 1)
			h.Op("s acq %d %d", id, n)
			go func() { x.rets <- ret{id, x.s.Acquire(ctx, n)} }()
			grants, failed, hang := x.settle()
			if hang {
				h.Viol("sem-hang", "acquire never settled")
				return
			}
			if x.pending[id] {
				x.fifo = append(x.fifo, id)
			}
			noteGrants(grants)
			x.observe("acquire", grants, failed, parkedBefore)
		case 1: // tryAcquire
			id, n := nextID, semWeight(r, huge)
			nextID++
			x.weight[id] = n
			h.Stat("s.try", 1)
			h.Op("s try %d %d", id, n)
			var grants, failed []int
			if x.s.TryAcquire(n) {
				grants = []int{id}
			} else {
				failed = []int{id}
			}
			noteGrants(grants)
			x.observe("try", grants, failed, parkedBefore)
		case 2: // cancel
			if nextID == 1 {
				continue
			}
			id := r.Range(1, nextID-1)
			c, ok := cancels[id]
			if !ok {
				continue
			}
			h.Stat("s.cancel", 1)
			h.Op("s cancel %d", id)
			wasPending := x.pending[id]
			isFront := len(x.fifo) > 0 && x.fifo[0] == id
			cur0, size0 := x.s.Observe()
			c()
			var grants, failed []int
			if wasPending {
				deadline := time.Now().Add(10 * time.Second)
				for x.pending[id] {
					g, f, _ := x.settle()
					grants, failed = append(grants, g...), append(failed, f...)
					if time.Now().After(deadline) {
						h.Viol("sem-hang", "cancelled acquire %d never returned", id)
						return
					}
				}
			}
			noteGrants(grants)
			cur1, size1 := x.s.Observe()
			if wasPending && !isFront && (cur0 != cur1 || size0 != size1 || len(grants) != 0) {
				h.Viol("sem-cancel-changed", "cancel of non-front waiter %d changed cur %d->%d size %d->%d grants %v", id, cur0, cur1, size0, size1, grants)
			}
			x.observe("cancel", grants, failed, parkedBefore)
		case 3: // release
			if len(held) == 0 {
				continue
			}
			k := r.Intn(len(held))
			n := held[k]
			held = append(held[:k], held[k+1:]...)
			h.Stat("s.release", 1)
			h.Op("s rel %d", n)
			x.s.Release(n)
			grants, failed, hang := x.settle()
			if hang {
				h.Viol("sem-hang", "release never settled")
				return
			}
			noteGrants(grants)
			x.observe("release", grants, failed, parkedBefore)
		case 4: // setSize
			n := int64(r.Range(0, 7))
			if huge {
				n = semSize(r)
			}
			h.Stat("s.setsize", 1)
			h.Op("s size %d", n)
			if len(x.fifo) > 0 {
				sizeChanged = true
			}
			x.s.SetSize(n)
			grants, failed, hang := x.settle()
			if hang {
				h.Viol("sem-hang", "setSize never settled")
				return
			}
			noteGrants(grants)
			x.observe("setsize", grants, failed, parkedBefore)
		case 5: // forceAcquire
			n := int64(r.Range(0, 3))
			if cur0, _ := x.s.Observe(); cur0 > 1<<61 {
				continue // cur + n would overflow int64 in the real ForceAcquire; outside the property
			}
			h.Stat("s.force", 1)
			h.Op("s force %d", n)
			x.s.ForceAcquire(n)
			held = append(held, n)
			x.observe("force", nil, nil, parkedBefore)
		}
	}
	if sizeChanged {
		h.NonTrivial("size-change-while-waiting")
	}
	for _, c := range cancels {
		c()
	}
}

// semSize: mostly small sizes; sometimes an "unlimited" semaphore (MaxInt64 and neighbours), the configuration in
// which a room check written as cur+n <= size overflows while the code's size-cur >= n does not.
func semSize(r *verifx.Rng) int64 {
	switch r.Pick(12, 1, 1) {
	case 1:
		return math.MaxInt64
	case 2:
		return math.MaxInt64 - int64(r.Range(1, 5))
	}
	return int64(r.Range(0, 6))
}

func semWeight(r *verifx.Rng, huge bool) int64 {
	if huge {
		switch r.Pick(3, 1, 1, 1) {
		case 1:
			return math.MaxInt64
		case 2:
			return math.MaxInt64 - int64(r.Range(1, 5))
		case 3:
			return 1 << 62
		}
	} else if r.Chance(1, 25) {
		return math.MaxInt64 // doomed on a small semaphore; cur+n overflows if cur > 0
	}
	return int64(r.Range(0, 4))
}

func main() {
	h := verifx.New()
	h.Cases(func(i int, r *verifx.Rng) {
		if i%2 == 0 {
			runQueue(h, r)
		} else {
			runSem(h, r)
		}
	})
	h.Done()
}
