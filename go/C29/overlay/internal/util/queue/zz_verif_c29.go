//go:build verif

package queue

// VerifWaiting returns the number of parked queries (read under the queue's own mutex).
func VerifWaiting(q *Queue) int {
	q.mx.Lock()
	defer q.mx.Unlock()
	n := 0
	for _, u := range q.waitingUsersByName {
		n += u.qry.Len()
	}
	return n
}

// VerifCap returns maxActiveQuery.
func VerifCap(q *Queue) int64 {
	q.mx.Lock()
	defer q.mx.Unlock()
	return q.maxActiveQuery
}

// VerifReleaseRacingCancel performs Release's critical section while `cancel` (a context cancel of a parked
// Acquire) fires inside it: the woken waiter blocks on q.mx, so if it is the one being granted it takes the
// `isClosed` branch of Acquire. `settle` gives the waiter time to reach the mutex (any schedule is legal:
// correct code keeps the slot for a query that was granted, whichever select branch it takes).
func VerifReleaseRacingCancel(q *Queue, cancel func(), settle func()) {
	q.mx.Lock()
	cancel()
	settle()
	q.activeQuery--
	q.nextQueryLocked()
	q.mx.Unlock()
}
