//go:build verif

package queue

// VerifWaiting returns the number of parked queries (read under the queue's own mutex).
func VerifWaiting(q *Queue) int {
	q.mx.Lock()
	defer q.mx.Unlock()
	n := 0
	for _, u := range q.waitingUsersByName {
		n += u.qry.Len()
	}
	return n
}

// VerifCap returns maxActiveQuery.
func VerifCap(q *Queue) int64 {
	q.mx.Lock()
	defer q.mx.Unlock()
	return q.maxActiveQuery
}
