//go:build verif

package semaphore

// VerifWaiters returns the number of parked Acquire calls (read under the semaphore's own mutex).
func VerifWaiters(s *Weighted) int {
	s.mu.Lock()
	defer s.mu.Unlock()
	return s.waiters.Len()
}

// VerifReleaseRacingCancel performs Release(n)'s critical section while `cancel` (the context of a parked
// Acquire) fires inside it, so that a waiter admitted by this release may observe "acquired after cancelled".
func VerifReleaseRacingCancel(s *Weighted, n int64, cancel func(), settle func()) {
	s.mu.Lock()
	cancel()
	settle()
	s.cur -= n
	s.notifyWaiters()
	s.mu.Unlock()
}
