//go:build verif

package semaphore

// VerifWaiters returns the number of parked Acquire calls (read under the semaphore's own mutex).
func VerifWaiters(s *Weighted) int {
	s.mu.Lock()
	defer s.mu.Unlock()
	return s.waiters.Len()
}
