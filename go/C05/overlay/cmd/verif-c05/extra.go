//go:build verif

// Second-round cases of verif-c05 (see main.go):
//
//	agentCase — the REAL (*agent.Shard).sampleBucket (NoSampleAgent bypass, accounted metric of ingestion statuses,
//	            budget computation, KeepF assembling the rows of SourceBucket3 with their sample factor) against
//	            SH.Sampler.agentBucket; direct oracle: rows of NoSampleAgent metrics are sent whole.
//	hostCase  — the REAL aggregator.calcHostMetricBudgets (real Aggregator, real MetricsStorage) against the model's quota
//	            mode + hostBudget (x2 bonus); direct oracle on the budgets handed back.
//	sizeCase  — Key.TLSizeEstimate, MultiItem.TLSizeEstimate, MultiItem.RowBinarySizeEstimate against keyTLSize /
//	            itemTLSize / itemRowSize (the sizes that reach sampler.Add are never < 1).
package main

import (
	"encoding/json"
	"fmt"
	"math"
	"math/big"
	"sort"
	"strings"

	"github.com/hrissan/tdigest"
	"pgregory.net/rand"

	"github.com/VKCOM/statshouse/internal/agent"
	"github.com/VKCOM/statshouse/internal/aggregator"
	"github.com/VKCOM/statshouse/internal/data_model"
	"github.com/VKCOM/statshouse/internal/data_model/gen2/tlmetadata"
	"github.com/VKCOM/statshouse/internal/format"
	"github.com/VKCOM/statshouse/internal/verifx"
)

// ---------------------------------------------------------------------------------------------------- agent

type arow struct {
	id        int
	item      *data_model.MultiItem
	ownMetric int32
	account   int32
	count     float64
	whale     float64
	size      int
	bypass    bool
	ns, grp   int32
	wMetric   int64
	wNsTab    int64
	wGrpTab   int64
	noSample  bool
	fki       []int
	single    bool
	// observed
	sent    bool
	counter float64
}

type msum struct {
	n, one, sf, drop int
	bits             uint64
	wsum             *big.Int // sum of the whale weights of the rows sent with factor 1
}

func bigOf(f float64) *big.Int {
	b, _ := new(big.Float).SetFloat64(f).Int(nil)
	return b
}

func agentCase(h *verifx.H, ci int, r *verifx.Rng) {
	const now = uint32(1_700_000_000)
	component := int32(format.TagValueIDComponentAgent)
	if r.Chance(1, 4) {
		component = format.TagValueIDComponentAggregator // built-in agent of an aggregator: ModeAgent is false
	}
	mm := &metaMock{metrics: map[int32]*format.MetricMetaValue{}, groups: map[int32]*format.MetricsGroup{}, namespaces: map[int32]*format.NamespaceMeta{}}
	keepSingle, disableNoSample := r.Chance(1, 4), r.Chance(1, 4)
	sampleBudgets := r.Chance(1, 2)
	// metrics
	var metas []*format.MetricMetaValue
	nM := r.Range(2, 6)
	for m := 0; m < nM; m++ {
		meta := &format.MetricMetaValue{MetricID: int32(m + 1), NamespaceID: int32(7 + m%2), GroupID: int32(50 + m%3),
			EffectiveWeight: int64([]int{1, 1, 2, 3, 5, 128}[r.Intn(6)]), NoSampleAgent: r.Chance(1, 3)}
		metas = append(metas, meta)
		mm.metrics[meta.MetricID] = meta
	}
	bucket := &data_model.MetricsBucket{Time: now}
	aux := rand.New(r.U64())
	var rows []*arow
	nextPow := 1
	addRow := func(key data_model.Key, meta *format.MetricMetaValue, account int32, whaleZero bool) {
		key.Timestamp = now
		item, created := bucket.GetOrCreateMultiItem(&key, meta, nil)
		if !created {
			return
		}
		// powers of two: counter*SF is exact, SF = counter/count. Half of the rows hold exactly one event (the counter_eq_1
		// transfer shortcut must look at the SCALED counter), the others have distinct counts (distinct whale weights)
		count := 1.0
		if r.Chance(1, 2) {
			count = math.Ldexp(1, nextPow)
			nextPow++
		}
		item.Tail.AddCounter(aux, count)
		if r.Chance(1, 6) { // not a single value counter
			item.Tail.HLL.Insert(r.U64())
		}
		rw := &arow{id: len(rows), item: item, ownMetric: key.Metric, account: account, count: count, whale: count, bypass: meta.NoSampleAgent}
		if whaleZero {
			rw.whale = 0
		}
		rows = append(rows, rw)
	}
	for _, meta := range metas {
		n := []int{1, 1, 2, 3, 5, 8, 12}[r.Intn(7)]
		extraTag := r.Range(2, 12)
		for k := 0; k < n && nextPow < 900; k++ {
			var key data_model.Key
			key.Metric = meta.MetricID
			key.Tags[1] = int32(k + 1)
			key.Tags[extraTag] = 1
			addRow(key, meta, meta.MetricID, false)
		}
	}
	// ingestion statuses: accounted to the user metric in Tags[1] (whale weight 0), or sent outside the budget (ok_cached)
	nIS := r.Range(0, 4)
	for k := 0; k < nIS; k++ {
		var key data_model.Key
		key.Metric = format.BuiltinMetricIDIngestionStatus
		key.Tags[1] = metas[r.Intn(len(metas))].MetricID
		key.Tags[2] = int32(r.Range(1, 12))
		if key.Tags[2] == format.TagValueIDSrcIngestionStatusOKCached {
			continue // moved to IngestionStatusOk2, never sampled
		}
		addRow(key, format.BuiltinMetricMetaIngestionStatus, key.Tags[1], true)
	}
	cfgLookup := data_model.SamplerConfig{Meta: mm}
	var sumSize int64
	for _, rw := range rows {
		rw.size = rw.item.Key.TLSizeEstimate(now) + rw.item.TLSizeEstimate()
		if rw.item.MetricMeta != nil && rw.item.MetricMeta.MetricID == rw.account {
			m := rw.item.MetricMeta
			rw.ns, rw.grp, rw.wMetric, rw.noSample, rw.fki = m.NamespaceID, m.GroupID, m.EffectiveWeight, m.NoSampleAgent, m.FairKeyIndex
		} else {
			rw.ns, rw.grp, rw.wMetric, rw.noSample, rw.fki = data_model.VerifMetricMeta(cfgLookup, rw.account)
		}
		rw.single = data_model.VerifIsSingleValueCounter(rw.item)
		if !rw.bypass {
			sumSize += int64(rw.size)
		}
	}
	// ratio ties between metrics would make the order of draws depend on the unstable sort: skip those cases
	type acc struct{ size, w int64 }
	per := map[int32]*acc{}
	for _, rw := range rows {
		if rw.bypass {
			continue
		}
		a := per[rw.account]
		if a == nil {
			a = &acc{w: rw.wMetric}
			per[rw.account] = a
		}
		a.size += int64(rw.size)
	}
	var accs []*acc
	for _, a := range per {
		accs = append(accs, a)
	}
	for i := range accs {
		for j := i + 1; j < len(accs); j++ {
			if accs[i].size*accs[j].w == accs[j].size*accs[i].w {
				h.Stat("agent.skipped.ratioTie", 1)
				return
			}
		}
	}
	shardBudget := int(sumSize * int64([]int{1, 3, 5, 9, 10, 15}[r.Intn(6)]) / 10)
	minBudget := []int{0, 0, 50, 2000}[r.Intn(4)]
	shard := agent.VerifC05NewShard(component, mm, now)
	shard.Configure(shardBudget, minBudget, keepSingle, disableNoSample, sampleBudgets, false, false, false, 20)
	rng := rand.New(r.U64())
	clone := *rng
	byKey := map[[3]int32]*arow{}
	for _, rw := range rows {
		byKey[[3]int32{rw.ownMetric, rw.item.Key.Tags[1], rw.item.Key.Tags[2]}] = rw
	}
	panicked := ""
	func() {
		defer func() {
			if e := recover(); e != nil {
				panicked = strings.ReplaceAll(fmt.Sprint(e), " ", "_")
			}
		}()
		sb := shard.SampleBucket(bucket, rng)
		for i := range sb.Metrics {
			it := &sb.Metrics[i]
			var k [3]int32
			k[0] = it.Metric
			if len(it.Keys) > 1 {
				k[1] = it.Keys[1]
			}
			if len(it.Keys) > 2 {
				k[2] = it.Keys[2]
			}
			rw := byKey[k]
			if rw == nil {
				panic(fmt.Sprintf("unknown row sent: %v", k))
			}
			if rw.sent {
				panic(fmt.Sprintf("row sent twice: %v", k))
			}
			rw.sent = true
			rw.counter = it.Tail.Counter
			if it.Tail.IsSetCounterEq1(it.FieldsMask) {
				rw.counter = 1
			}
		}
	}()
	var draws []string
	for k := 0; k < 2*len(rows)+16; k++ {
		d := uint64(clone.Float64() * two53)
		draws = append(draws, fmt.Sprint(d))
	}
	modeAgent := component == format.TagValueIDComponentAgent
	variant := "fix"
	if h.Arg == "orig" {
		variant = "orig"
	}
	h.Op("cfg rand v=%s agent=%d single=%d disns=%d budgets=%d ns=0 grp=0 keys=0 meta=1 dns=%d dgrp=%d budget=0", variant,
		b2i(modeAgent), b2i(keepSingle), b2i(disableNoSample), b2i(sampleBudgets), format.BuiltinNamespaceIDDefault, format.BuiltinGroupIDDefault)
	for _, rw := range rows {
		if g := mm.groups[rw.grp]; g != nil {
			rw.wGrpTab = g.EffectiveWeight
		}
		if n := mm.namespaces[rw.ns]; n != nil {
			rw.wNsTab = n.EffectiveWeight
		}
		metric := rw.account
		if rw.bypass {
			metric = rw.ownMetric
		}
		h.Op("aitem %d %d %d %s %d 0 %d %d %d %d %d %d %s - %d %d", b2i(rw.bypass), rw.id, rw.size, bigOf(rw.whale).String(), metric, rw.ns, rw.grp,
			rw.wNsTab, rw.wGrpTab, rw.wMetric, b2i(rw.noSample), ilist(rw.fki), b2i(rw.single), rw.id)
	}
	h.Op("draws %s", strings.Join(draws, ","))
	h.Op("agentrun %d %d 0 %d", shardBudget, minBudget, data_model.MaxUncompressedBucketSize/2)
	if panicked != "" {
		h.Obs("panic %s", panicked)
		return
	}
	sums := map[int32]*msum{}
	var ids []int32
	for _, rw := range rows {
		metric := rw.account
		if rw.bypass {
			metric = rw.ownMetric
		}
		s := sums[metric]
		if s == nil {
			s = &msum{wsum: new(big.Int)}
			sums[metric] = s
			ids = append(ids, metric)
		}
		s.n++
		switch {
		case !rw.sent:
			s.drop++
		case rw.counter == rw.count:
			s.one++
			s.wsum.Add(s.wsum, bigOf(rw.whale))
		default:
			s.sf++
			s.bits = math.Float64bits(rw.counter / rw.count)
		}
	}
	sort.Slice(ids, func(i, j int) bool { return ids[i] < ids[j] })
	for _, id := range ids {
		s := sums[id]
		h.Obs("am %d n=%d one=%d sf=%d bits=%016x drop=%d wsum=%s", id, s.n, s.one, s.sf, s.bits, s.drop, s.wsum.String())
	}
	h.Stat("agent.cases", 1)
	nBy, nSampled := 0, 0
	for _, rw := range rows {
		if rw.bypass {
			nBy++
		}
		if !rw.sent || rw.counter != rw.count {
			nSampled++
		}
	}
	h.Stat("agent.rows.bypass", int64(nBy))
	h.Stat("agent.rows.sampled", int64(nSampled))
	if nBy > 0 && nSampled > 0 {
		h.NonTrivial("agent:bypass+sampled")
	}
	// direct oracle: rows of NoSampleAgent metrics are always sent, with factor 1
	for _, rw := range rows {
		flagged := rw.bypass || (rw.noSample && modeAgent && !disableNoSample)
		if flagged && !(rw.sent && rw.counter == rw.count) {
			h.Viol("agent-nosample-row-not-whole", "sampleBucket: row %d of NoSampleAgent metric (own %d, accounted %d) sent=%v counter=%v count=%v", rw.id, rw.ownMetric, rw.account, rw.sent, rw.counter, rw.count)
		}
		if rw.sent && rw.counter == rw.count && !flagged {
			// a row sent with factor 1 inside a metric that lost rows is a whale: no row of that metric that was sampled or
			// dropped has a larger whale weight (otherwise the row's factor was lost on the way into SourceBucket3)
			for _, o := range rows {
				if o != rw && !o.bypass && o.account == rw.account && !(o.sent && o.counter == o.count) && o.whale > rw.whale {
					h.Viol("agent-light-row-sent-with-factor-one", "sampleBucket: row %d (count %v, whale weight %v) of metric %d sent with factor 1 although the heavier row %d (whale weight %v) was sampled", rw.id, rw.count, rw.whale, rw.account, o.id, o.whale)
					break
				}
			}
		}
		if rw.sent && rw.counter < rw.count {
			h.Viol("agent-row-factor-below-one", "sampleBucket: row %d sent with counter %v < count %v", rw.id, rw.counter, rw.count)
		}
	}
}

// ---------------------------------------------------------------------------------------------------- host budgets

var hostAgg *aggregator.VerifC05Agg

func hostCase(h *verifx.H, ci int, r *verifx.Rng) {
	if hostAgg == nil {
		a, err := aggregator.VerifC05NewAgg()
		if err != nil {
			panic(err)
		}
		hostAgg = a
	}
	// metadata through the storage's own ApplyEvent
	var events []tlmetadata.Event
	nNs := r.Range(1, 2)
	type mdef struct {
		id   int32
		name string
	}
	var mdefs []mdef
	nextID := int32(1)
	for n := 0; n < nNs; n++ {
		nsID := int32(1001 + n)
		nsName := fmt.Sprintf("ns%d", n)
		if r.Chance(4, 5) {
			data, _ := json.Marshal(format.NamespaceMeta{Name: nsName, Weight: []float64{0.5, 1, 2, 3}[r.Intn(4)]})
			events = append(events, tlmetadata.Event{Id: int64(nsID), Name: nsName, EventType: format.NamespaceEvent, Version: int64(len(events) + 1), Data: string(data)})
		}
		nGr := r.Range(1, 2)
		for g := 0; g < nGr; g++ {
			grName := fmt.Sprintf("%s:g%d_", nsName, g)
			if r.Chance(4, 5) {
				data, _ := json.Marshal(format.MetricsGroup{Name: grName, Weight: []float64{0.5, 1, 2, 4}[r.Intn(4)], NamespaceID: nsID})
				events = append(events, tlmetadata.Event{Id: int64(2001 + 10*n + g), Name: grName, EventType: format.MetricsGroupEvent, Version: int64(len(events) + 1), Data: string(data), NamespaceId: int64(nsID)})
			}
			nM := r.Range(1, 3)
			for m := 0; m < nM; m++ {
				name := fmt.Sprintf("%sm%d", grName, m)
				id := nextID
				nextID++
				mdefs = append(mdefs, mdef{id: id, name: name})
				if r.Chance(5, 6) {
					mv := format.MetricMetaValue{Name: name, Kind: format.MetricKindCounter, Weight: []float64{0.25, 1, 1, 2, 5}[r.Intn(5)], NamespaceID: nsID}
					data, _ := json.Marshal(mv)
					events = append(events, tlmetadata.Event{Id: int64(id), Name: name, EventType: format.MetricEvent, Version: int64(len(events) + 1), Data: string(data), NamespaceId: int64(nsID)})
				}
			}
		}
	}
	hostAgg.ResetMeta(events)
	meta := hostAgg.Meta()
	sNs, sGr := r.Chance(1, 2), r.Chance(1, 2)
	if r.Chance(1, 3) {
		sNs, sGr = false, false
	}
	nHosts := r.Range(1, 4)
	sizes := map[int32]map[data_model.TagUnion]uint32{}
	type hrow struct {
		id     int
		metric int32
		host   int32
		size   uint32
		budget uint32
	}
	var rows []*hrow
	var total int64
	for _, md := range mdefs {
		for hst := 1; hst <= nHosts; hst++ {
			if r.Chance(1, 4) {
				continue
			}
			sz := uint32([]int{0, 20, 28, 100, 500, 3000, 40000}[r.Intn(7)] * r.Range(1, 3))
			if sizes[md.id] == nil {
				sizes[md.id] = map[data_model.TagUnion]uint32{}
			}
			sizes[md.id][data_model.TagUnion{I: int32(hst)}] = sz
			rows = append(rows, &hrow{id: len(rows), metric: md.id, host: int32(hst), size: sz})
			total += int64(sz)
		}
	}
	if len(rows) == 0 {
		return
	}
	budget := int(total * int64([]int{1, 3, 5, 9, 10, 15}[r.Intn(6)]) / 10)
	if r.Chance(1, 10) {
		budget = r.Range(0, 40)
	}
	out := hostAgg.HostBudgets(sNs, sGr, budget, 1_700_000_000, sizes)
	seen := map[[2]int32]int{}
	for host, bs := range out {
		for _, b := range bs {
			seen[[2]int32{b.MetricId, host.I}]++
			for _, rw := range rows {
				if rw.metric == b.MetricId && rw.host == host.I {
					rw.budget = b.Budget
				}
			}
		}
	}
	variant := "fix"
	if h.Arg == "orig" {
		variant = "orig"
	}
	h.Op("cfg quota v=%s agent=0 single=0 disns=0 budgets=0 ns=%d grp=%d keys=0 meta=1 dns=%d dgrp=%d budget=%d", variant,
		b2i(sNs), b2i(sGr), format.BuiltinNamespaceIDDefault, format.BuiltinGroupIDDefault, budget)
	cfgLookup := data_model.SamplerConfig{Meta: meta}
	parts := map[[2]int32]bool{}
	for _, rw := range rows {
		ns, grp, w, nos, fki := data_model.VerifMetricMeta(cfgLookup, rw.metric)
		var wNs, wGr int64
		if g := meta.GetGroup(grp); g != nil {
			wGr = g.EffectiveWeight
		}
		if n := meta.GetNamespace(ns); n != nil {
			wNs = n.EffectiveWeight
		}
		if sNs {
			parts[[2]int32{ns, 0}] = true
		}
		if sGr {
			parts[[2]int32{ns, grp}] = true
		}
		h.Op("item %d %d 0 %d 0 %d %d %d %d %d %d %s - 0 %d", rw.id, rw.size, rw.metric, ns, grp, wNs, wGr, w, b2i(nos), ilist(fki), rw.id)
	}
	var exp []string
	for _, rw := range rows {
		exp = append(exp, fmt.Sprintf("%d:%d", rw.id, rw.budget))
	}
	k := min(len(parts), 10)
	h.Op("hostrun %d %s", k, strings.Join(exp, ","))
	h.Obs("hb %s", strings.Join(exp, ","))
	h.Stat("host.cases", 1)
	if k > 0 {
		h.Stat("host.cases.nested", 1)
	}
	// direct oracle on the budgets handed back
	var sum int64
	nBonus, nCut := 0, 0
	for _, rw := range rows {
		if c := seen[[2]int32{rw.metric, rw.host}]; c > 1 {
			h.Viol("host-budget-twice", "metric %d host %d got %d budgets", rw.metric, rw.host, c)
		}
		pre := int64(rw.budget)
		if rw.budget != 0 && int64(rw.budget) >= 2*int64(rw.size) { // bonus: a metric that fits its quota gets twice its size
			pre = int64(rw.budget) / 2
			nBonus++
			if int64(rw.budget) != 2*int64(rw.size) {
				h.Viol("host-budget-above-twice-size", "metric %d host %d size %d got budget %d", rw.metric, rw.host, rw.size, rw.budget)
			}
		} else if pre > int64(rw.size) {
			h.Viol("host-budget-above-size", "metric %d host %d size %d got budget %d without fitting", rw.metric, rw.host, rw.size, rw.budget)
		} else if rw.size > 0 {
			nCut++
		}
		sum += pre
	}
	if nBonus > 0 && nCut > 0 {
		h.NonTrivial("host:fit+cut")
	}
	if sum > int64(budget)+int64(len(parts)) {
		h.Viol("host-budgets-over-total", "budgets before the x2 bonus sum to %d > receive budget %d (+%d groups whose share may be rounded up)", sum, budget, len(parts))
	}
	byMetric := map[int32][]*hrow{}
	for _, rw := range rows {
		byMetric[rw.metric] = append(byMetric[rw.metric], rw)
	}
	for _, rs := range byMetric {
		for _, a := range rs {
			for _, b := range rs {
				qa, qb := int64(a.budget), int64(b.budget)
				if qa >= int64(a.size) || qb >= int64(b.size) {
					continue // kept whole (quota = size, doubled)
				}
				d := qa*int64(b.size) - qb*int64(a.size)
				if !(d < int64(a.size) && d > -int64(b.size)) {
					h.Viol("host-budget-not-proportional", "metric %d hosts %d,%d sizes %d,%d budgets %d,%d", a.metric, a.host, b.host, a.size, b.size, qa, qb)
				}
			}
		}
	}
}

// ---------------------------------------------------------------------------------------------------- size estimates

func valDesc(v *data_model.MultiValue) string {
	d := []int{b2i(v.Empty()), b2i(v.Value.MaxHostTag.I != 0), len(v.Value.MaxHostTag.S), b2i(v.Value.MinHostTag == v.Value.MaxHostTag),
		b2i(v.Value.MinHostTag.I != 0), len(v.Value.MinHostTag.S), b2i(v.Value.MaxCounterHostTag == v.Value.MaxHostTag),
		b2i(v.Value.MaxCounterHostTag.I != 0), len(v.Value.MaxCounterHostTag.S), v.HLL.ItemsCount(), b2i(v.ValueTDigest != nil), 0,
		b2i(v.Value.ValueSet), b2i(v.Value.ValueMin != 0), b2i(data_model.VerifSingleValueTL(v))}
	if v.ValueTDigest != nil {
		d[11] = len(v.ValueTDigest.Centroids())
	}
	return ilist(d)
}

func randHost(r *verifx.Rng) data_model.TagUnion {
	switch r.Intn(4) {
	case 0:
		return data_model.TagUnion{}
	case 1:
		return data_model.TagUnion{I: int32(r.Range(1, 3))}
	default:
		return data_model.TagUnion{S: strings.Repeat("h", r.Range(1, 9))}
	}
}

func randValue(r *verifx.Rng, aux *rand.Rand) *data_model.MultiValue {
	v := &data_model.MultiValue{}
	if r.Chance(1, 8) {
		return v // empty
	}
	n := r.Range(1, 3)
	for k := 0; k < n; k++ {
		host := randHost(r)
		switch r.Intn(4) {
		case 0:
			v.AddCounterHost(aux, float64(r.Range(1, 5)), host)
		case 1:
			v.AddValueCounterHost(aux, float64(r.Range(0, 3)), float64(r.Range(1, 3)), host)
		case 2:
			v.ApplyUnique(aux, []int64{int64(r.U64()), int64(r.U64())}, float64(r.Range(1, 3)), host)
		default:
			v.AddValueCounterHostPercentile(aux, float64(r.Range(0, 9)), 1, host, 40)
		}
	}
	if r.Chance(1, 4) && v.ValueTDigest == nil {
		v.ValueTDigest = tdigest.NewWithCompression(40)
		for k := 0; k < r.Range(0, 5); k++ {
			v.ValueTDigest.Add(float64(k), 1)
		}
	}
	return v
}

func sizeCase(h *verifx.H, ci int, r *verifx.Rng) {
	aux := rand.New(r.U64())
	for rep := 0; rep < 20; rep++ {
		var key data_model.Key
		key.Metric = int32(r.Range(-20, 1000))
		defTs := uint32(1000)
		key.Timestamp = []uint32{0, 1000, 999}[r.Intn(3)]
		for k := 0; k < r.Range(0, 4); k++ {
			key.Tags[[]int{0, 1, 2, 5, 15, 16, 30, 47}[r.Intn(8)]] = int32(r.Range(-1, 3))
		}
		for k := 0; k < r.Range(0, 3); k++ {
			key.STags[[]int{0, 1, 3, 15, 47}[r.Intn(5)]] = strings.Repeat("s", r.Range(0, 9))
		}
		item := &data_model.MultiItem{Key: key}
		item.Tail = *randValue(r, aux)
		nTop := r.Range(0, 3) * r.Intn(2)
		for k := 0; k < nTop; k++ {
			if item.Top == nil {
				item.Top = map[data_model.TagUnion]*data_model.MultiValue{}
			}
			item.Top[data_model.TagUnion{S: strings.Repeat("k", k+r.Range(0, 5)), I: int32(k)}] = randValue(r, aux)
		}
		tagsNZ := make([]int, format.MaxTags)
		stagLens := make([]int, format.MaxTags)
		for i := 0; i < format.MaxTags; i++ {
			tagsNZ[i] = b2i(key.Tags[i] != 0)
			stagLens[i] = len(key.STags[i])
		}
		var tops []string
		var topKeys []data_model.TagUnion
		for k := range item.Top {
			topKeys = append(topKeys, k)
		}
		sort.Slice(topKeys, func(i, j int) bool { return topKeys[i].I < topKeys[j].I })
		for _, k := range topKeys {
			tops = append(tops, fmt.Sprintf("%d:%s", len(k.S), valDesc(item.Top[k])))
		}
		h.Op("tlsize %s %s %d %s %s", ilist(tagsNZ), ilist(stagLens), b2i(key.Timestamp != 0 && key.Timestamp != defTs), valDesc(&item.Tail), strings.Join(tops, " "))
		ks, is, rs := key.TLSizeEstimate(defTs), item.TLSizeEstimate(), item.RowBinarySizeEstimate()
		h.Obs("sz key=%d item=%d row=%d", ks, is, rs)
		h.Stat("size.items", 1)
		if ks+is < 20 {
			h.Viol("agent-size-estimate-below-20", "TLSizeEstimate %d+%d < 20: sampler.Add may see size < 1", ks, is)
		}
		if rs < 72 {
			h.Viol("aggregator-size-estimate-below-72", "RowBinarySizeEstimate %d < 72", rs)
		}
	}
}
