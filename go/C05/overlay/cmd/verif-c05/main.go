//go:build verif

// verif-c05 — correspondence harness and direct property oracles for C05 (sampling keeps expectations) and
// C06 (sampling is fair). It builds buckets of rows over a namespace/group/metric/fair-key hierarchy, runs the REAL
// data_model sampler (NewSampler/Add/Run with the real selectRandom/roundSampleFactor behind recording wrappers, or
// the deterministic test selector, or SampleQuota) and prints the line protocol replayed by lean/Driver/C05.lean.
//
//	-mode=c05  (default) case mix biased to random selection; C05 oracles
//	-mode=c06  case mix biased to deterministic selection and quota mode; C06 oracles
//
// What is passed to the model besides the inputs: the PRNG draws in consumption order (observed by cloning the
// generator state around the real calls) and, per row, its rank in the order in which the real code processed rows
// (used by the model ONLY to break ties of Go's unstable sort.Slice; DESIGN §4.3).
package main

import (
	"fmt"
	"math"
	"math/big"
	"sort"
	"strings"

	"pgregory.net/rand"

	"github.com/VKCOM/statshouse/internal/data_model"
	"github.com/VKCOM/statshouse/internal/format"
	"github.com/VKCOM/statshouse/internal/verifx"
)

type metricDef struct {
	id       int32
	meta     *format.MetricMetaValue // what Meta returns (nil: unknown to Meta)
	itemMeta *format.MetricMetaValue // what rows carry in Item.MetricMeta (may be nil or stale)
	budget   uint32
	genFki   []int // FairKeyIndex the generator gave the metric (meta may be unknown to Meta)
}

type metaMock struct {
	metrics    map[int32]*format.MetricMetaValue
	groups     map[int32]*format.MetricsGroup
	namespaces map[int32]*format.NamespaceMeta
}

func (m *metaMock) GetMetaMetric(id int32) *format.MetricMetaValue {
	if v, ok := m.metrics[id]; ok {
		return v
	}
	return nil
}
func (m *metaMock) GetMetaMetricByName(string) *format.MetricMetaValue { return nil }
func (m *metaMock) GetGroup(id int32) *format.MetricsGroup {
	if v, ok := m.groups[id]; ok {
		return v
	}
	return nil
}
func (m *metaMock) GetNamespace(id int32) *format.NamespaceMeta {
	if v, ok := m.namespaces[id]; ok {
		return v
	}
	return nil
}
func (m *metaMock) GetNamespaceByName(string) *format.NamespaceMeta { return nil }
func (m *metaMock) GetGroupByName(string) *format.MetricsGroup      { return nil }

type row struct {
	id     int
	item   *data_model.MultiItem
	size   int
	whale  int
	metric int32
	budget uint32
	// resolved meta (what the sampler will see for this row's metric)
	ns, grp  int32
	wMetric  int64
	wNsTab   int64
	wGrpTab  int64
	noSample bool
	fki      []int
	single   bool
	// results
	nKeep, nDiscard int
	sf              float64
	quota           uint32
	selCall         int // index of SelectF call that received the row, -1 if none
	selPos          int
	rank            int
}

type selCall struct {
	ids   []int
	sf    float64
	draws []uint64
	kept  map[int]bool
	n     int
}

const two53 = float64(1 << 53)

func b2i(b bool) int {
	if b {
		return 1
	}
	return 0
}

func ilist(xs []int) string { return verifx.List(xs) }

func main() {
	h := verifx.New()
	c06 := h.Mode == "c06"
	h.Cases(func(ci int, r *verifx.Rng) {
		switch {
		case !c06 && ci%8 == 3:
			agentCase(h, ci, r) // the real Shard.sampleBucket
		case !c06 && ci%16 == 5:
			sizeCase(h, ci, r) // the real size estimates fed to sampler.Add
		case c06 && ci%6 == 2:
			hostCase(h, ci, r) // the real Aggregator.calcHostMetricBudgets
		case !c06 && ci%8 == 6:
			// 2-4 consecutive sampler runs that hand their SamplerBuffers on, as Aggregator.rowDataMarshalAppendPositions does
			// between inserts (`SamplerBuffers: buffers` ... `return res, sampler.SamplerBuffers, ...`); each run has its own rows
			var buffers data_model.SamplerBuffers
			n := r.Range(2, 4)
			h.Stat("seq.cases", 1)
			for k := 0; k < n; k++ {
				runCase(h, ci, r, c06, &buffers)
			}
			h.NonTrivial("seq:shared-buffers")
		default:
			runCase(h, ci, r, c06, nil)
		}
	})
	h.Done()
}

func pickWeight(r *verifx.Rng) int64 {
	switch r.Pick(5, 2, 2, 1, 1, 1) {
	case 0:
		return 1
	case 1:
		return 2
	case 2:
		return int64(r.Range(1, 8))
	case 3:
		return format.EffectiveWeightOne
	case 4:
		return int64(r.Range(1, 1000))
	default:
		return int64(r.Range(1, 4)) * format.EffectiveWeightOne
	}
}

// runCase: one bucket through one sampler. `shared` (may be nil) are the SamplerBuffers of the previous sampler of a
// sequence; the buffers of this sampler are handed back through it.
func runCase(h *verifx.H, ci int, r *verifx.Rng, c06 bool, shared *data_model.SamplerBuffers) {
	// ---------------------------------------------------------------- configuration
	mode := "rand"
	if c06 {
		mode = []string{"det", "det", "quota", "rand"}[r.Pick(4, 2, 3, 3)]
	} else {
		mode = []string{"rand", "det", "quota"}[r.Pick(8, 1, 1)]
	}
	cfg := data_model.SamplerConfig{
		ModeAgent:            r.Chance(1, 2),
		SampleKeepSingle:     r.Chance(1, 4),
		DisableNoSampleAgent: r.Chance(1, 4),
		SampleBudgets:        r.Chance(1, 2),
		SampleNamespaces:     r.Chance(1, 2),
		SampleGroups:         r.Chance(1, 2),
		SampleKeys:           r.Chance(1, 2),
	}
	if mode == "quota" { // as calcHostMetricBudgets configures it
		cfg.SampleKeys = false
		cfg.ModeAgent = false
		cfg.SampleKeepSingle = false
		cfg.SampleBudgets = false
	}
	flat := r.Chance(1, 4) // flat hierarchy: metrics are the top level partitions
	if flat {
		cfg.SampleNamespaces, cfg.SampleGroups = false, false
	}
	hasMeta := r.Chance(5, 6)
	uniformSize := 0
	if mode == "det" && r.Chance(1, 2) || r.Chance(1, 5) {
		uniformSize = r.Range(2, 60)
	}
	useBudgets := mode != "quota" && r.Chance(2, 5)
	distinctWhales := r.Chance(1, 4)
	// fair-key shaping: flat hierarchy, SampleKeys on, the metric that sorts first has no fair keys, the others have fair key lists
	// of different lengths with one big fair-key value next to many small ones (isolation below the metric level)
	fkSkew := mode != "quota" && r.Chance(1, 5)
	if fkSkew {
		flat, useBudgets = true, false
		cfg.SampleNamespaces, cfg.SampleGroups, cfg.SampleKeys = false, false, true
	}

	// ---------------------------------------------------------------- hierarchy
	mm := &metaMock{metrics: map[int32]*format.MetricMetaValue{}, groups: map[int32]*format.MetricsGroup{}, namespaces: map[int32]*format.NamespaceMeta{}}
	var metrics []*metricDef
	nNs := r.Range(1, 3)
	nextMetric := int32(1)
	// builtin namespaces and groups have NEGATIVE ids and their weights are configurable through the journal like any other:
	// each builtin id is used at most once per bucket, always with a configured weight, next to positive-id siblings
	builtinNsFree := true
	builtinGroups := []int32{format.BuiltinGroupIDDefault, format.BuiltinGroupIDBuiltin, format.BuiltinGroupIDHost}
	for n := 0; n < nNs; n++ {
		nsID := int32(n * 10)
		if n > 0 || r.Chance(1, 2) {
			nsID = int32(n*10 + 7)
		} // namespace 0 is possible for the first
		if builtinNsFree && r.Chance(1, 4) {
			builtinNsFree = false
			nsID = format.BuiltinNamespaceIDDefault
			mm.namespaces[nsID] = &format.NamespaceMeta{ID: nsID, EffectiveWeight: pickWeight(r) * int64(r.Range(1, 3))}
			h.Stat("partitions.builtinNamespaceWithWeight", 1)
		} else if r.Chance(4, 5) {
			mm.namespaces[nsID] = &format.NamespaceMeta{ID: nsID, EffectiveWeight: pickWeight(r) * int64(r.Pick(20, 1))} // sometimes 0 -> clamped to 1
		}
		nGr := r.Range(1, 3)
		for g := 0; g < nGr; g++ {
			grID := int32(100*n + g)
			if !(n == 0 && g == 0) || r.Chance(1, 2) {
				grID = int32(100*n + g + 50)
			} // group 0 possible
			if len(builtinGroups) > 0 && r.Chance(1, 4) {
				grID = builtinGroups[0]
				builtinGroups = builtinGroups[1:]
				mm.groups[grID] = &format.MetricsGroup{ID: grID, EffectiveWeight: pickWeight(r) * int64(r.Range(1, 3))}
				h.Stat("partitions.builtinGroupWithWeight", 1)
			} else if r.Chance(4, 5) {
				mm.groups[grID] = &format.MetricsGroup{ID: grID, EffectiveWeight: pickWeight(r) * int64(r.Pick(20, 1))}
			}
			nM := r.Range(1, 4)
			if flat {
				nM = r.Range(1, 3)
			}
			for m := 0; m < nM; m++ {
				id := nextMetric
				nextMetric++
				if r.Chance(1, 12) {
					id = -id - 1000 // unknown negative id
				}
				meta := &format.MetricMetaValue{MetricID: id, NamespaceID: nsID, GroupID: grID, EffectiveWeight: pickWeight(r), NoSampleAgent: r.Chance(1, 7)}
				switch r.Pick(6, 2, 2, 1, 1) {
				case 1:
					meta.FairKeyIndex = []int{0}
				case 2:
					meta.FairKeyIndex = []int{1, 0}
				case 3:
					meta.FairKeyIndex = []int{0, 1, 2, 3}
				case 4:
					meta.FairKeyIndex = []int{[]int{-1, 48, 60, 5}[r.Intn(4)], 0}
				}
				if fkSkew {
					id = nextMetric - 1 // ascending ids: the first metric sorts first in its parent
					meta.MetricID = id
					meta.NoSampleAgent = false
					meta.FairKeyIndex = nil
					if len(metrics) > 0 {
						meta.FairKeyIndex = [][]int{{0}, {0}, {1, 0}, {0, 1, 2}}[r.Intn(4)]
					}
				}
				md := &metricDef{id: id, meta: meta, itemMeta: meta, genFki: meta.FairKeyIndex}
				switch r.Pick(8, 2, 1, 1) {
				case 1: // rows carry no meta: looked up in Meta
					md.itemMeta = nil
				case 2: // rows carry meta of another metric id (as ingestion statuses accounted to a user metric do)
					md.itemMeta = &format.MetricMetaValue{MetricID: id + 5000, NamespaceID: 999, GroupID: 999, EffectiveWeight: 77}
				case 3: // metric unknown to Meta: rows' own meta is used if it matches, otherwise "missing" meta
					md.meta = nil
					if r.Chance(1, 2) {
						md.itemMeta = nil
					}
				}
				if md.meta != nil {
					mm.metrics[id] = md.meta
				}
				metrics = append(metrics, md)
			}
		}
	}
	if hasMeta {
		cfg.Meta = mm
	}
	// ---------------------------------------------------------------- rows
	var rows []*row
	var sumSize int64
	for _, md := range metrics {
		nRows := []int{1, 1, 2, 3, 4, 6, 8, 12, 20}[r.Intn(9)]
		if fkSkew {
			nRows = []int{8, 12, 16, 20}[r.Intn(4)]
		}
		sizeBase := []int{1, 4, 10, 28, 60, 200}[r.Intn(6)]
		if mode == "det" && sizeBase == 1 && !r.Chance(1, 8) {
			sizeBase = 2 // the budget bound of deterministic selection is stated for rows of at least 2 bytes
		}
		for k := 0; k < nRows; k++ {
			it := &data_model.MultiItem{MetricMeta: md.itemMeta}
			it.Key.Metric = md.id
			it.Key.Tags[0] = int32(r.Range(0, 2))
			it.Key.Tags[1] = int32(r.Range(0, 2))
			it.Key.Tags[2] = int32(r.Range(0, 1))
			it.Key.Tags[5] = int32(r.Range(0, 1))
			if fkSkew && len(md.genFki) > 0 {
				// most rows share fair-key value 0 (the flooding value), the rest are small values of their own
				x := md.genFki[0]
				it.Key.Tags[x] = 0
				if k%4 == 3 {
					it.Key.Tags[x] = int32(10 + k)
				}
			}
			it.Tail.Value.AddValueCounter(0, 1)
			if r.Chance(1, 5) { // not a single value counter
				it.Top = map[data_model.TagUnion]*data_model.MultiValue{{I: 1}: {}, {I: 2}: {}}
			}
			rw := &row{id: len(rows), item: it, metric: md.id, selCall: -1}
			switch {
			case uniformSize > 0:
				rw.size = uniformSize
			case r.Chance(1, 40):
				rw.size = r.Range(-1, 0) // dropped by Add
			default:
				rw.size = sizeBase + r.Intn(sizeBase+1)*r.Intn(2)
			}
			if distinctWhales {
				rw.whale = 1000 - rw.id
				if r.Chance(1, 2) {
					rw.whale = rw.id
				}
			} else {
				rw.whale = r.Range(0, 3)
			}
			if rw.size >= 1 {
				sumSize += int64(rw.size)
			}
			rows = append(rows, rw)
		}
	}
	// rows ACCOUNTED to a metric although they belong to another one (agent and aggregator account ingestion-status rows to the
	// user metric in Tags[1]): Key.Metric and the carried MetricMeta are the other metric's (different namespace, group, weight,
	// fair keys), SamplingMultiItemPair.MetricID is the accounting metric, whose meta the sampler must use for the whole partition.
	// Only where every row of the metric resolves to the same meta whichever row sorts first (metric known to Meta).
	if hasMeta {
		for _, md := range metrics {
			if md.meta == nil || !r.Chance(1, 3) {
				continue
			}
			other := &format.MetricMetaValue{MetricID: 9000 + md.id, NamespaceID: 998, GroupID: 997, EffectiveWeight: int64([]int{1, 31, 640}[r.Intn(3)]),
				NoSampleAgent: r.Chance(1, 4), FairKeyIndex: [][]int{nil, {0}, {1, 0}}[r.Intn(3)]}
			for k := r.Range(1, 3); k > 0; k-- {
				it := &data_model.MultiItem{MetricMeta: other}
				it.Key.Metric = other.MetricID
				it.Key.Tags[1] = md.id
				it.Key.Tags[2] = int32(k)
				it.Tail.Value.AddValueCounter(0, 1)
				rw := &row{id: len(rows), item: it, metric: md.id, selCall: -1, whale: 0}
				rw.size = []int{4, 28, 60}[r.Intn(3)]
				if uniformSize > 0 {
					rw.size = uniformSize
				}
				sumSize += int64(rw.size)
				rows = append(rows, rw)
				h.Stat("rows.accountedToOtherMetric", 1)
			}
		}
	}
	// fixed per metric budgets (as handed back by the aggregator in quota mode)
	if useBudgets {
		for _, md := range metrics {
			if !r.Chance(1, 2) {
				continue
			}
			var sz int64
			for _, rw := range rows {
				if rw.metric == md.id && rw.size >= 1 {
					sz += int64(rw.size)
				}
			}
			switch r.Pick(3, 2, 2, 2, 1) {
			case 0:
				md.budget = uint32(sz/2 + 1)
			case 1:
				md.budget = uint32(sz)
			case 2:
				md.budget = uint32(sz * 2)
			case 3:
				md.budget = uint32(sz*3/4 + 1)
			default:
				md.budget = uint32(max(sz-1, 1))
			}
		}
	}
	for _, rw := range rows {
		for _, md := range metrics {
			if md.id == rw.metric {
				rw.budget = md.budget
				// what the property demands: the sampling options of a row are those of the metric it is ACCOUNTED to — the meta the row
				// carries if it is that metric's, else the meta storage's (the model resolves this itself from the `acc=` token)
				if m := rw.item.MetricMeta; m != nil && m.MetricID == md.id {
					rw.ns, rw.grp, rw.wMetric, rw.noSample, rw.fki = m.NamespaceID, m.GroupID, m.EffectiveWeight, m.NoSampleAgent, m.FairKeyIndex
				} else {
					rw.ns, rw.grp, rw.wMetric, rw.noSample, rw.fki = data_model.VerifMetricMeta(cfg, md.id)
				}
			}
		}
		if g := mm.groups[rw.grp]; g != nil {
			rw.wGrpTab = g.EffectiveWeight
		}
		if n := mm.namespaces[rw.ns]; n != nil {
			rw.wNsTab = n.EffectiveWeight
		}
		rw.single = data_model.VerifIsSingleValueCounter(rw.item)
	}
	// budget
	var budget int64
	switch r.Pick(2, 3, 3, 2, 2, 1, 1, 1) {
	case 0:
		budget = sumSize / 10
	case 1:
		budget = sumSize * 3 / 10
	case 2:
		budget = sumSize / 2
	case 3:
		budget = sumSize * 9 / 10
	case 4:
		budget = sumSize
	case 5:
		budget = sumSize - 1
	case 6:
		budget = sumSize * 3 / 2
	default:
		budget = int64(r.Range(0, 30))
	}
	if budget < 0 {
		budget = 0
	}

	// ---------------------------------------------------------------- run the real sampler
	byItem := map[*data_model.MultiItem]*row{}
	for _, rw := range rows {
		byItem[rw.item] = rw
	}
	var order []int // callback order (row ids)
	var calls []*selCall
	var draws []uint64
	ambiguous := false
	roundUps := 0
	seq := rand.New(r.U64())
	cfg.Rand = seq
	record := func(before rand.Rand) []uint64 { // draws consumed by the real code since `before`
		var ds []uint64
		for k := 0; before != *seq; k++ {
			if k > 1<<20 {
				panic("rng state never re-synchronised")
			}
			ds = append(ds, uint64(before.Float64()*two53))
		}
		return ds
	}
	foreign := 0 // decisions about rows that were not handed to THIS sampler (rows of an earlier run left in the buffers)
	lookup := func(it *data_model.MultiItem) *row {
		if rw := byItem[it]; rw != nil {
			return rw
		}
		foreign++
		return &row{id: -1, selCall: -1}
	}
	cfg.KeepF = func(it *data_model.MultiItem, _ uint32, quota uint32) {
		rw := lookup(it)
		if rw.id < 0 {
			return
		}
		rw.nKeep++
		rw.sf = it.SF
		rw.quota = quota
		order = append(order, rw.id)
	}
	cfg.DiscardF = func(it *data_model.MultiItem, _ uint32) {
		rw := lookup(it)
		if rw.id < 0 {
			return
		}
		rw.nDiscard++
		rw.sf = it.SF
		order = append(order, rw.id)
	}
	switch mode {
	case "rand", "quota":
		cfg.RoundF = func(sf float64, rnd *rand.Rand) float64 {
			before := *rnd
			res := data_model.VerifRoundSampleFactor(sf, rnd)
			ds := record(before)
			for _, d := range ds {
				u := float64(d) / two53
				if math.Abs(u-(sf-math.Floor(sf))) < 1e-9*(1+sf) {
					ambiguous = true
				}
			}
			if res > math.Floor(sf) {
				roundUps++
			}
			draws = append(draws, ds...)
			return res
		}
	default:
		cfg.RoundF = func(sf float64, _ *rand.Rand) float64 { return math.Floor(sf) }
	}
	switch mode {
	case "rand":
		cfg.SelectF = func(s []data_model.SamplingMultiItemPair, sf float64, rnd *rand.Rand) int {
			c := &selCall{sf: sf, kept: map[int]bool{}}
			for i := range s {
				rw := lookup(s[i].Item)
				rw.selCall, rw.selPos = len(calls), i
				c.ids = append(c.ids, rw.id)
			}
			before := *rnd
			n := data_model.VerifSelectRandom(s, sf, rnd)
			c.draws = record(before)
			for _, d := range c.draws {
				if math.Abs(float64(d)/two53*sf-1) < 1e-9 {
					ambiguous = true
				}
			}
			draws = append(draws, c.draws...)
			c.n = n
			for i := 0; i < n && i < len(s); i++ {
				c.kept[lookup(s[i].Item).id] = true
			}
			calls = append(calls, c)
			return n
		}
	case "det":
		cfg.SelectF = func(s []data_model.SamplingMultiItemPair, sf float64, _ *rand.Rand) int {
			c := &selCall{sf: sf, kept: map[int]bool{}}
			for i := range s {
				rw := lookup(s[i].Item)
				rw.selCall, rw.selPos = len(calls), i
				c.ids = append(c.ids, rw.id)
			}
			// the repo tests' deterministic selector int(len/sf), made robust against the rounding of sf
			x := float64(len(s)) / sf
			rx := math.Round(x)
			n := int(math.Floor(x))
			if d := math.Abs(x - rx); d < 1e-12*(1+x) {
				n = int(rx)
			} else if d < 1e-9*(1+x) {
				ambiguous = true
			}
			if n > len(s) {
				n = len(s)
			}
			c.n = n
			calls = append(calls, c)
			return n
		}
	case "quota":
		cfg.SampleF = data_model.SampleQuota
	}
	panicked := ""
	var groups []data_model.VerifGroup
	func() {
		defer func() {
			if e := recover(); e != nil {
				panicked = strings.ReplaceAll(fmt.Sprint(e), " ", "_")
			}
		}()
		if shared != nil {
			cfg.SamplerBuffers = *shared
		}
		s := data_model.NewSampler(cfg)
		defer func() {
			if shared != nil {
				*shared = s.SamplerBuffers
			}
		}()
		for _, rw := range rows {
			s.Add(data_model.SamplingMultiItemPair{Item: rw.item, WhaleWeight: float64(rw.whale), Size: rw.size, MetricID: rw.metric, Budget: rw.budget, BucketTs: 1})
		}
		s.Run(budget)
		groups = data_model.VerifMetricGroups(s.MetricGroups)
	}()
	if foreign > 0 {
		// every row handed to a sampler is decided exactly once BY THAT sampler: a later sampler that receives the buffers must
		// start empty (NewSampler truncates them)
		h.Op("cfg %s v=fix agent=0 single=0 disns=0 budgets=0 ns=0 grp=0 keys=0 meta=0 dns=0 dgrp=0 budget=0", mode)
		h.Op("run")
		h.Obs("foreign-decisions %d", foreign)
		h.Viol("row-decided-in-later-run", "a sampler that was handed the SamplerBuffers of an earlier run issued %d keep/discard decisions about rows of that earlier run (besides its own %d rows)", foreign, len(rows))
		return
	}
	if ambiguous { // a draw within 1e-9 of a decision boundary: float rounding could decide, the exact model cannot be compared
		h.Stat("skipped.ambiguous", 1)
		return
	}
	// ---------------------------------------------------------------- ranks = processing order (tie-break input of the model)
	seen := map[int]bool{}
	next := 0
	for _, id := range order {
		if seen[id] {
			continue
		}
		rw := rows[id]
		if rw.selCall >= 0 {
			for _, j := range calls[rw.selCall].ids {
				if !seen[j] {
					seen[j] = true
					rows[j].rank = next
					next++
				}
			}
			continue
		}
		seen[id] = true
		rw.rank = next
		next++
	}
	for _, rw := range rows {
		if !seen[rw.id] {
			rw.rank = next
			next++
		}
	}
	// ---------------------------------------------------------------- protocol
	variant := "fix" // which model variant mirrors the tree under test: "fix" = with fixes/C05-sample-fit.diff, "orig" = pinned code
	if h.Arg == "orig" {
		variant = "orig"
	}
	h.Op("cfg %s v=%s agent=%d single=%d disns=%d budgets=%d ns=%d grp=%d keys=%d meta=%d dns=%d dgrp=%d budget=%d", mode, variant,
		b2i(cfg.ModeAgent), b2i(cfg.SampleKeepSingle), b2i(cfg.DisableNoSampleAgent), b2i(cfg.SampleBudgets),
		b2i(cfg.SampleNamespaces), b2i(cfg.SampleGroups), b2i(cfg.SampleKeys), b2i(hasMeta),
		format.BuiltinNamespaceIDDefault, format.BuiltinGroupIDDefault, budget)
	for _, rw := range rows {
		tags := make([]int, 6)
		for k := range tags {
			tags[k] = int(rw.item.Key.Tags[k])
		}
		// the fields of the line are what meta storage says about the ACCOUNTING metric (getMetricMeta(MetricID)); `acc=` is the meta
		// the row carries itself (Item.MetricMeta), which the sampler may use only if it is the accounting metric's
		lns, lgrp, lw, lnos, lfki := data_model.VerifMetricMeta(cfg, rw.metric)
		var lwNs, lwGrp int64
		if g := mm.groups[lgrp]; g != nil {
			lwGrp = g.EffectiveWeight
		}
		if n := mm.namespaces[lns]; n != nil {
			lwNs = n.EffectiveWeight
		}
		acc := ""
		if m := rw.item.MetricMeta; m != nil {
			var cwNs, cwGrp int64
			if g := mm.groups[m.GroupID]; g != nil {
				cwGrp = g.EffectiveWeight
			}
			if n := mm.namespaces[m.NamespaceID]; n != nil {
				cwNs = n.EffectiveWeight
			}
			acc = fmt.Sprintf(" acc=%d/%d/%d/%d/%d/%d/%d/%s", m.MetricID, m.NamespaceID, m.GroupID, cwNs, cwGrp, m.EffectiveWeight, b2i(m.NoSampleAgent), ilist(m.FairKeyIndex))
		}
		h.Op("item %d %d %d %d %d %d %d %d %d %d %d %s %s %d %d%s", rw.id, rw.size, rw.whale, rw.metric, rw.budget, lns, lgrp,
			lwNs, lwGrp, lw, b2i(lnos), ilist(lfki), ilist(tags), b2i(rw.single), rw.rank, acc)
	}
	{
		ds := make([]string, len(draws))
		for i, d := range draws {
			ds[i] = fmt.Sprint(d)
		}
		if len(ds) == 0 {
			h.Op("draws -")
		} else {
			h.Op("draws %s", strings.Join(ds, ","))
		}
	}
	h.Op("run")
	if panicked != "" {
		h.Obs("panic %s", panicked)
		return
	}
	for _, rw := range rows {
		st := "D"
		if rw.nKeep > 0 {
			st = "K"
		}
		if rw.nKeep+rw.nDiscard != 1 {
			st = fmt.Sprintf("X%d/%d", rw.nKeep, rw.nDiscard)
		}
		h.Obs("ev %d %s %016x %d", rw.id, st, math.Float64bits(rw.sf), rw.quota)
	}
	for _, g := range groups {
		h.Obs("group %d %d %d b=%d/%d keep=%d:%d discard=%d:%d", g.NamespaceID, g.GroupID, g.MetricID, g.Budget, g.BudgetDenom,
			int64(g.KeepCount), int64(g.KeepSum), int64(g.DiscardCount), int64(g.DiscardSum))
	}
	// ---------------------------------------------------------------- statistics / non-trivial rule
	h.Stat("mode."+mode, 1)
	h.Stat("rows", int64(len(rows)))
	h.Stat("draws", int64(len(draws)))
	h.Stat("selectCalls", int64(len(calls)))
	nUncond, nSampled, nWhaleLike := 0, 0, 0
	for _, rw := range rows {
		if rw.size < 1 {
			h.Stat("rows.size<1", 1)
			continue
		}
		if rw.nKeep == 1 && rw.sf == 1 && rw.selCall < 0 {
			nUncond++
		} else {
			nSampled++
		}
	}
	for _, c := range calls {
		if c.sf <= 1 {
			h.Stat("select.sf<=1", 1)
		} else {
			h.Stat("select.sf>1", 1)
		}
	}
	for _, rw := range rows {
		if rw.selCall < 0 && rw.size >= 1 {
			for _, o := range rows {
				if o.selCall >= 0 && o.metric == rw.metric {
					nWhaleLike++
					break
				}
			}
		}
	}
	if nWhaleLike > 0 {
		h.Stat("cases.withWhales", 1)
	}
	if useBudgets && cfg.SampleBudgets {
		h.Stat("cases.fixedBudgets", 1)
	}
	if roundUps > 0 {
		h.Stat("cases.roundUp", 1)
	}
	if nUncond > 0 && nSampled > 0 {
		h.NonTrivial("kept+sampled")
	} else if nSampled == 0 {
		h.Stat("cases.allKept", 1)
	} else {
		h.Stat("cases.allSampled", 1)
	}
	// ---------------------------------------------------------------- direct oracles on the real outputs
	noSampleActive := func(rw *row) bool { return rw.noSample && cfg.ModeAgent && !cfg.DisableNoSampleAgent }
	if !c06 {
		oracleC05(h, mode, rows, calls, noSampleActive)
	} else {
		oracleC06(h, mode, cfg, rows, budget, uniformSize, roundUps, noSampleActive)
	}
}

// oracleC05: every row exactly one decision; factor of a kept row = 1/P(keep) where P is read off the real selector's
// own draws: rows never handed to the selector are kept with certainty (factor must be 1), rows handed to it with
// factor sf are kept iff their own uniform draw u satisfies u*sf < 1 (probability min(1, 1/sf)).
func oracleC05(h *verifx.H, mode string, rows []*row, calls []*selCall, noSampleActive func(*row) bool) {
	for _, rw := range rows {
		if rw.nKeep+rw.nDiscard != 1 {
			h.Viol("row-not-decided-once", "row %d (metric %d size %d): keep callbacks=%d discard callbacks=%d", rw.id, rw.metric, rw.size, rw.nKeep, rw.nDiscard)
			continue
		}
		if rw.size < 1 || mode == "quota" {
			continue // rows with size estimate < 1 are dropped by Add (documented exception); quota mode has no sample factors
		}
		if noSampleActive(rw) && !(rw.nKeep == 1 && rw.sf == 1) {
			h.Viol("nosample-agent-row-sampled", "row %d of NoSampleAgent metric %d in agent mode: kept=%d factor=%v", rw.id, rw.metric, rw.nKeep, rw.sf)
		}
		if rw.nKeep == 1 && !(rw.sf >= 1) {
			h.Viol("kept-factor-below-one", "row %d (metric %d) kept with sample factor %v < 1: expected count shrinks", rw.id, rw.metric, rw.sf)
			continue
		}
		if rw.selCall < 0 {
			if !(rw.nKeep == 1 && rw.sf == 1) {
				h.Viol("unconditional-row-factor-not-one", "row %d (metric %d) never reached the selector but kept=%d factor=%v", rw.id, rw.metric, rw.nKeep, rw.sf)
			}
			continue
		}
		if mode != "rand" {
			continue
		}
		c := calls[rw.selCall]
		if c.sf <= 1 {
			if !(rw.nKeep == 1 && rw.sf == 1) {
				h.Viol("certain-row-factor-not-one", "row %d (metric %d) kept with probability 1 (selector factor %v <= 1) but kept=%d factor=%v", rw.id, rw.metric, c.sf, rw.nKeep, rw.sf)
			}
			continue
		}
		if len(c.draws) != len(c.ids) {
			h.Viol("select-draw-count", "selector consumed %d draws for %d rows", len(c.draws), len(c.ids))
			continue
		}
		u := float64(c.draws[rw.selPos]) / two53
		want := u*c.sf < 1
		if c.kept[rw.id] != want || (rw.nKeep == 1) != want {
			h.Viol("keep-not-own-draw", "row %d: draw %v factor %v => keep=%v but selector kept=%v callback keep=%v", rw.id, u, c.sf, want, c.kept[rw.id], rw.nKeep == 1)
		}
		if rw.sf != c.sf {
			h.Viol("factor-not-inverse-probability", "row %d selected with probability 1/%v but carries factor %v", rw.id, c.sf, rw.sf)
		}
	}
}

type part struct {
	key    [3]int32
	size   int64
	weight int64
	rows   []*row
}

func allKeptOne(rs []*row) (*row, bool) {
	for _, rw := range rs {
		if rw.size >= 1 && !(rw.nKeep == 1 && rw.nDiscard == 0 && rw.sf == 1) {
			return rw, false
		}
	}
	return nil, true
}

func oracleC06(h *verifx.H, mode string, cfg data_model.SamplerConfig, rows []*row, budget int64, uniformSize int, roundUps int, noSampleActive func(*row) bool) {
	var live []*row
	for _, rw := range rows {
		if rw.size >= 1 {
			live = append(live, rw)
		}
	}
	isFixed := func(rw *row) bool { return cfg.SampleBudgets && rw.budget > 0 }
	// fixed per-metric budgets
	fixed := map[int32]*part{}
	var free []*row
	anyBudget := false
	for _, rw := range live {
		if rw.budget > 0 {
			anyBudget = true
		}
		if isFixed(rw) {
			p := fixed[rw.metric]
			if p == nil {
				p = &part{}
				fixed[rw.metric] = p
			}
			p.size += int64(rw.size)
			p.rows = append(p.rows, rw)
		} else {
			free = append(free, rw)
		}
	}
	allFixedFit := true
	var fixedBudgetSum int64
	for id, p := range fixed {
		fb := int64(p.rows[0].budget)
		fixedBudgetSum += fb
		if p.size <= fb {
			if mode != "quota" {
				if bad, ok := allKeptOne(p.rows); !ok {
					h.Viol("fixed-budget-fits-but-sampled", "metric %d size %d fits its fixed budget %d but row %d kept=%d factor=%v", id, p.size, fb, bad.id, bad.nKeep, bad.sf)
				}
			}
		} else {
			allFixedFit = false
		}
	}
	var freeSize int64
	for _, rw := range free {
		freeSize += int64(rw.size)
	}
	// the whole bucket fits
	if allFixedFit && freeSize <= budget {
		if bad, ok := allKeptOne(live); !ok {
			h.Viol("bucket-fits-but-sampled", "bucket size %d <= budget %d (fixed budgets all fit) but row %d kept=%d factor=%v", freeSize, budget, bad.id, bad.nKeep, bad.sf)
		}
		if mode == "quota" {
			for _, rw := range live {
				if rw.quota != uint32(rw.size) {
					h.Viol("quota-fits-not-own-size", "bucket fits but row %d size %d got quota %d", rw.id, rw.size, rw.quota)
				}
			}
		}
	}
	// top level partitions of the rows without fixed budget (natural partitions: all rows of a namespace / group / metric)
	splitRisk := !cfg.SampleBudgets && anyBudget // the Budget!=0 sort key splits namespaces/groups in two runs
	if !splitRisk && len(free) > 0 {
		parts := map[[3]int32]*part{}
		var keys [][3]int32
		for _, rw := range free {
			var k [3]int32
			var w int64
			switch {
			case cfg.SampleNamespaces:
				k = [3]int32{rw.ns}
				if cfg.Meta != nil && rw.ns != 0 {
					w = rw.wNsTab
				}
			case cfg.SampleGroups:
				k = [3]int32{rw.ns, rw.grp}
				if cfg.Meta != nil && rw.grp != 0 {
					w = rw.wGrpTab
				}
			default:
				k = [3]int32{rw.ns, rw.grp, rw.metric}
				w = rw.wMetric
			}
			if w < 1 {
				w = 1
			}
			p := parts[k]
			if p == nil {
				p = &part{key: k, weight: w}
				parts[k] = p
				keys = append(keys, k)
			}
			p.size += int64(rw.size)
			p.rows = append(p.rows, rw)
		}
		sort.Slice(keys, func(i, j int) bool {
			a, b := keys[i], keys[j]
			for k := 0; k < 3; k++ {
				if a[k] != b[k] {
					return a[k] < b[k]
				}
			}
			return false
		})
		var W int64
		for _, k := range keys {
			W += parts[k].weight
		}
		for _, k := range keys {
			p := parts[k]
			if p.size*W <= budget*p.weight {
				h.Stat("oracle.topShareFits", 1)
				if bad, ok := allKeptOne(p.rows); !ok {
					h.Viol("fits-share-but-sampled", "partition ns=%d group=%d metric=%d size %d weight %d fits its share of budget %d (sum of weights %d) but row %d kept=%d factor=%v",
						k[0], k[1], k[2], p.size, p.weight, budget, W, bad.id, bad.nKeep, bad.sf)
				}
			} else {
				h.Stat("oracle.topShareExceeds", 1)
			}
		}
		// one level below: fair-key values inside a metric (flat hierarchy: metrics are the top level partitions). A metric that is
		// sampled gets at least floor(budget*w/W) (the per-weight share of the partitions left for the sampling loop never shrinks,
		// share_fits_or_still_fits; RoundF rounds to floor or floor+1), and its K fair-key values have weight 1 each: a value whose
		// size does not exceed that lower bound divided by K is within its share and keeps all its rows with factor 1.
		if !cfg.SampleNamespaces && !cfg.SampleGroups && cfg.SampleKeys && !anyBudget && mode != "quota" {
			for _, k := range keys {
				p := parts[k]
				fki := p.rows[0].fki
				if len(fki) == 0 {
					continue
				}
				lb := budget * p.weight / W
				vals := map[int32][]*row{}
				var vkeys []int32
				for _, rw := range p.rows {
					var v int32
					if x := fki[0]; 0 <= x && x < len(rw.item.Key.Tags) {
						v = rw.item.Key.Tags[x]
					}
					if vals[v] == nil {
						vkeys = append(vkeys, v)
					}
					vals[v] = append(vals[v], rw)
				}
				sort.Slice(vkeys, func(i, j int) bool { return vkeys[i] < vkeys[j] })
				for _, v := range vkeys {
					var sz int64
					for _, rw := range vals[v] {
						sz += int64(rw.size)
					}
					if sz*int64(len(vkeys)) <= lb {
						h.Stat("oracle.fairKeyFits", 1)
						if bad, ok := allKeptOne(vals[v]); !ok {
							h.Viol("fair-key-below-share-sampled", "metric %d (weight %d of %d, budget %d => at least %d bytes) has %d fair-key values; value %d of size %d is within its share %d but row %d kept=%d factor=%v",
								k[2], p.weight, W, budget, lb, len(vkeys), v, sz, lb/int64(len(vkeys)), bad.id, bad.nKeep, bad.sf)
						}
					} else {
						h.Stat("oracle.fairKeyExceeds", 1)
					}
				}
			}
		}
	}
	plain := !cfg.SampleKeepSingle
	for _, rw := range live {
		if noSampleActive(rw) {
			plain = false
		}
	}
	// deterministic selection never exceeds the budget — judged in the form the code guarantees for rows of ANY size
	// (Lean: det_leaf_count_le / det_kept_le_budget): every leaf (metric x fair key) keeps at most len/sf ROWS, so with
	// each kept row counted at the average row size of its leaf the total is at most budget + fixed budgets in force.
	// For rows of one size per metric this is the kept size in bytes. Preconditions as in the theorem: rows >= 2 bytes,
	// no SampleKeepSingle, no NoSampleAgent in effect.
	minSize := 1 << 30
	for _, rw := range live {
		minSize = min(minSize, rw.size)
	}
	if mode == "det" && plain && minSize >= 2 {
		type leafKey struct {
			metric int32
			fk     [3]int32
		}
		type leafAcc struct{ n, kept, size int64 }
		leaves := map[leafKey]*leafAcc{}
		for _, rw := range live {
			k := leafKey{metric: rw.metric}
			if cfg.SampleKeys {
				for j := 0; j < len(rw.fki) && j < 3; j++ {
					if x := rw.fki[j]; 0 <= x && x < len(rw.item.Key.Tags) {
						k.fk[j] = rw.item.Key.Tags[x]
					}
				}
			}
			l := leaves[k]
			if l == nil {
				l = &leafAcc{}
				leaves[k] = l
			}
			l.n++
			l.size += int64(rw.size)
			if rw.nKeep == 1 {
				l.kept++
			}
		}
		cost := new(big.Rat)
		for _, l := range leaves {
			cost.Add(cost, big.NewRat(l.kept*l.size, l.n))
		}
		h.Stat("oracle.detBudget", 1)
		if uniformSize == 0 {
			h.Stat("oracle.detBudget.mixedSizes", 1)
		}
		if cost.Cmp(big.NewRat(budget+fixedBudgetSum, 1)) > 0 {
			h.Viol("det-kept-cost-over-budget", "deterministic selection kept %s bytes (kept rows x average row size of their leaf) > budget %d + fixed budgets %d", cost.FloatString(2), budget, fixedBudgetSum)
		}
	} else if mode == "det" {
		h.Stat("oracle.detBudget.skipped", 1)
	}
	// quota mode: proportional inside a metric, sum within the budget (+1 per randomly rounded-up group budget)
	if mode == "quota" {
		var sum int64
		byMetric := map[int32][]*row{}
		for _, rw := range live {
			if rw.nKeep == 1 {
				sum += int64(rw.quota)
			}
			byMetric[rw.metric] = append(byMetric[rw.metric], rw)
		}
		if sum > budget+int64(roundUps) {
			h.Viol("quota-sum-over-budget", "quotas sum to %d > total budget %d (+%d random round-ups)", sum, budget, roundUps)
		}
		for _, rs := range byMetric {
			for _, a := range rs {
				qa := int64(0)
				if a.nKeep == 1 {
					qa = int64(a.quota)
				}
				if qa > int64(a.size) {
					h.Viol("quota-above-size", "row %d size %d got quota %d", a.id, a.size, qa)
				}
				for _, b := range rs {
					qb := int64(0)
					if b.nKeep == 1 {
						qb = int64(b.quota)
					}
					// q = floor(c*size) for one c  =>  -size_b < qa*size_b - qb*size_a < size_a ; rows kept whole have q = size (c >= 1)
					if qa == int64(a.size) || qb == int64(b.size) {
						continue
					}
					d := qa*int64(b.size) - qb*int64(a.size)
					if !(d < int64(a.size) && d > -int64(b.size)) {
						h.Viol("quota-not-proportional", "metric %d rows %d,%d sizes %d,%d quotas %d,%d", a.metric, a.id, b.id, a.size, b.size, qa, qb)
					}
				}
			}
		}
	}
}
