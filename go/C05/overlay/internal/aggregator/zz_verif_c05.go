//go:build verif

package aggregator

// Thin accessor for the C06 harness: builds a minimal but REAL *Aggregator (real built-in agent created like
// MakeAggregator does but never Run, real metajournal.MetricsStorage fed through its own ApplyEvent) and calls the
// repo's own calcHostMetricBudgets. No sampling logic lives here.

import (
	"time"

	"github.com/VKCOM/statshouse/internal/agent"
	"github.com/VKCOM/statshouse/internal/data_model"
	"github.com/VKCOM/statshouse/internal/data_model/gen2/tlmetadata"
	"github.com/VKCOM/statshouse/internal/data_model/gen2/tlstatshouse"
	"github.com/VKCOM/statshouse/internal/format"
	"github.com/VKCOM/statshouse/internal/metajournal"
)

type VerifC05Agg struct {
	a *Aggregator
}

func VerifC05NewAgg() (*VerifC05Agg, error) {
	config := DefaultConfigAggregator()
	a := &Aggregator{
		config:        config,
		configR:       config.RemoteInitial,
		shardKey:      1,
		replicaKey:    1,
		metricStorage: metajournal.MakeMetricsStorage(nil),
		orgMetricSize: data_model.NewExpDecayMetrics(config.RemoteInitial.OriginalSizeDecayHalfLife),
	}
	agentConfig := agent.DefaultConfig()
	agentConfig.Cluster = config.Cluster
	getConfigResult := tlstatshouse.GetConfigResult3{
		Addresses:          []string{"127.0.0.1:1", "127.0.0.1:2", "127.0.0.1:3"},
		ShardByMetricCount: 1,
	}
	sh2, err := agent.MakeAgent("tcp4", "", "", nil, agentConfig, "verif-host",
		format.TagValueIDComponentAggregator, nil, nil,
		func() (int64, string) { return 0, "" }, func() (int64, string) { return 0, "" },
		func(string, ...interface{}) {}, nil, &getConfigResult, nil)
	if err != nil {
		return nil, err
	}
	a.sh2 = sh2
	return &VerifC05Agg{a: a}, nil
}

// ResetMeta replaces the metric storage by a fresh one filled by the storage's own ApplyEvent.
func (v *VerifC05Agg) ResetMeta(events []tlmetadata.Event) {
	v.a.metricStorage = metajournal.MakeMetricsStorage(nil)
	if len(events) != 0 {
		v.a.metricStorage.ApplyEvent(events)
	}
}

func (v *VerifC05Agg) Meta() format.MetaStorageInterface { return v.a.metricStorage }

// HostBudgets calls the real calcHostMetricBudgets for a bucket whose agents reported `sizes`
// (metric -> host -> original size). The decayed history of earlier seconds is reset first.
func (v *VerifC05Agg) HostBudgets(sampleNamespaces, sampleGroups bool, receiveBudget int, ts uint32,
	sizes map[int32]map[data_model.TagUnion]uint32) map[data_model.TagUnion][]tlstatshouse.MetricBudget {
	a := v.a
	a.orgMetricSize = data_model.NewExpDecayMetrics(a.config.RemoteInitial.OriginalSizeDecayHalfLife)
	configR := a.configR
	configR.SampleNamespaces = sampleNamespaces
	configR.SampleGroups = sampleGroups
	configR.ReceiveSampleBudget = receiveBudget
	configR.ReceiveBudgetWarming = 0
	a.startTimestamp = uint32(time.Now().Unix())
	b := &aggregatorBucket{time: ts, originalMetricSize: sizes}
	out := map[data_model.TagUnion][]tlstatshouse.MetricBudget{}
	a.calcHostMetricBudgets(configR, b, out)
	return out
}
