//go:build verif

package data_model

import "pgregory.net/rand"

// Thin accessors for the C05/C06 correspondence harness (/verif). No logic of their own.

// VerifSelectRandom calls the real default selector of the sampler.
func VerifSelectRandom(s []SamplingMultiItemPair, sf float64, r *rand.Rand) int {
	return selectRandom(s, sf, r)
}

// VerifRoundSampleFactor calls the real default budget rounding of the sampler.
func VerifRoundSampleFactor(sf float64, r *rand.Rand) float64 {
	return roundSampleFactor(sf, r)
}

// VerifIsSingleValueCounter exposes MultiItem.isSingleValueCounter (used by SampleKeepSingle).
func VerifIsSingleValueCounter(item *MultiItem) bool {
	return item != nil && item.isSingleValueCounter()
}

// VerifMetricMeta resolves metric meta for an item the way sampler.Run does for the first item of a metric
// that does not carry matching MetricMeta itself.
func VerifMetricMeta(c SamplerConfig, metricID int32) (ns int32, group int32, weight int64, noSampleAgent bool, fairKeyIndex []int) {
	h := sampler{SamplerConfig: c}
	m := h.getMetricMeta(metricID)
	return m.NamespaceID, m.GroupID, m.EffectiveWeight, m.NoSampleAgent, m.FairKeyIndex
}

// VerifGroup is a printable copy of one entry of sampler.MetricGroups.
type VerifGroup struct {
	NamespaceID, GroupID, MetricID int32
	Budget, BudgetDenom            int64
	KeepCount, KeepSum             float64
	DiscardCount, DiscardSum       float64
}

// VerifMetricGroups copies sampler.MetricGroups (unexported budget fields included).
func VerifMetricGroups(groups []samplerGroup) []VerifGroup {
	res := make([]VerifGroup, 0, len(groups))
	for _, g := range groups {
		res = append(res, VerifGroup{
			NamespaceID: g.NamespaceID, GroupID: g.GroupID, MetricID: g.MetricID,
			Budget: g.budget, BudgetDenom: g.budgetDenom,
			KeepCount: g.SumSizeKeep.Count(), KeepSum: g.SumSizeKeep.ValueSum,
			DiscardCount: g.SumSizeDiscard.Count(), DiscardSum: g.SumSizeDiscard.ValueSum,
		})
	}
	return res
}

// VerifSingleValueTL exposes ItemValue.singleValueTL (used by MultiValue.TLSizeEstimate).
func VerifSingleValueTL(v *MultiValue) bool { return v.Value.singleValueTL() }
