//go:build verif

package agent

// Thin accessor for the C05 harness: a Shard wired just enough (as makeAgent in agent_test.go does) to run the REAL
// (*Shard).sampleBucket, including its own NoSampleAgent bypass and budget computation. No sampling logic lives here.

import (
	"sync"

	"pgregory.net/rand"

	"github.com/VKCOM/statshouse/internal/data_model"
	"github.com/VKCOM/statshouse/internal/data_model/gen2/tlstatshouse"
	"github.com/VKCOM/statshouse/internal/format"
	"github.com/VKCOM/statshouse/internal/pcache"
)

type VerifC05Shard struct {
	shard         *Shard
	buffers       data_model.SamplerBuffers
	scratch       []byte
	budgetScratch map[int32]uint32
	sizeScratch   map[int32]uint32
}

// VerifC05NewShard: one shard of an agent with the given component tag and metric storage.
func VerifC05NewShard(componentTag int32, meta format.MetaStorageInterface, nowUnix uint32) *VerifC05Shard {
	config := DefaultConfig()
	agent := &Agent{
		config:        config,
		componentTag:  componentTag,
		metricStorage: meta,
		logF:          func(f string, a ...any) {},
		mappingsCache: pcache.NewMappingsCache(data_model.NewChunkedStorageNop(), 1024*1024, 86400),
	}
	agent.Shards = make([]*Shard, 1)
	for i := range agent.Shards {
		shard := &Shard{
			ShardNum:    i,
			ShardKey:    int32(i + 1),
			config:      config,
			agent:       agent,
			CurrentTime: nowUnix,
			SendTime:    nowUnix - 2,
		}
		for j := 0; j < superQueueLen; j++ {
			shard.SuperQueue[j] = &data_model.MetricsBucket{}
		}
		shard.cond = sync.NewCond(&shard.mu)
		agent.Shards[i] = shard
	}
	agent.initBuiltInMetrics()
	agent.shardByMetricCount = uint32(len(agent.Shards))
	s := agent.Shards[0]
	s.metricBudgetsFromAgg = data_model.NewExpDecay(config.BudgetDecayHalfLife)
	return &VerifC05Shard{shard: s, budgetScratch: map[int32]uint32{}, sizeScratch: map[int32]uint32{}}
}

// Configure sets the sampling options of the shard config (what the remote config would set).
func (v *VerifC05Shard) Configure(shardBudget int, minBudget int, keepSingle, disableNoSample, budgets, namespaces, groups, keys bool, stringTopCountSend int) {
	s := v.shard
	s.mu.Lock()
	defer s.mu.Unlock()
	c := s.config
	c.ShardSampleBudget = map[int]int{int(s.ShardKey): shardBudget}
	c.MinSampleBudget = minBudget
	c.SampleKeepSingle = keepSingle
	c.DisableNoSampleAgent = disableNoSample
	c.SampleBudgets = budgets
	c.SampleNamespaces = namespaces
	c.SampleGroups = groups
	c.SampleKeys = keys
	c.StringTopCountSend = stringTopCountSend
	s.config = c
}

// SampleBucket runs the real (*Shard).sampleBucket on bucket and returns the SourceBucket3 it filled.
func (v *VerifC05Shard) SampleBucket(bucket *data_model.MetricsBucket, rng *rand.Rand) tlstatshouse.SourceBucket3 {
	var sb tlstatshouse.SourceBucket3
	v.buffers, v.scratch = v.shard.sampleBucket(bucket, &sb, v.buffers, v.scratch, v.budgetScratch, v.sizeScratch, rng)
	return sb
}
