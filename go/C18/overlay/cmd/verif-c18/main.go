//go:build verif

// verif-c18: correspondence + direct oracle for fsbinlog (append / rotate / replay / resume / damage).
//
// One case = one history on a gofs memory file system: 1-3 writer sessions (ReadAll + WriteLoop) appending events in
// batches, then read-only replays of the resulting files: from 0, from every commit (with its snapshot meta), of copies
// truncated at chosen (thorough: all) offsets of the last files and of copies with single bit flips.
//
// The writer goroutine is made deterministic without touching the code: the harness engine blocks inside
// Engine.StartReindex (reached through RequestReindex), appends a batch while the writer is parked there, then lets it
// run exactly until the batch has been taken and the writer is parked again. The only remaining nondeterminism is the
// 500 ms flush timer; whether it fired is observed (a commit without an ASAP append) and passed to the model as input.
package main

import (
	"encoding/binary"
	"errors"
	"fmt"
	"hash/crc32"
	"math/rand"
	"os"
	"sort"
	"strings"
	"sync"
	"time"

	"github.com/myxo/gofs"

	"github.com/VKCOM/statshouse/internal/verifx"
	"github.com/VKCOM/statshouse/internal/vkgo/binlog"
	"github.com/VKCOM/statshouse/internal/vkgo/binlog/fsbinlog"
)

const schemaMagic = 0x3b9f01a7

var consts = fsbinlog.VerifConsts()

// ---------------------------------------------------------------- engine stub

type event struct {
	off  int64
	data []byte
}

type commit struct {
	off  int64
	crc  uint32
	ts   uint32
	meta []byte
}

type engine struct {
	mu       sync.Mutex
	magic    uint32
	off      int64
	evs      []event
	skips    [][2]int64
	commits  []commit
	ready    chan struct{}
	entered  chan struct{}
	gate     chan struct{}
	onCommit func(c commit)
	// set by the harness after RequestShutdown: run once inside the next Engine.Commit (on the writer goroutine)
	inShutdownCommit func()
}

func newEngine(magic uint32, off int64) *engine {
	return &engine{magic: magic, off: off, ready: make(chan struct{}, 4), entered: make(chan struct{}, 4), gate: make(chan struct{})}
}

func (e *engine) Apply(p []byte) (int64, error) {
	e.mu.Lock()
	defer e.mu.Unlock()
	if len(p) < 4 {
		return e.off, binlog.ErrorNotEnoughData
	}
	if binary.LittleEndian.Uint32(p) != e.magic {
		return e.off, binlog.ErrorUnknownMagic
	}
	if len(p) < 8 {
		return e.off, binlog.ErrorNotEnoughData
	}
	n := int64(binary.LittleEndian.Uint32(p[4:]))
	if int64(len(p))-8 < n {
		return e.off, binlog.ErrorNotEnoughData
	}
	e.evs = append(e.evs, event{e.off, append([]byte(nil), p[:8+n]...)})
	e.off += int64(fsbinlog.AddPadding(int(8 + n)))
	return e.off, nil
}

func (e *engine) Skip(n int64) (int64, error) {
	e.mu.Lock()
	defer e.mu.Unlock()
	e.skips = append(e.skips, [2]int64{e.off, n})
	e.off += n
	return e.off, nil
}

func (e *engine) Commit(off int64, meta []byte, safe int64) error {
	c := commit{off: off, meta: append([]byte(nil), meta...)}
	if len(meta) >= 24 {
		c.crc = binary.LittleEndian.Uint32(meta[16:])
		c.ts = binary.LittleEndian.Uint32(meta[20:])
	}
	e.mu.Lock()
	e.commits = append(e.commits, c)
	f := e.onCommit
	g := e.inShutdownCommit
	e.inShutdownCommit = nil
	e.mu.Unlock()
	if f != nil {
		f(c)
	}
	if g != nil {
		g()
	}
	return nil
}

func (e *engine) Revert(int64) (bool, error) { return false, nil }
func (e *engine) ChangeRole(info binlog.ChangeRoleInfo) error {
	if info.IsReady {
		select {
		case e.ready <- struct{}{}:
		default:
		}
	}
	return nil
}
func (e *engine) StartReindex(binlog.ReindexOperator) {
	e.entered <- struct{}{}
	<-e.gate
}
func (e *engine) Split(int64, string) bool { return false }
func (e *engine) Shutdown()                {}

func (e *engine) nCommits() int {
	e.mu.Lock()
	defer e.mu.Unlock()
	return len(e.commits)
}

// ---------------------------------------------------------------- helpers

func classify(err error) string {
	if err == nil {
		return "none"
	}
	s := err.Error()
	switch {
	case strings.Contains(s, "crc32 mismatch"):
		return "crc"
	case strings.Contains(s, "Engine.Skip return new position"):
		return "skip"
	case strings.Contains(s, "unexpected magic magic"):
		return "badMagic"
	case strings.Contains(s, "could not readBinlogHeaderFromFile"):
		return "scan"
	case strings.Contains(s, "cannot seek"):
		return "seek"
	case strings.Contains(s, "tryed to seek"):
		return "seekCrc"
	case strings.Contains(s, "start offset position is lesser"):
		return "metaPos"
	case strings.Contains(s, "cannot start from offset"):
		return "fromLow"
	case strings.Contains(s, "apply lev: new position"):
		return "applyPos"
	case strings.Contains(s, "engine declared to read"):
		return "applyLen"
	case strings.Contains(s, "didnt read any bytes"):
		return "applyZero"
	case strings.Contains(s, "wrong snapshot meta format"):
		return "badMeta"
	case strings.Contains(s, "binlog not found"):
		return "notFound"
	case errors.Is(err, binlog.ErrorUnknownMagic):
		return "unknownMagic"
	}
	return "other:" + strings.ReplaceAll(s, " ", "_")
}

type fileImg struct {
	name string
	pos  int64
	data []byte
}

func filePos(d []byte) int64 {
	if len(d) >= 16 && binary.LittleEndian.Uint32(d) == uint32(consts["magicLevRotateFrom"]) {
		return int64(binary.LittleEndian.Uint64(d[8:]))
	}
	return 0
}

func snapshot(fs gofs.FS, dir string) []fileImg {
	ents, err := fs.ReadDir(dir)
	if err != nil {
		panic(err)
	}
	var out []fileImg
	for _, e := range ents {
		if !strings.HasSuffix(e.Name(), ".bin") {
			continue
		}
		d, err := fs.ReadFile(dir + "/" + e.Name())
		if err != nil {
			panic(err)
		}
		d = append([]byte(nil), d...)
		out = append(out, fileImg{dir + "/" + e.Name(), filePos(d), d})
	}
	sort.Slice(out, func(i, j int) bool {
		if out[i].pos != out[j].pos {
			return out[i].pos < out[j].pos
		}
		return out[i].name < out[j].name
	})
	return out
}

func stream(files []fileImg) []byte {
	var s []byte
	for _, f := range files {
		s = append(s, f.data...)
	}
	return s
}

func digest(evs []event) uint32 {
	var c uint32
	var b [8]byte
	for _, e := range evs {
		binary.LittleEndian.PutUint64(b[:], uint64(e.off))
		c = crc32.Update(c, crc32.IEEETable, b[:])
		c = crc32.Update(c, crc32.IEEETable, e.data)
	}
	return c
}

func commitStr(c *commit) string {
	if c == nil {
		return "-"
	}
	return fmt.Sprintf("%d/%d/%d", c.off, c.crc, c.ts)
}

// ---------------------------------------------------------------- one case

type appended struct {
	off  int64 // offset the writer assigned (= onOffset of the accepted Append)
	data []byte
}

type caseCtx struct {
	h        *verifx.H
	r        *verifx.Rng
	fs       *gofs.InMemoryFS
	dir      string
	opts     fsbinlog.Options
	magic    uint32
	chunk    uint32
	big      bool
	appended []appended
	commits  []commit // writer-phase commits of all sessions (resume points)
	corrupt  *rand.Rand
	noOracle bool // malformed stream: correspondence only
	aborted  bool // Append panicked: the history ends there

	filesAtLastCommit int
}

func (c *caseCtx) mkOpts(fs gofs.FS) fsbinlog.Options {
	zero := time.Duration(0)
	return fsbinlog.Options{PrefixPath: c.dir + "/bl", Magic: schemaMagic, MaxChunkSize: c.chunk, Fs: fs, WriteCallDelay: &zero}
}

// payload spec: generated body (len,a,b) or explicit hex
func (c *caseCtx) mkPayload(n int) (spec string, data []byte) {
	a, b := c.r.Intn(256), c.r.Intn(256)
	data = make([]byte, 8+n)
	binary.LittleEndian.PutUint32(data, c.magic)
	binary.LittleEndian.PutUint32(data[4:], uint32(n))
	for i := 0; i < n; i++ {
		data[8+i] = byte(a + i*b)
	}
	return fmt.Sprintf("g:%d:%d:%d", n, a, b), data
}

// commit oracle, evaluated inside Engine.Commit on the writer goroutine (nothing else touches the files then)
func (c *caseCtx) checkCommit(prev *commit, cm commit) {
	h := c.h
	if prev != nil && cm.off < prev.off {
		h.Viol("commit-not-monotone", "Commit(%d) after Commit(%d)", cm.off, prev.off)
	}
	before := snapshot(c.fs, c.dir)
	if len(before) > c.filesAtLastCommit && c.filesAtLastCommit > 0 {
		c.h.Stat("oracle.commitAfterRotation", 1) // closed chunks (with their ROTATE_TO) lie below this commit
		c.h.NonTrivial("commit-after-rotation")
	}
	c.filesAtLastCommit = len(before)
	s := stream(before)
	if int64(len(s)) < cm.off {
		h.Viol("commit-beyond-written", "Commit(%d) but only %d bytes are in the files", cm.off, len(s))
		return
	}
	if cm.off >= 0 && crc32.ChecksumIEEE(s[:cm.off]) != cm.crc {
		h.Viol("commit-meta-crc", "Commit(%d) meta crc %08x != crc32 of the first %d bytes %08x", cm.off, cm.crc, cm.off, crc32.ChecksumIEEE(s[:cm.off]))
	}
	// bytes not covered by an fsync are "dirty pages" of the memory fs; CorruptDirtyPages bumps one byte in each of them
	for round := 0; round < 2; round++ {
		c.fs.CorruptDirtyPages(c.corrupt)
		after := snapshot(c.fs, c.dir)
		for i := range after {
			if i >= len(before) {
				break
			}
			for k := range after[i].data {
				if k < len(before[i].data) && after[i].data[k] != before[i].data[k] {
					g := before[i].pos + int64(k)
					if g < cm.off {
						h.Viol("commit-beyond-fsync", "Commit(%d) but byte %d of the stream (file %d offset %d) was written and not fsynced", cm.off, g, i, k)
					}
					// restore
					if fp, err := c.fs.OpenFile(after[i].name, os.O_WRONLY, 0640); err == nil {
						_, _ = fp.WriteAt(before[i].data[k:k+1], int64(k))
						_ = fp.Close()
					}
				}
			}
		}
	}
	h.Stat("oracle.commit", 1)
}

type readRes struct {
	err     string
	ri      fsbinlog.PositionInfo
	eng     *engine
	elapsed time.Duration
}

func (c *caseCtx) doRead(fs gofs.FS, from int64, meta []byte, eoff int64) (res readRes) {
	eng := newEngine(c.magic, eoff)
	res.eng = eng
	defer func() {
		if p := recover(); p != nil {
			res.err = "panic"
		}
	}()
	bl, err := fsbinlog.NewFsBinlog(&binlog.EmptyLogger{}, c.mkOpts(fs))
	if err != nil {
		panic(err)
	}
	t0 := time.Now()
	ri, err := bl.ReadAll(from, meta, eng)
	res.elapsed = time.Since(t0)
	res.ri = ri
	res.err = classify(err)
	return res
}

func (c *caseCtx) readObs(kind string, res readRes) {
	e := res.eng
	var last *commit
	if len(e.commits) > 0 {
		last = &e.commits[len(e.commits)-1]
	}
	if res.err == "panic" {
		c.h.Obs("%s err=panic", kind)
		return
	}
	c.h.Obs("%s err=%s pos=%d crc=%d n=%d dig=%d eoff=%d rc=%s", kind, res.err, res.ri.Offset, res.ri.Crc, len(e.evs), digest(e.evs), e.off, commitStr(last))
	// reader commits: monotone, crc = crc of the stream prefix (checked by the caller where the stream is known)
	for i := 1; i < len(e.commits); i++ {
		if e.commits[i].off < e.commits[i-1].off {
			c.h.Viol("read-commit-not-monotone", "reader Commit(%d) after Commit(%d)", e.commits[i].off, e.commits[i-1].off)
		}
	}
}

// expected events with offset >= from
func (c *caseCtx) suffix(from int64) []appended {
	var out []appended
	for _, a := range c.appended {
		if a.off >= from {
			out = append(out, a)
		}
	}
	return out
}

func sameEvents(got []event, want []appended) string {
	if len(got) != len(want) {
		return fmt.Sprintf("delivered %d events, expected %d", len(got), len(want))
	}
	for i := range got {
		if got[i].off != want[i].off {
			return fmt.Sprintf("event %d delivered at offset %d, writer returned %d", i, got[i].off, want[i].off)
		}
		if string(got[i].data) != string(want[i].data) {
			return fmt.Sprintf("event %d at offset %d: payload differs", i, got[i].off)
		}
	}
	return ""
}

func (c *caseCtx) copyFS(files []fileImg) *gofs.InMemoryFS {
	fs := gofs.NewThreadSafeMemoryFs()
	if err := fs.MkdirAll(c.dir, 0777); err != nil {
		panic(err)
	}
	for _, f := range files {
		if err := fs.WriteFile(f.name, f.data, 0640); err != nil {
			panic(err)
		}
	}
	return fs
}

// session: ReadAll(from, meta) + WriteLoop + batches of appends + shutdown. Returns false if it could not run.
func (c *caseCtx) session(from int64, meta []byte, nBatches int) bool {
	h, r := c.h, c.r
	eng := newEngine(c.magic, from)
	bl, err := fsbinlog.NewFsBinlog(&binlog.EmptyLogger{}, c.mkOpts(c.fs))
	if err != nil {
		panic(err)
	}
	h.Op("open %d %s %d", from, verifx.Hex(meta), from)
	t0 := time.Now()
	ri, err := bl.ReadAll(from, meta, eng)
	res := readRes{err: classify(err), ri: ri, eng: eng, elapsed: time.Since(t0)}
	c.readObs("open", res)
	if err != nil {
		h.Viol("open-failed", "ReadAll(%d, meta) of an undamaged binlog failed: %v", from, err)
		return false
	}
	if msg := sameEvents(eng.evs, c.suffix(from)); msg != "" {
		h.Viol("resume-mismatch", "session replay from %d: %s", from, msg)
	}
	var prev *commit
	eng.mu.Lock()
	c.commits = append(c.commits, eng.commits...) // the reader's own commits are resume points too
	eng.commits = nil
	eng.onCommit = func(cm commit) {
		c.checkCommit(prev, cm)
		cc := cm
		prev = &cc
	}
	eng.mu.Unlock()
	type wlRes struct {
		ri  fsbinlog.PositionInfo
		err error
	}
	done := make(chan wlRes, 1)
	go func() {
		ri2, err2 := bl.WriteLoop(ri)
		done <- wlRes{ri2, err2}
	}()
	select {
	case <-eng.ready:
	case d := <-done:
		h.Obs("wl failed %v", classify(d.err))
		h.Viol("writeloop-failed", "WriteLoop ended at once: %v", d.err)
		return false
	case <-time.After(20 * time.Second):
		h.Obs("wl hang")
		return false
	}
	// park the writer
	bl.RequestReindex(false, false)
	<-eng.entered
	{
		eng.mu.Lock()
		var first *commit
		if len(eng.commits) > 0 {
			first = &eng.commits[0]
		}
		h.Obs("wl commit=%s", commitStr(first))
		eng.mu.Unlock()
	}
	c.commits = append(c.commits, eng.commits...)
	pos := ri.Offset
	written := func() int64 {
		var t int64
		for _, f := range snapshot(c.fs, c.dir) {
			t += int64(len(f.data))
		}
		return t
	}
	runIter := func(hasAsap bool) {
		n0 := eng.nCommits()
		for guard := 0; ; guard++ {
			bl.RequestReindex(false, false)
			eng.gate <- struct{}{}
			<-eng.entered
			if fsbinlog.VerifBufLen(bl) == 0 || guard > 1000 {
				break
			}
		}
		eng.mu.Lock()
		news := append([]commit(nil), eng.commits[n0:]...)
		eng.mu.Unlock()
		timer := 0
		if len(news) > 0 && !hasAsap {
			timer = 1
			h.Stat("iter.timerCommit", 1)
		}
		h.Op("iter %d", timer)
		var last *commit
		if len(news) > 0 {
			last = &news[len(news)-1]
			h.Stat("iter.commit", 1)
		} else {
			h.Stat("iter.nocommit", 1)
		}
		if len(news) > 1 {
			h.Viol("iter-two-commits", "%d commits in one writer step", len(news))
		}
		h.Obs("iter commit=%s written=%d", commitStr(last), written())
		c.commits = append(c.commits, news...)
	}
	type outLine struct {
		op bool
		s  string
	}
	// one Append on the real binlog; lines go to `sink` (emitted later) or straight to the protocol.
	// returns (accepted, abort)
	appendOne := func(n int, asap, wrong, mayBeRefused bool, sink *[]outLine) (bool, bool) {
		emit := func(op bool, format string, a ...any) {
			l := fmt.Sprintf(format, a...)
			if sink != nil {
				*sink = append(*sink, outLine{op, l})
			} else if op {
				h.Op("%s", l)
			} else {
				h.Obs("%s", l)
			}
		}
		inOff := pos
		if wrong {
			inOff = pos + int64(4*(r.Intn(3)-1))
			if inOff == pos {
				inOff = pos + 4
			}
		}
		spec, data := c.mkPayload(n)
		bufBefore, _, _, _ := fsbinlog.VerifBuf(bl)
		var next int64
		var aerr error
		panicked := func() (p bool) {
			defer func() {
				if rec := recover(); rec != nil {
					p = true
					h.Note("Append panicked: %v", rec)
				}
			}()
			if asap {
				next, aerr = bl.AppendASAP(inOff, data)
			} else {
				next, aerr = bl.Append(inOff, data)
			}
			return false
		}()
		bufAfter, crc, offAfter, _ := fsbinlog.VerifBuf(bl)
		if panicked {
			emit(true, "app %d %d %d %d %d %s", b2i(asap), inOff, 0, 0, 0, spec)
			emit(false, "app res=panic next=%d crc=%d add=0", offAfter, crc)
			h.Stat("app.panic", 1)
			h.Viol("append-panic", "Append(%d, %d bytes) panicked in putLevToBuffer (chunk size %d, session resumed at %d in the first chunk)", inOff, len(data), c.chunk, from)
			c.aborted = true
			return false, true
		}
		var added []byte
		if len(bufAfter) >= len(bufBefore) && aerr == nil {
			added = bufAfter[len(bufBefore):]
		}
		var ts, h1, h2 uint64
		extra := added[min(len(added), fsbinlog.AddPadding(len(data))):]
		if len(extra) >= 20 && binary.LittleEndian.Uint32(extra) == uint32(consts["magicLevCrc32"]) {
			ts = uint64(binary.LittleEndian.Uint32(extra[4:]))
			extra = extra[20:]
			h.Stat("app.crcLev", 1)
			h.NonTrivial("crc-record")
		}
		if len(extra) >= 72 && binary.LittleEndian.Uint32(extra) == uint32(consts["magicLevRotateTo"]) {
			ts = uint64(binary.LittleEndian.Uint32(extra[4:]))
			h1 = binary.LittleEndian.Uint64(extra[20:])
			h2 = binary.LittleEndian.Uint64(extra[28:])
			h.Stat("app.rotate", 1)
			h.NonTrivial("rotation")
		}
		emit(true, "app %d %d %d %d %d %s", b2i(asap), inOff, ts, h1, h2, spec)
		resS := "ok"
		if aerr != nil {
			switch {
			case strings.Contains(aerr.Error(), "already stopped"):
				resS = "stopped"
			case strings.Contains(aerr.Error(), "wrong offset"):
				resS = "wrongOffset"
			default:
				resS = "other"
			}
		}
		emit(false, "app res=%s next=%d crc=%d add=%d", resS, next, crc, crc32.ChecksumIEEE(added))
		h.Stat("app."+resS, 1)
		if aerr == nil {
			c.appended = append(c.appended, appended{pos, data})
			if next != pos+int64(len(added)) {
				h.Viol("append-offset", "Append returned %d, buffer grew by %d from %d", next, len(added), pos)
			}
			pos = next
			return true, false
		}
		if !wrong && !(mayBeRefused && resS == "stopped") {
			h.Viol("append-failed", "Append(%d) failed: %v", inOff, aerr)
		}
		return false, false
	}
	abortSession := func() bool {
		bl.RequestShutdown()
		eng.gate <- struct{}{}
		select {
		case <-done:
		case <-time.After(20 * time.Second):
		}
		return false
	}
	for b := 0; b < nBatches; b++ {
		k := r.Pick(5, 3, 2, 1, 1) + 1
		if r.Chance(1, 12) {
			k = 0
		}
		hasAsap := false
		for j := 0; j < k; j++ {
			asap := r.Chance(3, 10)
			acc, abort := appendOne(c.payloadLen(), asap, r.Chance(1, 60), false, nil)
			if abort {
				return abortSession()
			}
			if acc && asap {
				hasAsap = true
			}
		}
		runIter(hasAsap)
	}
	// shutdown window (every other session): appends that are in the buffer when shutdown is requested, an append made after
	// RequestShutdown while the writer has not looked yet, and an append made from inside the writer's Engine.Commit call
	// that follows the shutdown request (another goroutine racing with the final write/fsync/commit).  Every append that is
	// acknowledged must end up in the files; one that cannot be written any more must be refused.
	var pending []outLine
	pendingAccepted := false
	if r.Chance(1, 2) {
		h.Stat("stop.window", 1)
		h.NonTrivial("shutdown-window")
		for j := r.Range(1, 2); j > 0; j-- {
			if _, abort := appendOne(c.payloadLen(), false, false, false, nil); abort {
				return abortSession()
			}
		}
		eng.mu.Lock()
		eng.inShutdownCommit = func() {
			acc, _ := appendOne(r.Range(0, 24), false, false, true, &pending)
			pendingAccepted = acc
			if acc {
				h.Stat("stop.inCommitAccepted", 1)
			} else {
				h.Stat("stop.inCommitRefused", 1)
			}
		}
		eng.mu.Unlock()
	}
	// shutdown: the writer is parked with an empty buffer
	n0 := eng.nCommits()
	bl.RequestShutdown()
	eng.mu.Lock()
	window := eng.inShutdownCommit != nil
	eng.mu.Unlock()
	if window && r.Chance(1, 2) {
		// the stop channel is closed but the writer has not run yet: this append must still be accepted and written
		if _, abort := appendOne(c.payloadLen(), false, false, false, nil); abort {
			return abortSession()
		}
		h.Stat("stop.afterRequest", 1)
	}
	eng.gate <- struct{}{}
	var fin wlRes
	select {
	case fin = <-done:
	case <-time.After(20 * time.Second):
		h.Obs("stop hang")
		return false
	}
	eng.mu.Lock()
	news := append([]commit(nil), eng.commits[n0:]...)
	eng.mu.Unlock()
	var last *commit
	if len(news) > 0 {
		last = &news[len(news)-1]
	}
	flush := func() {
		for _, l := range pending {
			if l.op {
				h.Op("%s", l.s)
			} else {
				h.Obs("%s", l.s)
			}
		}
	}
	if pendingAccepted {
		flush() // accepted before the writer stopped accepting: for the model it is an append in front of the stop iteration
	}
	h.Op("stop")
	h.Obs("stop err=%s commit=%s pos=%d crc=%d", classify(fin.err), commitStr(last), fin.ri.Offset, fin.ri.Crc)
	if !pendingAccepted {
		flush() // refused: an append after the stop iteration
	}
	c.commits = append(c.commits, news...)
	if fin.ri.Offset != pos {
		h.Viol("stop-position", "WriteLoop returned offset %d, last Append returned %d", fin.ri.Offset, pos)
	}
	// an append after stop must be refused
	if r.Chance(1, 4) {
		spec, data := c.mkPayload(4)
		next, aerr := bl.Append(pos, data)
		_, crc, _, _ := fsbinlog.VerifBuf(bl)
		h.Op("app 0 %d 0 0 0 %s", pos, spec)
		resS := "ok"
		if aerr != nil && strings.Contains(aerr.Error(), "already stopped") {
			resS = "stopped"
		}
		h.Obs("app res=%s next=%d crc=%d add=%d", resS, next, crc, 0)
		if aerr == nil {
			h.Viol("append-after-stop", "Append accepted after the writer stopped")
		}
	}
	// files
	files := snapshot(c.fs, c.dir)
	h.Op("files")
	h.Obs("files %d", len(files))
	for _, f := range files {
		h.Obs("file %d %d %d", f.pos, len(f.data), crc32.ChecksumIEEE(f.data))
	}
	// every acknowledged append is in the files at the offset Append returned
	{
		st := stream(files)
		for _, a := range c.appended {
			if a.off < 0 || a.off+int64(len(a.data)) > int64(len(st)) || string(st[a.off:a.off+int64(len(a.data))]) != string(a.data) {
				h.Viol("acked-append-lost", "Append at offset %d (%d bytes) returned nil error but the event is not in the files after shutdown (stream has %d bytes)", a.off, len(a.data), len(st))
				break
			}
		}
		h.Stat("oracle.acked", 1)
	}
	// every commit of this history: offset <= durable bytes was checked in checkCommit; here: last commit covers everything
	if len(c.commits) > 0 && c.commits[len(c.commits)-1].off != pos {
		h.Viol("final-commit", "after shutdown the last commit is %d, appended up to %d", c.commits[len(c.commits)-1].off, pos)
	}
	return true
}

func b2i(b bool) int {
	if b {
		return 1
	}
	return 0
}

func (c *caseCtx) payloadLen() int {
	r := c.r
	if c.big {
		switch r.Pick(6, 2, 1) {
		case 0:
			return r.Range(1000, 9000)
		case 1:
			return r.Range(0, 64)
		default:
			return r.Range(20000, 70000)
		}
	}
	switch r.Pick(6, 2, 1) {
	case 0:
		return r.Range(0, 40)
	case 1:
		return r.Range(0, 4)
	default:
		return r.Range(40, 300)
	}
}

// ---------------------------------------------------------------- read-only checks on the final files

type dmg struct {
	kind byte // '-', 't', 'f', 'd'
	file int
	a, b int
}

func (d dmg) String() string {
	switch d.kind {
	case 't':
		return fmt.Sprintf("t:%d:%d", d.file, d.a)
	case 'f':
		return fmt.Sprintf("f:%d:%d:%d", d.file, d.a, d.b)
	case 'd':
		return fmt.Sprintf("d:%d", d.file)
	}
	return "-"
}

func applyDmg(files []fileImg, d dmg) []fileImg {
	out := make([]fileImg, 0, len(files))
	for i, f := range files {
		if i != d.file || d.kind == '-' {
			out = append(out, f)
			continue
		}
		switch d.kind {
		case 't':
			out = append(out, fileImg{f.name, f.pos, append([]byte(nil), f.data[:d.a]...)})
		case 'f':
			nd := append([]byte(nil), f.data...)
			nd[d.a] ^= 1 << uint(d.b)
			out = append(out, fileImg{f.name, f.pos, nd})
		case 'd':
		}
	}
	return out
}

func hdrLen(f fileImg) int {
	if f.pos == 0 {
		return 24
	}
	return 36
}

// positions of crc records in the undamaged stream (global offsets), found by walking the records
func crcRecords(files []fileImg, magic uint32) (recs []int64) {
	for _, f := range files {
		d := f.data
		p := 0
		for p+4 <= len(d) {
			m := binary.LittleEndian.Uint32(d[p:])
			switch m {
			case 0x044c644b:
				p += 24
			case uint32(consts["magicLevRotateFrom"]), uint32(consts["magicLevRotateTo"]):
				p += 36
			case uint32(consts["magicLevTag"]):
				p += 20
			case uint32(consts["magicLevCrc32"]):
				recs = append(recs, f.pos+int64(p))
				p += 20
			case magic:
				if p+8 > len(d) {
					p = len(d)
					break
				}
				p += fsbinlog.AddPadding(8 + int(binary.LittleEndian.Uint32(d[p+4:])))
			default:
				p = len(d)
			}
		}
	}
	return recs
}

func (c *caseCtx) readCheck(files []fileImg, from int64, meta []byte, eoff int64, d dmg, crcs []int64) {
	h := c.h
	dm := applyDmg(files, d)
	fs := c.copyFS(dm)
	h.Op("read %d %s %d %s", from, verifx.Hex(meta), eoff, d.String())
	res := c.doRead(fs, from, meta, eoff)
	c.readObs("read", res)
	h.Stat("read.err."+strings.SplitN(res.err, ":", 2)[0], 1)
	h.Stat("read.dmg."+string(d.kind), 1)
	if eoff != from || c.noOracle {
		return // malformed stream: correspondence only
	}
	evs := res.eng.evs
	switch d.kind {
	case '-':
		if res.err != "none" {
			h.Viol("replay-failed", "ReadAll(%d) of an undamaged binlog: %s", from, res.err)
			return
		}
		if msg := sameEvents(evs, c.suffix(from)); msg != "" {
			h.Viol("replay-mismatch", "replay from %d: %s", from, msg)
		}
		s := stream(files)
		if res.ri.Offset != int64(len(s)) {
			h.Viol("replay-end", "replay from %d ended at %d, stream has %d bytes", from, res.ri.Offset, len(s))
		} else if res.ri.Crc != crc32.ChecksumIEEE(s) {
			h.Viol("replay-crc", "replay from %d ended with crc %08x, stream crc %08x", from, res.ri.Crc, crc32.ChecksumIEEE(s))
		}
		for _, cm := range res.eng.commits {
			if cm.off < 0 || cm.off > int64(len(s)) || crc32.ChecksumIEEE(s[:cm.off]) != cm.crc {
				h.Viol("read-commit-crc", "reader Commit(%d) carries crc %08x which is not the crc of that prefix", cm.off, cm.crc)
			}
		}
		h.Stat("oracle.replay", 1)
	case 't':
		if d.file != len(files)-1 {
			return
		}
		f := files[d.file]
		T := f.pos + int64(d.a) // global truncation point
		if from > T {
			return
		}
		if d.a < hdrLen(f) {
			if f.pos == 0 {
				return // the LevStart of the very first file is cut: there is no binlog to replay
			}
			// a crash inside rotate() (new file created, ROTATE_FROM not yet durable): every event is still complete in the
			// previous files, but the torn header makes the whole binlog unreadable (known finding)
			if res.err != "none" {
				h.Viol("truncated-file-header", "last file cut to %d bytes (< its %d byte header): %s instead of a replay of the complete events", d.a, hdrLen(f), res.err)
			}
			h.Stat("oracle.truncHeader", 1)
			return
		}
		if res.err != "none" {
			h.Viol("truncation-fails", "last file cut to %d bytes: replay fails with %s", d.a, res.err)
			return
		}
		want := c.suffix(from)
		i := 0
		for _, w := range want {
			end := w.off + int64(len(w.data))
			pend := w.off + int64(fsbinlog.AddPadding(len(w.data)))
			if pend <= T {
				if i >= len(evs) || evs[i].off != w.off || string(evs[i].data) != string(w.data) {
					h.Viol("truncation-lost-event", "cut at %d: complete event at %d (ends %d) not delivered in order", T, w.off, pend)
					return
				}
				i++
			} else if end <= T {
				if i < len(evs) && evs[i].off == w.off && string(evs[i].data) == string(w.data) {
					i++ // all payload bytes present, padding cut: either outcome is fine
				}
			} else {
				break
			}
		}
		if i != len(evs) {
			h.Viol("truncation-partial-event", "cut at %d: %d events delivered, only %d are complete; extra at offset %d", T, len(evs), i, evs[i].off)
		}
		h.Stat("oracle.trunc", 1)
	case 'f':
		f := files[d.file]
		g := f.pos + int64(d.a)
		if len(meta) >= 16 {
			mp := int64(binary.LittleEndian.Uint64(meta[8:]))
			if mp > g {
				return // crc restarts from the snapshot meta after the flipped byte
			}
		}
		end := f.pos + int64(len(f.data))
		for _, R := range crcs {
			if R > g && R < end && R >= f.pos {
				// the first crc record after the flipped byte in the same file: it must not be passed
				for _, sk := range res.eng.skips {
					if sk[0] == R && sk[1] == 20 && from <= R {
						h.Viol("corruption-undetected", "bit %d of stream byte %d flipped; crc record at %d was accepted (result %s)", d.b, g, R, res.err)
					}
				}
				h.Stat("oracle.flipCovered", 1)
				h.NonTrivial("flip-covered")
				break
			}
		}
	}
}

func (c *caseCtx) readChecks() {
	h, r := c.h, c.r
	files := snapshot(c.fs, c.dir)
	crcs := crcRecords(files, c.magic)
	s := stream(files)
	c.readCheck(files, 0, nil, 0, dmg{kind: '-'}, crcs)
	// resume from commits
	seen := map[int64]bool{}
	var cms []commit
	for _, cm := range c.commits {
		if !seen[cm.off] {
			seen[cm.off] = true
			cms = append(cms, cm)
		}
	}
	maxResume := 6
	if h.Tier == "thorough" {
		maxResume = 40
	}
	// how deep inside its chunk a position lies (the seek reads that many bytes in 64 KiB pieces)
	depth := func(off int64) int64 {
		d := off
		for _, f := range files {
			if f.pos <= off {
				d = off - f.pos
			}
		}
		return d
	}
	// the deepest commit (more than one 64 KiB read buffer into its chunk) is always resumed from, with and without meta
	{
		best := -1
		for i, cm := range cms {
			if depth(cm.off) > 65536 && depth(cm.off)%65536 != 0 && (best < 0 || depth(cm.off) > depth(cms[best].off)) {
				best = i
			}
		}
		if best >= 0 {
			c.readCheck(files, cms[best].off, cms[best].meta, cms[best].off, dmg{kind: '-'}, crcs)
			c.readCheck(files, cms[best].off, nil, cms[best].off, dmg{kind: '-'}, crcs)
			h.Stat("read.resumeDeep", 2)
			h.NonTrivial("resume-deep")
		}
	}
	// resume with the snapshot meta of an OLDER commit of the same chunk (the seek verifies up to the meta, then reads on)
	{
		fileOf := func(off int64) int {
			k := 0
			for i, f := range files {
				if f.pos <= off {
					k = i
				}
			}
			return k
		}
		done := 0
		for j := len(cms) - 1; j > 0 && done < 2; j-- {
			for i := j - 1; i >= 0; i-- {
				if cms[i].off < cms[j].off && fileOf(cms[i].off) == fileOf(cms[j].off) {
					c.readCheck(files, cms[j].off, cms[i].meta, cms[j].off, dmg{kind: '-'}, crcs)
					h.Stat("read.resumeOlderMetaSameFile", 1)
					h.NonTrivial("resume-older-meta")
					done++
					break
				}
			}
		}
	}
	for i, cm := range cms {
		if i >= maxResume {
			break
		}
		if depth(cm.off) > 65536 {
			h.Stat("read.resumeDeep", 1)
		}
		c.readCheck(files, cm.off, cm.meta, cm.off, dmg{kind: '-'}, crcs)
		h.NonTrivial("resume")
		h.Stat("read.resumeMeta", 1)
		if r.Chance(1, 3) {
			c.readCheck(files, cm.off, nil, cm.off, dmg{kind: '-'}, crcs)
		}
		if i > 0 && r.Chance(1, 3) {
			c.readCheck(files, cm.off, cms[r.Intn(i)].meta, cm.off, dmg{kind: '-'}, crcs) // older meta
		}
	}
	// resume from every event boundary without meta (small cases)
	if !c.big {
		for _, a := range c.appended {
			if r.Chance(1, 4) {
				c.readCheck(files, a.off, nil, a.off, dmg{kind: '-'}, crcs)
			}
		}
	}
	// malformed: wrong engine offset, future meta, garbage meta, unaligned start
	if r.Chance(1, 3) && len(cms) > 0 {
		cm := cms[r.Intn(len(cms))]
		c.noOracle = true
		h.Stat("read.malformed", 1)
		which := r.Intn(4)
		if c.big && (which == 0 || which == 2) {
			// engine offset ahead of the reader + an event larger than the 64 KiB read buffer: the real reader re-parses in the
			// middle of the event after a refill; outside the model's buffer idealisation (see assumptions)
			which = 1
		}
		switch which {
		case 0:
			c.readCheck(files, cm.off, cm.meta, cm.off+4, dmg{kind: '-'}, crcs)
		case 1:
			if cm.off >= 4 {
				c.readCheck(files, cm.off-4, cm.meta, cm.off-4, dmg{kind: '-'}, crcs) // meta ahead of start
			}
		case 2:
			bad := append([]byte(nil), cm.meta...)
			bad[16] ^= 1
			c.readCheck(files, cm.off, bad, cm.off+8, dmg{kind: '-'}, crcs)
		case 3:
			c.readCheck(files, int64(r.Intn(len(s)+1)), nil, 0, dmg{kind: '-'}, crcs)
		}
		c.noOracle = false
	}
	last := len(files) - 1
	exhaustive := h.Tier == "thorough" && !c.big && len(s) < 2500 && r.Chance(1, 2)
	if exhaustive {
		h.NonTrivial("exhaustive-damage")
		h.Stat("case.exhaustive", 1)
		for fi := max(0, last-1); fi <= last; fi++ {
			for L := 0; L < len(files[fi].data); L++ {
				c.readCheck(files, 0, nil, 0, dmg{kind: 't', file: fi, a: L}, crcs)
			}
			for B := 0; B < len(files[fi].data); B++ {
				if fi > 0 && B >= 8 && B < 16 {
					continue // position field of a file header: would reorder files (ties are unspecified)
				}
				for bit := 0; bit < 8; bit++ {
					c.readCheck(files, 0, nil, 0, dmg{kind: 'f', file: fi, a: B, b: bit}, crcs)
				}
			}
		}
		return
	}
	// sampled truncations of the last file (and sometimes an earlier one), with and without resume
	nT := 10
	nF := 10
	if h.Tier == "thorough" {
		nT, nF = 40, 60
	}
	lf := files[last]
	for i := 0; i < nT; i++ {
		var L int
		switch r.Pick(4, 2, 2, 1) {
		case 0:
			L = r.Intn(len(lf.data))
		case 1: // around an event boundary
			if len(c.appended) > 0 {
				a := c.appended[r.Intn(len(c.appended))]
				L = int(a.off-lf.pos) + r.Intn(13) - 2
			}
		case 2:
			L = r.Intn(min(len(lf.data), 48))
		case 3:
			L = len(lf.data) - 1 - r.Intn(min(len(lf.data), 8))
		}
		if L < 0 || L >= len(lf.data) {
			continue
		}
		from, meta := int64(0), []byte(nil)
		if r.Chance(1, 3) && len(cms) > 0 {
			cm := cms[r.Intn(len(cms))]
			if cm.off <= lf.pos+int64(L) {
				from, meta = cm.off, cm.meta
			}
		}
		c.readCheck(files, from, meta, from, dmg{kind: 't', file: last, a: L}, crcs)
		h.NonTrivial("truncation")
	}
	if last > 0 && r.Chance(1, 2) {
		fi := r.Intn(last)
		c.readCheck(files, 0, nil, 0, dmg{kind: 't', file: fi, a: r.Intn(len(files[fi].data))}, crcs)
		if r.Chance(1, 2) {
			c.readCheck(files, 0, nil, 0, dmg{kind: 'd', file: last}, crcs)
		}
	}
	for i := 0; i < nF; i++ {
		fi := r.Intn(len(files))
		if r.Chance(1, 2) {
			fi = last
		}
		B := r.Intn(len(files[fi].data))
		if c.big && len(crcs) > 0 && r.Chance(2, 3) {
			// a byte in front of a crc record
			R := crcs[r.Intn(len(crcs))]
			for k, f := range files {
				if R >= f.pos && R < f.pos+int64(len(f.data)) {
					fi = k
					B = r.Intn(int(R - f.pos))
					if r.Chance(1, 4) {
						B = int(R-f.pos) - 1 - r.Intn(min(int(R-f.pos), 64))
					}
				}
			}
		}
		if fi > 0 && B >= 8 && B < 16 {
			continue
		}
		from, meta := int64(0), []byte(nil)
		if r.Chance(1, 4) && len(cms) > 0 {
			cm := cms[r.Intn(len(cms))]
			from, meta = cm.off, cm.meta
		}
		c.readCheck(files, from, meta, from, dmg{kind: 'f', file: fi, a: B, b: r.Intn(8)}, crcs)
	}
}

func main() {
	h := verifx.New()
	h.Cases(func(i int, r *verifx.Rng) {
		c := &caseCtx{h: h, r: r, corrupt: rand.New(rand.NewSource(int64(r.U64() >> 1)))}
		c.fs = gofs.NewThreadSafeMemoryFs()
		c.fs.TrackDirtyPages()
		c.dir = "/v18"
		if err := c.fs.MkdirAll(c.dir, 0777); err != nil {
			panic(err)
		}
		c.magic = []uint32{0x12345, 0x7fffff01, 0x04435244}[r.Intn(3)]
		bigEvery := 12
		if h.Tier == "thorough" {
			bigEvery = 10
		}
		c.big = i%bigEvery == 3
		if c.big {
			c.chunk = []uint32{20000, 40000, 70000, 150000, 1 << 20}[r.Intn(5)]
			h.Stat("case.big", 1)
		} else {
			c.chunk = uint32(r.Range(16, 260) * 4)
			if r.Chance(1, 5) {
				c.chunk = uint32(r.Range(60, 1100))
			}
			h.Stat("case.small", 1)
		}
		c.opts = c.mkOpts(c.fs)
		name, err := fsbinlog.CreateEmptyFsBinlog(c.opts)
		if err != nil {
			panic(err)
		}
		init, _ := c.fs.ReadFile(name)
		h.Op("cfg %d %d %d %d", c.chunk, c.magic, uint32(schemaMagic), consts["writeCrcEveryBytes"])
		h.Op("init %s", verifx.Hex(init))
		nSessions := r.Pick(5, 3, 1) + 1
		from, meta := int64(0), []byte(nil)
		for s := 0; s < nSessions; s++ {
			nb := r.Range(1, 6)
			if c.big {
				nb = r.Range(4, 9)
			}
			if !c.session(from, meta, nb) {
				break
			}
			h.Stat("session", 1)
			// next session resumes from 0 or from a commit of this history (with/without meta)
			from, meta = 0, nil
			if len(c.commits) > 0 && r.Chance(2, 3) {
				cm := c.commits[r.Intn(len(c.commits))]
				from, meta = cm.off, cm.meta
				if r.Chance(1, 4) {
					meta = nil
				}
			}
		}
		if c.aborted {
			return
		}
		func() {
			defer func() {
				if p := recover(); p != nil {
					h.Obs("panic")
					h.Note("harness panic: %v", p)
				}
			}()
			c.readChecks()
		}()
	})
	h.Done()
}
