//go:build verif

package fsbinlog

import "github.com/VKCOM/statshouse/internal/vkgo/binlog"

// Thin accessors for the C18 harness (no logic under test is copied here).

// VerifConsts returns the unexported constants the model depends on, as the compiler sees them.
func VerifConsts() map[string]int64 {
	return map[string]int64{
		"writeCrcEveryBytes": writeCrcEveryBytes,
		"levCrcSize":         levCrcSize,
		"levRotateSize":      levRotateSize,
		"uncommittedMaxSize": uncommittedMaxSize,
		"hashDataSize":       hashDataSize,
		"magicLevCrc32":      int64(magicLevCrc32),
		"magicLevRotateFrom": int64(magicLevRotateFrom),
		"magicLevRotateTo":   int64(magicLevRotateTo),
		"magicLevTag":        int64(magicLevTag),
		"magicLevTimestamp":  int64(magicLevTimestamp),
		"flushIntervalMs":    int64(flushInterval / 1e6),
	}
}

// VerifBuf returns a copy of the not-yet-written append buffer, the running crc and the global offset (under the buffer mutex).
func VerifBuf(b binlog.Binlog) (buf []byte, crc uint32, offGlobal int64, ok bool) {
	fb, isFs := b.(*fsBinlog)
	if !isFs || fb.buffEx == nil {
		return nil, 0, 0, false
	}
	fb.buffEx.mu.Lock()
	defer fb.buffEx.mu.Unlock()
	return append([]byte(nil), fb.buffEx.buff...), fb.buffEx.rd.crc, fb.buffEx.rd.offsetGlobal, true
}

// VerifBufLen is the length of the not-yet-written append buffer (-1 before the writer exists).
func VerifBufLen(b binlog.Binlog) int {
	fb, isFs := b.(*fsBinlog)
	if !isFs || fb.buffEx == nil {
		return -1
	}
	fb.buffEx.mu.Lock()
	defer fb.buffEx.mu.Unlock()
	return len(fb.buffEx.buff)
}
