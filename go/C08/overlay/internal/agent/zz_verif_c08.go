//go:build verif

package agent

import (
	"fmt"
	"sync"
	"time"

	"github.com/VKCOM/statshouse/internal/data_model"
	"github.com/VKCOM/statshouse/internal/format"
	"github.com/VKCOM/statshouse/internal/pcache"
)

// Accessors for the C08 harness. They only build a Shard/Agent from their parts (the same way the repo's own
// Test_AgentQueue does, no network, no goroutines), read state, and forward calls to the real unexported methods.

const (
	VerifC08SuperQueueLen         = superQueueLen
	VerifC08SuperQueueFutureSlots = superQueueFutureSlots
)

// the cache is never saved by the harness, so one no-op storage (1 MB scratch) is shared by all mapping caches
var verifC08Storage = data_model.NewChunkedStorageNop()

type VerifC08 struct {
	A *Agent
	S *Shard
}

// VerifC08New: one agent with one shard whose clocks start at nowUnix (CurrentTime=nowUnix, SendTime=nowUnix-2 as MakeAgent does).
func VerifC08New(nowUnix uint32, hwRes, hwSlowRes int) *VerifC08 {
	return VerifC08NewN(nowUnix, hwRes, hwSlowRes, 1)[0]
}

// VerifC08NewN: one agent with n shards (ShardKey 1..n), one view per shard.
func VerifC08NewN(nowUnix uint32, hwRes, hwSlowRes int, n int) []*VerifC08 {
	config := DefaultConfig() // a config that passes ValidateConfigSource, so that updateRemoteConfig can be applied on top of it
	config.HardwareMetricResolution = hwRes
	config.HardwareSlowMetricResolution = hwSlowRes
	a := &Agent{
		config:                            config,
		logF:                              func(f string, a ...any) {},
		mappingsCache:                     pcache.NewMappingsCache(verifC08Storage, 1024*1024, 86400),
		shardByMetricCount:                uint32(n),
		componentTag:                      format.TagValueIDComponentAgent,
		builtinMetricMetaUsageCPU:         *format.BuiltinMetricMetaUsageCPU,
		builtinMetricMetaUsageMemory:      *format.BuiltinMetricMetaUsageMemory,
		builtinMetricMetaHeartbeatVersion: *format.BuiltinMetricMetaHeartbeatVersion,
	}
	var views []*VerifC08
	for i := 0; i < n; i++ {
		s := &Shard{
			config:               config,
			agent:                a,
			ShardNum:             i,
			ShardKey:             int32(i) + 1,
			CurrentTime:          nowUnix,
			SendTime:             nowUnix - 2,
			BucketsToPreprocess:  make(chan *data_model.MetricsBucket, 1), // same capacity as MakeAgent
			metricBudgetsFromAgg: data_model.NewExpDecay(config.BudgetDecayHalfLife),
		}
		s.hardwareMetricResolutionResolved.Store(int32(hwRes))
		s.hardwareSlowMetricResolutionResolved.Store(int32(hwSlowRes))
		for j := 0; j < superQueueLen; j++ {
			s.SuperQueue[j] = &data_model.MetricsBucket{}
		}
		s.cond = sync.NewCond(&s.mu)
		a.Shards = append(a.Shards, s)
		views = append(views, &VerifC08{A: a, S: s})
	}
	a.initBuiltInMetrics()
	return views
}

func (v *VerifC08) State() (cur, send uint32, stop bool, chanLen int) {
	v.S.mu.Lock()
	defer v.S.mu.Unlock()
	return v.S.CurrentTime, v.S.SendTime, v.S.stopReceivingIncomingData, len(v.S.BucketsToPreprocess)
}

// Gap forwards to the real gapInReceivingQueueLocked.
func (v *VerifC08) Gap() int64 {
	v.S.mu.Lock()
	defer v.S.mu.Unlock()
	return v.S.gapInReceivingQueueLocked()
}

// VerifC08GapAt evaluates the real gap formula for arbitrary cursors (used to regenerate the literal in SH/Gen/C08.lean).
func VerifC08GapAt(cur, send uint32) int64 {
	s := &Shard{CurrentTime: cur, SendTime: send}
	return s.gapInReceivingQueueLocked()
}

// Flush forwards to the real flushBuckets with an injected clock.
func (v *VerifC08) Flush(now time.Time) (gap int64, sendTime uint32) { return v.S.flushBuckets(now) }

// Cell returns the live bucket of one ring cell (read only by the harness).
func (v *VerifC08) Cell(i int) *data_model.MetricsBucket { return v.S.SuperQueue[i] }

// FlushAllData forwards to the real Agent.FlushAllData (128 single steps per shard, then closes the preprocess channel).
func (v *VerifC08) FlushAllData() int { return v.A.FlushAllData() }

// Stop forwards to Agent.ShutdownFlusher's per-shard part.
func (v *VerifC08) Stop() { v.S.StopReceivingIncomingData() }

// AddMappings puts string->id pairs into the real mappings cache.
func (v *VerifC08) AddMappings(nowUnix uint32, pairs []pcache.MappingPair) {
	v.A.mappingsCache.AddValues(nowUnix, pairs)
}

// MapAllTags forwards to the real unexported mapAllTags.
func (v *VerifC08) MapAllTags(h *data_model.MappedMetricHeader, args data_model.HandlerArgs) {
	v.A.Map(args, h, nil)
}

// verifC08Meta is a meta storage that knows only the agent remote config metric (what the agent reads in updateRemoteConfig).
type verifC08Meta struct{ remoteConfig *format.MetricMetaValue }

func (m *verifC08Meta) GetMetaMetric(metricID int32) *format.MetricMetaValue { return nil }
func (m *verifC08Meta) GetMetaMetricByName(metricName string) *format.MetricMetaValue {
	if metricName == format.StatshouseAgentRemoteConfigMetric {
		return m.remoteConfig
	}
	return nil
}
func (m *verifC08Meta) GetGroup(id int32) *format.MetricsGroup               { return nil }
func (m *verifC08Meta) GetNamespace(id int32) *format.NamespaceMeta          { return nil }
func (m *verifC08Meta) GetNamespaceByName(name string) *format.NamespaceMeta { return nil }
func (m *verifC08Meta) GetGroupByName(name string) *format.MetricsGroup      { return nil }

// ApplyRemoteConfig delivers `description` as the description of the statshouse_agent_remote_config metric and calls the real
// updateRemoteConfig (what goFlusher does after every flush iteration).
func (v *VerifC08) ApplyRemoteConfig(description string) {
	v.A.metricStorage = &verifC08Meta{remoteConfig: &format.MetricMetaValue{Name: format.StatshouseAgentRemoteConfigMetric, Description: description}}
	v.A.updateRemoteConfig()
}

func VerifC08Recover(f func()) (msg string) {
	defer func() {
		if r := recover(); r != nil {
			msg = fmt.Sprint(r)
		}
	}()
	f()
	return ""
}
