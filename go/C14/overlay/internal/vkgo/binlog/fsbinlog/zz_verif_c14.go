//go:build verif

package fsbinlog

import (
	"github.com/VKCOM/statshouse/internal/verifc14"
	_ "github.com/VKCOM/statshouse/internal/vkgo/binlog/fsbinlog/internal/gen/factory"
	"github.com/VKCOM/statshouse/internal/vkgo/binlog/fsbinlog/internal/gen/meta"
)

// VerifC14Items exposes the generated factory of the fsbinlog schema (the gen packages are internal to this directory).
func VerifC14Items() []verifc14.Item {
	var out []verifc14.Item
	for _, it := range meta.GetAllTLItems() {
		it := it
		out = append(out, verifc14.Item{Schema: "fsbinlog", Name: it.TLName(), Tag: it.TLTag(), IsFn: it.IsFunction(),
			New:      func() verifc14.Obj { return it.CreateObject() },
			NewBytes: func() verifc14.Obj { return it.CreateObjectBytes() }})
	}
	return out
}
