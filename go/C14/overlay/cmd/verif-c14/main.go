//go:build verif

// verif-c14: correspondence harness and direct oracle for property C14
// (every generated TL type round-trips through TL1 bare/boxed, TL2, JSON; bytes and string variants agree;
// compressed bucket frames round-trip and bad frames are rejected).
//
// Case i drives item (i mod #items) of the generated factories (so every type is visited), every 8th case is a
// frame case. All randomness comes from the per-case verifx.Rng.
package main

import (
	"bytes"
	"encoding/binary"
	"fmt"
	"math"
	"os"
	"reflect"
	"sort"
	"strings"

	"github.com/pierrec/lz4"

	"github.com/VKCOM/statshouse/internal/compress"
	"github.com/VKCOM/statshouse/internal/data_model"
	_ "github.com/VKCOM/statshouse/internal/data_model/gen2/factory"
	_ "github.com/VKCOM/statshouse/internal/data_model/gen2/factory_bytes"
	dmmeta "github.com/VKCOM/statshouse/internal/data_model/gen2/meta"
	"github.com/VKCOM/statshouse/internal/verifc14"
	"github.com/VKCOM/statshouse/internal/verifx"
	"github.com/VKCOM/statshouse/internal/vkgo/basictl"
	"github.com/VKCOM/statshouse/internal/vkgo/binlog/fsbinlog"
	_ "github.com/VKCOM/statshouse/internal/vkgo/sqlitev2/checkpoint/gen2/factory"
	_ "github.com/VKCOM/statshouse/internal/vkgo/sqlitev2/checkpoint/gen2/factory_bytes"
	sqmeta "github.com/VKCOM/statshouse/internal/vkgo/sqlitev2/checkpoint/gen2/meta"
	"github.com/VKCOM/statshouse/internal/vkgo/vktl/gen/tlbarsic"
)

// ---------------------------------------------------------------- items

func barsicItems() []verifc14.Item {
	mk := func(name string, n, nb func() verifc14.Obj) verifc14.Item {
		o := n()
		if nb == nil {
			nb = n
		}
		_, isFn := o.(verifc14.Fn)
		return verifc14.Item{Schema: "barsic", Name: name, Tag: o.TLTag(), IsFn: isFn, New: n, NewBytes: nb}
	}
	// vktl/gen has no generated factory: the exported types of tlbarsic are listed here
	return []verifc14.Item{
		mk("barsic.applyPayload", func() verifc14.Obj { return &tlbarsic.ApplyPayload{} }, func() verifc14.Obj { return &tlbarsic.ApplyPayloadBytes{} }),
		mk("barsic.changeRole", func() verifc14.Obj { return &tlbarsic.ChangeRole{} }, nil),
		mk("barsic.commit", func() verifc14.Obj { return &tlbarsic.Commit{} }, func() verifc14.Obj { return &tlbarsic.CommitBytes{} }),
		mk("barsic.engineStarted", func() verifc14.Obj { return &tlbarsic.EngineStarted{} }, func() verifc14.Obj { return &tlbarsic.EngineStartedBytes{} }),
		mk("barsic.engineStatus", func() verifc14.Obj { return &tlbarsic.EngineStatus{} }, func() verifc14.Obj { return &tlbarsic.EngineStatusBytes{} }),
		mk("barsic.engineWantsRestart", func() verifc14.Obj { return &tlbarsic.EngineWantsRestart{} }, nil),
		mk("barsic.reindex", func() verifc14.Obj { return &tlbarsic.Reindex{} }, nil),
		mk("barsic.revert", func() verifc14.Obj { return &tlbarsic.Revert{} }, nil),
		mk("barsic.shutdown", func() verifc14.Obj { return &tlbarsic.Shutdown{} }, nil),
		mk("barsic.skip", func() verifc14.Obj { return &tlbarsic.Skip{} }, nil),
		mk("barsic.snapshotDependency", func() verifc14.Obj { return &tlbarsic.SnapshotDependency{} }, func() verifc14.Obj { return &tlbarsic.SnapshotDependencyBytes{} }),
		mk("barsic.snapshotExternalFile", func() verifc14.Obj { return &tlbarsic.SnapshotExternalFile{} }, func() verifc14.Obj { return &tlbarsic.SnapshotExternalFileBytes{} }),
		mk("barsic.snapshotHeader", func() verifc14.Obj { return &tlbarsic.SnapshotHeader{} }, func() verifc14.Obj { return &tlbarsic.SnapshotHeaderBytes{} }),
		mk("barsic.split", func() verifc14.Obj { return &tlbarsic.Split{} }, func() verifc14.Obj { return &tlbarsic.SplitBytes{} }),
		mk("barsic.start", func() verifc14.Obj { return &tlbarsic.Start{} }, func() verifc14.Obj { return &tlbarsic.StartBytes{} }),
	}
}

func allItems() []verifc14.Item {
	var out []verifc14.Item
	for _, it := range dmmeta.GetAllTLItems() {
		it := it
		out = append(out, verifc14.Item{Schema: "data_model", Name: it.TLName(), Tag: it.TLTag(), HasTL2: it.HasTL2(), IsFn: it.IsFunction(),
			New: func() verifc14.Obj { return it.CreateObject() }, NewBytes: func() verifc14.Obj { return it.CreateObjectBytes() }})
	}
	for _, it := range sqmeta.GetAllTLItems() {
		it := it
		out = append(out, verifc14.Item{Schema: "sqlite", Name: it.TLName(), Tag: it.TLTag(), IsFn: it.IsFunction(),
			New: func() verifc14.Obj { return it.CreateObject() }, NewBytes: func() verifc14.Obj { return it.CreateObjectBytes() }})
	}
	out = append(out, fsbinlog.VerifC14Items()...)
	out = append(out, barsicItems()...)
	// the three factories register the same helper names (Bool, true, ...) — keep (schema,name) unique and the order stable
	sort.SliceStable(out, func(i, j int) bool {
		if out[i].Schema != out[j].Schema {
			return out[i].Schema < out[j].Schema
		}
		return out[i].Name < out[j].Name
	})
	return out
}

// ---------------------------------------------------------------- random values

type rnd struct{ r *verifx.Rng }

func (x rnd) Uint32() uint32       { return uint32(x.r.U64()) }
func (x rnd) Int31() int32         { return int32(x.r.U64() & 0x7fffffff) }
func (x rnd) Int63() int64         { return int64(x.r.U64() & 0x7fffffffffffffff) }
func (x rnd) NormFloat64() float64 { return float64(int64(x.r.U64()%2000001)-1000000) / 1024 } // exact dyadic values

// isFactoryItem: enum constructors are represented by the shared factory item itself (metainternal.TLItemImpl, with
// exported Name/Tag fields) — never touch it through reflection
func isFactoryItem(v reflect.Value) bool { return v.Type().Name() == "TLItemImpl" }

var strLens = []int{0, 1, 2, 3, 4, 5, 7, 8, 250, 251, 252, 253, 254, 255, 256, 257, 258, 300, 1021}

func specialString(r *verifx.Rng, utf8 bool) []byte {
	n := strLens[r.Intn(len(strLens))]
	b := make([]byte, 0, n+4)
	if utf8 {
		alphabet := []string{"a", "Z", "0", " ", "\"", "\\", "/", "\n", "\t", "\x00", "\x1f", "<", "&", "é", "я", "€", "😀", " ", "\x7f"}
		for len(b) < n {
			s := alphabet[r.Intn(len(alphabet))]
			if len(b)+len(s) > n {
				s = "x"
			}
			b = append(b, s...)
		}
		return b
	}
	return r.Bytes(n)
}

// enrich replaces some leaves of a FillRandom'ed value (reached through exported, settable fields only, so union
// internals and field masks stay consistent) by boundary values: string lengths around the 253/254 form switch,
// awkward characters, extreme integers, special floats. utf8=false additionally uses arbitrary bytes and NaN payloads
// (such values are not sent through JSON).
func enrich(h *verifx.H, r *verifx.Rng, v reflect.Value, utf8 bool, depth int) {
	if depth > 12 {
		return
	}
	switch v.Kind() {
	case reflect.Ptr:
		if !v.IsNil() {
			enrich(h, r, v.Elem(), utf8, depth+1)
		}
	case reflect.Struct:
		if isFactoryItem(v) {
			return
		}
		for i := 0; i < v.NumField(); i++ {
			f := v.Field(i)
			if f.CanSet() {
				enrich(h, r, f, utf8, depth+1)
			}
		}
	case reflect.Array:
		for i := 0; i < v.Len(); i++ {
			enrich(h, r, v.Index(i), utf8, depth+1)
		}
	case reflect.Slice:
		if v.Type().Elem().Kind() == reflect.Uint8 {
			if r.Chance(1, 4) {
				v.SetBytes(specialString(r, utf8))
				h.Stat("enrich.bytes", 1)
			}
			return
		}
		for i := 0; i < v.Len(); i++ {
			enrich(h, r, v.Index(i), utf8, depth+1)
		}
	case reflect.String:
		if r.Chance(1, 4) {
			v.SetString(string(specialString(r, utf8)))
			h.Stat("enrich.string", 1)
		}
	case reflect.Int32:
		if r.Chance(1, 6) {
			v.SetInt([]int64{math.MinInt32, -1, 0, 1, math.MaxInt32, 255, 256, -256}[r.Intn(8)])
			h.Stat("enrich.int", 1)
		}
	case reflect.Int64:
		if r.Chance(1, 6) {
			v.SetInt([]int64{math.MinInt64, -1, 0, 1, math.MaxInt64, math.MaxInt32 + 1, math.MinInt32 - 1, 1 << 53}[r.Intn(8)])
			h.Stat("enrich.long", 1)
		}
	case reflect.Float64:
		if r.Chance(1, 6) {
			// -0 is left to the non-JSON mode: the JSON writer omits fields equal to 0 and -0 == 0, so it reads back as +0,
			// an equal value in Go's sense but not bit-identical (this oracle compares canonical bytes)
			xs := []float64{0, math.Inf(1), math.Inf(-1), math.MaxFloat64, math.SmallestNonzeroFloat64, 1e-7, 1e21, 0.1, -123456789.125}
			if !utf8 {
				xs = append(xs, math.Copysign(0, -1), math.Float64frombits(0x7ff8000000000001), math.Float64frombits(0xfff0000000000123), math.Float64frombits(r.U64()))
			}
			v.SetFloat(xs[r.Intn(len(xs))])
			h.Stat("enrich.double", 1)
		}
	case reflect.Float32:
		if r.Chance(1, 6) {
			xs := []float32{0, float32(math.Inf(1)), float32(math.Inf(-1)), math.MaxFloat32, math.SmallestNonzeroFloat32, 1e-7, 1e21, 0.1}
			if !utf8 {
				xs = append(xs, float32(math.Copysign(0, -1)), math.Float32frombits(0x7fc00001), math.Float32frombits(uint32(r.U64())))
			}
			v.Set(reflect.ValueOf(xs[r.Intn(len(xs))]))
			h.Stat("enrich.float", 1)
		}
	}
}

// ---------------------------------------------------------------- helpers

// diffVal: structural comparison of two generated values; nil and empty slices/maps are the same value; of a union
// (struct with an unexported `index`) only the index is compared — the unselected alternatives are not part of the value.
// Returns the path of the first difference, "" if equal.
func diffVal(a, b reflect.Value, path string) string {
	if a.Kind() != b.Kind() {
		return path + " (kind)"
	}
	switch a.Kind() {
	case reflect.Ptr, reflect.Interface:
		if a.IsNil() || b.IsNil() {
			if a.IsNil() != b.IsNil() {
				return path + " (nil)"
			}
			return ""
		}
		return diffVal(a.Elem(), b.Elem(), path)
	case reflect.Struct:
		if f := a.FieldByName("index"); f.IsValid() {
			if f.Int() != b.FieldByName("index").Int() {
				return path + ".index"
			}
			return ""
		}
		for i := 0; i < a.NumField(); i++ {
			if d := diffVal(a.Field(i), b.Field(i), path+"."+a.Type().Field(i).Name); d != "" {
				return d
			}
		}
	case reflect.Slice, reflect.Array:
		if a.Len() != b.Len() {
			return fmt.Sprintf("%s (len %d vs %d)", path, a.Len(), b.Len())
		}
		for i := 0; i < a.Len(); i++ {
			if d := diffVal(a.Index(i), b.Index(i), fmt.Sprintf("%s[%d]", path, i)); d != "" {
				return d
			}
		}
	case reflect.Map:
		if a.Len() != b.Len() {
			return path + " (map len)"
		}
		for _, k := range a.MapKeys() {
			bv := b.MapIndex(k)
			if !bv.IsValid() {
				return path + " (map key)"
			}
			if d := diffVal(a.MapIndex(k), bv, path+"[k]"); d != "" {
				return d
			}
		}
	case reflect.String:
		if a.String() != b.String() {
			return path
		}
	case reflect.Bool:
		if a.Bool() != b.Bool() {
			return path
		}
	case reflect.Int, reflect.Int8, reflect.Int16, reflect.Int32, reflect.Int64:
		if a.Int() != b.Int() {
			return path
		}
	case reflect.Uint, reflect.Uint8, reflect.Uint16, reflect.Uint32, reflect.Uint64:
		if a.Uint() != b.Uint() {
			return path
		}
	case reflect.Float32, reflect.Float64:
		if math.Float64bits(a.Float()) != math.Float64bits(b.Float()) {
			return path
		}
	}
	return ""
}

func try(f func() error) (err error) {
	defer func() {
		if p := recover(); p != nil {
			err = fmt.Errorf("panic: %v", p)
		}
	}()
	return f()
}

func writeBare(o verifc14.Obj) (b []byte, err error) {
	err = try(func() error { var e error; b, e = o.WriteTL1General(nil); return e })
	return
}
func writeBoxed(o verifc14.Obj) (b []byte, err error) {
	err = try(func() error { var e error; b, e = o.WriteTL1BoxedGeneral(nil); return e })
	return
}
func readTL1(o verifc14.Obj, boxed bool, b []byte) (rest []byte, err error) {
	err = try(func() error {
		var e error
		if boxed {
			rest, e = o.ReadTL1Boxed(b)
		} else {
			rest, e = o.ReadTL1(b)
		}
		return e
	})
	return
}
func writeJSON(o verifc14.Obj) (b []byte, err error) {
	err = try(func() error { var e error; b, e = o.WriteJSONGeneral(&basictl.JSONWriteContext{}, nil); return e })
	return
}
func readJSON(o verifc14.Obj, j []byte) error {
	return try(func() error {
		in := basictl.JsonLexer{Data: j}
		if e := o.ReadJSONGeneral(&basictl.JSONReadContext{}, &in); e != nil {
			return e
		}
		in.Consumed()
		return in.Error()
	})
}
func writeTL2(o verifc14.Obj) (b []byte, err error) {
	err = try(func() error { b = o.(verifc14.TL2).WriteTL2(nil, &basictl.TL2WriteContext{}); return nil })
	return
}
// writeTL2Shared writes through a caller-owned context that other values (of other types) have used before
func writeTL2Shared(o verifc14.Obj, tctx *basictl.TL2WriteContext) (b []byte, err error) {
	err = try(func() error { b = o.(verifc14.TL2).WriteTL2(nil, tctx); return nil })
	return
}

func readTL2(o verifc14.Obj, b []byte) (rest []byte, err error) {
	err = try(func() error { var e error; rest, e = o.(verifc14.TL2).ReadTL2(b, &basictl.TL2ReadContext{}); return e })
	return
}

// fill: the generated FillRandom where it exists, otherwise (schemas generated by tl2gen 1.4.4) a reflection filler
// over the exported fields. A value whose mask bit is clear but whose field is non-zero encodes like the canonical one.
func fill(h *verifx.H, r *verifx.Rng, o verifc14.Obj) {
	if f, ok := o.(verifc14.Filler); ok {
		f.FillRandom(newRG(h, r))
		return
	}
	h.Stat("fill.reflect", 1)
	reflFill(r, reflect.ValueOf(o), 0)
}

// newRG: the generated FillRandom draws field masks from a distribution in which bits above 8 are rare; the harness
// replaces the mask choice so that every declared bit (and sometimes undeclared ones) is exercised, one mode per value.
func newRG(h *verifx.H, r *verifx.Rng) *basictl.RandGenerator {
	mode := r.Pick(2, 4, 1, 1, 1)
	h.Stat(fmt.Sprintf("maskmode.%d", mode), 1)
	return basictl.NewRandGeneratorWithContext(rnd{r}, basictl.RandgeneratorContext{
		SizeHandler: func(g uint32) uint32 { // keep values small enough for the model driver
			if g > 3 {
				return g%3 + 1
			}
			return g
		},
		FieldMaskHandler: func(g uint32, declared uint32) uint32 {
			switch mode {
			case 1: // every declared bit with probability 1/2
				return uint32(r.U64()) & declared
			case 2: // all declared bits
				return declared
			case 3: // exactly one declared bit
				var bits []uint32
				for i := uint32(0); i < 32; i++ {
					if declared&(1<<i) != 0 {
						bits = append(bits, 1<<i)
					}
				}
				if len(bits) == 0 {
					return 0
				}
				return bits[r.Intn(len(bits))]
			case 4: // declared bits at random plus undeclared ones (must be carried through untouched)
				return uint32(r.U64())&declared | uint32(r.U64())&^declared
			}
			return g // the generator's own distribution
		},
	})
}

// fillShaped builds the two ends of a reused-destination sequence: "full" = every declared mask bit set, every vector
// non-empty, every string non-empty; "empty" = masks cleared, vectors and strings empty; "mix" = independent per field.
func fillShaped(h *verifx.H, r *verifx.Rng, o verifc14.Obj, shape string) {
	if f, ok := o.(verifc14.Filler); ok {
		f.FillRandom(basictl.NewRandGeneratorWithContext(rnd{r}, basictl.RandgeneratorContext{
			SizeHandler: func(g uint32) uint32 {
				switch shape {
				case "fullsmall":
					return 1
				case "full":
					return 1 + uint32(r.Intn(2))
				case "empty":
					return 0
				}
				return uint32(r.Intn(3))
			},
			FieldMaskHandler: func(g uint32, declared uint32) uint32 {
				switch shape {
				case "full", "fullsmall":
					return declared
				case "empty":
					return 0
				}
				return uint32(r.U64()) & declared
			},
		}))
	} else {
		reflFill(r, reflect.ValueOf(o), 0)
	}
	shapeStrings(r, reflect.ValueOf(o), shape, 0)
}

func shapeStrings(r *verifx.Rng, v reflect.Value, shape string, depth int) {
	if depth > 12 {
		return
	}
	content := func(old int) ([]byte, bool) { // new content, changed?
		switch {
		case shape == "fullsmall":
			return []byte{byte('a' + r.Intn(26))}, true
		case shape == "full" && old == 0, shape == "mix" && old == 0 && r.Bool():
			b := make([]byte, r.Range(1, 40))
			for i := range b {
				b[i] = byte('a' + r.Intn(26))
			}
			return b, true
		case shape == "empty" && old > 0, shape == "mix" && old > 0 && r.Bool():
			return []byte{}, true
		}
		return nil, false
	}
	switch v.Kind() {
	case reflect.Ptr:
		if !v.IsNil() {
			shapeStrings(r, v.Elem(), shape, depth+1)
		}
	case reflect.Struct:
		if isFactoryItem(v) {
			return
		}
		for i := 0; i < v.NumField(); i++ {
			if f := v.Field(i); f.CanSet() {
				shapeStrings(r, f, shape, depth+1)
			}
		}
	case reflect.Array:
		for i := 0; i < v.Len(); i++ {
			shapeStrings(r, v.Index(i), shape, depth+1)
		}
	case reflect.Slice:
		if v.Type().Elem().Kind() == reflect.Uint8 {
			if b, ch := content(v.Len()); ch {
				v.SetBytes(b)
			}
			return
		}
		for i := 0; i < v.Len(); i++ {
			shapeStrings(r, v.Index(i), shape, depth+1)
		}
	case reflect.String:
		if b, ch := content(v.Len()); ch {
			v.SetString(string(b))
		}
	}
}

// reusedDestination: read value A (fully populated) and then value B (empty / mixed) of the same type into the SAME
// object, for the string and the []byte variant, TL1 and TL2; the object must end up equal to one that read only B.
// Returns the bytes of A and B for the correspondence ops.
func (c *ctx) reusedDestination(it verifc14.Item, r *verifx.Rng, key string) (bA, bB []byte) {
	h := c.h
	shapeB := []string{"empty", "mix", "mix"}[r.Intn(3)]
	a, bsrc := it.New(), it.New()
	fillShaped(h, r, a, "full")
	fillShaped(h, r, bsrc, shapeB)
	var err error
	if bA, err = writeBare(a); err != nil {
		return nil, nil
	}
	if bB, err = writeBare(bsrc); err != nil {
		return nil, nil
	}
	h.Stat("reused.sequences", 1)
	h.Stat("reused.shape."+shapeB, 1)
	variants := []struct {
		name string
		mk   func() verifc14.Obj
	}{{"string", it.New}, {"bytes", it.NewBytes}}
	for _, vr := range variants {
		o, fresh := vr.mk(), vr.mk()
		if _, err := readTL1(o, false, bA); err != nil {
			continue // not a reuse problem; the round-trip oracle reports it
		}
		if _, err := readTL1(fresh, false, bB); err != nil {
			continue
		}
		if _, err := readTL1(o, false, bB); err != nil {
			h.Viol("tl1-reused-read:"+vr.name, key+": "+"reading B into an object that held A failed: %v (A=%s B=%s)", err, short(bA), short(bB))
			continue
		}
		if re, err := writeBare(o); err != nil || !sameBytes(re, bB) {
			h.Viol("tl1-reused-bytes:"+vr.name, key+": "+"object that read A then B encodes as %s, not as B=%s (A=%s) (%v)", short(re), short(bB), short(bA), err)
		}
		if where := diffVal(reflect.ValueOf(fresh), reflect.ValueOf(o), "v"); where != "" {
			h.Viol("tl1-reused-state:"+vr.name, key+": "+"object that read A then B differs from one that read only B at %s (A=%s B=%s)", where, short(bA), short(bB))
		}
	}
	if it.HasTL2 {
		tA, e1 := writeTL2(a)
		tB, e2 := writeTL2(bsrc)
		if e1 == nil && e2 == nil {
			h.Stat("reused.tl2", 1)
			for _, vr := range variants {
				o, fresh := vr.mk(), vr.mk()
				if _, err := readTL2(o, tA); err != nil {
					continue
				}
				if _, err := readTL2(fresh, tB); err != nil {
					continue
				}
				if _, err := readTL2(o, tB); err != nil {
					h.Viol("tl2-reused-read:"+vr.name, key+": "+"reading TL2 B into an object that held A failed: %v", err)
					continue
				}
				if re, err := writeBare(o); err != nil || !sameBytes(re, bB) {
					h.Viol("tl2-reused-bytes:"+vr.name, key+": "+"object that read TL2 A then B encodes as %s, not as B=%s (%v)", short(re), short(bB), err)
				}
				if where := diffVal(reflect.ValueOf(fresh), reflect.ValueOf(o), "v"); where != "" {
					h.Viol("tl2-reused-state:"+vr.name, key+": "+"object that read TL2 A then B differs from one that read only B at %s", where)
				}
			}
		}
	}
	return bA, bB
}

func reflFill(r *verifx.Rng, v reflect.Value, depth int) {
	switch v.Kind() {
	case reflect.Ptr:
		if !v.IsNil() {
			reflFill(r, v.Elem(), depth+1)
		}
	case reflect.Struct:
		if isFactoryItem(v) {
			return
		}
		for i := 0; i < v.NumField(); i++ {
			if f := v.Field(i); f.CanSet() {
				reflFill(r, f, depth+1)
			}
		}
	case reflect.Uint32:
		if r.Bool() {
			v.SetUint(uint64(r.Intn(8))) // field masks: the low bits are the defined ones
		} else {
			v.SetUint(r.U64() & 0xffffffff)
		}
	case reflect.Int32:
		v.SetInt(int64(int32(r.U64())))
	case reflect.Int64:
		v.SetInt(int64(r.U64()))
	case reflect.Bool:
		v.SetBool(r.Bool())
	case reflect.String:
		v.SetString(string(specialString(r, true)))
	case reflect.Slice:
		if v.Type().Elem().Kind() == reflect.Uint8 {
			v.SetBytes(specialString(r, true))
		}
	}
}

var fullDump bool // -mode=full: print whole byte strings in oracle messages (for replays)

func short(b []byte) string {
	if len(b) > 48 && !fullDump {
		return fmt.Sprintf("%x…(%d bytes)", b[:48], len(b))
	}
	return fmt.Sprintf("%x", b)
}

// isUnion: a factory item that is a union type has no own tag-less form distinct from the boxed one
func sameBytes(a, b []byte) bool { return bytes.Equal(a, b) }

// ---------------------------------------------------------------- TL case

type ctx struct {
	h         *verifx.H
	supported map[string]bool // "<schema>/<name>" entries the Lean descriptor table has
	results   map[string]bool // functions whose result descriptor exists
	tl2       map[string]bool // types in the TL2 table of the model
	kept      []keptFrame     // frames kept alive inside one frame case
	tl2Items  []verifc14.Item // items with generated TL2 code
	shared    *basictl.TL2WriteContext // the TL2 write context shared by all TL2 writes of one case
}

// decObs runs the real reader on `in` and renders what the model must reproduce: error, or remaining length and the
// canonical re-encoding of what was read
//
// Dictionaries: the string variant of `Dictionary t` is a Go map, written sorted by key (a later duplicate replaces an
// earlier one); the model (and the []byte variant) keeps the vector of pairs. Both agree on every value a map can
// hold. A mutated input with unsorted or duplicate keys is therefore re-encoded differently by Go; such inputs are
// recognised by "re-encoding != consumed input" and compared on verdict and consumed length only (op `decn`).
func decObs(it verifc14.Item, boxed bool, in []byte) string {
	return decObsOf(it.New(), boxed, in)
}

// canonicalised: the reader accepted `in` but writes the consumed part back differently
func canonicalised(obs string, in []byte) bool {
	f := strings.Fields(obs)
	if len(f) != 3 || f[0] != "ok" {
		return false
	}
	var rest int
	fmt.Sscanf(f[1], "rest=%d", &rest)
	return strings.TrimPrefix(f[2], "re=") != verifx.Hex(in[:len(in)-rest])
}

// holdsMap: the Go type contains a map (a string-variant dictionary)
func holdsMap(t reflect.Type, depth int) bool {
	if depth > 10 {
		return false
	}
	switch t.Kind() {
	case reflect.Map:
		return true
	case reflect.Ptr, reflect.Slice, reflect.Array:
		return holdsMap(t.Elem(), depth+1)
	case reflect.Struct:
		for i := 0; i < t.NumField(); i++ {
			if holdsMap(t.Field(i).Type, depth+1) {
				return true
			}
		}
	}
	return false
}

// verdict: "err", or "ok rest=N" (without the re-encoding)
func verdict(obs string) string {
	f := strings.Fields(obs)
	if len(f) > 2 {
		f = f[:2]
	}
	return strings.Join(f, " ")
}

func decObsOf(o verifc14.Obj, boxed bool, in []byte) string {
	rest, err := readTL1(o, boxed, in)
	if err != nil {
		if strings.HasPrefix(err.Error(), "panic") {
			return "panic"
		}
		return "err"
	}
	var re []byte
	if boxed {
		re, err = writeBoxed(o)
	} else {
		re, err = writeBare(o)
	}
	if err != nil {
		return "werr"
	}
	return fmt.Sprintf("ok rest=%d re=%s", len(rest), verifx.Hex(re))
}

func (c *ctx) tlCase(it verifc14.Item, r *verifx.Rng) {
	h := c.h
	key := it.Schema + "/" + it.Name
	utf8 := r.Chance(2, 3)
	v := it.New()
	fill(h, r, v)
	if r.Chance(3, 4) {
		enrich(h, r, reflect.ValueOf(v), utf8, 0)
	}
	h.Stat("tl.cases", 1)
	h.Stat("schema."+it.Schema, 1)
	b, err := writeBare(v)
	if err != nil {
		h.Viol("tl1-write:"+key, "WriteTL1 of a FillRandom value failed: %v", err)
		return
	}
	bb, err := writeBoxed(v)
	if err != nil {
		h.Viol("tl1-write-boxed:"+key, "WriteTL1Boxed of a FillRandom value failed: %v", err)
		return
	}
	tail := r.Bytes(r.Intn(6))
	if len(b) > 8 {
		h.NonTrivial("nonempty")
	}
	h.Stat("tl.bytes", int64(len(b)))

	// ---- direct oracle: the property itself, on the real code only
	// (1) bare and boxed TL1: read back (with trailing bytes that must be left alone), equal value = equal canonical bytes
	for _, boxed := range []bool{false, true} {
		enc := b
		what := "bare"
		if boxed {
			enc, what = bb, "boxed"
		}
		o := it.New()
		rest, err := readTL1(o, boxed, append(append([]byte{}, enc...), tail...))
		if err != nil {
			h.Viol("tl1-"+what+"-read:"+key, "reading back own %s TL1 failed: %v bytes=%s", what, err, short(enc))
			continue
		}
		if !sameBytes(rest, tail) {
			h.Viol("tl1-"+what+"-consumed:"+key, "reader consumed %d bytes of %d", len(enc)+len(tail)-len(rest), len(enc))
		}
		re, err := writeBare(o)
		if err != nil || !sameBytes(re, b) {
			h.Viol("tl1-"+what+"-roundtrip:"+key, "value changed by %s TL1 round trip: %s -> %s (%v)", what, short(b), short(re), err)
		}
	}
	// (2) reading into an object that already holds another value must give the same value (stale state)
	{
		o := it.New()
		fill(h, r, o)
		if _, err := readTL1(o, false, b); err != nil {
			h.Viol("tl1-dirty-read:"+key, "reading into a used object failed: %v", err)
		} else if re, err := writeBare(o); err != nil || !sameBytes(re, b) {
			h.Viol("tl1-dirty-read:"+key, "reading into a used object gives another value: %s -> %s (%v)", short(b), short(re), err)
		} else {
			// the object itself (not only its encoding) must equal a freshly read one: fields that are absent under the
			// new mask must not keep their old contents
			fresh := it.New()
			if _, err := readTL1(fresh, false, b); err == nil {
				if where := diffVal(reflect.ValueOf(fresh), reflect.ValueOf(o), "v"); where != "" {
					h.Viol("tl1-dirty-read-state:"+key, "object read into a used value differs from a freshly read one at %s (bytes %s)", where, short(b))
				}
			}
		}
	}
	// (2b) the systematic version: fully populated A, then empty / mixed B, into the same string- and []byte-variant object
	reuseA, reuseB := c.reusedDestination(it, r, key)
	// (3) JSON
	var j []byte
	if utf8 {
		h.Stat("tl.json", 1)
		j, err = writeJSON(v)
		if err != nil {
			h.Viol("json-write:"+key, "WriteJSON failed: %v", err)
		} else {
			o := it.New()
			if err := readJSON(o, j); err != nil {
				h.Viol("json-read:"+key, "reading back own JSON failed: %v json=%s", err, short(j))
			} else if re, err := writeBare(o); err != nil || !sameBytes(re, b) {
				h.Viol("json-roundtrip:"+key, "value changed by JSON round trip: %s -> %s (%v) json=%s", short(b), short(re), err, short(j))
			}
		}
	}
	// (4) TL2 (only types the generator produced TL2 code for)
	var t2 []byte
	if it.HasTL2 {
		h.Stat("tl.tl2", 1)
		t2, err = writeTL2(v)
		// the optional shared write context: one long-lived TL2WriteContext used for this value and for values of other TL2
		// types, in random order, several rounds — the encoding is a function of the value only
		c.shared = &basictl.TL2WriteContext{}
		if err == nil && len(c.tl2Items) > 0 {
			type sv struct {
				key   string
				o     verifc14.Obj
				fresh []byte
			}
			vals := []sv{{key, v, t2}}
			for k, n := 0, r.Range(1, 3); k < n; k++ {
				oit := c.tl2Items[r.Intn(len(c.tl2Items))]
				o := oit.New()
				fill(h, r, o)
				if fb, e := writeTL2(o); e == nil {
					vals = append(vals, sv{oit.Schema + "/" + oit.Name, o, fb})
				}
			}
			for round := 0; round < 2; round++ {
				for k := len(vals) - 1; k > 0; k-- { // shuffle
					j := r.Intn(k + 1)
					vals[k], vals[j] = vals[j], vals[k]
				}
				for _, x := range vals {
					sb, e := writeTL2Shared(x.o, c.shared)
					h.Stat("tl2.shared-context-writes", 1)
					if e != nil {
						h.Viol("tl2-write-panic", "%s: WriteTL2 with a TL2WriteContext last used by another value failed: %v (order this round: %v)", x.key, e, func() (ks []string) {
							for _, y := range vals {
								ks = append(ks, y.key)
							}
							return
						}())
					} else if !sameBytes(sb, x.fresh) {
						h.Viol("tl2-shared-context-differs", "%s: WriteTL2 with a shared context gives %s, with a fresh one %s", x.key, short(sb), short(x.fresh))
					}
				}
			}
		}
		if err != nil {
			h.Viol("tl2-write:"+key, "WriteTL2 failed: %v", err)
		} else {
			o := it.New()
			rest, err := readTL2(o, append(append([]byte{}, t2...), tail...))
			if err != nil {
				h.Viol("tl2-read:"+key, "reading back own TL2 failed: %v tl2=%s", err, short(t2))
			} else {
				if !sameBytes(rest, tail) {
					h.Viol("tl2-consumed:"+key, "TL2 reader consumed %d bytes of %d", len(t2)+len(tail)-len(rest), len(t2))
				}
				if re, err := writeBare(o); err != nil || !sameBytes(re, b) {
					h.Viol("tl2-roundtrip:"+key, "value changed by TL2 round trip: %s -> %s (%v)", short(b), short(re), err)
				}
			}
		}
	}
	// (5) the []byte variant reads the same bytes and produces identical encodings
	{
		ob := it.NewBytes()
		if _, err := readTL1(ob, false, b); err != nil {
			h.Viol("bytes-variant-read:"+key, "bytes variant cannot read the string variant's TL1: %v", err)
		} else {
			if re, err := writeBare(ob); err != nil || !sameBytes(re, b) {
				h.Viol("bytes-variant-tl1:"+key, "bytes variant encodes differently: %s vs %s (%v)", short(b), short(re), err)
			}
			if re, err := writeBoxed(ob); err != nil || !sameBytes(re, bb) {
				h.Viol("bytes-variant-tl1-boxed:"+key, "bytes variant encodes differently (boxed): %s vs %s (%v)", short(bb), short(re), err)
			}
			if utf8 && j != nil {
				if jb, err := writeJSON(ob); err != nil || !sameBytes(jb, j) {
					h.Viol("bytes-variant-json:"+key, "bytes variant JSON differs: %.200s vs %.200s (%v)", j, jb, err)
				}
			}
			if it.HasTL2 && t2 != nil {
				if tb, err := writeTL2(ob); err != nil || !sameBytes(tb, t2) {
					h.Viol("bytes-variant-tl2:"+key, "bytes variant TL2 differs: %s vs %s (%v)", short(t2), short(tb), err)
				}
			}
		}
	}
	// (6) function results: TL1 -> JSON -> TL1
	var res, res2 []byte
	if fn, ok := v.(verifc14.Fn); ok && it.IsFn {
		h.Stat("tl.results", 1)
		err := try(func() error {
			rf, ok := v.(verifc14.ResultFiller)
			if !ok {
				return fmt.Errorf("no FillRandomResultTL1")
			}
			var e error
			res, e = rf.FillRandomResultTL1(newRG(h, r), nil)
			return e
		})
		if err != nil {
			h.Viol("result-write:"+key, "FillRandomResultTL1 failed: %v", err)
			res = nil
		} else {
			var rj, rest []byte
			err := try(func() error {
				var e error
				rest, rj, e = fn.ReadResultTL1WriteResultJSON(&basictl.JSONWriteContext{}, res, nil)
				return e
			})
			if err != nil {
				h.Viol("result-read:"+key, "reading back own result failed: %v res=%s", err, short(res))
			} else {
				if len(rest) != 0 {
					h.Viol("result-consumed:"+key, "result reader left %d bytes", len(rest))
				}
				err := try(func() error { var e error; _, res2, e = fn.ReadResultJSONWriteResultTL1(&basictl.JSONReadContext{}, rj, nil); return e })
				if err != nil || !sameBytes(res2, res) {
					h.Viol("result-json-roundtrip:"+key, "result changed by TL1->JSON->TL1: %s -> %s (%v) json=%.200s", short(res), short(res2), err, rj)
				}
			}
		}
	}

	// ---- correspondence with the Lean codec instantiated with the schema descriptor of this type
	if !c.supported[key] {
		h.Stat("tl.no-descriptor", 1)
		return
	}
	h.Stat("tl.with-descriptor", 1)
	if len(b) > 6000 {
		h.Stat("tl.too-long-for-driver", 1)
		return
	}
	op := func(boxed bool, in []byte) {
		w := "bare"
		if boxed {
			w = "boxed"
		}
		h.Op("dec %s %s %s", key, w, verifx.Hex(in))
		h.Obs("%s", decObs(it, boxed, in))
	}
	op(false, append(append([]byte{}, b...), tail...))
	op(true, append(append([]byte{}, bb...), tail...))
	// the []byte variant of the type on the same bytes (`decb`): the model has ONE descriptor and ONE encoding per type, so
	// "both variants produce identical encodings" is exactly: both observations equal the model's single answer
	{
		in := append(append([]byte{}, b...), tail...)
		h.Op("decb %s bare %s", key, verifx.Hex(in))
		h.Obs("%s", decObsOf(it.NewBytes(), false, in))
		inb := append(append([]byte{}, bb...), tail...)
		h.Op("decb %s boxed %s", key, verifx.Hex(inb))
		h.Obs("%s", decObsOf(it.NewBytes(), true, inb))
		h.Stat("tl.bytes-variant-ops", 2)
	}
	// the same kind of op, but the real reader fills an object that has just read the fully populated value A: the model
	// (a function of the bytes) must still agree — reading never depends on what the destination held before
	if reuseB != nil && len(reuseA) < 6000 && len(reuseB) < 6000 {
		for _, mk := range []func() verifc14.Obj{it.New, it.NewBytes} {
			o := mk()
			if _, err := readTL1(o, false, reuseA); err != nil {
				continue
			}
			in := append(append([]byte{}, reuseB...), tail...)
			h.Op("dec %s bare %s", key, verifx.Hex(in))
			h.Obs("%s", decObsOf(o, false, in))
			h.Stat("tl.reused-object-ops", 1)
		}
	}
	// truncations: every strict prefix must be rejected by both
	if len(b) > 0 {
		k := r.Intn(len(b))
		op(false, b[:k])
		h.Stat("tl.truncated", 1)
	}
	if len(bb) > 0 {
		op(true, bb[:r.Intn(len(bb))])
	}
	// mutations: one byte changed (length bytes, padding, masks, tags, counts) — accept/reject and the re-encoding must agree
	for m := 0; m < 3 && len(bb) > 0; m++ {
		mb := append([]byte{}, bb...)
		i := r.Intn(len(mb))
		switch r.Intn(4) {
		case 0:
			mb[i] ^= 1 << uint(r.Intn(8))
		case 1:
			mb[i] = byte(r.U64())
		case 2:
			mb[i] = []byte{0, 1, 253, 254, 255}[r.Intn(5)]
		case 3:
			mb[i]++
		}
		mb = append(mb, 0, 0, 0, 0, 0, 0, 0, 0) // room for a field that a flipped mask bit makes present
		obs := decObs(it, true, mb)
		if canonicalised(obs, mb) {
			h.Op("decn %s boxed %s", key, verifx.Hex(mb))
			h.Obs("%s", verdict(obs))
			h.Stat("tl.mutant-canonicalised-by-map", 1)
		} else {
			h.Op("dec %s boxed %s", key, verifx.Hex(mb))
			h.Obs("%s", obs)
		}
		if bo := decObsOf(it.NewBytes(), true, mb); verdict(bo) != verdict(obs) {
			h.Viol("variants-disagree-on-input:"+key, "string variant: %.80s, bytes variant: %.80s on %s", obs, bo, short(mb))
		}
		if strings.HasPrefix(obs, "ok") {
			h.Stat("tl.mutant-accepted", 1)
			h.NonTrivial("mutant-accepted")
		} else {
			h.Stat("tl.mutant-rejected", 1)
		}
	}
	// TL2 of the generated type against SH.Model.TL2 on the same descriptor: decode + re-encode of the Go bytes (string
	// and []byte variant), the TL1 and TL2 bytes denote the same model value, a truncation, two one-byte mutants
	if it.HasTL2 && c.tl2[key] && len(t2) > 0 && len(t2) < 6000 {
		tl2obs := func(o verifc14.Obj, in []byte) string {
			rest, err := readTL2(o, in)
			if err != nil {
				if strings.HasPrefix(err.Error(), "panic") {
					return "panic"
				}
				return "err"
			}
			re, err := writeTL2Shared(o, c.shared) // the context other types of this case have written through
			if err != nil {
				return "werr"
			}
			return fmt.Sprintf("ok rest=%d re=%s", len(rest), verifx.Hex(re))
		}
		in := append(append([]byte{}, t2...), tail...)
		h.Op("tl2 %s %s", key, verifx.Hex(in))
		h.Obs("%s", tl2obs(it.New(), in))
		h.Op("tl2b %s %s", key, verifx.Hex(in))
		h.Obs("%s", tl2obs(it.NewBytes(), in))
		{
			o := it.New()
			x := "err"
			if _, err := readTL2(o, t2); err == nil {
				if re, err := writeBare(o); err == nil {
					x = "differ"
					if sameBytes(re, b) {
						x = "same"
					}
				}
			}
			h.Op("tl2x %s %s %s", key, verifx.Hex(t2), verifx.Hex(b))
			h.Obs("%s", x)
		}
		tr := t2[:r.Intn(len(t2))]
		h.Op("tl2 %s %s", key, verifx.Hex(tr))
		h.Obs("%s", tl2obs(it.New(), tr))
		for m := 0; m < 2; m++ {
			mb := append([]byte{}, t2...)
			i := r.Intn(len(mb))
			switch r.Intn(3) {
			case 0:
				mb[i] ^= 1 << uint(r.Intn(8))
			case 1:
				mb[i] = byte(r.U64())
			case 2:
				mb[i] = []byte{0, 1, 2, 253, 254, 255}[r.Intn(6)]
			}
			mb = append(mb, 0, 0, 0, 0, 0, 0, 0, 0)
			obs := tl2obs(it.New(), mb)
			// a string-variant dictionary is a Go map: on a mutant with duplicate or unsorted keys its re-encoding is
			// canonicalised, the []byte variant (slice of pairs = the model's vector) shows it; where the type has no
			// []byte variant but holds a map the re-encoding is not compared at all (op tl2n: verdict and consumed length)
			if bobs := tl2obs(it.NewBytes(), mb); bobs != obs || (holdsMap(reflect.TypeOf(it.New()), 0) && reflect.TypeOf(it.New()) == reflect.TypeOf(it.NewBytes())) {
				if verdict(bobs) != verdict(obs) {
					h.Viol("variants-disagree-on-input:"+key, "TL2: string variant: %.80s, bytes variant: %.80s on %s", obs, bobs, short(mb))
				}
				h.Op("tl2n %s %s", key, verifx.Hex(mb))
				h.Obs("%s", verdict(obs))
				h.Stat("tl2.mutant-canonicalised-by-map", 1)
				continue
			}
			h.Op("tl2 %s %s", key, verifx.Hex(mb))
			h.Obs("%s", obs)
			if strings.HasPrefix(obs, "ok") {
				h.Stat("tl2.mutant-accepted", 1)
			} else {
				h.Stat("tl2.mutant-rejected", 1)
			}
		}
		h.Stat("tl2.object-ops", 6)
	} else if it.HasTL2 {
		h.Stat("tl2.empty-or-long", 1)
	}
	if res != nil && c.results[key] && len(res) < 6000 {
		obs := "err"
		if res2 != nil {
			obs = fmt.Sprintf("ok rest=0 re=%s", verifx.Hex(res2))
		}
		h.Op("res %s %s %s", key, verifx.Hex(b), verifx.Hex(res))
		h.Obs("%s", obs)
		h.Stat("tl.result-ops", 1)
	}
}

// ---------------------------------------------------------------- frames

func lzCompress(x []byte) []byte {
	buf := make([]byte, lz4.CompressBlockBound(len(x)))
	n, err := lz4.CompressBlockHC(x, buf, 0)
	if err != nil {
		panic(err)
	}
	return buf[:n]
}

func lzUncompress(data []byte, size int) ([]byte, bool) {
	out := make([]byte, size)
	n, err := lz4.UncompressBlock(data, out)
	if err != nil {
		return nil, false
	}
	return out[:n], true
}

func unframeReal(frame []byte) (out []byte, ok bool, stage string) {
	size, data, err := compress.DeFrame(frame)
	if err != nil {
		return nil, false, "deframe"
	}
	out, err = compress.Decompress(size, data)
	if err != nil {
		return nil, false, "decompress"
	}
	return out, true, ""
}

func hexUpTo(b []byte, n int) string {
	if len(b) > n {
		return short(b)
	}
	return verifx.Hex(b)
}

// weakPayload: random (incompressible) bytes of many lengths, dense around 3–5 KiB where the literal-length bytes of
// an lz4 sequence add up to about what one short match saves, with
//   - one repeat of 4–32 earlier bytes placed a few bytes before the end (the tail length is drawn either freely from
//     0..40 or close to the literal-run overhead len/255), or
//   - several short repeats scattered through the data.
func weakPayload(h *verifx.H, r *verifx.Rng) []byte {
	var body int
	switch r.Pick(5, 2, 2, 1) {
	case 0:
		body = r.Range(2800, 5400)
	case 1:
		body = r.Range(64, 2800)
	case 2:
		body = r.Range(5400, 20000)
	case 3:
		body = r.Range(20000, 65536)
	}
	x := r.Bytes(body)
	rep := func() []byte {
		m := r.Range(4, 32)
		if m > len(x) {
			m = len(x)
		}
		var src int
		if r.Chance(1, 3) {
			src = r.Intn(min(8, len(x)-m+1)) // from the very beginning (maximal offset)
		} else {
			src = r.Intn(len(x) - m + 1)
		}
		return append([]byte{}, x[src:src+m]...)
	}
	if r.Chance(3, 4) {
		x = append(x, rep()...)
		tail := r.Range(0, 40)
		if r.Bool() {
			tail = max(0, body/255+r.Range(-6, 8))
		}
		x = append(x, r.Bytes(tail)...)
		h.Stat("frame.weak.one-match-near-end", 1)
	} else {
		for k, n := 0, r.Range(2, 6); k < n; k++ {
			x = append(x, rep()...)
			x = append(x, r.Bytes(r.Range(0, 600))...)
		}
		h.Stat("frame.weak.scattered", 1)
	}
	return x
}

// keptFrame: a frame the caller keeps while compressing other payloads (send queue, disk cache): CompressAndFrame's result
// is a value — it must not change under later calls
type keptFrame struct {
	x, frame, asReturned []byte
}

func (c *ctx) keep(x, frame []byte) {
	if len(x) > 1<<20 {
		return
	}
	c.kept = append(c.kept, keptFrame{x: x, frame: frame, asReturned: append([]byte{}, frame...)})
}

func (c *ctx) frameCase(r *verifx.Rng, big bool, bigIdx int) {
	h := c.h
	c.kept = c.kept[:0]
	// frames of incompressible payloads of different sizes (stored as they are), interleaved with compressible ones, all kept
	for k, n := 0, r.Range(3, 6); k < n; k++ {
		var px []byte
		if k%2 == 0 {
			px = r.Bytes([]int{1, 5, 16, 100, 700, 3000}[r.Intn(6)] + r.Intn(7))
		} else {
			px = bytes.Repeat(r.Bytes(r.Range(1, 4)), r.Range(10, 300))
		}
		var pf []byte
		if err := try(func() error { pf = compress.CompressAndFrame(px); return nil }); err == nil {
			c.keep(px, pf)
		}
	}
	c.frameCaseInner(r, big, bigIdx)
	// every kept frame after all later CompressAndFrame calls of this case
	for i, k := range c.kept {
		out, ok, stage := unframeReal(k.frame)
		if !sameBytes(k.frame, k.asReturned) || !ok || !sameBytes(out, k.x) {
			h.Viol("frame-changed-after-later-compress", "frame %d of %d kept in this case (payload %d bytes %s) was %s when returned and is %s after later CompressAndFrame calls; it now decompresses ok=%v stage=%s to %d bytes",
				i, len(c.kept), len(k.x), hexUpTo(k.x, 200), hexUpTo(k.asReturned, 200), hexUpTo(k.frame, 200), ok, stage, len(out))
			break
		}
	}
	h.Stat("frame.kept-and-rechecked", int64(len(c.kept)))
	c.kept = c.kept[:0]
}

func (c *ctx) frameCaseInner(r *verifx.Rng, big bool, bigIdx int) {
	h := c.h
	h.Stat("frame.cases", 1)
	const maxU = data_model.MaxUncompressedBucketSize
	// payload
	var x []byte
	kind := r.Pick(1, 3, 3, 2, 2, 0, 2, 3)
	if big {
		kind = 5
	}
	switch kind {
	case 0:
		x = nil
	case 1:
		x = r.Bytes(r.Range(1, 300)) // incompressible
	case 2:
		x = bytes.Repeat(r.Bytes(r.Range(1, 6)), r.Range(1, 120)) // compressible
	case 3:
		x = bytes.Repeat([]byte{byte(r.U64())}, r.Range(1, 24)) // around the compressed >= original boundary
	case 4:
		x = append(bytes.Repeat([]byte("metric"), r.Range(1, 40)), r.Bytes(r.Range(0, 40))...)
	case 6: // compressed size exactly equal to the original size (the `>=` in CompressAndFrame): searched for
		// a single 4..6 byte match saves exactly what its token and offset cost when both literal runs stay below 15
		x = r.Bytes(20)
	search:
		for try := 0; try < 40; try++ {
			pre := r.Bytes(r.Range(4, 6))
			cand := append(append(append(append([]byte{}, pre...), r.Bytes(r.Range(0, 6))...), pre...), r.Bytes(r.Range(12, 14))...)
			if len(lzCompress(cand)) == len(cand) {
				x = cand
				h.Stat("frame.lz-equal-size", 1)
				break search
			}
		}
	case 7: // weakly compressible: incompressible body with one short match near the end / a few scattered matches
		x = weakPayload(h, r)
	case 5: // at the size limit (Go only: too long for the list based model driver)
		size := maxU + []int{0, -1, 1}[bigIdx%3] // exactly at, just below, just above MaxUncompressedBucketSize
		x = bytes.Repeat([]byte{byte(r.U64()), 7}, size/2+1)[:size]
		h.Stat(fmt.Sprintf("frame.big.size%+d", size-maxU), 1)
	}
	h.Stat(fmt.Sprintf("frame.kind%d", kind), 1)
	var frame []byte
	if err := try(func() error { frame = compress.CompressAndFrame(x); return nil }); err != nil {
		h.Viol("frame-compress-panic", "CompressAndFrame panicked on %d bytes: %v", len(x), err)
		return
	}
	c.keep(x, frame)
	// ---- direct oracle
	{
		out, ok, stage := unframeReal(frame)
		if len(x) <= maxU && (!ok || !sameBytes(out, x)) {
			h.Viol("frame-roundtrip", "frame of %d bytes (%s) does not decompress to the original: ok=%v stage=%s got %d bytes", len(x), short(x), ok, stage, len(out))
		}
		if len(x) > maxU && ok && !sameBytes(out, x) { // above the limit: rejected or right, never misread
			h.Viol("frame-misread", "oversized frame of %d bytes decompressed to other %d bytes", len(x), len(out))
		}
	}
	if len(frame) >= 4 && int(binary.LittleEndian.Uint32(frame)) != len(x) {
		h.Viol("frame-size-field", "frame header says %d for %d bytes", binary.LittleEndian.Uint32(frame), len(x))
	}
	if len(frame) != 4+len(x) {
		h.NonTrivial("compressed")
		h.Stat("frame.compressed", 1)
	} else {
		h.Stat("frame.raw", 1)
	}
	for k := 0; k < 4 && k < len(frame); k++ { // undersized
		if _, _, err := compress.DeFrame(frame[:k]); err == nil {
			h.Viol("frame-undersized-accepted", "DeFrame accepted a %d byte frame", k)
		}
	}
	if big {
		return
	}
	// a batch of weakly compressible payloads (Go oracle only: cheap, many sizes): lz4 gains or loses a few bytes on
	// them, which is where a frame writer that second-guesses the compressor's buffer needs goes wrong
	for k := 0; k < 14; k++ {
		wx := weakPayload(h, r)
		var wf []byte
		if err := try(func() error { wf = compress.CompressAndFrame(wx); return nil }); err != nil {
			h.Viol("frame-compress-panic", "CompressAndFrame panicked on a %d byte weakly compressible payload: %v payload=%s", len(wx), err, hexUpTo(wx, 6000))
			continue
		}
		c.keep(wx, wf)
		if out, ok, stage := unframeReal(wf); !ok || !sameBytes(out, wx) {
			h.Viol("frame-roundtrip", "frame of a %d byte weakly compressible payload does not decompress to the original: ok=%v stage=%s got %d bytes payload=%s", len(wx), ok, stage, len(out), hexUpTo(wx, 6000))
		}
		if len(wf) >= 4 && int(binary.LittleEndian.Uint32(wf)) != len(wx) {
			h.Viol("frame-size-field", "frame header says %d for %d bytes", binary.LittleEndian.Uint32(wf), len(wx))
		}
		if len(wf) != 4+len(wx) {
			h.Stat("frame.weak.compressed", 1)
		} else {
			h.Stat("frame.weak.raw", 1)
		}
	}
	if len(x) > 8000 {
		h.Stat("frame.too-long-for-driver", 1)
		return
	}
	lz := lzCompress(x)
	h.Op("frame %s %s", verifx.Hex(x), verifx.Hex(lz))
	h.Obs("frame %s", verifx.Hex(frame))
	// ---- frames as they arrive: the good one, and damaged ones
	cands := [][]byte{frame}
	for k := 0; k < 4; k++ {
		f := append([]byte{}, frame...)
		switch r.Intn(7) {
		case 0: // undersized
			f = f[:r.Intn(4)]
		case 1: // size field beyond the limit
			f = append([]byte{}, f...)
			if len(f) >= 4 {
				binary.LittleEndian.PutUint32(f, uint32(maxU+r.Range(1, 3)))
			}
		case 2: // size field off by a little
			if len(f) >= 4 {
				binary.LittleEndian.PutUint32(f, uint32(int(binary.LittleEndian.Uint32(f))+r.Range(-2, 2)))
			}
		case 3: // truncated body
			if len(f) > 4 {
				f = f[:4+r.Intn(len(f)-4)]
			}
		case 4: // garbage body
			f = append(f[:min(4, len(f))], r.Bytes(r.Range(0, 20))...)
		case 5: // size exactly at the limit with a short body
			if len(f) >= 4 {
				binary.LittleEndian.PutUint32(f, uint32(maxU))
			}
		case 6: // huge size field
			if len(f) >= 4 {
				binary.LittleEndian.PutUint32(f, 0xffffffff-uint32(r.Intn(3)))
			}
		}
		cands = append(cands, f)
	}
	for _, f := range cands {
		// the observed result of the library call the model takes as a parameter
		unlz := "na"
		if len(f) >= 4 {
			size := int(binary.LittleEndian.Uint32(f))
			if size != len(f)-4 && size <= maxU {
				if out, ok := lzUncompress(f[4:], size); ok {
					unlz = "ok:" + verifx.Hex(out)
					if len(out) > 4000 {
						continue
					}
				} else {
					unlz = "err"
				}
			}
		}
		var obs string
		var size uint32
		var out []byte
		var ok bool
		err := try(func() error {
			out, ok, _ = unframeReal(f)
			if len(f) >= 4 {
				size = binary.LittleEndian.Uint32(f)
			}
			return nil
		})
		switch {
		case err != nil:
			obs = "panic"
		case ok:
			obs = "ok " + verifx.Hex(out)
			h.Stat("frame.accepted", 1)
		default:
			obs = "err"
			h.Stat("frame.rejected", 1)
		}
		h.Op("unframe %s %s", verifx.Hex(f), unlz)
		h.Obs("%s", obs)
		// direct oracle: rejected rather than misread
		if ok && len(out) != int(size) {
			h.Viol("frame-misread", "frame with size field %d decompressed to %d bytes", size, len(out))
		}
		if ok && int(size) > maxU && int(size) != len(f)-4 {
			h.Viol("frame-oversized-accepted", "frame with size field %d > %d accepted", size, maxU)
		}
		if len(f) < 4 && (ok || err != nil) {
			h.Viol("frame-undersized-accepted", "%d byte frame accepted", len(f))
		}
	}
}

// ---------------------------------------------------------------- TL2 size codec, strings, bodies at the form boundaries

var sizeBoundaries = []int{0, 1, 2, 127, 128, 252, 253, 254, 255, 256, 257, 509, 510, 65535, 65536, 65787, 65788, 65789, 65790, 65791, 65792,
	65793, 1<<24 - 1, 1 << 24, 1<<24 + 1, 1<<32 - 1, 1 << 32, 1<<32 + 1, 1<<56 - 1, 1 << 56, math.MaxInt64 - 1, math.MaxInt64}
var strBoundaries = []int{0, 1, 253, 254, 255, 256, 65789, 65790, 65791, 65792}

// ownHeaderLen: length of a TL2 size header judged by its first byte only (independent of the size codec under test)
func ownHeaderLen(b0 byte) int {
	switch {
	case b0 < 254:
		return 1
	case b0 == 254:
		return 3
	}
	return 9
}

func parseObs(b []byte) string {
	var rest []byte
	var n int
	err := try(func() error { var e error; rest, n, e = basictl.TL2ParseSize(b); return e })
	if err != nil {
		if strings.HasPrefix(err.Error(), "panic") {
			return "panic"
		}
		return "err"
	}
	return fmt.Sprintf("ok %d rest=%d", n, len(rest))
}

// planters: every place of a generated value where a string can be put (fields, first elements of vectors, keys and
// values of string dictionaries), in a fixed order
func planters(v reflect.Value, depth int, out *[]func(string)) {
	if depth > 10 {
		return
	}
	switch v.Kind() {
	case reflect.Ptr:
		if !v.IsNil() {
			planters(v.Elem(), depth+1, out)
		}
	case reflect.Struct:
		if isFactoryItem(v) {
			return
		}
		for i := 0; i < v.NumField(); i++ {
			if f := v.Field(i); f.CanSet() {
				planters(f, depth+1, out)
			}
		}
	case reflect.String:
		*out = append(*out, func(s string) { v.SetString(s) })
	case reflect.Slice:
		if v.Type().Elem().Kind() == reflect.Uint8 {
			*out = append(*out, func(s string) { v.SetBytes([]byte(s)) })
			return
		}
		if v.Len() > 0 {
			planters(v.Index(0), depth+1, out)
		}
	case reflect.Map:
		if v.Type().Key().Kind() == reflect.String && v.Type().Elem().Kind() == reflect.String && v.CanSet() {
			*out = append(*out, func(s string) {
				m := reflect.MakeMap(v.Type())
				m.SetMapIndex(reflect.ValueOf("k").Convert(v.Type().Key()), reflect.ValueOf(s).Convert(v.Type().Elem()))
				v.Set(m)
			}, func(s string) {
				m := reflect.MakeMap(v.Type())
				m.SetMapIndex(reflect.ValueOf(s).Convert(v.Type().Key()), reflect.ValueOf("v").Convert(v.Type().Elem()))
				v.Set(m)
			})
		}
	}
}

func (c *ctx) tl2Case(idx int, r *verifx.Rng, items []verifc14.Item) {
	h := c.h
	h.Stat("tl2.cases", 1)
	// (a) the size codec at and around every form boundary, plus random sizes
	var sizes []int
	for k := 0; k < 4; k++ {
		sizes = append(sizes, sizeBoundaries[(idx*4+k)%len(sizeBoundaries)])
	}
	sizes = append(sizes, 1<<uint(r.Intn(40))+r.Intn(1000), 65790+r.Range(-300, 300))
	for _, n := range sizes {
		tail := r.Bytes(r.Intn(4))
		var w []byte
		buf := make([]byte, 9)
		var put, calc int
		err := try(func() error {
			w = basictl.TL2WriteSize(nil, n)
			put = basictl.TL2PutSize(buf, n)
			calc = basictl.TL2CalculateSize(n)
			return nil
		})
		if err != nil {
			h.Viol("tl2-size-write-panic", "TL2WriteSize(%d): %v", n, err)
			continue
		}
		if !sameBytes(buf[:put], w) || calc != len(w) {
			h.Viol("tl2-size-forms-disagree", "size %d: TL2WriteSize=%x TL2PutSize=%x TL2CalculateSize=%d", n, w, buf[:put], calc)
		}
		po := parseObs(append(append([]byte{}, w...), tail...))
		if po != fmt.Sprintf("ok %d rest=%d", n, len(tail)) {
			h.Viol("tl2-size-roundtrip", "size %d written as %x is read back as: %s (expected ok %d rest=%d)", n, w, po, n, len(tail))
		}
		h.Op("tl2size %d %s", n, verifx.Hex(tail))
		h.Obs("%s calc=%d parse=%s", verifx.Hex(w), calc, po)
		h.Stat("tl2.size-ops", 1)
	}
	// (b) arbitrary size headers
	for k := 0; k < 3; k++ {
		b := r.Bytes(r.Intn(12))
		if len(b) > 0 && r.Bool() {
			b[0] = []byte{253, 254, 255, 255}[r.Intn(4)]
		}
		if len(b) == 9 && b[0] == 255 && r.Bool() {
			b[8] = []byte{0x7f, 0x80, 0xff}[r.Intn(3)] // around MaxInt
		}
		h.Op("tl2parse %s", verifx.Hex(b))
		h.Obs("%s", parseObs(b))
	}
	// (c) a string of exactly a boundary length, string and []byte variant, the latter into a used destination
	{
		L := strBoundaries[idx%len(strBoundaries)]
		fillb := byte('a' + r.Intn(26))
		s := bytes.Repeat([]byte{fillb}, L)
		tail := r.Bytes(r.Intn(4))
		w := basictl.StringWriteTL2(nil, string(s))
		if wb := basictl.StringWriteTL2Bytes(nil, s); !sameBytes(w, wb) {
			h.Viol("tl2-string-variants", "StringWriteTL2 and StringWriteTL2Bytes differ for length %d: %s vs %s", L, short(w), short(wb))
		}
		in := append(append([]byte{}, w...), tail...)
		var gotS string
		gotB := []byte("previous content of the destination")
		rd := "err"
		rest, err := basictl.StringReadTL2(in, &gotS)
		if err == nil {
			rd = fmt.Sprintf("ok len=%d rest=%d same=%v", len(gotS), len(rest), gotS == string(s))
		}
		if err != nil || gotS != string(s) || !sameBytes(rest, tail) {
			h.Viol("tl2-string-roundtrip", "TL2 string of length %d (header %x) reads back as length %d, rest %d of %d (%v)", L, w[:min(9, len(w))], len(gotS), len(rest), len(tail), err)
		}
		restB, errB := basictl.StringReadTL2Bytes(in, &gotB)
		if errB != nil || !sameBytes(gotB, s) || !sameBytes(restB, tail) {
			h.Viol("tl2-string-roundtrip-bytes", "TL2 []byte string of length %d reads back into a used destination as length %d (%v)", L, len(gotB), errB)
		}
		h.Op("tl2str %d %d %s", L, fillb, verifx.Hex(tail))
		h.Obs("head=%s total=%d read=%s", verifx.Hex(w[:min(12, len(w))]), len(w), rd)
		h.Stat(fmt.Sprintf("tl2.string-len-%d", L), 1)
	}
	// (d) generated TL2 types: sweep the length of one planted string so that the body of every enclosing object /
	// vector / dictionary passes through each size of a boundary region exactly; round trip every step
	var tl2Items []verifc14.Item
	for _, it := range items {
		if it.HasTL2 {
			tl2Items = append(tl2Items, it)
		}
	}
	if len(tl2Items) == 0 {
		return
	}
	var it verifc14.Item
	var v verifc14.Obj
	var ps []func(string)
	for k := 0; k < len(tl2Items); k++ { // next TL2 type that has a place for a string
		it = tl2Items[(idx+k)%len(tl2Items)]
		v = it.New()
		fillShaped(h, r, v, "fullsmall")
		ps = nil
		planters(reflect.ValueOf(v), 0, &ps)
		if len(ps) > 0 {
			break
		}
	}
	if len(ps) == 0 {
		return
	}
	key := it.Schema + "/" + it.Name
	plant := ps[(idx/len(tl2Items)+idx)%len(ps)]
	region := []int{254, 65790}[idx%2]
	h.Stat(fmt.Sprintf("tl2.body-sweep-%d", region), 1)
	hitTop := 0
	// everything that encloses the planted string adds at most `over` bytes to it
	plant("")
	over := 140
	if t0, err := writeTL2(v); err == nil {
		over = min(len(t0)+12, 700)
	}
	h.Stat("tl2.body-sweep-steps", int64(over+3))
	for L := region - over; L <= region+2; L++ {
		if L < 0 {
			continue
		}
		plant(strings.Repeat("s", L))
		b, err := writeBare(v)
		if err != nil {
			break
		}
		t2, err := writeTL2(v)
		if err != nil {
			h.Viol("tl2-write:"+key, "WriteTL2 failed with a %d byte string: %v", L, err)
			break
		}
		if len(t2) > 0 && len(t2)-ownHeaderLen(t2[0]) == region {
			hitTop++
		}
		tail := []byte{0xee, byte(L)}
		for _, mk := range []func() verifc14.Obj{it.New, it.NewBytes} {
			o := mk()
			rest, err := readTL2(o, append(append([]byte{}, t2...), tail...))
			if err != nil {
				h.Viol("tl2-body-roundtrip", key+": "+"TL2 of %d bytes (planted string %d, header %x) cannot be read back: %v", len(t2), L, t2[:min(9, len(t2))], err)
				break
			}
			if re, err := writeBare(o); err != nil || !sameBytes(re, b) || !sameBytes(rest, tail) {
				h.Viol("tl2-body-roundtrip", key+": "+"TL2 of %d bytes (planted string %d, header %x) reads back as another value or leaves %d instead of %d bytes (%v)", len(t2), L, t2[:min(9, len(t2))], len(rest), len(tail), err)
				break
			}
		}
	}
	if hitTop > 0 {
		h.Stat("tl2.body-exactly-at-boundary", int64(hitTop))
		h.NonTrivial("tl2-body-boundary")
	}
}

// ---------------------------------------------------------------- main

func main() {
	h := verifx.New()
	items := allItems()
	if h.Mode == "gen" {
		fmt.Printf("const MaxUncompressedBucketSize %d\n", data_model.MaxUncompressedBucketSize)
		for _, it := range items {
			kind := "obj"
			if it.IsFn {
				kind = "fn"
			}
			fmt.Printf("item %s %s %08x %s tl2=%v\n", it.Schema, it.Name, it.Tag, kind, it.HasTL2)
		}
		return
	}
	fullDump = h.Mode == "full"
	c := &ctx{h: h, supported: map[string]bool{}, results: map[string]bool{}, tl2: map[string]bool{}}
	if h.Arg != "" {
		data, err := os.ReadFile(h.Arg)
		if err != nil {
			fmt.Fprintln(os.Stderr, err)
			os.Exit(2)
		}
		for _, line := range strings.Split(string(data), "\n") {
			f := strings.Fields(line)
			if len(f) == 2 && f[0] == "desc" {
				c.supported[f[1]] = true
			}
			if len(f) == 2 && f[0] == "tl2" {
				c.tl2[f[1]] = true
			}
			if len(f) == 2 && f[0] == "result" {
				c.results[f[1]] = true
			}
		}
	}
	for _, it := range items {
		if it.HasTL2 {
			c.tl2Items = append(c.tl2Items, it)
		}
	}
	c.shared = &basictl.TL2WriteContext{}
	bigLeft, bigIdx := 3, 0
	if h.Tier == "thorough" {
		bigLeft = 9
	}
	h.Cases(func(i int, r *verifx.Rng) {
		if i%16 == 15 {
			c.tl2Case(i/16, r, items)
			return
		}
		if i%8 == 7 {
			big := false
			if bigLeft > 0 && i%64 == 39 {
				big = true
				bigLeft--
				bigIdx++
			}
			c.frameCase(r, big, bigIdx)
			return
		}
		k := i - i/8 // index among TL cases
		c.tlCase(items[k%len(items)], r)
	})
	h.Stat("items.total", int64(len(items)))
	h.Stat("items.with-descriptor", int64(len(c.supported)))
	h.Done()
}
