//go:build verif

// verif-c02: correspondence + direct oracle for "row aggregates survive the agent -> aggregator transfer".
//
// One case = one row.  The row is built with the real data_model API the agent shard uses (MapStringTop, AddCounterHost,
// ApplyValues, ApplyUnique, AddValueCounterHost[Percentile]), put into a MetricsBucket, pushed through the real
// (*agent.Shard).sampleBucket (whose closure keepF assembles the tlstatshouse.MultiItem), serialised with WriteTL1Boxed, read
// back as SourceBucket3Bytes and merged into a fresh aggregator row with KeyFromStatshouseMultiItem + MergeWithTLMultiItem.
// Every stage prints the canonicalised state (`<` lines) that the Lean model must reproduce; the oracle (`!` lines) compares
// the aggregator row with sf x the agent row in exact rational arithmetic, independently of the model.
package main

import (
	"bytes"
	"encoding/binary"
	"fmt"
	"math"
	"math/big"
	"sort"
	"strings"

	"pgregory.net/rand"

	"github.com/VKCOM/statshouse/internal/agent"
	"github.com/VKCOM/statshouse/internal/aggregator"
	"github.com/VKCOM/statshouse/internal/data_model"
	"github.com/VKCOM/statshouse/internal/data_model/gen2/tlstatshouse"
	"github.com/VKCOM/statshouse/internal/format"
	"github.com/VKCOM/statshouse/internal/verifx"
)

const agentCompression = 2000 // a parameter of the tdigest library: large, so that the few centroids of a case are never merged
const bucketTs = uint32(1_700_000_000)
const stringTopCountSend = 3 // Shard config StringTopCountSend used by sampleBucket's FinishStringTop

type tag = data_model.TagUnion

func q(f float64) string {
	if math.IsNaN(f) || math.IsInf(f, 0) {
		return "nan"
	}
	return new(big.Rat).SetFloat64(f).RatString()
}

func rat(f float64) *big.Rat { return new(big.Rat).SetFloat64(f) }

func tagStr(t tag) string {
	switch {
	case t.I == 0 && t.S == "":
		return "-"
	case t.S == "":
		return fmt.Sprintf("i%d", t.I)
	case t.I == 0:
		return "s" + t.S
	default:
		return fmt.Sprintf("b%d.%s", t.I, t.S)
	}
}

func b2s(b bool) string {
	if b {
		return "1"
	}
	return "0"
}

func opt(set bool, s string) string {
	if set {
		return s
	}
	return "_"
}

func centsStr(means, ws []float64) string {
	ss := make([]string, len(means))
	for i := range means {
		ss[i] = q(means[i]) + ":" + q(ws[i])
	}
	sort.Strings(ss)
	return verifx.List(ss)
}

type digestView struct {
	isNil     bool
	means, ws []float64
}

func viewDigest(mv *data_model.MultiValue) digestView {
	if mv.ValueTDigest == nil {
		return digestView{isNil: true}
	}
	d := digestView{}
	for _, c := range mv.ValueTDigest.Centroids() {
		d.means = append(d.means, c.Mean)
		d.ws = append(d.ws, c.Weight)
	}
	return d
}

func (d digestView) str(full bool) string {
	if d.isNil {
		return "nil"
	}
	if full {
		return centsStr(d.means, d.ws)
	}
	w := new(big.Rat)
	for _, x := range d.ws {
		w.Add(w, rat(x))
	}
	return "~" + w.RatString()
}

// outsideExact: values beyond 2^26 leave the exact domain of float64 for squares (DESIGN 4.1): the sum of squares of such
// a row is neither printed nor judged.
func outsideExact(mn, mx float64) bool { return math.Abs(mn) > 1<<26 || math.Abs(mx) > 1<<26 }

func sqStr(mn, mx, sq float64) string {
	if outsideExact(mn, mx) {
		return "~"
	}
	return q(sq)
}

func uniqList(mv *data_model.MultiValue) ([]uint32, uint32) {
	return data_model.VerifC02UniqueItems(&mv.HLL)
}

func mvStr(full bool, name string, mv *data_model.MultiValue) string {
	v := &mv.Value
	items, _ := uniqList(mv)
	return fmt.Sprintf("%s cnt=%s hc=%s vs=%s min=%s max=%s sum=%s sq=%s hmin=%s hmax=%s dg=%s uqn=%d uq=%s",
		name, q(v.Count()), tagStr(v.MaxCounterHostTag), b2s(v.ValueSet), q(v.ValueMin), q(v.ValueMax), q(v.ValueSum), sqStr(v.ValueMin, v.ValueMax, v.ValueSumSquare),
		tagStr(v.MinHostTag), tagStr(v.MaxHostTag), viewDigest(mv).str(full), mv.HLL.ItemsCount(), verifx.List(items))
}

// ---------------------------------------------------------------- snapshot of the agent row (for the oracle)

type snap struct {
	cnt, min, max, sum, sq float64
	vset                   bool
	hcnt, hmin, hmax       tag
	uq                     []uint32
	dg                     digestView
}

func takeSnap(mv *data_model.MultiValue) snap {
	v := &mv.Value
	items, _ := uniqList(mv)
	return snap{cnt: v.Count(), min: v.ValueMin, max: v.ValueMax, sum: v.ValueSum, sq: v.ValueSumSquare, vset: v.ValueSet,
		hcnt: v.MaxCounterHostTag, hmin: v.MinHostTag, hmax: v.MaxHostTag, uq: append([]uint32(nil), items...), dg: viewDigest(mv)}
}

// ---------------------------------------------------------------- generators (exact domain: small dyadic rationals)

var hostPool = []tag{{}, {}, {I: 7}, {I: 9}, {S: "hosta"}, {S: "hostb"}}

// string-top keys: positive ints (mapped ids), raw int32 values incl. negative ones (the string-top tag may be a raw
// int32 tag: -1, MinInt32, MaxInt32, the negation of a mapped id), strings (one of them mapped by the aggregator) and a
// non-normalized key (I has priority)
var topPool = []tag{{I: 1}, {I: 2}, {S: "x"}, {S: "yy"}, {I: 3, S: "z"}, {I: 5}, {S: "w"}, {S: "v"},
	{I: -1}, {I: math.MinInt32}, {I: -77}, {I: math.MaxInt32}, {I: 41}}
var sfPool = []float64{1, 1, 2, 3, 10, 1.5, 2.25, 4, 7.5}

func genValue(r *verifx.Rng, base float64) float64 {
	switch r.Pick(3, 3, 3, 1, 1) {
	case 0:
		return base // repeat: keeps min == max
	case 1:
		return 0
	case 2:
		return float64(r.Range(-20, 20))
	case 3:
		return float64(r.Range(-40, 40)) / 4
	default:
		return float64(r.Range(1, 5)) * 16
	}
}

type evSpec struct {
	kind   byte // 'c' counter-only, 'v' values/histogram, 'p' single value with count, 'u' unique
	top    tag
	host   tag
	count  float64 // as carried by the event: 0 = "take the number of values"
	vals   []float64
	hist   [][2]float64
	value  float64
	hashes []int64
	zero   bool // carries a zero-hash unique value
}

type caseSpec struct {
	key      data_model.Key
	hasPct   bool
	noSample bool // MetricMeta.NoSampleAgent: keepF is called directly with the row's SF
	sf       float64
	events   []evSpec
	aggHost  tag
	cap      int  // string-top capacity passed to MapStringTop (Shard config StringTopCapacity)
	legacy   bool // agent Config.LegacyApplyValues: value events go through MultiValue.ApplyValuesLegacy
}

type caseCtx struct {
	h      *verifx.H
	rng    *rand.Rand
	item   *data_model.MultiItem
	hasPct bool
	kinds  map[string]bool
	cap    int
	legacy bool
	// state of the Top map before the current event (to observe what MapStringTop's random draws did)
	keysBefore map[tag]bool
	sfBefore   int
}

func topKeySet(item *data_model.MultiItem) map[tag]bool {
	m := map[tag]bool{}
	for k := range item.Top {
		m[k] = true
	}
	return m
}

func sortedTags(m map[tag]bool) []string {
	var ss []string
	for k := range m {
		ss = append(ss, tagStr(k))
	}
	sort.Strings(ss)
	return ss
}

// drawSuffix renders what the random draws of MapStringTop did during the event just applied: capacity, whether the
// event was redirected to Tail (`rng.Float64()*sf >= count` after a resample), the number of resample rounds and the
// evicted keys (their order inside a round is not observable; rows that can resample use a single host tag, which
// makes the fold order irrelevant).
func (c *caseCtx) drawSuffix(key tag, applied bool) string {
	after := topKeySet(c.item)
	evicted := map[tag]bool{}
	for k := range c.keysBefore {
		if !after[k] {
			evicted[k] = true
		}
	}
	rounds := data_model.VerifC02SampleFactorLog2(c.item) - c.sfBefore
	redirect := applied && !key.Empty() && !c.keysBefore[key] && !after[key]
	if rounds > 0 {
		c.h.Stat("agent.resample-rounds", int64(rounds))
		c.h.Stat("agent.evicted", int64(len(evicted)))
		c.h.NonTrivial("resampled")
	}
	if redirect {
		c.h.Stat("agent.redirected-to-tail", 1)
	}
	return fmt.Sprintf("%d %s %d %s", c.cap, b2s(redirect), rounds, verifx.List(sortedTags(evicted)))
}

func genEvent(r *verifx.Rng, base float64, topNum int, bigOK bool) evSpec {
	e := evSpec{}
	if r.Chance(topNum, 5) {
		e.top = topPool[r.Intn(len(topPool))]
	}
	e.host = hostPool[r.Intn(len(hostPool))]
	switch r.Pick(3, 5, 2, 2) {
	case 0:
		e.kind = 'c'
		e.count = []float64{1, 1, 2, 3, 0.5, 5, 0}[r.Intn(7)]
	case 1:
		e.kind = 'v'
		nv := r.Pick(2, 4, 2, 1)
		for i := 0; i < nv; i++ {
			e.vals = append(e.vals, genValue(r, base))
		}
		nh := r.Pick(5, 2, 1)
		if nv == 0 && nh == 0 {
			nh = 1
		}
		for i := 0; i < nh; i++ {
			e.hist = append(e.hist, [2]float64{genValue(r, base), float64(r.Pick(1, 6, 3, 2))})
		}
		total := float64(len(e.vals))
		for _, kv := range e.hist {
			total += kv[1]
		}
		// count: 0 (= take total), total, or total times a dyadic factor (keeps count/total exact)
		e.count = total * []float64{0, 0, 1, 2, 0.5, 3, 1.5}[r.Intn(7)]
	case 2:
		e.kind = 'p'
		e.value = genValue(r, base)
		e.count = []float64{1, 1, 2, 0.5, 4}[r.Intn(5)]
	case 3:
		e.kind = 'u'
		n := r.Range(1, 4)
		for i := 0; i < n; i++ {
			x := int64(r.Range(-3, 40))
			if r.Chance(1, 3) {
				x = int64(base)
			}
			e.hashes = append(e.hashes, x)
		}
		e.count = float64(n) * []float64{0, 0, 1, 2, 0.5, 3}[r.Intn(6)]
		if bigOK && len(zeroHashValues) > 0 && r.Chance(1, 4) {
			// a unique value whose 32-bit sketch hash is 0 (ChUnique keeps it as hasZeroItem): alone, or next to a small
			// value.  No rescaling (count = number of values): the square of such a value is outside the exact domain.
			z := zeroHashValues[r.Intn(len(zeroHashValues))]
			if r.Bool() {
				e.hashes = []int64{z}
			} else {
				e.hashes = []int64{z, int64(r.Range(1, 9))}
			}
			e.count = 0
			e.zero = true
		}
	}
	return e
}

// applyEvent applies one event through the real API exactly as Shard.Apply* do (count defaulting, `count <= 0` guard,
// MapStringTop, then the MultiValue method) and prints the op and the observation.
func (c *caseCtx) applyEvent(e evSpec) {
	h := c.h
	c.keysBefore = topKeySet(c.item)
	c.sfBefore = data_model.VerifC02SampleFactorLog2(c.item)
	switch {
	case e.top.Empty():
		h.Stat("top.key.tail", 1)
	case e.top.I < 0:
		h.Stat("top.key.negative-int", 1)
	case e.top.I > 0:
		h.Stat("top.key.positive-int", 1)
	default:
		h.Stat("top.key.string", 1)
	}
	top, host := e.top, e.host
	key := top
	key.Normalize()
	target := func(count float64) *data_model.MultiValue {
		return c.item.MapStringTop(c.rng, c.cap, top, count)
	}
	pickOf := func(mv *data_model.MultiValue) string { return b2s(mv.Value.MaxCounterHostTag == host) }
	switch e.kind {
	case 'c': // Shard.ApplyCounter
		c.kinds["c"] = true
		h.Stat("ev.counter", 1)
		var mv *data_model.MultiValue
		if e.count > 0 {
			mv = target(e.count)
			mv.AddCounterHost(c.rng, e.count, host)
		}
		c.finishEvent(mv, key, fmt.Sprintf("ev c %s %s %s", tagStr(top), q(e.count), tagStr(host)), pickOf, "")
	case 'v': // Shard.ApplyValues
		total := float64(len(e.vals))
		for _, kv := range e.hist {
			total += kv[1]
		}
		count := e.count
		if count == 0 {
			count = total
		}
		c.kinds["v"] = true
		if len(e.hist) > 0 {
			c.kinds["h"] = true
			h.Stat("ev.histogram", 1)
		} else {
			h.Stat("ev.value", 1)
		}
		if e.count != 0 && e.count != total {
			h.Stat("ev.value.rescaled", 1)
		}
		var mv *data_model.MultiValue
		if count > 0 {
			mv = target(count)
			if c.legacy { // Shard.ApplyValues with config.LegacyApplyValues
				mv.ApplyValuesLegacy(c.rng, e.hist, e.vals, count, total, host, agentCompression, c.hasPct)
				h.Stat("ev.legacy-values", 1)
			} else {
				mv.ApplyValues(c.rng, e.hist, e.vals, count, total, host, agentCompression, c.hasPct)
			}
		}
		vs := make([]string, len(e.vals))
		for i, v := range e.vals {
			vs[i] = q(v)
		}
		hs := make([]string, len(e.hist))
		for i, kv := range e.hist {
			hs[i] = q(kv[0]) + ":" + q(kv[1])
		}
		opKind := "v"
		if c.legacy {
			opKind = "l"
		}
		c.finishEvent(mv, key, fmt.Sprintf("ev %s %s %s %s %s %s", opKind, tagStr(top), q(e.count), verifx.List(vs), verifx.List(hs), tagStr(host)), pickOf, b2s(c.hasPct))
	case 'p': // Shard.AddValueCounterHost (built-in metrics)
		c.kinds["v"] = true
		h.Stat("ev.value1", 1)
		mv := target(e.count)
		if c.hasPct {
			mv.AddValueCounterHostPercentile(c.rng, e.value, e.count, host, agentCompression)
		} else {
			mv.AddValueCounterHost(c.rng, e.value, e.count, host)
		}
		c.finishEvent(mv, key, fmt.Sprintf("ev p %s %s %s %s", tagStr(top), q(e.value), q(e.count), tagStr(host)), pickOf, b2s(c.hasPct))
	case 'u': // Shard.ApplyUnique
		var hs []string
		for _, x := range e.hashes {
			hs = append(hs, fmt.Sprintf("%s:%d", q(float64(x)), data_model.VerifC02Hash32(uint64(x))))
		}
		count := e.count
		if count == 0 {
			count = float64(len(e.hashes))
		}
		c.kinds["u"] = true
		h.Stat("ev.unique", 1)
		var mv *data_model.MultiValue
		if count > 0 {
			mv = target(count)
			mv.ApplyUnique(c.rng, e.hashes, count, host)
		}
		c.finishEvent(mv, key, fmt.Sprintf("ev u %s %s %s %s", tagStr(top), q(e.count), verifx.List(hs), tagStr(host)), pickOf, "")
	}
}

func (c *caseCtx) finishEvent(mv *data_model.MultiValue, key tag, op string, pickOf func(*data_model.MultiValue) string, pct string) {
	pick := "0"
	if mv != nil {
		pick = pickOf(mv)
	}
	draws := c.drawSuffix(key, mv != nil)
	if pct != "" {
		c.h.Op("%s %s %s %s", op, pick, pct, draws)
	} else {
		c.h.Op("%s %s %s", op, pick, draws)
	}
	if mv == nil { // event dropped by the Shard.Apply* guard: show the (unchanged) target, if any
		if key.Empty() {
			mv = &c.item.Tail
		} else if m, ok := c.item.Top[key]; ok {
			mv = m
		} else {
			mv = &data_model.MultiValue{}
		}
	}
	c.h.Obs("%s", mvStr(true, "mv "+tagStr(key), mv))
}

// ---------------------------------------------------------------- TL rendering (aggregator side view of the wire item)

func hll(b []byte) string {
	var ch data_model.ChUnique
	if err := ch.MergeRead(bytes.NewBuffer(b)); err != nil {
		return "err"
	}
	items, _ := data_model.VerifC02UniqueItems(&ch)
	return verifx.List(items)
}

func tlValueStr(name string, v *tlstatshouse.MultiValueBytes, fm uint32) string {
	var cm, cw []float64
	for _, c := range v.Centroids {
		cm = append(cm, float64(c.Value))
		cw = append(cw, float64(c.Count))
	}
	return fmt.Sprintf("tl val %s c=%s eq1=%s vs=%s min=%s max=%s sum=%s sq=%s uq=%s cents=%s imp=%s hmaxI=%s hminI=%s hcntI=%s hmaxS=%s hminS=%s hcntS=%s",
		name, opt(v.IsSetCounter(fm), q(v.Counter)), b2s(v.IsSetCounterEq1(fm)), b2s(v.IsSetValueSet(fm)), opt(v.IsSetValueMin(fm), q(v.ValueMin)),
		opt(v.IsSetValueMax(fm), q(v.ValueMax)), q(v.ValueSum), sqStr(v.ValueMin, v.ValueMax, v.ValueSumSquare), opt(v.IsSetUniques(fm), hll(v.Uniques)),
		opt(v.IsSetCentroids(fm), centsStr(cm, cw)), b2s(v.IsSetImplicitCentroid(fm)),
		opt(v.IsSetMaxHostTag(fm), fmt.Sprint(v.MaxHostTag)), opt(v.IsSetMinHostTag(fm), fmt.Sprint(v.MinHostTag)), opt(v.IsSetMaxCounterHostTag(fm), fmt.Sprint(v.MaxCounterHostTag)),
		opt(v.IsSetMaxHostStag(fm), string(v.MaxHostStag)), opt(v.IsSetMinHostStag(fm), string(v.MinHostStag)), opt(v.IsSetMaxCounterHostStag(fm), string(v.MaxCounterHostStag)))
}

func sparseInts(xs []int32) string {
	var ss []string
	for i, x := range xs {
		if x != 0 {
			ss = append(ss, fmt.Sprintf("%d:%d", i, x))
		}
	}
	return verifx.List(ss)
}

func sparseStrs(xs []string) string {
	var ss []string
	for i, x := range xs {
		if x != "" {
			ss = append(ss, fmt.Sprintf("%d:%s", i, x))
		}
	}
	return verifx.List(ss)
}

func keyStr(k *data_model.Key) string {
	return fmt.Sprintf("ts=%d metric=%d tags=%s stags=%s", k.Timestamp, k.Metric, sparseInts(k.Tags[:]), sparseStrs(k.STags[:]))
}

// noMergeSafe: sufficient condition (with margin) that a t-digest of the given compression keeps these centroids apart:
// merging two neighbours needs k(q2)-k(q0) <= 1 and dk/dq >= 2*compression/pi everywhere.
func noMergeSafe(means, ws []float64, compression float64) bool {
	if len(ws) <= 1 {
		return true
	}
	idx := make([]int, len(ws))
	for i := range idx {
		idx[i] = i
	}
	sort.SliceStable(idx, func(a, b int) bool { return means[idx[a]] < means[idx[b]] })
	total := 0.0
	for _, w := range ws {
		total += w
	}
	// equal means may be ordered arbitrarily by sort.Sort: require the bound for every pair of centroids, not only neighbours
	min1, min2 := math.Inf(1), math.Inf(1)
	for _, w := range ws {
		if w < min1 {
			min1, min2 = w, min1
		} else if w < min2 {
			min2 = w
		}
	}
	return (min1+min2)/total*(2*compression/math.Pi) > 1.5
}

// ---------------------------------------------------------------- one case

func genCase(h *verifx.H, r *verifx.Rng) caseSpec {
	sp := caseSpec{}
	sp.hasPct = r.Chance(2, 5)
	sp.noSample = r.Chance(3, 4)
	key := data_model.Key{Metric: int32(100 + r.Intn(1000))}
	tsKind := r.Pick(10, 4, 2, 2, 1, 1, 1, 1)
	switch tsKind {
	case 0:
		key.Timestamp = bucketTs
	case 1:
		key.Timestamp = bucketTs - uint32(r.Range(1, 5000))
	case 2:
		key.Timestamp = bucketTs - data_model.BelieveTimestampWindow
	case 3:
		key.Timestamp = bucketTs - data_model.BelieveTimestampWindow - 1
	case 4:
		key.Timestamp = bucketTs + 1
	case 5:
		key.Timestamp = 0
	case 6:
		key.Timestamp = bucketTs - data_model.BelieveTimestampWindow - uint32(r.Range(2, 100000))
	case 7:
		key.Timestamp = bucketTs + uint32(r.Range(2, 1000))
	}
	h.Stat(fmt.Sprintf("key.ts.kind%d", tsKind), 1)
	ntags := r.Pick(2, 4, 3, 1)
	for i := 0; i < ntags; i++ {
		idx := []int{0, 1, 2, 5, 15, 16, 46, 47}[r.Intn(8)]
		key.Tags[idx] = int32(r.Range(-3, 1000))
	}
	nstags := r.Pick(5, 3, 1)
	for i := 0; i < nstags; i++ {
		idx := []int{0, 1, 3, 16, 46, 47}[r.Intn(6)]
		if key.Tags[idx] == 0 { // a key position holds a mapped int or a string, never both (Key.SetTagUnion)
			key.STags[idx] = []string{"a", "bc", "x1", ""}[r.Intn(4)]
		}
	}
	sp.key = key
	base := float64(r.Range(-5, 12))
	nev := r.Range(1, 6)
	topNum := []int{0, 2, 4}[r.Pick(2, 3, 3)] // rows without string tops, with a few, with many
	sp.cap = 100
	if r.Chance(1, 3) { // small string-top capacity: MapStringTop resamples
		sp.cap = 3
		topNum = 4
		nev = r.Range(3, 8)
	}
	sp.legacy = r.Chance(1, 4)
	for i := 0; i < nev; i++ {
		// zero-hash unique values are ~5e8..2.4e9: not representable in the float32 centroids of percentile rows
		sp.events = append(sp.events, genEvent(r, base, topNum, !sp.hasPct))
	}
	// at most two events of a row carry a zero-hash value ALONE (k * fl(x^2) stays exact for k <= 2, so the agent's
	// `sumsq == sum*min` test agrees with exact arithmetic); further ones get a small companion value (min != max)
	alone := 0
	for i := range sp.events {
		if sp.events[i].zero && len(sp.events[i].hashes) == 1 {
			alone++
			if alone > 2 {
				sp.events[i].hashes = append(sp.events[i].hashes, 3)
			}
		}
	}
	if sp.legacy && r.Bool() {
		// legacy percentile path: rows whose values are all identical (0 or base) still own a digest
		v0 := []float64{0, 0, base}[r.Intn(3)]
		for i := range sp.events {
			for j := range sp.events[i].vals {
				sp.events[i].vals[j] = v0
			}
			for j := range sp.events[i].hist {
				sp.events[i].hist[j][0] = v0
			}
		}
	}
	if sp.cap < 100 || !sp.noSample {
		// entries may be folded into Tail (resample / FinishStringTop) in an unobservable order: one host tag per row
		// makes the result independent of that order
		host := hostPool[r.Intn(len(hostPool))]
		for i := range sp.events {
			sp.events[i].host = host
		}
	}
	sp.sf = sfPool[r.Intn(len(sfPool))]
	sp.aggHost = []tag{{I: 1000}, {I: 1000}, {S: "agenthost"}}[r.Intn(3)]
	return sp
}

// siblingPatterns: positions (a for the first row, b for the second; -1 = value not used) of the same string-tag values
var siblingPatterns = []struct {
	vals [2]string
	a, b [2]int
}{
	{[2]string{"a", "x1"}, [2]int{1, 3}, [2]int{2, 3}},    // gap moves, last set position unchanged
	{[2]string{"a", "x1"}, [2]int{1, 5}, [2]int{1, 4}},    // last one shifted down
	{[2]string{"a", ""}, [2]int{0, -1}, [2]int{1, -1}},    // single value, first slot vs second
	{[2]string{"x1", ""}, [2]int{46, -1}, [2]int{47, -1}}, // last array slots
	{[2]string{"bc", "a"}, [2]int{0, 2}, [2]int{1, 2}},    // "bc" is mapped by the aggregator: moves into Tags[0] vs Tags[1]
	{[2]string{"a", "a"}, [2]int{2, 3}, [2]int{2, 4}},     // equal values
}

// corpus: minimised past failures (run first by checks/C02.py with -mode=corpus)
func corpus() [][]caseSpec {
	k := func(metric int32) data_model.Key { return data_model.Key{Metric: metric, Timestamp: bucketTs} }
	ks := func(metric int32, i, j int) data_model.Key {
		key := data_model.Key{Metric: metric, Timestamp: bucketTs}
		key.STags[i], key.STags[j] = "a", "x1"
		return key
	}
	val := func(top tag, v float64) evSpec { return evSpec{kind: 'v', top: top, vals: []float64{v}} }
	return [][]caseSpec{
		// F1: one counter-only event + one value event 7: compact form dropped the sum, aggregator derived 7*2
		{{key: k(101), noSample: true, sf: 1, aggHost: tag{I: 1000}, events: []evSpec{{kind: 'c', count: 1}, {kind: 'v', vals: []float64{7}}}}},
		// F1 with a sample factor and inside a string-top entry
		{{key: k(102), noSample: true, sf: 3, aggHost: tag{I: 1000}, events: []evSpec{{kind: 'v', top: tag{S: "x"}, vals: []float64{5, 5}}, {kind: 'c', top: tag{S: "x"}, count: 2}}}},
		// a value event whose counter is larger than the number of values is NOT a defect (sum is rescaled): stays compact
		{{key: k(103), noSample: true, sf: 2, aggHost: tag{I: 1000}, events: []evSpec{{kind: 'v', vals: []float64{7}, count: 4}}}},
		// F12: min value without host tag, max value with host tag 9: min host (and counter host) arrived as 9
		{{key: k(104), noSample: true, sf: 1, aggHost: tag{I: 1000}, events: []evSpec{{kind: 'v', vals: []float64{3}}, {kind: 'v', vals: []float64{5}, host: tag{I: 9}}}}},
		// F12 with a string host and the sampler path (NoSampleAgent = false)
		{{key: k(105), noSample: false, sf: 1, aggHost: tag{S: "agenthost"}, events: []evSpec{{kind: 'v', vals: []float64{5}, host: tag{S: "hosta"}}, {kind: 'c', count: 1}, {kind: 'v', vals: []float64{3}}}}},
		// seeded C02-3 shape: two rows with two string tops each in ONE bucket (keepF must not share the TopElement slice)
		{{key: k(201), noSample: true, sf: 1, aggHost: tag{I: 1000}, events: []evSpec{val(tag{S: "a"}, 1), val(tag{S: "b"}, 2)}},
			{key: k(202), noSample: true, sf: 2, aggHost: tag{I: 1000}, events: []evSpec{val(tag{S: "c"}, 3), val(tag{I: 4}, 4)}}},
		// the same through the sampler (rows kept in metric order): 2 tops, then 1 top (fits the capacity), then none
		{{key: k(301), sf: 1, aggHost: tag{I: 1000}, events: []evSpec{val(tag{S: "a"}, 1), val(tag{S: "b"}, 2), {kind: 'c', count: 1}}},
			{key: k(302), sf: 1, aggHost: tag{I: 1000}, events: []evSpec{val(tag{S: "c"}, 3)}},
			{key: k(303), sf: 1, aggHost: tag{I: 1000}, events: []evSpec{val(tag{}, 5)}}},
		// string-top capacity 3, four distinct keys: MapStringTop resamples and folds evicted entries into Tail
		{{key: k(401), noSample: true, sf: 2, cap: 3, aggHost: tag{I: 1000}, events: []evSpec{val(tag{S: "a"}, 1), val(tag{S: "b"}, 2), val(tag{S: "c"}, 3), val(tag{S: "d"}, 4), val(tag{S: "e"}, 5)}}},
		// two rows that differ only in the POSITION of equal string-tag values must stay two rows (seeded C02-r5-1 shape),
		// and their string-top keys must not alias the receive buffer (seeded C02-r5-2 shape)
		{{key: ks(404, 1, 3), noSample: true, sf: 1, aggHost: tag{I: 1000}, events: []evSpec{val(tag{S: "checkout"}, 1), val(tag{}, 2)}},
			{key: ks(404, 2, 3), noSample: true, sf: 1, aggHost: tag{I: 1000}, events: []evSpec{val(tag{S: "eu"}, 3), val(tag{}, 4)}}},
		// a row whose only unique value hashes to 0 (seeded C02-r6-1 shape), and one mixing it with other values
		{{key: k(405), noSample: true, sf: 1, aggHost: tag{I: 1000}, events: []evSpec{{kind: 'u', hashes: []int64{528038771}}}},
			{key: k(406), noSample: true, sf: 2, aggHost: tag{I: 1000}, events: []evSpec{{kind: 'u', hashes: []int64{528038771, 5, 7}}, {kind: 'u', top: tag{S: "a"}, hashes: []int64{1530889310}}}}},
		// legacy percentile path: all values 0 (the row owns a digest) plus counter-only events (seeded C02-r6-2 shape)
		{{key: k(407), noSample: true, sf: 2, hasPct: true, legacy: true, aggHost: tag{I: 1000}, events: []evSpec{{kind: 'v', vals: []float64{0}}, {kind: 'c', count: 2}}},
			{key: k(408), noSample: true, sf: 3, hasPct: true, legacy: true, aggHost: tag{I: 1000}, events: []evSpec{{kind: 'c', count: 1}, {kind: 'v', vals: []float64{5, 5}}, {kind: 'v', hist: [][2]float64{{5, 2}}}}}},
		// raw int32 string-top keys incl. negative ones next to a string key: every key must arrive as itself (seeded C02-r4-2 shape)
		{{key: k(403), noSample: true, sf: 2, aggHost: tag{I: 1000}, events: []evSpec{val(tag{I: -1}, 1), val(tag{I: math.MinInt32}, 2), val(tag{S: "a"}, 3), val(tag{}, 4)}}},
		// sampler path, five string tops, StringTopCountSend = 3: FinishStringTop folds the two smallest into Tail
		{{key: k(402), sf: 1, aggHost: tag{I: 1000}, events: []evSpec{val(tag{S: "a"}, 1), {kind: 'v', top: tag{S: "b"}, vals: []float64{2, 2}}, {kind: 'v', top: tag{S: "c"}, vals: []float64{3, 3, 3}},
			{kind: 'v', top: tag{S: "d"}, vals: []float64{4, 4, 4, 4}}, {kind: 'v', top: tag{S: "e"}, vals: []float64{5, 5, 5, 5, 5}}}}},
	}
}

// rowRun is one row of the bucket: built in phase 1, looked up in the decoded bucket and merged in phase 3
type rowRun struct {
	sp       caseSpec
	key      data_model.Key
	item     *data_model.MultiItem
	kinds    map[string]bool
	tailSnap snap
	topSnap  map[tag]snap
	topKeys  []tag
	centOps  []string
	// Top keys before sampleBucket (its FinishStringTop may fold some into Tail)
	keysBefore map[tag]bool
	finOp      string
}

// snapshotSent records the row as it is after sampleBucket (= as keepF saw it: FinishStringTop already applied): the
// oracle's reference, the centroids each digest reports, and what FinishStringTop folded into Tail.
func (rr *rowRun) snapshotSent(stringTopCountSend int) {
	item := rr.item
	rr.tailSnap = takeSnap(&item.Tail)
	rr.topSnap = map[tag]snap{}
	if item.Tail.ValueTDigest != nil {
		rr.centOps = append(rr.centOps, fmt.Sprintf("cents - %s", viewDigest(&item.Tail).str(true)))
	}
	for k := range item.Top {
		rr.topKeys = append(rr.topKeys, k)
	}
	sort.Slice(rr.topKeys, func(i, j int) bool { return tagStr(rr.topKeys[i]) < tagStr(rr.topKeys[j]) })
	for _, k := range rr.topKeys {
		mv := item.Top[k]
		rr.topSnap[k] = takeSnap(mv)
		if mv.ValueTDigest != nil {
			rr.centOps = append(rr.centOps, fmt.Sprintf("cents %s %s", tagStr(k), viewDigest(mv).str(true)))
		}
	}
	if !rr.sp.noSample { // sampler path: FinishStringTop(rnd, config.StringTopCountSend) ran
		folded := map[tag]bool{}
		for k := range rr.keysBefore {
			if _, ok := item.Top[k]; !ok {
				folded[k] = true
			}
		}
		rr.finOp = fmt.Sprintf("fin %d %s", stringTopCountSend, verifx.List(sortedTags(folded)))
	}
}

// runBucket: phase 1 builds every row of the bucket with the real API; phase 2 runs the real sampleBucket ONCE over the
// whole bucket and serialises the SourceBucket3 only after all rows were kept (as preProcess does), then reads it back;
// phase 3 merges every decoded row on the aggregator side.  The model treats the rows independently.
func runBucket(h *verifx.H, r *verifx.Rng, sh *agent.VerifC02Shard, agg *aggregator.VerifC02Agg, specs []caseSpec) {
	rng := rand.New(r.U64())
	bucket := &data_model.MetricsBucket{Time: bucketTs}
	rows := make([]*rowRun, 0, len(specs))
	withTops := 0
	for _, sp := range specs {
		if sp.cap == 0 {
			sp.cap = 100
		}
		c := &caseCtx{h: h, rng: rng, kinds: map[string]bool{}, hasPct: sp.hasPct, cap: sp.cap, legacy: sp.legacy}
		key := sp.key
		meta := &format.MetricMetaValue{MetricID: key.Metric, NoSampleAgent: sp.noSample, HasPercentiles: sp.hasPct,
			EffectiveResolution: 1, EffectiveWeight: 1}
		h.Op("key %d %d %d %s %s", key.Metric, key.Timestamp, bucketTs, sparseInts(key.Tags[:]), sparseStrs(key.STags[:]))
		h.Obs("key %s", keyStr(&key))
		h.Obs("%s", marshalledStr(&key))
		item, created := bucket.GetOrCreateMultiItem(&key, meta, nil)
		if !created {
			h.Viol("rows-merged-distinct-keys", "agent bucket: key {%s} got the MultiItem of an earlier, different key of this bucket", keyStr(&key))
		}
		c.item = item
		for _, e := range sp.events {
			c.applyEvent(e)
		}
		rr := &rowRun{sp: sp, key: key, item: item, kinds: c.kinds, keysBefore: topKeySet(item)}
		if len(item.Top) > 0 {
			withTops++
		}
		item.SF = sp.sf
		if !sp.noSample {
			item.SF = 1 // decided by the sampler; read back below
		}
		rows = append(rows, rr)
	}
	h.Stat(fmt.Sprintf("bucket.rows%d", len(rows)), 1)
	h.Stat(fmt.Sprintf("bucket.rows-with-tops%d", withTops), 1)
	if withTops >= 2 {
		h.NonTrivial("bucket-with-several-top-rows")
	}
	// ---- send: the real sampleBucket (keepF) over the whole bucket, then the real TL bytes
	sb := sh.VerifC02SampleBucket(bucket, rng)
	for _, rr := range rows {
		rr.snapshotSent(stringTopCountSend)
	}
	wire := sb.WriteTL1Boxed(nil)
	var rb tlstatshouse.SourceBucket3Bytes
	if _, err := rb.ReadTL1Boxed(wire); err != nil {
		h.Obs("tl read-error")
		return
	}
	bySig := map[string][]*tlstatshouse.MultiItemBytes{}
	for i := range rb.Metrics {
		it := &rb.Metrics[i]
		sk := make([]string, len(it.Skeys))
		for j, b := range it.Skeys {
			sk[j] = string(b)
		}
		sig := tlSig(it.Metric, it.Keys, sk)
		bySig[sig] = append(bySig[sig], it)
	}
	if len(rb.Metrics) != len(rows) {
		h.Viol("agg-row-count", "bucket of %d rows arrived with %d rows", len(rows), len(rb.Metrics))
	}
	// ---- aggregator: the REAL handleSendSourceBucket gets the bucket decoded into the reused receive buffer
	if _, err := recvBuf.ReadTL1Boxed(wire); err != nil {
		h.Obs("tl read-error")
		return
	}
	hostName := "agenthost"
	ctx := &bucketCtx{aggHost: tag{S: hostName}, aggRows: map[data_model.Key][]*data_model.MultiItem{}, aggPerMetric: map[int32]int{}, agentMetric: map[int32]int{}}
	if specs[0].aggHost.I != 0 {
		hostName = "agentmapped"
		ctx.aggHost = tag{I: mappings[hostName]}
	}
	res := agg.Receive(bucketTs, hostName, recvBuf)
	if res.Err != nil || !res.Longpoll {
		h.Viol("agg-handler", "handleSendSourceBucket refused a valid bucket: warning=%q err=%v discard=%v", res.Warning, res.Err, res.Discard)
		return
	}
	// string-top keys held by the aggregator right after the handler returned (copied out)
	type topKeys struct {
		mi   *data_model.MultiItem
		keys []string
	}
	var held []topKeys
	for _, mi := range res.Rows {
		tk := topKeys{mi: mi}
		for k := range mi.Top {
			tk.keys = append(tk.keys, fmt.Sprintf("%d/%s", k.I, string([]byte(k.S))))
		}
		sort.Strings(tk.keys)
		held = append(held, tk)
	}
	// overwrite the receive buffer in place: the same bucket with every string-top tag replaced by Z's of the same length
	for i := range sb.Metrics {
		for j := range sb.Metrics[i].Top {
			sb.Metrics[i].Top[j].Stag = strings.Repeat("Z", len(sb.Metrics[i].Top[j].Stag))
		}
	}
	if _, err := recvBuf.ReadTL1Boxed(sb.WriteTL1Boxed(nil)); err != nil {
		panic(err)
	}
	for _, tk := range held {
		var now []string
		for k := range tk.mi.Top {
			now = append(now, fmt.Sprintf("%d/%s", k.I, k.S))
		}
		sort.Strings(now)
		if fmt.Sprint(now) != fmt.Sprint(tk.keys) {
			h.Viol("top-key-aliases-receive-buffer", "aggregator row of metric %d: string-top keys %v became %v after the receive buffer was reused", tk.mi.Key.Metric, tk.keys, now)
		}
	}
	for _, mi := range res.Rows {
		ctx.aggRows[mi.Key] = append(ctx.aggRows[mi.Key], mi)
		ctx.aggPerMetric[mi.Key.Metric]++
	}
	for _, rr := range rows {
		ctx.agentMetric[rr.key.Metric]++
	}
	for i, rr := range rows {
		h.Op("sel %d", i)
		if rr.finOp != "" {
			h.Op("%s", rr.finOp)
			h.Obs("fin tops=%d", len(rr.item.Top))
			if len(rr.keysBefore) > len(rr.item.Top) {
				h.Stat("agent.finish-folded", int64(len(rr.keysBefore)-len(rr.item.Top)))
				h.NonTrivial("finish-folded")
			}
		}
		for _, op := range rr.centOps {
			h.Op("%s", op)
		}
		items := bySig[tlSig(rr.key.Metric, rr.key.TagSlice(), rr.key.STagSlice())]
		if len(items) != 1 {
			h.Viol("agg-row-count", "row {%s} is %d times on the wire", keyStr(&rr.key), len(items))
			continue
		}
		mergeRow(h, rng, rr, items[0], ctx)
	}
}

func mergeRow(h *verifx.H, rng *rand.Rand, rr *rowRun, it *tlstatshouse.MultiItemBytes, ctx *bucketCtx) {
	sp, key, item := rr.sp, rr.key, rr.item
	tailSnap, topSnap, topKeys := rr.tailSnap, rr.topSnap, rr.topKeys
	c := &caseCtx{h: h, rng: rng, kinds: rr.kinds, hasPct: sp.hasPct}
	sf := item.SF
	h.Stat("sf."+q(sf), 1)
	h.Op("send %s %s", q(sf), b2s(c.hasPct))
	skeys := make([]string, len(it.Skeys))
	for i, s := range it.Skeys {
		skeys[i] = string(s)
	}
	h.Obs("tl key metric=%d keys=%s skeys=%s t=%s top=%s", it.Metric, verifx.List(it.Keys), opt(it.IsSetSkeys(), verifx.List(skeys)),
		opt(it.IsSetT(), fmt.Sprint(it.T)), opt(it.IsSetTop(), fmt.Sprint(len(it.Top))))
	h.Obs("%s", tlValueStr("tail", &it.Tail, it.FieldsMask))
	var topLines []string
	cmpc := true
	check := func(v *tlstatshouse.MultiValueBytes) {
		var cm, cw []float64
		for _, c := range v.Centroids {
			cm = append(cm, float64(c.Value))
			cw = append(cw, float64(c.Count))
		}
		if !noMergeSafe(cm, cw, data_model.AggregatorPercentileCompression) {
			cmpc = false
		}
	}
	check(&it.Tail)
	for i := range it.Top {
		e := &it.Top[i]
		topLines = append(topLines, tlValueStr(tagStr(tag{I: e.Tag, S: string(e.Stag)}), &e.Value, e.FieldsMask))
		check(&e.Value)
	}
	sort.Strings(topLines)
	for _, l := range topLines {
		h.Obs("%s", l)
	}
	m := it.FieldsMask
	if it.Tail.IsSetValueSet(m) && !it.Tail.IsSetValueMax(m) {
		h.Stat("tl.compact", 1)
	}
	if it.Tail.IsSetValueMax(m) {
		h.Stat("tl.full", 1)
	}
	if it.Tail.IsSetCentroids(m) {
		h.Stat("tl.centroids", 1)
	}
	if it.Tail.IsSetImplicitCentroid(m) {
		h.Stat("tl.implicit", 1)
	}
	if it.Tail.IsSetUniques(m) {
		h.Stat("tl.uniques", 1)
	}
	if it.IsSetTop() {
		h.Stat("tl.top", 1)
	}
	if it.IsSetT() {
		h.Stat("tl.t", 1)
	}
	if !cmpc {
		h.Stat("agg.digest-by-weight-only", 1)
	}
	// ---- aggregator: the row the REAL handleSendSourceBucket left in its aggregatorBucket for this metric
	aggHost := ctx.aggHost
	h.Op("merge %s %s %s", tagStr(aggHost), b2s(cmpc), mappingsStr)
	_, warn := data_model.KeyFromStatshouseMultiItem(it, bucketTs) // pure function; only the warning is taken from this call
	w := 0
	switch warn {
	case 0:
	case format.TagValueIDSrcIngestionStatusWarnTimestampClampedFutureAgg:
		w = 1
	case format.TagValueIDSrcIngestionStatusWarnTimestampClampedPast:
		w = 2
	default:
		w = 9
	}
	want := wantKey(key)
	mis := ctx.aggRows[want]
	if len(mis) != 1 {
		h.Obs("agg rows=%d", len(mis))
		if ctx.aggPerMetric[key.Metric] < ctx.agentMetric[key.Metric] {
			h.Viol("rows-merged-distinct-keys", "agent sent %d distinct keys of metric %d, the aggregator holds %d rows; no row for key {%s}",
				ctx.agentMetric[key.Metric], key.Metric, ctx.aggPerMetric[key.Metric], keyStr(&key))
		} else {
			h.Viol("agg-key", "agent key {%s} is held %d times by the aggregator bucket", keyStr(&key), len(mis))
		}
		return
	}
	mi := mis[0]
	h.Obs("agg key %s warn=%d", keyStr(&mi.Key), w)
	h.Obs("%s", mvStr(cmpc, "agg tail", &mi.Tail))
	var aggLines []string
	for tk, tv := range mi.Top {
		aggLines = append(aggLines, mvStr(cmpc, "agg "+tagStr(tk), tv))
	}
	sort.Strings(aggLines)
	for _, l := range aggLines {
		h.Obs("%s", l)
	}
	// ---- non-triviality (DESIGN appendix C): >= 2 event kinds, or the compact form on the wire
	if len(c.kinds) >= 2 {
		h.NonTrivial("mixed-kinds")
	}
	if it.Tail.IsSetValueSet(m) && !it.Tail.IsSetValueMax(m) {
		h.NonTrivial("compact-form")
	}
	// ---- direct oracle: aggregator row == sf x agent row (strings the aggregator has a mapping for replaced by their ids)
	o := &oracle{h: h, sf: sf, host: aggHost, hasPct: c.hasPct}
	if mi.Key != want {
		h.Viol("agg-key", "agent key {%s} arrived as {%s}", keyStr(&key), keyStr(&mi.Key))
	}
	if !(key.Timestamp != 0 && key.Timestamp <= bucketTs && bucketTs-key.Timestamp <= data_model.BelieveTimestampWindow) {
		h.Stat("oracle.key-outside-window", 1)
	}
	if len(mi.Top) != len(topSnap) {
		h.Viol("agg-top-keys", "agent has %d string-top keys, aggregator %d", len(topSnap), len(mi.Top))
	}
	o.compare("tail", tailSnap, &mi.Tail)
	for _, tk := range topKeys {
		tv, ok := mi.Top[mapTag(tk)]
		if !ok {
			h.Viol("agg-top-keys", "string-top key %s missing on the aggregator", tagStr(tk))
			continue
		}
		o.compare(tagStr(tk), topSnap[tk], tv)
	}
}

// marshalledStr renders Key.MarshalAppend (the identity of the row in MultiItemMap): fixed-width fields decoded back to
// numbers, the string-tag section as raw bytes.
func marshalledStr(k *data_model.Key) string {
	_, b := k.MarshalAppend(nil)
	n := int(b[8])
	tags := make([]int32, n)
	for i := range tags {
		tags[i] = int32(binary.LittleEndian.Uint32(b[9+4*i:]))
	}
	return fmt.Sprintf("mk ts=%d metric=%d tags=%s sb=%s", binary.LittleEndian.Uint32(b[0:]), int32(binary.LittleEndian.Uint32(b[4:])),
		verifx.List(tags), verifx.Hex(b[9+4*n:]))
}

// tlSig identifies a row on the wire: metric, trimmed int tags and trimmed string tags WITH their positions.
func tlSig(metric int32, keys []int32, skeys []string) string {
	return fmt.Sprintf("%d|%v|%q", metric, keys, skeys)
}

// wantKey: the key the aggregator must hold for the agent key: mapped string tags moved into the int tag of the same
// position; a timestamp that is unset or outside the believe window arrives as the bucket time (ts_clamps).
func wantKey(key data_model.Key) data_model.Key {
	want := key
	for i := range want.STags {
		if m, ok := mappings[want.STags[i]]; ok && want.STags[i] != "" {
			want.Tags[i] = m
			want.STags[i] = ""
		}
	}
	if !(key.Timestamp != 0 && key.Timestamp <= bucketTs && bucketTs-key.Timestamp <= data_model.BelieveTimestampWindow) {
		want.Timestamp = bucketTs
	}
	return want
}

// recvBuf is the ONE SourceBucket3Bytes every bucket is decoded into before it is handed to the handler, as a receive
// loop reusing its request struct would do; after the handler returned, the buffers are overwritten (poisoned) before the
// aggregator rows are read back: nothing the aggregator keeps may alias the receive buffer.
var recvBuf tlstatshouse.SourceBucket3Bytes

// mappings: the string -> int32 pairs the aggregator knows.  hostb -> 7 collides on purpose with the int host tag 7.
var mappings = map[string]int32{"agentmapped": 1000, "hostb": 7, "bc": 41, "yy": 77}

const mappingsStr = "agentmapped:1000,bc:41,hostb:7,yy:77"

func mapTag(t tag) tag {
	if t.I == 0 && t.S != "" {
		if m, ok := mappings[t.S]; ok {
			return tag{I: m}
		}
	}
	return t
}

type bucketCtx struct {
	aggHost      tag
	aggRows      map[data_model.Key][]*data_model.MultiItem
	aggPerMetric map[int32]int
	agentMetric  map[int32]int
}

type oracle struct {
	h      *verifx.H
	sf     float64
	host   tag
	hasPct bool
}

func (o *oracle) sub(t tag) tag {
	if t.Empty() {
		return o.host
	}
	return mapTag(t)
}

func (o *oracle) scaled(x float64) *big.Rat { return new(big.Rat).Mul(rat(x), rat(o.sf)) }

func (o *oracle) compare(name string, a snap, g *data_model.MultiValue) {
	h := o.h
	v := &g.Value
	if rat(v.Count()).Cmp(o.scaled(a.cnt)) != 0 {
		h.Viol("agg-count", "%s: count %s x sf %s arrived as %s", name, q(a.cnt), q(o.sf), q(v.Count()))
	}
	if a.cnt > 0 && v.MaxCounterHostTag != o.sub(a.hcnt) {
		h.Viol("agg-host-maxcount", "%s: max-count host %s (agent host %s) arrived as %s; agent max host %s", name, tagStr(a.hcnt), tagStr(o.host), tagStr(v.MaxCounterHostTag), tagStr(a.hmax))
	}
	if v.ValueSet != (a.vset && a.cnt > 0) {
		h.Viol("agg-valueset", "%s: value-set %v arrived as %v", name, a.vset, v.ValueSet)
	}
	if a.vset && a.cnt > 0 && v.ValueSet {
		if v.ValueMin != a.min || v.ValueMax != a.max {
			h.Viol("agg-minmax", "%s: min/max %s/%s arrived as %s/%s", name, q(a.min), q(a.max), q(v.ValueMin), q(v.ValueMax))
		}
		if rat(v.ValueSum).Cmp(o.scaled(a.sum)) != 0 {
			h.Viol("agg-sum", "%s: sum %s x sf %s arrived as %s (count %s min %s max %s)", name, q(a.sum), q(o.sf), q(v.ValueSum), q(a.cnt), q(a.min), q(a.max))
		}
		if outsideExact(a.min, a.max) {
			h.Stat("oracle.sumsq-outside-exact-domain", 1)
		} else if rat(v.ValueSumSquare).Cmp(o.scaled(a.sq)) != 0 {
			h.Viol("agg-sumsq", "%s: sum of squares %s x sf %s arrived as %s (count %s min %s max %s)", name, q(a.sq), q(o.sf), q(v.ValueSumSquare), q(a.cnt), q(a.min), q(a.max))
		}
		if v.MinHostTag != o.sub(a.hmin) {
			h.Viol("agg-host-min", "%s: min host %s (agent host %s) arrived as %s; agent max host %s", name, tagStr(a.hmin), tagStr(o.host), tagStr(v.MinHostTag), tagStr(a.hmax))
		}
		if v.MaxHostTag != o.sub(a.hmax) {
			h.Viol("agg-host-max", "%s: max host %s (agent host %s) arrived as %s", name, tagStr(a.hmax), tagStr(o.host), tagStr(v.MaxHostTag))
		}
	}
	// uniques: same set of hashes (sketches are far below the thinning limit: skipDegree 0 on both sides)
	items, sd := uniqList(g)
	if sd == 0 && a.cnt > 0 && fmt.Sprint(items) != fmt.Sprint(a.uq) {
		h.Viol("agg-uniques", "%s: unique set %v arrived as %v", name, a.uq, items)
	}
	if sd == 0 && a.cnt > 0 && g.HLL.ItemsCount() != len(a.uq) {
		h.Viol("agg-unique-count", "%s: %d unique values %v arrived as a set reporting %d items", name, len(a.uq), a.uq, g.HLL.ItemsCount())
	}
	// centroids
	gd := viewDigest(g)
	switch {
	case !o.hasPct || !a.vset || a.cnt <= 0:
		if !gd.isNil {
			h.Viol("agg-centroids", "%s: row without percentiles arrived with centroids %s", name, gd.str(true))
		}
	case !a.dg.isNil:
		var em, ew []float64
		tw := new(big.Rat)
		for i := range a.dg.means {
			em = append(em, float64(float32(a.dg.means[i])))
			ew = append(ew, a.dg.ws[i]*o.sf)
			tw.Add(tw, o.scaled(a.dg.ws[i]))
		}
		if gd.isNil {
			if len(em) != 0 {
				h.Viol("agg-centroids", "%s: centroids %s lost", name, centsStr(em, ew))
			}
			break
		}
		if "~"+tw.RatString() != gd.str(false) {
			h.Viol("centroids-weight-mismatch", "%s: total centroid weight %s x sf %s arrived as %s (centroids %s)", name, a.dg.str(false), q(o.sf), gd.str(false), gd.str(true))
		} else if noMergeSafe(em, ew, data_model.AggregatorPercentileCompression) {
			if centsStr(em, ew) != gd.str(true) {
				h.Viol("agg-centroids", "%s: centroids %s x sf %s arrived as %s", name, a.dg.str(true), q(o.sf), gd.str(true))
			}
		} else if "~"+tw.RatString() != gd.str(false) {
			h.Viol("agg-centroids", "%s: total centroid weight %s x sf %s arrived as %s", name, a.dg.str(false), q(o.sf), gd.str(false))
		}
	case a.min == a.max: // no digest on the agent = every value equal: one centroid (value, count)
		want := centsStr([]float64{a.min}, []float64{a.cnt * o.sf})
		if gd.isNil || gd.str(true) != want {
			h.Viol("agg-centroids", "%s: single value %s count %s x sf %s arrived as centroids %s", name, q(a.min), q(a.cnt), q(o.sf), gd.str(true))
		}
	default:
		// percentile metric, several distinct values but no digest on the agent (unique events / values applied while the
		// metric had no percentiles): the property does not say which centroids such a row has; not judged.
		h.Stat("oracle.centroids-unspecified", 1)
	}
}

// zeroHashValues: unique values whose 32-bit ChUnique hash is exactly 0, verified with the REAL hash function at start
// (candidates found once by brute force; a short bounded search is the fallback if the hash function changed).
var zeroHashValues []int64

func findZeroHashValues() {
	for _, c := range []int64{528038771, 1530889310, 2426526046} {
		if data_model.VerifC02Hash32(uint64(c)) == 0 {
			zeroHashValues = append(zeroHashValues, c)
		}
	}
	if len(zeroHashValues) == 0 {
		for x := int64(1); x < 1<<26 && len(zeroHashValues) == 0; x++ {
			if data_model.VerifC02Hash32(uint64(x)) == 0 {
				zeroHashValues = append(zeroHashValues, x)
			}
		}
	}
}

func main() {
	h := verifx.New()
	findZeroHashValues()
	h.Stat("gen.zero-hash-values-verified", int64(len(zeroHashValues)))
	sh := agent.VerifC02NewShard(stringTopCountSend, 100_000_000, bucketTs)
	agg, err := aggregator.VerifC02NewAgg(int32(bucketTs%3)+1, mappings)
	if err != nil {
		panic(err)
	}
	h.Cases(func(i int, r *verifx.Rng) {
		defer func() {
			if p := recover(); p != nil {
				h.Obs("panic %s", strings.ReplaceAll(fmt.Sprint(p), "\n", " "))
			}
		}()
		if h.Mode == "corpus" {
			if cs := corpus(); i < len(cs) {
				runBucket(h, r, sh, agg, cs[i])
			}
			return
		}
		n := r.Pick(2, 3, 3, 2, 1, 1) + 1 // 1..6 rows in the bucket
		specs := make([]caseSpec, n)
		for j := range specs {
			specs[j] = genCase(h, r)
			specs[j].key.Metric = int32(100 + 1000*j + r.Intn(1000))
		}
		// sibling rows: same metric, timestamp and int tags, the same ordered string-tag VALUES in different POSITIONS
		// (gaps before the last set string tag, shifted by one, first / last array slots, a mapped string)
		for j := 1; j < n; j++ {
			if !r.Chance(1, 4) {
				continue
			}
			pat := siblingPatterns[r.Intn(len(siblingPatterns))]
			base := specs[j-1].key
			for i := range base.STags {
				base.STags[i] = ""
			}
			sib := base
			for _, idx := range []int{pat.a[0], pat.a[1], pat.b[0], pat.b[1]} {
				if idx >= 0 {
					base.Tags[idx], sib.Tags[idx] = 0, 0
				}
			}
			for v, idx := range pat.a {
				if idx >= 0 {
					base.STags[idx] = pat.vals[v]
				}
			}
			for v, idx := range pat.b {
				if idx >= 0 {
					sib.STags[idx] = pat.vals[v]
				}
			}
			specs[j-1].key, specs[j].key = base, sib
			h.Stat("key.sibling-pair", 1)
			j++ // the next row must not re-pattern this one
		}
		runBucket(h, r, sh, agg, specs)
	})
	h.Done()
}
