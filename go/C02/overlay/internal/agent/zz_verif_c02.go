//go:build verif

package agent

import (
	"sync"

	"pgregory.net/rand"

	"github.com/VKCOM/statshouse/internal/data_model"
	"github.com/VKCOM/statshouse/internal/data_model/gen2/tlstatshouse"
	"github.com/VKCOM/statshouse/internal/pcache"
)

// VerifC02Shard is a Shard wired just enough (as makeAgent in agent_test.go does) to run the real
// sampleBucket, whose closure keepF assembles the tlstatshouse.MultiItem rows that go on the wire.
type VerifC02Shard struct {
	shard         *Shard
	buffers       data_model.SamplerBuffers
	scratch       []byte
	budgetScratch map[int32]uint32
	sizeScratch   map[int32]uint32
}

func VerifC02NewShard(stringTopCountSend int, sampleBudget int, nowUnix uint32) *VerifC02Shard {
	config := DefaultConfig()
	config.StringTopCountSend = stringTopCountSend
	config.SampleBudget = sampleBudget
	agent := &Agent{
		config:        config,
		logF:          func(f string, a ...any) {},
		mappingsCache: pcache.NewMappingsCache(data_model.NewChunkedStorageNop(), 1024*1024, 86400),
	}
	agent.Shards = make([]*Shard, 2)
	for i := range agent.Shards {
		shard := &Shard{
			ShardNum:    i,
			config:      config,
			agent:       agent,
			CurrentTime: nowUnix,
			SendTime:    nowUnix - 2,
		}
		for j := 0; j < superQueueLen; j++ {
			shard.SuperQueue[j] = &data_model.MetricsBucket{}
		}
		shard.cond = sync.NewCond(&shard.mu)
		agent.Shards[i] = shard
	}
	agent.initBuiltInMetrics()
	agent.shardByMetricCount = uint32(len(agent.Shards))
	s := agent.Shards[0]
	s.metricBudgetsFromAgg = data_model.NewExpDecay(config.BudgetDecayHalfLife)
	return &VerifC02Shard{shard: s, budgetScratch: map[int32]uint32{}, sizeScratch: map[int32]uint32{}}
}

// VerifC02SampleBucket runs the real (*Shard).sampleBucket on bucket and returns the SourceBucket3 it filled.
func (v *VerifC02Shard) VerifC02SampleBucket(bucket *data_model.MetricsBucket, rng *rand.Rand) tlstatshouse.SourceBucket3 {
	var sb tlstatshouse.SourceBucket3
	v.buffers, v.scratch = v.shard.sampleBucket(bucket, &sb, v.buffers, v.scratch, v.budgetScratch, v.sizeScratch, rng)
	return sb
}
