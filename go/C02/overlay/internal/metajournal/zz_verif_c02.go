//go:build verif

package metajournal

import "github.com/zeebo/xxh3"

// VerifC02AddMapping makes str -> value known to the storage (what goAddShardValues does for one pair, without the
// pending-save bookkeeping): the shard is chosen exactly as GetValue/GetValueBytes choose it.
func VerifC02AddMapping(ms *MappingsStorage, str string, value int32) {
	shard := ms.shards[int(xxh3.HashString(str)%uint64(len(ms.shards)))]
	shard.mu.Lock()
	defer shard.mu.Unlock()
	shard.mappings[str] = value
}
