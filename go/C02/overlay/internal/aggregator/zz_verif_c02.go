//go:build verif

package aggregator

// Accessor for the C02 harness: builds a minimal but REAL *Aggregator (the struct-literal fields MakeAggregator fills for
// the handler, the same recipe as go/C10's accessor), opens a recent window around the bucket time with the real
// advanceRecentBuckets and hands a SourceBucket3 to the real handleSendSourceBucket through the rpc package's mock seam
// (HandlerContext.ResetTo).  The only observation: the rows the handler left in the *aggregatorBucket it parked the request in.

import (
	"context"
	"fmt"
	"net"
	"time"

	"github.com/VKCOM/tl/pkg/rpc"

	"github.com/VKCOM/statshouse/internal/agent"
	"github.com/VKCOM/statshouse/internal/data_model"
	"github.com/VKCOM/statshouse/internal/data_model/gen2/tlstatshouse"
	"github.com/VKCOM/statshouse/internal/format"
	"github.com/VKCOM/statshouse/internal/metajournal"
)

type verifC02Conn struct {
	last  rpc.LongpollCanceller
	calls int
}

func (c *verifC02Conn) StartLongpoll(hctx *rpc.HandlerContext, canceller rpc.LongpollCanceller) (rpc.LongpollHandle, error) {
	c.last = canceller
	c.calls++
	return rpc.LongpollHandle{QueryID: int64(c.calls), CommonConn: c}, nil
}
func (c *verifC02Conn) CancelLongpoll(queryID int64) (rpc.LongpollCanceller, int64) { return nil, 0 }
func (c *verifC02Conn) FinishLongpoll(rpc.LongpollHandle) (*rpc.HandlerContext, error) {
	return nil, fmt.Errorf("verif")
}
func (c *verifC02Conn) DebugName() string                                 { return "verif" }
func (c *verifC02Conn) SendResponse(hctx *rpc.HandlerContext, err error)  {}
func (c *verifC02Conn) SendEmptyResponse(lh rpc.LongpollHandle)           {}
func (c *verifC02Conn) AccountResponseMem(*rpc.HandlerContext, int) error { return nil }
func (c *verifC02Conn) ListenAddr() net.Addr                              { return &net.TCPAddr{IP: net.IPv4(127, 0, 0, 1), Port: 1} }
func (c *verifC02Conn) LocalAddr() net.Addr                               { return &net.TCPAddr{IP: net.IPv4(127, 0, 0, 1), Port: 1} }
func (c *verifC02Conn) RemoteAddr() net.Addr                              { return &net.TCPAddr{IP: net.IPv4(127, 0, 0, 2), Port: 2} }
func (c *verifC02Conn) KeyID() [4]byte                                    { return [4]byte{} }
func (c *verifC02Conn) ProtocolVersion() uint32                           { return 0 }
func (c *verifC02Conn) ProtocolTransportID() byte                         { return 0 }
func (c *verifC02Conn) ConnectionID() uintptr                             { return 0 }

type VerifC02Agg struct {
	a    *Aggregator
	conn *verifC02Conn
}

// VerifC02NewAgg: aggregator of shard 1, replica replicaKey; mappings: the string -> int32 pairs the aggregator knows.
func VerifC02NewAgg(replicaKey int32, mappings map[string]int32) (*VerifC02Agg, error) {
	config := DefaultConfigAggregator()
	config.RemoteInitial.DenyOldAgents = false
	a := &Aggregator{
		bucketsToSend:   make(chan *aggregatorBucket),
		hostBudgetCache: map[data_model.TagUnion][]tlstatshouse.MetricBudget{},
		historicBuckets: map[uint32]*aggregatorBucket{},
		historicHosts:   [2][2]map[data_model.TagUnion]int64{{map[data_model.TagUnion]int64{}, map[data_model.TagUnion]int64{}}, {map[data_model.TagUnion]int64{}, map[data_model.TagUnion]int64{}}},
		config:          config,
		configR:         config.RemoteInitial,
		shardKey:        1,
		replicaKey:      replicaKey,
		mappingsStorage: metajournal.MakeMappings(context.Background(), time.Second, false, 16, []*data_model.ChunkedStorage2{nil}),
	}
	for s, v := range mappings {
		metajournal.VerifC02AddMapping(a.mappingsStorage, s, v)
	}
	a.estimator.Init()
	agentConfig := agent.DefaultConfig()
	agentConfig.Cluster = config.Cluster
	getConfigResult := tlstatshouse.GetConfigResult3{
		Addresses:          []string{"127.0.0.1:1", "127.0.0.1:2", "127.0.0.1:3"},
		ShardByMetricCount: 1,
	}
	sh2, err := agent.MakeAgent("tcp4", "", "", nil, agentConfig, "verif-host",
		format.TagValueIDComponentAggregator, nil, nil,
		func() (int64, string) { return 0, "" }, func() (int64, string) { return 0, "" },
		func(string, ...interface{}) {}, nil, &getConfigResult, nil)
	if err != nil {
		return nil, err
	}
	a.sh2 = sh2
	return &VerifC02Agg{a: a, conn: &verifC02Conn{}}, nil
}

type VerifC02Received struct {
	Warning  string
	Err      error
	Discard  bool
	Longpoll bool
	Rows     []*data_model.MultiItem // rows of user metrics (Metric > 0) left in the aggregator bucket by this request
}

// Receive opens a fresh recent window around t (real advanceRecentBuckets), then calls the real handleSendSourceBucket
// with the given source bucket as sent by the agent on hostName.
func (v *VerifC02Agg) Receive(t uint32, hostName string, bucket tlstatshouse.SourceBucket3Bytes) (res VerifC02Received) {
	a := v.a
	a.mu.Lock()
	a.recentBuckets = nil
	a.historicBuckets = map[uint32]*aggregatorBucket{}
	a.mu.Unlock()
	a.estimator.Init()
	_ = a.advanceRecentBuckets(time.Unix(int64(t), 0), true)
	var args tlstatshouse.SendSourceBucket3Bytes
	args.Time = t
	args.Header.ShardReplica = (a.shardKey-1)*3 + (a.replicaKey - 1)
	args.Header.ShardReplicaTotal = 3
	args.Header.HostName = []byte(hostName)
	args.Header.ComponentTag = format.TagValueIDComponentAgent
	args.BuildCommitTs = ^uint32(0)
	hctx := &rpc.HandlerContext{}
	hctx.ResetTo(v.conn, 1)
	v.conn.last = nil
	before := v.conn.calls
	res.Warning, res.Err, res.Discard = a.handleSendSourceBucket(hctx, args, bucket)
	if v.conn.calls == before {
		return res
	}
	res.Longpoll = true
	b, ok := v.conn.last.(*aggregatorBucket)
	if !ok {
		return res
	}
	for i := range b.shards {
		sh := &b.shards[i]
		sh.mu.Lock()
		for _, mi := range sh.MultiItems {
			if mi.Key.Metric > 0 {
				res.Rows = append(res.Rows, mi)
			}
		}
		sh.mu.Unlock()
	}
	return res
}

func (v *VerifC02Agg) ReplicaKey() int32 { return v.a.replicaKey }
