//go:build verif

package data_model

import "sort"

// VerifC02Hash32 is the 32-bit hash ChUnique.Insert stores for val (the model treats it as an opaque input).
func VerifC02Hash32(val uint64) uint32 {
	var ch ChUnique
	return ch.uintHash32(val)
}

// VerifC02UniqueItems returns the sorted set of hashes held by the sketch and its skipDegree.
func VerifC02UniqueItems(ch *ChUnique) (items []uint32, skipDegree uint32) {
	if ch.hasZeroItem {
		items = append(items, 0)
	}
	for _, x := range ch.buf {
		if x != 0 {
			items = append(items, x)
		}
	}
	sort.Slice(items, func(i, j int) bool { return items[i] < items[j] })
	return items, ch.skipDegree
}

// VerifC02SampleFactorLog2 returns MultiItem.sampleFactorLog2 (number of resample rounds the row went through).
func VerifC02SampleFactorLog2(s *MultiItem) int { return s.sampleFactorLog2 }
