//go:build verif

// verif-c26: correspondence + direct oracle for the storage-query where-clause builder
// (internal/api: escapeReplacer, writeWhere, writeMetricFilter, writeTagFilter, whereIntExpr, colInt, colStr).
//
// Every case builds one queryBuilder from hostile filter values, then
//
//	> cfg/fm/tf …   the inputs (replayed by the Lean model)
//	> where         < where <hex>            exact text appended by the REAL writeWhere
//	> lex <hex>     < lits … / < skel …      the REAL text (where-clause and complete query bodies) run through a
//	                                         ClickHouse quoted-literal scanner (Go here, Lean `scan` in the driver)
//	> re/row …      < sel 0|1                the REAL where text parsed and evaluated on a row (Go here); the model
//	                                         evaluates its condition tree
//
// Direct oracle (independent of the Lean model): (1) the query lexes, parentheses balance, the where text parses;
// (2) the token stream of the hostile query equals the token stream of the same query built from benign marker
// strings, with every marker literal decoding to the original user string (structure cannot change, each user
// string sits in exactly one literal that decodes back); (3) the parsed where-clause selects a row iff the row
// matches the requested inclusion/exclusion filters.
package main

import (
	"fmt"
	"hash/fnv"
	"regexp"
	"sort"
	"strconv"
	"strings"
	"time"

	"github.com/VKCOM/statshouse/internal/api"
	"github.com/VKCOM/statshouse/internal/data_model"
	"github.com/VKCOM/statshouse-go"
	"github.com/VKCOM/statshouse/internal/format"
	"github.com/VKCOM/statshouse/internal/metajournal"
	"github.com/VKCOM/statshouse/internal/verifx"
)

// ---------------------------------------------------------------- inputs

type tv struct {
	flags  int // 1 hasValue, 2 isMapped
	mapped int64
	s      string
}

func (t tv) real() data_model.TagValue {
	switch t.flags {
	case 3:
		return data_model.NewTagValue(t.s, t.mapped)
	case 1:
		return data_model.NewTagValueS(t.s)
	case 2:
		return data_model.NewTagValueM(t.mapped)
	}
	return data_model.TagValue{}
}

func (t tv) empty() bool { return t.flags == 3 && t.s == "" && t.mapped == 0 }

type tf struct {
	tagX int
	vals []tv
	re2  string
	// a filter given as the user's filter strings: vals is what the REAL GetTagFilter made of them
	fromStrings bool
	strs        []string
	strOK       []bool
}

type mref struct {
	id int32
	pk string // PreKeyTagID
}

type caseT struct {
	mode      int
	from, to  int64
	step      int64
	hasPreKey bool
	metric    *format.MetricMetaValue
	by        []int
	fim, fnm  []mref
	in, notin []tf
	// the rest of the query text
	whats      []int
	minMaxHost [2]bool
	sort       int
	utc        int64
	loc        *time.Location
	settings   string
	tag        format.MetricMetaTag
	numResults int
	mapping    map[string]int32 // string -> id mappings known to the handler
}

func (c *caseT) filters(sub func(string) string) (fi, fn data_model.TagFilters) {
	mk := func(ms []mref, fs []tf) data_model.TagFilters {
		var f data_model.TagFilters
		for _, m := range ms {
			f.Metrics = append(f.Metrics, &format.MetricMetaValue{MetricID: m.id, PreKeyTagID: m.pk})
		}
		for _, t := range fs {
			for _, v := range t.vals {
				v.s = sub(v.s)
				f.Tags[t.tagX].Values = append(f.Tags[t.tagX].Values, v.real())
			}
			f.Tags[t.tagX].Re2 = sub(t.re2)
		}
		return f
	}
	return mk(c.fim, c.in), mk(c.fnm, c.notin)
}

func (c *caseT) query(sub func(string) string) *api.VerifQuery {
	fi, fn := c.filters(sub)
	return &api.VerifQuery{Metric: c.metric, By: c.by, FilterIn: fi, FilterNotIn: fn, Mode: c.mode,
		Tag: c.tag, NumResults: c.numResults, What: c.whats, MinMaxHost: c.minMaxHost, Sort: c.sort, UtcOffset: c.utc}
}

func (c *caseT) lod() data_model.LOD {
	return data_model.LOD{FromSec: c.from, ToSec: c.to, StepSec: c.step, Version: data_model.Version6,
		HasPreKey: c.hasPreKey, Location: c.loc}
}

func (c *caseT) raw(tagX int) bool {
	return c.metric != nil && tagX < len(c.metric.Tags) && c.metric.Tags[tagX].Raw()
}

// ---------------------------------------------------------------- generators

var hostilePieces = []string{
	"'", "\\", "\\'", "''", "\\\\", "'\\", "\x00", "\n", "\t", "\r", "\b", "\x1b", "\"", "`", "(", ")", "))", ",", " ",
	" OR ", " AND ", "1=1", "--", "/*", "*/", ";", "#", "x", "N", "n", "0", "27", "\\x27", "\\N", "\\n", "\\0",
	"' OR 1=1 --", "') OR (''='", "\\') OR 1=1 --", "',''", "','", "')", "('", " GROUP BY ", " WHERE ", "match(", "IN (",
	"é", "я", "日本", "\xf0\x9f\x98\x80", "\xff", "\x80", "\xc3", "%", "_", ".", "*", "^", "$", "|", "[a-z]+", "a", "b", "env", "staging",
	"?", "=", "!=", "0=0", "stag1", "\x7f", "\x1f", "/",
}

// lenMode is the length regime of the current case (set from the case's PRNG in genCase): the builder, the escaping and the
// model are length-agnostic, so lengths are made adversarial on purpose — around format.MaxStringLen (128) and far beyond.
//
//	0 short strings only   1 mixed: some strings stretched   2 all-long: every non-empty string > 128 bytes   3 boundary: 127/128/129
var lenMode int

// targetLen draws a length: the boundary of MaxStringLen, or log-uniform 130 … 4096, or at least 512
func targetLen(r *verifx.Rng) int {
	switch r.Pick(35, 40, 25) {
	case 0:
		return []int{127, 128, 129}[r.Intn(3)]
	case 1:
		n := 130
		for k := r.Intn(6); k > 0; k-- {
			n *= 2
		}
		return n + r.Intn(n) // 130 … 8319, log-uniform over the octaves
	}
	return r.Range(512, 4096)
}

// stretch pads s with hostile pieces to exactly n bytes (it may cut a multi-byte sequence: the builder works on bytes)
func stretch(r *verifx.Rng, s string, n int) string {
	var sb strings.Builder
	sb.WriteString(s)
	for sb.Len() < n {
		if r.Chance(1, 3) {
			sb.WriteString(hostilePieces[r.Intn(len(hostilePieces))])
		} else {
			sb.WriteString("abcdefghijklmnopqrstuvwxyz0123456789"[:r.Range(1, 36)])
		}
	}
	return sb.String()[:n]
}

func hostile(r *verifx.Rng) string {
	s := hostileShort(r)
	if s == "" {
		return s // emptiness is structural (the empty value), keep it
	}
	switch lenMode {
	case 1:
		if r.Chance(2, 5) {
			return stretch(r, s, targetLen(r))
		}
	case 2:
		n := targetLen(r)
		if n <= 128 {
			n = 129 + r.Intn(4)
		}
		return stretch(r, s, n)
	case 3:
		if r.Chance(3, 4) {
			return stretch(r, s, []int{127, 128, 129}[r.Intn(3)])
		}
	}
	return s
}

func hostileShort(r *verifx.Rng) string {
	switch r.Pick(10, 50, 15, 10, 8) {
	case 0:
		return ""
	case 1:
		var sb strings.Builder
		for k := r.Range(1, 5); k > 0; k-- {
			sb.WriteString(hostilePieces[r.Intn(len(hostilePieces))])
		}
		return sb.String()
	case 2:
		return string(r.Bytes(r.Range(1, 6)))
	case 3:
		// only quote/backslash soup, often ending in a backslash
		b := make([]byte, r.Range(1, 7))
		for i := range b {
			b[i] = "'\\"[r.Intn(2)]
		}
		return string(b)
	default:
		return []string{"a", "b", "production", "staging", "one", "two", "0", " 0"}[r.Intn(8)]
	}
}

func regexes(r *verifx.Rng) string {
	if r.Chance(1, 2) {
		s := []string{"^a", "a|b", ".*", "^$", "[a-z]+", "'", "\\\\", "\\'", "^sta.*g$", "\\d+", "(", "\\"}[r.Intn(12)]
		if lenMode == 2 || (lenMode != 0 && r.Chance(1, 3)) {
			return stretch(r, s, targetLen(r)+2)
		}
		return s
	}
	return hostile(r)
}

var mappedPool = []int64{0, 1, 2, 3, 7, -1, -2, 100, 2147483647, -2147483648, 4294967296, 4294967297, 1 << 40, -(1 << 40),
	9223372036854775807, -9223372036854775808,
	// 64-bit raw values whose low half has bit 31 set (a sign-extended low half would corrupt the high half)
	3000000000, 0x180000000, 2147483648, 0x1ffffffff, 0x7fffffff80000001, -0x100000000 + 0x80000000, 0x12345678 << 32 | 0xdeadbeef}

func genValue(r *verifx.Rng) tv {
	switch r.Pick(30, 20, 20, 12, 4, 5, 5, 4) {
	case 0:
		return tv{3, mappedPool[r.Intn(len(mappedPool))], hostile(r)}
	case 1:
		return tv{1, 0, hostile(r)}
	case 2:
		return tv{2, mappedPool[r.Intn(len(mappedPool))], ""}
	case 3:
		return tv{3, 0, ""} // the "empty" value
	case 4:
		return tv{0, 0, ""} // zero TagValue
	case 5:
		return tv{3, int64(format.TagValueIDDoesNotExist), hostile(r)}
	case 6:
		return tv{3, 0, hostile(r)} // mapped to 0 with a string
	default:
		return tv{3, int64(r.Range(1, 5)), ""} // mapped with empty string
	}
}

var rawKinds = []string{"int", "uint", "hex", "ip", "timestamp", "lexenc_float"}

func genCase(r *verifx.Rng, h *verifx.H) *caseT {
	lenMode = r.Pick(76, 10, 8, 6)
	c := &caseT{mode: r.Intn(3)}
	c.from = int64(r.Range(0, 2000000))
	c.to = c.from + int64(r.Range(0, 100000))
	c.step = []int64{1, 5, 15, 60, 300, 900, 3600, 14400, 86400, 604800, 2678400, 2678400, 2678400, 7}[r.Intn(14)]
	c.loc = []*time.Location{time.UTC, time.FixedZone("MSK", 10800), time.FixedZone("Europe/Moscow", 10800), time.FixedZone("Etc/GMT+3", -10800)}[r.Intn(4)]
	c.utc = []int64{0, 10800, -18000, 3600 * 14}[r.Intn(4)]
	c.settings = []string{"", " SETTINGS optimize_aggregation_in_order=1", " SETTINGS optimize_aggregation_in_order=0,max_threads=4"}[r.Pick(15, 70, 15)]
	c.sort = r.Pick(40, 30, 30)
	c.minMaxHost = [2]bool{r.Chance(1, 3), r.Chance(1, 3)}
	c.numResults = []int{0, 5, 1000, -1}[r.Pick(10, 60, 25, 5)]
	// digest kinds 1..9 (the DigestWhat enum; a value >= DigestLast is not a DigestWhat and would index has[DigestLast]bool
	// out of range before the switch's default is reached); duplicates and avg/stddev/sum/count overlaps matter
	for k := r.Pick(5, 25, 25, 20, 10, 5, 5, 5); k > 0; k-- {
		w := r.Range(1, 9)
		if r.Chance(1, 3) {
			w = []int{1, 2, 5, 7, 3}[r.Intn(5)]
		}
		if r.Chance(1, 40) {
			w = 0 // a gap: later slots are ignored
		}
		c.whats = append(c.whats, w)
	}
	if c.whats == nil {
		c.whats = []int{}
	}
	c.hasPreKey = r.Chance(35, 100)
	var interesting []int // tag indices worth filtering on
	if r.Chance(80, 100) {
		m := &format.MetricMetaValue{MetricID: []int32{1000, 1, -5, 0, 2147483647}[r.Pick(60, 10, 10, 10, 10)], Name: "m"}
		n := []int{0, 1, 3, 8, 16, 48}[r.Intn(6)]
		m.Tags = make([]format.MetricMetaTag, n)
		leUsed := false
		for i := range m.Tags {
			// Index as restored from the position (RestoreCachedInfo tests it before assigning it: with Index still 0 a
			// raw64 kind on the LAST tag survives validation and whereIntExpr/raw64Expr then panics in format.TagID(48);
			// that is a metadata-validation matter outside this property, so the harness stays inside validated metadata)
			m.Tags[i].Index = int32(i)
			switch r.Pick(55, 25, 20) {
			case 1:
				m.Tags[i].RawKind = rawKinds[r.Intn(len(rawKinds))]
			case 2:
				m.Tags[i].RawKind = []string{"int64", "uint64"}[r.Intn(2)]
			}
			if m.Tags[i].RawKind != "" && r.Chance(1, 2) {
				// raw value comments: raw code -> comment; a duplicate comment is ambiguous, " x" is not a raw code
				m.Tags[i].ValueComments = map[string]string{}
				for _, k := range []string{" 1", " 2", " 7", " -4", " 0", " x", " 3000000000"} {
					if r.Chance(1, 2) {
						m.Tags[i].ValueComments[k] = []string{"one", "two", "dup", "dup", "it's", "a\\", "zero"}[r.Intn(7)]
					}
				}
			}
			if m.Tags[i].RawKind != "" && !leUsed && r.Chance(1, 6) {
				m.Tags[i].Name = "le"
				leUsed = true
			}
		}
		switch r.Pick(40, 50, 10) {
		case 1:
			m.PreKeyTagID = strconv.Itoa([]int{0, 1, 2, 7, 15, 46, 47}[r.Intn(7)])
			m.PreKeyFrom = 1
		case 2:
			m.PreKeyTagID = "bogus"
			m.PreKeyFrom = 1
		}
		_ = m.RestoreCachedInfo()
		c.metric = m
		for i := range m.Tags {
			if m.Tags[i].Raw() || m.Tags[i].Raw64() {
				interesting = append(interesting, i)
				if m.Tags[i].Raw64() && i+1 < format.MaxTags {
					interesting = append(interesting, i+1)
				}
			}
		}
		if k := format.TagIndex(m.PreKeyTagID); k >= 0 {
			interesting = append(interesting, k, k)
			if k > 0 {
				interesting = append(interesting, k-1)
			}
		}
	}
	genMetrics := func(maxN int) []mref {
		var res []mref
		for k := r.Intn(maxN + 1); k > 0; k-- {
			pk := ""
			if r.Chance(1, 2) {
				pk = strconv.Itoa(r.Intn(4))
			}
			res = append(res, mref{id: int32(r.Range(-3, 12)), pk: pk})
		}
		return res
	}
	if c.metric == nil || r.Chance(1, 4) {
		c.fim = genMetrics(3)
		c.fnm = genMetrics(2)
	}
	interesting = append(interesting, 0, 1, 2, 46, 47)
	pickTag := func() int {
		if r.Chance(3, 4) {
			return interesting[r.Intn(len(interesting))]
		}
		return r.Intn(format.MaxTags)
	}
	c.mapping = map[string]int32{}
	var mappedStrs []string
	for k := r.Range(2, 6); k > 0; k-- {
		ms := hostile(r)
		if ms == "" || strings.HasPrefix(ms, " ") {
			continue
		}
		if _, dup := c.mapping[ms]; !dup {
			c.mapping[ms] = []int32{1, 2, 3, 5, 17, 100, 2147483647}[r.Intn(7)]
			mappedStrs = append(mappedStrs, ms)
		}
	}
	userStr := func(x int) string {
		raw := c.raw(x)
		switch r.Pick(8, 14, 4, 12, 6, 6, 25, 25) {
		case 0:
			return ""
		case 1:
			return " 0" // format.TagValueCodeZero: the unset value
		case 2:
			return []string{" 00", " -0", " +0"}[r.Intn(3)]
		case 3:
			return []string{" 1", " 2", " 7", " -1", " -4", " +5", " 100", " -2"}[r.Intn(8)]
		case 4:
			return []string{" 3000000000", " 6442450944", " 9223372036854775807", " -9223372036854775808", " 2147483648"}[r.Intn(5)]
		case 5:
			return []string{" ", " abc", " 1x", " 99999999999999999999", " --1", " 1_0", "  1", " 0x10"}[r.Intn(8)] // not raw codes
		case 6:
			if raw && c.metric != nil && len(c.metric.Tags[x].ValueComments) > 0 && r.Chance(3, 4) {
				return []string{"one", "two", "dup", "it's", "a\\", "zero"}[r.Intn(6)]
			}
			if raw && c.metric.Tags[x].Name == "le" && r.Chance(3, 4) {
				return []string{"0.5", "1", "+Inf", "-2.25", "1e3", "NaN", "0"}[r.Intn(7)]
			}
			if len(mappedStrs) > 0 {
				return mappedStrs[r.Intn(len(mappedStrs))]
			}
		}
		return hostile(r)
	}
	genFilters := func() []tf {
		var res []tf
		used := map[int]bool{}
		for k := r.Pick(15, 35, 30, 15, 5); k > 0; k-- {
			x := pickTag()
			if used[x] {
				continue
			}
			used[x] = true
			f := tf{tagX: x}
			if r.Chance(45, 100) {
				// the user's filter strings; converted by the real GetTagFilter in main
				f.fromStrings = true
				for n := r.Pick(0, 45, 30, 15, 10); n > 0; n-- {
					f.strs = append(f.strs, userStr(x))
				}
				res = append(res, f)
				continue
			}
			if r.Chance(30, 100) {
				f.re2 = regexes(r)
			}
			for n := r.Pick(10, 25, 30, 20, 10, 5); n > 0; n-- {
				f.vals = append(f.vals, genValue(r))
			}
			if f.re2 != "" && r.Chance(85, 100) {
				// caller invariant (promql engine): with a regular expression only values the expression covers are passed
				var keep []tv
				for _, v := range f.vals {
					if !v.empty() && v.flags&1 != 0 && !reMatch(f.re2, v.s) {
						if v.flags == 3 {
							v.flags, v.s = 2, ""
						} else {
							continue
						}
					}
					keep = append(keep, v)
				}
				f.vals = keep
			}
			res = append(res, f)
		}
		sort.Slice(res, func(i, j int) bool { return res[i].tagX < res[j].tagX })
		return res
	}
	c.in = genFilters()
	c.notin = genFilters()
	// group-by: affects the alias used for raw64 tags
	for _, x := range interesting {
		if r.Chance(1, 4) {
			c.by = append(c.by, x)
		}
	}
	if r.Chance(1, 10) {
		c.by = append(c.by, format.ShardTagIndex)
	}
	if r.Chance(1, 3) { // order of group-by keys is the caller's
		for i := len(c.by) - 1; i > 0; i-- {
			j := r.Intn(i + 1)
			c.by[i], c.by[j] = c.by[j], c.by[i]
		}
	}
	if c.metric != nil && r.Chance(1, 3) {
		c.metric.ShardFixedKey = 1
	}
	// the tag of a tag-values query: flags from a donor metric (Raw/Raw64 are the tag's own), any index incl. string top (-1)
	donor := &format.MetricMetaValue{Tags: []format.MetricMetaTag{{}, {RawKind: "int", Index: 1}, {RawKind: "int64", Index: 2}}}
	_ = donor.RestoreCachedInfo()
	c.tag = donor.Tags[r.Pick(60, 20, 20)]
	c.tag.Index = int32(interesting[r.Intn(len(interesting))])
	if r.Chance(1, 8) {
		c.tag.Index = format.StringTopTagIndex
	}
	return c
}

// ---------------------------------------------------------------- ClickHouse quoted-literal scanner (Go side)

func isHex(c byte) bool {
	return c >= '0' && c <= '9' || c >= 'a' && c <= 'f' || c >= 'A' && c <= 'F'
}
func unhex(c byte) byte {
	switch {
	case c >= '0' && c <= '9':
		return c - '0'
	case c >= 'a' && c <= 'f':
		return c - 'a' + 10
	}
	return c - 'A' + 10
}

func escSeq(c byte) byte {
	switch c {
	case 'a':
		return 7
	case 'b':
		return 8
	case 'e':
		return 27
	case 'f':
		return 12
	case 'n':
		return 10
	case 'r':
		return 13
	case 't':
		return 9
	case 'v':
		return 11
	case '0':
		return 0
	}
	return c
}

// lexLit reads a single-quoted literal whose opening quote has been consumed; returns decoded bytes and the
// index after the closing quote. Mirrors ClickHouse Lexer quotedString + readQuotedStringInto/parseComplexEscapeSequence.
func lexLit(s string, i int) (dec []byte, next int, ok bool) {
	for i < len(s) {
		c := s[i]
		switch c {
		case '\'':
			if i+1 < len(s) && s[i+1] == '\'' {
				dec = append(dec, '\'')
				i += 2
				continue
			}
			return dec, i + 1, true
		case '\\':
			if i+1 >= len(s) {
				return nil, 0, false
			}
			d := s[i+1]
			switch d {
			case 'x':
				if i+3 >= len(s) || !isHex(s[i+2]) || !isHex(s[i+3]) {
					return nil, 0, false
				}
				dec = append(dec, unhex(s[i+2])*16+unhex(s[i+3]))
				i += 4
			case 'N':
				i += 2
			default:
				e := escSeq(d)
				if e != '\\' && e != '\'' && e != '"' && e != '`' && e != '/' && e != '=' && e > 31 {
					dec = append(dec, '\\')
				}
				dec = append(dec, e)
				i += 2
			}
		default:
			dec = append(dec, c)
			i++
		}
	}
	return nil, 0, false
}

// scan splits SQL text into decoded literals and the skeleton (text with every literal replaced by '?').
func scan(s string) (lits [][]byte, skel []byte, ok bool) {
	i := 0
	for i < len(s) {
		if s[i] == '\'' {
			d, n, ok := lexLit(s, i+1)
			if !ok {
				return nil, nil, false
			}
			if d == nil {
				d = []byte{}
			}
			lits = append(lits, d)
			skel = append(skel, '?')
			i = n
			continue
		}
		skel = append(skel, s[i])
		i++
	}
	return lits, skel, true
}

// ---------------------------------------------------------------- tokens, parser, evaluator (oracle side)

type tok struct {
	kind byte // 'w' word, 'n' number, 'p' punctuation, 's' string literal
	text string
}

func tokenize(skel []byte, lits [][]byte) ([]tok, error) {
	var ts []tok
	li := 0
	isWord := func(c byte) bool {
		return c == '_' || c >= '0' && c <= '9' || c >= 'a' && c <= 'z' || c >= 'A' && c <= 'Z'
	}
	for i := 0; i < len(skel); {
		c := skel[i]
		switch {
		case c == ' ':
			i++
		case c == '?':
			if li >= len(lits) {
				return nil, fmt.Errorf("placeholder without literal")
			}
			ts = append(ts, tok{'s', string(lits[li])})
			li++
			i++
		case c >= '0' && c <= '9' || (c == '-' && i+1 < len(skel) && skel[i+1] >= '0' && skel[i+1] <= '9' &&
			(len(ts) == 0 || ts[len(ts)-1].kind == 'p')):
			j := i + 1
			for j < len(skel) && (skel[j] >= '0' && skel[j] <= '9' || skel[j] == '.') {
				j++
			}
			if j < len(skel) && isWord(skel[j]) {
				return nil, fmt.Errorf("number runs into word at %d", j)
			}
			ts = append(ts, tok{'n', string(skel[i:j])})
			i = j
		case isWord(c):
			j := i
			for j < len(skel) && isWord(skel[j]) {
				j++
			}
			ts = append(ts, tok{'w', string(skel[i:j])})
			i = j
		case c == '!' || c == '>' || c == '<':
			if i+1 < len(skel) && skel[i+1] == '=' {
				ts = append(ts, tok{'p', string(skel[i : i+2])})
				i += 2
			} else if c == '!' {
				return nil, fmt.Errorf("stray '!'")
			} else {
				ts = append(ts, tok{'p', string(c)})
				i++
			}
		case c == '(' || c == ')' || c == ',' || c == '=' || c == '+' || c == '-':
			ts = append(ts, tok{'p', string(c)})
			i++
		default:
			return nil, fmt.Errorf("byte %#x outside the query alphabet at %d", c, i)
		}
	}
	if li != len(lits) {
		return nil, fmt.Errorf("literal count")
	}
	return ts, nil
}

func balanced(ts []tok) bool {
	d := 0
	for _, t := range ts {
		if t.kind == 'p' && t.text == "(" {
			d++
		}
		if t.kind == 'p' && t.text == ")" {
			d--
			if d < 0 {
				return false
			}
		}
	}
	return d == 0
}

// val is a ClickHouse value: a string, or an integer with its type (bits 8/16/32/64, signed). bits == 0 means "Int64"
// (literals and columns whose width does not matter here). Trusted ClickHouse typing rules used by the evaluator:
// tagN/pre_tag/_prekey are Int32 columns, _tagN aliases are Int64; toUInt32(x) keeps the low 32 bits as UInt32; toInt64(x)
// preserves the value; bitShiftLeft(a,n) has the type of a and shifts inside its width; bitOr(a,b) converts both operands,
// value-preserving, to the common type (widest width; signed if either is signed, one step wider when a signed and an unsigned
// operand have the same width) — so a negative Int32 operand is sign-extended; comparisons and IN compare by value.
type val struct {
	isStr  bool
	i      int64
	s      string
	bits   int
	signed bool
}

func (v val) width() (int, bool) {
	if v.bits == 0 {
		return 64, true
	}
	return v.bits, v.signed
}

func sameVal(a, b val) bool { return a.isStr == b.isStr && a.i == b.i && a.s == b.s }

// fit reinterprets the low `bits` bits of x as a signed/unsigned integer
func fit(x uint64, bits int, signed bool) int64 {
	if bits >= 64 {
		return int64(x)
	}
	x &= (uint64(1) << uint(bits)) - 1
	if signed && x>>(uint(bits)-1) == 1 {
		return int64(x | ^((uint64(1) << uint(bits)) - 1))
	}
	return int64(x)
}

type env struct {
	cols map[string]val
	re   func(re, s string) bool
}

type node interface{ eval(e *env) (val, error) }

type nLit struct{ v val }
type nCol struct{ name string }
type nCall struct {
	fn   string
	args []node
}
type nCmp struct {
	op   string
	l, r node
}
type nIn struct {
	neg  bool
	l    node
	list []node
}
type nNot struct{ x node }
type nBin struct {
	and  bool
	l, r node
}

func b2i(b bool) int {
	if b {
		return 1
	}
	return 0
}

func b2v(b bool) val {
	if b {
		return val{i: 1}
	}
	return val{}
}
func (n nLit) eval(e *env) (val, error) { return n.v, nil }
func (n nCol) eval(e *env) (val, error) {
	v, ok := e.cols[n.name]
	if !ok {
		return val{}, fmt.Errorf("unknown column %q", n.name)
	}
	return v, nil
}
func (n nCall) eval(e *env) (val, error) {
	var a []val
	for _, x := range n.args {
		v, err := x.eval(e)
		if err != nil {
			return val{}, err
		}
		a = append(a, v)
	}
	bad := fmt.Errorf("bad call %s/%d", n.fn, len(a))
	switch n.fn {
	case "match":
		if len(a) != 2 || !a[0].isStr || !a[1].isStr {
			return val{}, bad
		}
		return b2v(e.re(a[1].s, a[0].s)), nil
	case "toUInt32":
		if len(a) != 1 || a[0].isStr {
			return val{}, bad
		}
		return val{i: int64(uint32(a[0].i)), bits: 32, signed: false}, nil
	case "toInt64":
		if len(a) != 1 || a[0].isStr {
			return val{}, bad
		}
		return val{i: a[0].i, bits: 64, signed: true}, nil
	case "bitShiftLeft":
		if len(a) != 2 || a[0].isStr || a[1].isStr || a[1].i < 0 {
			return val{}, bad
		}
		w, sg := a[0].width()
		if a[1].i >= int64(w) {
			return val{bits: w, signed: sg}, nil
		}
		return val{i: fit(uint64(a[0].i)<<uint(a[1].i), w, sg), bits: w, signed: sg}, nil
	case "bitOr":
		if len(a) != 2 || a[0].isStr || a[1].isStr {
			return val{}, bad
		}
		w0, s0 := a[0].width()
		w1, s1 := a[1].width()
		w := w0
		if w1 > w {
			w = w1
		}
		sg := s0 || s1
		if s0 != s1 && ((s0 && w1 >= w0) || (s1 && w0 >= w1)) && w < 64 {
			w *= 2 // signed and unsigned of the same effective width: next wider signed type
		}
		// both operands are converted value-preservingly: their int64 representation IS the converted value
		return val{i: fit(uint64(a[0].i|a[1].i), w, sg), bits: w, signed: sg}, nil
	}
	return val{}, bad
}
func (n nCmp) eval(e *env) (val, error) {
	l, err := n.l.eval(e)
	if err != nil {
		return val{}, err
	}
	r, err := n.r.eval(e)
	if err != nil {
		return val{}, err
	}
	if l.isStr != r.isStr {
		return val{}, fmt.Errorf("type mismatch in %s", n.op)
	}
	eq := sameVal(l, r)
	switch n.op {
	case "=":
		return b2v(eq), nil
	case "!=":
		return b2v(!eq), nil
	case "<":
		return b2v(!l.isStr && l.i < r.i), nil
	case ">=":
		return b2v(!l.isStr && l.i >= r.i), nil
	case "<=":
		return b2v(!l.isStr && l.i <= r.i), nil
	case ">":
		return b2v(!l.isStr && l.i > r.i), nil
	}
	return val{}, fmt.Errorf("bad operator %s", n.op)
}
func (n nIn) eval(e *env) (val, error) {
	l, err := n.l.eval(e)
	if err != nil {
		return val{}, err
	}
	found := false
	for _, x := range n.list {
		v, err := x.eval(e)
		if err != nil {
			return val{}, err
		}
		if v.isStr != l.isStr {
			return val{}, fmt.Errorf("type mismatch in IN")
		}
		if sameVal(v, l) {
			found = true
		}
	}
	return b2v(found != n.neg), nil
}
func (n nNot) eval(e *env) (val, error) {
	v, err := n.x.eval(e)
	if err != nil || v.isStr {
		return val{}, fmt.Errorf("bad NOT operand: %v", err)
	}
	return b2v(v.i == 0), nil
}
func (n nBin) eval(e *env) (val, error) {
	l, err := n.l.eval(e)
	if err != nil || l.isStr {
		return val{}, fmt.Errorf("bad boolean operand: %v", err)
	}
	r, err := n.r.eval(e)
	if err != nil || r.isStr {
		return val{}, fmt.Errorf("bad boolean operand: %v", err)
	}
	if n.and {
		return b2v(l.i != 0 && r.i != 0), nil
	}
	return b2v(l.i != 0 || r.i != 0), nil
}

type parser struct {
	ts []tok
	p  int
}

func (p *parser) peek() tok {
	if p.p < len(p.ts) {
		return p.ts[p.p]
	}
	return tok{}
}
func (p *parser) isW(w string) bool { t := p.peek(); return t.kind == 'w' && t.text == w }
func (p *parser) isP(w string) bool { t := p.peek(); return t.kind == 'p' && t.text == w }
func (p *parser) expectP(w string) error {
	if !p.isP(w) {
		return fmt.Errorf("expected %q at token %d, have %q", w, p.p, p.peek().text)
	}
	p.p++
	return nil
}

func (p *parser) or() (node, error) {
	l, err := p.and()
	if err != nil {
		return nil, err
	}
	for p.isW("OR") {
		p.p++
		r, err := p.and()
		if err != nil {
			return nil, err
		}
		l = nBin{false, l, r}
	}
	return l, nil
}
func (p *parser) and() (node, error) {
	l, err := p.not()
	if err != nil {
		return nil, err
	}
	for p.isW("AND") {
		p.p++
		r, err := p.not()
		if err != nil {
			return nil, err
		}
		l = nBin{true, l, r}
	}
	return l, nil
}
func (p *parser) not() (node, error) {
	if p.isW("NOT") {
		p.p++
		x, err := p.not()
		if err != nil {
			return nil, err
		}
		return nNot{x}, nil
	}
	return p.pred()
}
func (p *parser) pred() (node, error) {
	if p.isP("(") {
		p.p++
		x, err := p.or()
		if err != nil {
			return nil, err
		}
		return x, p.expectP(")")
	}
	l, err := p.operand()
	if err != nil {
		return nil, err
	}
	t := p.peek()
	switch {
	case t.kind == 'p' && (t.text == "=" || t.text == "!=" || t.text == "<" || t.text == ">=" || t.text == "<=" || t.text == ">"):
		p.p++
		r, err := p.operand()
		if err != nil {
			return nil, err
		}
		return nCmp{t.text, l, r}, nil
	case p.isW("IN") || (p.isW("NOT") && p.p+1 < len(p.ts) && p.ts[p.p+1].kind == 'w' && p.ts[p.p+1].text == "IN"):
		neg := p.isW("NOT")
		if neg {
			p.p++
		}
		p.p++
		if err := p.expectP("("); err != nil {
			return nil, err
		}
		var list []node
		for {
			x, err := p.operand()
			if err != nil {
				return nil, err
			}
			list = append(list, x)
			if p.isP(",") {
				p.p++
				continue
			}
			break
		}
		return nIn{neg, l, list}, p.expectP(")")
	}
	return l, nil // a bare function call used as predicate (match)
}
func (p *parser) operand() (node, error) {
	t := p.peek()
	switch t.kind {
	case 'n':
		p.p++
		i, err := strconv.ParseInt(t.text, 10, 64)
		if err != nil {
			return nil, err
		}
		return nLit{val{i: i}}, nil
	case 's':
		p.p++
		return nLit{val{isStr: true, s: t.text}}, nil
	case 'w':
		if t.text == "AND" || t.text == "OR" || t.text == "NOT" || t.text == "IN" {
			return nil, fmt.Errorf("keyword %s where an operand is expected (token %d)", t.text, p.p)
		}
		p.p++
		if p.isP("(") {
			p.p++
			var args []node
			for {
				x, err := p.operand()
				if err != nil {
					return nil, err
				}
				args = append(args, x)
				if p.isP(",") {
					p.p++
					continue
				}
				break
			}
			return nCall{t.text, args}, p.expectP(")")
		}
		return nCol{t.text}, nil
	}
	return nil, fmt.Errorf("operand expected at token %d, have %q", p.p, t.text)
}

func parseWhere(ts []tok) (node, error) {
	if len(ts) == 0 || ts[0].kind != 'w' || ts[0].text != "WHERE" {
		return nil, fmt.Errorf("no WHERE")
	}
	p := &parser{ts: ts, p: 1}
	n, err := p.or()
	if err != nil {
		return nil, err
	}
	if p.p != len(ts) {
		return nil, fmt.Errorf("trailing tokens after token %d (%q)", p.p, p.peek().text)
	}
	return n, nil
}

func parseExpr(s string) (node, error) {
	lits, skel, ok := scan(s)
	if !ok {
		return nil, fmt.Errorf("does not lex")
	}
	ts, err := tokenize(skel, lits)
	if err != nil {
		return nil, err
	}
	p := &parser{ts: ts}
	n, err := p.operand()
	if err != nil {
		return nil, err
	}
	if p.p != len(ts) {
		return nil, fmt.Errorf("trailing tokens")
	}
	return n, nil
}

// reMatch stands for ClickHouse match(): RE2 where Go's regexp accepts the pattern, otherwise an arbitrary but fixed
// predicate of (pattern, subject) — the check only needs the SAME pattern and subject to reach it.
func reMatch(re, s string) bool {
	if rx, err := regexp.Compile(re); err == nil {
		return rx.MatchString(s)
	}
	f := fnv.New32a()
	f.Write([]byte(re))
	f.Write([]byte{0xff, 0})
	f.Write([]byte(s))
	return f.Sum32()&1 == 1
}


// ---------------------------------------------------------------- user filter strings -> TagValue (the REAL GetTagFilter)

type tagCtx struct {
	inTags, raw, isLe bool
	comments          map[string]string // raw code -> comment
}

func (c *caseT) ctx(x int) tagCtx {
	var t tagCtx
	if c.metric != nil && x >= 0 && x < len(c.metric.Tags) {
		t.inTags = true
		t.raw = c.metric.Tags[x].Raw()
		t.isLe = c.metric.Tags[x].Name == "le"
		t.comments = c.metric.Tags[x].ValueComments
	}
	return t
}

func leEncode(s string) (int64, bool) {
	f, err := strconv.ParseFloat(s, 32)
	if err != nil {
		return 0, false
	}
	return int64(statshouse.LexEncode(float32(f))), true
}

func convertFilterStrings(h *verifx.H, c *caseT) {
	var keys []string
	for k := range c.mapping {
		keys = append(keys, k)
	}
	sort.Strings(keys)
	for _, k := range keys {
		h.Op("map %s %d", verifx.Hex([]byte(k)), c.mapping[k])
	}
	ms := metajournal.VerifMappings(c.mapping)
	metric := c.metric
	if metric == nil {
		metric = &format.MetricMetaValue{} // the promql engine never passes a nil metric
	}
	for _, fs := range [][]tf{c.in, c.notin} {
		for fi := range fs {
			f := &fs[fi]
			if !f.fromStrings {
				continue
			}
			t := c.ctx(f.tagX)
			var cs []string
			var ck []string
			for k := range t.comments {
				ck = append(ck, k)
			}
			sort.Strings(ck)
			for _, k := range ck {
				cs = append(cs, verifx.Hex([]byte(k))+":"+verifx.Hex([]byte(t.comments[k])))
			}
			for _, s := range f.strs {
				le := "-"
				if e, ok := leEncode(s); ok {
					le = strconv.FormatInt(e, 10)
				}
				h.Op("gtf %d %d %d %s %s %s", b2i(t.inTags), b2i(t.raw), b2i(t.isLe), verifx.List(cs), le, verifx.Hex([]byte(s)))
				var v data_model.TagValue
				var err error
				func() {
					defer func() {
						if p := recover(); p != nil {
							err = fmt.Errorf("panic: %v", p)
							h.Viol("tagfilter-panic", "GetTagFilter(%q) panicked: %v", s, p)
						}
					}()
					v, err = api.VerifGetTagFilter(ms, metric, f.tagX, s)
				}()
				h.Stat("filterstring", 1)
				if err != nil {
					h.Obs("tv-error")
					h.Stat("filterstring.error", 1)
					f.strOK = append(f.strOK, false)
					continue
				}
				x := tv{mapped: v.Mapped, s: v.Value}
				if v.HasValue() {
					x.flags |= 1
				}
				if v.IsMapped() {
					x.flags |= 2
				}
				h.Obs("tv %d:%d:%s", x.flags, x.mapped, verifx.Hex([]byte(x.s)))
				f.strOK = append(f.strOK, true)
				f.vals = append(f.vals, x)
				switch {
				case s == " 0":
					h.Stat("filterstring.code-zero", 1)
				case strings.HasPrefix(s, " "):
					h.Stat("filterstring.raw-code", 1)
				case t.inTags && t.raw:
					h.Stat("filterstring.on-raw-tag", 1)
				case x.mapped == int64(format.TagValueIDDoesNotExist):
					h.Stat("filterstring.unmapped", 1)
				default:
					h.Stat("filterstring.mapped", 1)
				}
			}
		}
	}
}

// wantsStr is the meaning of one user filter string for a row's tag (n = integer value, str = string value), independent of
// GetTagFilter and of the query builder: "" and the raw code of zero are the EMPTY value (n = 0 and, unless the tag is raw, no
// string value); a raw code " k" is the integer k; on a raw tag a comment stands for its raw code and a bucket label for its
// lexicographic encoding; any other string is the value itself — stored mapped (n = its id) or as an unmapped string.
// ok = false: the string has no defined meaning (invalid code, ambiguous comment).
func wantsStr(s string, t tagCtx, mapping map[string]int32, n int64, str string) (want, ok bool) {
	raw := t.inTags && t.raw
	empty := n == 0 && (raw || str == "")
	if s == "" {
		return empty, true
	}
	if strings.HasPrefix(s, " ") {
		k, err := strconv.ParseInt(s[1:], 10, 64)
		if err != nil {
			return false, false
		}
		if k == 0 {
			return empty, true
		}
		return n == k, true
	}
	if raw {
		if t.isLe {
			if e, ok := leEncode(s); ok {
				return n == e, true
			}
		}
		var hits []string
		for k, cm := range t.comments {
			if cm == s {
				hits = append(hits, k)
			}
		}
		switch len(hits) {
		case 0:
			return false, true // no such comment: nothing is requested
		case 1:
			k, err := strconv.ParseInt(strings.TrimPrefix(hits[0], " "), 10, 64)
			if err != nil || !strings.HasPrefix(hits[0], " ") {
				return false, false
			}
			return n == k, true
		}
		return false, false
	}
	id, found := mapping[s]
	return (found && n == int64(id)) || str == s, true
}

// ---------------------------------------------------------------- specification of "the requested filters"

func specTag(isIn, raw bool, f tf, n int64, s string) bool {
	m := false
	for _, v := range f.vals {
		if v.empty() {
			if n == 0 && (raw || s == "") {
				m = true
			}
			continue
		}
		if v.flags&2 != 0 && n == v.mapped {
			m = true
		}
		if !raw && v.flags&1 != 0 && s == v.s {
			m = true
		}
	}
	if !raw && f.re2 != "" && reMatch(f.re2, s) {
		m = true
	}
	return m == isIn
}

// callerInvariant: with a regular expression the caller (promql engine) only adds values the expression already
// covers (MatchRegexp: values matching it; MatchNotRegexp: likewise), so their strings are subsumed by match().
func callerInvariant(f tf, raw bool) bool {
	if f.re2 == "" || raw {
		return true
	}
	for _, v := range f.vals {
		if !v.empty() && v.flags&1 != 0 && !reMatch(f.re2, v.s) {
			return false
		}
	}
	return true
}

// ---------------------------------------------------------------- main

func hexList(xs [][]byte) string {
	if len(xs) == 0 {
		return "-"
	}
	ss := make([]string, len(xs))
	for i, x := range xs {
		ss[i] = "h" + verifx.Hex(x) // "h-" is the empty literal
	}
	return strings.Join(ss, ",")
}

func valsStr(vs []tv) string {
	if len(vs) == 0 {
		return "-"
	}
	ss := make([]string, len(vs))
	for i, v := range vs {
		ss[i] = fmt.Sprintf("%d:%d:%s", v.flags, v.mapped, verifx.Hex([]byte(v.s)))
	}
	return strings.Join(ss, ",")
}

func mrefStr(c *caseT, ms []mref) string {
	if len(ms) == 0 {
		return "-"
	}
	ss := make([]string, len(ms))
	for i, m := range ms {
		ss[i] = fmt.Sprintf("%d:%d", m.id, format.TagIndex(m.pk))
	}
	return strings.Join(ss, ",")
}

func guard(h *verifx.H, f func()) {
	defer func() {
		if p := recover(); p != nil {
			h.Obs("panic")
			h.Viol("builder-panic", "query builder panicked: %v", p)
		}
	}()
	f()
}

func lexOp(h *verifx.H, what, text string) (lits [][]byte, skel []byte, ok bool) {
	h.Op("lex %s", verifx.Hex([]byte(text)))
	lits, skel, ok = scan(text)
	if !ok {
		h.Obs("lex-error")
		h.Viol("malformed-"+what, "query text does not lex (unterminated literal / broken escape): %q", text)
		return
	}
	h.Obs("lits %s", hexList(lits))
	h.Obs("skel %s", verifx.Hex(skel))
	return
}

// structure oracle: hostile text must tokenise exactly like the text built from benign markers
func structureOracle(h *verifx.H, what string, hostileText, benignText string, back map[string]string) []tok {
	hl, hs, ok := scan(hostileText)
	if !ok {
		return nil // already reported by lexOp
	}
	ht, err := tokenize(hs, hl)
	if err != nil {
		h.Viol("malformed-"+what, "query does not tokenise: %v: %q", err, hostileText)
		return nil
	}
	if !balanced(ht) {
		h.Viol("malformed-"+what, "unbalanced parentheses: %q", hostileText)
	}
	bl, bs, ok := scan(benignText)
	if !ok {
		h.Viol("benign-malformed-"+what, "benign query does not lex: %q", benignText)
		return ht
	}
	bt, err := tokenize(bs, bl)
	if err != nil {
		h.Viol("benign-malformed-"+what, "benign query does not tokenise: %v: %q", err, benignText)
		return ht
	}
	for i := range bt {
		if bt[i].kind == 's' {
			if o, ok := back[bt[i].text]; ok {
				bt[i].text = o
			}
		}
	}
	same := len(ht) == len(bt)
	for i := 0; same && i < len(ht); i++ {
		same = ht[i] == bt[i]
	}
	if !same {
		k := 0
		for k < len(ht) && k < len(bt) && ht[k] == bt[k] {
			k++
		}
		var a, b tok
		if k < len(ht) {
			a = ht[k]
		}
		if k < len(bt) {
			b = bt[k]
		}
		if a.kind == 's' && b.kind == 's' {
			h.Viol("literal-decodes-differently-"+what, "token %d: literal decodes to %q, user string was %q; query %q", k, a.text, b.text, hostileText)
		} else {
			h.Viol("structure-changed-"+what, "token %d is %c%q, with benign values it is %c%q; query %q", k, a.kind, a.text, b.kind, b.text, hostileText)
		}
	}
	return ht
}

func main() {
	h := verifx.New()
	h.Cases(func(i int, r *verifx.Rng) {
		c := genCase(r, h)
		lod := c.lod()
		convertFilterStrings(h, c)
		ident := func(s string) string { return s }
		// benign twin: every non-empty user string occurrence replaced by a unique alphanumeric marker
		back := map[string]string{}
		marker := func(s string) string {
			if s == "" {
				return ""
			}
			m := fmt.Sprintf("u%dx", len(back))
			back[m] = s
			return m
		}
		q := c.query(ident)
		qb := c.query(marker)

		// ---- inputs
		var raws, raw64s []int
		mid, pk, hasMetric := int32(0), -1, 0
		if c.metric != nil {
			hasMetric = 1
			mid = c.metric.MetricID
			pk = format.TagIndex(c.metric.PreKeyTagID)
			for k := range c.metric.Tags {
				if c.metric.Tags[k].Raw() {
					raws = append(raws, k)
				}
				if c.metric.Tags[k].Raw64() {
					raw64s = append(raw64s, k)
				}
			}
		}
		h.Op("cfg %d %d %d %d %d %d %d %s %s %s", c.mode, c.from, c.to, b2i(c.hasPreKey), hasMetric, mid, pk,
			verifx.List(raws), verifx.List(raw64s), verifx.List(c.by))
		h.Op("fm in %s", mrefStr(c, c.fim))
		h.Op("fm notin %s", mrefStr(c, c.fnm))
		hostileSeen, reSeen, emptySeen, rawSeen, raw64Seen, longSeen := false, false, false, false, false, false
		emit := func(pol string, fs []tf) {
			for _, f := range fs {
				h.Op("tf %s %d %s %s", pol, f.tagX, verifx.Hex([]byte(f.re2)), valsStr(f.vals))
				h.Stat("filter."+pol, 1)
				if c.raw(f.tagX) {
					rawSeen = true
					h.Stat("filter.rawtag", 1)
				}
				if c.metric != nil && f.tagX < len(c.metric.Tags) && c.metric.Tags[f.tagX].Raw64() {
					raw64Seen = true
					h.Stat("filter.raw64tag", 1)
				}
				if f.re2 != "" {
					reSeen = true
					h.Stat("filter.regex", 1)
				}
				if len(f.vals) == 0 && f.re2 == "" {
					h.Stat("filter.skipped-empty", 1)
				}
				for _, s := range append([]string{f.re2}, func() (ss []string) {
					for _, v := range f.vals {
						ss = append(ss, v.s)
						h.Stat(fmt.Sprintf("value.flags%d", v.flags), 1)
						if v.empty() {
							emptySeen = true
							h.Stat("value.empty", 1)
						}
					}
					return
				}()...) {
					if strings.ContainsAny(s, "'\\") {
						hostileSeen = true
						h.Stat("string.quote-or-backslash", 1)
					}
					if strings.HasSuffix(s, "\\") {
						h.Stat("string.trailing-backslash", 1)
					}
					if strings.ContainsAny(s, "\x00\n\t\r\b") {
						h.Stat("string.control", 1)
					}
					switch n := len(s); {
					case n == 127 || n == 128 || n == 129:
						h.Stat(fmt.Sprintf("string.len=%d", n), 1)
					case n >= 512:
						h.Stat("string.len>=512", 1)
						longSeen = true
					case n > 129:
						h.Stat("string.len130-511", 1)
						longSeen = true
					}
				}
			}
		}
		emit("in", c.in)
		emit("notin", c.notin)
		if hostileSeen {
			h.NonTrivial("quote-or-backslash")
		}
		if longSeen {
			h.NonTrivial("string-longer-than-128")
		}
		h.Stat(fmt.Sprintf("case.lenmode.%d", lenMode), 1)
		if reSeen {
			h.NonTrivial("regex")
		}
		if emptySeen {
			h.NonTrivial("empty-value")
		}
		if rawSeen {
			h.NonTrivial("raw-tag")
		}
		if raw64Seen {
			h.NonTrivial("raw64-tag")
		}
		h.Stat(fmt.Sprintf("mode.%d", c.mode), 1)
		if c.hasPreKey {
			h.Stat("lod.prekey", 1)
		}

		// ---- the real where-clause
		var where, whereB, body, bodyB string
		var bodyErr error
		guard(h, func() {
			where = api.VerifWhere(q, lod)
			whereB = api.VerifWhere(qb, lod)
			h.Op("where")
			h.Obs("where %s", verifx.Hex([]byte(where)))
		})
		if where == "" {
			return
		}
		sharded := 0
		if c.metric.Sharded() {
			sharded = 1
		}
		h.Op("qx %d %d %s %d %s %d %d %d %s %d %d %d %d", c.step, c.utc, verifx.Hex([]byte(c.loc.String())), sharded,
			verifx.List(c.whats), b2i(c.minMaxHost[0]), b2i(c.minMaxHost[1]), c.sort, verifx.Hex([]byte(c.settings)),
			c.tag.Index, b2i(c.tag.Raw()), b2i(c.tag.Raw64()), c.numResults)
		h.Stat(fmt.Sprintf("sort.%d", c.sort), 1)
		if c.step == 2678400 {
			h.Stat("step.month", 1)
		}
		guard(h, func() {
			body, bodyErr = api.VerifBody(q, lod, c.settings)
			bodyB, _ = api.VerifBody(qb, lod, c.settings)
			h.Op("body")
			if bodyErr != nil {
				h.Obs("body-error")
				h.Stat("body.error", 1)
			} else {
				h.Obs("body %s", verifx.Hex([]byte(body)))
			}
		})
		if bodyErr != nil {
			valid := true
			for _, w := range c.whats {
				if w == 0 {
					break
				}
				valid = valid && w >= 1 && w <= 9
			}
			if valid {
				h.Viol("builder-error", "query builder failed: %v", bodyErr)
			}
		}
		lexOp(h, "where", where)
		wt := structureOracle(h, "where", where, whereB, back)
		if body != "" {
			lexOp(h, "body", body)
			structureOracle(h, "body", body, bodyB, back)
			// the complete query embeds exactly the where text, once, between FROM and GROUP BY
			k := strings.Index(body, " WHERE ")
			if k < 0 || !strings.HasPrefix(body[k:], where) || !strings.HasPrefix(body[k+len(where):], " GROUP BY ") {
				h.Viol("where-not-embedded", "complete query does not embed the where text verbatim: %q", body)
			}
		}
		if wt == nil {
			return
		}
		tree, err := parseWhere(wt)
		if err != nil {
			h.Viol("malformed-where", "where-clause does not parse: %v: %q", err, where)
			return
		}

		// ---- rows
		involved := map[int]bool{}
		invariantOK := true
		for _, f := range c.in {
			involved[f.tagX] = true
			invariantOK = invariantOK && callerInvariant(f, c.raw(f.tagX))
		}
		for _, f := range c.notin {
			involved[f.tagX] = true
			invariantOK = invariantOK && callerInvariant(f, c.raw(f.tagX))
		}
		if !invariantOK {
			h.Stat("case.regex-caller-invariant-broken.semantic-oracle-skipped", 1)
		}
		var tags []int
		for x := range involved {
			tags = append(tags, x)
		}
		sort.Ints(tags)
		intExpr := map[int]node{}
		intText := map[int]string{}
		strCol := map[int]string{}
		// raw64 tags whose where expression reassembles the value from two plain Int32 columns (not an alias, no prekey column)
		raw64Plain := map[int]bool{}
		for _, x := range tags {
			s, err := api.VerifWhereIntExpr(q, lod, x)
			if err != nil {
				h.Viol("builder-error", "whereIntExpr: %v", err)
				return
			}
			n, err := parseExpr(s)
			if err != nil {
				h.Viol("malformed-where", "int expression %q does not parse: %v", s, err)
				return
			}
			intExpr[x] = n
			intText[x] = s
			strCol[x] = api.VerifColStr(q, x)
			if c.metric != nil && x < len(c.metric.Tags) && c.metric.Tags[x].Raw64() && x+1 < format.MaxTags {
				if _, isCol := n.(nCol); !isCol && api.VerifColInt(q, lod, x) == "tag"+strconv.Itoa(x) &&
					api.VerifColInt(q, lod, x+1) == "tag"+strconv.Itoa(x+1) {
					raw64Plain[x] = true
				}
			}
		}
		// ---- integer expressions: the real text evaluated with ClickHouse's typing vs the model's tree, on edge halves
		for _, x := range tags {
			halves := [][2]int64{{0, 0}, {0, -1}, {1, -2147483648}, {-1, -1294967296}, {2147483647, -1}, {-2147483648, 0}}
			for k := 0; k < 3; k++ {
				halves = append(halves, [2]int64{int64(int32(r.U64())), int64(int32(r.U64()))})
			}
			for _, fs := range [][]tf{c.in, c.notin} {
				for _, f := range fs {
					if f.tagX == x {
						for _, v := range f.vals {
							if v.flags&2 != 0 {
								halves = append(halves, [2]int64{int64(int32(v.mapped >> 32)), int64(int32(uint32(v.mapped)))})
							}
						}
					}
				}
			}
			if !raw64Plain[x] {
				halves = halves[:3]
			}
			for _, hl := range halves {
				alias, pkv := int64(r.Range(-5, 5)), int64(r.Range(-5, 5))
				ev := &env{cols: map[string]val{"_tag" + strconv.Itoa(x): {i: alias, bits: 64, signed: true}, "_prekey": {i: pkv, bits: 32, signed: true}}}
				if x+1 < format.MaxTags {
					ev.cols[api.VerifColInt(q, lod, x+1)] = val{i: hl[0], bits: 32, signed: true}
				}
				ev.cols[api.VerifColInt(q, lod, x)] = val{i: hl[1], bits: 32, signed: true}
				h.Op("iex %d %d %d %d %d", x, hl[0], hl[1], alias, pkv)
				got, err := intExpr[x].eval(ev)
				if err != nil {
					h.Obs("iex-error")
					h.Viol("malformed-where", "int expression %q cannot be evaluated: %v", intText[x], err)
					continue
				}
				w, sg := got.width()
				h.Obs("iex %d %d %d", b2i(w == 64), b2i(sg), got.i)
				h.Stat("iex", 1)
				if raw64Plain[x] {
					h.Stat("iex.raw64", 1)
					if hl[1] < 0 {
						h.Stat("iex.raw64.low-bit31", 1)
					}
					if enc := hl[0]<<32 | int64(uint32(hl[1])); got.i != enc {
						h.Viol("raw64-expr-wrong-value", "tag %d: hi=%d lo=%d encode %d but the where expression %q evaluates to %d", x, hl[0], hl[1], enc, intText[x], got.i)
					}
					// the select list reassembles the same value (it is what the alias _tagN means)
					if se, isCol := api.VerifSelectIntExpr(q, lod, x); !isCol {
						if sn, err := parseExpr(se); err == nil {
							if sv, err := sn.eval(ev); err == nil && sv.i != hl[0]<<32|int64(uint32(hl[1])) {
								h.Viol("raw64-select-wrong-value", "tag %d: hi=%d lo=%d but the select expression %q evaluates to %d", x, hl[0], hl[1], se, sv.i)
							}
						}
					}
				}
			}
		}
		var intPool []int64
		var strPool []string
		for _, fs := range [][]tf{c.in, c.notin} {
			for _, f := range fs {
				for _, v := range f.vals {
					if v.flags&2 != 0 && !(f.fromStrings && v.mapped == int64(format.TagValueIDDoesNotExist)) {
						intPool = append(intPool, v.mapped)
					}
					if v.flags&1 != 0 {
						strPool = append(strPool, v.s)
					}
				}
			}
		}
		reLog := map[[2]string]bool{}
		e := &env{re: func(re, s string) bool {
			b := reMatch(re, s)
			reLog[[2]string{re, s}] = b
			return b
		}}
		metricPool := []int64{int64(mid), 0, 5}
		for _, m := range c.fim {
			metricPool = append(metricPool, int64(m.id))
		}
		for _, m := range c.fnm {
			metricPool = append(metricPool, int64(m.id))
		}
		nrows := 8
		selected := 0
		for k := 0; k < nrows; k++ {
			cols := map[string]val{}
			pickInt := func() int64 {
				switch {
				case len(intPool) > 0 && r.Chance(1, 2):
					return intPool[r.Intn(len(intPool))]
				case r.Chance(1, 2):
					return 0
				}
				return int64(r.Range(-3, 9))
			}
			pickStr := func() string {
				switch {
				case len(strPool) > 0 && r.Chance(1, 2):
					return strPool[r.Intn(len(strPool))]
				case r.Chance(1, 2):
					return ""
				}
				return hostile(r)
			}
			for x := 0; x < format.MaxTags; x++ {
				cols["tag"+strconv.Itoa(x)] = val{bits: 32, signed: true}
				cols["stag"+strconv.Itoa(x)] = val{isStr: true}
				cols["_tag"+strconv.Itoa(x)] = val{bits: 64, signed: true}
			}
			pkx := -1
			if c.metric != nil {
				pkx = format.TagIndex(c.metric.PreKeyTagID)
			} else if len(c.fim) == 1 {
				pkx = format.TagIndex(c.fim[0].pk)
			}
			cols["_prekey"] = val{i: int64(int32(uint32(pickInt()))), bits: 32, signed: true}
			aim := r.Chance(1, 2) // a row meant to satisfy the positive filters and the fixed conditions
			for _, x := range tags {
				// logical target (n, s) for this tag: aimed at a requested value, the empty row, or random
				var tn int64
				var ts string
				var pool []tv
				inOnly := false
				for pi, fs := range [][]tf{c.in, c.notin} {
					for _, f := range fs {
						if f.tagX == x && (len(pool) == 0 || (!aim && r.Chance(1, 3))) && len(f.vals) > 0 {
							pool = f.vals
							inOnly = pi == 0
						}
					}
				}
				w0, w1, w2 := 45, 15, 40
				if aim && inOnly {
					w0, w1, w2 = 90, 5, 5
				} else if aim {
					w0, w1, w2 = 5, 25, 70
				}
				switch r.Pick(w0, w1, w2) {
				case 0:
					if len(pool) > 0 {
						v := pool[r.Intn(len(pool))]
						switch {
						case v.empty():
						case v.flags&2 != 0 && (v.flags&1 == 0 || (r.Chance(1, 2) && v.mapped != int64(format.TagValueIDDoesNotExist))):
							tn = v.mapped
						case v.flags&1 != 0:
							ts = v.s
						}
					} else {
						tn, ts = pickInt(), pickStr()
					}
				case 1:
				default:
					tn = pickInt()
					if r.Chance(1, 2) {
						ts = pickStr()
					}
				}
				cols["tag"+strconv.Itoa(x)] = val{i: int64(int32(uint32(tn))), bits: 32, signed: true}
				if x+1 < format.MaxTags && !involved[x+1] {
					cols["tag"+strconv.Itoa(x+1)] = val{i: int64(int32(tn >> 32)), bits: 32, signed: true}
				}
				cols["_tag"+strconv.Itoa(x)] = val{i: tn, bits: 64, signed: true}
				if x == pkx {
					cols["_prekey"] = val{i: int64(int32(uint32(tn))), bits: 32, signed: true}
				}
				cols["stag"+strconv.Itoa(x)] = val{isStr: true, s: ts}
			}
			cols["pre_tag"] = val{i: int64(int32(uint32([]int64{0, 0, 0, 0, 0, 0, 0, pickInt()}[r.Intn(8)]))), bits: 32, signed: true}
			cols["pre_stag"] = val{isStr: true, s: []string{"", "", "", "", "", "", "", "", "", "x"}[r.Intn(10)]}
			cols["index_type"] = val{i: []int64{0, 0, 0, 0, 0, 0, 0, 0, 0, 1}[r.Intn(10)]}
			if aim {
				cols["pre_tag"], cols["pre_stag"], cols["index_type"] = val{}, val{isStr: true}, val{}
			}
			cols["metric"] = val{i: metricPool[r.Intn(len(metricPool))]}
			if c.metric != nil && r.Chance(4, 5) {
				cols["metric"] = val{i: int64(mid)}
			}
			span := c.to - c.from
			tm := []int64{c.from - 1, c.from, c.to - 1, c.to}[r.Intn(4)] // the edges of [from, to)
			if r.Chance(3, 4) && span > 0 {
				tm = c.from + int64(r.Intn(int(span)))
			}
			cols["time"] = val{i: tm}
			e.cols = cols
			for kk := range reLog {
				delete(reLog, kk)
			}
			got, err := tree.eval(e)
			if err != nil {
				h.Viol("malformed-where", "where-clause cannot be evaluated: %v: %q", err, where)
				return
			}
			// logical values of the filtered tags in this row
			type lv struct {
				n int64
				s string
			}
			logical := map[int]lv{}
			for _, x := range tags {
				nv, err := intExpr[x].eval(e)
				if err != nil {
					h.Viol("malformed-where", "int expression cannot be evaluated: %v", err)
					return
				}
				logical[x] = lv{nv.i, cols[strCol[x]].s}
				if raw64Plain[x] {
					// the 64-bit raw value the two Int32 columns encode — NOT taken from the builder's expression
					hi, lo := cols["tag"+strconv.Itoa(x+1)].i, cols["tag"+strconv.Itoa(x)].i
					enc := hi<<32 | int64(uint32(lo))
					if nv.i != enc {
						h.Viol("raw64-expr-wrong-value", "tag %d: hi=%d lo=%d encode %d but the where expression %q evaluates to %d", x, hi, lo, enc, intText[x], nv.i)
					}
					logical[x] = lv{enc, cols[strCol[x]].s}
				}
			}
			// specification
			want := tm >= c.from && tm < c.to && cols["index_type"].i == 0 && cols["pre_tag"].i == 0 && cols["pre_stag"].s == ""
			single := int64(0)
			if c.metric != nil {
				single = int64(c.metric.MetricID)
			} else if len(c.fim) == 1 {
				single = int64(c.fim[0].id)
			}
			mv := cols["metric"].i
			if single != 0 || (len(c.fim) == 0 && len(c.fnm) == 0) {
				want = want && mv == single
			} else {
				if len(c.fim) > 0 {
					in := false
					for _, m := range c.fim {
						in = in || int64(m.id) == mv
					}
					want = want && in
				}
				for _, m := range c.fnm {
					want = want && int64(m.id) != mv
				}
			}
			specOK := true
			for pi, fs := range [][]tf{c.in, c.notin} {
				for _, f := range fs {
					if len(f.vals) == 0 && f.re2 == "" {
						continue
					}
					l := logical[f.tagX]
					if !f.fromStrings {
						want = want && specTag(pi == 0, c.raw(f.tagX), f, l.n, l.s)
						continue
					}
					// the filter as the user wrote it: the row matches iff its value is one of the listed strings' meanings
					if l.n == int64(format.TagValueIDDoesNotExist) {
						specOK = false // -2 is the reserved "no such mapping" id, rows do not hold it
					}
					m := false
					for k, us := range f.strs {
						if !f.strOK[k] {
							continue
						}
						w, ok := wantsStr(us, c.ctx(f.tagX), c.mapping, l.n, l.s)
						if !ok {
							specOK = false
						}
						m = m || w
					}
					want = want && (m == (pi == 0))
				}
			}
			if !specOK {
				h.Stat("rows.semantic-oracle-skipped", 1)
			}
			// regex table for the model: every (pattern, subject) the spec could consult
			for _, fs := range [][]tf{c.in, c.notin} {
				for _, f := range fs {
					if f.re2 != "" {
						reLog[[2]string{f.re2, logical[f.tagX].s}] = reMatch(f.re2, logical[f.tagX].s)
					}
				}
			}
			var keys [][2]string
			for kk := range reLog {
				keys = append(keys, kk)
			}
			sort.Slice(keys, func(a, b int) bool {
				if keys[a][0] != keys[b][0] {
					return keys[a][0] < keys[b][0]
				}
				return keys[a][1] < keys[b][1]
			})
			for _, kk := range keys {
				h.Op("re %s %s %d", verifx.Hex([]byte(kk[0])), verifx.Hex([]byte(kk[1])), b2i(reLog[kk]))
			}
			var ls []string
			for _, x := range tags {
				ls = append(ls, fmt.Sprintf("%d:%d:%s", x, logical[x].n, verifx.Hex([]byte(logical[x].s))))
			}
			h.Op("row %d %d %d %s %d %s", tm, cols["index_type"].i, cols["pre_tag"].i, verifx.Hex([]byte(cols["pre_stag"].s)), mv, verifx.List(ls))
			h.Obs("sel %d", got.i)
			if got.i != 0 {
				selected++
			}
			if invariantOK && specOK && (got.i != 0) != want {
				h.Viol("where-selects-wrong-rows", "row %v: where-clause gives %v, requested filters give %v; where=%q", ls, got.i != 0, want, where)
			}
		}
		h.Stat("rows", int64(nrows))
		h.Stat("rows.selected", int64(selected))
	})
	h.Done()
}
